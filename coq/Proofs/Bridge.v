(* Bridge between the hand-written models (Hand/*.v) and the definitions REGENERATED from the Python source by
   tools/py2v.py (Gen/*.v): every lemma states, for ALL scalar carriers [O : Ops T], that a hand model is equal to the
   generated definition.  Consequently every theorem proved about a hand model is a theorem about the regenerated
   definition, and a change of the Python source that changes the generated text breaks one of these proofs. *)
From Coq Require Import PrimFloat.
From Coq Require Import ZArith List Bool.
Import ListNotations.
From BZ Require Import Base.Ops Gen.Point Gen.BBox Gen.Line Gen.Quad Gen.Cubic Gen.Shapes Gen.Fit.
From BZ Require Import Hand.Shoelace Hand.Shapes Hand.Bounds Hand.Fit Hand.Heap.

(* ====================================================================================================== *)
(* path/geometricshapes.py                                                                                 *)
Section ShapesBridge.
Context {T : Type} (O : Ops T).

Lemma circular_superness_gen : circular_superness O = geometricshapes_CIRCULAR_SUPERNESS O.
Proof. reflexivity. Qed.

Lemma compass_gen :
  compass O (-1) 0 = geometricshapes_west O /\ compass O 1 0 = geometricshapes_east O /\
  compass O 0 1 = geometricshapes_north O /\ compass O 0 (-1) = geometricshapes_south O.
Proof. repeat split; reflexivity. Qed.

(* Rectangle(width, height, origin=o) *)
Lemma Rectangle_lines_gen (w h : T) (o : pt T) :
  Rectangle_lines O w h o = geometricshapes_Rectangle O w h (Some o).
Proof. reflexivity. Qed.
(* Rectangle(width, height): `if not origin: origin = Point(0, 0)` *)
Lemma Rectangle_lines_default_gen (w h : T) :
  Rectangle_lines O w h (P (ofZ O 0) (ofZ O 0)) = geometricshapes_Rectangle O w h None.
Proof. reflexivity. Qed.
Lemma Rectangle_lines_opt_gen (w h : T) (o : option (pt T)) :
  Rectangle_lines O w h (default_origin O o) = geometricshapes_Rectangle O w h o.
Proof. destruct o; reflexivity. Qed.

Lemma Square_lines_gen (w : T) (o : pt T) : Square_lines O w o = geometricshapes_Square O w (Some o).
Proof. reflexivity. Qed.
Lemma Square_lines_opt_gen (w : T) (o : option (pt T)) : Square_lines_opt O w o = geometricshapes_Square O w o.
Proof. destruct o; reflexivity. Qed.

(* Ellipse(x_radius, y_radius, origin=o, superness=s) *)
Lemma Ellipse_cubics_gen (xr yr : T) (o : pt T) (s : T) :
  Ellipse_cubics O xr yr o s = geometricshapes_Ellipse O xr yr (Some o) s.
Proof. reflexivity. Qed.
(* the keyword defaults: an omitted superness is the module constant CIRCULAR_SUPERNESS *)
Definition superness_or_default (s : option T) : T :=
  match s with Some s => s | None => geometricshapes_CIRCULAR_SUPERNESS O end.
Lemma Ellipse_cubics_opt_gen (xr yr : T) (o : option (pt T)) (s : option T) :
  Ellipse_cubics_opt O xr yr o s = geometricshapes_Ellipse O xr yr o (superness_or_default s).
Proof. destruct o, s; reflexivity. Qed.

Lemma Circle_cubics_gen (r : T) (o : pt T) (s : T) :
  Circle_cubics O r o s = geometricshapes_Circle O r (Some o) s.
Proof. reflexivity. Qed.
Lemma Circle_cubics_opt_gen (r : T) (o : option (pt T)) (s : option T) :
  Circle_cubics_opt O r o s = geometricshapes_Circle O r o (superness_or_default s).
Proof. destruct o, s; reflexivity. Qed.
End ShapesBridge.

(* ====================================================================================================== *)
(* boundingbox.py BoundingBox.extend, segment.py Segment.bounds.                                           *)
(* Hand.Bounds and Gen.{Line,Quad,Cubic} both define X_bounds: the names are qualified below.               *)
(* The hand model updates the four coordinates independently, the generated definition performs the four   *)
(* conditional assignments one after the other (each test reads the box left by the previous one) and, for *)
(* an unset box, first stores two clones of the point and then runs the same four tests: equal for every   *)
(* carrier, but only after a case analysis on the comparisons (not by conversion).                         *)
Section BoundsBridge.
Context {T : Type} (O : Ops T).

Lemma extend_pt_gen (b : option (bbox T)) (p : pt T) : extend_pt O b p = BBox_extend_Point O b p.
Proof.
  destruct p as [x y]. destruct b as [[[blx bly] [trx try_]]|]; cbv [extend_pt BBox_extend_Point Point_clone bl tr px py].
  - destruct (ltb O x blx), (ltb O y bly), (ltb O trx x), (ltb O try_ y); reflexivity.
  - repeat (match goal with |- context [ltb O ?a ?b] => destruct (ltb O a b) end; cbn [bl tr px py]); reflexivity.
Qed.

Lemma extend_box_gen (b : option (bbox T)) (o : bbox T) : extend_box O b o = BBox_extend_BBox O b o.
Proof. unfold extend_box, BBox_extend_BBox. rewrite !extend_pt_gen. destruct b; reflexivity. Qed.

Lemma bounds_of_map {A : Type} (f : A -> pt T) (l : list A) (acc : option (bbox T)) :
  fold_left (extend_pt O) (map f l) acc = fold_left (fun b t => BBox_extend_Point O b (f t)) l acc.
Proof. revert acc. induction l as [|a l IH]; intro acc; simpl; [reflexivity|]. rewrite IH, extend_pt_gen. reflexivity. Qed.

Lemma with_ends_app (ex : list T) : with_ends O ex = (ex ++ [ofZ O 0]) ++ [ofZ O 1].
Proof. unfold with_ends. rewrite <- app_assoc. reflexivity. Qed.

Lemma Line_bounds_gen (s : seg2 T) : Hand.Bounds.Line_bounds O s = Gen.Line.Line_bounds O s.
Proof. unfold Hand.Bounds.Line_bounds, Gen.Line.Line_bounds, bounds_of. rewrite bounds_of_map, with_ends_app. reflexivity. Qed.
Lemma Quad_bounds_gen (s : seg3 T) : Hand.Bounds.Quad_bounds O s = Gen.Quad.Quad_bounds O s.
Proof. unfold Hand.Bounds.Quad_bounds, Gen.Quad.Quad_bounds, bounds_of. rewrite bounds_of_map, with_ends_app. reflexivity. Qed.
Lemma Cubic_bounds_gen (s : seg4 T) : Hand.Bounds.Cubic_bounds O s = Gen.Cubic.Cubic_bounds O s.
Proof. unfold Hand.Bounds.Cubic_bounds, Gen.Cubic.Cubic_bounds, bounds_of. rewrite bounds_of_map, with_ends_app. reflexivity. Qed.

Lemma segment_bounds_gen (s : segment T) :
  segment_bounds O s = match s with SLine l => Gen.Line.Line_bounds O l | SQuad q => Gen.Quad.Quad_bounds O q
                                  | SCubic c => Gen.Cubic.Cubic_bounds O c end.
Proof. destruct s; cbn [segment_bounds]; [apply Line_bounds_gen | apply Quad_bounds_gen | apply Cubic_bounds_gen]. Qed.

(* BezierPath.bounds() on the boxes of the segments *)
Lemma path_bounds_gen (boxes : list (bbox T)) : path_bounds O boxes = fold_left (BBox_extend_BBox O) boxes None.
Proof.
  unfold path_bounds. generalize (@None (bbox T)). induction boxes as [|b l IH]; intro acc; [reflexivity|].
  cbn [fold_left]. rewrite extend_box_gen. apply IH.
Qed.
End BoundsBridge.

(* ====================================================================================================== *)
(* segment.py Segment.clone / Segment.round (Hand/Heap.v dispatches on the class of the segment)           *)
Section SegmentBridge.
Context {T : Type} (O : Ops T).
Lemma seg_clone_gen (s : segment T) :
  seg_clone O s = match s with SLine l => SLine (Line_clone O l) | SQuad q => SQuad (Quad_clone O q)
                             | SCubic c => SCubic (Cubic_clone O c) end.
Proof. destruct s as [[]|[]|[]]; reflexivity. Qed.
Lemma seg_rounded_gen (s : segment T) :
  seg_rounded O s = match s with SLine l => SLine (Line_round O l) | SQuad q => SQuad (Quad_round O q)
                               | SCubic c => SCubic (Cubic_round O c) end.
Proof. destruct s as [[]|[]|[]]; reflexivity. Qed.
End SegmentBridge.

(* ====================================================================================================== *)
(* utils/curvefitter.py: B0..B3, CurveFit.computeHook, CurveFit.estimateBi                                  *)
Section FitBridge.
Context {T : Type} (O : Ops T).

Lemma B0_gen (u : T) : B0 O u = curvefitter_B0 O u. Proof. reflexivity. Qed.
Lemma B1_gen (u : T) : B1 O u = curvefitter_B1 O u. Proof. reflexivity. Qed.
Lemma B2_gen (u : T) : B2 O u = curvefitter_B2 O u. Proof. reflexivity. Qed.
Lemma B3_gen (u : T) : B3 O u = curvefitter_B3 O u. Proof. reflexivity. Qed.

(* the hand model returns None where Python raises ZeroDivisionError (`dist / allowed` with allowed == 0); the generated
   definition is total (dvd), so the bridge is stated where the hand model returns a value, and as an exact case split *)
Lemma computeHook_gen_cases (ffrom to : pt T) (parameter : T) (bez : seg4 T) (cT : T) :
  computeHook O ffrom to parameter bez cT =
    (let dist := Point_distanceFrom O (Cubic_pointAtTime O bez parameter) (Point_lerp O ffrom to (lit O 1 2 0x1p-1%float)) in
     if negb (ltb O dist cT) && eqb O (add O (Point_distanceFrom O ffrom to) cT) (ofZ O 0) then None
     else Some (CurveFit_computeHook O ffrom to parameter bez cT)).
Proof.
  unfold computeHook, CurveFit_computeHook. cbv zeta.
  destruct (ltb O _ cT); cbn [negb andb]; [reflexivity|].
  destruct (eqb O _ (ofZ O 0)); reflexivity.
Qed.
Lemma computeHook_gen (ffrom to : pt T) (parameter : T) (bez : seg4 T) (cT x : T) :
  computeHook O ffrom to parameter bez cT = Some x -> x = CurveFit_computeHook O ffrom to parameter bez cT.
Proof.
  rewrite computeHook_gen_cases. cbv zeta. destruct (_ && _); [discriminate|]. intro H; injection H; auto.
Qed.

Lemma fold_left_sim {A B C : Type} (R : A -> B -> Prop) (f : A -> C -> A) (g : B -> C -> B) (l : list C) :
  (forall a b c, R a b -> R (f a c) (g b c)) -> forall a b, R a b -> R (fold_left f l a) (fold_left g l b).
Proof. intro step. induction l as [|c l IH]; intros a b H; [exact H|]. cbn. apply IH, step, H. Qed.

(* the hand model folds over (num.x, num.y, den), the generated definition over (num, den) *)
Lemma estimateBi_gen (bez : seg4 T) (data : list (pt T)) (u : list T) :
  estimateBi O bez data u = CurveFit_estimateBi O bez data u.
Proof.
  unfold estimateBi, CurveFit_estimateBi.
  pose (R := fun (a : T * T * T) (b : pt T * T) => snd b = snd a /\ fst b = P (fst (fst a)) (snd (fst a))).
  match goal with |- context [fold_left ?g (combine u data) ?b0] =>
    lazymatch type of b0 with (pt T * T)%type =>
      assert (H : R (fold_left (eb_step O bez) (combine u data) (ofZ O 0, ofZ O 0, f0 O)) (fold_left g (combine u data) b0));
      [ apply (fold_left_sim R); unfold R;
        [ intros [[nx ny] den] [num den'] [coeff datum] [H1 H2]; cbn in H1, H2; subst; split; reflexivity
        | split; reflexivity ]
      | destruct (fold_left g (combine u data) b0) as [num den'] ]
    end
  end.
  destruct (fold_left (eb_step O bez) (combine u data) (ofZ O 0, ofZ O 0, f0 O)) as [[nx ny] den].
  unfold R in H; cbn in H. destruct H as [H1 H2]; subst.
  change (lit O 0 1 0x0.0p+0%float) with (f0 O).
  destruct (neqb O den (f0 O)); reflexivity.
Qed.
End FitBridge.

(* CurveFit.chordLengthParameterize: None in the hand model is ZeroDivisionError (`n / v` with v == 0) *)
Section FitBridge2.
Context {T : Type} (O : Ops T).

Lemma last_cons {A : Type} (a d : A) (l : list A) : last (a :: l) d = last l a.
Proof. revert a d. induction l as [|b l IH]; intros a d; [reflexivity|]. change (last (a :: b :: l) d) with (last (b :: l) d). rewrite (IH b d), (IH b a). reflexivity. Qed.

(* the loop `for i in range(1, len(points))` reads points[i], points[i-1]: the generated fold runs over combine (tl points) points *)
Lemma chord_fold (rest : list (pt T)) : forall (prev : pt T) (v : T) (u : list T),
  fold_left (fun '(v, u) '(p, q) => (add O v (Point_distanceFrom O p q), u ++ [add O v (Point_distanceFrom O p q)]))
            (combine rest (prev :: rest)) (v, u)
  = (last (cumdist O prev v rest) v, u ++ cumdist O prev v rest).
Proof.
  induction rest as [|p r IH]; intros prev v u.
  - cbn. rewrite app_nil_r. reflexivity.
  - cbn [combine fold_left cumdist]. cbv zeta. rewrite IH. rewrite last_cons, <- app_assoc. reflexivity.
Qed.

Lemma chordLengthParameterize_gen_cases (points : list (pt T)) :
  chordLengthParameterize O points =
    (let cs := match points with [] => [] | p0 :: rest => cumdist O p0 (ofZ O 0) rest end in
     if eqb O (last cs (ofZ O 0)) (ofZ O 0) then None else Some (CurveFit_chordLengthParameterize O points)).
Proof.
  unfold chordLengthParameterize, CurveFit_chordLengthParameterize. cbv zeta.
  destruct points as [|p0 rest].
  - cbn. reflexivity.
  - cbn [tl]. rewrite (chord_fold rest p0 (ofZ O 0) [lit O 0 1 0x0.0p+0%float]). reflexivity.
Qed.
Lemma chordLengthParameterize_gen (points : list (pt T)) (l : list T) :
  chordLengthParameterize O points = Some l -> l = CurveFit_chordLengthParameterize O points.
Proof.
  rewrite chordLengthParameterize_gen_cases. cbv zeta. destruct (eqb O _ _); [discriminate|]. intro H; injection H; auto.
Qed.
End FitBridge2.
