(* C01, floating-point clause, the subdivision (retrace) identities:
   evaluating the FLOAT pieces of a FLOAT split in FLOAT arithmetic at a float parameter v agrees with the REAL
   original curve at the real parameter v*t (left piece) resp. t + v*(1-t) (right piece).

   Hypotheses: every control coordinate is a finite float of magnitude <= M, M <= Mcap/2 = 2^999 (the pieces have
   magnitude up to M + split error, which must still be <= Mcap for the evaluation theorem), t and v finite floats
   with real value in [0,1].
   Conclusions: every output coordinate is finite and within  K u M + K' eta  (u = 2^-53, eta = 2^-1075) of the real
   original curve at the mapped parameter:
       Line   K = 15,   K' = 9      ( 7 + 1 +  7,  4 + 1 +  4)
       Quad   K = 52,   K' = 17     (26 + 1 + 25,  6 + 1 + 10)
       Cubic  K = 148,  K' = 31     (74 + 1 + 73,  8 + 1 + 22)
   hence within 1e-12 * M + 2^-1070, and within 1e-12 * M when M >= 2^-1000.

   Route (triangle inequality):
     | evalF(pieceF, v) - evalR(orig, v*t) |
        <= | evalF(pieceF, v) - evalR(R(pieceF), v) |        evaluation theorem of C01float on the float piece
                                                             (its magnitude is <= M' = M + split error: section 2)
         + | evalR(R(pieceF), v) - evalR(pieceR, v) |        evaluation is 1-Lipschitz in the control points (section 1)
                                                             and R(pieceF) is within the split error of pieceR
         + 0                                                 real retrace identity of Proofs/C01.v
   The "+1" in K and K' absorbs the second-order terms  kEval*u*(split error). *)
From Coq Require Import ZArith Reals Lra Lia List QArith Qreals.
From Flocq Require Import Core.
From Coq Require Import Floats.
From BZ Require Import Base.Ops Base.FloatErr Gen.Point Gen.Line Gen.Quad Gen.Cubic
                       Proofs.Tactics Proofs.C01 Proofs.C01float.
Open Scope R_scope.

(* ------------------------------------------------------------------------------------------- *)
(* 1. real evaluation is 1-Lipschitz in the control points (Bernstein weights: >= 0, sum 1)      *)
(* ------------------------------------------------------------------------------------------- *)
Definition rpt_close (p q : pt R) (e : R) : Prop := Rabs (px p - px q) <= e /\ Rabs (py p - py q) <= e.
Definition rseg2_close (a b : seg2 R) e := rpt_close (l0 a) (l0 b) e /\ rpt_close (l1 a) (l1 b) e.
Definition rseg3_close (a b : seg3 R) e :=
  rpt_close (q0 a) (q0 b) e /\ rpt_close (q1 a) (q1 b) e /\ rpt_close (q2 a) (q2 b) e.
Definition rseg4_close (a b : seg4 R) e :=
  rpt_close (c0 a) (c0 b) e /\ rpt_close (c1 a) (c1 b) e /\ rpt_close (c2 a) (c2 b) e /\ rpt_close (c3 a) (c3 b) e.

Lemma conv2 w0 w1 d0 d1 e :
  0 <= w0 -> 0 <= w1 -> w0 + w1 = 1 -> Rabs d0 <= e -> Rabs d1 <= e -> Rabs (w0 * d0 + w1 * d1) <= e.
Proof.
  intros W0 W1 Hs A0 A1. apply Rabs_le_inv in A0, A1. apply Rabs_le.
  assert (E : e = w0 * e + w1 * e) by (rewrite <- Rmult_plus_distr_r, Hs; ring).
  assert (w0 * d0 <= w0 * e) by (apply Rmult_le_compat_l; lra).
  assert (w0 * - e <= w0 * d0) by (apply Rmult_le_compat_l; lra).
  assert (w1 * d1 <= w1 * e) by (apply Rmult_le_compat_l; lra).
  assert (w1 * - e <= w1 * d1) by (apply Rmult_le_compat_l; lra).
  lra.
Qed.
Lemma conv3 w0 w1 w2 d0 d1 d2 e :
  0 <= w0 -> 0 <= w1 -> 0 <= w2 -> w0 + w1 + w2 = 1 -> Rabs d0 <= e -> Rabs d1 <= e -> Rabs d2 <= e ->
  Rabs (w0 * d0 + w1 * d1 + w2 * d2) <= e.
Proof.
  intros W0 W1 W2 Hs A0 A1 A2. apply Rabs_le_inv in A0, A1, A2. apply Rabs_le.
  assert (E : e = w0 * e + w1 * e + w2 * e) by (rewrite <- !Rmult_plus_distr_r, Hs; ring).
  assert (w0 * d0 <= w0 * e) by (apply Rmult_le_compat_l; lra).
  assert (w0 * - e <= w0 * d0) by (apply Rmult_le_compat_l; lra).
  assert (w1 * d1 <= w1 * e) by (apply Rmult_le_compat_l; lra).
  assert (w1 * - e <= w1 * d1) by (apply Rmult_le_compat_l; lra).
  assert (w2 * d2 <= w2 * e) by (apply Rmult_le_compat_l; lra).
  assert (w2 * - e <= w2 * d2) by (apply Rmult_le_compat_l; lra).
  lra.
Qed.
Lemma conv4 w0 w1 w2 w3 d0 d1 d2 d3 e :
  0 <= w0 -> 0 <= w1 -> 0 <= w2 -> 0 <= w3 -> w0 + w1 + w2 + w3 = 1 ->
  Rabs d0 <= e -> Rabs d1 <= e -> Rabs d2 <= e -> Rabs d3 <= e ->
  Rabs (w0 * d0 + w1 * d1 + w2 * d2 + w3 * d3) <= e.
Proof.
  intros W0 W1 W2 W3 Hs A0 A1 A2 A3. apply Rabs_le_inv in A0, A1, A2, A3. apply Rabs_le.
  assert (E : e = w0 * e + w1 * e + w2 * e + w3 * e) by (rewrite <- !Rmult_plus_distr_r, Hs; ring).
  assert (w0 * d0 <= w0 * e) by (apply Rmult_le_compat_l; lra).
  assert (w0 * - e <= w0 * d0) by (apply Rmult_le_compat_l; lra).
  assert (w1 * d1 <= w1 * e) by (apply Rmult_le_compat_l; lra).
  assert (w1 * - e <= w1 * d1) by (apply Rmult_le_compat_l; lra).
  assert (w2 * d2 <= w2 * e) by (apply Rmult_le_compat_l; lra).
  assert (w2 * - e <= w2 * d2) by (apply Rmult_le_compat_l; lra).
  assert (w3 * d3 <= w3 * e) by (apply Rmult_le_compat_l; lra).
  assert (w3 * - e <= w3 * d3) by (apply Rmult_le_compat_l; lra).
  lra.
Qed.

Ltac wpos := repeat apply Rmult_le_pos; lra.

(* scalar forms: difference of two Bernstein combinations *)
Lemma line_scalar_lip a0 a1 b0 b1 s e : 0 <= s <= 1 ->
  Rabs (a0 - b0) <= e -> Rabs (a1 - b1) <= e ->
  Rabs ((1 - s) * (a0 - b0) + s * (a1 - b1)) <= e.
Proof. intros Hs A0 A1. apply conv2; try assumption; try wpos; try ring. Qed.
Lemma quad_scalar_lip a0 a1 a2 b0 b1 b2 s e : 0 <= s <= 1 ->
  Rabs (a0 - b0) <= e -> Rabs (a1 - b1) <= e -> Rabs (a2 - b2) <= e ->
  Rabs ((1 - s) * (1 - s) * (a0 - b0) + 2 * (1 - s) * s * (a1 - b1) + s * s * (a2 - b2)) <= e.
Proof. intros Hs A0 A1 A2. apply conv3; try assumption; try wpos; try ring. Qed.
Lemma cubic_scalar_lip a0 a1 a2 a3 b0 b1 b2 b3 s e : 0 <= s <= 1 ->
  Rabs (a0 - b0) <= e -> Rabs (a1 - b1) <= e -> Rabs (a2 - b2) <= e -> Rabs (a3 - b3) <= e ->
  Rabs ((1 - s) * (1 - s) * (1 - s) * (a0 - b0) + 3 * (1 - s) * (1 - s) * s * (a1 - b1)
        + 3 * (1 - s) * s * s * (a2 - b2) + s * s * s * (a3 - b3)) <= e.
Proof. intros Hs A0 A1 A2 A3. apply conv4; try assumption; try wpos; try ring. Qed.

Ltac lip_close L := eapply Rle_trans; [| apply L; eassumption]; right; f_equal; ring.

Theorem lerp_lipschitz (a b a' b' : pt R) s e : 0 <= s <= 1 ->
  rpt_close a a' e -> rpt_close b b' e ->
  rpt_close (Point_lerp ROps a b s) (Point_lerp ROps a' b' s) e.
Proof.
  intros Hs (A0 & B0) (A1 & B1).
  destruct a as [a0x a0y], b as [a1x a1y], a' as [b0x b0y], b' as [b1x b1y]. cbn [px py] in *.
  rcbv. split.
  - lip_close (line_scalar_lip a0x a1x b0x b1x s e).
  - lip_close (line_scalar_lip a0y a1y b0y b1y s e).
Qed.
Theorem line_eval_lipschitz (a b : seg2 R) s e : 0 <= s <= 1 ->
  rseg2_close a b e -> rpt_close (Line_pointAtTime ROps a s) (Line_pointAtTime ROps b s) e.
Proof. intros Hs (A & B). unfold Line_pointAtTime. apply lerp_lipschitz; assumption. Qed.
Theorem quad_eval_lipschitz (a b : seg3 R) s e : 0 <= s <= 1 ->
  rseg3_close a b e -> rpt_close (Quad_pointAtTime ROps a s) (Quad_pointAtTime ROps b s) e.
Proof.
  intros Hs ((A0 & B0) & (A1 & B1) & (A2 & B2)).
  destruct a as [[a0x a0y] [a1x a1y] [a2x a2y]], b as [[b0x b0y] [b1x b1y] [b2x b2y]]. cbn [px py q0 q1 q2] in *.
  rcbv. split.
  - lip_close (quad_scalar_lip a0x a1x a2x b0x b1x b2x s e).
  - lip_close (quad_scalar_lip a0y a1y a2y b0y b1y b2y s e).
Qed.
Theorem cubic_eval_lipschitz (a b : seg4 R) s e : 0 <= s <= 1 ->
  rseg4_close a b e -> rpt_close (Cubic_pointAtTime ROps a s) (Cubic_pointAtTime ROps b s) e.
Proof.
  intros Hs ((A0 & B0) & (A1 & B1) & (A2 & B2) & (A3 & B3)).
  destruct a as [[a0x a0y] [a1x a1y] [a2x a2y] [a3x a3y]], b as [[b0x b0y] [b1x b1y] [b2x b2y] [b3x b3y]].
  cbn [px py c0 c1 c2 c3] in *.
  rcbv. split.
  - lip_close (cubic_scalar_lip a0x a1x a2x a3x b0x b1x b2x b3x s e).
  - lip_close (cubic_scalar_lip a0y a1y a2y a3y b0y b1y b2y b3y s e).
Qed.

(* ------------------------------------------------------------------------------------------- *)
(* 2. magnitude of the pieces: real de Casteljau points stay within M, float ones within M + e   *)
(* ------------------------------------------------------------------------------------------- *)
Definition rpt_bnd (M : R) (p : pt R) : Prop := Rabs (px p) <= M /\ Rabs (py p) <= M.
Definition rseg2_bnd M (s : seg2 R) := rpt_bnd M (l0 s) /\ rpt_bnd M (l1 s).
Definition rseg3_bnd M (s : seg3 R) := rpt_bnd M (q0 s) /\ rpt_bnd M (q1 s) /\ rpt_bnd M (q2 s).
Definition rseg4_bnd M (s : seg4 R) := rpt_bnd M (c0 s) /\ rpt_bnd M (c1 s) /\ rpt_bnd M (c2 s) /\ rpt_bnd M (c3 s).

Lemma lerp_bnd M (a b : pt R) t : 0 <= t <= 1 -> rpt_bnd M a -> rpt_bnd M b -> rpt_bnd M (Point_lerp ROps a b t).
Proof.
  intros Ht (Ax & Ay) (Bx & By). destruct a as [ax ay], b as [bx by_]. cbn [px py] in *.
  rcbv. split.
  - eapply Rle_trans; [| apply (conv2 (1 - t) t ax bx M); try eassumption; lra]. right; f_equal; ring.
  - eapply Rle_trans; [| apply (conv2 (1 - t) t ay by_ M); try eassumption; lra]. right; f_equal; ring.
Qed.
Ltac conj_split := repeat lazymatch goal with |- _ /\ _ => split end.
Lemma line_split_bnd M (s : seg2 R) t : 0 <= t <= 1 -> rseg2_bnd M s ->
  rseg2_bnd M (fst (Line_splitAtTime ROps s t)) /\ rseg2_bnd M (snd (Line_splitAtTime ROps s t)).
Proof.
  intros Ht (H0 & H1). unfold Line_splitAtTime, Line_pointAtTime, rseg2_bnd. cbn [fst snd l0 l1].
  conj_split; repeat apply lerp_bnd; assumption.
Qed.
Lemma quad_split_bnd M (s : seg3 R) t : 0 <= t <= 1 -> rseg3_bnd M s ->
  rseg3_bnd M (fst (Quad_splitAtTime ROps s t)) /\ rseg3_bnd M (snd (Quad_splitAtTime ROps s t)).
Proof.
  intros Ht (H0 & H1 & H2). unfold Quad_splitAtTime, rseg3_bnd. cbv zeta. cbn [fst snd q0 q1 q2].
  conj_split; repeat apply lerp_bnd; assumption.
Qed.
Lemma cubic_split_bnd M (s : seg4 R) t : 0 <= t <= 1 -> rseg4_bnd M s ->
  rseg4_bnd M (fst (Cubic_splitAtTime ROps s t)) /\ rseg4_bnd M (snd (Cubic_splitAtTime ROps s t)).
Proof.
  intros Ht (H0 & H1 & H2 & H3). unfold Cubic_splitAtTime, rseg4_bnd. cbv zeta. cbn [fst snd c0 c1 c2 c3].
  conj_split; repeat apply lerp_bnd; assumption.
Qed.

(* float data seen in the reals *)
Lemma ptR_bnd M p : pt_ok M p -> rpt_bnd M (ptR p).
Proof. intros (_ & _ & A & B). split; assumption. Qed.
Lemma seg2R_bnd M s : seg2_ok M s -> rseg2_bnd M (seg2R s).
Proof. intros (A & B). split; apply ptR_bnd; assumption. Qed.
Lemma seg3R_bnd M s : seg3_ok M s -> rseg3_bnd M (seg3R s).
Proof. intros (A & B & C). repeat split; apply ptR_bnd; assumption. Qed.
Lemma seg4R_bnd M s : seg4_ok M s -> rseg4_bnd M (seg4R s).
Proof. intros (A & B & C & D). repeat split; apply ptR_bnd; assumption. Qed.

Lemma pt_close_R p q e : pt_close p q e -> rpt_close (ptR p) q e.
Proof. intros (_ & _ & A & B). split; assumption. Qed.
Lemma seg2_close_R a b e : seg2_close a b e -> rseg2_close (seg2R a) b e.
Proof. intros (A & B). split; apply pt_close_R; assumption. Qed.
Lemma seg3_close_R a b e : seg3_close a b e -> rseg3_close (seg3R a) b e.
Proof. intros (A & B & C). repeat split; apply pt_close_R; assumption. Qed.
Lemma seg4_close_R a b e : seg4_close a b e -> rseg4_close (seg4R a) b e.
Proof. intros (A & B & C & D). repeat split; apply pt_close_R; assumption. Qed.

(* a float point within e of a real point of magnitude <= M has magnitude <= M + e *)
Lemma pt_ok_of_close M e p q : pt_close p q e -> rpt_bnd M q -> pt_ok (M + e) p.
Proof.
  intros (Fx & Fy & Cx & Cy) (Bx & By). repeat split; try assumption.
  - replace (FR (px p)) with ((FR (px p) - px q) + px q) by ring. eapply Rle_trans; [apply Rabs_triang | lra].
  - replace (FR (py p)) with ((FR (py p) - py q) + py q) by ring. eapply Rle_trans; [apply Rabs_triang | lra].
Qed.
Lemma seg2_ok_of_close M e a b : seg2_close a b e -> rseg2_bnd M b -> seg2_ok (M + e) a.
Proof. intros (A0 & A1) (B0 & B1). split; eapply pt_ok_of_close; eassumption. Qed.
Lemma seg3_ok_of_close M e a b : seg3_close a b e -> rseg3_bnd M b -> seg3_ok (M + e) a.
Proof. intros (A0 & A1 & A2) (B0 & B1 & B2). repeat split; eapply pt_ok_of_close; eassumption. Qed.
Lemma seg4_ok_of_close M e a b : seg4_close a b e -> rseg4_bnd M b -> seg4_ok (M + e) a.
Proof. intros (A0 & A1 & A2 & A3) (B0 & B1 & B2 & B3). repeat split; eapply pt_ok_of_close; eassumption. Qed.

(* the float pieces satisfy the magnitude hypothesis with M' = M + (split error) *)
Theorem line_split_pieces_ok M (s : seg2 float) t :
  M <= Mcap -> seg2_ok M s -> t_ok t ->
  seg2_ok (M + (7 * u * M + 4 * eta)) (fst (Line_splitAtTime FOps s t)) /\
  seg2_ok (M + (7 * u * M + 4 * eta)) (snd (Line_splitAtTime FOps s t)).
Proof.
  intros HM Hs Ht. destruct (line_split_float_close M s t HM Hs Ht) as (CL & CR).
  destruct (line_split_bnd M (seg2R s) (FR t) (proj2 Ht) (seg2R_bnd M s Hs)) as (BL & BR).
  split; eapply seg2_ok_of_close; eassumption.
Qed.
Theorem quad_split_pieces_ok M (s : seg3 float) t :
  M <= Mcap -> seg3_ok M s -> t_ok t ->
  seg3_ok (M + (25 * u * M + 10 * eta)) (fst (Quad_splitAtTime FOps s t)) /\
  seg3_ok (M + (25 * u * M + 10 * eta)) (snd (Quad_splitAtTime FOps s t)).
Proof.
  intros HM Hs Ht. destruct (quad_split_float_close M s t HM Hs Ht) as (CL & CR).
  destruct (quad_split_bnd M (seg3R s) (FR t) (proj2 Ht) (seg3R_bnd M s Hs)) as (BL & BR).
  split; eapply seg3_ok_of_close; eassumption.
Qed.
Theorem cubic_split_pieces_ok M (s : seg4 float) t :
  M <= Mcap -> seg4_ok M s -> t_ok t ->
  seg4_ok (M + (73 * u * M + 22 * eta)) (fst (Cubic_splitAtTime FOps s t)) /\
  seg4_ok (M + (73 * u * M + 22 * eta)) (snd (Cubic_splitAtTime FOps s t)).
Proof.
  intros HM Hs Ht. destruct (cubic_split_float_close M s t HM Hs Ht) as (CL & CR).
  destruct (cubic_split_bnd M (seg4R s) (FR t) (proj2 Ht) (seg4R_bnd M s Hs)) as (BL & BR).
  split; eapply seg4_ok_of_close; eassumption.
Qed.

(* ------------------------------------------------------------------------------------------- *)
(* 3. tolerance arithmetic and the chain                                                        *)
(* ------------------------------------------------------------------------------------------- *)
Lemma pt_close_chain p q r e1 e2 : pt_close p q e1 -> rpt_close q r e2 -> pt_close p r (e1 + e2).
Proof.
  intros (Fx & Fy & Cx & Cy) (Dx & Dy). repeat split; try assumption.
  - replace (FR (px p) - px r) with ((FR (px p) - px q) + (px q - px r)) by ring.
    eapply Rle_trans; [apply Rabs_triang | lra].
  - replace (FR (py p) - py r) with ((FR (py p) - py q) + (py q - py r)) by ring.
    eapply Rle_trans; [apply Rabs_triang | lra].
Qed.

Lemma u_small : u <= / 8192.
Proof. fp_consts; lra. Qed.
Lemma eta_le_1 : eta <= 1.
Proof. fp_consts; lra. Qed.
Lemma Mcap_big : 1024 <= Mcap.
Proof. unfold Mcap. bpow_lit. lra. Qed.

(* M' = M + split error is still below the overflow cap when M <= Mcap / 2 *)
Lemma cap_pieces M j1 j2 : 0 <= M -> M <= Mcap / 2 -> 0 <= j1 <= 100 -> 0 <= j2 <= 100 ->
  M + (j1 * u * M + j2 * eta) <= Mcap.
Proof.
  intros HM0 HM Hj1 Hj2.
  pose proof u_small as Hu. pose proof u_pos as Hu0. pose proof eta_le_1 as He. pose proof eta_pos as He0.
  pose proof Mcap_big as Hc.
  assert (A : j1 * u <= / 2).
  { apply Rle_trans with (100 * / 8192); [| lra]. apply Rmult_le_compat; lra. }
  assert (B : j1 * u * M <= / 2 * M) by (apply Rmult_le_compat_r; lra).
  assert (C : j2 * eta <= 100 * 1) by (apply Rmult_le_compat; lra).
  lra.
Qed.

(* k1 u (M + (j1 u M + j2 eta)) + k2 eta + (j1 u M + j2 eta)  <=  (k1 + 1 + j1) u M + (k2 + 1 + j2) eta *)
Lemma tol_compose M k1 k2 j1 j2 K K' :
  0 <= M -> 0 <= k1 -> 0 <= j1 -> 0 <= j2 -> k1 * j1 * u <= 1 -> k1 * j2 * u <= 1 ->
  k1 + 1 + j1 <= K -> k2 + 1 + j2 <= K' ->
  k1 * u * (M + (j1 * u * M + j2 * eta)) + k2 * eta + (j1 * u * M + j2 * eta) <= K * u * M + K' * eta.
Proof.
  intros HM Hk1 Hj1 Hj2 H1 H2 HK HK'.
  pose proof u_pos as Hu0. pose proof eta_pos as He0.
  assert (UM : 0 <= u * M) by (apply Rmult_le_pos; lra).
  assert (A : 0 <= (1 - k1 * j1 * u) * (u * M)) by (apply Rmult_le_pos; lra).
  assert (B : 0 <= (1 - k1 * j2 * u) * eta) by (apply Rmult_le_pos; lra).
  assert (C : 0 <= (K - (k1 + 1 + j1)) * (u * M)) by (apply Rmult_le_pos; lra).
  assert (D : 0 <= (K' - (k2 + 1 + j2)) * eta) by (apply Rmult_le_pos; lra).
  assert (E : K * u * M + K' * eta - (k1 * u * (M + (j1 * u * M + j2 * eta)) + k2 * eta + (j1 * u * M + j2 * eta))
    = (1 - k1 * j1 * u) * (u * M) + (1 - k1 * j2 * u) * eta
      + (K - (k1 + 1 + j1)) * (u * M) + (K' - (k2 + 1 + j2)) * eta) by ring.
  lra.
Qed.

Lemma half_cap M : 0 <= M -> M <= Mcap / 2 -> M <= Mcap.
Proof. intros H0 H. pose proof Mcap_big. lra. Qed.

(* ------------------------------------------------------------------------------------------- *)
(* 4. the retrace identities in floating point                                                  *)
(* ------------------------------------------------------------------------------------------- *)
Theorem line_split_retrace_float M (s : seg2 float) t v :
  M <= Mcap / 2 -> seg2_ok M s -> t_ok t -> t_ok v ->
  pt_close (Line_pointAtTime FOps (fst (Line_splitAtTime FOps s t)) v)
           (Line_pointAtTime ROps (seg2R s) (FR v * FR t)) (15 * u * M + 9 * eta) /\
  pt_close (Line_pointAtTime FOps (snd (Line_splitAtTime FOps s t)) v)
           (Line_pointAtTime ROps (seg2R s) (FR t + FR v * (1 - FR t))) (15 * u * M + 9 * eta).
Proof.
  intros HM2 Hs Ht Hv.
  assert (HM0 := pt_ok_nonneg M _ (proj1 Hs)). assert (HM := half_cap M HM0 HM2).
  destruct (line_split_float_close M s t HM Hs Ht) as (CL & CR).
  destruct (line_split_pieces_ok M s t HM Hs Ht) as (OL & OR).
  assert (HM' : M + (7 * u * M + 4 * eta) <= Mcap) by (apply cap_pieces; lra).
  assert (T : 7 * u * (M + (7 * u * M + 4 * eta)) + 4 * eta + (7 * u * M + 4 * eta) <= 15 * u * M + 9 * eta).
  { pose proof u_small. pose proof u_pos. apply tol_compose; lra. }
  split.
  - rewrite <- line_split_left. eapply pt_close_weaken; [| exact T].
    eapply pt_close_chain; [apply (line_eval_float_close _ _ v HM' OL Hv) |].
    apply line_eval_lipschitz; [exact (proj2 Hv) | apply seg2_close_R; exact CL].
  - rewrite <- line_split_right. eapply pt_close_weaken; [| exact T].
    eapply pt_close_chain; [apply (line_eval_float_close _ _ v HM' OR Hv) |].
    apply line_eval_lipschitz; [exact (proj2 Hv) | apply seg2_close_R; exact CR].
Qed.

Theorem quad_split_retrace_float M (s : seg3 float) t v :
  M <= Mcap / 2 -> seg3_ok M s -> t_ok t -> t_ok v ->
  pt_close (Quad_pointAtTime FOps (fst (Quad_splitAtTime FOps s t)) v)
           (Quad_pointAtTime ROps (seg3R s) (FR v * FR t)) (52 * u * M + 17 * eta) /\
  pt_close (Quad_pointAtTime FOps (snd (Quad_splitAtTime FOps s t)) v)
           (Quad_pointAtTime ROps (seg3R s) (FR t + FR v * (1 - FR t))) (52 * u * M + 17 * eta).
Proof.
  intros HM2 Hs Ht Hv.
  assert (HM0 := pt_ok_nonneg M _ (proj1 Hs)). assert (HM := half_cap M HM0 HM2).
  destruct (quad_split_float_close M s t HM Hs Ht) as (CL & CR).
  destruct (quad_split_pieces_ok M s t HM Hs Ht) as (OL & OR).
  assert (HM' : M + (25 * u * M + 10 * eta) <= Mcap) by (apply cap_pieces; lra).
  assert (T : 26 * u * (M + (25 * u * M + 10 * eta)) + 6 * eta + (25 * u * M + 10 * eta) <= 52 * u * M + 17 * eta).
  { pose proof u_small. pose proof u_pos. apply tol_compose; lra. }
  split.
  - rewrite <- quad_split_left. eapply pt_close_weaken; [| exact T].
    eapply pt_close_chain; [apply (quad_eval_float_close _ _ v HM' OL Hv) |].
    apply quad_eval_lipschitz; [exact (proj2 Hv) | apply seg3_close_R; exact CL].
  - rewrite <- quad_split_right. eapply pt_close_weaken; [| exact T].
    eapply pt_close_chain; [apply (quad_eval_float_close _ _ v HM' OR Hv) |].
    apply quad_eval_lipschitz; [exact (proj2 Hv) | apply seg3_close_R; exact CR].
Qed.

Theorem cubic_split_retrace_float M (s : seg4 float) t v :
  M <= Mcap / 2 -> seg4_ok M s -> t_ok t -> t_ok v ->
  pt_close (Cubic_pointAtTime FOps (fst (Cubic_splitAtTime FOps s t)) v)
           (Cubic_pointAtTime ROps (seg4R s) (FR v * FR t)) (148 * u * M + 31 * eta) /\
  pt_close (Cubic_pointAtTime FOps (snd (Cubic_splitAtTime FOps s t)) v)
           (Cubic_pointAtTime ROps (seg4R s) (FR t + FR v * (1 - FR t))) (148 * u * M + 31 * eta).
Proof.
  intros HM2 Hs Ht Hv.
  assert (HM0 := pt_ok_nonneg M _ (proj1 Hs)). assert (HM := half_cap M HM0 HM2).
  destruct (cubic_split_float_close M s t HM Hs Ht) as (CL & CR).
  destruct (cubic_split_pieces_ok M s t HM Hs Ht) as (OL & OR).
  assert (HM' : M + (73 * u * M + 22 * eta) <= Mcap) by (apply cap_pieces; lra).
  assert (T : 74 * u * (M + (73 * u * M + 22 * eta)) + 8 * eta + (73 * u * M + 22 * eta) <= 148 * u * M + 31 * eta).
  { pose proof u_small. pose proof u_pos. apply tol_compose; lra. }
  split.
  - rewrite <- cubic_split_left. eapply pt_close_weaken; [| exact T].
    eapply pt_close_chain; [apply (cubic_eval_float_close _ _ v HM' OL Hv) |].
    apply cubic_eval_lipschitz; [exact (proj2 Hv) | apply seg4_close_R; exact CL].
  - rewrite <- cubic_split_right. eapply pt_close_weaken; [| exact T].
    eapply pt_close_chain; [apply (cubic_eval_float_close _ _ v HM' OR Hv) |].
    apply cubic_eval_lipschitz; [exact (proj2 Hv) | apply seg4_close_R; exact CR].
Qed.

(* ---- the meeting point in floats: the two pieces share the SAME float point (the generated code binds it once),
        and it is within the split bound of the real point at FR t ---- *)
Theorem line_split_meet_float M (s : seg2 float) t :
  M <= Mcap -> seg2_ok M s -> t_ok t ->
  l1 (fst (Line_splitAtTime FOps s t)) = l0 (snd (Line_splitAtTime FOps s t)) /\
  pt_close (l1 (fst (Line_splitAtTime FOps s t))) (Line_pointAtTime ROps (seg2R s) (FR t)) (7 * u * M + 4 * eta) /\
  pt_close (l0 (snd (Line_splitAtTime FOps s t))) (Line_pointAtTime ROps (seg2R s) (FR t)) (7 * u * M + 4 * eta).
Proof.
  intros HM Hs Ht. destruct (line_split_float_close M s t HM Hs Ht) as (CL & CR).
  pose proof (line_split_meet (seg2R s) (FR t)) as HR.
  destruct (Line_splitAtTime ROps (seg2R s) (FR t)) as [a b]. destruct HR as (E1 & E2 & _ & _).
  cbn [fst snd] in CL, CR. rewrite <- E1 at 1. rewrite <- E2.
  split; [reflexivity | split; [exact (proj2 CL) | exact (proj1 CR)]].
Qed.
Theorem quad_split_meet_float M (s : seg3 float) t :
  M <= Mcap -> seg3_ok M s -> t_ok t ->
  q2 (fst (Quad_splitAtTime FOps s t)) = q0 (snd (Quad_splitAtTime FOps s t)) /\
  pt_close (q2 (fst (Quad_splitAtTime FOps s t))) (Quad_pointAtTime ROps (seg3R s) (FR t)) (25 * u * M + 10 * eta) /\
  pt_close (q0 (snd (Quad_splitAtTime FOps s t))) (Quad_pointAtTime ROps (seg3R s) (FR t)) (25 * u * M + 10 * eta).
Proof.
  intros HM Hs Ht. destruct (quad_split_float_close M s t HM Hs Ht) as (CL & CR).
  pose proof (quad_split_meet (seg3R s) (FR t)) as HR.
  destruct (Quad_splitAtTime ROps (seg3R s) (FR t)) as [a b]. destruct HR as (E1 & E2 & _ & _).
  cbn [fst snd] in CL, CR. rewrite <- E1 at 1. rewrite <- E2.
  split; [reflexivity | split; [exact (proj2 (proj2 CL)) | exact (proj1 CR)]].
Qed.
Theorem cubic_split_meet_float M (s : seg4 float) t :
  M <= Mcap -> seg4_ok M s -> t_ok t ->
  c3 (fst (Cubic_splitAtTime FOps s t)) = c0 (snd (Cubic_splitAtTime FOps s t)) /\
  pt_close (c3 (fst (Cubic_splitAtTime FOps s t))) (Cubic_pointAtTime ROps (seg4R s) (FR t)) (73 * u * M + 22 * eta) /\
  pt_close (c0 (snd (Cubic_splitAtTime FOps s t))) (Cubic_pointAtTime ROps (seg4R s) (FR t)) (73 * u * M + 22 * eta).
Proof.
  intros HM Hs Ht. destruct (cubic_split_float_close M s t HM Hs Ht) as (CL & CR).
  pose proof (cubic_split_meet (seg4R s) (FR t)) as HR.
  destruct (Cubic_splitAtTime ROps (seg4R s) (FR t)) as [a b]. destruct HR as (E1 & E2 & _ & _).
  cbn [fst snd] in CL, CR. rewrite <- E1 at 1. rewrite <- E2.
  split; [reflexivity | split; [exact (proj2 (proj2 (proj2 CL))) | exact (proj1 CR)]].
Qed.

(* ------------------------------------------------------------------------------------------- *)
(* 5. the 1e-12 forms                                                                           *)
(* ------------------------------------------------------------------------------------------- *)
Lemma conj_weaken p q p' q' e e' : pt_close p q e /\ pt_close p' q' e -> e <= e' -> pt_close p q e' /\ pt_close p' q' e'.
Proof. intros (A & B) H. split; eapply pt_close_weaken; eassumption. Qed.

Theorem line_split_retrace_float_1e12 M (s : seg2 float) t v :
  M <= Mcap / 2 -> seg2_ok M s -> t_ok t -> t_ok v ->
  pt_close (Line_pointAtTime FOps (fst (Line_splitAtTime FOps s t)) v)
           (Line_pointAtTime ROps (seg2R s) (FR v * FR t)) (1e-12 * M + bpow radix2 (-1070)) /\
  pt_close (Line_pointAtTime FOps (snd (Line_splitAtTime FOps s t)) v)
           (Line_pointAtTime ROps (seg2R s) (FR t + FR v * (1 - FR t))) (1e-12 * M + bpow radix2 (-1070)).
Proof.
  intros HM Hs Ht Hv. eapply conj_weaken; [apply (line_split_retrace_float M); assumption |].
  apply tol_abs; [exact (pt_ok_nonneg M _ (proj1 Hs)) | lia | lia].
Qed.
Theorem quad_split_retrace_float_1e12 M (s : seg3 float) t v :
  M <= Mcap / 2 -> seg3_ok M s -> t_ok t -> t_ok v ->
  pt_close (Quad_pointAtTime FOps (fst (Quad_splitAtTime FOps s t)) v)
           (Quad_pointAtTime ROps (seg3R s) (FR v * FR t)) (1e-12 * M + bpow radix2 (-1070)) /\
  pt_close (Quad_pointAtTime FOps (snd (Quad_splitAtTime FOps s t)) v)
           (Quad_pointAtTime ROps (seg3R s) (FR t + FR v * (1 - FR t))) (1e-12 * M + bpow radix2 (-1070)).
Proof.
  intros HM Hs Ht Hv. eapply conj_weaken; [apply (quad_split_retrace_float M); assumption |].
  apply tol_abs; [exact (pt_ok_nonneg M _ (proj1 Hs)) | lia | lia].
Qed.
Theorem cubic_split_retrace_float_1e12 M (s : seg4 float) t v :
  M <= Mcap / 2 -> seg4_ok M s -> t_ok t -> t_ok v ->
  pt_close (Cubic_pointAtTime FOps (fst (Cubic_splitAtTime FOps s t)) v)
           (Cubic_pointAtTime ROps (seg4R s) (FR v * FR t)) (1e-12 * M + bpow radix2 (-1070)) /\
  pt_close (Cubic_pointAtTime FOps (snd (Cubic_splitAtTime FOps s t)) v)
           (Cubic_pointAtTime ROps (seg4R s) (FR t + FR v * (1 - FR t))) (1e-12 * M + bpow radix2 (-1070)).
Proof.
  intros HM Hs Ht Hv. eapply conj_weaken; [apply (cubic_split_retrace_float M); assumption |].
  apply tol_abs; [exact (pt_ok_nonneg M _ (proj1 Hs)) | lia | lia].
Qed.

(* purely relative, for M >= 2^-1000 *)
Theorem line_split_retrace_float_1e12_rel M (s : seg2 float) t v :
  bpow radix2 (-1000) <= M <= Mcap / 2 -> seg2_ok M s -> t_ok t -> t_ok v ->
  pt_close (Line_pointAtTime FOps (fst (Line_splitAtTime FOps s t)) v)
           (Line_pointAtTime ROps (seg2R s) (FR v * FR t)) (1e-12 * M) /\
  pt_close (Line_pointAtTime FOps (snd (Line_splitAtTime FOps s t)) v)
           (Line_pointAtTime ROps (seg2R s) (FR t + FR v * (1 - FR t))) (1e-12 * M).
Proof.
  intros (HM1 & HM) Hs Ht Hv. eapply conj_weaken; [apply (line_split_retrace_float M); assumption |].
  apply tol_rel; [exact HM1 | lia | lia].
Qed.
Theorem quad_split_retrace_float_1e12_rel M (s : seg3 float) t v :
  bpow radix2 (-1000) <= M <= Mcap / 2 -> seg3_ok M s -> t_ok t -> t_ok v ->
  pt_close (Quad_pointAtTime FOps (fst (Quad_splitAtTime FOps s t)) v)
           (Quad_pointAtTime ROps (seg3R s) (FR v * FR t)) (1e-12 * M) /\
  pt_close (Quad_pointAtTime FOps (snd (Quad_splitAtTime FOps s t)) v)
           (Quad_pointAtTime ROps (seg3R s) (FR t + FR v * (1 - FR t))) (1e-12 * M).
Proof.
  intros (HM1 & HM) Hs Ht Hv. eapply conj_weaken; [apply (quad_split_retrace_float M); assumption |].
  apply tol_rel; [exact HM1 | lia | lia].
Qed.
Theorem cubic_split_retrace_float_1e12_rel M (s : seg4 float) t v :
  bpow radix2 (-1000) <= M <= Mcap / 2 -> seg4_ok M s -> t_ok t -> t_ok v ->
  pt_close (Cubic_pointAtTime FOps (fst (Cubic_splitAtTime FOps s t)) v)
           (Cubic_pointAtTime ROps (seg4R s) (FR v * FR t)) (1e-12 * M) /\
  pt_close (Cubic_pointAtTime FOps (snd (Cubic_splitAtTime FOps s t)) v)
           (Cubic_pointAtTime ROps (seg4R s) (FR t + FR v * (1 - FR t))) (1e-12 * M).
Proof.
  intros (HM1 & HM) Hs Ht Hv. eapply conj_weaken; [apply (cubic_split_retrace_float M); assumption |].
  apply tol_rel; [exact HM1 | lia | lia].
Qed.

(* ------------------------------------------------------------------------------------------- *)
(* 6. non-vacuity: the suite's quadratic (150,40)(80,30)(105,150), t = 0.2 (binary64), v = 0.5   *)
(* ------------------------------------------------------------------------------------------- *)
Definition ex_v : float := 0x1p-1%float.
Lemma ex_v_ok : t_ok ex_v.
Proof. unfold t_ok, ex_v. split; [lit_finite | split; lit_le]. Qed.
Lemma ex_M_half_ok : bpow radix2 (-1000) <= 150 <= Mcap / 2.
Proof. unfold Mcap. split; bpow_lit; lra. Qed.
Example quad_split_retrace_example :
  pt_close (Quad_pointAtTime FOps (fst (Quad_splitAtTime FOps ex_quad ex_t)) ex_v)
           (Quad_pointAtTime ROps (seg3R ex_quad) (FR ex_v * FR ex_t)) (1e-12 * 150) /\
  pt_close (Quad_pointAtTime FOps (snd (Quad_splitAtTime FOps ex_quad ex_t)) ex_v)
           (Quad_pointAtTime ROps (seg3R ex_quad) (FR ex_t + FR ex_v * (1 - FR ex_t))) (1e-12 * 150).
Proof. exact (quad_split_retrace_float_1e12_rel 150 ex_quad ex_t ex_v ex_M_half_ok ex_quad_ok ex_t_ok ex_v_ok). Qed.
Example quad_split_meet_example :
  q2 (fst (Quad_splitAtTime FOps ex_quad ex_t)) = q0 (snd (Quad_splitAtTime FOps ex_quad ex_t)) /\
  pt_close (q2 (fst (Quad_splitAtTime FOps ex_quad ex_t))) (Quad_pointAtTime ROps (seg3R ex_quad) (FR ex_t))
           (25 * u * 150 + 10 * eta).
Proof.
  destruct (quad_split_meet_float 150 ex_quad ex_t (proj2 ex_M_ok) ex_quad_ok ex_t_ok) as (A & B & _).
  exact (conj A B).
Qed.
