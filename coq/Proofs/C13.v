(* C13: curve-preserving Boolean operations invent no geometry -- provenance of every result segment through the
   reconstruction loop, the LUT and BezierPath.splitAtPoints (Hand/Clip.v) at the real instance. *)
From Coq Require Import PrimFloat.
From Coq Require Import ZArith List Bool Reals Lra Lia Psatz.
From BZ Require Import Base.Ops Proofs.Tactics Gen.Point Gen.Line Gen.Quad Gen.Cubic Hand.Shoelace Hand.Clip Proofs.C01 Proofs.C12.
Import ListNotations.
Open Scope R_scope.

(* ------------------------------------------------------------------ 1. the reconstruction loop *)
Lemma lut_find_in (l : @lut R) k v : lut_find ROps l k = Some v -> exists k', In (k', v) l.
Proof.
  induction l as [ | [k' v'] r IH]; cbn; [discriminate | ].
  destruct (key_eqb ROps k' k).
  - intros H; inversion H; subst. exists k'. now left.
  - intros H. destruct (IH H) as [k'' Hin]. exists k''. now right.
Qed.

Definition from_fallback (pairs : list (zpt * zpt)) (s : segment R) : Prop :=
  exists a b, In (a, b) pairs /\ s = SLine (L2 (unscale (zR a)) (unscale (zR b))).
Definition from_lut (flat : bool) (l : @lut R) (s : segment R) : Prop := flat = false /\ exists k, In (k, s) l.

Lemma rebuild_step_provenance flat l acc ab s :
  In s (rebuild_step ROps flat l acc ab) -> In s acc \/ from_fallback [ab] s \/ from_lut flat l s.
Proof.
  unfold rebuild_step. destruct flat.
  - intros [<- | H]; [ | now left]. right; left. exists (fst ab), (snd ab).
    split; [left; now destruct ab | apply fallback_line_R].
  - destruct (lut_find ROps l (zkey ROps (fst ab), zkey ROps (snd ab))) as [orig | ] eqn:E.
    + assert (Hl : from_lut false l orig) by (split; [reflexivity | eapply lut_find_in; eassumption]).
      destruct acc as [ | last r].
      * intros [<- | []]. right; right; exact Hl.
      * destruct (seg_ne ROps last orig); [ | now left].
        intros [<- | H]; [right; right; exact Hl | now left].
    + intros [<- | H]; [ | now left]. right; left. exists (fst ab), (snd ab).
      split; [left; now destruct ab | apply fallback_line_R].
Qed.

Lemma rebuild_fold_provenance flat l pairs : forall acc s,
  In s (fold_left (rebuild_step ROps flat l) pairs acc) -> In s acc \/ from_fallback pairs s \/ from_lut flat l s.
Proof.
  induction pairs as [ | ab r IH]; intros acc s H; cbn in H; [now left | ].
  destruct (IH _ _ H) as [H1 | [H1 | H1]].
  - destruct (rebuild_step_provenance _ _ _ _ _ H1) as [H2 | [(a & b & [E | []] & ->) | H2]].
    + now left.
    + right; left. exists a, b. split; [left; exact E | reflexivity].
    + right; right; exact H2.
  - right; left. destruct H1 as (a & b & Hin & ->). exists a, b. split; [right; exact Hin | reflexivity].
  - right; right; exact H1.
Qed.

(* the pairs walked for a polygon are its cyclically consecutive vertices *)
Lemma closed_pairs_in p a b d : In (a, b) (closed_pairs p) ->
  exists i, (i < length p)%nat /\ a = nth i p d /\ b = nth (S i mod length p) p d.
Proof.
  intros H. destruct (In_nth _ _ (d, d) H) as (i & Hi & E).
  rewrite closed_pairs_length in Hi. rewrite (closed_pairs_nth p d i Hi) in E.
  inversion E; subst. exists i. repeat split; assumption.
Qed.

(* the removal of a repeated closing segment only removes *)
Lemma in_removelast {A} (x : A) l : In x (removelast l) -> In x l.
Proof.
  induction l as [ | a [ | b r] IH]; cbn; [tauto | tauto | ]. intros [H | H]; [now left | right; now apply IH].
Qed.
Lemma pop_subset s np : In s (pop_closing_duplicate ROps np) -> In s np.
Proof.
  unfold pop_closing_duplicate. destruct np as [ | a [ | b r]]; auto.
  destruct (seg_eq ROps (last (a :: b :: r) a) a); auto. apply in_removelast.
Qed.

(* every segment of every result path is a fresh straight edge between two cyclically consecutive Clipper vertices
   (closed_pairs_in) scaled by 1/100, or (only when flat = False) a value stored in the LUT; every path is flagged closed *)
Theorem result_segments_provenance flat l polys : forall paths,
  rebuild ROps flat l polys = Ok paths ->
  forall path, In path paths -> snd path = true /\ forall s, In s (fst path) ->
    (exists p a b, In p polys /\ In (a, b) (closed_pairs p) /\ s = SLine (L2 (unscale (zR a)) (unscale (zR b))))
    \/ (flat = false /\ exists k, In (k, s) l).
Proof.
  induction polys as [ | p r IH]; intros paths H path Hin; cbn in H.
  - inversion H; subst. destruct Hin.
  - apply rbind_ok in H. destruct H as [x [Hx H]]. apply rbind_ok in H. destruct H as [xs [Hxs H]].
    inversion H; subst. destruct Hin as [<- | Hin].
    + unfold rebuild_poly in Hx. destruct p as [ | v0 p']; [discriminate | ]. inversion Hx; subst. cbn [fst snd].
      split; [reflexivity | ]. intros s Hs. apply pop_subset, in_rev in Hs.
      destruct (rebuild_fold_provenance _ _ _ _ _ Hs) as [[] | [(a & b & Hab & ->) | Hl]].
      * left. exists (v0 :: p'), a, b. split; [now left | split; [exact Hab | reflexivity]].
      * right. exact Hl.
    + destruct (IH _ Hxs _ Hin) as [Hc Hs]. split; [exact Hc | ]. intros s Hin'.
      destruct (Hs s Hin') as [(p0 & a & b & Hp0 & Hab & E) | Hl].
      * left. exists p0, a, b. split; [now right | split; assumption].
      * right; exact Hl.
Qed.

(* ------------------------------------------------------------------ 2. the LUT *)
Lemma fill_edge_values s (l : @lut R) e k v :
  In (k, v) (fill_edge ROps s l e) -> In (k, v) l \/ v = lut_value s e \/ v = seg_reversed ROps (lut_value s e).
Proof.
  unfold fill_edge. intros [H | [H | H]].
  - inversion H; subst. right; right; reflexivity.
  - inversion H; subst. right; left; reflexivity.
  - now left.
Qed.
Lemma fillLUT_values s fl : forall (l : @lut R) k v,
  In (k, v) (fillLUT ROps s fl l) ->
  In (k, v) l \/ exists e, In e fl /\ (v = lut_value s e \/ v = seg_reversed ROps (lut_value s e)).
Proof.
  unfold fillLUT. induction fl as [ | e r IH]; intros l k v H; cbn in H; [now left | ].
  destruct (IH _ _ _ H) as [H1 | (e' & He' & Hv)].
  - destruct (fill_edge_values _ _ _ _ _ H1) as [H2 | Hv]; [now left | ].
    right. exists e. split; [now left | exact Hv].
  - right. exists e'. split; [now right | exact Hv].
Qed.
(* line._orig or line  IS the piece: a curved piece's edges point back to it; a Line piece flattens to itself *)
Lemma lut_value_is_piece flatten2 (s : segment R) fl e : flats_of flatten2 s = Some fl -> In e fl -> lut_value s e = s.
Proof.
  destruct s as [ln | q | c]; cbn; intros H Hin; try reflexivity.
  inversion H; subst. destruct Hin as [<- | []]. reflexivity.
Qed.

(* every LUT value is a (pre-split) piece or the .reversed() of one *)
Theorem lut_values_are_pieces (flatten2 : flatten_t) pieces : forall (l0 : @lut R) es l,
  flatten_fill ROps flatten2 pieces l0 = Ok (es, l) ->
  forall k v, In (k, v) l -> In (k, v) l0 \/ exists s, In s pieces /\ (v = s \/ v = seg_reversed ROps s).
Proof.
  induction pieces as [ | s r IH]; intros l0 es l H k v Hin; cbn in H.
  - inversion H; subst. now left.
  - destruct (flats_of flatten2 s) as [fl | ] eqn:Ef; [ | discriminate].
    apply rbind_ok in H. destruct H as [[es2 l2] [H1 H2]]. cbn in H2. inversion H2; subst.
    destruct (IH _ _ _ H1 _ _ Hin) as [H3 | (s' & Hs' & Hv)].
    + destruct (fillLUT_values _ _ _ _ _ H3) as [H4 | (e & He & Hv)]; [now left | ].
      right. exists s. split; [now left | ]. rewrite (lut_value_is_piece _ _ _ _ Ef He) in Hv. exact Hv.
    + right. exists s'. split; [now right | exact Hv].
Qed.

(* ------------------------------------------------------------------ 3. the pieces: BezierPath.splitAtPoints *)
Definition seg_eval (s : segment R) (t : R) : pt R :=
  match s with
  | SLine l => Line_pointAtTime ROps l t
  | SQuad q => Quad_pointAtTime ROps q t
  | SCubic c => Cubic_pointAtTime ROps c t
  end.
Definition same_kind (a b : segment R) : Prop :=
  match a, b with SLine _, SLine _ | SQuad _, SQuad _ | SCubic _, SCubic _ => True | _, _ => False end.
(* p retraces s between the parameters a and b: p(u) = s(a + u (b - a)) for every real u *)
Definition subcurve (s : segment R) (a b : R) (p : segment R) : Prop :=
  same_kind s p /\ forall u, seg_eval p u = seg_eval s (a + u * (b - a)).

Lemma subcurve_refl s : subcurve s 0 1 s.
Proof. split; [destruct s; exact I | intros u; f_equal; ring]. Qed.

Lemma seg_split_proj (cur : segment R) t :
  seg_split ROps cur t =
  match cur with
  | SLine ln => (SLine (fst (Line_splitAtTime ROps ln t)), SLine (snd (Line_splitAtTime ROps ln t)))
  | SQuad q => (SQuad (fst (Quad_splitAtTime ROps q t)), SQuad (snd (Quad_splitAtTime ROps q t)))
  | SCubic c => (SCubic (fst (Cubic_splitAtTime ROps c t)), SCubic (snd (Cubic_splitAtTime ROps c t)))
  end.
Proof.
  destruct cur as [ln | q | c]; unfold seg_split.
  - destruct (Line_splitAtTime ROps ln t); reflexivity.
  - destruct (Quad_splitAtTime ROps q t); reflexivity.
  - destruct (Cubic_splitAtTime ROps c t); reflexivity.
Qed.

Lemma seg_split_sub s a b cur t s1 s2 :
  subcurve s a b cur -> seg_split ROps cur t = (s1, s2) ->
  subcurve s a (a + t * (b - a)) s1 /\ subcurve s (a + t * (b - a)) b s2.
Proof.
  intros [Hk He] Hs. rewrite seg_split_proj in Hs.
  destruct cur as [ln | q | c]; apply pair_equal_spec in Hs; destruct Hs as [<- <-];
    (split; (split; [destruct s; exact Hk | intros u; cbn [seg_eval]])).
  - rewrite line_split_left.
    change (Line_pointAtTime ROps ln (u * t)) with (seg_eval (SLine ln) (u * t)). rewrite He. f_equal. ring.
  - rewrite line_split_right.
    change (Line_pointAtTime ROps ln (t + u * (1 - t))) with (seg_eval (SLine ln) (t + u * (1 - t))). rewrite He. f_equal. ring.
  - rewrite quad_split_left.
    change (Quad_pointAtTime ROps q (u * t)) with (seg_eval (SQuad q) (u * t)). rewrite He. f_equal. ring.
  - rewrite quad_split_right.
    change (Quad_pointAtTime ROps q (t + u * (1 - t))) with (seg_eval (SQuad q) (t + u * (1 - t))). rewrite He. f_equal. ring.
  - rewrite cubic_split_left.
    change (Cubic_pointAtTime ROps c (u * t)) with (seg_eval (SCubic c) (u * t)). rewrite He. f_equal. ring.
  - rewrite cubic_split_right.
    change (Cubic_pointAtTime ROps c (t + u * (1 - t))) with (seg_eval (SCubic c) (t + u * (1 - t))). rewrite He. f_equal. ring.
Qed.

Definition le1 (tl : list R) : Prop := Forall (fun t => t <= 1) tl.
Definition is_piece_of (s p : segment R) : Prop := exists a b, 0 <= a <= b /\ b <= 1 /\ subcurve s a b p.

Lemma eps8_pos : 0 < eps8 ROps.
Proof. unfold eps8. cbn. lra. Qed.

Lemma remap_ok rest t rest' : le1 rest -> t <= 1 -> remap ROps rest t = Ok rest' ->
  le1 rest' /\ length rest' = length rest /\ (rest <> [] -> t < 1).
Proof.
  unfold remap. destruct rest as [ | v r].
  - intros _ _ H; inversion H; subst. repeat split; [constructor | congruence].
  - intros Hle Ht. cbn [sub ofZ eqb ROps]. destruct (Req_EM_T (1 - t) 0) as [E | E]; [discriminate | ].
    intros H; inversion H; subst. assert (Ht1 : t < 1) by lra.
    split; [ | split; [cbn [length map]; now rewrite map_length | auto]].
    unfold le1 in *. rewrite Forall_forall in *. intros x Hx.
    assert (Hx' : In x (map (fun w => (w - t) / (1 - t)) (v :: r))) by exact Hx.
    apply in_map_iff in Hx'. destruct Hx' as (w & <- & Hw).
    specialize (Hle w Hw). apply Rmult_le_reg_r with (1 - t); [lra | ]. field_simplify; lra.
Qed.

(* the walk over one segment: every piece retraces a sub-arc [a', b'] of [a, b] *)
Lemma split_walk_pieces s : forall fuel tl cur a b pieces,
  subcurve s a b cur -> 0 <= a <= b -> b <= 1 -> le1 tl ->
  split_walk ROps fuel cur tl = Ok pieces -> Forall (is_piece_of s) pieces.
Proof.
  induction fuel as [ | f IH]; intros tl cur a b pieces Hsub Hab Hb Hle H.
  - destruct tl; cbn [split_walk] in H; [ | discriminate]. inversion H; subst.
    constructor; [ | constructor]. exists a, b. tauto.
  - destruct tl as [ | t rest]; cbn [split_walk] in H.
    + inversion H; subst. constructor; [ | constructor]. exists a, b. tauto.
    + inversion Hle as [ | ? ? Ht Hrest]; subst.
      destruct (ltb ROps t (eps8 ROps)) eqn:El.
      * eapply IH; eauto.
      * apply Rltb_false in El.
        destruct (seg_split ROps cur t) as [s1 s2] eqn:Es.
        apply rbind_ok in H. destruct H as [rest' [Hr H]]. apply rbind_ok in H. destruct H as [ps [Hw H]].
        inversion H; subst.
        destruct (remap_ok _ _ _ Hrest Ht Hr) as [Hle' _].
        destruct (seg_split_sub _ _ _ _ _ _ _ Hsub Es) as [H1 H2].
        pose proof eps8_pos as He. assert (Ht0 : 0 < t) by lra.
        assert (Hm : a <= a + t * (b - a) <= b) by nra.
        constructor.
        -- exists a, (a + t * (b - a)). split; [lra | split; [lra | exact H1]].
        -- eapply IH; [exact H2 | lra | lra | exact Hle' | exact Hw].
Qed.

(* fuel = len(tList) always suffices: the model never reports EOracle for lack of fuel *)
Lemma split_walk_fuel : forall fuel tl cur, (length tl <= fuel)%nat -> split_walk ROps fuel cur tl <> Raise EOracle.
Proof.
  induction fuel as [ | f IH]; intros tl cur Hl.
  - destruct tl; [cbn; discriminate | cbn in Hl; lia].
  - destruct tl as [ | t rest]; cbn [split_walk]; [discriminate | ]. cbn [length] in Hl.
    destruct (ltb ROps t (eps8 ROps)).
    + apply IH. lia.
    + destruct (seg_split ROps cur t) as [s1 s2].
      destruct (remap ROps rest t) as [rest' | e] eqn:Er; cbn [rbind].
      * assert (Hlen : length rest' = length rest).
        { unfold remap in Er. destruct rest as [ | v r]; [inversion Er; reflexivity | ].
          destruct (eqb ROps (sub ROps (ofZ ROps 1) t) (ofZ ROps 0)); [discriminate | ].
          inversion Er; subst. cbn [length map]. now rewrite map_length. }
        specialize (IH rest' s2 ltac:(lia)).
        destruct (split_walk ROps f s2 rest') as [ps | e]; cbn [rbind]; [discriminate | ].
        intros E; inversion E; subst. now apply IH.
      * unfold remap in Er. destruct rest as [ | v r]; [discriminate | ].
        destruct (eqb ROps (sub ROps (ofZ ROps 1) t) (ofZ ROps 0)); inversion Er; discriminate.
Qed.

(* the clusters *)
Definition cluster_le1 (c : @cluster R) : Prop := Forall (fun kl => le1 (snd kl)) c.
Lemma cluster_add_le1 c s t : cluster_le1 c -> t <= 1 -> cluster_le1 (cluster_add ROps c s t).
Proof.
  induction c as [ | [k l] r IH]; intros Hc Ht; cbn.
  - constructor; [cbn; constructor; [exact Ht | constructor] | constructor].
  - inversion Hc as [ | ? ? Hl Hr]; subst. destruct (seg_keqb ROps k s).
    + constructor; [cbn in *; apply Forall_app; split; [exact Hl | constructor; [exact Ht | constructor]] | exact Hr].
    + constructor; [exact Hl | apply IH; assumption].
Qed.
Lemma cluster_clear_le1 c s : cluster_le1 c -> cluster_le1 (cluster_clear ROps c s).
Proof.
  induction c as [ | [k l] r IH]; intros Hc; cbn; [constructor | ].
  inversion Hc as [ | ? ? Hl Hr]; subst. destruct (seg_keqb ROps k s).
  - constructor; [cbn; constructor | exact Hr].
  - constructor; [exact Hl | apply IH; exact Hr].
Qed.
Lemma cluster_find_le1 c s tl : cluster_le1 c -> cluster_find ROps c s = Some tl -> le1 tl.
Proof.
  induction c as [ | [k l] r IH]; intros Hc; cbn; [discriminate | ].
  inversion Hc as [ | ? ? Hl Hr]; subst. destruct (seg_keqb ROps k s).
  - intros H; inversion H; subst. exact Hl.
  - apply IH; exact Hr.
Qed.
Lemma insert_sorted_in_R (x y : R) l : In x (insert_sorted ROps y l) <-> y = x \/ In x l.
Proof.
  induction l as [ | z r IH]; cbn [insert_sorted In]; [tauto | ].
  destruct (ltb ROps y z); cbn [In]; [tauto | ]. rewrite IH. tauto.
Qed.
Lemma sort_in_R (x : R) l : In x (sort_ ROps l) <-> In x l.
Proof.
  unfold sort_. assert (G : forall acc, In x (fold_left (fun acc y => insert_sorted ROps y acc) l acc) <-> In x l \/ In x acc).
  { induction l as [ | y r IH]; intros acc; cbn [fold_left In]; [tauto | ]. rewrite IH, insert_sorted_in_R. tauto. }
  rewrite G. cbn [In]. tauto.
Qed.
Lemma sort_le1 l : le1 l -> le1 (sort_ ROps l).
Proof. unfold le1. rewrite !Forall_forall. intros H x Hx. apply H. now apply sort_in_R. Qed.

Lemma split_segs_pieces : forall segs c pieces,
  cluster_le1 c -> split_segs ROps c segs = Ok pieces ->
  Forall (fun p => exists s, In s segs /\ is_piece_of s p) pieces.
Proof.
  induction segs as [ | s r IH]; intros c pieces Hc H; cbn in H.
  - inversion H; subst. constructor.
  - assert (Hweak : forall ps, Forall (fun p => exists s0, In s0 r /\ is_piece_of s0 p) ps ->
                               Forall (fun p => exists s0, In s0 (s :: r) /\ is_piece_of s0 p) ps).
    { intros ps HF. eapply Forall_impl; [ | exact HF]. intros p (s0 & Hs0 & Hp). exists s0. split; [now right | exact Hp]. }
    destruct (cluster_find ROps c s) as [tl | ] eqn:Ef.
    + apply rbind_ok in H. destruct H as [ps [Hw H]]. apply rbind_ok in H. destruct H as [l [Hl H]].
      inversion H; subst. apply Forall_app. split.
      * pose proof (split_walk_pieces s _ _ _ 0 1 _ (subcurve_refl s) ltac:(lra) ltac:(lra) (cluster_find_le1 _ _ _ Hc Ef) Hw) as HF.
        eapply Forall_impl; [ | exact HF]. intros p Hp. exists s. split; [now left | exact Hp].
      * apply Hweak. eapply IH; [ | exact Hl]. now apply cluster_clear_le1.
    + apply rbind_ok in H. destruct H as [l [Hl H]]. inversion H; subst. constructor.
      * exists s. split; [now left | ]. exists 0, 1. split; [lra | split; [lra | apply subcurve_refl]].
      * apply Hweak. eapply IH; eassumption.
Qed.

Lemma cluster_fold_le1 (sl : list (segment R * R)) : Forall (fun st => snd st <= 1) sl ->
  forall c, cluster_le1 c -> cluster_le1 (fold_left (fun c st => cluster_add ROps c (fst st) (snd st)) sl c).
Proof.
  induction 1 as [ | st r Hst Hr IH]; intros c Hc; cbn; [exact Hc | ]. apply IH. apply cluster_add_le1; assumption.
Qed.

(* every segment of the path after splitAtPoints retraces a sub-arc [a, b] (0 <= a <= b <= 1) of a segment of the path
   before it, provided no split parameter exceeds 1 *)
Theorem split_pieces_are_subcurves segs sl pieces :
  Forall (fun st => snd st <= 1) sl -> splitAtPoints ROps segs sl = Ok pieces ->
  Forall (fun p => exists s, In s segs /\ is_piece_of s p) pieces.
Proof.
  intros Hsl H. unfold splitAtPoints in H. eapply split_segs_pieces; [ | exact H].
  pose proof (cluster_fold_le1 sl Hsl [] ltac:(constructor)) as G.
  unfold cluster_le1 in *. rewrite Forall_forall in *. intros kl Hkl.
  apply in_map_iff in Hkl. destruct Hkl as ([k l] & <- & Hin). cbn. apply sort_le1. exact (G _ Hin).
Qed.

(* ------------------------------------------------------------------ 4. together *)
Definition reversed_or_same (s v : segment R) : Prop := v = s \/ v = seg_reversed ROps s.

(* curve-preserving mode: every segment of every result is a straight edge between two cyclically consecutive Clipper
   vertices, or a piece (sub-arc of an input segment of the receiver or of the argument), or the reverse of a piece *)
Theorem curve_mode_invents_no_geometry (clipper : clipper_t) (flatten2 : flatten_t) self other sl1 sl2 ct paths :
  Forall (fun st => snd st <= 1) sl1 -> Forall (fun st => snd st <= 1) sl2 ->
  clip ROps R_toZ clipper flatten2 self other sl1 sl2 ct false = Ok paths ->
  forall path, In path paths -> snd path = true /\ forall v, In v (fst path) ->
    (exists polys p a b st subj clp l, prepare ROps R_toZ flatten2 self other sl1 sl2 = (st, Ok (subj, clp, l)) /\
        clipper ct [subj] [clp] = Some polys /\ In p polys /\ In (a, b) (closed_pairs p) /\
        v = SLine (L2 (unscale (zR a)) (unscale (zR b))))
    \/ (exists piece s, In s (self ++ other) /\ is_piece_of s piece /\ reversed_or_same piece v).
Proof.
  intros H1 H2 H path Hin.
  unfold clip, clip_run in H.
  destruct (prepare ROps R_toZ flatten2 self other sl1 sl2) as [st [[[subj clp] l] | e]] eqn:Hp; cbn in H; [ | discriminate].
  destruct (clipper ct [subj] [clp]) as [polys | ] eqn:Hc; [ | discriminate].
  destruct (result_segments_provenance _ _ _ _ H _ Hin) as [Hcl Hs]. split; [exact Hcl | ].
  intros v Hv. destruct (Hs v Hv) as [(p & a & b & Hp0 & Hab & ->) | [_ [k Hk]]].
  - left. exists polys, p, a, b, st, subj, clp, l. repeat split; assumption.
  - right. destruct (prepare_ok _ _ _ _ _ _ _ _ _ Hp) as (p1 & p2 & f1 & f2 & l1 & S1 & S2 & _ & F1 & F2 & _ & _).
    pose proof (split_pieces_are_subcurves _ _ _ H1 S1) as P1. pose proof (split_pieces_are_subcurves _ _ _ H2 S2) as P2.
    rewrite Forall_forall in P1, P2.
    destruct (lut_values_are_pieces _ _ _ _ _ F2 _ _ Hk) as [Hk1 | (s & Hs2 & Hv2)].
    + destruct (lut_values_are_pieces _ _ _ _ _ F1 _ _ Hk1) as [[] | (s & Hs1 & Hv1)].
      destruct (P1 s Hs1) as (s0 & Hs0 & Hpiece). exists s, s0. split; [apply in_or_app; now left | split; assumption].
    + destruct (P2 s Hs2) as (s0 & Hs0 & Hpiece). exists s, s0. split; [apply in_or_app; now right | split; assumption].
Qed.

(* an empty answer of Clipper (e.g. the intersection of disjoint shapes) yields no paths *)
Theorem empty_clip_empty_result (clipper : clipper_t) (flatten2 : flatten_t) self other sl1 sl2 st subj clp l ct flat :
  prepare ROps R_toZ flatten2 self other sl1 sl2 = (st, Ok (subj, clp, l)) ->
  clipper ct [subj] [clp] = Some [] ->
  clip ROps R_toZ clipper flatten2 self other sl1 sl2 ct flat = Ok [].
Proof. intros Hp Hc. rewrite (selectors_roles clipper _ _ _ _ _ _ _ _ _ Hp), Hc. reflexivity. Qed.
(* and conversely the number of result paths is the number of polygons Clipper returned *)
Lemma rebuild_length flat (l : @lut R) polys : forall paths, rebuild ROps flat l polys = Ok paths -> length paths = length polys.
Proof.
  induction polys as [ | p r IH]; intros paths H; cbn in H.
  - inversion H; reflexivity.
  - apply rbind_ok in H. destruct H as [x [Hx H]]. apply rbind_ok in H. destruct H as [xs [Hxs H]].
    inversion H; subst. cbn. f_equal. now apply IH.
Qed.

(* ------------------------------------------------------------------ 5. non-vacuity *)
Ltac decide_R :=
  repeat match goal with
  | |- context [Req_EM_T ?a ?b] => destruct (Req_EM_T a b); try lra
  | |- context [Rlt_dec ?a ?b] => destruct (Rlt_dec a b); try lra
  | |- context [Rle_dec ?a ?b] => destruct (Rle_dec a b); try lra
  end.
(* splitAtPoints on a one-line path, split at t = 1/2: two pieces meeting at the midpoint *)
Example ex_split :
  splitAtPoints ROps [SLine (L2 (P 0 0) (P 2 0))] [(SLine (L2 (P 0 0) (P 2 0)), 1 / 2)]
  = Ok [SLine (L2 (P 0 0) (P 1 0)); SLine (L2 (P 1 0) (P 2 0))].
Proof.
  rcbv. decide_R.
  repeat f_equal; lra.
Qed.
(* the pieces of ex_split satisfy the conclusion of split_pieces_are_subcurves with [a, b] = [0, 1/2] and [1/2, 1] *)
Example ex_subcurve : subcurve (SLine (L2 (P 0 0) (P 2 0))) (1 / 2) 1 (SLine (L2 (P 1 0) (P 2 0))).
Proof. split; [exact I | ]. intros u. rcbv. apply pt_eq; lra. Qed.
