(* C17 -- flattening yields an on-curve polyline from start to end: lemmas about Cubic_flatten / Quad_flatten /
   Line_flatten / path_flatten of Hand/Sample.v, on top of the sampling lemmas of Proofs/C16.v. *)
From Coq Require Import PrimFloat.
From Coq Require Import ZArith List Bool Reals Lra Lia Psatz Sorted.
From BZ Require Import Base.Ops Proofs.Tactics Gen.Point Gen.Line Gen.Quad Gen.Cubic Hand.Sample Hand.Shoelace
                       Proofs.C01 Proofs.C04 Proofs.C16.
Import ListNotations.
Open Scope R_scope.

(* ---- lists of points joined by lines ---- *)
(* the vertices of a polyline: the start of its first edge, then the end of every edge *)
Definition vertices (p : pt R) (ls : list (seg2 R)) : list (pt R) := p :: map l1 ls.
Lemma join_pts_chain : forall (r : list (pt R)) p q, last_opt (p :: r) = Some q -> chain_from p (join_pts (p :: r)) q.
Proof.
  induction r as [|b r IH]; intros p q H.
  - inversion H. reflexivity.
  - cbn [join_pts chain_from]. split; [reflexivity|]. apply IH. exact H.
Qed.
Lemma join_pts_vertices : forall (r : list (pt R)) p, vertices p (join_pts (p :: r)) = p :: r.
Proof.
  unfold vertices. induction r as [|b r IH]; intro p; [reflexivity|].
  cbn [join_pts map l1]. f_equal. apply IH.
Qed.
Lemma join_pts_length : forall (r : list (pt R)) p, length (join_pts (p :: r)) = length r.
Proof. induction r as [|b r IH]; intro p; [reflexivity|]. cbn [join_pts length]. f_equal. apply IH. Qed.
Lemma chain_from_app (l1 : list (seg2 R)) : forall l2 p q r, chain_from p l1 q -> chain_from q l2 r -> chain_from p (l1 ++ l2) r.
Proof.
  induction l1 as [|a l1 IH]; intros l2 p q r H1 H2.
  - cbn in H1. subst. exact H2.
  - destruct H1 as [Ha H1]. cbn [app chain_from]. split; [exact Ha|]. apply (IH l2 _ q r H1 H2).
Qed.
Lemma map_fst_tag_all (c : segment R) ls : map fst (tag_all c ls) = ls.
Proof. unfold tag_all. rewrite map_map. cbn. apply map_id. Qed.
Lemma tag_all_origin (c : segment R) ls : Forall (fun e => snd e = Some c) (tag_all c ls).
Proof. unfold tag_all. apply Forall_forall. intros e He. apply in_map_iff in He. destruct He as (l & <- & _). reflexivity. Qed.
Lemma mapM_total {A B} (f : A -> B) l : mapM (fun a => Ok (f a)) l = Ok (map f l).
Proof. induction l as [|a l IH]; [reflexivity|]. cbn [mapM map bind]. now rewrite IH. Qed.
Lemma map_hd_last {A B} (f : A -> B) (l : list A) a b : hd_error l = Some a -> last_opt l = Some b ->
  exists r, map f l = f a :: r /\ last_opt (f a :: r) = Some (f b).
Proof.
  intros Ha Hb. destruct l as [|x l]; [discriminate|]. inversion Ha; subst x. exists (map f l). split; [reflexivity|].
  revert a Ha Hb. induction l as [|y l IH]; intros a Ha Hb.
  - inversion Hb. reflexivity.
  - change (last_opt (f a :: map f (y :: l))) with (last_opt (f y :: map f l)). apply (IH y); [reflexivity | exact Hb].
Qed.

(* a sampled parameter list: from exactly 0 to exactly 1, inside [0,1], non-decreasing *)
Definition param_list (ts : list R) : Prop :=
  hd_error ts = Some 0 /\ last_opt ts = Some 1 /\ Forall in01 ts /\ nondecr ts.
Lemma param_list_two ts : param_list ts -> exists r, ts = 0 :: r /\ r <> [].
Proof.
  intros (H0 & H1 & _ & _). destruct ts as [|a r]; [discriminate|]. inversion H0; subst a. exists r. split; [reflexivity|].
  intro E. subst r. inversion H1. lra.
Qed.

(* the polyline through the points of a curve [f] at the parameters [ts] *)
Lemma polyline_of_params (f : R -> pt R) ts (c : segment R) : param_list ts ->
  let es := tag_all c (join_pts (map f ts)) in
  chain_from (f 0) (map fst es) (f 1) /\ es <> [] /\ vertices (f 0) (map fst es) = map f ts /\
  Forall (fun e => snd e = Some c) es /\ S (length es) = length ts.
Proof.
  intros Hp es. destruct (param_list_two ts Hp) as (r & -> & Hr). destruct Hp as (H0 & H1 & _ & _).
  unfold es. rewrite map_fst_tag_all. cbn [map].
  destruct (map_hd_last f (0 :: r) 0 1 H0 H1) as (r' & Er & Hl). cbn [map] in Er. inversion Er; subst r'.
  repeat split.
  - apply join_pts_chain. exact Hl.
  - unfold tag_all. destruct r as [|b r]; [contradiction|]. discriminate.
  - apply join_pts_vertices.
  - apply tag_all_origin.
  - unfold tag_all. rewrite map_length, join_pts_length, map_length. reflexivity.
Qed.

(* ---- CubicBezier.flatten ---- *)
Lemma cubic_flatten_short cap (c : seg4 R) d : Cubic_length ROps c < d ->
  Cubic_flatten ROps cap c d = Ok [(L2 (c0 c) (c3 c), Some (SCubic c))].
Proof. intro H. unfold Cubic_flatten. now rewrite (proj2 (Rltb_true _ _) H). Qed.
Lemma cubic_flatten_long cap (c : seg4 R) d es : 0 < d -> ~ Cubic_length ROps c < d ->
  Cubic_flatten ROps cap c d = Ok es ->
  exists ts, seg_regularSampleTValue ROps cap (SCubic c) (Cubic_length ROps c / d) = Ok ts /\ param_list ts /\
             es = tag_all (SCubic c) (join_pts (map (Cubic_pointAtTime ROps c) ts)).
Proof.
  intros Hd HL H. unfold Cubic_flatten in H. rewrite (proj2 (Rltb_false _ _)) in H by lra.
  change (zero ROps) with 0 in H. rewrite (proj2 (Reqb_false d 0)) in H by lra.
  change (dvd ROps ?a ?b) with (a / b) in H.
  unfold seg_regularSample, regularSample_auto, regularSample in H.
  fold (regularSampleTValue_auto ROps (fun t => Ok (seg_lengthAt ROps (SCubic c) t)) (seg_length ROps (SCubic c)) cap (Cubic_length ROps c / d)) in H.
  fold (seg_regularSampleTValue ROps cap (SCubic c) (Cubic_length ROps c / d)) in H.
  destruct (seg_regularSampleTValue ROps cap (SCubic c) (Cubic_length ROps c / d)) as [ts|e] eqn:Et; cbn [bind] in H; [|discriminate].
  rewrite mapM_total in H. cbn [bind] in H. inversion H; subst es.
  exists ts. split; [reflexivity|]. split; [|reflexivity].
  apply (seg_regular_spec cap (SCubic c) (Cubic_length ROps c / d) ts); [cbn [seg_length]; lra | exact Et].
Qed.
(* ---- QuadraticBezier.flatten ---- *)
Lemma quad_flatten_short cap (q : seg3 R) d : Quad_length ROps q < d ->
  Quad_flatten ROps cap q d = Ok [(L2 (q0 q) (q2 q), Some (SQuad q))].
Proof. intro H. unfold Quad_flatten. now rewrite (proj2 (Rltb_true _ _) H). Qed.
Lemma quad_flatten_long cap (q : seg3 R) d es : 0 < d -> ~ Quad_length ROps q < d ->
  Quad_flatten ROps cap q d = Ok es ->
  exists ts, param_list ts /\ es = tag_all (SQuad q) (join_pts (map (Quad_pointAtTime ROps q) ts)) /\
             forall i, (S i < length ts)%nat -> nth i ts 0 = INR i * (1 / (Quad_length ROps q / d)).
Proof.
  intros Hd HL H. unfold Quad_flatten in H. rewrite (proj2 (Rltb_false _ _)) in H by lra.
  change (zero ROps) with 0 in H. rewrite (proj2 (Reqb_false d 0)) in H by lra.
  change (dvd ROps ?a ?b) with (a / b) in H.
  destruct (seg_sample ROps cap (SQuad q) (Quad_length ROps q / d)) as [pts|e] eqn:Es; cbn [bind] in H; [|discriminate].
  inversion H; subst es.
  assert (Hn : 0 < Quad_length ROps q / d) by (apply Rdiv_lt_0_compat; lra).
  destruct (sample_param_order _ _ _ _ Hn Es) as (ts & Hm & Hnd & Hin & Hh & Hl & Hnth).
  rewrite mapM_total in Hm. inversion Hm. exists ts. repeat split; assumption.
Qed.

(* C17, per curve: the edges form a chain from the curve's start to its end, every vertex is the curve at a parameter
   of a non-decreasing list in [0,1] from 0 to 1, and every edge carries the curve as its origin *)
Theorem cubic_flatten_spec cap (c : seg4 R) d es : 0 < d -> Cubic_flatten ROps cap c d = Ok es ->
  chain_from (c0 c) (map fst es) (c3 c) /\ es <> [] /\ Forall (fun e => snd e = Some (SCubic c)) es /\
  exists ts, param_list ts /\ vertices (c0 c) (map fst es) = map (Cubic_pointAtTime ROps c) ts /\
             (~ Cubic_length ROps c < d -> S (length es) = length ts).
Proof.
  intros Hd H. destruct (Rlt_dec (Cubic_length ROps c) d) as [Hs | Hl].
  - rewrite (cubic_flatten_short cap c d Hs) in H. inversion H; subst es. cbn [map fst chain_from].
    split; [split; reflexivity|]. split; [discriminate|]. split; [repeat constructor|].
    exists [0; 1]. unfold param_list, vertices. cbn [map l1 hd_error last_opt nondecr].
    rewrite cubic_eval_0, cubic_eval_1. split; [|split; [reflexivity | intro; contradiction]].
    split; [reflexivity|]. split; [reflexivity|]. split; [repeat constructor; unfold in01; lra | split; [lra | exact I]].
  - destruct (cubic_flatten_long cap c d es Hd Hl H) as (ts & _ & Hp & ->).
    destruct (polyline_of_params (Cubic_pointAtTime ROps c) ts (SCubic c) Hp) as (A & B & C & D & E).
    rewrite cubic_eval_0, cubic_eval_1 in *. split; [exact A|]. split; [exact B|]. split; [exact D|].
    exists ts. split; [exact Hp|]. split; [exact C|]. intros _. exact E.
Qed.
Theorem quad_flatten_spec cap (q : seg3 R) d es : 0 < d -> Quad_flatten ROps cap q d = Ok es ->
  chain_from (q0 q) (map fst es) (q2 q) /\ es <> [] /\ Forall (fun e => snd e = Some (SQuad q)) es /\
  exists ts, param_list ts /\ vertices (q0 q) (map fst es) = map (Quad_pointAtTime ROps q) ts /\
             (~ Quad_length ROps q < d -> S (length es) = length ts).
Proof.
  intros Hd H. destruct (Rlt_dec (Quad_length ROps q) d) as [Hs | Hl].
  - rewrite (quad_flatten_short cap q d Hs) in H. inversion H; subst es. cbn [map fst chain_from].
    split; [split; reflexivity|]. split; [discriminate|]. split; [repeat constructor|].
    exists [0; 1]. unfold param_list, vertices. cbn [map l1 hd_error last_opt nondecr].
    rewrite quad_eval_0, quad_eval_1. split; [|split; [reflexivity | intro; contradiction]].
    split; [reflexivity|]. split; [reflexivity|]. split; [repeat constructor; unfold in01; lra | split; [lra | exact I]].
  - destruct (quad_flatten_long cap q d es Hd Hl H) as (ts & Hp & -> & _).
    destruct (polyline_of_params (Quad_pointAtTime ROps q) ts (SQuad q) Hp) as (A & B & C & D & E).
    rewrite quad_eval_0, quad_eval_1 in *. split; [exact A|]. split; [exact B|]. split; [exact D|].
    exists ts. split; [exact Hp|]. split; [exact C|]. intros _. exact E.
Qed.
(* a quadratic at least d long is cut at the uniform parameters k * d / length *)
Theorem quad_flatten_uniform cap (q : seg3 R) d es : 0 < d -> ~ Quad_length ROps q < d -> Quad_flatten ROps cap q d = Ok es ->
  forall i, (S i < length es)%nat ->
    exists e, nth_error es i = Some e /\ l1 (fst e) = Quad_pointAtTime ROps q (INR (S i) * (d / Quad_length ROps q)).
Proof.
  intros Hd Hl H i Hi. destruct (quad_flatten_long cap q d es Hd Hl H) as (ts & Hp & -> & Hnth).
  destruct (polyline_of_params (Quad_pointAtTime ROps q) ts (SQuad q) Hp) as (_ & _ & C & _ & E).
  set (es := tag_all (SQuad q) (join_pts (map (Quad_pointAtTime ROps q) ts))) in *.
  destruct (nth_error es i) as [e|] eqn:Ee; [|apply nth_error_None in Ee; lia].
  exists e. split; [reflexivity|].
  assert (Hv : nth_error (vertices (Quad_pointAtTime ROps q 0) (map fst es)) (S i) = Some (l1 (fst e))).
  { unfold vertices. cbn [nth_error]. rewrite map_map. apply (map_nth_error (fun x => l1 (fst x)) i es Ee). }
  rewrite C, nth_error_map in Hv.
  assert (Hlt : (S i < length ts)%nat) by lia.
  rewrite (nth_error_nth' ts 0 Hlt) in Hv. cbn [option_map] in Hv. inversion Hv as [Hv'].
  f_equal. rewrite Hnth by lia. rewrite S_INR. field. split; [lra|].
  intro E0. pose proof (quad_length_nonneg q). lra.
Qed.
(* a curve shorter than the step becomes its chord, origin recorded (f2f3e12) *)
Theorem short_curve_chord cap d : 0 < d ->
  (forall c : seg4 R, Cubic_length ROps c < d -> Cubic_flatten ROps cap c d = Ok [(L2 (c0 c) (c3 c), Some (SCubic c))]) /\
  (forall q : seg3 R, Quad_length ROps q < d -> Quad_flatten ROps cap q d = Ok [(L2 (q0 q) (q2 q), Some (SQuad q))]).
Proof. intro Hd. split; intros; [apply cubic_flatten_short | apply quad_flatten_short]; assumption. Qed.
(* a line is returned unchanged, with the origin it already had *)
Theorem line_identity cap (l : seg2 R) (o : option (segment R)) d :
  Line_flatten l o d = Ok [(l, o)] /\ seg_flatten ROps cap (SLine l, o) d = Ok [(l, o)].
Proof. split; reflexivity. Qed.
Theorem origin_recorded cap (s : segment R) (o : option (segment R)) d es : seg_flatten ROps cap (s, o) d = Ok es ->
  match s with SLine l => es = [(l, o)] | _ => Forall (fun e => snd e = Some s) es end.
Proof.
  destruct s as [l|q|c]; cbn [seg_flatten fst snd]; intro H.
  - inversion H. reflexivity.
  - unfold Quad_flatten in H. destruct (ltb ROps _ _); [inversion H; repeat constructor|].
    destruct (eqb ROps _ _); [discriminate|]. destruct (seg_sample _ _ _ _); cbn [bind] in H; [|discriminate].
    inversion H. apply tag_all_origin.
  - unfold Cubic_flatten in H. destruct (ltb ROps _ _); [inversion H; repeat constructor|].
    destruct (eqb ROps _ _); [discriminate|]. destruct (seg_regularSample _ _ _ _); cbn [bind] in H; [|discriminate].
    inversion H. apply tag_all_origin.
Qed.
(* no exception when the fuel bound covers the length and the sample count *)
Theorem flatten_no_raise cap d : 0 < d ->
  (forall c : seg4 R, Cubic_length ROps c <= INR cap -> Cubic_length ROps c / d <= INR cap -> exists es, Cubic_flatten ROps cap c d = Ok es) /\
  (forall q : seg3 R, Quad_length ROps q / d <= INR cap -> exists es, Quad_flatten ROps cap q d = Ok es).
Proof.
  intro Hd. split.
  - intros c H1 H2. destruct (Rlt_dec (Cubic_length ROps c) d) as [Hs | Hl]; [eexists; apply cubic_flatten_short; exact Hs|].
    unfold Cubic_flatten. rewrite (proj2 (Rltb_false _ _)) by lra.
    change (zero ROps) with 0. rewrite (proj2 (Reqb_false d 0)) by lra. change (dvd ROps ?a ?b) with (a / b).
    destruct (seg_no_raise cap (SCubic c) (Cubic_length ROps c / d)) as (_ & _ & pts & Hpts).
    { cbn [seg_length]. lra. }
    { split; [apply Rdiv_lt_0_compat; lra | exact H2]. }
    rewrite Hpts. eexists; reflexivity.
  - intros q H2. destruct (Rlt_dec (Quad_length ROps q) d) as [Hs | Hl]; [eexists; apply quad_flatten_short; exact Hs|].
    unfold Quad_flatten. rewrite (proj2 (Rltb_false _ _)) by lra.
    change (zero ROps) with 0. rewrite (proj2 (Reqb_false d 0)) by lra. change (dvd ROps ?a ?b) with (a / b).
    assert (Hn : 0 < Quad_length ROps q / d) by (apply Rdiv_lt_0_compat; lra).
    destruct (sample_no_raise (fun t => Ok (seg_pointAt ROps (SQuad q) t)) (fuel_of ROps cap (Quad_length ROps q / d) + 2)
                (Quad_length ROps q / d) Hn) as [pts Hpts].
    { apply INR_plus2, fuel_of_ge, H2. }
    { intros. eexists; reflexivity. }
    unfold seg_sample, sample_auto. rewrite plus3, Hpts. eexists; reflexivity.
Qed.

(* ---- any segment, and whole paths ---- *)
Theorem seg_flatten_chain cap (s : segment R) (o : option (segment R)) d es : 0 < d -> seg_flatten ROps cap (s, o) d = Ok es ->
  chain_from (seg_start s) (map fst es) (seg_end s) /\ es <> [].
Proof.
  intros Hd H. destruct s as [l|q|c]; cbn [seg_flatten fst snd seg_start seg_end] in *.
  - inversion H. cbn. repeat split. discriminate.
  - destruct (quad_flatten_spec cap q d es Hd H) as (A & B & _). auto.
  - destruct (cubic_flatten_spec cap c d es Hd H) as (A & B & _). auto.
Qed.
Theorem path_flatten_concat cap (segs : list (segment R * option (segment R))) closed d es cl :
  path_flatten ROps cap segs closed d = Ok (es, cl) ->
  cl = closed /\ exists ls, Forall2 (fun s l => seg_flatten ROps cap s d = Ok l) segs ls /\ es = concat ls.
Proof.
  unfold path_flatten. intro H.
  destruct (mapM (fun s => seg_flatten ROps cap s d) segs) as [ls|e] eqn:E; cbn [bind] in H; [|discriminate].
  inversion H; subst. split; [reflexivity|]. exists ls. split; [apply mapM_Forall2; exact E | reflexivity].
Qed.
Theorem path_flatten_chain cap (segs : list (segment R * option (segment R))) closed d es cl s0 s1 : 0 < d ->
  connected (map fst segs) -> hd_error (map fst segs) = Some s0 -> last_opt (map fst segs) = Some s1 ->
  path_flatten ROps cap segs closed d = Ok (es, cl) ->
  chain_from (seg_start s0) (map fst es) (seg_end s1) /\ es <> [] /\ cl = closed.
Proof.
  intros Hd Hc H0 H1 H. destruct (path_flatten_concat _ _ _ _ _ _ H) as (-> & ls & HF & ->).
  assert (G : forall segs ls, Forall2 (fun s l => seg_flatten ROps cap s d = Ok l) segs ls ->
              forall s0 s1, connected (map fst segs) -> hd_error (map fst segs) = Some s0 -> last_opt (map fst segs) = Some s1 ->
              chain_from (seg_start s0) (map fst (concat ls)) (seg_end s1) /\ concat ls <> []).
  { clear - Hd. induction 1 as [|[s o] l segs ls Hs HF IH]; intros s0 s1 Hc H0 H1; [discriminate|].
    cbn [map fst hd_error] in H0. inversion H0; subst s0.
    destruct (seg_flatten_chain cap s o d l Hd Hs) as [Hch Hne].
    cbn [concat]. rewrite map_app. destruct segs as [|[s' o'] segs'].
    - inversion HF; subst. cbn [map last_opt] in H1. inversion H1; subst s1. cbn [concat]. rewrite !app_nil_r. auto.
    - cbn [map fst] in Hc, H1. destruct Hc as [Hj Hc].
      destruct (IH s' s1 Hc eq_refl H1) as [Hch' _]. split.
      + apply (chain_from_app _ _ _ (seg_end s) _ Hch). cbn [fst] in Hj. rewrite Hj. exact Hch'.
      + destruct l; [contradiction | discriminate]. }
  destruct (G segs ls HF s0 s1 Hc H0 H1) as [A B]. auto.
Qed.

(* ---- non-vacuity ---- *)
Definition arch : seg4 float := (C4 (P 0 0) (P 0 100) (P 100 100) (P 100 0))%float.
Example arch_short_chord_float :
  Cubic_flatten FOps 4096 arch 1000%float = Ok [(L2 (P 0 0) (P 100 0), Some (SCubic arch))]%float.
Proof. vm_compute. reflexivity. Qed.
Example arch_flatten_float_count :
  match Cubic_flatten FOps 4096 arch 8%float with Ok es => length es | Raise _ => 0%nat end = 25%nat.
Proof. vm_compute. reflexivity. Qed.
Example straight_cubic_flattens :
  let c := C4 (P 0 0) (P 1 0) (P 2 0) (P 3 0) in ~ Cubic_length ROps c < 1 /\ exists es, Cubic_flatten ROps 8 c 1 = Ok es.
Proof.
  intro c. pose proof straight_cubic_length as H. fold c in H. apply abs_le_inv in H.
  assert (H20 : 1 < 10 ^ 20) by (apply Rlt_pow_R1; [lra | lia]).
  assert (Hs : / 10 ^ 20 < 1) by (apply (Rmult_lt_reg_r (10 ^ 20)); [lra|]; rewrite Rinv_l by lra; lra).
  split; [lra|]. apply (proj1 (flatten_no_raise 8 1 ltac:(lra))); unfold Rdiv; rewrite ?Rinv_1, ?Rmult_1_r; cbn [INR]; lra.
Qed.

(* ---- statements of record (bundles exported by Props/C17.v) ---- *)
Theorem curve_flatten_spec cap d : 0 < d ->
  (forall (c : seg4 R) es, Cubic_flatten ROps cap c d = Ok es ->
     chain_from (c0 c) (map fst es) (c3 c) /\ es <> [] /\ Forall (fun e => snd e = Some (SCubic c)) es /\
     exists ts, param_list ts /\ vertices (c0 c) (map fst es) = map (Cubic_pointAtTime ROps c) ts /\
                (~ Cubic_length ROps c < d -> S (length es) = length ts)) /\
  (forall (q : seg3 R) es, Quad_flatten ROps cap q d = Ok es ->
     chain_from (q0 q) (map fst es) (q2 q) /\ es <> [] /\ Forall (fun e => snd e = Some (SQuad q)) es /\
     exists ts, param_list ts /\ vertices (q0 q) (map fst es) = map (Quad_pointAtTime ROps q) ts /\
                (~ Quad_length ROps q < d -> S (length es) = length ts)).
Proof. intro Hd. split; intros x es H; [apply (cubic_flatten_spec cap x d es Hd H) | apply (quad_flatten_spec cap x d es Hd H)]. Qed.
Theorem short_chord_and_line_identity cap d : 0 < d ->
  (forall c : seg4 R, Cubic_length ROps c < d -> Cubic_flatten ROps cap c d = Ok [(L2 (c0 c) (c3 c), Some (SCubic c))]) /\
  (forall q : seg3 R, Quad_length ROps q < d -> Quad_flatten ROps cap q d = Ok [(L2 (q0 q) (q2 q), Some (SQuad q))]) /\
  (forall (l : seg2 R) (o : option (segment R)), Line_flatten l o d = Ok [(l, o)] /\ seg_flatten ROps cap (SLine l, o) d = Ok [(l, o)]).
Proof.
  intro Hd. destruct (short_curve_chord cap d Hd) as [A B]. split; [exact A|]. split; [exact B|]. intros. apply line_identity.
Qed.
Theorem path_flatten_spec cap (segs : list (segment R * option (segment R))) closed d es cl :
  path_flatten ROps cap segs closed d = Ok (es, cl) ->
  (cl = closed /\ exists ls, Forall2 (fun s l => seg_flatten ROps cap s d = Ok l) segs ls /\ es = concat ls) /\
  (forall s0 s1, 0 < d -> connected (map fst segs) -> hd_error (map fst segs) = Some s0 -> last_opt (map fst segs) = Some s1 ->
     chain_from (seg_start s0) (map fst es) (seg_end s1) /\ es <> []).
Proof.
  intro H. split; [apply (path_flatten_concat _ _ _ _ _ _ H)|].
  intros s0 s1 Hd Hc H0 H1. destruct (path_flatten_chain cap segs closed d es cl s0 s1 Hd Hc H0 H1 H) as (A & B & _). auto.
Qed.
Example flatten_nonvacuous :
  Cubic_flatten FOps 4096 arch 1000%float = Ok [(L2 (P 0 0) (P 100 0), Some (SCubic arch))]%float /\
  match Cubic_flatten FOps 4096 arch 8%float with Ok es => length es | Raise _ => 0%nat end = 25%nat /\
  (let c := C4 (P 0 0) (P 1 0) (P 2 0) (P 3 0) in ~ Cubic_length ROps c < 1 /\ exists es, Cubic_flatten ROps 8 c 1 = Ok es).
Proof. split; [exact arch_short_chord_float|]. split; [exact arch_flatten_float_count | exact straight_cubic_flattens]. Qed.

(* ---- the edge-count clause is FALSE of the faithful model (float instance, evaluated): the cubic (0,0)(0,0)(0,0)(1.5,0)
   has reported length 1.4999999999999996 >= d = 0.5, yet flattens to ONE edge (its chord), and 1 is not more than
   length/(2d) = 1.4999999999999996.  The look-up table of regularSampleTValue holds the parameters 0 and 2/3 only;
   the arc up to 2/3 is 0.444 < d, so the walk runs out of table after the first sample. ---- *)
Definition short_uneven_cubic : seg4 float := (C4 (P 0 0) (P 0 0) (P 0 0) (P 1.5 0))%float.
Theorem edge_count_refuted :
  PrimFloat.leb 0.5 (Cubic_length FOps short_uneven_cubic) = true /\
  exists es, Cubic_flatten FOps 4096 short_uneven_cubic 0.5%float = Ok es /\ length es = 1%nat /\
             PrimFloat.ltb 1 (Cubic_length FOps short_uneven_cubic / (2 * 0.5)) = true.
Proof.
  split; [vm_compute; reflexivity|]. eexists. split; [vm_compute; reflexivity|]. split; vm_compute; reflexivity.
Qed.
