(* C04poly: the 24-point Gauss-Legendre table integrates every polynomial of degree <= 47 over [0,1] up to 1e-39 times
   the l1 norm of its coefficients, and hence any function that is uniformly close to such a polynomial.
   (1) moments: | gl_length (t^k) - 1/(k+1) | <= 1e-39 for all k <= 47 (exact integer computation on the table);
   (2) a small library of polynomials as coefficient lists (lowest degree first): evaluation, sum, scaling, product,
       composition, l1 norm, length bookkeeping; the exact integral over [0,1]; the quadrature error for a list of
       length <= 48;
   (3) the approximation lemma: |f - p| <= e on [0,1], p of length <= 48, gives
       | gl_length f - RInt f 0 1 | <= (2 + 1e-39) * e + 1e-39 * l1 p. *)
From Coq Require Import ZArith List Bool Reals Lra Lia Psatz.
From Coq Require Import QArith Qreals.
From Coquelicot Require Import Coquelicot.
From BZ Require Import Proofs.C04.
Import ListNotations.
Open Scope R_scope.

(* ================================================================================================== *)
(* Part 1: moments up to degree 47, by integer arithmetic over the common denominator 10^40           *)
(* ================================================================================================== *)
Definition E40p : positive := 10000000000000000000000000000000000000000%positive.
Definition E40 : Z := Zpos E40p.

(* the half table as integers: (T * 10^40, C * 10^40) *)
Definition toE40 (q : Q) : Z := (Qnum q * (E40 / Zpos (Qden q)))%Z.
Definition gl_half_Z : list (Z * Z) := map (fun p => (toE40 (fst p), toE40 (snd p))) gl_half_Q.
Definition Z2R2 (p : Z * Z) : R * R := (IZR (fst p) / IZR E40, IZR (snd p) / IZR E40).

Definition toE40_ok (q : Q) : bool := Qeq_bool q (toE40 q # E40p).
Lemma toE40_correct q : toE40_ok q = true -> Q2R q = IZR (toE40 q) / IZR E40.
Proof.
  unfold toE40_ok. intro H. apply Qeq_bool_iff, Qeq_eqR in H. rewrite H. unfold Q2R. cbn [Qnum Qden]. reflexivity.
Qed.
Lemma gl_half_Z2R : gl_half = map Z2R2 gl_half_Z.
Proof.
  rewrite gl_half_Q2R. unfold gl_half_Z. rewrite map_map. apply map_ext_in. intros p Hp.
  assert (Hall : forallb (fun p => toE40_ok (fst p) && toE40_ok (snd p))%bool gl_half_Q = true)
    by (vm_compute; reflexivity).
  rewrite forallb_forall in Hall. specialize (Hall p Hp). apply andb_prop in Hall. destruct Hall as [H1 H2].
  unfold Q2R2, Z2R2. cbn [fst snd]. now rewrite (toE40_correct _ H1), (toE40_correct _ H2).
Qed.

Definition ztermk (k : nat) (p : Z * Z) : Z :=
  (snd p * ((E40 - fst p) ^ Z.of_nat k + (E40 + fst p) ^ Z.of_nat k))%Z.
Definition zsumk (k : nat) : Z := fold_right Z.add 0%Z (map (ztermk k) gl_half_Z).

Lemma E40_pos : 0 < IZR E40.
Proof. apply IZR_lt. reflexivity. Qed.

Lemma pair_term_Z k p :
  pair_term (fun t => t ^ k) (Z2R2 p) = IZR (ztermk k p) / (IZR E40 * (2 * IZR E40) ^ k).
Proof.
  assert (HE := E40_pos).
  unfold pair_term, Z2R2, ztermk, node. cbn [fst snd].
  rewrite mult_IZR, plus_IZR, <- !pow_IZR, minus_IZR, plus_IZR.
  replace (1 / 2 * - (IZR (fst p) / IZR E40) + 1 / 2) with ((IZR E40 - IZR (fst p)) * / (2 * IZR E40)) by (field; lra).
  replace (1 / 2 * (IZR (fst p) / IZR E40) + 1 / 2) with ((IZR E40 + IZR (fst p)) * / (2 * IZR E40)) by (field; lra).
  rewrite (Rpow_mult_distr (IZR E40 - IZR (fst p))), (Rpow_mult_distr (IZR E40 + IZR (fst p))), !pow_inv.
  assert (Hp : (2 * IZR E40) ^ k <> 0) by (apply pow_nonzero; lra).
  set (d := (2 * IZR E40) ^ k) in *. set (a := (IZR E40 - IZR (fst p)) ^ k). set (b := (IZR E40 + IZR (fst p)) ^ k).
  field. split; [exact Hp | lra].
Qed.

Lemma glh_Z k : glh gl_half (fun t => t ^ k) = IZR (zsumk k) / (IZR E40 * (2 * IZR E40) ^ k).
Proof.
  rewrite gl_half_Z2R. unfold glh, zsumk.
  assert (HE := E40_pos).
  assert (Hp : (2 * IZR E40) ^ k <> 0) by (apply pow_nonzero; lra).
  set (d := (2 * IZR E40) ^ k) in *.
  induction gl_half_Z as [|p l IH]; cbn [map sumR fold_right].
  - unfold Rdiv. now rewrite Rmult_0_l.
  - unfold sumR in IH. rewrite IH, pair_term_Z, plus_IZR. fold d. field. split; [exact Hp | lra].
Qed.

(* gl_length (t^k) = zsumk k / (2 * 10^40)^(k+1) *)
Lemma gl_length_pow_Z k : gl_length (fun t => t ^ k) = IZR (zsumk k) / (2 * IZR E40) ^ S k.
Proof.
  rewrite gl_length_glh, glh_Z. assert (HE := E40_pos).
  assert (Hp : (2 * IZR E40) ^ k <> 0) by (apply pow_nonzero; lra).
  cbn [pow]. set (d := (2 * IZR E40) ^ k) in *. field. split; [exact Hp | lra].
Qed.

Definition E39 : Z := 1000000000000000000000000000000000000000%Z.
Definition mom_okZ (k : nat) : bool :=
  let D := ((2 * E40) ^ Z.of_nat (S k))%Z in
  (Z.abs (zsumk k * Z.of_nat (S k) - D) * E39 <=? Z.of_nat (S k) * D)%Z.

Lemma IZR_E39 : IZR E39 = 10 ^ 39.
Proof. rewrite pow_IZR. reflexivity. Qed.

Lemma mom_okZ_correct k : mom_okZ k = true ->
  Rabs (gl_length (fun t => t ^ k) - 1 / INR (S k)) <= / 10 ^ 39.
Proof.
  unfold mom_okZ. intro H. apply Z.leb_le, IZR_le in H.
  rewrite !mult_IZR, abs_IZR, minus_IZR, mult_IZR, <- pow_IZR, mult_IZR, <- INR_IZR_INZ, IZR_E39 in H.
  rewrite gl_length_pow_Z.
  set (d := (2 * IZR E40) ^ S k) in *. set (n := INR (S k)) in *. set (s := IZR (zsumk k)) in *.
  assert (Hd : 0 < d) by (apply pow_lt; assert (HE := E40_pos); lra).
  assert (Hn : 0 < n) by (apply lt_0_INR; lia).
  assert (He : 0 < 10 ^ 39) by (apply pow_lt; lra).
  replace (s / d - 1 / n) with ((s * n - d) * / (n * d)) by (field; lra).
  assert (Hnd : 0 < n * d) by now apply Rmult_lt_0_compat.
  rewrite Rabs_mult, (Rabs_pos_eq (/ (n * d))) by (left; now apply Rinv_0_lt_compat).
  apply (Rmult_le_reg_r (n * d * 10 ^ 39)); [now apply Rmult_lt_0_compat|].
  replace (Rabs (s * n - d) * / (n * d) * (n * d * 10 ^ 39)) with (Rabs (s * n - d) * 10 ^ 39) by (field; lra).
  replace (/ 10 ^ 39 * (n * d * 10 ^ 39)) with (n * d) by (field; lra).
  exact H.
Qed.

(* all k = 0..47 in one pass, carrying the powers (10^40 -+ T_i)^k along instead of recomputing them *)
Definition zst : Type := (Z * (Z * Z) * (Z * Z))%type.
Definition st_at (k : Z) : list zst :=
  map (fun p => (snd p, (E40 - fst p, (E40 - fst p) ^ k), (E40 + fst p, (E40 + fst p) ^ k)))%Z gl_half_Z.
Definition st_step (st : list zst) : list zst :=
  map (fun x : zst => let '(c, (a, pa), (b, pb)) := x in (c, (a, a * pa), (b, b * pb)))%Z st.
Definition st_sum (st : list zst) : Z :=
  fold_right Z.add 0%Z (map (fun x : zst => let '(c, (a, pa), (b, pb)) := x in c * (pa + pb))%Z st).
Definition mom_chk (s k1 D : Z) : bool := (Z.abs (s * k1 - D) * E39 <=? k1 * D)%Z.
Fixpoint mom_loop (n : nat) (k1 D : Z) (st : list zst) : bool :=
  match n with
  | O => true
  | S n' => (mom_chk (st_sum st) k1 D && mom_loop n' (k1 + 1) ((2 * E40) * D) (st_step st))%bool
  end.

Lemma st_step_at k : (0 <= k)%Z -> st_step (st_at k) = st_at (k + 1).
Proof.
  intro Hk. unfold st_step, st_at. rewrite map_map. apply map_ext. intro p.
  cbv beta iota. now rewrite Z.add_1_r, !Z.pow_succ_r by exact Hk.
Qed.
Lemma st_sum_at k : st_sum (st_at (Z.of_nat k)) = zsumk k.
Proof. unfold st_sum, st_at, zsumk. rewrite map_map. reflexivity. Qed.
Lemma mom_okZ_chk k : mom_okZ k = mom_chk (zsumk k) (Z.of_nat (S k)) ((2 * E40) ^ Z.of_nat (S k)).
Proof. reflexivity. Qed.

Lemma mom_loop_ok n : forall k,
  mom_loop n (Z.of_nat (S k)) ((2 * E40) ^ Z.of_nat (S k)) (st_at (Z.of_nat k)) = true ->
  forall j, (j < n)%nat -> mom_okZ (k + j) = true.
Proof.
  induction n as [|n IH]; intros k H j Hj; [lia|].
  cbn [mom_loop] in H. apply andb_prop in H. destruct H as [H1 H2].
  destruct j as [|j].
  - rewrite Nat.add_0_r, mom_okZ_chk, <- st_sum_at. exact H1.
  - replace (k + S j)%nat with (S k + j)%nat by lia. apply IH; [|lia].
    rewrite st_step_at in H2 by lia.
    replace (Z.of_nat (S k) + 1)%Z with (Z.of_nat (S (S k))) in H2 by lia.
    replace (Z.of_nat k + 1)%Z with (Z.of_nat (S k)) in H2 by lia.
    replace ((2 * E40) ^ Z.of_nat (S (S k)))%Z with (2 * E40 * (2 * E40) ^ Z.of_nat (S k))%Z; [exact H2|].
    rewrite (Nat2Z.inj_succ (S k)), Z.pow_succ_r by lia. reflexivity.
Qed.

Lemma mom_loop_48 : mom_loop 48 1 (2 * E40) (st_at 0) = true.
Proof. vm_compute. reflexivity. Qed.

(* | (1/2) * sum_i C_i * (1/2*T_i + 1/2)^k - 1/(k+1) | <= 10^-39 for every k <= 47: the table of the code is a
   24-point rule of full Gauss degree (2*24 - 1) up to the rounding of its 40-digit entries *)
Theorem gl_moments_47 : forall k, (k <= 47)%nat ->
  Rabs (gl_length (fun t => t ^ k) - 1 / INR (S k)) <= / 10 ^ 39.
Proof.
  intros k Hk. apply mom_okZ_correct.
  apply (mom_loop_ok 48 0 mom_loop_48 k). lia.
Qed.
Corollary gl_moments_47_30 : forall k, (k <= 47)%nat ->
  Rabs (gl_length (fun t => t ^ k) - 1 / INR (S k)) <= / 10 ^ 30.
Proof. intros k Hk. apply Rle_trans with (2 := eps39_30). now apply gl_moments_47. Qed.

(* ================================================================================================== *)
(* Part 2: polynomials as coefficient lists                                                           *)
(* ================================================================================================== *)
Fixpoint peval (cs : list R) (t : R) : R :=
  match cs with [] => 0 | c :: r => c + t * peval r t end.
Fixpoint padd (p q : list R) : list R :=
  match p, q with
  | [], _ => q
  | _, [] => p
  | a :: p', b :: q' => (a + b) :: padd p' q'
  end.
Definition pscal (k : R) (p : list R) : list R := map (Rmult k) p.
(* multiplication by t (the empty list stays empty, to keep lengths exact) *)
Definition pshift (p : list R) : list R := match p with [] => [] | _ => 0 :: p end.
Fixpoint pmul (p q : list R) : list R :=
  match p with [] => [] | a :: p' => padd (pscal a q) (pshift (pmul p' q)) end.
(* a(p(t)) for the outer coefficient list a *)
Fixpoint pcomp (a p : list R) : list R :=
  match a with [] => [] | c :: a' => padd [c] (pmul p (pcomp a' p)) end.
Fixpoint pl1 (p : list R) : R :=
  match p with [] => 0 | c :: r => Rabs c + pl1 r end.
(* sum_k cs_k / (n + k + 1): the integral of t^n * cs(t) over [0,1] *)
Fixpoint pint_from (n : nat) (cs : list R) : R :=
  match cs with [] => 0 | c :: r => c / INR (S n) + pint_from (S n) r end.
Definition pint (cs : list R) : R := pint_from 0 cs.

(* ---- evaluation ---- *)
Lemma peval_padd p q t : peval (padd p q) t = peval p t + peval q t.
Proof.
  revert q. induction p as [|a p IH]; intros [|b q]; cbn [padd peval]; try ring. rewrite IH. ring.
Qed.
Lemma peval_pscal k p t : peval (pscal k p) t = k * peval p t.
Proof. induction p as [|a p IH]; cbn [pscal map peval]; [ring|]. fold (pscal k p). rewrite IH. ring. Qed.
Lemma peval_pshift p t : peval (pshift p) t = t * peval p t.
Proof. destruct p; cbn [pshift peval]; ring. Qed.
Lemma peval_pmul p q t : peval (pmul p q) t = peval p t * peval q t.
Proof.
  induction p as [|a p IH]; cbn [pmul peval]; [ring|].
  rewrite peval_padd, peval_pscal, peval_pshift, IH. ring.
Qed.
Lemma peval_pcomp a p t : peval (pcomp a p) t = peval a (peval p t).
Proof.
  induction a as [|c a IH]; cbn [pcomp peval]; [ring|].
  rewrite peval_padd, peval_pmul, IH. cbn [peval]. ring.
Qed.

(* ---- lengths ---- *)
Lemma length_padd p q : length (padd p q) = Nat.max (length p) (length q).
Proof.
  revert q. induction p as [|a p IH]; intros [|b q]; cbn [padd length Nat.max]; try reflexivity.
  now rewrite IH.
Qed.
Lemma length_pscal k p : length (pscal k p) = length p.
Proof. apply map_length. Qed.
Lemma length_pshift p : (length (pshift p) <= S (length p))%nat /\ (p = [] -> pshift p = []).
Proof. destruct p; cbn [pshift length]; split; auto; try lia; discriminate. Qed.
Lemma pmul_nil_r p : pmul p [] = [].
Proof. induction p as [|a p IH]; cbn [pmul pscal map padd]; [reflexivity|]. now rewrite IH. Qed.
Lemma length_pmul p q : (1 <= length q)%nat -> (length (pmul p q) <= length p + length q - 1)%nat.
Proof.
  intro Hq. induction p as [|a p IH]; cbn [pmul length]; [lia|].
  rewrite length_padd, length_pscal. destruct (length_pshift (pmul p q)) as [H _]. lia.
Qed.
Lemma length_pcomp a p : (1 <= length p)%nat ->
  (length (pcomp a p) <= (length a - 1) * (length p - 1) + 1)%nat.
Proof.
  intro Hp. induction a as [|c a IH]; cbn [pcomp length]; [lia|].
  rewrite length_padd. cbn [length].
  destruct a as [|c' a'].
  - cbn [pcomp]. rewrite pmul_nil_r. cbn [length]. lia.
  - assert (H1 : (1 <= length (pcomp (c' :: a') p))%nat).
    { cbn [pcomp]. rewrite length_padd. cbn [length]. lia. }
    assert (H2 := length_pmul p _ H1). cbn [length] in *. nia.
Qed.

(* ---- l1 norm ---- *)
Lemma pl1_nonneg p : 0 <= pl1 p.
Proof. induction p as [|a p IH]; cbn [pl1]; [lra|]. assert (H := Rabs_pos a). lra. Qed.
Lemma pl1_padd p q : pl1 (padd p q) <= pl1 p + pl1 q.
Proof.
  revert q. induction p as [|a p IH]; intros [|b q]; cbn [padd pl1]; try lra.
  specialize (IH q). assert (H := Rabs_triang a b). lra.
Qed.
Lemma pl1_pscal k p : pl1 (pscal k p) = Rabs k * pl1 p.
Proof.
  induction p as [|a p IH]; cbn [pscal map pl1]; [ring|]. fold (pscal k p). rewrite IH, Rabs_mult. ring.
Qed.
Lemma pl1_pshift p : pl1 (pshift p) = pl1 p.
Proof. destruct p; cbn [pshift pl1]; [reflexivity|]. rewrite Rabs_R0. ring. Qed.
Lemma pl1_pmul p q : pl1 (pmul p q) <= pl1 p * pl1 q.
Proof.
  induction p as [|a p IH]; cbn [pmul pl1]; [lra|].
  eapply Rle_trans; [apply pl1_padd|]. rewrite pl1_pscal, pl1_pshift. lra.
Qed.
(* composition: the l1 norm of a(p) is at most |a|(l1 p), where |a| has the absolute coefficients *)
Lemma pl1_pcomp a b p : Forall2 (fun x y => Rabs x <= y) a b -> pl1 (pcomp a p) <= peval b (pl1 p).
Proof.
  intro H. induction H as [|x y a b Hxy Hab IH]; cbn [pcomp pl1 peval]; [lra|].
  eapply Rle_trans; [apply pl1_padd|]. cbn [pl1].
  assert (H1 := pl1_pmul p (pcomp a p)). assert (H2 := pl1_nonneg p).
  assert (H3 : pl1 p * pl1 (pcomp a p) <= pl1 p * peval b (pl1 p)) by now apply Rmult_le_compat_l.
  lra.
Qed.

(* ---- bounds on values ---- *)
Lemma peval_abs_le cs bs t r : Forall2 (fun x y => Rabs x <= y) cs bs -> Rabs t <= r ->
  Rabs (peval cs t) <= peval bs r.
Proof.
  intros H Ht. induction H as [|x y cs bs Hxy Hcb IH]; cbn [peval]; [rewrite Rabs_R0; lra|].
  eapply Rle_trans; [apply Rabs_triang|]. rewrite Rabs_mult.
  assert (H1 : Rabs t * Rabs (peval cs t) <= r * peval bs r)
    by (apply Rmult_le_compat; auto using Rabs_pos).
  lra.
Qed.
Lemma peval_nonneg bs x : List.Forall (fun y => 0 <= y) bs -> 0 <= x -> 0 <= peval bs x.
Proof.
  intros H Hx. induction H as [|y bs Hy Hbs IH]; cbn [peval]; [lra|].
  assert (H1 : 0 <= x * peval bs x) by now apply Rmult_le_pos. lra.
Qed.
Lemma peval_mono bs x y : List.Forall (fun z => 0 <= z) bs -> 0 <= x <= y -> peval bs x <= peval bs y.
Proof.
  intros H Hxy. induction H as [|z bs Hz Hbs IH]; cbn [peval]; [lra|].
  assert (H0 := peval_nonneg bs x Hbs (proj1 Hxy)).
  assert (H1 : x * peval bs x <= y * peval bs y) by (apply Rmult_le_compat; lra). lra.
Qed.

Lemma peval_cont cs t : continuous (peval cs) t.
Proof.
  induction cs as [|c cs IH].
  - apply continuous_const.
  - apply (continuous_plus (fun _ => c) (fun u => u * peval cs u)); [apply continuous_const|].
    apply (continuous_mult (fun u => u) (peval cs)); [apply continuous_id | exact IH].
Qed.

(* ---- the exact integral over [0,1] ---- *)
Lemma INR_S_neq n : INR (S n) <> 0.
Proof. apply not_0_INR. lia. Qed.

Lemma is_RInt_pow n : is_RInt (fun t => t ^ n) 0 1 (1 / INR (S n)).
Proof.
  assert (Hn := INR_S_neq n).
  replace (1 / INR (S n)) with (minus ((fun t => t ^ S n / INR (S n)) 1) ((fun t => t ^ S n / INR (S n)) 0)).
  2:{ unfold minus, plus, opp; simpl. rewrite pow1, Rmult_0_l. field. exact Hn. }
  apply (is_RInt_derive (fun t => t ^ S n / INR (S n)) (fun t => t ^ n)).
  - intros x _. auto_derive; [exact I|].
    change (match n with 0%nat => 1 | S _ => INR n + 1 end) with (INR (S n)). field. exact Hn.
  - intros x _. apply continuity_pt_filterlim. reg.
Qed.

Lemma is_RInt_const_01 (v : R) : is_RInt (fun _ : R => v) 0 1 v.
Proof.
  assert (H := @is_RInt_const R_NormedModule 0 1 v).
  match type of H with is_RInt _ _ _ ?x => replace x with v in H end; [exact H|].
  unfold scal; simpl; unfold mult; simpl; ring.
Qed.

Lemma is_RInt_pow_peval n cs : is_RInt (fun t => t ^ n * peval cs t) 0 1 (pint_from n cs).
Proof.
  revert n. induction cs as [|c cs IH]; intro n; cbn [peval pint_from].
  - apply (is_RInt_ext (fun _ => 0)); [intros x _; symmetry; apply Rmult_0_r|].
    apply is_RInt_const_01.
  - apply (is_RInt_ext (fun t => plus (scal c (t ^ n)) (t ^ S n * peval cs t))).
    { intros t _. unfold plus, scal; simpl; unfold mult; simpl. ring. }
    replace (c / INR (S n) + pint_from (S n) cs) with (plus (scal c (1 / INR (S n))) (pint_from (S n) cs))
      by (unfold plus, scal; simpl; unfold mult; simpl; field; apply INR_S_neq).
    apply (@is_RInt_plus R_NormedModule); [|apply IH].
    apply (@is_RInt_scal R_NormedModule). apply is_RInt_pow.
Qed.

Theorem is_RInt_peval cs : is_RInt (peval cs) 0 1 (pint cs).
Proof.
  apply (is_RInt_ext (fun t => t ^ 0 * peval cs t)); [intros; simpl; ring|]. apply is_RInt_pow_peval.
Qed.
Theorem RInt_peval cs : RInt (peval cs) 0 1 = pint cs.
Proof. apply is_RInt_unique, is_RInt_peval. Qed.

(* ---- the quadrature error for polynomials of degree <= 47 ---- *)
Lemma gl_length_zero : gl_length (fun _ => 0) = 0.
Proof.
  rewrite (gl_length_ext _ (fun t => 0 * t ^ 0)) by (intro; ring). rewrite gl_length_scal. ring.
Qed.

Lemma gl_pow_peval n cs : (n + length cs <= 48)%nat ->
  Rabs (gl_length (fun t => t ^ n * peval cs t) - pint_from n cs) <= / 10 ^ 39 * pl1 cs.
Proof.
  revert n. induction cs as [|c cs IH]; intros n Hn; cbn [peval pint_from pl1 length] in *.
  - rewrite (gl_length_ext _ (fun _ => 0)) by (intro; ring). rewrite gl_length_zero.
    replace (0 - 0) with 0 by ring. rewrite Rabs_R0. lra.
  - rewrite (gl_length_ext _ (fun t => c * t ^ n + t ^ S n * peval cs t)) by (intro; simpl; ring).
    rewrite (gl_length_plus (fun t => c * t ^ n) (fun t => t ^ S n * peval cs t)), gl_length_scal.
    assert (H1 := gl_moments_47 n ltac:(lia)). assert (H2 := IH (S n) ltac:(lia)).
    replace (c * gl_length (fun t => t ^ n) + gl_length (fun t => t ^ S n * peval cs t) -
             (c / INR (S n) + pint_from (S n) cs))
      with (c * (gl_length (fun t => t ^ n) - 1 / INR (S n)) +
            (gl_length (fun t => t ^ S n * peval cs t) - pint_from (S n) cs))
      by (field; apply INR_S_neq).
    eapply Rle_trans; [apply Rabs_triang|]. rewrite Rabs_mult.
    assert (H3 : Rabs c * Rabs (gl_length (fun t => t ^ n) - 1 / INR (S n)) <= Rabs c * / 10 ^ 39)
      by (apply Rmult_le_compat_l; [apply Rabs_pos | exact H1]).
    lra.
Qed.

(* the rule applied to a polynomial with at most 48 coefficients, against its exact integral *)
Theorem gl_peval_error cs : (length cs <= 48)%nat ->
  Rabs (gl_length (peval cs) - pint cs) <= / 10 ^ 39 * pl1 cs.
Proof.
  intro H. rewrite (gl_length_ext _ (fun t => t ^ 0 * peval cs t)) by (intro; simpl; ring).
  apply gl_pow_peval. exact H.
Qed.
Corollary gl_peval_error_RInt cs : (length cs <= 48)%nat ->
  Rabs (gl_length (peval cs) - RInt (peval cs) 0 1) <= / 10 ^ 39 * pl1 cs.
Proof. rewrite RInt_peval. apply gl_peval_error. Qed.

(* ================================================================================================== *)
(* Part 3: the approximation lemma                                                                    *)
(* ================================================================================================== *)
Lemma d39_pos : 0 < / 10 ^ 39.
Proof. exact eps_pos. Qed.

(* two functions within e of each other on (0,1) have rule values within e * (1 + 1e-39) *)
Lemma gl_length_close f g e : (forall t, 0 < t < 1 -> Rabs (f t - g t) <= e) ->
  Rabs (gl_length f - gl_length g) <= e * (1 + / 10 ^ 39).
Proof.
  intro H.
  assert (He : 0 <= e).
  { eapply Rle_trans; [apply Rabs_pos | apply (H (1/2)); lra]. }
  assert (HM := M0_bound). unfold M0, eps in HM. apply abs_le_inv in HM.
  assert (Hup : gl_length f <= gl_length g + e * gl_length (fun t => t ^ 0)).
  { rewrite <- gl_length_scal, <- (gl_length_plus g (fun t => e * t ^ 0)).
    apply gl_length_le. intros t Ht. specialize (H t Ht). apply abs_le_inv in H. simpl. lra. }
  assert (Hlo : gl_length g - e * gl_length (fun t => t ^ 0) <= gl_length f).
  { replace (gl_length g - e * gl_length (fun t => t ^ 0)) with (gl_length g + (- e) * gl_length (fun t => t ^ 0)) by ring.
    rewrite <- gl_length_scal, <- (gl_length_plus g (fun t => (- e) * t ^ 0)).
    apply gl_length_le. intros t Ht. specialize (H t Ht). apply abs_le_inv in H. simpl. lra. }
  apply Rabs_le. nra.
Qed.

Lemma RInt_close f g If Ig e : is_RInt f 0 1 If -> is_RInt g 0 1 Ig ->
  (forall t, 0 < t < 1 -> Rabs (f t - g t) <= e) -> Rabs (If - Ig) <= e.
Proof.
  intros Hf Hg H.
  assert (Hc : is_RInt (fun _ : R => e) 0 1 e) by apply is_RInt_const_01.
  assert (H1 : If <= Ig + e).
  { apply (is_RInt_le f (fun t => plus (g t) e) 0 1); [lra | exact Hf | |].
    - apply (@is_RInt_plus R_NormedModule); assumption.
    - intros t Ht. specialize (H t Ht). apply abs_le_inv in H. unfold plus; simpl. lra. }
  assert (H2 : Ig <= If + e).
  { apply (is_RInt_le g (fun t => plus (f t) e) 0 1); [lra | exact Hg | |].
    - apply (@is_RInt_plus R_NormedModule); assumption.
    - intros t Ht. specialize (H t Ht). apply abs_le_inv in H. unfold plus; simpl. lra. }
  apply Rabs_le. lra.
Qed.

(* the approximation lemma: a function uniformly within e of a polynomial with at most 48 coefficients *)
Theorem gl_approx_error f cs e : ex_RInt f 0 1 -> (length cs <= 48)%nat ->
  (forall t, 0 <= t <= 1 -> Rabs (f t - peval cs t) <= e) ->
  Rabs (gl_length f - RInt f 0 1) <= (2 + / 10 ^ 39) * e + / 10 ^ 39 * pl1 cs.
Proof.
  intros Hex Hlen H.
  assert (Ho : forall t, 0 < t < 1 -> Rabs (f t - peval cs t) <= e) by (intros t Ht; apply H; lra).
  assert (H1 := gl_length_close f (peval cs) e Ho).
  assert (H2 := gl_peval_error cs Hlen).
  assert (H3 := RInt_close f (peval cs) _ _ e (RInt_correct f 0 1 Hex) (is_RInt_peval cs) Ho).
  replace (gl_length f - RInt f 0 1) with
    ((gl_length f - gl_length (peval cs)) + (gl_length (peval cs) - pint cs) - (RInt f 0 1 - pint cs)) by ring.
  apply abs_le_inv in H1, H2, H3. apply Rabs_le. lra.
Qed.
Corollary gl_approx_error_30 f cs e : ex_RInt f 0 1 -> (length cs <= 48)%nat ->
  (forall t, 0 <= t <= 1 -> Rabs (f t - peval cs t) <= e) ->
  Rabs (gl_length f - RInt f 0 1) <= (2 + / 10 ^ 30) * e + / 10 ^ 30 * pl1 cs.
Proof.
  intros Hex Hlen H. assert (H0 := gl_approx_error f cs e Hex Hlen H).
  assert (He : 0 <= e) by (eapply Rle_trans; [apply Rabs_pos | apply (H 0); lra]).
  assert (Hl := pl1_nonneg cs). assert (Hd := eps39_30). assert (Hp := d39_pos).
  assert (A : / 10 ^ 39 * e <= / 10 ^ 30 * e) by now apply Rmult_le_compat_r.
  assert (B : / 10 ^ 39 * pl1 cs <= / 10 ^ 30 * pl1 cs) by now apply Rmult_le_compat_r.
  lra.
Qed.

Print Assumptions gl_moments_47.
Print Assumptions gl_peval_error.
Print Assumptions gl_approx_error.
