(* C09: affine maps commute with evaluation and compose in call order (identities over the reals, all inputs). *)
From Coq Require Import PrimFloat.
From Coq Require Import ZArith List Bool Reals Lra Lia Psatz.
From BZ Require Import Base.Ops Proofs.Tactics Gen.Point Gen.Affine Gen.Line Gen.Quad Gen.Cubic.
Import ListNotations.
Open Scope R_scope.

(* ------------------------------------------------------------------------------------------------ *)
(* 1. the angle returned by the real atan2 has the right cosine and sine                              *)
(* ------------------------------------------------------------------------------------------------ *)

Lemma cos2_sin2_mul a : cos a * cos a + sin a * sin a = 1.
Proof. pose proof (sin2_cos2 a) as H. unfold Rsqr in H. lra. Qed.

Lemma sqrt_sumsq_eq_0 x y : sqrt (x * x + y * y) = 0 -> x = 0 /\ y = 0.
Proof.
  intros H. apply sqrt_eq_0 in H; [|nra]. split; nra.
Qed.

Lemma atan2_cos_sin : forall x y, let m := sqrt (x * x + y * y) in
  m <> 0 -> m * cos (R_atan2 y x) = x /\ m * sin (R_atan2 y x) = y.
Proof.
  intros x y m Hm.
  assert (Hm0 : 0 <= m) by apply sqrt_pos.
  assert (Hmpos : 0 < m) by lra.
  assert (Hmm : m * m = x * x + y * y) by (apply sqrt_sqrt; nra).
  assert (Hq : -1 <= x / m <= 1).
  { split.
    - apply Rmult_le_reg_r with m; [exact Hmpos|]. unfold Rdiv. rewrite Rmult_assoc, Rinv_l by exact Hm. nra.
    - apply Rmult_le_reg_r with m; [exact Hmpos|]. unfold Rdiv. rewrite Rmult_assoc, Rinv_l by exact Hm. nra. }
  pose proof (cos_acos (x / m) Hq) as Hcos.
  pose proof (acos_bound (x / m)) as Hb.
  assert (Hsin0 : 0 <= sin (acos (x / m))) by (apply sin_ge_0; lra).
  pose proof (cos2_sin2_mul (acos (x / m))) as Hcs. rewrite Hcos in Hcs.
  assert (Hxm : m * (x / m) = x) by (field; exact Hm).
  assert (Hsq : (m * sin (acos (x / m))) * (m * sin (acos (x / m))) = y * y).
  { assert (E : m * m * (x / m * (x / m)) = x * x) by (field; exact Hm).
    nra. }
  assert (Hms : 0 <= m * sin (acos (x / m))) by nra.
  unfold R_atan2. fold m.
  destruct (Req_EM_T m 0) as [E|_]; [contradiction|].
  destruct (Rle_dec 0 y) as [Hy|Hy].
  - split; [rewrite Hcos; exact Hxm|]. nra.
  - rewrite cos_neg, sin_neg. split; [rewrite Hcos; exact Hxm|]. nra.
Qed.

(* the same fact in the shape used below: rotating (x,y) back by its own angle lands on the positive x axis;
   holds at the origin too *)
Lemma atan2_to_axis x y :
  cos (R_atan2 y x) * x + sin (R_atan2 y x) * y = sqrt (x * x + y * y) /\
  - sin (R_atan2 y x) * x + cos (R_atan2 y x) * y = 0.
Proof.
  destruct (Req_dec (sqrt (x * x + y * y)) 0) as [E|N].
  - destruct (sqrt_sumsq_eq_0 x y E) as [-> ->]. rewrite E. split; ring.
  - destruct (atan2_cos_sin x y N) as [Hc Hs].
    pose proof (cos2_sin2_mul (R_atan2 y x)) as H1.
    set (m := sqrt (x * x + y * y)) in *. set (C := cos (R_atan2 y x)) in *. set (S := sin (R_atan2 y x)) in *.
    clearbody m C S. subst x y. split.
    + transitivity (m * (C * C + S * S)); [ring|]. rewrite H1. ring.
    + ring.
Qed.

(* ------------------------------------------------------------------------------------------------ *)
(* 2. Point.rotated is the rigid counter-clockwise rotation about the centre                          *)
(* ------------------------------------------------------------------------------------------------ *)

Lemma point_fromAngle_spec a : Point_fromAngle ROps a = P (cos a) (sin a).
Proof.
  rcbv. rewrite (cos2_sin2_mul a), sqrt_1.
  destruct (Req_EM_T 1 (0 / 1)) as [E|_]; [lra|].
  apply pt_eq; field.
Qed.

Lemma point_rotated_spec : forall p c a,
  Point_rotated ROps p c a =
  P (px c + (px p - px c) * cos a - (py p - py c) * sin a)
    (py c + (px p - px c) * sin a + (py p - py c) * cos a).
Proof.
  intros [x y] [cx cy] a.
  unfold Point_rotated. cbv zeta. rewrite point_fromAngle_spec. rcbv.
  set (m := sqrt ((cx - x) * (cx - x) + (cy - y) * (cy - y))).
  rewrite cos_plus, sin_plus.
  destruct (Req_dec m 0) as [E|N].
  - destruct (sqrt_sumsq_eq_0 _ _ E) as [Ex Ey]. rewrite E.
    replace (x - cx) with 0 by lra. replace (y - cy) with 0 by lra. apply pt_eq; ring.
  - destruct (atan2_cos_sin (cx - x) (cy - y) N) as [Hc Hs]. fold m in Hc, Hs.
    set (C := cos (R_atan2 (cy - y) (cx - x))) in *. set (S := sin (R_atan2 (cy - y) (cx - x))) in *.
    clearbody C S m.
    replace (x - cx) with (- (m * C)) by lra. replace (y - cy) with (- (m * S)) by lra.
    apply pt_eq; ring.
Qed.

Lemma point_rotated_fixes_centre : forall c a, Point_rotated ROps c c a = c.
Proof. intros [cx cy] a. rewrite point_rotated_spec. cbn [px py]. apply pt_eq; ring. Qed.

Lemma point_rotated_preserves_distance : forall p c a,
  Point_squareDistanceFrom ROps (Point_rotated ROps p c a) c = Point_squareDistanceFrom ROps p c.
Proof.
  intros [x y] [cx cy] a. rewrite point_rotated_spec. rcbv.
  pose proof (cos2_sin2_mul a) as H.
  transitivity (((x - cx) * (x - cx) + (y - cy) * (y - cy)) * (cos a * cos a + sin a * sin a)); [ring|].
  rewrite H. ring.
Qed.

(* and therefore the (non-squared) distance too *)
Lemma point_rotated_preserves_distanceFrom : forall p c a,
  Point_distanceFrom ROps (Point_rotated ROps p c a) c = Point_distanceFrom ROps p c.
Proof.
  intros p c a. unfold Point_distanceFrom. rewrite point_rotated_preserves_distance. reflexivity.
Qed.

(* Point.rotate (the in-place variant used by Segment.rotated) computes the same point *)
Lemma point_rotate_eq_rotated p c a : Point_rotate ROps p c a = Point_rotated ROps p c a.
Proof. unfold Point_rotate. cbv zeta. destruct (Point_rotated ROps p c a); reflexivity. Qed.

(* ------------------------------------------------------------------------------------------------ *)
(* 3. the rotation matrix is counter-clockwise                                                        *)
(* ------------------------------------------------------------------------------------------------ *)

Lemma rotation_ccw : forall p a,
  Point_transformed ROps p (Affine_rotation ROps a) = P (px p * cos a - py p * sin a) (px p * sin a + py p * cos a).
Proof. intros [x y] a. rcbv. rewrite cos_neg, sin_neg. apply pt_eq; ring. Qed.

(* the matrix rotation agrees with Point.rotated about the origin *)
Lemma rotation_matches_point_rotated : forall p a,
  Point_transformed ROps p (Affine_rotation ROps a) = Point_rotated ROps p (P 0 0) a.
Proof. intros [x y] a. rewrite rotation_ccw, point_rotated_spec. cbn [px py]. apply pt_eq; ring. Qed.

(* ------------------------------------------------------------------------------------------------ *)
(* 4. transforming the control points commutes with evaluation                                        *)
(* ------------------------------------------------------------------------------------------------ *)

Lemma point_transform_eq_transformed p m : Point_transform ROps p m = Point_transformed ROps p m.
Proof. reflexivity. Qed.

Lemma transformed_commutes_eval_line : forall (s : seg2 R) (m : mat3 R) t,
  Line_pointAtTime ROps (Line_transformed ROps s m) t = Point_transformed ROps (Line_pointAtTime ROps s t) m.
Proof. intros. destruct_pts. rcbv. apply pt_eq; ring. Qed.
Lemma transformed_commutes_eval_quad : forall (s : seg3 R) (m : mat3 R) t,
  Quad_pointAtTime ROps (Quad_transformed ROps s m) t = Point_transformed ROps (Quad_pointAtTime ROps s t) m.
Proof. intros. destruct_pts. rcbv. apply pt_eq; ring. Qed.
Lemma transformed_commutes_eval_cubic : forall (s : seg4 R) (m : mat3 R) t,
  Cubic_pointAtTime ROps (Cubic_transformed ROps s m) t = Point_transformed ROps (Cubic_pointAtTime ROps s t) m.
Proof. intros. destruct_pts. rcbv. apply pt_eq; ring. Qed.

Lemma translated_commutes_eval_line : forall (s : seg2 R) (v : pt R) t,
  Line_pointAtTime ROps (Line_translated ROps s v) t = Point___add__ ROps (Line_pointAtTime ROps s t) v.
Proof. intros. destruct_pts. rcbv. apply pt_eq; ring. Qed.
Lemma translated_commutes_eval_quad : forall (s : seg3 R) (v : pt R) t,
  Quad_pointAtTime ROps (Quad_translated ROps s v) t = Point___add__ ROps (Quad_pointAtTime ROps s t) v.
Proof. intros. destruct_pts. rcbv. apply pt_eq; ring. Qed.
Lemma translated_commutes_eval_cubic : forall (s : seg4 R) (v : pt R) t,
  Cubic_pointAtTime ROps (Cubic_translated ROps s v) t = Point___add__ ROps (Cubic_pointAtTime ROps s t) v.
Proof. intros. destruct_pts. rcbv. apply pt_eq; ring. Qed.

Lemma scaled_commutes_eval_line : forall (s : seg2 R) (k : R) t,
  Line_pointAtTime ROps (Line_scaled ROps s k) t = Point___mul__ ROps (Line_pointAtTime ROps s t) k.
Proof. intros. destruct_pts. rcbv. apply pt_eq; ring. Qed.
Lemma scaled_commutes_eval_quad : forall (s : seg3 R) (k : R) t,
  Quad_pointAtTime ROps (Quad_scaled ROps s k) t = Point___mul__ ROps (Quad_pointAtTime ROps s t) k.
Proof. intros. destruct_pts. rcbv. apply pt_eq; ring. Qed.
Lemma scaled_commutes_eval_cubic : forall (s : seg4 R) (k : R) t,
  Cubic_pointAtTime ROps (Cubic_scaled ROps s k) t = Point___mul__ ROps (Cubic_pointAtTime ROps s t) k.
Proof. intros. destruct_pts. rcbv. apply pt_eq; ring. Qed.

(* Segment.rotated rotates every control point *)
Lemma line_rotated_points (s : seg2 R) c a :
  Line_rotated ROps s c a = L2 (Point_rotated ROps (l0 s) c a) (Point_rotated ROps (l1 s) c a).
Proof.
  destruct s as [[x0 y0] [x1 y1]]. unfold Line_rotated, Point_clone. cbv zeta. cbn [l0 l1 px py].
  rewrite !point_rotate_eq_rotated. reflexivity.
Qed.
Lemma quad_rotated_points (s : seg3 R) c a :
  Quad_rotated ROps s c a =
  Q3 (Point_rotated ROps (q0 s) c a) (Point_rotated ROps (q1 s) c a) (Point_rotated ROps (q2 s) c a).
Proof.
  destruct s as [[x0 y0] [x1 y1] [x2 y2]]. unfold Quad_rotated, Point_clone. cbv zeta. cbn [q0 q1 q2 px py].
  rewrite !point_rotate_eq_rotated. reflexivity.
Qed.
Lemma cubic_rotated_points (s : seg4 R) c a :
  Cubic_rotated ROps s c a =
  C4 (Point_rotated ROps (c0 s) c a) (Point_rotated ROps (c1 s) c a)
     (Point_rotated ROps (c2 s) c a) (Point_rotated ROps (c3 s) c a).
Proof.
  destruct s as [[x0 y0] [x1 y1] [x2 y2] [x3 y3]]. unfold Cubic_rotated, Point_clone. cbv zeta. cbn [c0 c1 c2 c3 px py].
  rewrite !point_rotate_eq_rotated. reflexivity.
Qed.

Lemma rotated_commutes_eval_line : forall (s : seg2 R) (c : pt R) a t,
  Line_pointAtTime ROps (Line_rotated ROps s c a) t = Point_rotated ROps (Line_pointAtTime ROps s t) c a.
Proof.
  intros. rewrite line_rotated_points, !point_rotated_spec. destruct_pts. rcbv. apply pt_eq; ring.
Qed.
Lemma rotated_commutes_eval_quad : forall (s : seg3 R) (c : pt R) a t,
  Quad_pointAtTime ROps (Quad_rotated ROps s c a) t = Point_rotated ROps (Quad_pointAtTime ROps s t) c a.
Proof.
  intros. rewrite quad_rotated_points, !point_rotated_spec. destruct_pts. rcbv. apply pt_eq; ring.
Qed.
Lemma rotated_commutes_eval_cubic : forall (s : seg4 R) (c : pt R) a t,
  Cubic_pointAtTime ROps (Cubic_rotated ROps s c a) t = Point_rotated ROps (Cubic_pointAtTime ROps s t) c a.
Proof.
  intros. rewrite cubic_rotated_points, !point_rotated_spec. destruct_pts. rcbv. apply pt_eq; ring.
Qed.

(* ------------------------------------------------------------------------------------------------ *)
(* 5. composition in call order                                                                       *)
(* ------------------------------------------------------------------------------------------------ *)

Inductive call := CTranslate (v : pt R) | CRotate (a : R) | CScale (fx : R) (fy : option R) | CReflect.

(* AffineTransformation() : [[1,0,0],[0,1,0],[0,0,1]] *)
Definition identity : mat3 R := M3 (IZR 1) (IZR 0) (IZR 0) (IZR 0) (IZR 1) (IZR 0) (IZR 0) (IZR 0) (IZR 1).

Definition apply_call (m : mat3 R) (c : call) : mat3 R :=
  match c with
  | CTranslate v => Affine_translate ROps m v
  | CRotate a => Affine_rotate ROps m a
  | CScale fx fy => Affine_scale ROps m fx fy
  | CReflect => Affine_reflect ROps m
  end.

Definition act (c : call) (p : pt R) : pt R :=
  match c with
  | CTranslate v => P (px p + px v) (py p + py v)
  | CRotate a => P (px p * cos a - py p * sin a) (px p * sin a + py p * cos a)
  | CScale fx fy => P (fx * px p) (match fy with Some f => f | None => fx end * py p)
  | CReflect => P (- px p) (py p)
  end.

Definition affine_row (m : mat3 R) : Prop := m20 m = 0 /\ m21 m = 0 /\ m22 m = 1.

Lemma identity_affine_row : affine_row identity.
Proof. repeat split. Qed.

Lemma identity_transformed p : Point_transformed ROps p identity = p.
Proof. destruct p as [x y]. rcbv. apply pt_eq; ring. Qed.

(* the primitive matrices act as [act] says *)
Lemma primitive_act (c : call) p : Point_transformed ROps p (apply_call identity c) = act c p.
Proof.
  destruct p as [x y]. destruct c as [[vx vy]|a|fx [fy|]|]; rcbv; try rewrite cos_neg, sin_neg; apply pt_eq; ring.
Qed.

Lemma apply_call_affine_row m c : affine_row m -> affine_row (apply_call m c).
Proof.
  destruct m as [a b c0 d e f g h i]. unfold affine_row. cbn [m20 m21 m22]. intros (-> & -> & ->).
  destruct c as [[vx vy]|a0|fx [fy|]|]; rcbv; repeat split; ring.
Qed.

(* one more call post-composes its primitive action *)
Lemma apply_call_step m c p : affine_row m ->
  Point_transformed ROps p (apply_call m c) = act c (Point_transformed ROps p m).
Proof.
  destruct m as [a b c0 d e f g h i]. unfold affine_row. cbn [m20 m21 m22]. intros (-> & -> & ->).
  destruct p as [x y].
  destruct c as [[vx vy]|a0|fx [fy|]|]; rcbv; try rewrite cos_neg, sin_neg; apply pt_eq; ring.
Qed.

Lemma compose_from : forall (cs : list call) (m : mat3 R) p, affine_row m ->
  Point_transformed ROps p (fold_left apply_call cs m) = fold_left (fun q c => act c q) cs (Point_transformed ROps p m).
Proof.
  induction cs as [|c cs IH]; intros m p Hm; cbn [fold_left].
  - reflexivity.
  - rewrite IH by (apply apply_call_affine_row; exact Hm).
    rewrite apply_call_step by exact Hm. reflexivity.
Qed.

Theorem compose_in_call_order : forall (cs : list call) p,
  Point_transformed ROps p (fold_left apply_call cs identity) = fold_left (fun q c => act c q) cs p.
Proof.
  intros cs p. rewrite compose_from by exact identity_affine_row. rewrite identity_transformed. reflexivity.
Qed.

(* the accumulated matrix always keeps the affine last row *)
Lemma fold_affine_row : forall (cs : list call) m, affine_row m -> affine_row (fold_left apply_call cs m).
Proof.
  induction cs as [|c cs IH]; intros m Hm; cbn [fold_left]; [exact Hm|].
  apply IH, apply_call_affine_row, Hm.
Qed.

(* ------------------------------------------------------------------------------------------------ *)
(* 6. scaling                                                                                         *)
(* ------------------------------------------------------------------------------------------------ *)

Lemma scale_axes : forall p fx fy,
  Point_transformed ROps p (Affine_scaling ROps fx (Some fy)) = P (fx * px p) (fy * py p).
Proof. intros [x y] fx fy. rcbv. apply pt_eq; ring. Qed.

Lemma scale_uniform : forall p fx,
  Point_transformed ROps p (Affine_scaling ROps fx None) = P (fx * px p) (fx * py p).
Proof. intros [x y] fx. rcbv. apply pt_eq; ring. Qed.

(* ------------------------------------------------------------------------------------------------ *)
(* 7. inversion                                                                                       *)
(* ------------------------------------------------------------------------------------------------ *)

Lemma isclose_zero_iff d : isclose ROps d 0 = true <-> d = 0.
Proof.
  split.
  - intros H. destruct (Req_dec d 0) as [E|N]; [exact E|exfalso].
    revert H. rcbv.
    destruct (Req_EM_T d 0) as [E|_]; [contradiction|].
    assert (Hd : 0 < Rabs d) by (apply Rabs_pos_lt; exact N).
    replace (Rabs (0 - d)) with (Rabs d) by (rewrite <- Rabs_Ropp; f_equal; ring).
    replace (1 / 1000000000 * 0) with 0 by ring. rewrite Rabs_R0.
    rewrite Rabs_mult. rewrite (Rabs_pos_eq (1 / 1000000000)) by lra.
    destruct (Rle_dec (Rabs d) 0) as [H1|_]; [lra|].
    destruct (Rle_dec (Rabs d) (1 / 1000000000 * Rabs d)) as [H2|_]; [lra|].
    discriminate.
  - intros ->. rcbv. destruct (Req_EM_T 0 0) as [_|N]; [reflexivity|contradiction].
Qed.

(* the determinant expression computed by the generated invert *)
Definition det3 (m : mat3 R) : R :=
  m00 m * (m11 m * m22 m - m12 m * m21 m) - m01 m * (m10 m * m22 m - m12 m * m20 m)
  + m02 m * (m10 m * m21 m - m11 m * m20 m).

Lemma det3_affine m : affine_row m -> det3 m = m00 m * m11 m - m01 m * m10 m.
Proof. destruct m as [a b c d e f g h i]. unfold affine_row, det3. cbn. intros (-> & -> & ->). ring. Qed.

Lemma invert_unfold m :
  Affine_invert ROps m =
  if isclose ROps (det3 m) 0 then m else
  M3 ((m11 m * m22 m - m21 m * m12 m) / det3 m) ((m21 m * m02 m - m01 m * m22 m) / det3 m)
     ((m01 m * m12 m - m11 m * m02 m) / det3 m)
     ((m12 m * m20 m - m10 m * m22 m) / det3 m) ((m00 m * m22 m - m02 m * m20 m) / det3 m)
     ((m02 m * m10 m - m00 m * m12 m) / det3 m)
     ((m10 m * m21 m - m11 m * m20 m) / det3 m) ((m01 m * m20 m - m00 m * m21 m) / det3 m)
     ((m00 m * m11 m - m01 m * m10 m) / det3 m).
Proof.
  destruct m as [a b c d e f g h i]. unfold Affine_invert, det3. cbv zeta. cbn [lit ROps m00 m01 m02 m10 m11 m12 m20 m21 m22 add sub mul dvd].
  replace (IZR 0 / IZR 1) with 0 by field. reflexivity.
Qed.

Lemma invert_singular_noop : forall m, det3 m = 0 -> Affine_invert ROps m = m.
Proof.
  intros m H. rewrite invert_unfold. destruct (isclose ROps (det3 m) 0) eqn:E; [reflexivity|].
  apply isclose_zero_iff in H. congruence.
Qed.

Lemma invert_singular_noop_affine : forall m, affine_row m -> m00 m * m11 m - m01 m * m10 m = 0 ->
  Affine_invert ROps m = m.
Proof. intros m Hm H. apply invert_singular_noop. rewrite det3_affine; assumption. Qed.

Lemma invert_right : forall m p, affine_row m -> m00 m * m11 m - m01 m * m10 m <> 0 ->
  Point_transformed ROps (Point_transformed ROps p m) (Affine_invert ROps m) = p.
Proof.
  intros m p Hm Hd. rewrite invert_unfold.
  destruct (isclose ROps (det3 m) 0) eqn:E.
  - apply isclose_zero_iff in E. rewrite det3_affine in E by exact Hm. contradiction.
  - clear E. destruct m as [a b c d e f g h i]. destruct p as [x y]. unfold affine_row in Hm. unfold det3.
    cbn [m00 m01 m02 m10 m11 m12 m20 m21 m22] in *. destruct Hm as (-> & -> & ->).
    rcbv. apply pt_eq; field; lra.
Qed.

Lemma invert_left : forall m p, affine_row m -> m00 m * m11 m - m01 m * m10 m <> 0 ->
  Point_transformed ROps (Point_transformed ROps p (Affine_invert ROps m)) m = p.
Proof.
  intros m p Hm Hd. rewrite invert_unfold.
  destruct (isclose ROps (det3 m) 0) eqn:E.
  - apply isclose_zero_iff in E. rewrite det3_affine in E by exact Hm. contradiction.
  - clear E. destruct m as [a b c d e f g h i]. destruct p as [x y]. unfold affine_row in Hm. unfold det3.
    cbn [m00 m01 m02 m10 m11 m12 m20 m21 m22] in *. destruct Hm as (-> & -> & ->).
    rcbv. apply pt_eq; field; lra.
Qed.

(* the inverse of an affine matrix is affine, so inversion can be iterated / composed *)
Lemma invert_affine_row : forall m, affine_row m -> affine_row (Affine_invert ROps m).
Proof.
  intros m Hm. rewrite invert_unfold. destruct (isclose ROps (det3 m) 0) eqn:E; [exact Hm|].
  assert (N : det3 m <> 0) by (intros Z; apply isclose_zero_iff in Z; congruence).
  destruct m as [a b c d e f g h i]. unfold affine_row, det3 in *.
  cbn [m00 m01 m02 m10 m11 m12 m20 m21 m22] in *. destruct Hm as (-> & -> & ->).
  repeat split; field; intros Z; apply N; lra.
Qed.

(* ------------------------------------------------------------------------------------------------ *)
(* 8. aligned(): start at the origin, end on the non-negative x axis                                  *)
(* ------------------------------------------------------------------------------------------------ *)

(* the alignment transformation of a segment from (sx,sy) to (ex,ey), applied to a point *)
Lemma alignment_core sx sy ex ey x y :
  let m1 := Affine_translation ROps (Point___mul__ ROps (P sx sy) (ofZ ROps (-1))) in
  let m2 := Affine_rotate ROps m1 (mul ROps (Point_angle ROps (Point_transformed ROps (P ex ey) m1)) (ofZ ROps (-1))) in
  let th := R_atan2 (ey - sy) (ex - sx) in
  Point_transformed ROps (P x y) m2 =
  P (cos th * (x - sx) + sin th * (y - sy)) (- sin th * (x - sx) + cos th * (y - sy)).
Proof.
  rcbv.
  replace (0 * ex + 1 * ey + sy * -1) with (ey - sy) by ring.
  replace (1 * ex + 0 * ey + sx * -1) with (ex - sx) by ring.
  replace (- (R_atan2 (ey - sy) (ex - sx) * -1)) with (R_atan2 (ey - sy) (ex - sx)) by ring.
  apply pt_eq; ring.
Qed.

Lemma alignment_start sx sy ex ey :
  let th := R_atan2 (ey - sy) (ex - sx) in
  P (cos th * (sx - sx) + sin th * (sy - sy)) (- sin th * (sx - sx) + cos th * (sy - sy)) = P 0 0.
Proof. cbv zeta. apply pt_eq; ring. Qed.

Lemma alignment_end sx sy ex ey :
  let th := R_atan2 (ey - sy) (ex - sx) in
  P (cos th * (ex - sx) + sin th * (ey - sy)) (- sin th * (ex - sx) + cos th * (ey - sy)) =
  P (sqrt ((ex - sx) * (ex - sx) + (ey - sy) * (ey - sy))) 0.
Proof. cbv zeta. destruct (atan2_to_axis (ex - sx) (ey - sy)) as [H1 H2]. apply pt_eq; assumption. Qed.

Lemma aligned_spec_line : forall s : seg2 R,
  let dx := px (l1 s) - px (l0 s) in let dy := py (l1 s) - py (l0 s) in
  l0 (Line_aligned ROps s) = P 0 0 /\ l1 (Line_aligned ROps s) = P (sqrt (dx * dx + dy * dy)) 0.
Proof.
  intros [[sx sy] [ex ey]]. cbn [l0 l1 px py]. cbv zeta.
  unfold Line_aligned, Line_transformed, Line_alignmentTransformation, Point_clone. cbv zeta.
  cbn [l0 l1 px py]. unfold Point_transform. cbv zeta.
  split.
  - rewrite (alignment_core sx sy ex ey sx sy). cbn [px py]. apply alignment_start.
  - rewrite (alignment_core sx sy ex ey ex ey). cbn [px py]. apply alignment_end.
Qed.

Lemma aligned_spec_quad : forall s : seg3 R,
  let dx := px (q2 s) - px (q0 s) in let dy := py (q2 s) - py (q0 s) in
  q0 (Quad_aligned ROps s) = P 0 0 /\ q2 (Quad_aligned ROps s) = P (sqrt (dx * dx + dy * dy)) 0.
Proof.
  intros [[sx sy] [ax ay] [ex ey]]. cbn [q0 q2 px py]. cbv zeta.
  unfold Quad_aligned, Quad_transformed, Quad_alignmentTransformation, Point_clone. cbv zeta.
  cbn [q0 q1 q2 px py]. unfold Point_transform. cbv zeta.
  split.
  - rewrite (alignment_core sx sy ex ey sx sy). cbn [px py]. apply alignment_start.
  - rewrite (alignment_core sx sy ex ey ex ey). cbn [px py]. apply alignment_end.
Qed.

Lemma aligned_spec_cubic : forall s : seg4 R,
  let dx := px (c3 s) - px (c0 s) in let dy := py (c3 s) - py (c0 s) in
  c0 (Cubic_aligned ROps s) = P 0 0 /\ c3 (Cubic_aligned ROps s) = P (sqrt (dx * dx + dy * dy)) 0.
Proof.
  intros [[sx sy] [ax ay] [bx by_] [ex ey]]. cbn [c0 c3 px py]. cbv zeta.
  unfold Cubic_aligned, Cubic_transformed, Cubic_alignmentTransformation, Point_clone. cbv zeta.
  cbn [c0 c1 c2 c3 px py]. unfold Point_transform. cbv zeta.
  split.
  - rewrite (alignment_core sx sy ex ey sx sy). cbn [px py]. apply alignment_start.
  - rewrite (alignment_core sx sy ex ey ex ey). cbn [px py]. apply alignment_end.
Qed.

(* ------------------------------------------------------------------------------------------------ *)
(* examples: the statements are not vacuous                                                           *)
(* ------------------------------------------------------------------------------------------------ *)

Example rotate_quarter_turn : Point_rotated ROps (P 1 0) (P 0 0) (PI / 2) = P 0 1.
Proof. rewrite point_rotated_spec. cbn [px py]. rewrite cos_PI2, sin_PI2. apply pt_eq; ring. Qed.

Example rotation_matrix_quarter_turn : Point_transformed ROps (P 1 0) (Affine_rotation ROps (PI / 2)) = P 0 1.
Proof. rewrite rotation_ccw. cbn [px py]. rewrite cos_PI2, sin_PI2. apply pt_eq; ring. Qed.

(* translate by (1,0) THEN rotate by PI/2 : (1,0) -> (2,0) -> (0,2); the other order would give (1,1) *)
Example call_order_example :
  Point_transformed ROps (P 1 0) (fold_left apply_call [CTranslate (P 1 0); CRotate (PI / 2)] identity) = P 0 2.
Proof. rewrite compose_in_call_order. cbn [fold_left act px py]. rewrite cos_PI2, sin_PI2. apply pt_eq; ring. Qed.

Example call_order_example_swapped :
  Point_transformed ROps (P 1 0) (fold_left apply_call [CRotate (PI / 2); CTranslate (P 1 0)] identity) = P 1 1.
Proof. rewrite compose_in_call_order. cbn [fold_left act px py]. rewrite cos_PI2, sin_PI2. apply pt_eq; ring. Qed.

(* an invertible affine matrix satisfying the hypotheses of invert_right / invert_left *)
Example invert_hypotheses_satisfiable :
  let m := M3 2 1 5 1 1 7 0 0 1 in
  affine_row m /\ m00 m * m11 m - m01 m * m10 m <> 0 /\
  Point_transformed ROps (Point_transformed ROps (P 3 4) m) (Affine_invert ROps m) = P 3 4.
Proof.
  cbv zeta. split; [repeat split|]. split; [cbn; lra|].
  apply invert_right; [repeat split|cbn; lra].
Qed.

(* scaling by 0 on the y axis really flattens (the Some 0 case is not confused with None) *)
Example scale_axes_zero : Point_transformed ROps (P 3 4) (Affine_scaling ROps 2 (Some 0)) = P 6 0.
Proof. rewrite scale_axes. cbn [px py]. apply pt_eq; ring. Qed.

(* aligning the 3-4-5 line from (1,1) to (4,5) puts its end at (5,0) *)
Example aligned_345 : l1 (Line_aligned ROps (L2 (P 1 1) (P 4 5))) = P 5 0.
Proof.
  destruct (aligned_spec_line (L2 (P 1 1) (P 4 5))) as [_ H]. rewrite H. cbn [l0 l1 px py].
  apply pt_eq; [|reflexivity].
  replace ((4 - 1) * (4 - 1) + (5 - 1) * (5 - 1)) with (5 * 5) by ring. apply sqrt_square. lra.
Qed.
