(* C18, floating-point clause for the TANGENT and NORMAL of curves (binary64 instance FOps of the generated text),
   proved with Flocq through Base/FloatErr.v.  Nothing here is generated; the generated definitions are only unfolded.

   Setting (as in Proofs/C01float.v): every control coordinate is a finite double of magnitude <= M, t is a finite
   double in [0,1];  d := the exact derivative B'(FR t) of the real curve with the same control points
   ([cubic_deriv] = Quad_pointAtTime ROps (Cubic_derivative ROps (seg4R c)) (FR t), [quad_deriv] likewise),
   s := |d| its exact speed ([cubic_speed], [quad_speed]).  Range of M: 2^-300 <= M <= 2^480.
   Conditioning hypothesis:  s >= 2^-32 M   (the derivative is not below 2^-32 of the coordinate scale).

   [cubic_tangent_float_close], [quad_tangent_float_close]:
       X_tangentAtTime FOps is finite, each component within
           550 u M / s   (cubic)        135 u M / s   (quadratic)         u = 2^-53
       of the same component of X_tangentAtTime ROps on the real images, i.e. of the exact unit vector d / s
       ([cubic_tangent_float_unit_derivative], [quad_...]: spelled out with d and sqrt), and
       its Euclidean norm is within 5 u of 1.
     The norm bound does not depend on the accuracy of the derivative: [toUnitVector_float_norm] holds for every finite
     float vector with components <= 2^500 and norm >= 2^-400.
   [cubic_normal_float_close], [quad_normal_float_close]: the same bounds for X_normalAtTime (generated as
       (-ty, tx) of the tangent: float negation is exact; no libm function is involved for curves).
   [cubic_tangent_float_1e10], [quad_tangent_float_1e10]:  s >= M / 1024  gives tangent and normal within 1e-10.
   [arch_tangent_example]: the arch (0,0)(0,100)(100,100)(100,0) at t = 1/4: exact unit tangent (3/5, 4/5); the binary64
       tangent is (0x1.3333333333333p-1, 0x1.999999999999ap-1), within 550 u 100/187.5 = 3.3e-14 of it.

   Where the constants come from:  e := derivative evaluation error (C01float: 199 u M + 22 eta, resp. 41 u M + 10 eta);
     |(X,Y)| differs from s by at most sqrt 2 e;  magnitude = sqrt (X*X + Y*Y) has relative error (3 + 1/16) u
     ([magnitude_float_close], via [hypot_chain] / [sqrt_two_sided] of C15float);  the branch mag == 0.0 is not taken;
     each division adds a relative u:  component error <= (1 + sqrt 2)(1 + o(1)) e / s + (4 + 1/4) u + eta
     <= 5/2 e / s + 5 u  ([toUnitVector_float_close], for 64 e <= s);  5 u <= 5 cs u M / s  with s <= cs M,
     cs = 6 sqrt 2 < 8.49 (cubic), 4 sqrt 2 < 5.66 (quadratic). *)
From Coq Require Import ZArith Reals Lra Lia List QArith Qreals Bool Psatz.
From Flocq Require Import Core BinarySingleNaN.
From Flocq Require PrimFloat.
From Coq Require Import Floats.
From BZ Require Import Base.Ops Base.FloatErr Gen.Point Gen.Line Gen.Quad Gen.Cubic Proofs.C01float Proofs.C15float.
From BZ Require Proofs.C18.
Open Scope R_scope.
Local Notation sqrt := R_sqrt.sqrt.

(* ------------------------------------------------------------------------------------------- *)
(* 0. real-number facts about the Euclidean norm in the plane                                   *)
(* ------------------------------------------------------------------------------------------- *)
Definition norm2 (x y : R) : R := sqrt (x * x + y * y).

Lemma norm2_pos x y : 0 <= norm2 x y.
Proof. apply sqrt_pos. Qed.
Lemma norm2_sq x y : norm2 x y * norm2 x y = x * x + y * y.
Proof. unfold norm2. apply sqrt_sqrt. assert (0 <= x * x) by apply Rle_0_sqr. assert (0 <= y * y) by apply Rle_0_sqr. lra. Qed.
Lemma norm2_ge_abs_l x y : Rabs x <= norm2 x y.
Proof.
  unfold norm2. apply sqrt_ge_of_sq; [apply Rabs_pos|].
  replace (Rabs x * Rabs x) with (x * x) by (unfold Rabs; destruct (Rcase_abs x); ring).
  assert (0 <= y * y) by apply Rle_0_sqr. lra.
Qed.
Lemma norm2_ge_abs_r x y : Rabs y <= norm2 x y.
Proof.
  unfold norm2. apply sqrt_ge_of_sq; [apply Rabs_pos|].
  replace (Rabs y * Rabs y) with (y * y) by (unfold Rabs; destruct (Rcase_abs y); ring).
  assert (0 <= x * x) by apply Rle_0_sqr. lra.
Qed.
(* the triangle inequality, from the standard library's [Rgeom.triangle] *)
Lemma norm2_triangle x y x' y' : norm2 x y <= norm2 x' y' + norm2 (x - x') (y - y').
Proof.
  assert (T := Rgeom.triangle 0 0 x y x' y'). unfold Rgeom.dist_euc, Rsqr in T.
  unfold norm2.
  replace (x * x + y * y) with ((0 - x) * (0 - x) + (0 - y) * (0 - y)) by ring.
  replace (x' * x' + y' * y') with ((0 - x') * (0 - x') + (0 - y') * (0 - y')) by ring.
  replace ((x - x') * (x - x') + (y - y') * (y - y')) with ((x' - x) * (x' - x) + (y' - y) * (y' - y)) by ring.
  exact T.
Qed.
Lemma norm2_diff x y x' y' : Rabs (norm2 x y - norm2 x' y') <= norm2 (x - x') (y - y').
Proof.
  assert (T1 := norm2_triangle x y x' y'). assert (T2 := norm2_triangle x' y' x y).
  assert (E : norm2 (x' - x) (y' - y) = norm2 (x - x') (y - y')) by (unfold norm2; f_equal; ring).
  rewrite E in T2. apply Rabs_le. lra.
Qed.
Lemma norm2_le_of_abs x y a b : Rabs x <= a -> Rabs y <= b -> norm2 x y <= norm2 a b.
Proof.
  intros Hx Hy. unfold norm2. apply sqrt_le_1_alt.
  assert (Sx := sq_abs_le x a Hx). assert (Sy := sq_abs_le y b Hy). lra.
Qed.
(* sqrt 2 <= 1.415 *)
Lemma norm2_same e : 0 <= e -> norm2 e e <= 1415 / 1000 * e.
Proof.
  intros He. unfold norm2. apply sqrt_le_of_sq; [lra|]. nra.
Qed.
Lemma norm2_unit x y : 0 < norm2 x y -> norm2 (x / norm2 x y) (y / norm2 x y) = 1.
Proof.
  intros H. assert (S := norm2_sq x y). set (L := norm2 x y) in *.
  unfold norm2. replace (x / L * (x / L) + y / L * (y / L)) with ((x * x + y * y) / (L * L)) by (field; lra).
  rewrite <- S. replace (L * L / (L * L)) with 1 by (field; lra). apply sqrt_1.
Qed.

(* perturbation of a unit vector: (X,Y) within e (coordinatewise) of (dx,dy), whose norm s is at least 64 e *)
Lemma unit_perturb dx dy X Y e :
  Rabs (X - dx) <= e -> Rabs (Y - dy) <= e -> 0 < norm2 dx dy -> 64 * e <= norm2 dx dy ->
  (1 - / 32) * norm2 dx dy <= norm2 X Y <= (1 + / 32) * norm2 dx dy /\
  Rabs (X / norm2 X Y - dx / norm2 dx dy) <= 5 / 2 * (e / norm2 dx dy) /\
  Rabs (Y / norm2 X Y - dy / norm2 dx dy) <= 5 / 2 * (e / norm2 dx dy).
Proof.
  intros HX HY Hs He.
  assert (E0 : 0 <= e) by (eapply Rle_trans; [apply Rabs_pos | exact HX]).
  assert (D := norm2_diff X Y dx dy).
  assert (D2 : norm2 (X - dx) (Y - dy) <= 1415 / 1000 * e).
  { eapply Rle_trans; [apply norm2_le_of_abs; eassumption | apply norm2_same; exact E0]. }
  assert (Ax := norm2_ge_abs_l dx dy). assert (Ay := norm2_ge_abs_r dx dy).
  set (s := norm2 dx dy) in *. set (L := norm2 X Y) in *. clearbody s L.
  assert (HL : Rabs (L - s) <= 1415 / 1000 * e) by lra.
  apply Rabs_le_both in HL.
  assert (PL : 0 < L) by lra.
  assert (G : forall a A, Rabs (A - a) <= e -> Rabs a <= s -> Rabs (A / L - a / s) <= 5 / 2 * (e / s)).
  { intros a A HA Ha.
    assert (W : Rabs (a / s) <= 1).
    { unfold Rdiv. rewrite Rabs_mult, (Rabs_pos_eq (/ s)) by (apply Rlt_le, Rinv_0_lt_compat; exact Hs).
      apply Rmult_le_reg_r with s; [exact Hs|]. rewrite Rmult_assoc, Rinv_l by lra. lra. }
    apply Rmult_le_reg_r with L; [exact PL|].
    replace (Rabs (A / L - a / s) * L) with (Rabs ((A / L - a / s) * L))
      by (rewrite Rabs_mult, (Rabs_pos_eq L) by lra; reflexivity).
    replace ((A / L - a / s) * L) with ((A - a) + (a / s) * (s - L)) by (field; lra).
    eapply Rle_trans; [apply Rabs_triang|]. rewrite Rabs_mult.
    assert (T : Rabs (a / s) * Rabs (s - L) <= 1 * (1415 / 1000 * e)).
    { apply Rmult_le_compat; try apply Rabs_pos; [exact W | apply Rabs_le; lra]. }
    apply Rle_trans with (2415 / 1000 * e); [lra|].
    replace (5 / 2 * (e / s) * L) with (5 / 2 * e * (L / s)) by (field; lra).
    assert (R : 977 / 1000 <= L / s).
    { apply Rmult_le_reg_r with s; [exact Hs|]. replace (L / s * s) with L by (field; lra). lra. }
    assert (0 <= e * (L / s - 977 / 1000)) by (apply Rmult_le_pos; lra). lra. }
  split; [lra|]. split; apply G; assumption.
Qed.

(* ------------------------------------------------------------------------------------------- *)
(* 1. Point.magnitude in binary64                                                               *)
(* ------------------------------------------------------------------------------------------- *)
Lemma magnitude_float_close (X Y : float) :
  ffinite X -> ffinite Y -> Rabs (FR X) <= bpow radix2 500 -> Rabs (FR Y) <= bpow radix2 500 ->
  ffinite (Point_magnitude FOps (P X Y)) /\
  Rabs (FR (Point_magnitude FOps (P X Y)) - norm2 (FR X) (FR Y))
    <= (3 + /32) * u * norm2 (FR X) (FR Y) + bpow radix2 (-535).
Proof.
  intros FA FB BA BB.
  change (Point_magnitude FOps (P X Y))
    with (PrimFloat.sqrt (PrimFloat.add (PrimFloat.mul X X) (PrimFloat.mul Y Y))).
  set (a := FR X) in *. set (b := FR Y) in *.
  assert (C500 : bpow radix2 500 = IZR (2 ^ 500)) by reflexivity. rewrite C500 in BA, BB.
  assert (Hf : fmax = IZR (2 ^ 1023)) by reflexivity.
  assert (Hul : u = / 9007199254740992) by reflexivity.
  assert (He := eta_pos). assert (Heu : eta <= /1024) by (fp_consts; lra).
  assert (SA : Rabs (a * a) <= IZR (2 ^ 1000)).
  { rewrite Rabs_pos_eq by apply Rle_0_sqr. eapply Rle_trans; [apply sq_abs_le; exact BA|].
    rewrite <- mult_IZR. apply IZR_le. reflexivity. }
  assert (SB : Rabs (b * b) <= IZR (2 ^ 1000)).
  { rewrite Rabs_pos_eq by apply Rle_0_sqr. eapply Rle_trans; [apply sq_abs_le; exact BB|].
    rewrite <- mult_IZR. apply IZR_le. reflexivity. }
  assert (L1000 : IZR (2 ^ 1000) <= fmax) by (rewrite Hf; apply IZR_le; lia).
  destruct (Fmul_err X X FA FA) as (FAA & EAA); [fold a; lra|].
  destruct (Fmul_err Y Y FB FB) as (FBB & EBB); [fold b; lra|].
  assert (PAA := Fsquare_nonneg X FA ltac:(fold a; lra)). assert (PBB := Fsquare_nonneg Y FB ltac:(fold b; lra)).
  fold a in EAA. fold b in EBB.
  set (AA := PrimFloat.mul X X) in *. set (BB2 := PrimFloat.mul Y Y) in *.
  assert (P1000 : 1 <= IZR (2 ^ 1000)) by (apply IZR_le; lia).
  assert (BAA : FR AA <= 2 * IZR (2 ^ 1000)).
  { assert (T := Rle_abs (a * a)). apply Rabs_le_both in EAA. rewrite Hul in EAA. lra. }
  assert (BBB : FR BB2 <= 2 * IZR (2 ^ 1000)).
  { assert (T := Rle_abs (b * b)). apply Rabs_le_both in EBB. rewrite Hul in EBB. lra. }
  assert (L1002 : 4 * IZR (2 ^ 1000) <= fmax).
  { rewrite Hf. replace 4 with (IZR 4) by reflexivity. rewrite <- mult_IZR. apply IZR_le. lia. }
  destruct (Fadd_rel AA BB2 FAA FBB) as (FS & ES); [rewrite Rabs_pos_eq by lra; lra|].
  set (S := PrimFloat.add AA BB2) in *.
  assert (EA : Rabs (a - a) <= u * Rabs a).
  { unfold Rminus. rewrite Rplus_opp_r, Rabs_R0. apply Rmult_le_pos; [rewrite Hul; lra | apply Rabs_pos]. }
  assert (EB : Rabs (b - b) <= u * Rabs b).
  { unfold Rminus. rewrite Rplus_opp_r, Rabs_R0. apply Rmult_le_pos; [rewrite Hul; lra | apply Rabs_pos]. }
  destruct (hypot_chain a b a b (FR AA) (FR BB2) (FR S) EA EB EAA EBB PAA PBB ES) as (PS & HS).
  split; [apply Fsqrt_finite0; assumption|].
  rewrite Fsqrt_value.
  assert (PL := norm2_pos a b). assert (LL := norm2_sq a b).
  set (L := norm2 a b) in *.
  assert (Pz : 0 < bpow radix2 (-536)) by apply bpow_gt_0.
  assert (HQ : Rabs (sqrt (FR S) - L) <= (2 + /64) * u * L + bpow radix2 (-536)).
  { apply sqrt_two_sided; [exact PL | rewrite Hul; lra | lra | exact PS |].
    rewrite LL, bpow_m536_sq. exact HS. }
  assert (HR := rnd_error (sqrt (FR S))).
  rewrite (Rabs_pos_eq (sqrt (FR S))) in HR by apply sqrt_pos.
  assert (Z2 : bpow radix2 (-535) = 2 * bpow radix2 (-536)).
  { change (-535)%Z with (1 + -536)%Z. rewrite bpow_plus. reflexivity. }
  assert (Ze : eta <= / 1024 * bpow radix2 (-536)).
  { unfold eta. change (-1075)%Z with (-539 + -536)%Z. rewrite bpow_plus.
    apply Rmult_le_compat_r; [lra|]. bpow_lit. lra. }
  rewrite Z2. set (z := bpow radix2 (-536)) in *. set (s := sqrt (FR S)) in *. clearbody z s L.
  apply Rabs_le_both in HQ. apply Rabs_le_both in HR. apply Rabs_le. rewrite Hul in *. lra.
Qed.

(* ------------------------------------------------------------------------------------------- *)
(* 2. Point.toUnitVector in binary64, against the exact unit vector of the SAME float vector    *)
(* ------------------------------------------------------------------------------------------- *)
Lemma tiny_abs_rel L : bpow radix2 (-400) <= L -> bpow radix2 (-535) <= / 32 * u * L.
Proof.
  intros HL.
  assert (Z : bpow radix2 (-535) <= / 32 * u * bpow radix2 (-400)).
  { unfold u. rewrite Rmult_assoc, <- bpow_plus. change (-53 + -400)%Z with (82 + -535)%Z. rewrite bpow_plus.
    assert (0 < bpow radix2 (-535)) by apply bpow_gt_0.
    replace (bpow radix2 82) with 4835703278458516698824704 by (bpow_lit; reflexivity).
    set (z := bpow radix2 (-535)) in *. clearbody z. lra. }
  eapply Rle_trans; [exact Z|]. apply Rmult_le_compat_l; [|exact HL].
  assert (Hul : u = / 9007199254740992) by reflexivity. rewrite Hul. lra.
Qed.

Lemma toUnitVector_float_self (X Y : float) :
  ffinite X -> ffinite Y -> Rabs (FR X) <= bpow radix2 500 -> Rabs (FR Y) <= bpow radix2 500 ->
  bpow radix2 (-400) <= norm2 (FR X) (FR Y) ->
  ffinite (px (Point_toUnitVector FOps (P X Y))) /\ ffinite (py (Point_toUnitVector FOps (P X Y))) /\
  Rabs (FR (px (Point_toUnitVector FOps (P X Y))) - FR X / norm2 (FR X) (FR Y))
    <= (4 + /4) * u * Rabs (FR X / norm2 (FR X) (FR Y)) + eta /\
  Rabs (FR (py (Point_toUnitVector FOps (P X Y))) - FR Y / norm2 (FR X) (FR Y))
    <= (4 + /4) * u * Rabs (FR Y / norm2 (FR X) (FR Y)) + eta.
Proof.
  intros FX FY BX BY HL.
  destruct (magnitude_float_close X Y FX FY BX BY) as (Fm & Em).
  assert (Tz := tiny_abs_rel _ HL).
  assert (Ax := norm2_ge_abs_l (FR X) (FR Y)). assert (Ay := norm2_ge_abs_r (FR X) (FR Y)).
  assert (PL : 0 < norm2 (FR X) (FR Y)) by (eapply Rlt_le_trans; [apply bpow_gt_0 | exact HL]).
  unfold Point_toUnitVector. cbv zeta.
  set (m := Point_magnitude FOps (P X Y)) in *. set (L := norm2 (FR X) (FR Y)) in *.
  cbn [FOps FOpsT eqb lit dvd px py].
  assert (Hul : u = / 9007199254740992) by reflexivity.
  assert (He := eta_pos). assert (Heu : eta <= /1024) by (fp_consts; lra).
  assert (Hf : fmax = IZR (2 ^ 1023)) by reflexivity.
  assert (L30 : 1073741824 <= fmax) by (rewrite Hf; apply IZR_le; lia).
  assert (Em' : Rabs (FR m - L) <= (3 + /16) * u * L) by (rewrite Hul in *; lra).
  clear Em Tz. apply Rabs_le_both in Em'.
  assert (Pm : 0 < FR m) by (rewrite Hul in *; lra).
  destruct (PrimFloat.eqb m 0x0.0p+0) eqn:Eq.
  { exfalso. apply (Feqb_true m 0%float Fm ffinite_zero) in Eq. rewrite FloatErr.FR_zero in Eq. lra. }
  clear Eq.
  assert (G : forall A, ffinite A -> Rabs (FR A) <= L ->
            ffinite (PrimFloat.div A m) /\
            Rabs (FR (PrimFloat.div A m) - FR A / L) <= (4 + /4) * u * Rabs (FR A / L) + eta).
  { intros A FA HA.
    set (w := FR A / L).
    assert (W : Rabs w <= 1).
    { unfold w, Rdiv. rewrite Rabs_mult, (Rabs_pos_eq (/ L)) by (apply Rlt_le, Rinv_0_lt_compat; exact PL).
      apply Rmult_le_reg_r with L; [exact PL|]. rewrite Rmult_assoc, Rinv_l by lra. lra. }
    assert (Pw := Rabs_pos w).
    assert (EA : FR A = w * L) by (unfold w; field; lra).
    set (r := FR A / FR m).
    assert (H1 : Rabs (r - w) <= (3 + /8) * u * Rabs w).
    { apply Rmult_le_reg_r with (FR m); [exact Pm|].
      replace (Rabs (r - w) * FR m) with (Rabs ((r - w) * FR m))
        by (rewrite Rabs_mult, (Rabs_pos_eq (FR m)) by lra; reflexivity).
      replace ((r - w) * FR m) with (w * (L - FR m)) by (unfold r; rewrite EA; field; lra).
      rewrite Rabs_mult.
      replace ((3 + / 8) * u * Rabs w * FR m) with (Rabs w * ((3 + / 8) * u * FR m)) by ring.
      apply Rmult_le_compat_l; [exact Pw|]. apply Rabs_le. rewrite Hul in *. lra. }
    assert (H2 : Rabs r <= (1 + (3 + /8) * u) * Rabs w).
    { replace r with ((r - w) + w) by ring. eapply Rle_trans; [apply Rabs_triang|]. lra. }
    destruct (Fdiv_correct A m FA Fm) as (Fq & Vq); [lra | fold r; rewrite Hul in *; lra |].
    split; [exact Fq|]. rewrite Vq. fold r.
    assert (H3 := rnd_error r).
    replace (rnd r - w) with ((rnd r - r) + (r - w)) by ring.
    eapply Rle_trans; [apply Rabs_triang|]. rewrite Hul in *. lra. }
  destruct (G X FX Ax) as (F1 & E1). destruct (G Y FY Ay) as (F2 & E2).
  repeat split; assumption.
Qed.

(* the computed unit vector has Euclidean norm within 5 u of 1, whatever the accuracy of its argument *)
Lemma toUnitVector_float_norm (X Y : float) :
  ffinite X -> ffinite Y -> Rabs (FR X) <= bpow radix2 500 -> Rabs (FR Y) <= bpow radix2 500 ->
  bpow radix2 (-400) <= norm2 (FR X) (FR Y) ->
  Rabs (norm2 (FR (px (Point_toUnitVector FOps (P X Y)))) (FR (py (Point_toUnitVector FOps (P X Y)))) - 1) <= 5 * u.
Proof.
  intros FX FY BX BY HL.
  destruct (toUnitVector_float_self X Y FX FY BX BY HL) as (_ & _ & E1 & E2).
  assert (PL : 0 < norm2 (FR X) (FR Y)) by (eapply Rlt_le_trans; [apply bpow_gt_0 | exact HL]).
  assert (U := norm2_unit (FR X) (FR Y) PL).
  set (L := norm2 (FR X) (FR Y)) in *.
  set (qx := FR (px (Point_toUnitVector FOps (P X Y)))) in *.
  set (qy := FR (py (Point_toUnitVector FOps (P X Y)))) in *.
  set (wx := FR X / L) in *. set (wy := FR Y / L) in *. clearbody qx qy wx wy.
  rewrite <- U.
  eapply Rle_trans; [apply norm2_diff|].
  eapply Rle_trans; [apply norm2_le_of_abs; [exact E1 | exact E2]|].
  assert (Hul : u = / 9007199254740992) by reflexivity.
  assert (He := eta_pos). assert (Heu : eta <= / 1180591620717411303424) by (fp_consts; lra).
  set (c := (4 + / 4) * u) in *.
  assert (Pc : 0 <= c) by (unfold c; rewrite Hul; lra).
  apply Rle_trans with (c + 2 * eta); [|unfold c; rewrite Hul; lra].
  assert (S := norm2_sq wx wy). rewrite U in S.
  assert (Ax := norm2_ge_abs_l wx wy). assert (Ay := norm2_ge_abs_r wx wy). rewrite U in Ax, Ay.
  assert (Sx : Rabs wx * Rabs wx = wx * wx) by (unfold Rabs; destruct (Rcase_abs wx); ring).
  assert (Sy : Rabs wy * Rabs wy = wy * wy) by (unfold Rabs; destruct (Rcase_abs wy); ring).
  assert (Px := Rabs_pos wx). assert (Py := Rabs_pos wy).
  set (p := Rabs wx) in *. set (q := Rabs wy) in *. clearbody p q.
  unfold norm2. apply sqrt_le_of_sq; [lra|].
  assert (T : (c * p + eta) * (c * p + eta) + (c * q + eta) * (c * q + eta)
              = c * c * (p * p + q * q) + 2 * (c * eta) * (p + q) + 2 * (eta * eta)) by ring.
  rewrite T. replace (p * p + q * q) with 1 by lra.
  assert (0 <= c * eta) by (apply Rmult_le_pos; lra).
  assert (0 <= c * eta * (2 - (p + q))) by (apply Rmult_le_pos; lra).
  assert (0 <= eta * eta) by (apply Rmult_le_pos; lra).
  lra.
Qed.

(* ... and against the exact unit vector of a real vector (dx,dy) that (FR X, FR Y) approximates within e *)
Lemma toUnitVector_float_close (X Y : float) (dx dy e : R) :
  ffinite X -> ffinite Y -> Rabs (FR X - dx) <= e -> Rabs (FR Y - dy) <= e ->
  bpow radix2 (-390) <= norm2 dx dy <= bpow radix2 490 -> 64 * e <= norm2 dx dy ->
  ffinite (px (Point_toUnitVector FOps (P X Y))) /\ ffinite (py (Point_toUnitVector FOps (P X Y))) /\
  Rabs (FR (px (Point_toUnitVector FOps (P X Y))) - dx / norm2 dx dy) <= 5 / 2 * (e / norm2 dx dy) + 5 * u /\
  Rabs (FR (py (Point_toUnitVector FOps (P X Y))) - dy / norm2 dx dy) <= 5 / 2 * (e / norm2 dx dy) + 5 * u /\
  Rabs (norm2 (FR (px (Point_toUnitVector FOps (P X Y)))) (FR (py (Point_toUnitVector FOps (P X Y)))) - 1) <= 5 * u.
Proof.
  intros FX FY EX EY (Hs1 & Hs2) He.
  assert (Ps : 0 < norm2 dx dy) by (eapply Rlt_le_trans; [apply bpow_gt_0 | exact Hs1]).
  destruct (unit_perturb dx dy (FR X) (FR Y) e EX EY Ps He) as ((HL1 & HL2) & PX & PY).
  assert (Ax := norm2_ge_abs_l dx dy). assert (Ay := norm2_ge_abs_r dx dy).
  assert (E0 : 0 <= e) by (eapply Rle_trans; [apply Rabs_pos | exact EX]).
  assert (C1 : bpow radix2 500 = 1024 * bpow radix2 490).
  { change 500%Z with (10 + 490)%Z. rewrite bpow_plus. f_equal. }
  assert (C2 : bpow radix2 (-390) = 1024 * bpow radix2 (-400)).
  { change (-390)%Z with (10 + -400)%Z. rewrite bpow_plus. f_equal. }
  assert (P490 : 0 < bpow radix2 490) by apply bpow_gt_0.
  assert (P400 : 0 < bpow radix2 (-400)) by apply bpow_gt_0.
  assert (BX : Rabs (FR X) <= bpow radix2 500).
  { replace (FR X) with ((FR X - dx) + dx) by ring. eapply Rle_trans; [apply Rabs_triang|]. lra. }
  assert (BY : Rabs (FR Y) <= bpow radix2 500).
  { replace (FR Y) with ((FR Y - dy) + dy) by ring. eapply Rle_trans; [apply Rabs_triang|]. lra. }
  assert (HL : bpow radix2 (-400) <= norm2 (FR X) (FR Y)) by lra.
  destruct (toUnitVector_float_self X Y FX FY BX BY HL) as (F1 & F2 & E1 & E2).
  assert (N := toUnitVector_float_norm X Y FX FY BX BY HL).
  assert (PL : 0 < norm2 (FR X) (FR Y)) by lra.
  assert (U := norm2_unit (FR X) (FR Y) PL).
  assert (Wx := norm2_ge_abs_l (FR X / norm2 (FR X) (FR Y)) (FR Y / norm2 (FR X) (FR Y))).
  assert (Wy := norm2_ge_abs_r (FR X / norm2 (FR X) (FR Y)) (FR Y / norm2 (FR X) (FR Y))).
  rewrite U in Wx, Wy.
  assert (Hul : u = / 9007199254740992) by reflexivity.
  assert (He0 := eta_pos). assert (Heu : eta <= / 1180591620717411303424) by (fp_consts; lra).
  split; [exact F1|]. split; [exact F2|]. split; [|split; [|exact N]].
  - replace (FR (px (Point_toUnitVector FOps (P X Y))) - dx / norm2 dx dy)
      with ((FR (px (Point_toUnitVector FOps (P X Y))) - FR X / norm2 (FR X) (FR Y))
            + (FR X / norm2 (FR X) (FR Y) - dx / norm2 dx dy)) by ring.
    eapply Rle_trans; [apply Rabs_triang|]. rewrite Hul in *. lra.
  - replace (FR (py (Point_toUnitVector FOps (P X Y))) - dy / norm2 dx dy)
      with ((FR (py (Point_toUnitVector FOps (P X Y))) - FR Y / norm2 (FR X) (FR Y))
            + (FR Y / norm2 (FR X) (FR Y) - dy / norm2 dx dy)) by ring.
    eapply Rle_trans; [apply Rabs_triang|]. rewrite Hul in *. lra.
Qed.

(* ------------------------------------------------------------------------------------------- *)
(* 3. toUnitVector of an evaluated derivative: float instance against real instance             *)
(* ------------------------------------------------------------------------------------------- *)
Lemma norm2_pos_sumsq x y : 0 < norm2 x y -> x * x + y * y <> 0.
Proof. intros H E. unfold norm2 in H. rewrite E, sqrt_0 in H. lra. Qed.

Lemma toUnitVector_R_spec (d : pt R) : 0 < norm2 (px d) (py d) ->
  Point_toUnitVector ROps d = P (px d / norm2 (px d) (py d)) (py d / norm2 (px d) (py d)).
Proof. destruct d as [x y]. cbn [px py]. intros H. apply C18.toUnitVector_spec. now apply norm2_pos_sumsq. Qed.

(* D: a computed vector, within e <= 200 u M of the real vector d, whose norm s satisfies 2^-32 M <= s <= cs M;
   K: any constant with  5/2 e + 5 cs u M <= K u M *)
Lemma unit_of_close (D : pt float) (d : pt R) (M e cs K : R) :
  pt_close D d e ->
  bpow radix2 (-300) <= M <= bpow radix2 480 -> e <= 200 * u * M ->
  0 <= cs <= 512 -> norm2 (px d) (py d) <= cs * M -> M <= bpow radix2 32 * norm2 (px d) (py d) ->
  5 / 2 * e + 5 * u * (cs * M) <= K * u * M ->
  pt_close (Point_toUnitVector FOps D) (Point_toUnitVector ROps d) (K * u * (M / norm2 (px d) (py d))) /\
  Rabs (norm2 (FR (px (Point_toUnitVector FOps D))) (FR (py (Point_toUnitVector FOps D))) - 1) <= 5 * u.
Proof.
  intros (FX & FY & EX & EY) (HM1 & HM2) He Hcs Hs2 Hs1 HK.
  destruct D as [X Y]. cbn [px py] in FX, FY, EX, EY.
  set (s := norm2 (px d) (py d)) in *.
  assert (Hul : u = / 9007199254740992) by reflexivity.
  assert (P300 : 0 < bpow radix2 (-300)) by apply bpow_gt_0.
  assert (PM : 0 < M) by lra.
  assert (C32 : bpow radix2 32 = 4294967296) by (bpow_lit; reflexivity). rewrite C32 in Hs1.
  assert (Ps : 0 < s) by lra.
  assert (B1 : bpow radix2 (-390) <= s).
  { assert (C : bpow radix2 (-300) = 4294967296 * (bpow radix2 58 * bpow radix2 (-390))).
    { rewrite <- C32, <- 2!bpow_plus. reflexivity. }
    assert (P390 : 0 < bpow radix2 (-390)) by apply bpow_gt_0.
    assert (C58 : 1 <= bpow radix2 58) by (bpow_lit; lra).
    assert (bpow radix2 (-390) <= bpow radix2 58 * bpow radix2 (-390)).
    { rewrite <- (Rmult_1_l (bpow radix2 (-390))) at 1. apply Rmult_le_compat_r; lra. }
    lra. }
  assert (B2 : s <= bpow radix2 490).
  { assert (C : bpow radix2 490 = 1024 * bpow radix2 480).
    { change 490%Z with (10 + 480)%Z. rewrite bpow_plus. f_equal. }
    assert (cs * M <= 512 * M) by (apply Rmult_le_compat_r; lra). lra. }
  assert (B3 : 64 * e <= s) by (rewrite Hul in *; lra).
  destruct (toUnitVector_float_close X Y (px d) (py d) e FX FY EX EY (conj B1 B2) B3) as (F1 & F2 & E1 & E2 & N).
  fold s in E1, E2.
  split; [|exact N].
  rewrite (toUnitVector_R_spec d Ps). fold s.
  assert (Hb : 5 / 2 * (e / s) + 5 * u <= K * u * (M / s)).
  { replace (5 / 2 * (e / s) + 5 * u) with ((5 / 2 * e + 5 * u * s) * / s) by (field; lra).
    replace (K * u * (M / s)) with ((K * u * M) * / s) by (field; lra).
    apply Rmult_le_compat_r; [apply Rlt_le, Rinv_0_lt_compat; exact Ps|].
    rewrite Hul in *. lra. }
  repeat split; cbn [px py]; try assumption; lra.
Qed.

(* the exact derivative of a Bezier curve with controls of magnitude <= M is a Bernstein combination *)
Lemma bern2_bound a b c t B : 0 <= t <= 1 -> Rabs a <= B -> Rabs b <= B -> Rabs c <= B ->
  Rabs ((1 - t) * (1 - t) * a + 2 * (1 - t) * t * b + t * t * c) <= B.
Proof.
  intros Ht Ha Hb Hc. apply Rabs_le_inv in Ha, Hb, Hc. apply Rabs_le.
  assert (W0 : 0 <= (1 - t) * (1 - t)) by (apply Rmult_le_pos; lra).
  assert (W1 : 0 <= 2 * (1 - t) * t) by (apply Rmult_le_pos; [apply Rmult_le_pos|]; lra).
  assert (W2 : 0 <= t * t) by (apply Rmult_le_pos; lra).
  assert (0 <= (1 - t) * (1 - t) * (B - a)) by (apply Rmult_le_pos; lra).
  assert (0 <= (1 - t) * (1 - t) * (B + a)) by (apply Rmult_le_pos; lra).
  assert (0 <= 2 * (1 - t) * t * (B - b)) by (apply Rmult_le_pos; lra).
  assert (0 <= 2 * (1 - t) * t * (B + b)) by (apply Rmult_le_pos; lra).
  assert (0 <= t * t * (B - c)) by (apply Rmult_le_pos; lra).
  assert (0 <= t * t * (B + c)) by (apply Rmult_le_pos; lra).
  split; nra.
Qed.
Lemma bern1_bound a b t B : 0 <= t <= 1 -> Rabs a <= B -> Rabs b <= B ->
  Rabs ((1 - t) * a + t * b) <= B.
Proof.
  intros Ht Ha Hb. apply Rabs_le_inv in Ha, Hb. apply Rabs_le.
  assert (0 <= (1 - t) * (B - a)) by (apply Rmult_le_pos; lra).
  assert (0 <= (1 - t) * (B + a)) by (apply Rmult_le_pos; lra).
  assert (0 <= t * (B - b)) by (apply Rmult_le_pos; lra).
  assert (0 <= t * (B + b)) by (apply Rmult_le_pos; lra).
  split; lra.
Qed.
Lemma diff_bound k x y M : 0 <= k -> Rabs x <= M -> Rabs y <= M -> Rabs (k * (x - y)) <= 2 * k * M.
Proof.
  intros Hk Hx Hy. rewrite Rabs_mult, (Rabs_pos_eq k) by exact Hk.
  assert (Rabs (x - y) <= 2 * M).
  { unfold Rminus. eapply Rle_trans; [apply Rabs_triang|]. rewrite Rabs_Ropp. lra. }
  replace (2 * k * M) with (k * (2 * M)) by ring. apply Rmult_le_compat_l; assumption.
Qed.

Definition cubic_deriv (c : seg4 float) (t : float) : pt R := Quad_pointAtTime ROps (Cubic_derivative ROps (seg4R c)) (FR t).
Definition cubic_speed (c : seg4 float) (t : float) : R := norm2 (px (cubic_deriv c t)) (py (cubic_deriv c t)).
Definition quad_deriv (q : seg3 float) (t : float) : pt R := Line_pointAtTime ROps (Quad_derivative ROps (seg3R q)) (FR t).
Definition quad_speed (q : seg3 float) (t : float) : R := norm2 (px (quad_deriv q t)) (py (quad_deriv q t)).

Lemma cubic_deriv_bound M c t : seg4_ok M c -> t_ok t ->
  Rabs (px (cubic_deriv c t)) <= 6 * M /\ Rabs (py (cubic_deriv c t)) <= 6 * M.
Proof.
  intros Hs (_ & Ht). destruct c as [[x0 y0] [x1 y1] [x2 y2] [x3 y3]].
  destruct Hs as ((Fx0 & Fy0 & Mx0 & My0) & (Fx1 & Fy1 & Mx1 & My1) & (Fx2 & Fy2 & Mx2 & My2) & (Fx3 & Fy3 & Mx3 & My3)).
  cbn [px py c0 c1 c2 c3] in *.
  split.
  - replace (px (cubic_deriv (C4 (P x0 y0) (P x1 y1) (P x2 y2) (P x3 y3)) t))
      with ((1 - FR t) * (1 - FR t) * (3 * (FR x1 - FR x0)) + 2 * (1 - FR t) * FR t * (3 * (FR x2 - FR x1))
            + FR t * FR t * (3 * (FR x3 - FR x2))) by (fcbv; ring).
    apply bern2_bound; [exact Ht | | |]; (eapply Rle_trans; [apply diff_bound; [lra | eassumption | eassumption] | lra]).
  - replace (py (cubic_deriv (C4 (P x0 y0) (P x1 y1) (P x2 y2) (P x3 y3)) t))
      with ((1 - FR t) * (1 - FR t) * (3 * (FR y1 - FR y0)) + 2 * (1 - FR t) * FR t * (3 * (FR y2 - FR y1))
            + FR t * FR t * (3 * (FR y3 - FR y2))) by (fcbv; ring).
    apply bern2_bound; [exact Ht | | |]; (eapply Rle_trans; [apply diff_bound; [lra | eassumption | eassumption] | lra]).
Qed.
Lemma quad_deriv_bound M q t : seg3_ok M q -> t_ok t ->
  Rabs (px (quad_deriv q t)) <= 4 * M /\ Rabs (py (quad_deriv q t)) <= 4 * M.
Proof.
  intros Hs (_ & Ht). destruct q as [[x0 y0] [x1 y1] [x2 y2]].
  destruct Hs as ((Fx0 & Fy0 & Mx0 & My0) & (Fx1 & Fy1 & Mx1 & My1) & (Fx2 & Fy2 & Mx2 & My2)).
  cbn [px py q0 q1 q2] in *.
  split.
  - replace (px (quad_deriv (Q3 (P x0 y0) (P x1 y1) (P x2 y2)) t))
      with ((1 - FR t) * (2 * (FR x1 - FR x0)) + FR t * (2 * (FR x2 - FR x1))) by (fcbv; ring).
    apply bern1_bound; [exact Ht | |]; (eapply Rle_trans; [apply diff_bound; [lra | eassumption | eassumption] | lra]).
  - replace (py (quad_deriv (Q3 (P x0 y0) (P x1 y1) (P x2 y2)) t))
      with ((1 - FR t) * (2 * (FR y1 - FR y0)) + FR t * (2 * (FR y2 - FR y1))) by (fcbv; ring).
    apply bern1_bound; [exact Ht | |]; (eapply Rle_trans; [apply diff_bound; [lra | eassumption | eassumption] | lra]).
Qed.

(* ------------------------------------------------------------------------------------------- *)
(* 4. the theorems                                                                              *)
(* ------------------------------------------------------------------------------------------- *)
Lemma M_le_cap M : M <= bpow radix2 480 -> M <= Mcap.
Proof. intros H. eapply Rle_trans; [exact H|]. unfold Mcap. apply bpow_le. lia. Qed.
Lemma eta_vs_M M : bpow radix2 (-300) <= M -> 32 * eta <= / 1024 * u * M.
Proof.
  intros H.
  assert (C : 32 * eta = / 1024 * u * (bpow radix2 (-707) * bpow radix2 (-300))).
  { unfold eta, u. change 32 with (bpow radix2 5). change (/ 1024) with (bpow radix2 (-10)).
    rewrite <- !bpow_plus. reflexivity. }
  rewrite C. assert (P : 0 < bpow radix2 (-300)) by apply bpow_gt_0.
  assert (Hul : u = / 9007199254740992) by reflexivity.
  assert (C707 : bpow radix2 (-707) <= 1) by (change 1 with (bpow radix2 0); apply bpow_le; lia).
  assert (P707 : 0 < bpow radix2 (-707)) by apply bpow_gt_0.
  apply Rmult_le_compat_l; [rewrite Hul; lra|].
  apply Rle_trans with (1 * bpow radix2 (-300)); [apply Rmult_le_compat_r; lra | lra].
Qed.

Theorem cubic_tangent_float_close M (c : seg4 float) (t : float) :
  bpow radix2 (-300) <= M <= bpow radix2 480 -> seg4_ok M c -> t_ok t ->
  M <= bpow radix2 32 * cubic_speed c t ->
  pt_close (Cubic_tangentAtTime FOps c t) (Cubic_tangentAtTime ROps (seg4R c) (FR t))
           (550 * u * (M / cubic_speed c t)) /\
  Rabs (norm2 (FR (px (Cubic_tangentAtTime FOps c t))) (FR (py (Cubic_tangentAtTime FOps c t))) - 1) <= 5 * u.
Proof.
  intros HM Hs Ht Hsp.
  assert (HD := cubic_derivative_float_close M c t (M_le_cap M (proj2 HM)) Hs Ht).
  destruct (cubic_deriv_bound M c t Hs Ht) as (Bx & By).
  assert (Hul : u = / 9007199254740992) by reflexivity.
  assert (P300 : 0 < bpow radix2 (-300)) by apply bpow_gt_0.
  assert (He := eta_vs_M M (proj1 HM)). assert (He0 := eta_pos).
  unfold Cubic_tangentAtTime.
  apply (unit_of_close _ (cubic_deriv c t) M (199 * u * M + 22 * eta) (849 / 100) 550).
  - exact HD.
  - exact HM.
  - rewrite Hul in *. lra.
  - lra.
  - eapply Rle_trans; [apply norm2_le_of_abs; [exact Bx | exact By]|].
    eapply Rle_trans; [apply norm2_same; lra | lra].
  - exact Hsp.
  - rewrite Hul in *. lra.
Qed.

Theorem quad_tangent_float_close M (q : seg3 float) (t : float) :
  bpow radix2 (-300) <= M <= bpow radix2 480 -> seg3_ok M q -> t_ok t ->
  M <= bpow radix2 32 * quad_speed q t ->
  pt_close (Quad_tangentAtTime FOps q t) (Quad_tangentAtTime ROps (seg3R q) (FR t))
           (135 * u * (M / quad_speed q t)) /\
  Rabs (norm2 (FR (px (Quad_tangentAtTime FOps q t))) (FR (py (Quad_tangentAtTime FOps q t))) - 1) <= 5 * u.
Proof.
  intros HM Hs Ht Hsp.
  assert (HD := quad_derivative_float_close M q t (M_le_cap M (proj2 HM)) Hs Ht).
  destruct (quad_deriv_bound M q t Hs Ht) as (Bx & By).
  assert (Hul : u = / 9007199254740992) by reflexivity.
  assert (P300 : 0 < bpow radix2 (-300)) by apply bpow_gt_0.
  assert (He := eta_vs_M M (proj1 HM)). assert (He0 := eta_pos).
  unfold Quad_tangentAtTime.
  apply (unit_of_close _ (quad_deriv q t) M (41 * u * M + 10 * eta) (566 / 100) 135).
  - exact HD.
  - exact HM.
  - rewrite Hul in *. lra.
  - lra.
  - eapply Rle_trans; [apply norm2_le_of_abs; [exact Bx | exact By]|].
    eapply Rle_trans; [apply norm2_same; lra | lra].
  - exact Hsp.
  - rewrite Hul in *. lra.
Qed.

(* the real instance is the exact unit vector d / |d| along the exact derivative d = B'(t) (Proofs/C18.v; that d is
   the derivative of the evaluation map is Proofs/C01.v) *)
Lemma cubic_tangent_R_unit (c : seg4 float) t : 0 < cubic_speed c t ->
  Cubic_tangentAtTime ROps (seg4R c) (FR t)
  = P (px (cubic_deriv c t) / cubic_speed c t) (py (cubic_deriv c t) / cubic_speed c t).
Proof. intros H. unfold Cubic_tangentAtTime. exact (toUnitVector_R_spec (cubic_deriv c t) H). Qed.
Lemma quad_tangent_R_unit (q : seg3 float) t : 0 < quad_speed q t ->
  Quad_tangentAtTime ROps (seg3R q) (FR t)
  = P (px (quad_deriv q t) / quad_speed q t) (py (quad_deriv q t) / quad_speed q t).
Proof. intros H. unfold Quad_tangentAtTime. exact (toUnitVector_R_spec (quad_deriv q t) H). Qed.

(* the same with the exact unit vector spelled out *)
Corollary cubic_tangent_float_unit_derivative M (c : seg4 float) (t : float) :
  bpow radix2 (-300) <= M <= bpow radix2 480 -> seg4_ok M c -> t_ok t ->
  let d := Quad_pointAtTime ROps (Cubic_derivative ROps (seg4R c)) (FR t) in
  let s := sqrt (px d * px d + py d * py d) in
  M <= bpow radix2 32 * s ->
  let T := Cubic_tangentAtTime FOps c t in
  ffinite (px T) /\ ffinite (py T) /\
  Rabs (FR (px T) - px d / s) <= 550 * u * (M / s) /\
  Rabs (FR (py T) - py d / s) <= 550 * u * (M / s) /\
  Rabs (sqrt (FR (px T) * FR (px T) + FR (py T) * FR (py T)) - 1) <= 5 * u.
Proof.
  intros HM Hs Ht d s Hsp T.
  destruct (cubic_tangent_float_close M c t HM Hs Ht Hsp) as (HC & HN).
  assert (Ps : 0 < cubic_speed c t).
  { assert (0 < bpow radix2 (-300)) by apply bpow_gt_0. assert (0 < bpow radix2 32) by apply bpow_gt_0.
    change (cubic_speed c t) with s in *. destruct (Rlt_or_le 0 s) as [Hp|Hn]; [exact Hp|]. exfalso.
    assert (bpow radix2 32 * s <= 0) by nra. lra. }
  rewrite (cubic_tangent_R_unit c t Ps) in HC. destruct HC as (F1 & F2 & E1 & E2).
  repeat split; assumption.
Qed.
Corollary quad_tangent_float_unit_derivative M (q : seg3 float) (t : float) :
  bpow radix2 (-300) <= M <= bpow radix2 480 -> seg3_ok M q -> t_ok t ->
  let d := Line_pointAtTime ROps (Quad_derivative ROps (seg3R q)) (FR t) in
  let s := sqrt (px d * px d + py d * py d) in
  M <= bpow radix2 32 * s ->
  let T := Quad_tangentAtTime FOps q t in
  ffinite (px T) /\ ffinite (py T) /\
  Rabs (FR (px T) - px d / s) <= 135 * u * (M / s) /\
  Rabs (FR (py T) - py d / s) <= 135 * u * (M / s) /\
  Rabs (sqrt (FR (px T) * FR (px T) + FR (py T) * FR (py T)) - 1) <= 5 * u.
Proof.
  intros HM Hs Ht d s Hsp T.
  destruct (quad_tangent_float_close M q t HM Hs Ht Hsp) as (HC & HN).
  assert (Ps : 0 < quad_speed q t).
  { assert (0 < bpow radix2 (-300)) by apply bpow_gt_0. assert (0 < bpow radix2 32) by apply bpow_gt_0.
    change (quad_speed q t) with s in *. destruct (Rlt_or_le 0 s) as [Hp|Hn]; [exact Hp|]. exfalso.
    assert (bpow radix2 32 * s <= 0) by nra. lra. }
  rewrite (quad_tangent_R_unit q t Ps) in HC. destruct HC as (F1 & F2 & E1 & E2).
  repeat split; assumption.
Qed.

(* ---- the normal of a curve: (-ty, tx) of the tangent; negation is exact, so the same bounds hold ---- *)
Lemma normal_of_tangent (T : pt float) (TR : pt R) e :
  pt_close T TR e ->
  pt_close (P (PrimFloat.opp (py T)) (px T)) (P (- py TR) (px TR)) e /\
  norm2 (FR (PrimFloat.opp (py T))) (FR (px T)) = norm2 (FR (px T)) (FR (py T)).
Proof.
  intros (F1 & F2 & E1 & E2). split.
  - repeat split; cbn [px py]; try assumption.
    + apply Fopp_finite; exact F2.
    + rewrite Fopp_correct. replace (- FR (py T) - - py TR) with (- (FR (py T) - py TR)) by ring.
      rewrite Rabs_Ropp. exact E2.
  - rewrite Fopp_correct. unfold norm2. f_equal. ring.
Qed.

Theorem cubic_normal_float_close M (c : seg4 float) (t : float) :
  bpow radix2 (-300) <= M <= bpow radix2 480 -> seg4_ok M c -> t_ok t ->
  M <= bpow radix2 32 * cubic_speed c t ->
  pt_close (Cubic_normalAtTime FOps c t) (Cubic_normalAtTime ROps (seg4R c) (FR t))
           (550 * u * (M / cubic_speed c t)) /\
  Rabs (norm2 (FR (px (Cubic_normalAtTime FOps c t))) (FR (py (Cubic_normalAtTime FOps c t))) - 1) <= 5 * u.
Proof.
  intros HM Hs Ht Hsp. destruct (cubic_tangent_float_close M c t HM Hs Ht Hsp) as (HC & HN).
  destruct (normal_of_tangent _ _ _ HC) as (A & B).
  unfold Cubic_normalAtTime. cbv zeta. cbn [FOps FOpsT ROps neg px py]. split; [exact A|].
  rewrite B. exact HN.
Qed.
Theorem quad_normal_float_close M (q : seg3 float) (t : float) :
  bpow radix2 (-300) <= M <= bpow radix2 480 -> seg3_ok M q -> t_ok t ->
  M <= bpow radix2 32 * quad_speed q t ->
  pt_close (Quad_normalAtTime FOps q t) (Quad_normalAtTime ROps (seg3R q) (FR t))
           (135 * u * (M / quad_speed q t)) /\
  Rabs (norm2 (FR (px (Quad_normalAtTime FOps q t))) (FR (py (Quad_normalAtTime FOps q t))) - 1) <= 5 * u.
Proof.
  intros HM Hs Ht Hsp. destruct (quad_tangent_float_close M q t HM Hs Ht Hsp) as (HC & HN).
  destruct (normal_of_tangent _ _ _ HC) as (A & B).
  unfold Quad_normalAtTime. cbv zeta. cbn [FOps FOpsT ROps neg px py]. split; [exact A|].
  rewrite B. exact HN.
Qed.

(* ---- the well-conditioned case of the property text: speed at least M / 1024 gives 1e-10 ---- *)
Lemma ratio_1e10 K M s : 0 < M -> M <= 1024 * s -> 0 <= K <= 800 -> K * u * (M / s) <= 1e-10.
Proof.
  intros PM Hs HK. assert (Ps : 0 < s) by lra.
  assert (Hul : u = / 9007199254740992) by reflexivity.
  assert (R : M / s <= 1024).
  { apply Rmult_le_reg_r with s; [exact Ps|]. replace (M / s * s) with M by (field; lra). lra. }
  assert (R0 : 0 <= M / s) by (apply Rlt_le, Rdiv_lt_0_compat; assumption).
  apply Rle_trans with (800 * u * 1024); [|rewrite Hul; lra].
  rewrite 2!Rmult_assoc. apply Rmult_le_compat; try lra.
  - apply Rmult_le_pos; [rewrite Hul; lra | exact R0].
  - apply Rmult_le_compat_l; [rewrite Hul; lra | exact R].
Qed.
Lemma speed_1024_32 M s : 0 < M -> M <= 1024 * s -> M <= bpow radix2 32 * s.
Proof.
  intros PM H. assert (C32 : bpow radix2 32 = 4294967296) by (bpow_lit; reflexivity). rewrite C32. lra.
Qed.
Corollary cubic_tangent_float_1e10 M (c : seg4 float) (t : float) :
  bpow radix2 (-300) <= M <= bpow radix2 480 -> seg4_ok M c -> t_ok t -> M <= 1024 * cubic_speed c t ->
  pt_close (Cubic_tangentAtTime FOps c t) (Cubic_tangentAtTime ROps (seg4R c) (FR t)) 1e-10 /\
  pt_close (Cubic_normalAtTime FOps c t) (Cubic_normalAtTime ROps (seg4R c) (FR t)) 1e-10.
Proof.
  intros HM Hs Ht Hsp.
  assert (PM : 0 < M) by (eapply Rlt_le_trans; [apply bpow_gt_0 | exact (proj1 HM)]).
  assert (H32 := speed_1024_32 M _ PM Hsp).
  assert (R := ratio_1e10 550 M _ PM Hsp ltac:(lra)).
  split; eapply pt_close_weaken; try exact R.
  - exact (proj1 (cubic_tangent_float_close M c t HM Hs Ht H32)).
  - exact (proj1 (cubic_normal_float_close M c t HM Hs Ht H32)).
Qed.
Corollary quad_tangent_float_1e10 M (q : seg3 float) (t : float) :
  bpow radix2 (-300) <= M <= bpow radix2 480 -> seg3_ok M q -> t_ok t -> M <= 1024 * quad_speed q t ->
  pt_close (Quad_tangentAtTime FOps q t) (Quad_tangentAtTime ROps (seg3R q) (FR t)) 1e-10 /\
  pt_close (Quad_normalAtTime FOps q t) (Quad_normalAtTime ROps (seg3R q) (FR t)) 1e-10.
Proof.
  intros HM Hs Ht Hsp.
  assert (PM : 0 < M) by (eapply Rlt_le_trans; [apply bpow_gt_0 | exact (proj1 HM)]).
  assert (H32 := speed_1024_32 M _ PM Hsp).
  assert (R := ratio_1e10 135 M _ PM Hsp ltac:(lra)).
  split; eapply pt_close_weaken; try exact R.
  - exact (proj1 (quad_tangent_float_close M q t HM Hs Ht H32)).
  - exact (proj1 (quad_normal_float_close M q t HM Hs Ht H32)).
Qed.

(* ---- non-vacuity: the arch (0,0)(0,100)(100,100)(100,0) at t = 1/4; B'(1/4) = (112.5, 150), speed 187.5,
        exact unit tangent (3/5, 4/5); the binary64 result is the pair of doubles nearest 0.6 and 0.8 ---- *)
Definition ex_arch : seg4 float := (C4 (P 0 0) (P 0 100) (P 100 100) (P 100 0))%float.
Definition ex_quarter : float := 0.25%float.
Lemma ex_arch_ok : seg4_ok 100 ex_arch.
Proof. unfold seg4_ok, pt_ok, ex_arch; cbn [px py c0 c1 c2 c3]. repeat split; first [lit_finite | lit_le]. Qed.
Lemma ex_quarter_ok : t_ok ex_quarter.
Proof. unfold t_ok, ex_quarter. split; [lit_finite | split; lit_le]. Qed.
Lemma ex_M_ok : bpow radix2 (-300) <= 100 <= bpow radix2 480.
Proof.
  split.
  - apply Rle_trans with (bpow radix2 0); [apply bpow_le; lia | simpl; lra].
  - apply Rle_trans with (bpow radix2 7); [bpow_lit; lra | apply bpow_le; lia].
Qed.
Lemma ex_arch_deriv : cubic_deriv ex_arch ex_quarter = P (225 / 2) 150.
Proof.
  assert (E0 : FR 0%float = 0) by exact FloatErr.FR_zero.
  assert (E100 : FR 100%float = 100) by (FR_compute 100%float; lra).
  assert (Eq : FR 0.25%float = / 4) by (FR_compute 0.25%float; lra).
  unfold cubic_deriv, ex_arch, ex_quarter. fcbv. rewrite E0, E100, Eq. f_equal; field.
Qed.
Lemma ex_arch_speed : cubic_speed ex_arch ex_quarter = 375 / 2.
Proof.
  unfold cubic_speed. rewrite ex_arch_deriv. cbn [px py]. unfold norm2.
  replace (225 / 2 * (225 / 2) + 150 * 150) with (375 / 2 * (375 / 2)) by field.
  apply sqrt_square. lra.
Qed.
Example arch_tangent_example :
  let T := Cubic_tangentAtTime FOps ex_arch ex_quarter in
  T = P 0x1.3333333333333p-1%float 0x1.999999999999ap-1%float /\
  ffinite (px T) /\ ffinite (py T) /\
  Rabs (FR (px T) - 3 / 5) <= 550 * u * (100 / (375 / 2)) /\
  Rabs (FR (py T) - 4 / 5) <= 550 * u * (100 / (375 / 2)) /\
  Rabs (norm2 (FR (px T)) (FR (py T)) - 1) <= 5 * u.
Proof.
  intros T. split; [vm_compute; reflexivity|].
  assert (Hsp : 100 <= bpow radix2 32 * cubic_speed ex_arch ex_quarter).
  { rewrite ex_arch_speed. bpow_lit. lra. }
  destruct (cubic_tangent_float_close 100 ex_arch ex_quarter ex_M_ok ex_arch_ok ex_quarter_ok Hsp) as (HC & HN).
  rewrite cubic_tangent_R_unit in HC by (rewrite ex_arch_speed; lra).
  rewrite ex_arch_deriv, ex_arch_speed in HC. cbn [px py] in HC.
  replace (225 / 2 / (375 / 2)) with (3 / 5) in HC by field.
  replace (150 / (375 / 2)) with (4 / 5) in HC by field.
  destruct HC as (F1 & F2 & E1 & E2). cbn [px py] in E1, E2.
  repeat split; assumption.
Qed.
(* and through the 1e-10 corollary (speed 187.5 >= 100 / 1024), tangent and normal *)
Example arch_tangent_example_1e10 :
  pt_close (Cubic_tangentAtTime FOps ex_arch ex_quarter) (P (3 / 5) (4 / 5)) 1e-10 /\
  pt_close (Cubic_normalAtTime FOps ex_arch ex_quarter) (P (- (4 / 5)) (3 / 5)) 1e-10.
Proof.
  assert (Hsp : 100 <= 1024 * cubic_speed ex_arch ex_quarter) by (rewrite ex_arch_speed; lra).
  destruct (cubic_tangent_float_1e10 100 ex_arch ex_quarter ex_M_ok ex_arch_ok ex_quarter_ok Hsp) as (HT & HN).
  assert (ET : Cubic_tangentAtTime ROps (seg4R ex_arch) (FR ex_quarter) = P (3 / 5) (4 / 5)).
  { rewrite cubic_tangent_R_unit by (rewrite ex_arch_speed; lra).
    rewrite ex_arch_deriv, ex_arch_speed. cbn [px py]. f_equal; field. }
  assert (EN : Cubic_normalAtTime ROps (seg4R ex_arch) (FR ex_quarter) = P (- (4 / 5)) (3 / 5)).
  { unfold Cubic_normalAtTime. cbv zeta. rewrite ET. reflexivity. }
  rewrite ET in HT. rewrite EN in HN. split; assumption.
Qed.

