(* C12 / C13: the theorems about the Boolean-operation glue restated about the functions REGENERATED from utils/booleanoperationsmixin.py
   (Gen/Clip.v: Path_clip, Path_union, Path_intersection, Path_difference; pyclipper = the abstract parameters [toZ] / [gclipper]), by
   transport through Proofs/Bridge6.v, Module ClipBridge (clip_gen_R: Path_clip = embed (hand clip)).  Carrier: the reals; toZ = R_toZ.

   [embed] maps [Ok a] to [Some (Returns a)] with the SAME value a (the path type of the hand model and of the generated code is the
   same, list (list (segment R) * bool)), so "Path_clip ... = Some (Returns paths)" is "hand clip ... = Ok paths" (gen_clip_returns_iff)
   and every statement about the value returned by the hand model transports verbatim.

   Hypotheses of Section Transfer = exactly those of clip_gen_R:
     Hclip           hclipper (ct_of ct) s c = gclipper ct s c        (the hand model's Clipper oracle is the generated code's)
     Hisect          g_isect ... self other = Some (Returns (ints, sl1, sl2))   (the generated intersection loops return the split lists)
     Hgs1/2, Hhs1/2  Path_splitAtPoints (Gen/Split.v) and the hand splitAtPoints both return pieces1 / pieces2
     Hf1/2           flat_ok for every piece (the oracle flatten2 returns the lines the generated flatteners compute)
   Two kinds of statement:
     * DIRECT transports (gen_selectors_roles, gen_result_paths_closed_connected_complete, gen_region_semantics,
       gen_curve_mode_invents_no_geometry, gen_empty_clip_empty_result): the hand theorem with the generated function as subject; the
       hand model's [prepare] still names what is handed to Clipper (subj, clp, the LUT), as in the hand theorem.
     * HAND-FREE forms (gen_clip_calls_clipper, gen_clip_flat_paths, gen_clip_flat_paths_closed_chains, gen_region_semantics_all,
       gen_curve_mode_segments_are_pieces, gen_curve_mode_subarcs, gen_empty_clip_no_paths, gen_selectors_call_clipper): hypothesis
       "the regenerated function returned [paths]", and the polygons handed to Clipper are named through the regenerated flatteners
       ([g_flat_edges]: the concatenation of what ClipBridge.g_flat returns for the pieces Path_splitAtPoints returned); no function of
       Hand/Clip.v occurs in the statement except closed_pairs (pairwise(p + [p[0]]), in the description of a fresh straight edge) and
       seg_reversed (Segment.reversed).  Specification vocabulary (Proofs/C12.v, Proofs/C13.v): start_scaled_trunc, zR, unscale,
       poly_edges, poly_path, clipper_poly_ok, clipper_spec, far, cyc, eo_poly, eo_paths, bop, is_piece_of, reversed_or_same.
     The hand-free forms are stated once more after the section WITHOUT hclipper (suffix _g): the hand oracle is instantiated by
     [hand_clipper gclipper], for which Hclip holds by computation.

   NOT transported:
     * inputs_unmodified (C12/C13): a statement about the [store] of path VARIABLES of the hand model (clip_run).  The regenerated
       Path_clip is a pure function of immutable values and has no store: there is nothing on the generated side to state it about.
     * clip_inputs_are_flattened_outlines as such is a statement about [prepare] (no Clipper, no result); its content is carried by
       gen_clip_calls_clipper (the polygons of the one Clipper call made by a returning Path_clip).
     * ex_* / clipper_spec_self / clipper_spec_xor (non-vacuity examples): they instantiate the oracles of the hand model; an analogous
       run of Path_clip would need flat_ok / g_isect facts computed for concrete inputs over R -- not attempted here. *)
From Coq Require Import ZArith List Bool Reals Lra Lia.
Import ListNotations.
From BZ Require Import Base.Ops Gen.Point Gen.Line Gen.Quad Gen.Cubic Gen.Sample Gen.Split Gen.Clip.
From BZ Require Import Hand.Shoelace Hand.Clip Proofs.C12 Proofs.C13 Proofs.Bridge6.
Import ClipBridge.
Open Scope R_scope.

(* ---------------------------------------------------------------- 3. the selectors, any carrier: by unfolding the generated text *)
Theorem gen_selectors_ops {T : Type} (O : Ops T) {K : Type} (fmt_2f : T -> K) (keq : K -> K -> bool) (toZ : T -> option Z)
        (gclipper : clip_type -> list (list (Z * Z)) -> list (list (Z * Z)) -> option (list (list (Z * Z))))
        (fuel : nat) (self other : list (segment T)) (flat : bool) :
  Path_union O fmt_2f keq toZ gclipper fuel self other flat = Path_clip O fmt_2f keq toZ gclipper fuel self other Ct_union flat /\
  Path_intersection O fmt_2f keq toZ gclipper fuel self other flat = Path_clip O fmt_2f keq toZ gclipper fuel self other Ct_intersection flat /\
  Path_difference O fmt_2f keq toZ gclipper fuel self other flat = Path_clip O fmt_2f keq toZ gclipper fuel self other Ct_difference flat.
Proof.
  unfold Path_union, Path_intersection, Path_difference. repeat split.
  - destruct (Path_clip O fmt_2f keq toZ gclipper fuel self other Ct_union flat) as [[r | e] | ]; reflexivity.
  - destruct (Path_clip O fmt_2f keq toZ gclipper fuel self other Ct_intersection flat) as [[r | e] | ]; reflexivity.
  - destruct (Path_clip O fmt_2f keq toZ gclipper fuel self other Ct_difference flat) as [[r | e] | ]; reflexivity.
Qed.
(* the operation constants are the hand model's (and pyclipper's 1 / 0 / 2) *)
Lemma ct_of_selectors : ct_of Ct_union = CT_UNION /\ ct_of Ct_intersection = CT_INTERSECTION /\ ct_of Ct_difference = CT_DIFFERENCE.
Proof. repeat split. Qed.

(* ---------------------------------------------------------------- embed *)
Lemma embed_returns {A : Type} (r : Hand.Clip.result A) (a : A) : embed r = Some (Returns a) <-> r = Hand.Clip.Ok a.
Proof.
  destruct r as [a0 | e]; cbn [embed]; split; intro H.
  - injection H as ->. reflexivity.
  - injection H as ->. reflexivity.
  - discriminate.
  - discriminate.
Qed.

(* the flattened chain of a list of pieces, by the REGENERATED flatteners (ClipBridge.g_flat = the dispatch in Path_clip's text) *)
Fixpoint g_flat_edges (fuel : nat) (pieces : list (segment R)) : option (list (seg2 R)) :=
  match pieces with
  | [] => Some []
  | s :: r => match g_flat ROps fuel s, g_flat_edges fuel r with
              | Some (Returns es), Some b => Some (map fst es ++ b)
              | _, _ => None
              end
  end.
Lemma flat_edges_gen (flatten2 : flatten_t) (fuel : nat) (pieces : list (segment R)) :
  List.Forall (flat_ok ROps flatten2 fuel) pieces -> flat_edges flatten2 pieces = g_flat_edges fuel pieces.
Proof.
  induction 1 as [ | s r Hs Hr IH]; cbn [flat_edges g_flat_edges]; [reflexivity | ].
  destruct Hs as (fl & Hf & Hg). rewrite Hf, Hg, IH, map_map. cbn [fst]. rewrite map_id. reflexivity.
Qed.

(* a hand oracle for which Hclip holds by computation *)
Definition ct_back (c : cliptype) : clip_type :=
  match c with CT_INTERSECTION => Ct_intersection | CT_UNION => Ct_union | CT_DIFFERENCE => Ct_difference | CT_XOR => Ct_xor end.
Definition hand_clipper (gclipper : clip_type -> list (list (Z * Z)) -> list (list (Z * Z)) -> option (list (list (Z * Z)))) : clipper_t :=
  fun c => gclipper (ct_back c).
Lemma hand_clipper_ok gclipper : forall ct s c, hand_clipper gclipper (ct_of ct) s c = gclipper ct s c.
Proof. intros [ | | | ] s c; reflexivity. Qed.

Section Transfer.
Context {K : Type} (fmt_2f : R -> K) (keq : K -> K -> bool).
Variable gclipper : clip_type -> list (list (Z * Z)) -> list (list (Z * Z)) -> option (list (list (Z * Z))).
Variable hclipper : clipper_t.
Variable flatten2 : flatten_t.
Hypothesis Hclip : forall ct s c, hclipper (ct_of ct) s c = gclipper ct s c.
Variable fuel : nat.
Variables self other : list (segment R).
Variable ints : list (pt R * (segment R * segment R * (R * pt R * R))).
Variables sl1 sl2 : list (segment R * R).
Variables pieces1 pieces2 : list (segment R).
Hypothesis Hisect : g_isect ROps fmt_2f keq fuel self other = Some (Returns (ints, sl1, sl2)).
Hypothesis Hgs1 : Path_splitAtPoints ROps fuel self sl1 = Some pieces1.
Hypothesis Hgs2 : Path_splitAtPoints ROps fuel other sl2 = Some pieces2.
Hypothesis Hhs1 : splitAtPoints ROps self sl1 = Hand.Clip.Ok pieces1.
Hypothesis Hhs2 : splitAtPoints ROps other sl2 = Hand.Clip.Ok pieces2.
Hypothesis Hf1 : List.Forall (flat_ok ROps flatten2 fuel) pieces1.
Hypothesis Hf2 : List.Forall (flat_ok ROps flatten2 fuel) pieces2.

Notation gclip := (Path_clip ROps fmt_2f keq R_toZ gclipper fuel self other).
Notation hclip := (clip ROps R_toZ hclipper flatten2 self other sl1 sl2).
Notation hprepare := (prepare ROps R_toZ flatten2 self other sl1 sl2).
Notation sst := start_scaled_trunc.

(* ---------------------------------------------------------------- the bridge, and what a returned value means *)
Lemma gen_clip_bridge (ct : clip_type) (flat : bool) : gclip ct flat = embed (hclip (ct_of ct) flat).
Proof.
  exact (clip_gen_R fmt_2f keq R_toZ gclipper hclipper flatten2 Hclip fuel self other ct flat ints sl1 sl2 pieces1 pieces2
                    Hisect Hgs1 Hgs2 Hhs1 Hhs2 Hf1 Hf2).
Qed.
Theorem gen_clip_returns_iff (ct : clip_type) (flat : bool) (paths : list (list (segment R) * bool)) :
  gclip ct flat = Some (Returns paths) <-> hclip (ct_of ct) flat = Hand.Clip.Ok paths.
Proof. rewrite gen_clip_bridge. apply embed_returns. Qed.
(* under the hypotheses the regenerated clip never runs out of fuel: it returns or raises *)
Theorem gen_clip_not_none (ct : clip_type) (flat : bool) : gclip ct flat <> None.
Proof. rewrite gen_clip_bridge. destruct (hclip (ct_of ct) flat); discriminate. Qed.

(* a returned value: preparation succeeded, Clipper answered, the reconstruction returned *)
Lemma hclip_ok_inv (c : cliptype) (flat : bool) (paths : list (list (segment R) * bool)) :
  hclip c flat = Hand.Clip.Ok paths ->
  exists st subj clp l polys, hprepare = (st, Hand.Clip.Ok (subj, clp, l)) /\ hclipper c [subj] [clp] = Some polys /\
                              rebuild ROps flat l polys = Hand.Clip.Ok paths.
Proof.
  intro H. unfold clip, clip_run in H.
  destruct hprepare as [st [[[subj clp] l] | e]] eqn:Hp; cbn in H; [ | discriminate].
  destruct (hclipper c [subj] [clp]) as [polys | ] eqn:Hc; [ | discriminate].
  exists st, subj, clp, l, polys. repeat split; assumption.
Qed.
(* the two polygons of a successful preparation, through the regenerated flatteners *)
Lemma prepare_inputs st subj clp l : hprepare = (st, Hand.Clip.Ok (subj, clp, l)) ->
  exists f1 f2 la, g_flat_edges fuel pieces1 = Some f1 /\ g_flat_edges fuel pieces2 = Some f2 /\ subj = map sst f1 /\ clp = map sst f2 /\
                   flatten_fill ROps flatten2 pieces1 [] = Hand.Clip.Ok (f1, la) /\ flatten_fill ROps flatten2 pieces2 la = Hand.Clip.Ok (f2, l).
Proof.
  intro Hp. destruct (prepare_ok _ _ _ _ _ _ _ _ _ Hp) as (p1 & p2 & f1 & f2 & la & S1 & S2 & _ & F1 & F2 & C1 & C2).
  rewrite Hhs1 in S1. rewrite Hhs2 in S2. injection S1 as <-. injection S2 as <-.
  exists f1, f2, la. rewrite <- (flat_edges_gen flatten2 fuel pieces1 Hf1), <- (flat_edges_gen flatten2 fuel pieces2 Hf2).
  apply to_clipper_poly_spec in C1, C2. destruct C1 as [C1 _], C2 as [C2 _].
  repeat split; try assumption; eapply flatten_fill_edges; eassumption.
Qed.

(* ---------------------------------------------------------------- 3. selectors and roles *)
(* transport of selectors_roles: ONE Clipper call, SUBJECT = the receiver's polygon, CLIP = the argument's, the operation passed on *)
Theorem gen_selectors_roles st subj clp l : hprepare = (st, Hand.Clip.Ok (subj, clp, l)) ->
  forall (ct : clip_type) (flat : bool),
    gclip ct flat = match gclipper ct [subj] [clp] with
                    | None => Some (Raises PyClipperError)
                    | Some polys => embed (rebuild ROps flat l polys)
                    end.
Proof.
  intros Hp ct flat. rewrite gen_clip_bridge, (selectors_roles hclipper flatten2 _ _ _ _ _ _ _ _ Hp), Hclip.
  destruct (gclipper ct [subj] [clp]); reflexivity.
Qed.
(* the three selectors: the operation as named, the roles as above *)
Theorem gen_selectors_roles_ops st subj clp l : hprepare = (st, Hand.Clip.Ok (subj, clp, l)) ->
  forall flat : bool,
    Path_union ROps fmt_2f keq R_toZ gclipper fuel self other flat
      = match gclipper Ct_union [subj] [clp] with None => Some (Raises PyClipperError) | Some polys => embed (rebuild ROps flat l polys) end /\
    Path_intersection ROps fmt_2f keq R_toZ gclipper fuel self other flat
      = match gclipper Ct_intersection [subj] [clp] with None => Some (Raises PyClipperError) | Some polys => embed (rebuild ROps flat l polys) end /\
    Path_difference ROps fmt_2f keq R_toZ gclipper fuel self other flat
      = match gclipper Ct_difference [subj] [clp] with None => Some (Raises PyClipperError) | Some polys => embed (rebuild ROps flat l polys) end.
Proof.
  intros Hp flat. destruct (gen_selectors_ops ROps fmt_2f keq R_toZ gclipper fuel self other flat) as (-> & -> & ->).
  repeat split; apply (gen_selectors_roles _ _ _ _ Hp).
Qed.

(* hand-free: a returning Path_clip has called Clipper with the operation it was given, SUBJECT = int(100 * start point) of the flattened
   chain of the pieces of the RECEIVER, CLIP = the same for the ARGUMENT, and returns one path per polygon of Clipper's answer
   (transport of clip_inputs_are_flattened_outlines + selectors_roles + rebuild_length) *)
Theorem gen_clip_calls_clipper (ct : clip_type) (flat : bool) (paths : list (list (segment R) * bool)) :
  gclip ct flat = Some (Returns paths) ->
  exists f1 f2 polys, g_flat_edges fuel pieces1 = Some f1 /\ g_flat_edges fuel pieces2 = Some f2 /\
                      gclipper ct [map sst f1] [map sst f2] = Some polys /\ length paths = length polys.
Proof.
  intro Hg. apply gen_clip_returns_iff in Hg. destruct (hclip_ok_inv _ _ _ Hg) as (st & subj & clp & l & polys & Hp & Hc & Hr).
  destruct (prepare_inputs _ _ _ _ Hp) as (f1 & f2 & la & E1 & E2 & -> & -> & _). rewrite Hclip in Hc.
  exists f1, f2, polys. repeat split; try assumption. exact (rebuild_length _ _ _ _ Hr).
Qed.
Theorem gen_selectors_call_clipper (flat : bool) (paths : list (list (segment R) * bool)) :
  (Path_union ROps fmt_2f keq R_toZ gclipper fuel self other flat = Some (Returns paths) ->
   exists f1 f2 polys, g_flat_edges fuel pieces1 = Some f1 /\ g_flat_edges fuel pieces2 = Some f2 /\
                       gclipper Ct_union [map sst f1] [map sst f2] = Some polys /\ length paths = length polys) /\
  (Path_intersection ROps fmt_2f keq R_toZ gclipper fuel self other flat = Some (Returns paths) ->
   exists f1 f2 polys, g_flat_edges fuel pieces1 = Some f1 /\ g_flat_edges fuel pieces2 = Some f2 /\
                       gclipper Ct_intersection [map sst f1] [map sst f2] = Some polys /\ length paths = length polys) /\
  (Path_difference ROps fmt_2f keq R_toZ gclipper fuel self other flat = Some (Returns paths) ->
   exists f1 f2 polys, g_flat_edges fuel pieces1 = Some f1 /\ g_flat_edges fuel pieces2 = Some f2 /\
                       gclipper Ct_difference [map sst f1] [map sst f2] = Some polys /\ length paths = length polys).
Proof.
  destruct (gen_selectors_ops ROps fmt_2f keq R_toZ gclipper fuel self other flat) as (-> & -> & ->).
  repeat split; apply gen_clip_calls_clipper.
Qed.

(* ---------------------------------------------------------------- 1. polygon mode (flat = true) *)
(* transport of result_paths_closed_connected_complete *)
Theorem gen_result_paths_closed_connected_complete (ct : clip_type) st subj clp l polys :
  hprepare = (st, Hand.Clip.Ok (subj, clp, l)) ->
  gclipper ct [subj] [clp] = Some polys ->
  List.Forall clipper_poly_ok polys ->
  gclip ct true = Some (Returns (map poly_path polys)) /\
  List.Forall (fun p => snd (poly_path p) = true /\ fst (poly_path p) = map SLine (poly_edges p) /\
                        length (poly_edges p) = length p /\ closed_chain (poly_edges p) /\
                        forall d i, (i < length p)%nat ->
                          nth i (poly_edges p) (L2 (unscale (zR d)) (unscale (zR d))) =
                          L2 (unscale (zR (nth i p d))) (unscale (zR (nth (S i mod length p) p d)))) polys.
Proof.
  intros Hp Hc Hok. rewrite <- Hclip in Hc.
  destruct (result_paths_closed_connected_complete hclipper flatten2 _ _ _ _ _ _ _ _ _ _ Hp Hc Hok) as [E HF].
  split; [ | exact HF]. rewrite gen_clip_bridge, E. reflexivity.
Qed.

(* hand-free: whatever Path_clip RETURNS in polygon mode is, polygon by polygon of Clipper's answer, the closed chain of all n edges *)
Theorem gen_clip_flat_paths (ct : clip_type) (paths : list (list (segment R) * bool)) :
  (forall s c polys, gclipper ct [s] [c] = Some polys -> List.Forall clipper_poly_ok polys) ->
  gclip ct true = Some (Returns paths) ->
  exists f1 f2 polys,
    g_flat_edges fuel pieces1 = Some f1 /\ g_flat_edges fuel pieces2 = Some f2 /\
    gclipper ct [map sst f1] [map sst f2] = Some polys /\
    paths = map poly_path polys /\
    List.Forall (fun p => snd (poly_path p) = true /\ fst (poly_path p) = map SLine (poly_edges p) /\
                          length (poly_edges p) = length p /\ closed_chain (poly_edges p) /\
                          forall d i, (i < length p)%nat ->
                            nth i (poly_edges p) (L2 (unscale (zR d)) (unscale (zR d))) =
                            L2 (unscale (zR (nth i p d))) (unscale (zR (nth (S i mod length p) p d)))) polys.
Proof.
  intros Hall Hg. apply gen_clip_returns_iff in Hg. destruct (hclip_ok_inv _ _ _ Hg) as (st & subj & clp & l & polys & Hp & Hc & Hr).
  destruct (prepare_inputs _ _ _ _ Hp) as (f1 & f2 & la & E1 & E2 & Es & Ec & _).
  pose proof Hc as Hc'. rewrite Hclip in Hc'. pose proof (Hall _ _ _ Hc') as Hok.
  destruct (result_paths_closed_connected_complete hclipper flatten2 _ _ _ _ _ _ _ _ _ _ Hp Hc Hok) as [E HF].
  rewrite Hg in E. injection E as ->. subst subj clp.
  exists f1, f2, polys. repeat split; assumption.
Qed.
(* the same, path by path: flagged closed, all segments Lines, consecutive edges meet exactly and the last returns exactly to the first start *)
Theorem gen_clip_flat_paths_closed_chains (ct : clip_type) (paths : list (list (segment R) * bool)) :
  (forall s c polys, gclipper ct [s] [c] = Some polys -> List.Forall clipper_poly_ok polys) ->
  gclip ct true = Some (Returns paths) ->
  List.Forall (fun path => snd path = true /\ exists es : list (seg2 R), fst path = map SLine es /\ closed_chain es) paths.
Proof.
  intros Hall Hg. destruct (gen_clip_flat_paths ct paths Hall Hg) as (f1 & f2 & polys & _ & _ & _ & -> & HF).
  apply Forall_forall. intros path Hin. apply in_map_iff in Hin. destruct Hin as (p & <- & Hp).
  rewrite Forall_forall in HF. destruct (HF p Hp) as (Hc & Hs & _ & Hch & _).
  split; [exact Hc | ]. exists (poly_edges p). split; assumption.
Qed.

(* transport of region_semantics *)
Theorem gen_region_semantics (delta : R) (ct : clip_type) st subj clp l polys :
  hprepare = (st, Hand.Clip.Ok (subj, clp, l)) ->
  gclipper ct [subj] [clp] = Some polys ->
  List.Forall clipper_poly_ok polys ->
  clipper_spec delta (ct_of ct) subj clp polys ->
  exists paths, gclip ct true = Some (Returns paths) /\
  forall q, far delta q (cyc (map zR subj) ++ cyc (map zR clp)) ->
    eo_paths paths (Point___truediv__ ROps q (precision ROps)) = bop (ct_of ct) (eo_poly (map zR subj) q) (eo_poly (map zR clp) q).
Proof.
  intros Hp Hc Hok Hspec. rewrite <- Hclip in Hc.
  destruct (region_semantics hclipper flatten2 delta _ _ _ _ _ _ _ _ _ _ Hp Hc Hok Hspec) as (paths & E & Hq).
  exists paths. split; [ | exact Hq]. rewrite gen_clip_bridge, E. reflexivity.
Qed.

(* hand-free form of region_semantics_all, for a Clipper that meets its even-odd specification on the calls with this operation: at every
   point q (1/100 units) farther than delta from the two integer polygons, the combined even-odd interior of the paths Path_clip RETURNED,
   at q/100, is op(even-odd interior of the receiver's polygon, of the argument's polygon) *)
Theorem gen_region_semantics_all (delta : R) (ct : clip_type) (paths : list (list (segment R) * bool)) :
  (forall s c polys, gclipper ct [s] [c] = Some polys -> List.Forall clipper_poly_ok polys /\ clipper_spec delta (ct_of ct) s c polys) ->
  gclip ct true = Some (Returns paths) ->
  exists f1 f2, g_flat_edges fuel pieces1 = Some f1 /\ g_flat_edges fuel pieces2 = Some f2 /\
    forall q, far delta q (cyc (map zR (map sst f1)) ++ cyc (map zR (map sst f2))) ->
      eo_paths paths (Point___truediv__ ROps q (precision ROps))
      = bop (ct_of ct) (eo_poly (map zR (map sst f1)) q) (eo_poly (map zR (map sst f2)) q).
Proof.
  intros Hall Hg. apply gen_clip_returns_iff in Hg. destruct (hclip_ok_inv _ _ _ Hg) as (st & subj & clp & l & polys & Hp & Hc & Hr).
  destruct (prepare_inputs _ _ _ _ Hp) as (f1 & f2 & la & E1 & E2 & Es & Ec & _).
  pose proof Hc as Hc'. rewrite Hclip in Hc'. destruct (Hall _ _ _ Hc') as [Hok Hspec].
  destruct (region_semantics hclipper flatten2 delta _ _ _ _ _ _ _ _ _ _ Hp Hc Hok Hspec) as (paths' & E & Hq).
  rewrite Hg in E. injection E as <-. subst subj clp. exists f1, f2. repeat split; assumption.
Qed.

(* ---------------------------------------------------------------- 2. curve mode (flat = false) *)
(* transport of curve_mode_invents_no_geometry *)
Theorem gen_curve_mode_invents_no_geometry (ct : clip_type) (paths : list (list (segment R) * bool)) :
  List.Forall (fun st => snd st <= 1) sl1 -> List.Forall (fun st => snd st <= 1) sl2 ->
  gclip ct false = Some (Returns paths) ->
  forall path, In path paths -> snd path = true /\ forall v, In v (fst path) ->
    (exists polys p a b st subj clp l, hprepare = (st, Hand.Clip.Ok (subj, clp, l)) /\
        gclipper ct [subj] [clp] = Some polys /\ In p polys /\ In (a, b) (closed_pairs p) /\
        v = SLine (L2 (unscale (zR a)) (unscale (zR b))))
    \/ (exists piece s, In s (self ++ other) /\ is_piece_of s piece /\ reversed_or_same piece v).
Proof.
  intros H1 H2 Hg path Hin. apply gen_clip_returns_iff in Hg.
  destruct (curve_mode_invents_no_geometry hclipper flatten2 _ _ _ _ _ _ H1 H2 Hg path Hin) as [Hc Hs].
  split; [exact Hc | ]. intros v Hv. destruct (Hs v Hv) as [(polys & p & a & b & st & subj & clp & l & Hp & Hcl & R) | Hr]; [left | right; exact Hr].
  exists polys, p, a, b, st, subj, clp, l. rewrite Hclip in Hcl. split; [exact Hp | split; [exact Hcl | exact R]].
Qed.

(* hand-free and sharper: every segment of every path Path_clip RETURNED in curve mode is a fresh straight edge between two cyclically
   consecutive vertices of a polygon Clipper answered with (scaled by 1/100), or one of the PIECES Path_splitAtPoints returned, or the
   .reversed() of one; every path is flagged closed.  No hypothesis on the split parameters. *)
Theorem gen_curve_mode_segments_are_pieces (ct : clip_type) (paths : list (list (segment R) * bool)) :
  gclip ct false = Some (Returns paths) ->
  exists f1 f2 polys,
    g_flat_edges fuel pieces1 = Some f1 /\ g_flat_edges fuel pieces2 = Some f2 /\ gclipper ct [map sst f1] [map sst f2] = Some polys /\
    forall path, In path paths -> snd path = true /\ forall v, In v (fst path) ->
      (exists p a b, In p polys /\ In (a, b) (closed_pairs p) /\ v = SLine (L2 (unscale (zR a)) (unscale (zR b))))
      \/ (exists piece, In piece (pieces1 ++ pieces2) /\ reversed_or_same piece v).
Proof.
  intro Hg. apply gen_clip_returns_iff in Hg. destruct (hclip_ok_inv _ _ _ Hg) as (st & subj & clp & l & polys & Hp & Hc & Hr).
  destruct (prepare_inputs _ _ _ _ Hp) as (f1 & f2 & la & E1 & E2 & -> & -> & F1 & F2). rewrite Hclip in Hc.
  exists f1, f2, polys. split; [exact E1 | split; [exact E2 | split; [exact Hc | ]]].
  intros path Hin. destruct (result_segments_provenance _ _ _ _ Hr _ Hin) as [Hcl Hs]. split; [exact Hcl | ].
  intros v Hv. destruct (Hs v Hv) as [Hl | [_ [k Hk]]]; [left; exact Hl | right].
  destruct (lut_values_are_pieces _ _ _ _ _ F2 _ _ Hk) as [Hk1 | (s & Hs2 & Hv2)].
  - destruct (lut_values_are_pieces _ _ _ _ _ F1 _ _ Hk1) as [[] | (s & Hs1 & Hv1)].
    exists s. split; [apply in_or_app; left; exact Hs1 | exact Hv1].
  - exists s. split; [apply in_or_app; right; exact Hs2 | exact Hv2].
Qed.
(* with no split parameter above 1, a piece is a sub-arc of an input segment (split_pieces_are_subcurves) *)
Theorem gen_curve_mode_subarcs (ct : clip_type) (paths : list (list (segment R) * bool)) :
  List.Forall (fun st => snd st <= 1) sl1 -> List.Forall (fun st => snd st <= 1) sl2 ->
  gclip ct false = Some (Returns paths) ->
  exists f1 f2 polys,
    g_flat_edges fuel pieces1 = Some f1 /\ g_flat_edges fuel pieces2 = Some f2 /\ gclipper ct [map sst f1] [map sst f2] = Some polys /\
    forall path, In path paths -> snd path = true /\ forall v, In v (fst path) ->
      (exists p a b, In p polys /\ In (a, b) (closed_pairs p) /\ v = SLine (L2 (unscale (zR a)) (unscale (zR b))))
      \/ (exists piece s, In piece (pieces1 ++ pieces2) /\ In s (self ++ other) /\ is_piece_of s piece /\ reversed_or_same piece v).
Proof.
  intros H1 H2 Hg. destruct (gen_curve_mode_segments_are_pieces ct paths Hg) as (f1 & f2 & polys & E1 & E2 & Hc & Hall).
  exists f1, f2, polys. split; [exact E1 | split; [exact E2 | split; [exact Hc | ]]].
  intros path Hin. destruct (Hall path Hin) as [Hcl Hs]. split; [exact Hcl | ].
  intros v Hv. destruct (Hs v Hv) as [Hl | (piece & Hpc & Hrv)]; [left; exact Hl | right].
  pose proof (split_pieces_are_subcurves _ _ _ H1 Hhs1) as P1. pose proof (split_pieces_are_subcurves _ _ _ H2 Hhs2) as P2.
  rewrite Forall_forall in P1, P2. apply in_app_or in Hpc. destruct Hpc as [Hpc | Hpc].
  - destruct (P1 piece Hpc) as (s & Hs0 & Hpo). exists piece, s.
    split; [apply in_or_app; left; exact Hpc | split; [apply in_or_app; left; exact Hs0 | split; assumption]].
  - destruct (P2 piece Hpc) as (s & Hs0 & Hpo). exists piece, s.
    split; [apply in_or_app; right; exact Hpc | split; [apply in_or_app; right; exact Hs0 | split; assumption]].
Qed.

(* transport of empty_clip_empty_result: an empty answer of Clipper yields no paths (either mode) *)
Theorem gen_empty_clip_empty_result st subj clp l (ct : clip_type) (flat : bool) :
  hprepare = (st, Hand.Clip.Ok (subj, clp, l)) ->
  gclipper ct [subj] [clp] = Some [] ->
  gclip ct flat = Some (Returns []).
Proof.
  intros Hp Hc. rewrite <- Hclip in Hc. rewrite gen_clip_bridge, (empty_clip_empty_result hclipper flatten2 _ _ _ _ _ _ _ _ _ _ Hp Hc). reflexivity.
Qed.
(* hand-free: if Clipper answers the call on the two flattened outlines with no polygon, whatever Path_clip returns is [] *)
Theorem gen_empty_clip_no_paths (ct : clip_type) (flat : bool) (paths : list (list (segment R) * bool)) f1 f2 :
  g_flat_edges fuel pieces1 = Some f1 -> g_flat_edges fuel pieces2 = Some f2 ->
  gclipper ct [map sst f1] [map sst f2] = Some [] ->
  gclip ct flat = Some (Returns paths) -> paths = [].
Proof.
  intros E1 E2 Hc Hg. destruct (gen_clip_calls_clipper ct flat paths Hg) as (f1' & f2' & polys & E1' & E2' & Hc' & Hlen).
  rewrite E1 in E1'. rewrite E2 in E2'. injection E1' as <-. injection E2' as <-. rewrite Hc in Hc'. injection Hc' as <-.
  destruct paths; [reflexivity | discriminate].
Qed.
End Transfer.

(* ---------------------------------------------------------------- the hand-free forms without the hand oracle *)
Section NoHandClipper.
Context {K : Type} (fmt_2f : R -> K) (keq : K -> K -> bool).
Variable gclipper : clip_type -> list (list (Z * Z)) -> list (list (Z * Z)) -> option (list (list (Z * Z))).
Variable flatten2 : flatten_t.
Variable fuel : nat.
Variables self other : list (segment R).
Variable ints : list (pt R * (segment R * segment R * (R * pt R * R))).
Variables sl1 sl2 : list (segment R * R).
Variables pieces1 pieces2 : list (segment R).
Hypothesis Hisect : g_isect ROps fmt_2f keq fuel self other = Some (Returns (ints, sl1, sl2)).
Hypothesis Hgs1 : Path_splitAtPoints ROps fuel self sl1 = Some pieces1.
Hypothesis Hgs2 : Path_splitAtPoints ROps fuel other sl2 = Some pieces2.
Hypothesis Hhs1 : splitAtPoints ROps self sl1 = Hand.Clip.Ok pieces1.
Hypothesis Hhs2 : splitAtPoints ROps other sl2 = Hand.Clip.Ok pieces2.
Hypothesis Hf1 : List.Forall (flat_ok ROps flatten2 fuel) pieces1.
Hypothesis Hf2 : List.Forall (flat_ok ROps flatten2 fuel) pieces2.

Notation gclip := (Path_clip ROps fmt_2f keq R_toZ gclipper fuel self other).
Notation sst := start_scaled_trunc.
Notation inst thm := (thm K fmt_2f keq gclipper (hand_clipper gclipper) flatten2 (hand_clipper_ok gclipper) fuel self other ints sl1 sl2 pieces1 pieces2
                          Hisect Hgs1 Hgs2 Hhs1 Hhs2 Hf1 Hf2) (only parsing).

Theorem gen_clip_not_none_g (ct : clip_type) (flat : bool) : gclip ct flat <> None.
Proof. exact (inst (@gen_clip_not_none) ct flat). Qed.
Theorem gen_clip_calls_clipper_g (ct : clip_type) (flat : bool) (paths : list (list (segment R) * bool)) :
  gclip ct flat = Some (Returns paths) ->
  exists f1 f2 polys, g_flat_edges fuel pieces1 = Some f1 /\ g_flat_edges fuel pieces2 = Some f2 /\
                      gclipper ct [map sst f1] [map sst f2] = Some polys /\ length paths = length polys.
Proof. exact (inst (@gen_clip_calls_clipper) ct flat paths). Qed.
Theorem gen_selectors_call_clipper_g (flat : bool) (paths : list (list (segment R) * bool)) :
  (Path_union ROps fmt_2f keq R_toZ gclipper fuel self other flat = Some (Returns paths) ->
   exists f1 f2 polys, g_flat_edges fuel pieces1 = Some f1 /\ g_flat_edges fuel pieces2 = Some f2 /\
                       gclipper Ct_union [map sst f1] [map sst f2] = Some polys /\ length paths = length polys) /\
  (Path_intersection ROps fmt_2f keq R_toZ gclipper fuel self other flat = Some (Returns paths) ->
   exists f1 f2 polys, g_flat_edges fuel pieces1 = Some f1 /\ g_flat_edges fuel pieces2 = Some f2 /\
                       gclipper Ct_intersection [map sst f1] [map sst f2] = Some polys /\ length paths = length polys) /\
  (Path_difference ROps fmt_2f keq R_toZ gclipper fuel self other flat = Some (Returns paths) ->
   exists f1 f2 polys, g_flat_edges fuel pieces1 = Some f1 /\ g_flat_edges fuel pieces2 = Some f2 /\
                       gclipper Ct_difference [map sst f1] [map sst f2] = Some polys /\ length paths = length polys).
Proof. exact (inst (@gen_selectors_call_clipper) flat paths). Qed.
Theorem gen_clip_flat_paths_g (ct : clip_type) (paths : list (list (segment R) * bool)) :
  (forall s c polys, gclipper ct [s] [c] = Some polys -> List.Forall clipper_poly_ok polys) ->
  gclip ct true = Some (Returns paths) ->
  exists f1 f2 polys,
    g_flat_edges fuel pieces1 = Some f1 /\ g_flat_edges fuel pieces2 = Some f2 /\
    gclipper ct [map sst f1] [map sst f2] = Some polys /\
    paths = map poly_path polys /\
    List.Forall (fun p => snd (poly_path p) = true /\ fst (poly_path p) = map SLine (poly_edges p) /\
                          length (poly_edges p) = length p /\ closed_chain (poly_edges p) /\
                          forall d i, (i < length p)%nat ->
                            nth i (poly_edges p) (L2 (unscale (zR d)) (unscale (zR d))) =
                            L2 (unscale (zR (nth i p d))) (unscale (zR (nth (S i mod length p) p d)))) polys.
Proof. exact (inst (@gen_clip_flat_paths) ct paths). Qed.
Theorem gen_clip_flat_paths_closed_chains_g (ct : clip_type) (paths : list (list (segment R) * bool)) :
  (forall s c polys, gclipper ct [s] [c] = Some polys -> List.Forall clipper_poly_ok polys) ->
  gclip ct true = Some (Returns paths) ->
  List.Forall (fun path => snd path = true /\ exists es : list (seg2 R), fst path = map SLine es /\ closed_chain es) paths.
Proof. exact (inst (@gen_clip_flat_paths_closed_chains) ct paths). Qed.
Theorem gen_region_semantics_all_g (delta : R) (ct : clip_type) (paths : list (list (segment R) * bool)) :
  (forall s c polys, gclipper ct [s] [c] = Some polys -> List.Forall clipper_poly_ok polys /\ clipper_spec delta (ct_of ct) s c polys) ->
  gclip ct true = Some (Returns paths) ->
  exists f1 f2, g_flat_edges fuel pieces1 = Some f1 /\ g_flat_edges fuel pieces2 = Some f2 /\
    forall q, far delta q (cyc (map zR (map sst f1)) ++ cyc (map zR (map sst f2))) ->
      eo_paths paths (Point___truediv__ ROps q (precision ROps))
      = bop (ct_of ct) (eo_poly (map zR (map sst f1)) q) (eo_poly (map zR (map sst f2)) q).
Proof. exact (inst (@gen_region_semantics_all) delta ct paths). Qed.
Theorem gen_curve_mode_segments_are_pieces_g (ct : clip_type) (paths : list (list (segment R) * bool)) :
  gclip ct false = Some (Returns paths) ->
  exists f1 f2 polys,
    g_flat_edges fuel pieces1 = Some f1 /\ g_flat_edges fuel pieces2 = Some f2 /\ gclipper ct [map sst f1] [map sst f2] = Some polys /\
    forall path, In path paths -> snd path = true /\ forall v, In v (fst path) ->
      (exists p a b, In p polys /\ In (a, b) (closed_pairs p) /\ v = SLine (L2 (unscale (zR a)) (unscale (zR b))))
      \/ (exists piece, In piece (pieces1 ++ pieces2) /\ reversed_or_same piece v).
Proof. exact (inst (@gen_curve_mode_segments_are_pieces) ct paths). Qed.
Theorem gen_curve_mode_subarcs_g (ct : clip_type) (paths : list (list (segment R) * bool)) :
  List.Forall (fun st => snd st <= 1) sl1 -> List.Forall (fun st => snd st <= 1) sl2 ->
  gclip ct false = Some (Returns paths) ->
  exists f1 f2 polys,
    g_flat_edges fuel pieces1 = Some f1 /\ g_flat_edges fuel pieces2 = Some f2 /\ gclipper ct [map sst f1] [map sst f2] = Some polys /\
    forall path, In path paths -> snd path = true /\ forall v, In v (fst path) ->
      (exists p a b, In p polys /\ In (a, b) (closed_pairs p) /\ v = SLine (L2 (unscale (zR a)) (unscale (zR b))))
      \/ (exists piece s, In piece (pieces1 ++ pieces2) /\ In s (self ++ other) /\ is_piece_of s piece /\ reversed_or_same piece v).
Proof. exact (inst (@gen_curve_mode_subarcs) ct paths). Qed.
Theorem gen_empty_clip_no_paths_g (ct : clip_type) (flat : bool) (paths : list (list (segment R) * bool)) f1 f2 :
  g_flat_edges fuel pieces1 = Some f1 -> g_flat_edges fuel pieces2 = Some f2 ->
  gclipper ct [map sst f1] [map sst f2] = Some [] ->
  gclip ct flat = Some (Returns paths) -> paths = [].
Proof. exact (inst (@gen_empty_clip_no_paths) ct flat paths f1 f2). Qed.
End NoHandClipper.

Print Assumptions gen_selectors_ops.
Print Assumptions gen_clip_returns_iff.
Print Assumptions gen_clip_not_none.
Print Assumptions gen_selectors_roles.
Print Assumptions gen_selectors_roles_ops.
Print Assumptions gen_clip_calls_clipper.
Print Assumptions gen_selectors_call_clipper.
Print Assumptions gen_result_paths_closed_connected_complete.
Print Assumptions gen_clip_flat_paths.
Print Assumptions gen_clip_flat_paths_closed_chains.
Print Assumptions gen_region_semantics.
Print Assumptions gen_region_semantics_all.
Print Assumptions gen_curve_mode_invents_no_geometry.
Print Assumptions gen_curve_mode_segments_are_pieces.
Print Assumptions gen_curve_mode_subarcs.
Print Assumptions gen_empty_clip_empty_result.
Print Assumptions gen_empty_clip_no_paths.
Print Assumptions gen_clip_not_none_g.
Print Assumptions gen_clip_calls_clipper_g.
Print Assumptions gen_selectors_call_clipper_g.
Print Assumptions gen_clip_flat_paths_g.
Print Assumptions gen_clip_flat_paths_closed_chains_g.
Print Assumptions gen_region_semantics_all_g.
Print Assumptions gen_curve_mode_segments_are_pieces_g.
Print Assumptions gen_curve_mode_subarcs_g.
Print Assumptions gen_empty_clip_no_paths_g.
