(* C17 / C10 for QuadraticBezier.flatten (the UNIFORM sampler `sample`) and the path-level flattening error with no sampling hypothesis.

   Part 1 (C17, ALL quadratics at least d long): Quad_flatten returns exactly m edges where (m - 1) * d / length <= 1 < m * d / length, i.e.
       m - 1 <= length / d < m;   in particular  length / (2 d) < length / d < number of edges   (quad_flatten_edge_count[_exact]).
     No boundary case over the reals: the loop of `sample` exits with t > 1, so `if t != 1.0` always appends pointAtTime(1); when length / d is
     an exact integer k the parameter k * step = 1 is visited AND 1 is appended, so the last edge is the degenerate chord from the end point
     to itself -- it is counted (k + 1 edges), as Python's len() counts it.
   Part 2 (C10, gentle quadratics m <= speed <= M <= 2 m): the cut parameters 0, step, ..., 1 form a fine_partition_01 with
     D = M * d / length <= 2.001 d; unconditional area error (2.001 d) / 4 * L, short-chord case included.
   Part 3 (C10, closed paths): lines, gentle quadratics, gentle cubics (each cubic at most 70000 long), flattened by seg_flatten / path_flatten
     with a step d <= 8: | shoelace(all edges) - (- sum X_area) | <= 10 * total exact arc length.  Every partition is 40-fine, so the uniform-width
     flat_ok of Proofs/C10flat.v suffices.
   Non-vacuity: the D-shape (arch 100 + closing line) and a parabola arch (0,0)(50,50)(100,0) + closing line. *)
From Coq Require Import Reals Lra Lia List Bool Psatz Sorted.
From Coquelicot Require Import Coquelicot.
Import ListNotations.
From BZ Require Import Base.Ops Proofs.Tactics Gen.Point Gen.Line Gen.Quad Gen.Cubic Hand.Shoelace Hand.Sample
                       Proofs.C01 Proofs.C04 Proofs.C10 Proofs.C16 Proofs.C17 Proofs.C10flat Proofs.C10flat2
                       Proofs.C04poly Proofs.C04acc Proofs.C04add Proofs.C16acc Proofs.C16space.
Open Scope R_scope.

(* ================================================================================================== *)
(* Part 1: what Quad_flatten returns for a quadratic at least d long, with the loop-exit fact 1 < m * step *)
(* ================================================================================================== *)
Lemma Ok_inj {A : Type} (a b : A) : Ok a = Ok b -> a = b.
Proof. intro H. injection H. auto. Qed.

Lemma quad_flatten_long_exact cap (q : seg3 R) d es : 0 < d -> ~ Quad_length ROps q < d ->
  Quad_flatten ROps cap q d = Ok es ->
  exists m, (1 <= m)%nat /\
    es = tag_all (SQuad q) (join_pts (map (Quad_pointAtTime ROps q) (prog 0 (d / Quad_length ROps q) m ++ [1]))) /\
    (forall i, (i < m)%nat -> INR i * (d / Quad_length ROps q) <= 1) /\ 1 < INR m * (d / Quad_length ROps q).
Proof.
  intros Hd HL H. unfold Quad_flatten in H. rewrite (proj2 (Rltb_false _ _)) in H by lra.
  change (zero ROps) with 0 in H. rewrite (proj2 (Reqb_false d 0)) in H by lra.
  change (dvd ROps ?a ?b) with (a / b) in H.
  destruct (seg_sample ROps cap (SQuad q) (Quad_length ROps q / d)) as [pts|e] eqn:Es; cbn [bind] in H; [|discriminate].
  apply Ok_inj in H. subst es.
  assert (Hn : 0 < Quad_length ROps q / d) by (apply Rdiv_lt_0_compat; lra).
  destruct (sample_params _ _ _ _ Hn Es) as (m & Hm1 & Hm & Hle & Hgt).
  rewrite mapM_total in Hm. apply Ok_inj in Hm. subst pts.
  assert (E : 1 / (Quad_length ROps q / d) = d / Quad_length ROps q) by (field; lra).
  rewrite E in Hle, Hgt. rewrite E. exists m. split; [exact Hm1|]. split; [reflexivity|]. split; assumption.
Qed.

Lemma join_pts_map_length (g : R -> pt R) (l : list R) : length (join_pts (map g l)) = pred (length l).
Proof. destruct l as [|a r]; [reflexivity|]. cbn [map]. rewrite join_pts_length, map_length. reflexivity. Qed.

(* C17, edge count, ALL quadratics at least d long: the uniform sampler visits 0, step, 2 step, ... while <= 1 (step = d / length)
   and then ALWAYS appends the end point (the loop exits with t > 1, so t != 1.0 holds over the reals); with m the number of visited
   parameters there are exactly m edges, and (m - 1) * step <= 1 < m * step, i.e.  m - 1 <= length / d < m:  m = floor(length/d) + 1.
   In particular there are MORE than length / d edges, hence more than length / (2 d): no boundary case over the reals. *)
Theorem quad_flatten_edge_count_exact cap (q : seg3 R) d es : 0 < d -> ~ Quad_length ROps q < d ->
  Quad_flatten ROps cap q d = Ok es ->
  INR (length es) - 1 <= Quad_length ROps q / d < INR (length es).
Proof.
  intros Hd HL H. destruct (quad_flatten_long_exact cap q d es Hd HL H) as (m & Hm1 & -> & Hle & Hgt).
  assert (Elen : length (tag_all (SQuad q) (join_pts (map (Quad_pointAtTime ROps q) (prog 0 (d / Quad_length ROps q) m ++ [1])))) = m).
  { unfold tag_all. rewrite map_length, join_pts_map_length, app_length, prog_length. cbn [length]. lia. }
  rewrite Elen. set (L := Quad_length ROps q) in *. assert (HLp : 0 < L) by lra.
  assert (E : forall x, x * (d / L) = x * d * / L) by (intro x; unfold Rdiv; ring).
  split.
  - destruct m as [|k]; [lia|]. specialize (Hle k ltac:(lia)). rewrite S_INR. replace (INR k + 1 - 1) with (INR k) by ring.
    apply (Rmult_le_reg_r (d / L)); [apply Rdiv_lt_0_compat; lra|].
    replace (L / d * (d / L)) with 1 by (field; lra). exact Hle.
  - apply (Rmult_lt_reg_r (d / L)); [apply Rdiv_lt_0_compat; lra|].
    replace (L / d * (d / L)) with 1 by (field; lra). exact Hgt.
Qed.
Theorem quad_flatten_edge_count cap (q : seg3 R) d es : 0 < d -> ~ Quad_length ROps q < d ->
  Quad_flatten ROps cap q d = Ok es ->
  Quad_length ROps q / (2 * d) < INR (length es).
Proof.
  intros Hd HL H. destruct (quad_flatten_edge_count_exact cap q d es Hd HL H) as [_ Hlt].
  eapply Rle_lt_trans; [|exact Hlt]. assert (HLp : 0 < Quad_length ROps q) by lra.
  replace (Quad_length ROps q / (2 * d)) with (Quad_length ROps q / d / 2) by (field; lra).
  assert (0 < Quad_length ROps q / d) by (apply Rdiv_lt_0_compat; lra). lra.
Qed.

(* ================================================================================================== *)
(* Part 2: QuadraticBezier.flatten of a gentle quadratic                                              *)
(* ================================================================================================== *)
(* the uniform parameters t, t + step, ..., then 1, cut a curve whose speed is at most M into pieces of arc length at most M * step *)
Lemma prog_fine (len : R -> R -> R) (M step : R) : 0 < step -> 0 <= M ->
  (forall a b, 0 <= a <= b -> b <= 1 -> len a b <= M * (b - a)) ->
  forall k t, 0 <= t -> (forall i, (i < S k)%nat -> t + INR i * step <= 1) -> 1 < t + INR (S k) * step ->
    fine_partition len (M * step) t (prog (t + step) step k ++ [1]) 1.
Proof.
  intros Hs HM Hlen. induction k as [|k IH]; intros t Ht Hle Hgt.
  - cbn [prog seq map app fine_partition]. pose proof (Hle 0%nat ltac:(lia)) as H0. cbn [INR] in H0, Hgt.
    split; [lra|]. split; [|reflexivity]. eapply Rle_trans; [apply Hlen; lra|]. apply Rmult_le_compat_l; lra.
  - rewrite prog_S. cbn [app fine_partition].
    pose proof (Hle 1%nat ltac:(lia)) as H1. cbn [INR] in H1.
    split; [lra|]. split.
    + eapply Rle_trans; [apply Hlen; lra|]. apply Rmult_le_compat_l; lra.
    + apply IH; [lra | |].
      * intros i Hi. specialize (Hle (S i) ltac:(lia)). rewrite S_INR in Hle. lra.
      * rewrite (S_INR (S k)) in Hgt. lra.
Qed.

(* a quadratic shorter than the step: the single chord misses the area by at most (arc length)^2 / 4 *)
Theorem quad_short_chord_area_error cap (q : seg3 R) d : 0 < d -> Quad_length ROps q < d ->
  exists es, Quad_flatten ROps cap q d = Ok es /\ map fst es = [L2 (q0 q) (q2 q)] /\
    Rabs (Quad_area ROps q - sum_line_areas (map fst es)) <= quad_arclen q 0 1 * quad_arclen q 0 1 / 4.
Proof.
  intros Hd Hs. exists [(L2 (q0 q) (q2 q), Some (SQuad q))]. split; [apply quad_flatten_short; exact Hs | split; [reflexivity|]].
  cbn [map fst sum_line_areas]. rewrite Rplus_0_r.
  pose proof (quad_arc_chord_area_bound q 0 1 ltac:(lra)) as B.
  unfold quad_chord2 in B. rewrite quad_eval_0, quad_eval_1 in B.
  rewrite <- (quad_ydx_area q). exact B.
Qed.

Section GentleQuadFlatten.
Variable s : seg3 R.
Variables m M : R.
Hypothesis Hm : 0 < m.
Hypothesis Hsp : forall u, 0 <= u <= 1 -> m <= quad_speed s u <= M.
Hypothesis HM : M <= 2 * m.

(* one step of the uniform sampler (d / length in the parameter) covers at most 2.001 d of arc length *)
Lemma gentleq_uniform_step d : 0 <= d -> M * (d / Quad_length ROps s) <= 2001 / 1000 * d.
Proof.
  intro Hd. pose proof (gentleq_len_bounds s m M Hm Hsp HM) as [Hl _]. pose proof (gentleq_L_ge_m s m M Hsp) as HL.
  pose proof (gentleq_len_pos s m M Hm Hsp HM) as Hp. pose proof (gentleq_M_nonneg s m M Hm Hsp) as HM0.
  unfold Rdiv. apply (Rmult_le_reg_r (Quad_length ROps s)); [exact Hp|].
  replace (M * (d * / Quad_length ROps s) * Quad_length ROps s) with (M * d) by (field; lra). nra.
Qed.

(* a curve at least d long: the cut parameters 0, step, 2 step, ..., 1 form a fine partition with D = M * d / length <= 2.001 d *)
Theorem gentle_quad_flatten_fine cap d es : 0 < d -> ~ Quad_length ROps s < d -> Quad_flatten ROps cap s d = Ok es ->
  exists ts, param_list ts /\ map fst es = chords_of (Quad_pointAtTime ROps s) ts /\ S (length es) = length ts /\
    fine_partition_01 (quad_arclen s) (M * (d / Quad_length ROps s)) ts.
Proof.
  intros Hd Hl H. pose proof (gentleq_len_pos s m M Hm Hsp HM) as Hp.
  destruct (quad_flatten_long_exact cap s d es Hd Hl H) as (n & Hn1 & -> & Hle & Hgt).
  set (step := d / Quad_length ROps s) in *.
  assert (Hs : 0 < step) by (apply Rdiv_lt_0_compat; lra).
  exists (prog 0 step n ++ [1]). rewrite map_fst_tag_all.
  destruct n as [|k]; [lia|].
  destruct (prog_app_1_order 0 step (S k)) as [O1 O2]; [lra | exact Hs | intros i Hi; specialize (Hle i Hi); lra|].
  split; [|split; [|split]].
  - split; [rewrite prog_S; reflexivity|]. split; [apply last_opt_app|]. split; [exact O2 | exact O1].
  - rewrite prog_S. change ((0 :: prog (0 + step) step k) ++ [1]) with (0 :: (prog (0 + step) step k ++ [1])).
    rewrite join_pts_chords. reflexivity.
  - unfold tag_all. rewrite map_length, join_pts_map_length. destruct (prog 0 step (S k) ++ [1]) eqn:E; [|reflexivity].
    rewrite prog_S in E. discriminate.
  - rewrite prog_S. change ((0 :: prog (0 + step) step k) ++ [1]) with (0 :: (prog (0 + step) step k ++ [1])).
    split; [reflexivity|].
    apply (prog_fine (quad_arclen s) M step Hs (gentleq_M_nonneg s m M Hm Hsp)); [| lra | |].
    + intros a b Hab Hb. apply (gentleq_arclen_bounds s m M Hsp a b Hab Hb).
    + intros i Hi. specialize (Hle i Hi). lra.
    + lra.
Qed.

(* C10: the UNCONDITIONAL flattening error of a gentle quadratic (short curves included) *)
Theorem gentle_quad_flatten_area_error cap d es : 0 < d -> Quad_flatten ROps cap s d = Ok es ->
  Rabs (Quad_area ROps s - sum_line_areas (map fst es)) <= (2001 / 1000 * d) / 4 * quad_arclen s 0 1.
Proof.
  intros Hd H. pose proof (gentleq_len_bounds s m M Hm Hsp HM) as [Hlo Hhi]. pose proof (gentleq_L_ge_m s m M Hsp) as HL.
  destruct (Rlt_dec (Quad_length ROps s) d) as [Hs | Hl].
  - destruct (quad_short_chord_area_error cap s d Hd Hs) as (es' & He' & _ & Hb). rewrite H in He'. apply Ok_inj in He'. subst es'.
    eapply Rle_trans; [exact Hb|]. set (L := quad_arclen s 0 1) in *.
    assert (L <= d * (1 + 3 / 10000)) by nra. nra.
  - destruct (gentle_quad_flatten_fine cap d es Hd Hl H) as (ts & _ & E & _ & F). rewrite E.
    eapply Rle_trans; [apply (quad_flatten_error_list s _ ts F)|]. set (L := quad_arclen s 0 1) in *.
    apply Rmult_le_compat_r; [lra|]. pose proof (gentleq_uniform_step d ltac:(lra)). lra.
Qed.
(* the property's 10 x length: any step up to 19.99 (default 8), no bound on the length *)
Corollary gentle_quad_flatten_area_error_10 cap d es : 0 < d <= 1999 / 100 ->
  Quad_flatten ROps cap s d = Ok es ->
  Rabs (Quad_area ROps s - sum_line_areas (map fst es)) <= 10 * quad_arclen s 0 1.
Proof.
  intros Hd H. pose proof (gentle_quad_flatten_area_error cap d es ltac:(lra) H) as B.
  pose proof (gentleq_L_ge_m s m M Hsp). set (L := quad_arclen s 0 1) in *. nra.
Qed.
End GentleQuadFlatten.

(* ================================================================================================== *)
(* Part 3: closed paths, every segment flattened by the model's flatteners -- no sampling hypothesis   *)
(* ================================================================================================== *)
(* a line, or a curve whose speed varies by at most a factor 2 over [0,1] (its own m, M); cubics at most 70000 units long
   (the regularSample spacing bound carries the term 4e-4 x length; the uniform sampler of quadratics needs no such bound) *)
Definition gentle_seg (s : segment R) : Prop :=
  match s with
  | SLine _ => True
  | SQuad q => exists m M, 0 < m /\ (forall u, 0 <= u <= 1 -> m <= quad_speed q u <= M) /\ M <= 2 * m
  | SCubic c => exists m M, 0 < m /\ (forall u, 0 <= u <= 1 -> m <= cubic_speed c u <= M) /\ M <= 2 * m /\
                            cubic_arclen c 0 1 <= 70000
  end.

Lemma fine_partition_mono (len : R -> R -> R) (d1 d2 : R) : d1 <= d2 ->
  forall ts t0 tn, fine_partition len d1 t0 ts tn -> fine_partition len d2 t0 ts tn.
Proof. intro Hd. exact (fine_partition_weaken len len d1 d2 (fun a b => eq_refl) Hd). Qed.

(* one segment: what the flattener returns is the chord list of a partition whose pieces have arc length at most 40 *)
Lemma seg_flatten_flat_ok cap (s : segment R) (o : option (segment R)) d es : 0 < d <= 8 -> gentle_seg s ->
  seg_flatten ROps cap (s, o) d = Ok es ->
  exists ts, flat_ok 40 (s, ts) /\ map fst es = seg_chords (s, ts).
Proof.
  intros [Hd Hd8] Hg H. destruct s as [l | q | c]; cbn [seg_flatten fst snd] in H.
  - unfold Line_flatten in H. apply Ok_inj in H. subst es. exists [1]. split; [reflexivity|].
    unfold seg_chords. cbn [fst snd map chords_from]. rewrite seg_pt_0, seg_pt_1. destruct l; reflexivity.
  - destruct Hg as (m & M & Hm & Hsp & HM).
    pose proof (gentleq_len_bounds q m M Hm Hsp HM) as [Hlo Hhi]. pose proof (gentleq_L_ge_m q m M Hsp) as HL.
    destruct (Rlt_dec (Quad_length ROps q) d) as [Hs | Hl].
    + rewrite (quad_flatten_short cap q d Hs) in H. apply Ok_inj in H. subst es. exists [1]. split.
      * unfold flat_ok. cbn [fst snd seg_arclen fine_partition]. split; [lra|]. split; [nra | reflexivity].
      * unfold seg_chords. cbn [fst snd map chords_from]. rewrite seg_pt_0, seg_pt_1. reflexivity.
    + destruct (gentle_quad_flatten_fine q m M Hm Hsp HM cap d es Hd Hl H) as (ts & _ & E & _ & F).
      destruct ts as [|t0 r]; [destruct F|]. destruct F as [-> F]. exists r. split.
      * unfold flat_ok. cbn [fst snd seg_arclen]. refine (fine_partition_mono _ _ _ _ _ _ _ F).
        pose proof (gentleq_uniform_step q m M Hm Hsp HM d ltac:(lra)). lra.
      * exact E.
  - destruct Hg as (m & M & Hm & Hsp & HM & HL7).
    pose proof (gentle_len_bounds c m M Hm Hsp HM) as [Hlo Hhi]. pose proof (gentle_L_ge_m c m M Hsp) as HL.
    destruct (Rlt_dec (Cubic_length ROps c) d) as [Hs | Hl].
    + rewrite (cubic_flatten_short cap c d Hs) in H. apply Ok_inj in H. subst es. exists [1]. split.
      * unfold flat_ok. cbn [fst snd seg_arclen fine_partition]. split; [lra|]. split; [nra | reflexivity].
      * unfold seg_chords. cbn [fst snd map chords_from]. rewrite seg_pt_0, seg_pt_1. reflexivity.
    + destruct (gentle_cubic_flatten_fine c m M Hm Hsp HM cap d es Hd Hl H) as (ts & _ & E & _ & F).
      destruct ts as [|t0 r]; [destruct F|]. destruct F as [-> F]. exists r. split.
      * unfold flat_ok. cbn [fst snd seg_arclen]. refine (fine_partition_mono _ _ _ _ _ _ _ F).
        pose proof (gentle_table_step c m M Hm Hsp HM). rewrite pow10_4. lra.
      * exact E.
Qed.

(* all segments of a path *)
Lemma path_flatten_flat_ok cap d (segs : list (segment R * option (segment R))) (ls : list (list (seg2 R * option (segment R)))) :
  0 < d <= 8 -> List.Forall gentle_seg (map fst segs) ->
  List.Forall2 (fun s l => seg_flatten ROps cap s d = Ok l) segs ls ->
  exists fl, map fst fl = map fst segs /\ List.Forall (flat_ok 40) fl /\ flat_chords fl = map fst (concat ls).
Proof.
  intros Hd Hg HF. induction HF as [| [s o] l segs ls Hs HF IH].
  - exists []. repeat split. constructor.
  - cbn [map fst] in Hg. apply List.Forall_cons_iff in Hg. destruct Hg as [Hg1 Hg].
    destruct (IH Hg) as (fl & E1 & E2 & E3).
    destruct (seg_flatten_flat_ok cap s o d l Hd Hg1 Hs) as (ts & Hok & Ech).
    exists ((s, ts) :: fl). split; [cbn [map fst]; rewrite E1; reflexivity|]. split; [constructor; assumption|].
    cbn [concat]. rewrite map_app, <- E3, Ech. reflexivity.
Qed.

(* C10, path level: a closed chain of lines, gentle quadratics and gentle cubics (each at most 70000 long), every segment flattened by
   the model's own flattener with a step d <= 8 (Python's default is 8): the shoelace value of ALL the returned edges differs from the
   exact Green area  - sum X_area  by at most 10 x (total exact arc length). *)
Theorem flattened_path_signed_area_error cap d (segs : list (segment R * option (segment R)))
    (ls : list (list (seg2 R * option (segment R)))) :
  0 < d <= 8 -> List.Forall gentle_seg (map fst segs) -> closed_seg_chain (map fst segs) ->
  List.Forall2 (fun s l => seg_flatten ROps cap s d = Ok l) segs ls ->
  Rabs (signed_area_lines ROps (map fst (concat ls)) - (- sum_seg_areas (map fst segs))) <= 10 * total_length (map fst segs).
Proof.
  intros Hd Hg Hc HF. destruct (path_flatten_flat_ok cap d segs ls Hd Hg HF) as (fl & E1 & Hok & E3).
  rewrite <- E3, <- E1. apply (flattened_signed_area_within_10_length 40); [lra | exact Hok | rewrite E1; exact Hc].
Qed.
(* the same about BezierPath.flatten *)
Theorem path_flatten_signed_area_error cap d (segs : list (segment R * option (segment R))) closed es cl :
  0 < d <= 8 -> List.Forall gentle_seg (map fst segs) -> closed_seg_chain (map fst segs) ->
  path_flatten ROps cap segs closed d = Ok (es, cl) ->
  Rabs (signed_area_lines ROps (map fst es) - (- sum_seg_areas (map fst segs))) <= 10 * total_length (map fst segs).
Proof.
  intros Hd Hg Hc H. destruct (path_flatten_concat cap segs closed d es cl H) as (_ & ls & HF & ->).
  exact (flattened_path_signed_area_error cap d segs ls Hd Hg Hc HF).
Qed.

(* ================================================================================================== *)
(* Non-vacuity                                                                                        *)
(* ================================================================================================== *)
Lemma path_flatten_two cap (s1 s2 : segment R * option (segment R)) cl d l1 l2 :
  seg_flatten ROps cap s1 d = Ok l1 -> seg_flatten ROps cap s2 d = Ok l2 ->
  path_flatten ROps cap [s1; s2] cl d = Ok (l1 ++ l2, cl).
Proof.
  intros H1 H2. unfold path_flatten. cbn [mapM]. rewrite H1, H2. cbn [bind concat]. rewrite app_nil_r. reflexivity.
Qed.
Lemma INR_64 : INR 64 = 64.
Proof. rewrite INR_IZR_INZ. reflexivity. Qed.
Lemma INR_256 : INR 256 = 256.
Proof. rewrite INR_IZR_INZ. reflexivity. Qed.
Lemma base_line_length : Line_length ROps (L2 (P 100 0) (P 0 0)) = 100.
Proof.
  unfold Line_length. rewrite distanceFrom_norm2. cbn [px py l0 l1]. unfold norm2.
  replace ((0 - 100) * (0 - 100) + (0 - 0) * (0 - 0)) with (100 * 100) by ring. apply sqrt_square. lra.
Qed.

(* (a) the D-shape of Proofs/C10flat.v: the arch (0,0)(0,100)(100,100)(100,0) (gentle: speed between 150 and 300, arc length 200) closed by
   the straight line back; exact Green area -6000, total length 300.  BezierPath.flatten at the default step succeeds and its shoelace
   value is within 10 x 300 of -6000. *)
Definition dpath : list (segment R * option (segment R)) :=
  [(SCubic (C10flat.arch 100), None); (SLine (L2 (P 100 0) (P 0 0)), None)].
Lemma dpath_gentle : List.Forall gentle_seg (map fst dpath).
Proof.
  repeat constructor. cbn [fst gentle_seg]. exists 150, 300. split; [lra|]. split; [|split; [lra|]].
  - intros u Hu. destruct (arch_gentle 100 ltac:(lra) u Hu). lra.
  - rewrite arch_arclen by lra. lra.
Qed.
Lemma dpath_closed : closed_seg_chain (map fst dpath).
Proof. simpl. repeat split. Qed.
Lemma dpath_values : - sum_seg_areas (map fst dpath) = -6000 /\ total_length (map fst dpath) = 300.
Proof.
  split.
  - unfold dpath, C10flat.arch. rcbv. field.
  - unfold dpath. cbn [map fst total_length C10flat.seg_length seg_arclen]. rewrite arch_arclen, base_line_length by lra. lra.
Qed.
Example dpath_flatten_area :
  exists es, path_flatten ROps 256 dpath true 8 = Ok (es, true) /\
    Rabs (signed_area_lines ROps (map fst es) - (-6000)) <= 10 * 300.
Proof.
  set (c := C10flat.arch 100).
  assert (G : forall u, 0 <= u <= 1 -> 150 <= cubic_speed c u <= 300).
  { intros u Hu. destruct (arch_gentle 100 ltac:(lra) u Hu). unfold c. lra. }
  assert (EL : cubic_arclen c 0 1 = 200) by (unfold c; rewrite arch_arclen by lra; lra).
  pose proof (gentle_len_bounds c 150 300 ltac:(lra) G ltac:(lra)) as [Hlo Hhi]. rewrite EL in Hlo, Hhi.
  destruct (proj1 (flatten_no_raise 256 8 ltac:(lra)) c) as [es1 He]; [rewrite INR_256; lra | rewrite INR_256; lra |].
  exists (es1 ++ [(L2 (P 100 0) (P 0 0), None)]).
  assert (Hp : path_flatten ROps 256 dpath true 8 = Ok (es1 ++ [(L2 (P 100 0) (P 0 0), None)], true)).
  { unfold dpath. apply path_flatten_two; [exact He | reflexivity]. }
  split; [exact Hp|].
  pose proof (path_flatten_signed_area_error 256 8 dpath true _ _ ltac:(lra) dpath_gentle dpath_closed Hp) as B.
  destruct dpath_values as [E1 E2]. rewrite E1, E2 in B. exact B.
Qed.

(* (b) a quadratic: the parabola arch (0,0)(50,50)(100,0) has velocity (100, 100 (1 - 2t)), speed between 100 and 142 (gentle), Green
   area term 5000/3.  QuadraticBezier.flatten at the default step succeeds, misses the area by at most 4.002 x (arc length) and returns
   more than length / 8 (> length / 16) edges; the path closed by the straight line back flattens within 10 x (total length). *)
Definition qarch : seg3 R := Q3 (P 0 0) (P 50 50) (P 100 0).
Lemma qarch_gentle u : 0 <= u <= 1 -> 100 <= quad_speed qarch u <= 142.
Proof.
  intro Hu. unfold quad_speed, norm2.
  replace (quad_dx qarch u * quad_dx qarch u + quad_dy qarch u * quad_dy qarch u)
    with (10000 * (1 + (1 - 2 * u) * (1 - 2 * u))) by (unfold quad_dx, quad_dy, qarch; rcbv; ring).
  assert (Hw : 0 <= (1 - 2 * u) * (1 - 2 * u) <= 1).
  { pose proof (Rle_0_sqr (1 - 2 * u)) as S1. unfold Rsqr in S1.
    assert (S2 : 0 <= u * (1 - u)) by (apply Rmult_le_pos; lra). split; lra. }
  set (w := (1 - 2 * u) * (1 - 2 * u)) in *. split.
  - rewrite <- (sqrt_square 100) at 1 by lra. apply sqrt_le_1; nra.
  - rewrite <- (sqrt_square 142) by lra. apply sqrt_le_1; nra.
Qed.
Lemma qarch_lengths : 100 <= quad_arclen qarch 0 1 <= 142 /\ 99 <= Quad_length ROps qarch <= 143.
Proof.
  pose proof (gentleq_arclen_bounds qarch 100 142 qarch_gentle 0 1 ltac:(lra) ltac:(lra)) as HL.
  pose proof (gentleq_len_bounds qarch 100 142 ltac:(lra) qarch_gentle ltac:(lra)) as Hl. lra.
Qed.
Example qarch_flatten_gentle :
  exists es, Quad_flatten ROps 64 qarch 8 = Ok es /\
    Rabs (Quad_area ROps qarch - sum_line_areas (map fst es)) <= 4002 / 1000 * quad_arclen qarch 0 1 /\
    Quad_length ROps qarch / 8 < INR (length es) /\ Quad_length ROps qarch / (2 * 8) < INR (length es).
Proof.
  destruct qarch_lengths as [HL Hl].
  destruct (proj2 (flatten_no_raise 64 8 ltac:(lra)) qarch) as [es He]; [rewrite INR_64; lra|].
  exists es. split; [exact He|]. split; [|split].
  - pose proof (gentle_quad_flatten_area_error qarch 100 142 ltac:(lra) qarch_gentle ltac:(lra) 64 8 es ltac:(lra) He) as B. lra.
  - apply (quad_flatten_edge_count_exact 64 qarch 8 es ltac:(lra) ltac:(lra) He).
  - apply (quad_flatten_edge_count 64 qarch 8 es ltac:(lra) ltac:(lra) He).
Qed.
Definition qpath : list (segment R * option (segment R)) :=
  [(SQuad qarch, None); (SLine (L2 (P 100 0) (P 0 0)), None)].
Example qpath_flatten_area :
  exists es, path_flatten ROps 64 qpath true 8 = Ok (es, true) /\
    Rabs (signed_area_lines ROps (map fst es) - (- (5000 / 3))) <= 10 * (quad_arclen qarch 0 1 + 100).
Proof.
  destruct qarch_lengths as [HL Hl].
  destruct (proj2 (flatten_no_raise 64 8 ltac:(lra)) qarch) as [es1 He]; [rewrite INR_64; lra|].
  exists (es1 ++ [(L2 (P 100 0) (P 0 0), None)]).
  assert (Hp : path_flatten ROps 64 qpath true 8 = Ok (es1 ++ [(L2 (P 100 0) (P 0 0), None)], true)).
  { unfold qpath. apply path_flatten_two; [exact He | reflexivity]. }
  split; [exact Hp|].
  assert (Hg : List.Forall gentle_seg (map fst qpath)).
  { repeat constructor. cbn [fst gentle_seg]. exists 100, 142. split; [lra|]. split; [exact qarch_gentle | lra]. }
  assert (Hc : closed_seg_chain (map fst qpath)) by (simpl; repeat split).
  pose proof (path_flatten_signed_area_error 64 8 qpath true _ _ ltac:(lra) Hg Hc Hp) as B.
  assert (E1 : - sum_seg_areas (map fst qpath) = - (5000 / 3)) by (unfold qpath, qarch; rcbv; field).
  assert (E2 : total_length (map fst qpath) = quad_arclen qarch 0 1 + 100).
  { unfold qpath. cbn [map fst total_length C10flat.seg_length seg_arclen]. rewrite base_line_length. lra. }
  rewrite E1, E2 in B. exact B.
Qed.

Print Assumptions quad_flatten_edge_count_exact.
Print Assumptions quad_flatten_edge_count.
Print Assumptions gentle_quad_flatten_fine.
Print Assumptions gentle_quad_flatten_area_error.
Print Assumptions flattened_path_signed_area_error.
Print Assumptions path_flatten_signed_area_error.
Print Assumptions dpath_flatten_area.
Print Assumptions qarch_flatten_gentle.
Print Assumptions qpath_flatten_area.
