(* C10, the flattening-error clause tied to the MODEL OF THE FLATTENERS (Hand/Sample.v: Cubic_flatten / Quad_flatten, proved equal to the
   definitions regenerated from cubicbezier.py / quadraticbezier.py by Proofs/Bridge2.v).

   Proofs/C10flat.v proves, for any partition of [0,1] whose pieces have arc length <= D, that the chords miss the exact area integral of
   the curve by at most D/4 * (arc length).  Proofs/C17.v (curve_flatten_spec) proves that the edges the flatteners return form a chain whose
   vertex list is the curve evaluated at a parameter list from 0 to 1.  Here the two are joined: the edges returned by a successful
   Cubic_flatten / Quad_flatten ARE the chords of that parameter list, hence

       | X_area s - sum of the Line_area of the returned edges |  <=  D/4 * arc length of s

   whenever the pieces between consecutive cut parameters have arc length at most D.  (That the cuts of regularSample are about `degree`
   of arc length apart rests on the accuracy of the 24-point quadrature -- C04's unproved clause -- and stays a hypothesis; with D <= 40
   the bound is the property's 10 x length.) *)
From Coq Require Import Reals Lra List Bool.
Import ListNotations.
From Coquelicot Require Import Coquelicot.
From BZ Require Import Base.Ops Gen.Point Gen.Line Gen.Quad Gen.Cubic Hand.Shoelace Hand.Sample Proofs.C04 Proofs.C10 Proofs.C16 Proofs.C17 Proofs.C10flat.
Open Scope R_scope.

(* a chain of straight edges whose vertex list is g evaluated at t0 :: ts is the list of chords of that parameter list *)
Lemma chain_vertices_chords (g : R -> pt R) : forall (ts : list R) (t0 : R) (ls : list (seg2 R)) (q : pt R),
  chain_from (g t0) ls q -> vertices (g t0) ls = map g (t0 :: ts) -> ls = chords_from g t0 ts.
Proof.
  induction ts as [| t1 r IH]; intros t0 ls q Hc Hv.
  - destruct ls as [| l ls]; [reflexivity |]. unfold vertices in Hv. cbn [map] in Hv. discriminate.
  - destruct ls as [| l ls]; [unfold vertices in Hv; cbn [map] in Hv; discriminate |].
    cbn [chain_from] in Hc. destruct Hc as [H0 Hc].
    unfold vertices in Hv. cbn [map] in Hv. injection Hv as H1 Hr.
    cbn [chords_from]. f_equal.
    + destruct l as [a b]. cbn [l0 l1] in H0, H1. subst a b. reflexivity.
    + apply (IH t1 ls q).
      * rewrite <- H1. exact Hc.
      * unfold vertices. cbn [map]. rewrite <- H1. f_equal. exact Hr.
Qed.

Lemma param_list_head (ts : list R) : param_list ts -> exists r, ts = 0 :: r.
Proof. intro H. destruct (param_list_two ts H) as (r & -> & _). exists r. reflexivity. Qed.

Theorem cubic_flatten_edges_are_chords cap (c : seg4 R) d es : 0 < d -> Cubic_flatten ROps cap c d = Ok es ->
  exists ts, param_list ts /\ map fst es = chords_of (Cubic_pointAtTime ROps c) ts.
Proof.
  intros Hd He. destruct (curve_flatten_spec cap d Hd) as [HC _].
  destruct (HC c es He) as (Hch & _ & _ & ts & Hp & Hv & _).
  exists ts. split; [exact Hp |].
  destruct (param_list_head ts Hp) as (r & ->). cbn [chords_of].
  assert (E0 : c0 c = Cubic_pointAtTime ROps c 0).
  { unfold vertices in Hv. cbn [map] in Hv. injection Hv as E _. exact E. }
  apply (chain_vertices_chords (Cubic_pointAtTime ROps c) r 0 (map fst es) (c3 c)).
  - rewrite <- E0. exact Hch.
  - rewrite <- E0. exact Hv.
Qed.
Theorem quad_flatten_edges_are_chords cap (q : seg3 R) d es : 0 < d -> Quad_flatten ROps cap q d = Ok es ->
  exists ts, param_list ts /\ map fst es = chords_of (Quad_pointAtTime ROps q) ts.
Proof.
  intros Hd He. destruct (curve_flatten_spec cap d Hd) as [_ HQ].
  destruct (HQ q es He) as (Hch & _ & _ & ts & Hp & Hv & _).
  exists ts. split; [exact Hp |].
  destruct (param_list_head ts Hp) as (r & ->). cbn [chords_of].
  assert (E0 : q0 q = Quad_pointAtTime ROps q 0).
  { unfold vertices in Hv. cbn [map] in Hv. injection Hv as E _. exact E. }
  apply (chain_vertices_chords (Quad_pointAtTime ROps q) r 0 (map fst es) (q2 q)).
  - rewrite <- E0. exact Hch.
  - rewrite <- E0. exact Hv.
Qed.

(* the flattening error of what the flatteners return *)
Theorem cubic_flatten_area_error cap (c : seg4 R) d es : 0 < d -> Cubic_flatten ROps cap c d = Ok es ->
  exists ts, param_list ts /\ map fst es = chords_of (Cubic_pointAtTime ROps c) ts /\
    forall D, fine_partition_01 (cubic_arclen c) D ts ->
      Rabs (Cubic_area ROps c - sum_line_areas (map fst es)) <= D / 4 * cubic_arclen c 0 1.
Proof.
  intros Hd He. destruct (cubic_flatten_edges_are_chords cap c d es Hd He) as (ts & Hp & E).
  exists ts. split; [exact Hp | split; [exact E |]]. intros D HF. rewrite E. apply cubic_flatten_error_list. exact HF.
Qed.
Theorem quad_flatten_area_error cap (q : seg3 R) d es : 0 < d -> Quad_flatten ROps cap q d = Ok es ->
  exists ts, param_list ts /\ map fst es = chords_of (Quad_pointAtTime ROps q) ts /\
    forall D, fine_partition_01 (quad_arclen q) D ts ->
      Rabs (Quad_area ROps q - sum_line_areas (map fst es)) <= D / 4 * quad_arclen q 0 1.
Proof.
  intros Hd He. destruct (quad_flatten_edges_are_chords cap q d es Hd He) as (ts & Hp & E).
  exists ts. split; [exact Hp | split; [exact E |]]. intros D HF. rewrite E. apply quad_flatten_error_list. exact HF.
Qed.

(* a curve shorter than the step becomes its bare chord: the error is then at most (arc length)^2 / 4 whatever the step *)
Theorem cubic_short_chord_area_error cap (c : seg4 R) d : 0 < d -> Cubic_length ROps c < d ->
  exists es, Cubic_flatten ROps cap c d = Ok es /\ map fst es = (L2 (c0 c) (c3 c) :: nil) /\
    Rabs (Cubic_area ROps c - sum_line_areas (map fst es)) <= cubic_arclen c 0 1 * cubic_arclen c 0 1 / 4.
Proof.
  intros Hd Hs. destruct (short_chord_and_line_identity cap d Hd) as (HC & _ & _).
  exists ((L2 (c0 c) (c3 c), Some (SCubic c)) :: nil). split; [exact (HC c Hs) | split; [reflexivity |]].
  cbn [map fst sum_line_areas]. rewrite Rplus_0_r.
  pose proof (cubic_arc_chord_area_bound c 0 1 ltac:(lra)) as B.
  assert (E0 : Cubic_pointAtTime ROps c 0 = c0 c) by (destruct c as [[] [] [] []]; unfold Cubic_pointAtTime; cbn; f_equal; ring).
  assert (E1 : Cubic_pointAtTime ROps c 1 = c3 c) by (destruct c as [[] [] [] []]; unfold Cubic_pointAtTime; cbn; f_equal; ring).
  unfold cubic_chord in B. rewrite E0, E1 in B.
  rewrite <- (cubic_ydx_area c). exact B.
Qed.
