(* Bridge, sixth round: the curve fitter.  utils/curvefitter.py is REGENERATED as a whole by tools/py2v.py (Gen/Fit.v: fitLine, the tangent
   estimators, estimateLengths, generateBezier, newtonRaphsonFind, reparameterize, computeMaxError, the recursion _fitCurve and the entry
   point fitCurve, written with CHECKED arithmetic -- ZeroDivisionError / ValueError / IndexError / TypeError are values of [outcome]);
   Hand/Fit.v is the hand model (a recursion skeleton over an abstract numeric core, the numeric core, an event log).

   Every lemma below is stated for EVERY scalar carrier [O : Ops T].  The numeric core is bridged function by function as an equation

       <generated f> O [fuel] args = <the hand model's f O args, its None read as the exception the hand model's comment names>

   (leftTangent_gen, rightTangent_gen, estimateLengths_gen, generateBezier_gen, newton_gen, reparameterize_gen, computeMaxError_gen, ..);
   then the recursion: [fitCurve_inner_gen] / [fitCurve_gen] state that the RESULT component of the hand model (the [pyres (seg4 T)]: None, a
   list of cubics or an exception; the event log has no counterpart in the code and is projected away) is the result of the generated
   definition,

       pyres_of (CurveFit__fitCurve O fuel depth points t1 t2 error cT maxSegments) = Some (fst (fitCurve_inner O depth points t1 t2 error cT maxSegments))

   whenever the hand model did not run out of fuel (its result is not [RRaise OutOfFuel]) and the loop budget [fuel] of the generated
   definition suffices: 10 <= fuel (the hand model runs the Newton loop on the constant 10) and length points <= fuel (the tangent
   estimators walk the data).  [pyres_of] reads the generated [option (outcome (option (list _)))] as a [pyres]: None is OutOfFuel, the four
   modelled exceptions are the hand model's; the other constructors of [pyexc] have NO image (so the theorem also says they do not occur).

   Two closed facts about the carrier are hypotheses of the Section (and are discharged for the reals and for binary64 at the end:
   fitCurve_gen_R, fitCurve_gen_F, ..):
     H98 : lit O 98 100 f = lit O 49 50 f   -- the hand model writes the literal 0.98 as 98/100, the translator as the reduced fraction;
     H00 : eqb O (ofZ O 0) (ofZ O 0) = true -- `0.0 / 0` raises: chordLengthParameterize of a single point is ZeroDivisionError in both
           (without it the hand model's rightTangent, "modelled for len(data) >= 3", would be consulted on one point).

   The second part of the file (Module ClipBridge, at the end) bridges the Boolean-operation glue (Gen/Clip.v against Hand/Clip.v): see its header. *)
From Coq Require Import PrimFloat.
From Coq Require Import ZArith List Bool Lia.
Import ListNotations.
From BZ Require Import Base.Ops Gen.Point Gen.Line Gen.Quad Gen.Cubic Gen.Sample Gen.Nodelist Gen.MinDist Gen.Fit.
From BZ Require Import Hand.Fit Proofs.Bridge.

(* ---------- reading the generated results ---------- *)
Definition exn_of (e : pyexc) : option exn :=
  match e with
  | PyIndexError => Some IndexError | PyValueError => Some ValueError
  | PyZeroDivisionError => Some ZeroDivisionError | PyTypeError => Some TypeError
  | _ => None
  end.
Definition pyres_of {A : Type} (r : option (outcome (option (list A)))) : option (pyres A) :=
  match r with
  | None => Some (RRaise OutOfFuel)
  | Some (Returns None) => Some RNone
  | Some (Returns (Some l)) => Some (RList l)
  | Some (Raises e) => match exn_of e with Some x => Some (RRaise x) | None => None end
  end.
(* the hand model's [option]: None is the exception named in its comment *)
Definition ox {A : Type} (e : pyexc) (o : option A) : outcome A := match o with Some a => Returns a | None => Raises e end.

(* ---------- lists ---------- *)
Lemma last_error_last {A : Type} (a : A) (l : list A) : last_error (a :: l) = Some (last (a :: l) a).
Proof.
  revert a. induction l as [|b l IH]; intro a; [reflexivity|].
  change (last_error (a :: b :: l)) with (last_error (b :: l)). rewrite IH.
  change (last (a :: b :: l) a) with (last (b :: l) a). f_equal.
  clear. revert b. induction l as [|c l IH]; intro b; [reflexivity|].
  change (last (b :: c :: l) b) with (last (c :: l) b). change (last (b :: c :: l) a) with (last (c :: l) a).
  destruct l as [|d l]; [reflexivity|]. change (last (c :: d :: l) b) with (last (d :: l) b). change (last (c :: d :: l) a) with (last (d :: l) a).
  clear IH. revert d. induction l as [|e l IH]; intro d; [reflexivity|]. exact (IH e).
Qed.
Lemma last_error_app1 {A : Type} (l : list A) (x : A) : last_error (l ++ [x]) = Some x.
Proof. induction l as [|a l IH]; [reflexivity|]. cbn [app]. destruct (l ++ [x]) eqn:E; [destruct l; discriminate|]. exact IH. Qed.
Lemma last_error_None {A : Type} (l : list A) : last_error l = None -> l = [].
Proof. destruct l as [|a l]; [reflexivity|]. rewrite last_error_last. discriminate. Qed.
Lemma py_index_Z_nat {A : Type} (l : list A) (i : nat) : py_index_Z l (Z.of_nat i) = nth_error l i.
Proof. unfold py_index_Z. assert (E : (Z.of_nat i <? 0)%Z = false) by (apply Z.ltb_ge; lia). rewrite E, Nat2Z.id. reflexivity. Qed.
Lemma nth_error_rev {A : Type} (l : list A) (j : nat) : (j < length l)%nat -> nth_error (rev l) j = nth_error l (length l - 1 - j).
Proof.
  intro H. destruct (nth_error l (length l - 1 - j)) eqn:E.
  - apply nth_error_nth with (d := a) in E. rewrite <- E.
    rewrite (nth_error_nth' (rev l) a) by (rewrite rev_length; exact H). f_equal.
    rewrite rev_nth by exact H. f_equal. lia.
  - apply nth_error_None in E. lia.
Qed.
Lemma py_index_Z_py_nth {A : Type} (l : list A) (k : Z) : py_index_Z l k = py_nth l k.
Proof.
  unfold py_index_Z, py_nth. destruct (Z.ltb_spec k 0) as [Hk|Hk].
  - destruct (Z.ltb_spec (k + Z.of_nat (length l)) 0) as [H1|H1]; cbn [orb].
    + apply nth_error_None. rewrite rev_length. lia.
    + destruct (Z.leb_spec (Z.of_nat (length l)) (k + Z.of_nat (length l))) as [H2|H2]; [lia|].
      rewrite nth_error_rev by lia. f_equal. lia.
  - destruct (Z.ltb_spec k 0) as [H1|H1]; [lia|]. cbn [orb].
    destruct (Z.leb_spec (Z.of_nat (length l)) k) as [H2|H2]; [|reflexivity].
    apply nth_error_None. lia.
Qed.
Lemma py_slice_to_Z_slice {A : Type} (l : list A) (k : Z) : py_slice_to_Z l k = slice_to l k.
Proof.
  unfold py_slice_to_Z, slice_to, norm_idx. destruct (Z.ltb_spec k 0) as [Hk|Hk].
  - f_equal. lia.
  - destruct (Z.le_gt_cases k (Z.of_nat (length l))) as [H|H].
    + rewrite Z.min_l by lia. reflexivity.
    + rewrite Z.min_r by lia. rewrite Nat2Z.id. rewrite firstn_all. apply firstn_all2. lia.
Qed.
Lemma py_slice_from_Z_slice {A : Type} (l : list A) (k : Z) : py_slice_from_Z l k = slice_from l k.
Proof.
  unfold py_slice_from_Z, slice_from, norm_idx. destruct (Z.ltb_spec k 0) as [Hk|Hk].
  - f_equal. lia.
  - destruct (Z.le_gt_cases k (Z.of_nat (length l))) as [H|H].
    + rewrite Z.min_l by lia. reflexivity.
    + rewrite Z.min_r by lia. rewrite Nat2Z.id. rewrite skipn_all. apply skipn_all2. lia.
Qed.
Lemma slice_to_length {A : Type} (l : list A) (k : Z) : (length (slice_to l k) <= length l)%nat.
Proof. unfold slice_to. rewrite firstn_length. lia. Qed.
Lemma slice_from_length {A : Type} (l : list A) (k : Z) : (length (slice_from l k) <= length l)%nat.
Proof. unfold slice_from. rewrite skipn_length. lia. Qed.

(* folds that cannot fail *)
Lemma fold_outcome_returns {A B : Type} (f : A -> B -> outcome A) (g : A -> B -> A) (l : list B) :
  (forall a b, f a b = Returns (g a b)) -> forall a, fold_outcome f l a = Returns (fold_left g l a).
Proof. intro H. induction l as [|b l IH]; intro a; [reflexivity|]. cbn [fold_outcome fold_left]. rewrite H. apply IH. Qed.
Lemma map_outcome_const_test {A B : Type} (c : bool) (e : pyexc) (f : A -> B) (l : list A) :
  map_outcome (fun n => if c then Raises e else Returns (f n)) l = if c then (match l with [] => Returns [] | _ => Raises e end) else Returns (map f l).
Proof. destruct c; [destruct l; reflexivity|]. induction l as [|a l IH]; [reflexivity|]. cbn [map_outcome map]. rewrite IH. reflexivity. Qed.

Section FitBridge6.
Context {T : Type} (O : Ops T).

(* ====================================================================================================== *)
(* the two definitions of the first round, translated once more with checked division                      *)
Lemma computeHook_zd_gen (ffrom to : pt T) (parameter : T) (bez : seg4 T) (cT : T) :
  CurveFit_computeHook_zd O ffrom to parameter bez cT = ox PyZeroDivisionError (computeHook O ffrom to parameter bez cT).
Proof.
  unfold CurveFit_computeHook_zd, computeHook. cbv zeta. destruct (ltb O _ cT); [reflexivity|].
  destruct (eqb O _ (ofZ O 0)); reflexivity.
Qed.

Lemma chordLengthParameterize_zd_gen (points : list (pt T)) :
  CurveFit_chordLengthParameterize_zd O points = ox PyZeroDivisionError (chordLengthParameterize O points).
Proof.
  unfold CurveFit_chordLengthParameterize_zd, chordLengthParameterize. cbv zeta.
  destruct points as [|p0 rest].
  - cbn [tl combine fold_left last]. rewrite map_outcome_const_test. destruct (eqb O (ofZ O 0) (ofZ O 0)); reflexivity.
  - cbn [tl]. rewrite (chord_fold O rest p0 (ofZ O 0) [lit O 0 1 0x0.0p+0%float]).
    rewrite map_outcome_const_test. cbn [app]. destruct (eqb O _ (ofZ O 0)); reflexivity.
Qed.

Lemma cumdist_length (rest : list (pt T)) : forall prev v, length (cumdist O prev v rest) = length rest.
Proof. induction rest as [|p r IH]; intros prev v; [reflexivity|]. cbn [cumdist length]. cbv zeta. cbn [length]. rewrite IH. reflexivity. Qed.
Lemma chordLengthParameterize_length (points : list (pt T)) (u : list T) :
  chordLengthParameterize O points = Some u -> points <> [] -> length u = length points.
Proof.
  unfold chordLengthParameterize. cbv zeta. destruct points as [|p0 rest]; [intros _ H; contradiction H; reflexivity|].
  destruct (eqb O _ _); [discriminate|]. intros H _. injection H as <-. cbn [length]. rewrite map_length, cumdist_length. reflexivity.
Qed.
Lemma chordLengthParameterize_nonempty (points : list (pt T)) (u : list T) : chordLengthParameterize O points = Some u -> u <> [].
Proof. unfold chordLengthParameterize. cbv zeta. destruct (eqb O _ _); [discriminate|]. intro H; injection H as <-. discriminate. Qed.

(* ====================================================================================================== *)
(* fitLine                                                                                                  *)
Lemma fitLine_gen (a b : pt T) (t1 t2 : option (pt T)) : CurveFit_fitLine O [a; b] t1 t2 = Returns (fitLine O a b t1 t2).
Proof. unfold CurveFit_fitLine, fitLine. cbn [last_error]. destruct t1, t2; reflexivity. Qed.

(* ====================================================================================================== *)
(* the tangent estimators: the generated loops index the data (py_index_Z, a Fixpoint on fuel), the hand   *)
(* model walks the list                                                                                     *)
Lemma skipn_cons_inv {A : Type} (l : list A) : forall (i : nat) (p : A) (r : list A),
  skipn i l = p :: r -> nth_error l i = Some p /\ skipn (S i) l = r /\ length l = (i + S (length r))%nat.
Proof.
  induction l as [|a l IH]; intros [|i] p r H; cbn [skipn] in H; try discriminate.
  - injection H as -> ->. repeat split; reflexivity.
  - destruct (IH i p r H) as (H1 & H2 & H3). cbn [nth_error length]. repeat split; [exact H1|exact H2|lia].
Qed.

Lemma matmul_dot (a b : pt T) : Point___matmul__ O a b = Point_dot O a b.
Proof. reflexivity. Qed.

Lemma leftTangent_loop_gen (d0 d1 : pt T) (r0 : list (pt T)) (tol : T) :
  forall (l : list (pt T)) (fuel i : nat), skipn i (d0 :: d1 :: r0) = l -> l <> [] -> (length l <= fuel)%nat ->
  CurveFit_leftTangent_loop1 O fuel (d0 :: d1 :: r0) tol (Z.of_nat i) = Some (ox PyIndexError (leftTangent_loop O d0 d1 tol l)).
Proof.
  induction l as [|p r IH]; intros fuel i Hs Hne Hf; [contradiction Hne; reflexivity|].
  destruct fuel as [|fuel]; [cbn [length] in Hf; lia|].
  destruct (skipn_cons_inv _ _ _ _ Hs) as (Hn & Hs' & Hl).
  cbn [CurveFit_leftTangent_loop1]. rewrite py_index_Z_nat, Hn. cbv zeta. rewrite matmul_dot.
  cbn [leftTangent_loop]. cbv zeta.
  destruct (ltb O tol _); [reflexivity|].
  destruct r as [|q r'].
  - replace (Z.of_nat i + 1 =? Z.of_nat (length (d0 :: d1 :: r0)))%Z with true by (symmetry; apply Z.eqb_eq; rewrite Hl; cbn [length]; lia).
    destruct (eqb O _ (ofZ O 0)); reflexivity.
  - replace (Z.of_nat i + 1 =? Z.of_nat (length (d0 :: d1 :: r0)))%Z with false by (symmetry; apply Z.eqb_neq; rewrite Hl; cbn [length]; lia).
    replace (Z.of_nat i + 1)%Z with (Z.of_nat (S i)) by lia.
    apply IH; [exact Hs'|discriminate|cbn [length] in Hf |- *; lia].
Qed.

Lemma leftTangent_gen (fuel : nat) (data : list (pt T)) (tol : T) : (1 <= fuel)%nat -> (length data <= fuel)%nat ->
  CurveFit_leftTangent O fuel data tol = Some (ox PyIndexError (leftTangent O data tol)).
Proof.
  intros H1 Hf. unfold CurveFit_leftTangent, leftTangent.
  destruct data as [|d0 [|d1 r0]].
  - destruct fuel; [lia|]. reflexivity.
  - destruct fuel; [lia|]. reflexivity.
  - apply (leftTangent_loop_gen d0 d1 r0 tol (d1 :: r0) fuel 1); [reflexivity|discriminate|cbn [length] in Hf |- *; lia].
Qed.

Lemma nth_error_firstn_last {A : Type} (X : list A) : forall k x, nth_error X k = Some x -> firstn (S k) X = firstn k X ++ [x].
Proof.
  induction X as [|a X IH]; intros [|k] x H; cbn [nth_error] in H; try discriminate.
  - injection H as ->. reflexivity.
  - cbn [firstn app]. f_equal. change (firstn (S k) X = firstn k X ++ [x]). apply IH, H.
Qed.

Lemma rightTangent_loop_gen (d0 dl dm : pt T) (X : list (pt T)) (tol : T) :
  py_index_Z (d0 :: X ++ [dl]) (-2) = Some dm ->
  forall (i fuel : nat), (1 <= i)%nat -> (i <= length X)%nat -> (i <= fuel)%nat ->
  CurveFit_rightTangent_loop1 O fuel (d0 :: X ++ [dl]) tol (Z.of_nat i) = Some (ox PyIndexError (rightTangent_loop O dl dm tol (rev (firstn i X)))).
Proof.
  intros Hm. induction i as [|k IH]; intros fuel H1 H2 Hf; [lia|].
  destruct fuel as [|fuel]; [lia|].
  destruct (nth_error X k) as [p|] eqn:Hp; [|apply nth_error_None in Hp; lia].
  rewrite (nth_error_firstn_last X k p Hp), rev_app_distr. cbn [rev app].
  cbn [CurveFit_rightTangent_loop1]. rewrite py_index_Z_nat. cbn [nth_error].
  rewrite nth_error_app1 by lia. rewrite Hp.
  change (d0 :: X ++ [dl]) with ((d0 :: X) ++ [dl]). rewrite last_error_app1. cbv zeta. rewrite matmul_dot.
  cbn [rightTangent_loop]. cbv zeta.
  destruct (ltb O tol _); [reflexivity|].
  destruct k as [|k'].
  - cbn [firstn rev]. change (Z.of_nat 1 - 1 =? 0)%Z with true. cbv iota.
    unfold CurveFit__rightTangent. rewrite last_error_app1. change ((d0 :: X) ++ [dl]) with (d0 :: X ++ [dl]). rewrite Hm.
    destruct (eqb O _ (ofZ O 0)); reflexivity.
  - replace (Z.of_nat (S (S k')) - 1 =? 0)%Z with false by (symmetry; apply Z.eqb_neq; lia).
    replace (Z.of_nat (S (S k')) - 1)%Z with (Z.of_nat (S k')) by lia.
    change ((d0 :: X) ++ [dl]) with (d0 :: X ++ [dl]).
    rewrite IH by lia.
    destruct (rev (firstn (S k') X)) eqn:E; [|reflexivity].
    exfalso. apply (f_equal (@length _)) in E. rewrite rev_length, firstn_length in E. cbn [length] in E. lia.
Qed.

Lemma list_ends {A : Type} (l : list A) : (3 <= length l)%nat -> exists d0 mid dm dl, l = d0 :: (mid ++ [dm]) ++ [dl].
Proof.
  intro H. destruct l as [|d0 l]; [cbn in H; lia|].
  destruct (exists_last (l := l)) as (l1 & dl & ->); [destruct l; [cbn in H; lia|discriminate]|].
  destruct (exists_last (l := l1)) as (mid & dm & ->); [destruct l1; [cbn in H; lia|discriminate]|].
  exists d0, mid, dm, dl. reflexivity.
Qed.

Lemma rightTangent_gen (fuel : nat) (data : list (pt T)) (tol : T) : (3 <= length data)%nat -> (length data <= fuel)%nat ->
  CurveFit_rightTangent O fuel data tol = Some (ox PyIndexError (rightTangent O data tol)).
Proof.
  intros H3 Hf. destruct (list_ends data H3) as (d0 & mid & dm & dl & ->).
  set (X := mid ++ [dm]) in *.
  assert (HX : length X = S (length mid)) by (unfold X; rewrite app_length; cbn; lia).
  assert (Hlen : length (d0 :: X ++ [dl]) = S (S (length X))) by (cbn [length]; rewrite app_length; cbn; lia).
  assert (Hrev : rev (d0 :: X ++ [dl]) = dl :: dm :: (rev mid ++ [d0])).
  { cbn [rev]. rewrite rev_app_distr. cbn [rev app]. unfold X. rewrite rev_app_distr. reflexivity. }
  assert (Hm : py_index_Z (d0 :: X ++ [dl]) (-2) = Some dm).
  { unfold py_index_Z. change (-2 <? 0)%Z with true. cbv iota. change (Z.to_nat (- -2 - 1)) with 1%nat. rewrite Hrev. reflexivity. }
  unfold CurveFit_rightTangent, rightTangent. cbv zeta. rewrite Hrev, Hlen.
  replace (Z.of_nat (S (S (length X))) - 2)%Z with (Z.of_nat (length X)) by lia.
  rewrite (rightTangent_loop_gen d0 dl dm X tol Hm (length X) fuel) by (rewrite ?Hlen in Hf; lia).
  rewrite firstn_all. unfold X. rewrite rev_app_distr. cbn [rev app].
  replace (removelast (dm :: rev mid ++ [d0])) with (dm :: rev mid); [reflexivity|].
  change (dm :: rev mid ++ [d0]) with ((dm :: rev mid) ++ [d0]). rewrite removelast_last. reflexivity.
Qed.

(* ====================================================================================================== *)
(* estimateLengths: the generated fold carries the list literals C (2 x 2) and X (2) as tuples and reads    *)
(* data[0] / data[-1] (IndexError) in every iteration; the hand model carries (C00, C01, C11, X0, X1)       *)
Lemma fold_outcome_sim {A A' B : Type} (R : A' -> A -> Prop) (f : A -> B -> outcome A) (g : A' -> B -> A') (l : list B) :
  (forall a' a b, R a' a -> exists a2, f a b = Returns a2 /\ R (g a' b) a2) ->
  forall a' a, R a' a -> exists a2, fold_outcome f l a = Returns a2 /\ R (fold_left g l a') a2.
Proof.
  intro step. induction l as [|b l IH]; intros a' a H; [exists a; split; [reflexivity|exact H]|].
  cbn [fold_outcome fold_left]. destruct (step a' a b H) as (a2 & E & H2). rewrite E. apply IH, H2.
Qed.

Definition el_rel (h : T * T * T * T * T) (g : ((T * T) * (T * T)) * (T * T)) : Prop :=
  let '(C00, C01, C11, X0, X1) := h in g = (((C00, C01), (C01, C11)), (X0, X1)).

Lemma estimateLengths_gen (d0 : pt T) (rest : list (pt T)) (u : list T) (tHat1 tHat2 : pt T) :
  CurveFit_estimateLengths O (d0 :: rest) u tHat1 tHat2
  = Returns (estimateLengths O (d0 :: rest) d0 (last (d0 :: rest) d0) u tHat1 tHat2).
Proof.
  unfold CurveFit_estimateLengths, estimateLengths. cbv zeta.
  rewrite !(last_error_last d0 rest). set (dl := last (d0 :: rest) d0).
  match goal with |- context [fold_outcome ?f (combine u (d0 :: rest)) ?a0] =>
    destruct (fold_outcome_sim el_rel f (el_step O d0 dl tHat1 tHat2) (combine u (d0 :: rest))) with (a' := (f0 O, f0 O, f0 O, f0 O, f0 O)) (a := a0) as (a2 & E & HR);
    [ intros [[[[C00 C01] C11] X0] X1] g [coeff datum] Hg; unfold el_rel in Hg; subst g; eexists; split; [reflexivity|];
      unfold el_rel, el_step; reflexivity
    | reflexivity
    | rewrite E ]
  end.
  destruct (fold_left _ _ _) as [[[[C00 C01] C11] X0] X1]. unfold el_rel in HR. subst a2.
  change (lit O 0 1 0x0.0p+0%float) with (f0 O).
  destruct (neqb O _ (f0 O)).
  - destruct (ltb O _ _ || ltb O _ _); reflexivity.
  - destruct (neqb O _ (ofZ O 0)); destruct (ltb O _ _ || ltb O _ _); reflexivity.
Qed.

(* ====================================================================================================== *)
(* generateBezier                                                                                           *)
Lemma generateBezier_gen (fuel : nat) (d0 : pt T) (rest : list (pt T)) (u : list T) (t1 t2 : option (pt T)) (tol : T) :
  (1 <= fuel)%nat -> (length (d0 :: rest) <= fuel)%nat -> (t2 = None -> 3 <= length (d0 :: rest))%nat ->
  CurveFit_generateBezier O fuel (d0 :: rest) u t1 t2 tol
  = Some (ox PyIndexError (generateBezier O (d0 :: rest) d0 (last (d0 :: rest) d0) u t1 t2 tol)).
Proof.
  intros H1 Hf H3. unfold CurveFit_generateBezier, generateBezier.
  destruct t1 as [z1|], t2 as [z2|].
  - rewrite estimateLengths_gen. reflexivity.
  - rewrite rightTangent_gen by auto. destruct (rightTangent O _ tol) as [r|]; [|reflexivity]. cbn [ox].
    rewrite estimateLengths_gen. reflexivity.
  - rewrite leftTangent_gen by auto. destruct (leftTangent O _ tol) as [l|]; [|reflexivity]. cbn [ox].
    rewrite estimateLengths_gen. cbv zeta. rewrite <- estimateBi_gen. rewrite estimateLengths_gen. reflexivity.
  - rewrite leftTangent_gen by auto. destruct (leftTangent O _ tol) as [l|]; [|reflexivity]. cbn [ox].
    rewrite rightTangent_gen by auto. destruct (rightTangent O _ tol) as [r|]; [|reflexivity]. cbn [ox].
    rewrite estimateLengths_gen. cbv zeta. rewrite <- estimateBi_gen. rewrite estimateLengths_gen. reflexivity.
Qed.

(* ====================================================================================================== *)
(* newtonRaphsonFind / reparameterize.  The hand model runs the `while True` loop on the constant fuel 10    *)
(* (its None is read as OutOfFuel by fit1_num); the generated loop runs on the caller's budget: where the     *)
(* hand model's loop ended, the generated one ends with the same value on any budget >= 10.                  *)
Hypothesis H98 : lit O 98 100 0x1.f5c28f5c28f5cp-1%float = lit O 49 50 0x1.f5c28f5c28f5cp-1%float.

Lemma nr_loop_gen : forall (fuel : nat) (bez : seg4 T) (point : pt T) (u dist2 prop imp : T),
  match CurveFit_newtonRaphsonFind_loop1 O fuel bez dist2 point u prop imp with None => None | Some (_, x) => Some x end
  = nr_loop O fuel bez point u dist2 prop imp.
Proof.
  induction fuel as [|fuel IH]; intros; [reflexivity|].
  cbn [CurveFit_newtonRaphsonFind_loop1 nr_loop]. cbv zeta.
  destruct (ltb O dist2 _); [|reflexivity].
  destruct (ltb O _ (add O prop _)); [reflexivity|]. apply IH.
Qed.

Lemma nr_loop_mono : forall (n m : nat) (bez : seg4 T) (point : pt T) (u dist2 prop imp x : T),
  nr_loop O n bez point u dist2 prop imp = Some x -> (n <= m)%nat -> nr_loop O m bez point u dist2 prop imp = Some x.
Proof.
  induction n as [|n IH]; intros m bez point u dist2 prop imp x H Hle; [discriminate|].
  destruct m as [|m]; [lia|]. cbn [nr_loop] in H |- *. cbv zeta in H |- *.
  destruct (ltb O dist2 _); [|exact H].
  destruct (ltb O _ (add O prop _)); [exact H|]. apply IH; [exact H|lia].
Qed.

Lemma newton_gen (fuel : nat) (bez : seg4 T) (p : pt T) (u x : T) : (10 <= fuel)%nat ->
  newtonRaphsonFind O bez p u = Some x -> CurveFit_newtonRaphsonFind O fuel bez p u = Some x.
Proof.
  intros Hf H. unfold newtonRaphsonFind in H. cbv zeta in H. rewrite H98 in H.
  apply nr_loop_mono with (m := fuel) in H; [|exact Hf].
  unfold CurveFit_newtonRaphsonFind. cbv zeta. rewrite !matmul_dot.
  rewrite <- nr_loop_gen in H.
  match type of H with match ?a with _ => _ end = _ => match goal with |- match ?b with _ => _ end = _ => change b with a end end.
  destruct (CurveFit_newtonRaphsonFind_loop1 O fuel _ _ _ _ _ _) as [[pr im]|]; [exact H|discriminate].
Qed.

Lemma reparameterize_gen (fuel : nat) (bez : seg4 T) : (10 <= fuel)%nat -> forall (points : list (pt T)) (params r : list T),
  reparameterize O bez points params = Some r -> CurveFit_reparameterize O fuel bez points params = Some (Returns r).
Proof.
  intro Hf. unfold CurveFit_reparameterize.
  assert (Z : forall points params r, reparameterize O bez points params = Some r ->
    zip_update_option_outcome (fun (a : pt T) (b : T) => match CurveFit_newtonRaphsonFind O fuel bez a b with None => None | Some x => Some (Returns x) end) points params = Some (Returns r)).
  { induction points as [|p ps IH]; intros params r H.
    - cbn in H. injection H as <-. destruct params; reflexivity.
    - destruct params as [|u us]; [discriminate|]. cbn [reparameterize] in H.
      destruct (newtonRaphsonFind O bez p u) as [u'|] eqn:E1; [|discriminate].
      destruct (reparameterize O bez ps us) as [r'|] eqn:E2; [|discriminate]. injection H as <-.
      cbn [zip_update_option_outcome]. rewrite (newton_gen fuel bez p u u' Hf E1). rewrite (IH us r' E2). reflexivity. }
  intros points params r H. rewrite (Z points params r H). reflexivity.
Qed.
Lemma reparameterize_length (bez : seg4 T) : forall (points : list (pt T)) (params r : list T),
  reparameterize O bez points params = Some r -> length r = length params.
Proof.
  induction points as [|p ps IH]; intros params r H.
  - cbn in H. injection H as <-. reflexivity.
  - destruct params as [|u us]; [discriminate|]. cbn [reparameterize] in H.
    destruct (newtonRaphsonFind O bez p u) as [u'|]; [|discriminate].
    destruct (reparameterize O bez ps us) as [r'|] eqn:E2; [|discriminate]. injection H as <-. cbn [length]. f_equal. apply (IH us r' E2).
Qed.

(* ====================================================================================================== *)
(* computeMaxError: the generated loop runs over range(1, len(points)) and indexes points / params           *)
(* (IndexError when params is the shorter list); the hand model walks the two lists in step                  *)
Definition gstate (st : @cme_state T) : T * Z * T * Z * pt T :=
  (cs_maxSq st, Z.of_nat (cs_split st), cs_maxHook st, Z.of_nat (cs_snap st), cs_prev st).
Definition cme_step (bez : seg4 T) (cT : T) (i : nat) (p : pt T) (u pprev : T) (st : @cme_state T) : option (@cme_state T) :=
  let cur := Cubic_pointAtTime O bez u in
  let distSq := Point_squareDistanceFrom O cur p in
  let '(maxSq, split) := if ltb O (cs_maxSq st) distSq then (distSq, i) else (cs_maxSq st, cs_split st) in
  match computeHook O (cs_prev st) cur (dvd O (add O u pprev) (f2 O)) bez cT with
  | None => None
  | Some hookRatio =>
    let '(maxHook, snap) := if ltb O (cs_maxHook st) hookRatio then (hookRatio, i) else (cs_maxHook st, cs_snap st) in
    Some (CS maxSq maxHook split snap cur)
  end.
Lemma cme_loop_step (bez : seg4 T) (cT : T) (i : nat) (p : pt T) (pts : list (pt T)) (u : T) (ps : list T) (pprev : T) (st : @cme_state T) :
  cme_loop O bez cT i (p :: pts) (u :: ps) pprev st
  = match cme_step bez cT i p u pprev st with None => None | Some st' => cme_loop O bez cT (S i) pts ps u st' end.
Proof.
  cbn [cme_loop]. unfold cme_step. cbv zeta.
  destruct (ltb O (cs_maxSq st) _); (destruct (computeHook O _ _ _ bez cT) as [h|]; [|reflexivity]);
    destruct (ltb O (cs_maxHook st) h); reflexivity.
Qed.

Lemma cme_fold (bez : seg4 T) (cT : T) (points : list (pt T)) (params : list T) (F : T * Z * T * Z * pt T -> Z -> outcome (T * Z * T * Z * pt T)) :
  (forall st i p u pprev, nth_error points i = Some p -> nth_error params i = Some u -> nth_error params (i - 1) = Some pprev -> (1 <= i)%nat ->
     F (gstate st) (Z.of_nat i) = match cme_step bez cT i p u pprev st with None => Raises PyZeroDivisionError | Some st' => Returns (gstate st') end) ->
  forall (m i : nat) (pts : list (pt T)) (ps : list T) (pprev : T) (st : @cme_state T),
    skipn i points = pts -> skipn i params = ps -> nth_error params (i - 1) = Some pprev -> (1 <= i)%nat -> length pts = m -> length ps = m ->
    fold_outcome F (map Z.of_nat (seq i m)) (gstate st)
    = match cme_loop O bez cT i pts ps pprev st with None => Raises PyZeroDivisionError | Some st' => Returns (gstate st') end.
Proof.
  intros Hstep. induction m as [|m IH]; intros i pts ps pprev st Hp Hq Hprev H1 Lp Lq.
  - destruct pts; [|discriminate]. reflexivity.
  - destruct pts as [|p pts']; [discriminate|]. destruct ps as [|u ps']; [discriminate|].
    destruct (skipn_cons_inv _ _ _ _ Hp) as (Np & Sp & _). destruct (skipn_cons_inv _ _ _ _ Hq) as (Nq & Sq & _).
    cbn [seq map fold_outcome]. rewrite (Hstep st i p u pprev Np Nq Hprev H1), cme_loop_step.
    destruct (cme_step bez cT i p u pprev st) as [st'|]; [|reflexivity].
    apply IH; [exact Sp|exact Sq|replace (S i - 1)%nat with i by lia; exact Nq|lia|cbn in Lp; lia|cbn in Lq; lia].
Qed.

Lemma range_Z_1 (n : nat) : range_Z 1 (Z.of_nat n) = map Z.of_nat (seq 1 (n - 1)).
Proof.
  unfold range_Z. replace (Z.to_nat (Z.of_nat n - 1)) with (n - 1)%nat by lia.
  assert (G : forall k b, map (fun i : nat => (1 + Z.of_nat i)%Z) (seq b k) = map Z.of_nat (seq (S b) k)).
  { induction k as [|k IH]; intros b; [reflexivity|]. cbn [seq map]. f_equal; [lia|]. apply IH. }
  apply G.
Qed.

Lemma computeMaxError_gen (bez : seg4 T) (p0 : pt T) (pts : list (pt T)) (params : list T) (tol cT : T) :
  length params = length (p0 :: pts) ->
  CurveFit_computeMaxError O bez (p0 :: pts) params tol cT
  = ox PyZeroDivisionError (computeMaxError O bez (p0 :: pts) params tol cT).
Proof.
  intro Hlen. destruct params as [|u0 ps]; [discriminate|].
  unfold CurveFit_computeMaxError, computeMaxError. cbv zeta.
  rewrite range_Z_1. cbn [length]. replace (S (length pts) - 1)%nat with (length pts) by lia.
  change (lit O 0 1 0x0.0p+0%float, 0%Z, lit O 0 1 0x0.0p+0%float, 0%Z, c0 bez) with (gstate (CS (f0 O) (f0 O) 0 0 (c0 bez))).
  match goal with |- context [fold_outcome ?f _ _] =>
    rewrite (cme_fold bez cT (p0 :: pts) (u0 :: ps) f) with (pts := pts) (ps := ps) (pprev := u0);
    [ | | reflexivity | reflexivity | reflexivity | lia | reflexivity | cbn [length] in Hlen; lia ]
  end.
  - destruct (cme_loop O bez cT 1 pts ps u0 _) as [st|]; [|reflexivity]. unfold gstate.
    destruct (eqb O tol (ofZ O 0)); [reflexivity|].
    destruct (leb O (cs_maxHook st) _); reflexivity.
  - intros st i p u pprev Np Nq Hprev H1. unfold gstate at 1.
    rewrite !py_index_Z_nat, Nq, Np. replace (Z.of_nat i - 1)%Z with (Z.of_nat (i - 1)) by lia. rewrite py_index_Z_nat, Hprev.
    cbv zeta. rewrite computeHook_zd_gen. unfold cme_step. cbv zeta.
    change (lit O 2 1 0x1.0000000000000p+1%float) with (f2 O).
    destruct (ltb O (cs_maxSq st) _); (destruct (computeHook O _ _ _ bez cT) as [h|]; [|reflexivity]); cbn [ox];
      destruct (ltb O (cs_maxHook st) h); reflexivity.
Qed.

(* ====================================================================================================== *)
(* centerTangent                                                                                            *)
Lemma py_nth_range {A : Type} (l : list A) (k : Z) (x : A) : py_nth l k = Some x -> (- Z.of_nat (length l) <= k < Z.of_nat (length l))%Z.
Proof.
  unfold py_nth. destruct (Z.ltb_spec k 0) as [Hk|Hk].
  - destruct (Z.ltb_spec (k + Z.of_nat (length l)) 0); cbn [orb]; [discriminate|]. intros _. lia.
  - destruct (Z.ltb_spec k 0); [lia|]. cbn [orb]. destruct (Z.leb_spec (Z.of_nat (length l)) k); [discriminate|]. intros _. lia.
Qed.
Lemma py_nth_in_range {A : Type} (l : list A) (k : Z) : (- Z.of_nat (length l) <= k < Z.of_nat (length l))%Z -> py_nth l k <> None.
Proof.
  intro H. unfold py_nth. destruct (Z.ltb_spec k 0) as [Hk|Hk].
  - destruct (Z.ltb_spec (k + Z.of_nat (length l)) 0); [lia|]. cbn [orb].
    destruct (Z.leb_spec (Z.of_nat (length l)) (k + Z.of_nat (length l))); [lia|]. intro E. apply nth_error_None in E. lia.
  - destruct (Z.ltb_spec k 0); [lia|]. cbn [orb]. destruct (Z.leb_spec (Z.of_nat (length l)) k); [lia|]. intro E. apply nth_error_None in E. lia.
Qed.
Lemma centerTangent_gen (data : list (pt T)) (center : Z) :
  CurveFit_centerTangent O data center = ox PyIndexError (centerTangent O data center).
Proof.
  unfold CurveFit_centerTangent, centerTangent. rewrite !py_index_Z_py_nth.
  destruct (py_nth data (center + 1)) as [dn|] eqn:E1; [|reflexivity].
  destruct (py_nth data (center - 1)) as [dp|] eqn:E2; [|reflexivity].
  destruct (py_nth data center) as [dc|] eqn:E3.
  - destruct (Point___eq__ O dn dp); reflexivity.
  - exfalso. apply py_nth_range in E1. apply py_nth_range in E2. apply (py_nth_in_range data center); [lia|exact E3].
Qed.

(* ====================================================================================================== *)
(* the recursion.  [gen_body] is the body of the generated Fixpoint CurveFit__fitCurve written with three    *)
(* combinators (bx / bo: the result of a call that may run out of fuel and raise / only raise; be: a joined  *)
(* `if` with early returns) and with the recursive calls abstracted ([recf]); gen_unfold checks BY CONVERSION *)
(* that it is the generated text.                                                                            *)
Definition bx {A B : Type} (m : option (outcome A)) (k : A -> option (outcome B)) : option (outcome B) :=
  match m with None => None | Some (Raises e) => Some (Raises e) | Some (Returns a) => k a end.
Definition bo {A B : Type} (m : outcome A) (k : A -> option (outcome B)) : option (outcome B) :=
  match m with Raises e => Some (Raises e) | Returns a => k a end.
Definition be {R A : Type} (m : option (outcome (R + A))) (k : A -> option (outcome R)) : option (outcome R) :=
  match m with None => None | Some (Raises e) => Some (Raises e) | Some (Returns (inl r)) => Some (Returns r) | Some (Returns (inr a)) => k a end.

Notation gres := (option (outcome (option (list (seg4 T))))).
Definition zeroP' : pt T := P (lit O 0 1 0x0.0p+0%float) (lit O 0 1 0x0.0p+0%float).
Definition lit1 : T := lit O 1 1 0x1.0000000000000p+0%float.

Section Body.
Variable recf : list (pt T) -> option (pt T) -> option (pt T) -> Z -> gres.
Variables (fuel : nat) (error cT : T).

Fixpoint gen_iter (k : nat) (points : list (pt T)) (u : list T) (t1 t2 : option (pt T)) (tol : T) (cur : T * Z)
  : option (outcome (option (list (seg4 T)) + (T * Z))) :=
  match k with
  | 0%nat => Some (Returns (inr cur))
  | S k' =>
    bx (CurveFit_generateBezier O fuel points u t1 t2 error) (fun b =>
    bo (CurveFit_computeMaxError O b points u tol cT) (fun rr =>
    let '(mr, sp) := rr in
    if leb O (abs_ O mr) lit1 then Some (Returns (inl (Some [b]))) else gen_iter k' points u t1 t2 tol (mr, sp)))
  end.

Definition gen_split (points : list (pt T)) (t1 t2 : option (pt T)) (ms sp : Z) (rec1 rec2 : pt T) : gres :=
  let lPoints := py_slice_to_Z points (sp + 1) in
  let rPoints := py_slice_from_Z points sp in
  bx (recf lPoints t1 (Some rec2) (ms - 1)) (fun L =>
  match L with
  | None => bx (recf rPoints (Some rec1) t2 (ms - 1)) (fun _ => Some (Raises PyTypeError))
  | Some z => let rem := if negb (isnil z) then (ms - Z.of_nat (length z))%Z else (ms - 1)%Z in
              bx (recf rPoints (Some rec1) t2 rem) (fun R =>
              match R with None => Some (Raises PyTypeError) | Some z' => Some (Returns (Some (z ++ z'))) end)
  end).

Definition gen_tail (points : list (pt T)) (t1 t2 : option (pt T)) (ms : Z) (r : T) (sp : Z) : gres :=
  let isCorner := ltb O r (ofZ O 0) in
  be (if isCorner then
        (if (sp =? 0)%Z then
           match t1 with
           | None => Some (Returns (inr (sp + 1)%Z))
           | Some _ => bx (recf points (Some zeroP') t2 ms) (fun x => Some (Returns (inl x)))
           end
         else if (sp =? Z.of_nat (length points) - 1)%Z then
           match t2 with
           | None => Some (Returns (inr (sp - 1)%Z))
           | Some _ => bx (recf points t1 (Some zeroP') ms) (fun x => Some (Returns (inl x)))
           end
         else Some (Returns (inr sp)))
      else Some (Returns (inr sp)))
     (fun sp' =>
      if (1 <? ms)%Z then
        be (if isCorner then
              (if negb ((0 <? sp')%Z && (sp' <? Z.of_nat (length points) - 1)%Z) then Some (Returns (inl (Some [])))
               else Some (Returns (inr (zeroP', zeroP'))))
            else bo (CurveFit_centerTangent O points sp') (fun t => Some (Returns (inr (Point___mul__ O t (ofZ O (-1)), t)))))
           (fun '(rec1, rec2) => gen_split points t1 t2 ms sp' rec1 rec2)
      else Some (Returns (Some []))).

Definition gen_body (points : list (pt T)) (t1 t2 : option (pt T)) (ms : Z) : gres :=
  match points with
  | [] => Some (Returns None)
  | hd :: tl =>
    match hd :: tl with
    | [a; b] => bo (CurveFit_fitLine O [a; b] t1 t2) (fun r => Some (Returns (Some [r])))
    | _ =>
      bo (CurveFit_chordLengthParameterize_zd O (hd :: tl)) (fun u =>
      match last_error u with
      | None => Some (Raises PyIndexError)
      | Some x =>
        if eqb O x (lit O 0 1 0x0.0p+0%float) then Some (Returns (Some [])) else
        bx (CurveFit_generateBezier O fuel (hd :: tl) u t1 t2 error) (fun bez =>
        bx (CurveFit_reparameterize O fuel bez (hd :: tl) u) (fun u' =>
        let s := add O error (lit O 1 1000000000 0x1.12e0be826d695p-30%float) in
        if ltb O s (ofZ O 0) then Some (Raises PyValueError) else
        let tol := sqrt_ O s in
        bo (CurveFit_computeMaxError O bez (hd :: tl) u' tol cT) (fun rr =>
        let '(mr, sp) := rr in
        if leb O (abs_ O mr) lit1 then Some (Returns (Some [bez])) else
        be (if leb O (lit O 0 1 0x0.0p+0%float) mr && leb O mr (lit O 3 1 0x1.8000000000000p+1%float)
            then gen_iter 4 (hd :: tl) u' t1 t2 tol (mr, sp) else Some (Returns (inr (mr, sp))))
           (fun '(mr', sp') => gen_tail (hd :: tl) t1 t2 ms mr' sp'))))
      end)
    end
  end.
End Body.

Lemma gen_unfold (fuel depth : nat) (points : list (pt T)) (t1 t2 : option (pt T)) (error cT : T) (ms : Z) :
  CurveFit__fitCurve O fuel (S depth) points t1 t2 error cT ms
  = gen_body (fun pts a b m => CurveFit__fitCurve O fuel depth pts a b error cT m) fuel error cT points t1 t2 ms.
Proof. reflexivity. Qed.

(* ---- the hand model's skeleton, result component only, with the recursive calls abstracted ([hrec]); hand_unfold: it is fst of fitC ---- *)
Notation hres := (pyres (seg4 T)).
Section HandBody.
Variable hrec : list (pt T) -> option (pt T) -> option (pt T) -> Z -> hres.
Variables (error cT : T).

Definition hand_split (points : list (pt T)) (t1 t2 : option (pt T)) (ms sp : Z) (rec1 rec2 : pt T) : hres :=
  let L := hrec (slice_to points (sp + 1)) t1 (Some rec2) (ms - 1) in
  match L with
  | RRaise e => RRaise e
  | _ => let rem := match L with RList (x :: l) => (ms - Z.of_nat (length (x :: l)))%Z | _ => (ms - 1)%Z end in
         py_concat L (hrec (slice_from points sp) (Some rec1) t2 rem)
  end.

Definition hand_tail (points : list (pt T)) (t1 t2 : option (pt T)) (ms : Z) (r : T) (sp : Z) : hres :=
  let isCorner := ltb O r (ofZ O 0) in
  let n := Z.of_nat (length points) in
  let adj : Z + hres :=
    if isCorner then
      if (sp =? 0)%Z then match t1 with None => inl (sp + 1)%Z | Some _ => inr (hrec points (Some (zeroP O)) t2 ms) end
      else if (sp =? n - 1)%Z then match t2 with None => inl (sp - 1)%Z | Some _ => inr (hrec points t1 (Some (zeroP O)) ms) end
      else inl sp
    else inl sp in
  match adj with
  | inr x => x
  | inl sp =>
    if (1 <? ms)%Z then
      let tangents : option (option (pt T * pt T)) :=
        if isCorner then
          if negb ((0 <? sp)%Z && (sp <? n - 1)%Z) then None else Some (Some (zeroP O, zeroP O))
        else match centerTangent O points sp with
             | None => Some None
             | Some t => Some (Some (Point___mul__ O t (ofZ O (-1)), t))
             end in
      match tangents with
      | None => RList []
      | Some None => RRaise IndexError
      | Some (Some (rec1, rec2)) => hand_split points t1 t2 ms sp rec1 rec2
      end
    else RList []
  end.

Definition hand_body (points : list (pt T)) (t1 t2 : option (pt T)) (ms : Z) : hres :=
  match points with
  | [] => RNone
  | [a; b] => RList [fitLine O a b t1 t2]
  | _ =>
    match fit1_num O error cT points t1 t2 with
    | FitRaise e => RRaise e
    | FitDegenerate => RList []
    | FitOk bez r sp => if leb O (abs_ O r) (f1 O) then RList [bez] else hand_tail points t1 t2 ms r sp
    end
  end.
End HandBody.

Lemma hand_unfold (error cT : T) (fuel' : nat) (points : list (pt T)) (t1 t2 : option (pt T)) (ms : Z) :
  fst (fitC O (fit1_num O error cT) (centerTangent O) (S fuel') points t1 t2 ms)
  = hand_body (fun pts a b m => fst (fitC O (fit1_num O error cT) (centerTangent O) fuel' pts a b m)) error cT points t1 t2 ms.
Proof.
  unfold hand_body.
  destruct points as [|p0 [|p1 [|p2 rest]]]; cbn [fitC]; try reflexivity.
  all: destruct (fit1_num O error cT _ t1 t2) as [e| |bez r sp]; [reflexivity|reflexivity|].
  all: destruct (leb O (abs_ O r) (f1 O)); [reflexivity|].
  all: unfold hand_tail, hand_split; cbv zeta.
  all: destruct (ltb O r (ofZ O 0)).
  all: try (destruct (sp =? 0)%Z; [destruct t1 | destruct (sp =? Z.of_nat (length _) - 1)%Z; [destruct t2|]]).
  all: try (destruct (fitC O _ _ fuel' _ (Some (zeroP O)) t2 ms) as [x lg]; reflexivity).
  all: try (destruct (fitC O _ _ fuel' _ t1 (Some (zeroP O)) ms) as [x lg]; reflexivity).
  all: (destruct (1 <? ms)%Z; [|reflexivity]).
  all: try (destruct (negb _); [reflexivity|]).
  all: try (destruct (centerTangent O _ sp) as [t|]; [|reflexivity]).
  all: match goal with |- context [fitC O ?f ?c ?fl (slice_to ?a ?b) ?x ?y ?z] => destruct (fitC O f c fl (slice_to a b) x y z) as [[|l|e] lgL] end; cbn [fst]; try reflexivity.
  all: match goal with |- context [fitC O ?f ?c ?fl (slice_from ?a ?b) ?x ?y ?z] => destruct (fitC O f c fl (slice_from a b) x y z) as [R lgR] end; reflexivity.
Qed.

(* ---- the relation between a generated result and a hand result: nothing is claimed where the hand model ran out of fuel ---- *)
Definition rel (g : gres) (h : hres) : Prop :=
  match h with RRaise OutOfFuel => True | _ => pyres_of g = Some h end.

Lemma rel_elim (g : gres) (h : hres) : rel g h ->
  match h with
  | RNone => g = Some (Returns None)
  | RList l => g = Some (Returns (Some l))
  | RRaise OutOfFuel => True
  | RRaise e => exists x, g = Some (Raises x) /\ exn_of x = Some e
  end.
Proof.
  unfold rel, pyres_of. destruct h as [|l|e].
  - destruct g as [[[l'|]|x]|]; try discriminate; [reflexivity|destruct (exn_of x); discriminate].
  - destruct g as [[[l'|]|x]|]; try discriminate; [intro H; injection H as ->; reflexivity|destruct (exn_of x); discriminate].
  - destruct e; try exact (fun _ => I).
    all: destruct g as [[[l'|]|x]|]; try discriminate.
    all: destruct (exn_of x) as [y|] eqn:E; try discriminate.
    all: intro H; injection H as ->.
    all: exists x; split; [reflexivity|exact E].
Qed.
Lemma rel_raise (x : pyexc) (e : exn) : exn_of x = Some e -> rel (Some (Raises x)) (RRaise e).
Proof. intro H. unfold rel, pyres_of. rewrite H. destruct e; first [reflexivity | exact I]. Qed.

Section Rec.
Variables (fuel : nat) (error cT : T).
Variable recf : list (pt T) -> option (pt T) -> option (pt T) -> Z -> gres.
Variable hrec : list (pt T) -> option (pt T) -> option (pt T) -> Z -> hres.
Hypothesis Hrec : forall pts a b m, (length pts <= fuel)%nat -> rel (recf pts a b m) (hrec pts a b m).

Ltac use_rec pts a b m :=
  let H := fresh "HR" in
  assert (H := rel_elim _ _ (Hrec pts a b m ltac:(first [assumption | eapply Nat.le_trans; [apply slice_to_length|assumption] | eapply Nat.le_trans; [apply slice_from_length|assumption]])));
  destruct (hrec pts a b m) as [|?l|[]]; cbn beta iota in H;
  try (destruct H as (?x & H & ?Hx)); try rewrite H.
Ltac fin :=
  cbn [bx bo be py_concat]; try exact I;
  first [ reflexivity | apply rel_raise; assumption | apply rel_raise; reflexivity | idtac ].

Lemma split_rel (points : list (pt T)) (t1 t2 : option (pt T)) (ms sp : Z) (rec1 rec2 : pt T) : (length points <= fuel)%nat ->
  rel (gen_split recf points t1 t2 ms sp rec1 rec2) (hand_split hrec points t1 t2 ms sp rec1 rec2).
Proof.
  intro Hlen. unfold gen_split, hand_split. cbv zeta. rewrite py_slice_to_Z_slice, py_slice_from_Z_slice.
  use_rec (slice_to points (sp + 1)) t1 (Some rec2) (ms - 1)%Z; fin.
  - use_rec (slice_from points sp) (Some rec1) t2 (ms - 1)%Z; fin.
  - destruct l as [|c l]; cbn [isnil negb].
    + use_rec (slice_from points sp) (Some rec1) t2 (ms - 1)%Z; fin.
    + use_rec (slice_from points sp) (Some rec1) t2 (ms - Z.of_nat (length (c :: l)))%Z; fin.
Qed.

Lemma tail_rel (points : list (pt T)) (t1 t2 : option (pt T)) (ms : Z) (r : T) (sp : Z) : (length points <= fuel)%nat ->
  rel (gen_tail recf points t1 t2 ms r sp) (hand_tail hrec points t1 t2 ms r sp).
Proof.
  intro Hlen. unfold gen_tail, hand_tail. cbv zeta.
  assert (Hsplit := fun sp r1 r2 => split_rel points t1 t2 ms sp r1 r2 Hlen).
  destruct (ltb O r (ofZ O 0)).
  - assert (K : forall sp', rel
        (if (1 <? ms)%Z then be (if negb ((0 <? sp')%Z && (sp' <? Z.of_nat (length points) - 1)%Z) then Some (Returns (inl (Some []))) else Some (Returns (inr (zeroP', zeroP'))))
                                 (fun '(rec1, rec2) => gen_split recf points t1 t2 ms sp' rec1 rec2) else Some (Returns (Some [])))
        (if (1 <? ms)%Z then match (if negb ((0 <? sp')%Z && (sp' <? Z.of_nat (length points) - 1)%Z) then None else Some (Some (zeroP O, zeroP O))) with
                             | None => RList [] | Some None => RRaise IndexError
                             | Some (Some (rec1, rec2)) => hand_split hrec points t1 t2 ms sp' rec1 rec2 end else RList [])).
    { intro sp'. destruct (1 <? ms)%Z; [|reflexivity]. destruct (negb _); [reflexivity|]. cbn [be]. apply Hsplit. }
    destruct (sp =? 0)%Z.
    + destruct t1 as [z|]; [|cbn [be]; apply K].
      use_rec points (Some (zeroP O)) t2 ms; change (zeroP') with (zeroP O); try rewrite HR; fin.
    + destruct (sp =? Z.of_nat (length points) - 1)%Z; [|cbn [be]; apply K].
      destruct t2 as [z|]; [|cbn [be]; apply K].
      use_rec points t1 (Some (zeroP O)) ms; change (zeroP') with (zeroP O); try rewrite HR; fin.
  - cbn [be]. destruct (1 <? ms)%Z; [|reflexivity].
    rewrite centerTangent_gen. destruct (centerTangent O points sp) as [t|]; cbn [ox bo be]; [apply Hsplit|reflexivity].
Qed.
End Rec.

(* ---- the iterations `for _ in range(0, maxIterations + 1)` ---- *)
Lemma iter_rel (fuel : nat) (error cT : T) (d0 : pt T) (rest : list (pt T)) (u : list T) (t1 t2 : option (pt T)) (tol : T) :
  (1 <= fuel)%nat -> (length (d0 :: rest) <= fuel)%nat -> (3 <= length (d0 :: rest))%nat -> length u = length (d0 :: rest) ->
  forall (k : nat) (bez0 : seg4 T) (r0 : T) (sp0 : Z), leb O (abs_ O r0) (f1 O) = false ->
  match fit_iter O k (d0 :: rest) d0 (last (d0 :: rest) d0) u t1 t2 error tol cT (bez0, r0, sp0) with
  | FitRaise IndexError => gen_iter fuel error cT k (d0 :: rest) u t1 t2 tol (r0, sp0) = Some (Raises PyIndexError)
  | FitRaise ZeroDivisionError => gen_iter fuel error cT k (d0 :: rest) u t1 t2 tol (r0, sp0) = Some (Raises PyZeroDivisionError)
  | FitRaise _ => False
  | FitDegenerate => False
  | FitOk bez r sp => gen_iter fuel error cT k (d0 :: rest) u t1 t2 tol (r0, sp0)
                      = if leb O (abs_ O r) (f1 O) then Some (Returns (inl (Some [bez]))) else Some (Returns (inr (r, sp)))
  end.
Proof.
  intros H1 Hf H3 Hu. induction k as [|k IH]; intros bez0 r0 sp0 Hacc.
  - cbn [fit_iter gen_iter]. rewrite Hacc. reflexivity.
  - cbn [fit_iter gen_iter]. rewrite generateBezier_gen by auto.
    destruct (generateBezier O _ d0 _ u t1 t2 error) as [b|]; [|reflexivity]. cbn [ox bx].
    rewrite computeMaxError_gen by exact Hu.
    destruct (computeMaxError O b _ u tol cT) as [[r sp]|]; [|reflexivity]. cbn [ox bo].
    change lit1 with (f1 O).
    destruct (leb O (abs_ O r) (f1 O)) eqn:E; [rewrite E; reflexivity|].
    apply IH, E.
Qed.

Hypothesis H00 : eqb O (ofZ O 0) (ofZ O 0) = true.

Lemma last_indep {A : Type} (a : A) (l : list A) (d d' : A) : last (a :: l) d = last (a :: l) d'.
Proof. revert a. induction l as [|b l IH]; intro a; [reflexivity|]. exact (IH b). Qed.

Ltac relrefl := first [exact I | unfold rel; cbv beta iota; first [exact I | reflexivity]].

Section Rec2.
Variables (fuel : nat) (error cT : T).
Variable recf : list (pt T) -> option (pt T) -> option (pt T) -> Z -> gres.
Variable hrec : list (pt T) -> option (pt T) -> option (pt T) -> Z -> hres.
Hypothesis Hrec : forall pts a b m, (length pts <= fuel)%nat -> rel (recf pts a b m) (hrec pts a b m).
Hypothesis Hfuel : (10 <= fuel)%nat.

Lemma body_rel (points : list (pt T)) (t1 t2 : option (pt T)) (ms : Z) : (length points <= fuel)%nat ->
  rel (gen_body recf fuel error cT points t1 t2 ms) (hand_body hrec error cT points t1 t2 ms).
Proof.
  intro Hlen. unfold gen_body, hand_body.
  destruct points as [|p0 [|p1 [|p2 rest]]].
  - relrefl.
  - (* one point: `0.0 / 0` *)
    rewrite chordLengthParameterize_zd_gen. unfold fit1_num.
    assert (E : chordLengthParameterize O [p0] = None) by (unfold chordLengthParameterize; cbv zeta; cbn [cumdist last]; rewrite H00; reflexivity).
    rewrite E. relrefl.
  - rewrite fitLine_gen. relrefl.
  - assert (H3 : (3 <= length (p0 :: p1 :: p2 :: rest))%nat) by (cbn [length]; lia).
    cbv iota.
    rewrite chordLengthParameterize_zd_gen. unfold fit1_num.
    destruct (chordLengthParameterize O (p0 :: p1 :: p2 :: rest)) as [u|] eqn:Eu; [|relrefl]. cbn [ox bo].
    assert (Lu : length u = length (p0 :: p1 :: p2 :: rest)) by (apply (chordLengthParameterize_length _ u Eu); discriminate).
    destruct u as [|u0 ur]; [discriminate|].
    rewrite last_error_last. rewrite (last_indep u0 ur (f0 O) u0).
    change (lit O 0 1 0x0.0p+0%float) with (f0 O).
    destruct (eqb O (last (u0 :: ur) u0) (f0 O)); [relrefl|].
    cbv iota.
    rewrite generateBezier_gen by (auto; lia).
    destruct (generateBezier O (p0 :: p1 :: p2 :: rest) p0 _ (u0 :: ur) t1 t2 error) as [bez|]; [|relrefl]. cbn [ox bx].
    destruct (reparameterize O bez (p0 :: p1 :: p2 :: rest) (u0 :: ur)) as [u'|] eqn:Er; [|exact I].
    rewrite (reparameterize_gen fuel bez Hfuel _ (u0 :: ur) u' Er). cbn [bx]. cbv zeta.
    assert (Lu' : length u' = length (p0 :: p1 :: p2 :: rest)) by (rewrite (reparameterize_length bez _ (u0 :: ur) u' Er); exact Lu).
    destruct (ltb O (add O error _) (ofZ O 0)); [relrefl|].
    rewrite computeMaxError_gen by exact Lu'.
    destruct (computeMaxError O bez (p0 :: p1 :: p2 :: rest) u' _ cT) as [[r sp]|]; [|relrefl]. cbn [ox bo].
    change lit1 with (f1 O).
    destruct (leb O (abs_ O r) (f1 O)) eqn:Eacc; [rewrite Eacc; relrefl|].
    change (lit O 3 1 0x1.8000000000000p+1%float) with (f3 O).
    destruct (leb O (f0 O) r && leb O r (f3 O)).
    + (* the iterations *)
      assert (HI := iter_rel fuel error cT p0 (p1 :: p2 :: rest) u' t1 t2 (sqrt_ O (add O error (lit O 1 1000000000 0x1.12e0be826d695p-30%float)))
                      ltac:(lia) Hlen H3 Lu' 4 bez r sp Eacc).
      destruct (fit_iter O 4 (p0 :: p1 :: p2 :: rest) p0 _ u' t1 t2 error _ cT (bez, r, sp)) as [[]| |bez' r' sp']; try contradiction.
      * rewrite HI. relrefl.
      * rewrite HI. relrefl.
      * rewrite HI. destruct (leb O (abs_ O r') (f1 O)); [relrefl|]. cbn [be]. apply (tail_rel fuel recf hrec Hrec); exact Hlen.
    + rewrite Eacc. cbn [be]. apply (tail_rel fuel recf hrec Hrec); exact Hlen.
Qed.
End Rec2.

(* ====================================================================================================== *)
(* CurveFit._fitCurve and CurveFit.fitCurve                                                                  *)
Theorem fitCurve_inner_rel (fuel : nat) (error cT : T) : (10 <= fuel)%nat ->
  forall (depth : nat) (points : list (pt T)) (t1 t2 : option (pt T)) (ms : Z), (length points <= fuel)%nat ->
  rel (CurveFit__fitCurve O fuel depth points t1 t2 error cT ms) (fst (fitCurve_inner O depth points t1 t2 error cT ms)).
Proof.
  intro Hf. unfold fitCurve_inner. induction depth as [|depth IH]; intros points t1 t2 ms Hlen; [exact I|].
  rewrite gen_unfold, hand_unfold. apply (body_rel fuel error cT); [exact IH|exact Hf|exact Hlen].
Qed.

Theorem fitCurve_inner_gen (fuel depth : nat) (points : list (pt T)) (t1 t2 : option (pt T)) (error cT : T) (ms : Z) :
  (10 <= fuel)%nat -> (length points <= fuel)%nat ->
  fst (fitCurve_inner O depth points t1 t2 error cT ms) <> RRaise OutOfFuel ->
  pyres_of (CurveFit__fitCurve O fuel depth points t1 t2 error cT ms) = Some (fst (fitCurve_inner O depth points t1 t2 error cT ms)).
Proof.
  intros Hf Hl Hne. assert (H := fitCurve_inner_rel fuel error cT Hf depth points t1 t2 ms Hl). unfold rel in H.
  destruct (fst (fitCurve_inner O depth points t1 t2 error cT ms)) as [|l|[]]; try exact H. contradiction Hne; reflexivity.
Qed.

(* the adjacent-duplicate filter: the generated fold appends to `deduped` and reads deduped[-1]; the hand model carries the last item *)
Lemma dedup_fold (l : list (pt T)) : forall (acc : list (pt T)) (prev : pt T),
  fold_left (fun (d : list (pt T)) (x : pt T) =>
               if match last_error d with None => true | Some z => neqb O (px x) (px z) || neqb O (py x) (py z) end then d ++ [x] else d) l (acc ++ [prev])
  = (acc ++ [prev]) ++ dedup_from O prev l.
Proof.
  induction l as [|x l IH]; intros acc prev; [cbn; rewrite app_nil_r; reflexivity|].
  cbn [fold_left dedup_from]. rewrite last_error_app1. unfold pt_differs.
  destruct (neqb O (px x) (px prev) || neqb O (py x) (py prev)).
  - rewrite (IH (acc ++ [prev]) x). rewrite <- !app_assoc. reflexivity.
  - apply IH.
Qed.
Lemma dedup_gen (data : list (pt T)) :
  fold_left (fun (d : list (pt T)) (x : pt T) =>
               if match last_error d with None => true | Some z => neqb O (px x) (px z) || neqb O (py x) (py z) end then d ++ [x] else d) data []
  = dedup O data.
Proof. destruct data as [|x l]; [reflexivity|]. cbn [fold_left last_error app dedup]. exact (dedup_fold l [] x). Qed.
Lemma dedup_from_length (l : list (pt T)) : forall prev, (length (dedup_from O prev l) <= length l)%nat.
Proof. induction l as [|x l IH]; intro prev; [apply Nat.le_refl|]. cbn [dedup_from length]. destruct (pt_differs O x prev); [cbn [length]; specialize (IH x); lia|specialize (IH prev); lia]. Qed.
Lemma dedup_length (l : list (pt T)) : (length (dedup O l) <= length l)%nat.
Proof. destruct l as [|x l]; [apply Nat.le_refl|]. cbn [dedup length]. pose proof (dedup_from_length l x). lia. Qed.

Theorem fitCurve_rel (fuel depth : nat) (data : list (pt T)) (error cT : T) (ms : Z) : (10 <= fuel)%nat -> (length data <= fuel)%nat ->
  rel (CurveFit_fitCurve O fuel depth data error cT ms) (fst (fitCurve O depth data error cT ms)).
Proof.
  intros Hf Hl. unfold CurveFit_fitCurve, fitCurve, fitCurve_skel. cbv zeta.
  match goal with |- context [fold_left ?f data []] => change (fold_left f data []) with
    (fold_left (fun (d : list (pt T)) (x : pt T) => if match last_error d with None => true | Some z => neqb O (px x) (px z) || neqb O (py x) (py z) end then d ++ [x] else d) data []) end.
  rewrite dedup_gen.
  assert (Hd : (length (dedup O data) <= fuel)%nat) by (pose proof (dedup_length data); lia).
  destruct (Nat.ltb_spec (length (dedup O data)) 2) as [H2|H2].
  - replace (Z.of_nat (length (dedup O data)) <? 2)%Z with true by (symmetry; apply Z.ltb_lt; lia). reflexivity.
  - replace (Z.of_nat (length (dedup O data)) <? 2)%Z with false by (symmetry; apply Z.ltb_ge; lia).
    assert (H := fitCurve_inner_rel fuel error cT Hf depth (dedup O data) None None ms Hd). unfold fitCurve_inner in H.
    destruct (fst (fitC O _ _ depth (dedup O data) None None ms)) as [|l|[]] eqn:E; apply rel_elim in H; cbn beta iota in H;
      try (destruct H as (x & H & Hx)); try rewrite H; try exact I; try reflexivity; apply rel_raise; exact Hx.
Qed.

Theorem fitCurve_gen (fuel depth : nat) (data : list (pt T)) (error cT : T) (ms : Z) : (10 <= fuel)%nat -> (length data <= fuel)%nat ->
  fst (fitCurve O depth data error cT ms) <> RRaise OutOfFuel ->
  pyres_of (CurveFit_fitCurve O fuel depth data error cT ms) = Some (fst (fitCurve O depth data error cT ms)).
Proof.
  intros Hf Hl Hne. assert (H := fitCurve_rel fuel depth data error cT ms Hf Hl). unfold rel in H.
  destruct (fst (fitCurve O depth data error cT ms)) as [|l|[]]; try exact H. contradiction Hne; reflexivity.
Qed.

(* BezierPath.fromPoints: the path (segments, closed = False) built from what fitCurve returns (None and [] both give no segments) *)
Lemma fromPoints_gen (fuel depth : nat) (data : list (pt T)) (error cT : T) (ms : Z) :
  Path_fromPoints O fuel depth data error cT ms
  = match CurveFit_fitCurve O fuel depth data error cT ms with
    | None => None
    | Some (Raises e) => Some (Raises e)
    | Some (Returns r) => Some (Returns (match r with None => [] | Some l => l end, false))
    end.
Proof. reflexivity. Qed.
Theorem fromPoints_hand (fuel depth : nat) (data : list (pt T)) (error cT : T) (ms : Z) : (10 <= fuel)%nat -> (length data <= fuel)%nat ->
  match fst (fitCurve O depth data error cT ms) with
  | RNone => Path_fromPoints O fuel depth data error cT ms = Some (Returns ([], false))
  | RList l => Path_fromPoints O fuel depth data error cT ms = Some (Returns (l, false))
  | RRaise OutOfFuel => True
  | RRaise e => exists x, Path_fromPoints O fuel depth data error cT ms = Some (Raises x) /\ exn_of x = Some e
  end.
Proof.
  intros Hf Hl. assert (H := rel_elim _ _ (fitCurve_rel fuel depth data error cT ms Hf Hl)). rewrite fromPoints_gen.
  destruct (fst (fitCurve O depth data error cT ms)) as [|l|[]]; cbn beta iota in H; try exact I;
    try (destruct H as (x & H & Hx); rewrite H; exists x; split; [reflexivity|exact Hx]); rewrite H; reflexivity.
Qed.

End FitBridge6.

(* ====================================================================================================== *)
(* the two carriers: the hypotheses H98 / H00 hold for the reals and for binary64 (any libm table)          *)
From Coq Require Import Reals Lra.
Lemma H98_R : lit ROps 98 100 0x1.f5c28f5c28f5cp-1%float = lit ROps 49 50 0x1.f5c28f5c28f5cp-1%float.
Proof. cbn. lra. Qed.
Lemma H00_R : eqb ROps (ofZ ROps 0) (ofZ ROps 0) = true.
Proof. cbn. destruct (Req_EM_T 0 0) as [_|n]; [reflexivity|contradiction n; reflexivity]. Qed.
Lemma H98_F (tbl : list libm_entry) : lit (FOpsT tbl) 98 100 0x1.f5c28f5c28f5cp-1%float = lit (FOpsT tbl) 49 50 0x1.f5c28f5c28f5cp-1%float.
Proof. reflexivity. Qed.
Lemma H00_F (tbl : list libm_entry) : eqb (FOpsT tbl) (ofZ (FOpsT tbl) 0) (ofZ (FOpsT tbl) 0) = true.
Proof. reflexivity. Qed.

Theorem fitCurve_gen_R (fuel depth : nat) (data : list (pt R)) (error cT : R) (ms : Z) : (10 <= fuel)%nat -> (length data <= fuel)%nat ->
  fst (fitCurve ROps depth data error cT ms) <> RRaise OutOfFuel ->
  pyres_of (CurveFit_fitCurve ROps fuel depth data error cT ms) = Some (fst (fitCurve ROps depth data error cT ms)).
Proof. apply (fitCurve_gen ROps H98_R H00_R). Qed.
Theorem fitCurve_inner_gen_R (fuel depth : nat) (points : list (pt R)) (t1 t2 : option (pt R)) (error cT : R) (ms : Z) :
  (10 <= fuel)%nat -> (length points <= fuel)%nat -> fst (fitCurve_inner ROps depth points t1 t2 error cT ms) <> RRaise OutOfFuel ->
  pyres_of (CurveFit__fitCurve ROps fuel depth points t1 t2 error cT ms) = Some (fst (fitCurve_inner ROps depth points t1 t2 error cT ms)).
Proof. apply (fitCurve_inner_gen ROps H98_R H00_R). Qed.
Theorem fitCurve_gen_F (tbl : list libm_entry) (fuel depth : nat) (data : list (pt float)) (error cT : float) (ms : Z) : (10 <= fuel)%nat -> (length data <= fuel)%nat ->
  fst (fitCurve (FOpsT tbl) depth data error cT ms) <> RRaise OutOfFuel ->
  pyres_of (CurveFit_fitCurve (FOpsT tbl) fuel depth data error cT ms) = Some (fst (fitCurve (FOpsT tbl) depth data error cT ms)).
Proof. apply (fitCurve_gen (FOpsT tbl) (H98_F tbl) (H00_F tbl)). Qed.
Theorem fitCurve_inner_gen_F (tbl : list libm_entry) (fuel depth : nat) (points : list (pt float)) (t1 t2 : option (pt float)) (error cT : float) (ms : Z) :
  (10 <= fuel)%nat -> (length points <= fuel)%nat -> fst (fitCurve_inner (FOpsT tbl) depth points t1 t2 error cT ms) <> RRaise OutOfFuel ->
  pyres_of (CurveFit__fitCurve (FOpsT tbl) fuel depth points t1 t2 error cT ms) = Some (fst (fitCurve_inner (FOpsT tbl) depth points t1 t2 error cT ms)).
Proof. apply (fitCurve_inner_gen (FOpsT tbl) (H98_F tbl) (H00_F tbl)). Qed.

(* ====================================================================================================== *)
(* The Boolean-operation glue: utils/booleanoperationsmixin.py is REGENERATED as a whole (Gen/Clip.v: Path_clip, Path_union,           *)
(* Path_intersection, Path_difference), with pyclipper as abstract parameters [toZ] / [clipper] exactly as in Hand/Clip.v.  There the   *)
(* split lists and Segment.flatten(2) of the curved pieces are ORACLE parameters; in the generated definition they are computed        *)
(* (the loops over Segment.intersections, Path_splitAtPoints of Gen/Split.v, the flatteners of Gen/Sample.v).  Below:                    *)
(*   clip_unfold     the generated Path_clip is, BY CONVERSION, the composition  isect -> split, split -> fill, fill -> Clipper -> rebuild *)
(*                   of the structured pieces g_isect / g_fill / g_rebuild defined here;                                                  *)
(*   fill_gen        the LUT construction: under the hypothesis that the oracle flatten2 returns the lines the generated flatteners     *)
(*                   compute (each tagged with the piece it was cut from), the generated fold builds the edges of Hand/Clip.v's           *)
(*                   flatten_fill and a dict that ANSWERS EVERY LOOKUP like its LUT (lut_rel);                                            *)
(*   rebuild_gen     the reconstruction loop (pairwise, LUT hit / `flat` / fallback line, duplicate suppression, closing duplicate,      *)
(*                   fromSegments) equals Hand/Clip.v's rebuild for dicts related by lut_rel;                                             *)
(*   clip_tail_gen   everything after the two splitAtPoints: fill, conversion, Clipper, reconstruction = the hand model's tail;            *)
(*   clip_gen        the whole: under the hypotheses that the oracles of the hand model return what the generated sub-functions compute   *)
(*                   (the split lists: g_isect; the pieces: Path_splitAtPoints; flatten2: the flatteners).                                 *)
(* The dict of the generated code replaces the value of the first item with an equal key, the LUT of the hand model conses and finds     *)
(* the most recent one: they answer alike when key equality is an equivalence -- [eqb O] symmetric and transitive (Section hypotheses,    *)
(* discharged for the reals).                                                                                                            *)
From BZ Require Gen.Split Gen.CurveCurve Gen.Winding Gen.PathOps Gen.Clip Hand.Clip.

Module ClipBridge.
Import Gen.Split Gen.Winding Gen.PathOps Gen.Clip Hand.Clip.

Section Unfold.
Context {T : Type} (O : Ops T) {K : Type} (fmt_2f : T -> K) (keq : K -> K -> bool).
Variable toZ : T -> option Z.
Variable gclipper : clip_type -> list (list (Z * Z)) -> list (list (Z * Z)) -> option (list (list (Z * Z))).

Notation edge := (seg2 T * option (segment T))%type.
Notation ixss := (segment T * segment T * (T * pt T * T))%type.
Notation glut := (list ((pt T * pt T) * segment T)).
Notation gpath := (list (segment T) * bool)%type.
Definition gkeq : (pt T * pt T) -> (pt T * pt T) -> bool := pair_keyeq (point_keyeq O) (point_keyeq O).
Definition prec : T := lit O 100 1 0x1.9000000000000p+6%float.
Definition eps8' : T := lit O 1 100000000 0x1.5798ee2308c3ap-27%float.

Definition g_seg_eq (a b : segment T) : bool :=
  match a with
  | SLine sa_ => match b with SLine ta_ => Line___eq___Line O sa_ ta_ | SQuad tb_ => Line___eq___Quad O sa_ tb_ | SCubic tc_ => Line___eq___Cubic O sa_ tc_ end
  | SQuad sb_ => match b with SLine ta_ => Quad___eq___Line O sb_ ta_ | SQuad tb_ => Quad___eq___Quad O sb_ tb_ | SCubic tc_ => Quad___eq___Cubic O sb_ tc_ end
  | SCubic sc_ => match b with SLine ta_ => Cubic___eq___Line O sc_ ta_ | SQuad tb_ => Cubic___eq___Quad O sc_ tb_ | SCubic tc_ => Cubic___eq___Cubic O sc_ tc_ end
  end.
Definition g_seg_reversed (s : segment T) : segment T :=
  match s with SLine s_ => SLine (Line_reversed O s_) | SQuad s_ => SQuad (Quad_reversed O s_) | SCubic s_ => SCubic (Cubic_reversed O s_) end.
Definition g_seg_clone (s : segment T) : segment T :=
  match s with SLine s_ => SLine (Line_clone O s_) | SQuad s_ => SQuad (Quad_clone O s_) | SCubic s_ => SCubic (Cubic_clone O s_) end.

(* s1.intersections(s2), dispatched on both classes *)
Definition g_ix (fuel : nat) (s1 s2 : segment T) : option (outcome (list ixss)) :=
  match s1 with
  | SLine s0_ => match s2 with
                 | SLine s1_ => Some (Returns (Line_intersections_Line_ixss O s0_ s1_ true))
                 | SQuad s1_ => Some (Returns (Line_intersections_Quad_ixss O s0_ s1_ true))
                 | SCubic s1_ => Some (Returns (Line_intersections_Cubic_ixss O s0_ s1_ true)) end
  | SQuad s0_ => match s2 with
                 | SLine s1_ => Some (Returns (Quad_intersections_Line_ixss O s0_ s1_ true))
                 | SQuad s1_ => Quad_intersections_Quad_ixss O fmt_2f keq fuel s0_ s1_ true
                 | SCubic s1_ => Quad_intersections_Cubic_ixss O fmt_2f keq fuel s0_ s1_ true end
  | SCubic s0_ => match s2 with
                  | SLine s1_ => Some (Returns (Cubic_intersections_Line_ixss O s0_ s1_ true))
                  | SQuad s1_ => Cubic_intersections_Quad_ixss O fmt_2f keq fuel s0_ s1_ true
                  | SCubic s1_ => Cubic_intersections_Cubic_ixss O fmt_2f keq fuel s0_ s1_ true end
  end.
Notation istate := (list (pt T * ixss) * list (segment T * T) * list (segment T * T))%type.
(* the body of `for i in s1.intersections(s2)` *)
Definition g_isect_i (s1 : segment T) : istate -> ixss -> istate := fun '((ints, sl1), sl2) i =>
  let '((sl1', sl2'), ints') :=
    if ltb O eps8' (fst (fst (snd i))) && ltb O (fst (fst (snd i))) (sub O (ofZ O 1) eps8') then
      let '(a, b) := if g_seg_eq (fst (fst i)) s1
                     then (sl1 ++ [(fst (fst i), fst (fst (snd i)))], sl2 ++ [(snd (fst i), snd (snd i))])
                     else (sl1 ++ [(snd (fst i), snd (snd i))], sl2 ++ [(fst (fst i), fst (fst (snd i)))]) in
      (a, b, dict_set (point_keyeq O) ints (snd (fst (snd i))) i)
    else (sl1, sl2, ints) in
  (ints', sl1', sl2').
Definition g_isect (fuel : nat) (self clipc : list (segment T)) : option (outcome istate) :=
  fold_option_outcome (fun '(((i4, s5), s6) : istate) s1 =>
    bx (fold_option_outcome (fun '(((i7, s8), s9) : istate) s2 =>
          bx (g_ix fuel s1 s2) (fun r => let '((a, b), c) := fold_left (g_isect_i s1) r (i7, s8, s9) in Some (Returns (a, b, c)))) clipc (i4, s5, s6))
       (fun '((a, b), c) => Some (Returns (a, b, c)))) self ([], [], []).

(* s.flatten(2) of a piece (its `_orig` is None: see untagged_segment in tools/py2v.py) *)
Definition g_flat (fuel : nat) (s : segment T) : option (outcome (list edge)) :=
  match s with
  | SLine s_ => Some (Returns (Line_flatten O (s_, None) (ofZ O 2)))
  | SQuad s_ => match Quad_flatten O fuel s_ (ofZ O 2) with None => None | Some r_ => Some (Returns r_) end
  | SCubic s_ => Cubic_flatten O fuel s_ (ofZ O 2)
  end.
Definition g_orig (e : edge) : segment T := match snd e with Some z => z | None => SLine (fst e) end.
Definition g_key (p : pt T) : pt T := Point_rounded O (Point___mul__ O p prec).
Definition g_fill_edge (l : glut) (e : edge) : glut :=
  dict_set gkeq (dict_set gkeq l (g_key (l0 (fst e)), g_key (l1 (fst e))) (g_orig e))
           (g_key (l1 (fst e)), g_key (l0 (fst e))) (g_seg_reversed (g_orig e)).
Definition g_fill (fuel : nat) (pieces : list (segment T)) (l : glut) : option (outcome (glut * list edge)) :=
  fold_option_outcome (fun '((lut, segs) : glut * list edge) s =>
    bx (g_flat fuel s) (fun r => Some (Returns (fold_left g_fill_edge r lut, segs ++ r)))) pieces (l, []).
Definition g_clip_path (edges : list edge) : list (T * T) := map (fun e => (mul O (px (l0 (fst e))) prec, mul O (py (l0 (fst e))) prec)) edges.

(* the reconstruction *)
Definition g_fallback (a b : Z * Z) : segment T :=
  SLine (L2 (Point___truediv__ O (P (ofZ O (fst a)) (ofZ O (snd a))) prec) (Point___truediv__ O (P (ofZ O (fst b)) (ofZ O (snd b))) prec)).
Definition g_rebuild_step (flat : bool) (l : glut) : list (segment T) -> (Z * Z) * (Z * Z) -> list (segment T) := fun newpath '(a, b) =>
  match dict_get gkeq l (P (ofZ O (fst a)) (ofZ O (snd a)), P (ofZ O (fst b)) (ofZ O (snd b))) with
  | Some orig => if negb flat
                 then (if match last_error newpath with None => true | Some z => negb (g_seg_eq z orig) end then newpath ++ [orig] else newpath)
                 else newpath ++ [g_fallback a b]
  | None => newpath ++ [g_fallback a b]
  end.
Definition g_rebuild_poly (flat : bool) (l : glut) (outpaths : list gpath) (p : list (Z * Z)) : option (outcome (list gpath)) :=
  match p with
  | [] => Some (Raises PyIndexError)
  | x :: _ =>
    let newpath := fold_left (g_rebuild_step flat l) (let l_ := p ++ [x] in combine l_ (tl l_)) [] in
    bo (if (1 <? Z.of_nat (length newpath))%Z then
          match last_error newpath with
          | None => Raises PyIndexError
          | Some a => match newpath with [] => Raises PyIndexError | b :: _ => Returns (g_seg_eq a b) end
          end
        else Returns false)
       (fun dup => if dup then match newpath with [] => Some (Raises PyIndexError) | _ :: _ => Some (Returns (outpaths ++ [(removelast newpath, true)])) end
                   else Some (Returns (outpaths ++ [(newpath, true)])))
  end.
Definition g_rebuild (flat : bool) (l : glut) (polys : list (list (Z * Z))) : option (outcome (list gpath)) :=
  fold_option_outcome (g_rebuild_poly flat l) polys [].

(* everything after the two splitAtPoints *)
Definition g_tail (fuel : nat) (pieces1 pieces2 : list (segment T)) (ct : clip_type) (flat : bool) : option (outcome (list gpath)) :=
  bx (g_fill fuel pieces1 []) (fun '(lut1, edges1) =>
  bx (g_fill fuel pieces2 lut1) (fun '(lut2, edges2) =>
  match clip_polys toZ [g_clip_path edges1] with
  | None => Some (Raises PyConvertError)
  | Some subj =>
    match clip_polys toZ [g_clip_path edges2] with
    | None => Some (Raises PyConvertError)
    | Some clp =>
      match gclipper ct subj clp with
      | None => Some (Raises PyClipperError)
      | Some polys => bx (g_rebuild flat lut2 polys) (fun r => Some (Returns r))
      end
    end
  end)).

Lemma clip_unfold (fuel : nat) (self other : list (segment T)) (ct : clip_type) (flat : bool) :
  Path_clip O fmt_2f keq toZ gclipper fuel self other ct flat
  = bx (g_isect fuel self (map g_seg_clone other)) (fun '((_, sl1), sl2) =>
      match Path_splitAtPoints O fuel (map g_seg_clone self) sl1 with
      | None => None
      | Some pieces1 =>
        match Path_splitAtPoints O fuel (map g_seg_clone other) sl2 with
        | None => None
        | Some pieces2 => g_tail fuel pieces1 pieces2 ct flat
        end
      end).
Proof. reflexivity. Qed.
End Unfold.
(* ---------------------------------------------------------------------------------------------------------- *)
Section Glue.
Context {T : Type} (O : Ops T).
Variable toZ : T -> option Z.
Variable gclipper : clip_type -> list (list (Z * Z)) -> list (list (Z * Z)) -> option (list (list (Z * Z))).
Variable hclipper : cliptype -> list zpoly -> list zpoly -> option (list zpoly).
Variable flatten2 : segment T -> option (list (seg2 T)).
(* key equality is an equivalence, and equal coordinates are Point.__eq__-equal (true of the reals; of binary64 for finite coordinates) *)
Hypothesis Heq_sym : forall a b : T, eqb O a b = eqb O b a.
Hypothesis Heq_trans : forall a b c : T, eqb O a b = true -> eqb O b c = true -> eqb O a c = true.
Hypothesis Heq_close : forall p q : pt T, eqb O (px p) (px q) = true -> eqb O (py p) (py q) = true -> Point___eq__ O p q = true.

Notation edge := (seg2 T * option (segment T))%type.
Notation glut := (list ((pt T * pt T) * segment T)).
Notation gpath := (list (segment T) * bool)%type.

Definition ct_of (c : clip_type) : cliptype :=
  match c with Ct_intersection => CT_INTERSECTION | Ct_union => CT_UNION | Ct_difference => CT_DIFFERENCE | Ct_xor => CT_XOR end.
(* the hand model's exceptions as the generated ones (EOracle -- an oracle without a recorded value -- and EZeroDiv -- mapx of splitAtPoints, which
   Gen/Split.v does not model -- do not occur after the two splitAtPoints under the hypotheses below; any value will do) *)
Definition exc_py (e : exc) : pyexc :=
  match e with EIndex => PyIndexError | EClipper => PyClipperError | EConvert => PyConvertError | EZeroDiv => PyZeroDivisionError | EOracle => PyAssertionError end.
Definition embed {A : Type} (r : result A) : option (outcome A) := match r with Ok a => Some (Returns a) | Raise e => Some (Raises (exc_py e)) end.

(* ---- key equality ---- *)
Lemma eqb_cong (a b c : T) : eqb O a b = true -> eqb O a c = eqb O b c.
Proof.
  intro H. destruct (eqb O a c) eqn:E1, (eqb O b c) eqn:E2; try reflexivity.
  - rewrite Heq_sym in H. rewrite (Heq_trans b a c H E1) in E2. discriminate.
  - rewrite (Heq_trans a b c H E2) in E1. discriminate.
Qed.
Lemma point_keyeq_keqb (p q : pt T) : point_keyeq O p q = pt_keqb O p q.
Proof.
  unfold point_keyeq, pt_keqb. destruct (eqb O (px p) (px q)) eqn:E1; [|reflexivity]. destruct (eqb O (py p) (py q)) eqn:E2; [|reflexivity].
  rewrite (Heq_close p q E1 E2). reflexivity.
Qed.
Lemma gkeq_key_eqb (a b : pt T * pt T) : gkeq O a b = key_eqb O a b.
Proof. unfold gkeq, pair_keyeq, key_eqb. rewrite !point_keyeq_keqb. reflexivity. Qed.
Lemma pt_keqb_cong (a b c : pt T) : pt_keqb O a b = true -> pt_keqb O a c = pt_keqb O b c.
Proof.
  unfold pt_keqb. intro H. apply andb_prop in H. destruct H as [H1 H2]. rewrite (eqb_cong _ _ (px c) H1), (eqb_cong _ _ (py c) H2). reflexivity.
Qed.
Lemma key_eqb_cong (a b c : pt T * pt T) : key_eqb O a b = true -> key_eqb O a c = key_eqb O b c.
Proof.
  unfold key_eqb. intro H. apply andb_prop in H. destruct H as [H1 H2]. rewrite (pt_keqb_cong _ _ (fst c) H1), (pt_keqb_cong _ _ (snd c) H2). reflexivity.
Qed.

(* ---- the dict of the generated code answers like the LUT of the hand model ---- *)
Definition lut_rel (g : glut) (h : lut (T := T)) : Prop := forall k, dict_get (gkeq O) g k = lut_find O h k.
Lemma dict_get_set (d : glut) (k k' : pt T * pt T) (v : segment T) :
  dict_get (gkeq O) (dict_set (gkeq O) d k v) k' = if gkeq O k k' then Some v else dict_get (gkeq O) d k'.
Proof.
  induction d as [|[k0 v0] r IH]; cbn [dict_set dict_get].
  - reflexivity.
  - destruct (gkeq O k0 k) eqn:E0; cbn [dict_get].
    + rewrite !gkeq_key_eqb in *. rewrite (key_eqb_cong k0 k k' E0). destruct (key_eqb O k k'); reflexivity.
    + rewrite IH. destruct (gkeq O k0 k') eqn:E1; [|reflexivity].
      destruct (gkeq O k k') eqn:E2; [|reflexivity]. exfalso.
      rewrite !gkeq_key_eqb in *. rewrite (key_eqb_cong k0 k' k E1) in E0.
      assert (S : key_eqb O k' k = key_eqb O k k').
      { unfold key_eqb, pt_keqb. rewrite (Heq_sym (px (fst k'))), (Heq_sym (py (fst k'))), (Heq_sym (px (snd k'))), (Heq_sym (py (snd k'))). reflexivity. }
      congruence.
Qed.
Lemma lut_rel_nil : lut_rel [] [].
Proof. intro k. reflexivity. Qed.
Lemma lut_rel_set (g : glut) (h : lut (T := T)) (k : pt T * pt T) (v : segment T) : lut_rel g h -> lut_rel (dict_set (gkeq O) g k v) ((k, v) :: h).
Proof. intros H k'. rewrite dict_get_set. cbn [lut_find]. rewrite <- gkeq_key_eqb, H. reflexivity. Qed.

(* ---- segments ---- *)
Lemma g_seg_eq_hand (a b : segment T) : g_seg_eq O a b = seg_eq O a b.
Proof.
  destruct a as [a|a|a], b as [b|b|b]; try reflexivity; cbn [g_seg_eq seg_eq seg_pts pts_eq].
  - unfold Line___eq___Line. destruct (Point___eq__ O (l0 a) (l0 b)), (Point___eq__ O (l1 a) (l1 b)); reflexivity.
  - unfold Quad___eq___Quad. destruct (Point___eq__ O (q0 a) (q0 b)), (Point___eq__ O (q1 a) (q1 b)), (Point___eq__ O (q2 a) (q2 b)); reflexivity.
  - unfold Cubic___eq___Cubic. destruct (Point___eq__ O (Ops.c0 a) (Ops.c0 b)), (Point___eq__ O (Ops.c1 a) (Ops.c1 b)), (Point___eq__ O (Ops.c2 a) (Ops.c2 b)), (Point___eq__ O (Ops.c3 a) (Ops.c3 b)); reflexivity.
Qed.
Lemma g_seg_clone_id (s : segment T) : g_seg_clone O s = s.
Proof. destruct s as [[[] []]|[[] [] []]|[[] [] [] []]]; reflexivity. Qed.
Lemma map_clone_id (l : list (segment T)) : map (g_seg_clone O) l = l.
Proof. induction l as [|s l IH]; [reflexivity|]. cbn [map]. rewrite g_seg_clone_id, IH. reflexivity. Qed.
(* ---- the reconstruction loop ---- *)
Lemma last_error_hd_rev {A : Type} (l : list A) : last_error l = hd_error (rev l).
Proof.
  destruct l as [|a l]; [reflexivity|]. rewrite last_error_last.
  destruct (exists_last (l := a :: l)) as (l' & z & E); [discriminate|]. rewrite E, last_last, rev_app_distr. reflexivity.
Qed.
Lemma combine_app_l {A B : Type} (a : list A) (b : list B) (c : list A) : length a = length b -> combine (a ++ c) b = combine a b.
Proof. revert b. induction a as [|x a IH]; intros [|y b] H; try discriminate; [destruct c; reflexivity|]. cbn [app combine]. f_equal. apply IH. cbn in H. lia. Qed.

Lemma g_fallback_hand (a b : zpt) : g_fallback O a b = fallback_line O a b.
Proof. reflexivity. Qed.

Lemma rebuild_step_gen (flat : bool) (g : glut) (h : lut (T := T)) : lut_rel g h ->
  forall (np : list (segment T)) (ab : zpt * zpt), rev (g_rebuild_step O flat g np ab) = rebuild_step O flat h (rev np) ab.
Proof.
  intros Hl np [a b]. unfold g_rebuild_step, rebuild_step. cbn [fst snd].
  change (P (ofZ O (fst a)) (ofZ O (snd a)), P (ofZ O (fst b)) (ofZ O (snd b))) with (zkey O a, zkey O b).
  rewrite Hl. destruct flat; cbn [negb].
  - destruct (lut_find O h (zkey O a, zkey O b)); rewrite rev_app_distr; reflexivity.
  - destruct (lut_find O h (zkey O a, zkey O b)) as [orig|]; [|rewrite rev_app_distr; reflexivity].
    rewrite last_error_hd_rev. destruct (rev np) as [|lst r] eqn:E; cbn [hd_error].
    + rewrite rev_app_distr, E. reflexivity.
    + unfold seg_ne. rewrite g_seg_eq_hand. destruct (seg_eq O lst orig); cbn [negb]; [exact E|rewrite rev_app_distr, E; reflexivity].
Qed.
Lemma rebuild_fold_gen (flat : bool) (g : glut) (h : lut (T := T)) : lut_rel g h ->
  forall (pairs : list (zpt * zpt)) (np : list (segment T)),
  rev (fold_left (g_rebuild_step O flat g) pairs np) = fold_left (rebuild_step O flat h) pairs (rev np).
Proof.
  intros Hl. induction pairs as [|ab r IH]; intro np; [reflexivity|]. cbn [fold_left]. rewrite IH, (rebuild_step_gen flat g h Hl). reflexivity.
Qed.

Lemma rebuild_poly_gen (flat : bool) (g : glut) (h : lut (T := T)) (out : list gpath) (p : list (Z * Z)) : lut_rel g h ->
  g_rebuild_poly O flat g out p = match rebuild_poly O flat h p with Ok x => Some (Returns (out ++ [x])) | Raise e => Some (Raises (exc_py e)) end.
Proof.
  intro Hl. destruct p as [|x r]; [reflexivity|]. unfold g_rebuild_poly, rebuild_poly. cbv beta iota zeta.
  assert (Epairs : combine ((x :: r) ++ [x]) (tl ((x :: r) ++ [x])) = closed_pairs (x :: r)).
  { unfold closed_pairs. cbn [app tl]. change (x :: r ++ [x]) with ((x :: r) ++ [x]). apply combine_app_l. rewrite app_length. cbn [length]. rewrite Nat.add_1_r. reflexivity. }
  rewrite Epairs.
  assert (Enp := rebuild_fold_gen flat g h Hl (closed_pairs (x :: r)) []). cbn [rev] in Enp.
  set (np := fold_left (g_rebuild_step O flat g) (closed_pairs (x :: r)) []) in *.
  rewrite <- Enp, rev_involutive.
  unfold pop_closing_duplicate.
  destruct np as [|f [|s2 rest]].
  - reflexivity.
  - reflexivity.
  - replace (1 <? Z.of_nat (length (f :: s2 :: rest)))%Z with true by (symmetry; apply Z.ltb_lt; cbn [length]; lia).
    rewrite last_error_last. cbn [bo]. rewrite g_seg_eq_hand.
    destruct (seg_eq O (last (f :: s2 :: rest) f) f); reflexivity.
Qed.

Lemma rebuild_gen (flat : bool) (g : glut) (h : lut (T := T)) : lut_rel g h -> forall (polys : list zpoly),
  g_rebuild O flat g polys = embed (rebuild O flat h polys).
Proof.
  intros Hl polys. unfold g_rebuild.
  assert (G : forall polys out, fold_option_outcome (g_rebuild_poly O flat g) polys out
              = match rebuild O flat h polys with Ok xs => Some (Returns (out ++ xs)) | Raise e => Some (Raises (exc_py e)) end).
  { induction polys0 as [|p r IH]; intro out; cbn [fold_option_outcome rebuild].
    - rewrite app_nil_r. reflexivity.
    - rewrite (rebuild_poly_gen flat g h out p Hl). destruct (rebuild_poly O flat h p) as [x|e]; cbn [rbind]; [|reflexivity].
      rewrite IH. destruct (rebuild O flat h r) as [xs|e]; cbn [rbind]; [|reflexivity]. rewrite <- app_assoc. reflexivity. }
  rewrite G. destruct (rebuild O flat h polys); reflexivity.
Qed.

(* ---- the LUT construction ---- *)
(* what the oracle of the hand model must return for the piece s: the lines the generated flattener computes, each tagged with the piece it was cut
   from (a Line flattens to itself, untagged) *)
Definition tag_of (s : segment T) : option (segment T) := match s with SLine _ => None | _ => Some s end.
Definition flat_ok (fuel : nat) (s : segment T) : Prop :=
  exists fl, flats_of flatten2 s = Some fl /\ g_flat O fuel s = Some (Returns (map (fun e => (e, tag_of s)) fl)).
Lemma flat_ok_line (fuel : nat) (l : seg2 T) : flat_ok fuel (SLine l).
Proof. exists [l]. split; reflexivity. Qed.

Lemma fill_edge_gen (s : segment T) (g : glut) (h : lut (T := T)) (e : seg2 T) : lut_rel g h ->
  lut_rel (g_fill_edge O g (e, tag_of s)) (fill_edge O s h e).
Proof.
  intro Hl. unfold g_fill_edge, fill_edge. cbv zeta. cbn [fst snd].
  assert (Ev : g_orig (e, tag_of s) = lut_value s e) by (destruct s; reflexivity). rewrite Ev.
  apply (lut_rel_set _ _ (g_key O (l1 e), g_key O (l0 e)) (g_seg_reversed O (lut_value s e))).
  apply (lut_rel_set _ _ (g_key O (l0 e), g_key O (l1 e)) (lut_value s e)). exact Hl.
Qed.
Lemma fillLUT_gen (s : segment T) (fl : list (seg2 T)) : forall (g : glut) (h : lut (T := T)), lut_rel g h ->
  lut_rel (fold_left (g_fill_edge O) (map (fun e => (e, tag_of s)) fl) g) (fillLUT O s fl h).
Proof.
  induction fl as [|e r IH]; intros g h Hl; [exact Hl|]. cbn [map fold_left]. unfold fillLUT. cbn [fold_left]. apply IH, fill_edge_gen, Hl.
Qed.

Lemma map_fst_tag (t : option (segment T)) (fl : list (seg2 T)) : map fst (map (fun e => (e, t)) fl) = fl.
Proof. induction fl as [|e r IH]; [reflexivity|]. cbn [map fst]. rewrite IH. reflexivity. Qed.

Lemma fill_gen (fuel : nat) (pieces : list (segment T)) : Forall (flat_ok fuel) pieces ->
  forall (g : glut) (h : lut (T := T)) (acc : list edge), lut_rel g h ->
  match flatten_fill O flatten2 pieces h with
  | Ok (es, h') => exists g' ge, fold_option_outcome (fun '((lut, segs) : glut * list edge) s =>
                                   bx (g_flat O fuel s) (fun r => Some (Returns (fold_left (g_fill_edge O) r lut, segs ++ r)))) pieces (g, acc)
                                 = Some (Returns (g', acc ++ ge)) /\ lut_rel g' h' /\ map fst ge = es
  | Raise _ => False
  end.
Proof.
  induction 1 as [|s r Hs Hr IH]; intros g h acc Hl.
  - cbn [flatten_fill fold_option_outcome]. exists g, []. rewrite app_nil_r. repeat split; [exact Hl].
  - destruct Hs as (fl & Hf & Hg). cbn [flatten_fill fold_option_outcome]. rewrite Hf, Hg. cbn [bx].
    specialize (IH _ _ (acc ++ map (fun e => (e, tag_of s)) fl) (fillLUT_gen s fl g h Hl)).
    destruct (flatten_fill O flatten2 r (fillLUT O s fl h)) as [[es h']|e]; [|contradiction]. cbn [rbind fst snd].
    destruct IH as (g' & ge & E & Hl' & Hm). exists g', (map (fun e => (e, tag_of s)) fl ++ ge).
    rewrite E, app_assoc. repeat split; [exact Hl'|]. rewrite map_app, map_fst_tag, Hm. reflexivity.
Qed.

(* ---- what is handed to Clipper ---- *)
Lemma clip_poly_gen (ge : list edge) : clip_poly toZ (g_clip_path O ge) = to_clipper_poly O toZ (map fst ge).
Proof.
  induction ge as [|[e t] r IH]; [reflexivity|]. cbn [g_clip_path map clip_poly to_clipper_poly fst]. fold (g_clip_path O r). rewrite IH.
  unfold clip_pt, to_clipper_pt. cbn [fst snd]. reflexivity.
Qed.

(* ---- everything after the two splitAtPoints ---- *)
Hypothesis Hclip : forall ct s c, hclipper (ct_of ct) s c = gclipper ct s c.

Definition hand_tail (pieces1 pieces2 : list (segment T)) (ct : cliptype) (flat : bool) : result (list (list (segment T) * bool)) :=
  rbind (rbind (flatten_fill O flatten2 pieces1 []) (fun el1 =>
         rbind (flatten_fill O flatten2 pieces2 (snd el1)) (fun el2 =>
         match to_clipper_poly O toZ (fst el1), to_clipper_poly O toZ (fst el2) with
         | Some subj, Some clp => Ok (subj, clp, snd el2)
         | _, _ => Raise EConvert
         end)))
        (fun scl => let '(subj, clp, l) := scl in
                    match hclipper ct [subj] [clp] with None => Raise EClipper | Some polys => rebuild O flat l polys end).

Theorem clip_tail_gen (fuel : nat) (pieces1 pieces2 : list (segment T)) (ct : clip_type) (flat : bool) :
  Forall (flat_ok fuel) pieces1 -> Forall (flat_ok fuel) pieces2 ->
  g_tail O toZ gclipper fuel pieces1 pieces2 ct flat = embed (hand_tail pieces1 pieces2 (ct_of ct) flat).
Proof.
  intros H1 H2. unfold g_tail, hand_tail, g_fill.
  assert (F1 := fill_gen fuel pieces1 H1 [] [] [] lut_rel_nil).
  destruct (flatten_fill O flatten2 pieces1 []) as [[es1 h1]|]; [|contradiction]. destruct F1 as (g1 & ge1 & E1 & Hl1 & Hm1).
  rewrite E1. cbn [bx rbind fst snd app].
  assert (F2 := fill_gen fuel pieces2 H2 g1 h1 [] Hl1).
  destruct (flatten_fill O flatten2 pieces2 h1) as [[es2 h2]|]; [|contradiction]. destruct F2 as (g2 & ge2 & E2 & Hl2 & Hm2).
  rewrite E2. cbn [bx rbind fst snd app clip_polys].
  rewrite !clip_poly_gen, Hm1, Hm2.
  destruct (to_clipper_poly O toZ es1) as [subj|]; [|reflexivity].
  destruct (to_clipper_poly O toZ es2) as [clp|]; [|reflexivity]. cbn [rbind].
  rewrite Hclip. set (cres := gclipper ct [subj] [clp]). change (gclipper ct [subj] [clp]) with cres. destruct cres as [polys|]; [|reflexivity].
  rewrite (rebuild_gen flat g2 h2 Hl2). destruct (rebuild O flat h2 polys); reflexivity.
Qed.

(* ---- the whole of clip, under the hypotheses that the oracles of the hand model return what the generated sub-functions compute ---- *)
Context {K : Type} (fmt_2f : T -> K) (keq : K -> K -> bool).

Theorem clip_gen (fuel : nat) (self other : list (segment T)) (ct : clip_type) (flat : bool)
        (ints : list (pt T * (segment T * segment T * (T * pt T * T)))) (sl1 sl2 : list (segment T * T)) (pieces1 pieces2 : list (segment T)) :
  (* the split lists are the ones the generated intersection loops compute *)
  g_isect O fmt_2f keq fuel self other = Some (Returns (ints, sl1, sl2)) ->
  (* the pieces are the ones the generated splitAtPoints (Gen/Split.v) and the hand model's splitAtPoints both compute *)
  Path_splitAtPoints O fuel self sl1 = Some pieces1 -> Path_splitAtPoints O fuel other sl2 = Some pieces2 ->
  splitAtPoints O self sl1 = Ok pieces1 -> splitAtPoints O other sl2 = Ok pieces2 ->
  (* flatten2 returns the lines the generated flatteners compute *)
  Forall (flat_ok fuel) pieces1 -> Forall (flat_ok fuel) pieces2 ->
  Path_clip O fmt_2f keq toZ gclipper fuel self other ct flat = embed (clip O toZ hclipper flatten2 self other sl1 sl2 (ct_of ct) flat).
Proof.
  intros Hi Hg1 Hg2 Hh1 Hh2 F1 F2.
  rewrite clip_unfold, !map_clone_id, Hi. cbn [bx]. rewrite Hg1, Hg2, (clip_tail_gen fuel pieces1 pieces2 ct flat F1 F2).
  unfold clip, clip_run, prepare. cbv zeta. rewrite Hh1, Hh2. reflexivity.
Qed.

Lemma Path_union_clip (fuel : nat) (self other : list (segment T)) (flat : bool) :
  Path_union O fmt_2f keq toZ gclipper fuel self other flat = Path_clip O fmt_2f keq toZ gclipper fuel self other Ct_union flat.
Proof. unfold Path_union. destruct (Path_clip O fmt_2f keq toZ gclipper fuel self other Ct_union flat) as [[r|e]|]; reflexivity. Qed.
Lemma Path_intersection_clip (fuel : nat) (self other : list (segment T)) (flat : bool) :
  Path_intersection O fmt_2f keq toZ gclipper fuel self other flat = Path_clip O fmt_2f keq toZ gclipper fuel self other Ct_intersection flat.
Proof. unfold Path_intersection. destruct (Path_clip O fmt_2f keq toZ gclipper fuel self other Ct_intersection flat) as [[r|e]|]; reflexivity. Qed.
Lemma Path_difference_clip (fuel : nat) (self other : list (segment T)) (flat : bool) :
  Path_difference O fmt_2f keq toZ gclipper fuel self other flat = Path_clip O fmt_2f keq toZ gclipper fuel self other Ct_difference flat.
Proof. unfold Path_difference. destruct (Path_clip O fmt_2f keq toZ gclipper fuel self other Ct_difference flat) as [[r|e]|]; reflexivity. Qed.

End Glue.

(* the carrier hypotheses of Section Glue hold for the reals *)
Lemma Heq_sym_R (a b : R) : eqb ROps a b = eqb ROps b a.
Proof. cbn. destruct (Req_EM_T a b), (Req_EM_T b a); try reflexivity; congruence. Qed.
Lemma Heq_trans_R (a b c : R) : eqb ROps a b = true -> eqb ROps b c = true -> eqb ROps a c = true.
Proof. cbn. destruct (Req_EM_T a b), (Req_EM_T b c), (Req_EM_T a c); try reflexivity; try discriminate. congruence. Qed.
Lemma Heq_close_R (p q : pt R) : eqb ROps (px p) (px q) = true -> eqb ROps (py p) (py q) = true -> Point___eq__ ROps p q = true.
Proof.
  destruct p as [x y], q as [x' y']. cbn [px py eqb ROps]. destruct (Req_EM_T x x') as [<-|]; [|discriminate]. destruct (Req_EM_T y y') as [<-|]; [|discriminate].
  intros _ _. unfold Point___eq__. cbn [px py]. cbv zeta.
  assert (G : forall a m : R, Ops.leb ROps (Ops.abs_ ROps (Ops.sub ROps a a)) (max2 ROps m (Ops.lit ROps 0 1 0x0.0p+0%float)) = true).
  { intros a m. unfold max2. cbn. replace (a - a)%R with 0%R by lra. rewrite Rabs_R0. replace (0 / 1)%R with 0%R by lra.
    destruct (Rlt_dec m 0); destruct (Rle_dec 0 _) as [|nn]; try reflexivity; exfalso; apply nn; lra. }
  rewrite !G. reflexivity.
Qed.
Theorem clip_gen_R {K : Type} (fmt_2f : R -> K) (keq : K -> K -> bool) toZ gclipper hclipper flatten2 :
  (forall ct s c, hclipper (ct_of ct) s c = gclipper ct s c) ->
  forall fuel self other ct flat ints sl1 sl2 pieces1 pieces2,
  g_isect ROps fmt_2f keq fuel self other = Some (Returns (ints, sl1, sl2)) ->
  Path_splitAtPoints ROps fuel self sl1 = Some pieces1 -> Path_splitAtPoints ROps fuel other sl2 = Some pieces2 ->
  splitAtPoints ROps self sl1 = Ok pieces1 -> splitAtPoints ROps other sl2 = Ok pieces2 ->
  Forall (flat_ok ROps flatten2 fuel) pieces1 -> Forall (flat_ok ROps flatten2 fuel) pieces2 ->
  Path_clip ROps fmt_2f keq toZ gclipper fuel self other ct flat = embed (clip ROps toZ hclipper flatten2 self other sl1 sl2 (ct_of ct) flat).
Proof. intros Hc. intros. apply (clip_gen ROps toZ gclipper hclipper flatten2 Heq_sym_R Heq_trans_R Heq_close_R Hc fmt_2f keq fuel self other ct flat ints sl1 sl2 pieces1 pieces2); assumption. Qed.

End ClipBridge.
