(* C10, positivity clause: "signed area is positive for simple counter-clockwise contours".

   Sign convention of the library (Hand/Shoelace.v): signed_area = 1/2 * sum over the edges of (x_i*y_{i+1} - y_i*x_{i+1}),
   positive for counter-clockwise polygons in the usual y-up orientation.

   There is no formal notion of "simple" here; instead positivity is proved for explicit classes of closed polylines:
     - closed chains that are star-shaped counter-clockwise about SOME centre c (every edge a->b has
       cross (a - c) (b - c) >= 0, at least one > 0), as edge lists and as vertex lists;
     - fans from the first vertex (the case c = v0);
     - convex counter-clockwise polygons (every vertex on the left of, or on, every directed edge; not all collinear);
     - "ear-built" polygons: start from a counter-clockwise triangle and repeatedly replace an edge a->b by a->v->b with
       the triangle (a, v, b) clockwise-or-flat, i.e. v on the right of a->b (an ear glued on from outside).  Every
       simple counter-clockwise polygon is of this form (two-ears theorem; NOT formalised), and so are the others above.
   and the clockwise mirrors; plus direction = +1 / -1, and non-vacuity examples (triangle, square, the library's
   Rectangle, which is clockwise). *)
From Coq Require Import PrimFloat.
From Coq Require Import ZArith List Bool Reals Lra Lia Psatz.
From BZ Require Import Base.Ops Proofs.Tactics Gen.Point Gen.Line Hand.Shoelace Proofs.C10.
Import ListNotations.
Open Scope R_scope.

(* ================================================================================================== *)
(* 0. cross products                                                                                   *)
(* ================================================================================================== *)

(* cross product of two vectors, and of (a - c), (b - c): twice the signed area of the triangle (c, a, b) *)
Definition crossp (a b : pt R) : R := px a * py b - py a * px b.
Definition crossv (c a b : pt R) : R := (px a - px c) * (py b - py c) - (py a - py c) * (px b - px c).

Lemma crossv_sub (c a b : pt R) : crossv c a b = crossp (Point___sub__ ROps a c) (Point___sub__ ROps b c).
Proof. reflexivity. Qed.
Lemma cross_crossp (l : seg2 R) : cross l = crossp (l0 l) (l1 l).
Proof. reflexivity. Qed.
Lemma crossv_origin (a b : pt R) : crossv (P 0 0) a b = crossp a b.
Proof. unfold crossv, crossp. cbn [px py]. ring. Qed.
Lemma crossv_cyclic (c a b : pt R) : crossv c a b = crossv a b c.
Proof. unfold crossv. ring. Qed.
Lemma crossv_swap (c a b : pt R) : crossv c b a = - crossv c a b.
Proof. unfold crossv. ring. Qed.
Lemma crossv_same_l (c b : pt R) : crossv c c b = 0.
Proof. unfold crossv. ring. Qed.
Lemma crossv_same_r (c a : pt R) : crossv c a c = 0.
Proof. unfold crossv. ring. Qed.
(* replacing the edge a->b by a->v->b changes the shoelace sum by the triangle (a, v, b) *)
Lemma cross_insert (a v b : pt R) : cross (L2 a v) + cross (L2 v b) = cross (L2 a b) + crossv a v b.
Proof. unfold cross, crossv. cbn [l0 l1]. ring. Qed.

(* sums over lists *)
Fixpoint sumf {A : Type} (f : A -> R) (l : list A) : R :=
  match l with [] => 0 | a :: r => f a + sumf f r end.

Lemma sumf_app {A} (f : A -> R) (a b : list A) : sumf f (a ++ b) = sumf f a + sumf f b.
Proof. induction a as [| x r IH]; simpl; [ring | rewrite IH; ring]. Qed.
Lemma sumf_opp {A} (f : A -> R) (l : list A) : sumf (fun a => - f a) l = - sumf f l.
Proof. induction l as [| x r IH]; simpl; [ring | rewrite IH; ring]. Qed.
Lemma sumf_nonneg {A} (f : A -> R) (l : list A) : Forall (fun a => 0 <= f a) l -> 0 <= sumf f l.
Proof. induction 1 as [| x r Hx _ IH]; simpl; lra. Qed.
Lemma sumf_pos {A} (f : A -> R) (l : list A) :
  Forall (fun a => 0 <= f a) l -> Exists (fun a => 0 < f a) l -> 0 < sumf f l.
Proof.
  intros Hall Hex. induction Hex as [x r Hx | x r _ IH]; inversion Hall as [| y r' Hy Hr]; subst; simpl.
  - pose proof (sumf_nonneg f r Hr). lra.
  - specialize (IH Hr). lra.
Qed.
Lemma sumf_neg {A} (f : A -> R) (l : list A) :
  Forall (fun a => f a <= 0) l -> Exists (fun a => f a < 0) l -> sumf f l < 0.
Proof.
  intros Hall Hex. assert (H : 0 < sumf (fun a => - f a) l).
  { apply sumf_pos.
    - eapply Forall_impl; [ | exact Hall]. cbv beta. intros; lra.
    - eapply Exists_impl; [ | exact Hex]. cbv beta. intros; lra. }
  rewrite sumf_opp in H. lra.
Qed.

(* ================================================================================================== *)
(* 1. the shoelace sum of a closed chain about an arbitrary centre (translation invariance)            *)
(* ================================================================================================== *)

(* the summand of an edge seen from the centre c: cross (start - c) (end - c) *)
Definition edge_about (c : pt R) (l : seg2 R) : R := crossv c (l0 l) (l1 l).
Definition cross_sum_about (c : pt R) (ls : list (seg2 R)) : R := sumf (edge_about c) ls.

Lemma cross_about (c : pt R) (l : seg2 R) :
  cross l = edge_about c l + (px c * (py (l1 l) - py (l0 l)) - py c * (px (l1 l) - px (l0 l))).
Proof. unfold cross, edge_about, crossv. ring. Qed.

Lemma chain_cross_sum_about (c : pt R) (ls : list (seg2 R)) (p q : pt R) :
  chain_from p ls q ->
  cross_sum ls = cross_sum_about c ls + (px c * (py q - py p) - py c * (px q - px p)).
Proof.
  unfold cross_sum_about. revert p. induction ls as [| l r IH]; intros p Hc; cbn [chain_from cross_sum sumf] in *.
  - subst q. ring.
  - destruct Hc as [Hp Hr]. rewrite (IH _ Hr), (cross_about c l). subst p. ring.
Qed.

(* over a CLOSED cycle the sum of cross (v_i - c) (v_{i+1} - c) does not depend on c *)
Theorem closed_cross_sum_about (c : pt R) (ls : list (seg2 R)) :
  closed_chain ls -> cross_sum ls = cross_sum_about c ls.
Proof.
  intro Hc. destruct ls as [| l r]; [reflexivity | ].
  cbn [closed_chain] in Hc. unfold cross_sum_about. cbn [cross_sum sumf].
  rewrite (chain_cross_sum_about c _ _ _ Hc), (cross_about c l). unfold cross_sum_about. ring.
Qed.

Theorem signed_area_about (c : pt R) (ls : list (seg2 R)) :
  closed_chain ls -> signed_area_lines ROps ls = cross_sum_about c ls / 2.
Proof. intro Hc. rewrite signed_area_lines_sum, (closed_cross_sum_about c ls Hc). reflexivity. Qed.

(* ================================================================================================== *)
(* 2. star-shaped closed chains                                                                        *)
(* ================================================================================================== *)

(* seen from c, no edge turns clockwise and at least one turns counter-clockwise *)
Definition star_ccw (c : pt R) (ls : list (seg2 R)) : Prop :=
  Forall (fun l => 0 <= edge_about c l) ls /\ Exists (fun l => 0 < edge_about c l) ls.
Definition star_cw (c : pt R) (ls : list (seg2 R)) : Prop :=
  Forall (fun l => edge_about c l <= 0) ls /\ Exists (fun l => edge_about c l < 0) ls.
(* c strictly inside: every edge turns counter-clockwise *)
Definition star_ccw_strict (c : pt R) (ls : list (seg2 R)) : Prop :=
  ls <> [] /\ Forall (fun l => 0 < edge_about c l) ls.
Definition star_cw_strict (c : pt R) (ls : list (seg2 R)) : Prop :=
  ls <> [] /\ Forall (fun l => edge_about c l < 0) ls.

Lemma star_ccw_strict_weak c ls : star_ccw_strict c ls -> star_ccw c ls.
Proof.
  intros [Hne Hall]. split.
  - eapply Forall_impl; [ | exact Hall]. cbv beta. intros; lra.
  - destruct ls as [| l r]; [congruence | ]. inversion Hall; subst. left. assumption.
Qed.
Lemma star_cw_strict_weak c ls : star_cw_strict c ls -> star_cw c ls.
Proof.
  intros [Hne Hall]. split.
  - eapply Forall_impl; [ | exact Hall]. cbv beta. intros; lra.
  - destruct ls as [| l r]; [congruence | ]. inversion Hall; subst. left. assumption.
Qed.

Theorem star_ccw_positive (c : pt R) (ls : list (seg2 R)) :
  closed_chain ls -> star_ccw c ls -> 0 < signed_area_lines ROps ls.
Proof.
  intros Hc [Hall Hex]. rewrite (signed_area_about c ls Hc).
  pose proof (sumf_pos (edge_about c) ls Hall Hex) as H. unfold cross_sum_about. lra.
Qed.

Theorem star_cw_negative (c : pt R) (ls : list (seg2 R)) :
  closed_chain ls -> star_cw c ls -> signed_area_lines ROps ls < 0.
Proof.
  intros Hc [Hall Hex]. rewrite (signed_area_about c ls Hc).
  pose proof (sumf_neg (edge_about c) ls Hall Hex) as H. unfold cross_sum_about. lra.
Qed.

Corollary star_ccw_strict_positive (c : pt R) (ls : list (seg2 R)) :
  closed_chain ls -> star_ccw_strict c ls -> 0 < signed_area_lines ROps ls.
Proof. intros Hc H. exact (star_ccw_positive c ls Hc (star_ccw_strict_weak c ls H)). Qed.
Corollary star_cw_strict_negative (c : pt R) (ls : list (seg2 R)) :
  closed_chain ls -> star_cw_strict c ls -> signed_area_lines ROps ls < 0.
Proof. intros Hc H. exact (star_cw_negative c ls Hc (star_cw_strict_weak c ls H)). Qed.

(* reversal exchanges the two classes *)
Lemma edge_about_reversed (c : pt R) (l : seg2 R) : edge_about c (Line_reversed ROps l) = - edge_about c l.
Proof. destruct l as [a b]. unfold edge_about. cbn. apply crossv_swap. Qed.

Lemma star_ccw_reverse (c : pt R) (ls : list (seg2 R)) : star_ccw c ls -> star_cw c (reverse_lines ROps ls).
Proof.
  intros [Hall Hex]. unfold reverse_lines. split.
  - apply Forall_forall. intros l Hl. apply in_map_iff in Hl. destruct Hl as [l' [<- Hl']].
    apply in_rev in Hl'. rewrite edge_about_reversed.
    pose proof (proj1 (Forall_forall _ _) Hall l' Hl') as H. cbv beta in H. lra.
  - apply Exists_exists in Hex. destruct Hex as [l' [Hl' Hpos]]. apply Exists_exists.
    exists (Line_reversed ROps l'). split.
    + apply in_map. apply -> in_rev. exact Hl'.
    + rewrite edge_about_reversed. lra.
Qed.

(* ================================================================================================== *)
(* 3. polygons as vertex lists                                                                         *)
(* ================================================================================================== *)

(* the polyline p -> vs(0) -> vs(1) -> ... -> q *)
Fixpoint path_edges (p : pt R) (vs : list (pt R)) (q : pt R) : list (seg2 R) :=
  match vs with
  | [] => [L2 p q]
  | v :: r => L2 p v :: path_edges v r q
  end.
(* the closed polygon v0 -> v1 -> ... -> vn -> v0 *)
Definition edges_of (poly : list (pt R)) : list (seg2 R) :=
  match poly with [] => [] | v0 :: vs => path_edges v0 vs v0 end.

Lemma path_edges_chain (p : pt R) (vs : list (pt R)) (q : pt R) : chain_from p (path_edges p vs q) q.
Proof.
  revert p. induction vs as [| v r IH]; intro p; cbn [path_edges chain_from l0 l1].
  - split; reflexivity.
  - split; [reflexivity | apply IH].
Qed.

Theorem edges_of_chain (v0 : pt R) (vs : list (pt R)) : chain_from v0 (edges_of (v0 :: vs)) v0.
Proof. apply path_edges_chain. Qed.

Theorem edges_of_closed (poly : list (pt R)) : closed_chain (edges_of poly).
Proof.
  destruct poly as [| v0 vs]; [exact I | ].
  apply closed_chain_from. right. exists v0. apply edges_of_chain.
Qed.

Lemma edges_of_length (v0 : pt R) (vs : list (pt R)) : length (edges_of (v0 :: vs)) = S (length vs).
Proof.
  cbn [edges_of]. generalize v0 at 1 as p. induction vs as [| v r IH]; intro p; cbn [path_edges length]; [reflexivity | ].
  rewrite IH. reflexivity.
Qed.

(* the vertices of the polygon are exactly the start points of its edges *)
Lemma path_edges_starts (p : pt R) (vs : list (pt R)) (q : pt R) : map l0 (path_edges p vs q) = p :: vs.
Proof. revert p. induction vs as [| v r IH]; intro p; cbn [path_edges map l0]; [reflexivity | rewrite IH; reflexivity]. Qed.
Lemma edges_of_starts (poly : list (pt R)) : map l0 (edges_of poly) = poly.
Proof. destruct poly as [| v0 vs]; [reflexivity | apply path_edges_starts]. Qed.

(* consecutive pairs *)
Fixpoint pairs (vs : list (pt R)) : list (pt R * pt R) :=
  match vs with
  | a :: r => match r with b :: _ => (a, b) :: pairs r | [] => [] end
  | [] => []
  end.
Definition pair_about (c : pt R) (ab : pt R * pt R) : R := crossv c (fst ab) (snd ab).
(* sum over the triangles (v0, v_i, v_{i+1}) of the fan from v0 *)
Definition fan_sum (v0 : pt R) (vs : list (pt R)) : R := sumf (pair_about v0) (pairs vs).

Lemma about_path_edges (c p : pt R) (vs : list (pt R)) :
  cross_sum_about c (path_edges p vs c) = fan_sum c (p :: vs).
Proof.
  unfold cross_sum_about, fan_sum. revert p. induction vs as [| v r IH]; intro p.
  - cbn [path_edges pairs sumf]. unfold edge_about. cbn [l0 l1]. rewrite crossv_same_r. ring.
  - cbn [path_edges sumf]. rewrite IH. cbn [pairs sumf]. reflexivity.
Qed.

(* ---- fan decomposition: the shoelace value is the sum of the signed triangle areas of the fan from v0 ---- *)
Theorem fan_decomposition (v0 : pt R) (vs : list (pt R)) :
  signed_area_lines ROps (edges_of (v0 :: vs)) = fan_sum v0 vs / 2.
Proof.
  rewrite (signed_area_about v0 _ (edges_of_closed (v0 :: vs))). cbn [edges_of].
  rewrite about_path_edges. unfold fan_sum. destruct vs as [| v r].
  - reflexivity.
  - cbn [pairs sumf]. unfold pair_about at 1. cbn [fst snd]. rewrite crossv_same_l. f_equal. ring.
Qed.

(* the same, written out: 1/2 * sum_i cross (v_i - v0) (v_{i+1} - v0) with the library's Point.__sub__ *)
Corollary fan_decomposition_sub (v0 : pt R) (vs : list (pt R)) :
  signed_area_lines ROps (edges_of (v0 :: vs)) =
  sumf (fun ab => crossp (Point___sub__ ROps (fst ab) v0) (Point___sub__ ROps (snd ab) v0)) (pairs vs) / 2.
Proof. apply fan_decomposition. Qed.

(* fan from v0: no triangle (v0, v_i, v_{i+1}) clockwise, at least one counter-clockwise *)
Definition fan_ccw (v0 : pt R) (vs : list (pt R)) : Prop :=
  Forall (fun ab => 0 <= pair_about v0 ab) (pairs vs) /\ Exists (fun ab => 0 < pair_about v0 ab) (pairs vs).
Definition fan_cw (v0 : pt R) (vs : list (pt R)) : Prop :=
  Forall (fun ab => pair_about v0 ab <= 0) (pairs vs) /\ Exists (fun ab => pair_about v0 ab < 0) (pairs vs).

Theorem fan_ccw_positive (v0 : pt R) (vs : list (pt R)) :
  fan_ccw v0 vs -> 0 < signed_area_lines ROps (edges_of (v0 :: vs)).
Proof.
  intros [Hall Hex]. rewrite fan_decomposition.
  pose proof (sumf_pos _ _ Hall Hex) as H. unfold fan_sum. lra.
Qed.
Theorem fan_cw_negative (v0 : pt R) (vs : list (pt R)) :
  fan_cw v0 vs -> signed_area_lines ROps (edges_of (v0 :: vs)) < 0.
Proof.
  intros [Hall Hex]. rewrite fan_decomposition.
  pose proof (sumf_neg _ _ Hall Hex) as H. unfold fan_sum. lra.
Qed.

(* star-shaped polygons given by their vertices, any centre *)
Theorem star_polygon_positive (c : pt R) (poly : list (pt R)) :
  star_ccw c (edges_of poly) -> 0 < signed_area_lines ROps (edges_of poly).
Proof. apply star_ccw_positive, edges_of_closed. Qed.
Theorem star_polygon_negative (c : pt R) (poly : list (pt R)) :
  star_cw c (edges_of poly) -> signed_area_lines ROps (edges_of poly) < 0.
Proof. apply star_cw_negative, edges_of_closed. Qed.

(* ---- convex polygons: every vertex on the left of (or on) every directed edge, not all collinear ---- *)
(* crossv a b v = cross (b - a) (v - a) > 0  iff  v is strictly on the left of the directed line a -> b *)
Definition convex_ccw (poly : list (pt R)) : Prop :=
  (forall l v, In l (edges_of poly) -> In v poly -> 0 <= crossv (l0 l) (l1 l) v) /\
  (exists l v, In l (edges_of poly) /\ In v poly /\ 0 < crossv (l0 l) (l1 l) v).
Definition convex_cw (poly : list (pt R)) : Prop :=
  (forall l v, In l (edges_of poly) -> In v poly -> crossv (l0 l) (l1 l) v <= 0) /\
  (exists l v, In l (edges_of poly) /\ In v poly /\ crossv (l0 l) (l1 l) v < 0).

Lemma convex_ccw_star (poly : list (pt R)) : convex_ccw poly -> exists v, In v poly /\ star_ccw v (edges_of poly).
Proof.
  intros [Hall [l [v [Hl [Hv Hpos]]]]]. exists v. split; [exact Hv | ]. split.
  - apply Forall_forall. intros e He. unfold edge_about. rewrite crossv_cyclic. exact (Hall e v He Hv).
  - apply Exists_exists. exists l. split; [exact Hl | ]. unfold edge_about. rewrite crossv_cyclic. exact Hpos.
Qed.
Lemma convex_cw_star (poly : list (pt R)) : convex_cw poly -> exists v, In v poly /\ star_cw v (edges_of poly).
Proof.
  intros [Hall [l [v [Hl [Hv Hneg]]]]]. exists v. split; [exact Hv | ]. split.
  - apply Forall_forall. intros e He. unfold edge_about. rewrite crossv_cyclic. exact (Hall e v He Hv).
  - apply Exists_exists. exists l. split; [exact Hl | ]. unfold edge_about. rewrite crossv_cyclic. exact Hneg.
Qed.

Theorem convex_ccw_positive (poly : list (pt R)) :
  convex_ccw poly -> 0 < signed_area_lines ROps (edges_of poly).
Proof. intro H. destruct (convex_ccw_star poly H) as [v [_ Hs]]. exact (star_polygon_positive v poly Hs). Qed.
Theorem convex_cw_negative (poly : list (pt R)) :
  convex_cw poly -> signed_area_lines ROps (edges_of poly) < 0.
Proof. intro H. destruct (convex_cw_star poly H) as [v [_ Hs]]. exact (star_polygon_negative v poly Hs). Qed.

(* a convex counter-clockwise polygon is a counter-clockwise fan from its first vertex as soon as some triangle of the
   fan is non-degenerate; in any case no triangle of the fan is clockwise *)
Lemma in_pairs_edge (p : pt R) (vs : list (pt R)) (q : pt R) (ab : pt R * pt R) :
  In ab (pairs (p :: vs)) -> In (L2 (fst ab) (snd ab)) (path_edges p vs q).
Proof.
  revert p. induction vs as [| v r IH]; intro p; cbn [pairs path_edges In].
  - tauto.
  - intros [<- | Hin]; [left; reflexivity | right; exact (IH v Hin)].
Qed.
Lemma convex_ccw_fan_nonneg (v0 : pt R) (vs : list (pt R)) :
  convex_ccw (v0 :: vs) -> Forall (fun ab => 0 <= pair_about v0 ab) (pairs vs).
Proof.
  intros [Hall _]. apply Forall_forall. intros ab Hin. unfold pair_about. rewrite crossv_cyclic.
  apply (Hall (L2 (fst ab) (snd ab)) v0); [ | left; reflexivity].
  cbn [edges_of]. destruct vs as [| v r]; [destruct Hin | ].
  right. exact (in_pairs_edge v r v0 ab Hin).
Qed.

(* ================================================================================================== *)
(* 4. ear-built polygons                                                                               *)
(* ================================================================================================== *)

(* start from a counter-clockwise triangle; replace an edge a->b by a->v->b where the triangle (a, v, b) is
   counter-clockwise or flat (v on the right of, or on, a->b: the ear is glued on from the outside of a
   counter-clockwise contour, or the edge is merely subdivided) *)
Inductive ear_ccw : list (seg2 R) -> Prop :=
| ear_triangle (a b c : pt R) : 0 < crossv a b c -> ear_ccw [L2 a b; L2 b c; L2 c a]
| ear_insert (ls1 ls2 : list (seg2 R)) (a b v : pt R) :
    ear_ccw (ls1 ++ L2 a b :: ls2) -> 0 <= crossv a v b -> ear_ccw (ls1 ++ L2 a v :: L2 v b :: ls2).
Inductive ear_cw : list (seg2 R) -> Prop :=
| ear_triangle_cw (a b c : pt R) : crossv a b c < 0 -> ear_cw [L2 a b; L2 b c; L2 c a]
| ear_insert_cw (ls1 ls2 : list (seg2 R)) (a b v : pt R) :
    ear_cw (ls1 ++ L2 a b :: ls2) -> crossv a v b <= 0 -> ear_cw (ls1 ++ L2 a v :: L2 v b :: ls2).

Lemma chain_from_app_inv (a b : list (seg2 R)) (p q : pt R) :
  chain_from p (a ++ b) q -> exists m, chain_from p a m /\ chain_from m b q.
Proof.
  revert p. induction a as [| l r IH]; intros p H; cbn [app chain_from] in *.
  - exists p. split; [reflexivity | exact H].
  - destruct H as [Hp Hr]. destruct (IH _ Hr) as [m [Ha Hb]]. exists m. repeat split; assumption.
Qed.

Lemma closed_chain_insert (ls1 ls2 : list (seg2 R)) (a b v : pt R) :
  closed_chain (ls1 ++ L2 a b :: ls2) -> closed_chain (ls1 ++ L2 a v :: L2 v b :: ls2).
Proof.
  intro H. apply closed_chain_from in H. apply closed_chain_from. right.
  destruct H as [H | [p H]]; [destruct ls1; discriminate | ].
  exists p. apply chain_from_app_inv in H. destruct H as [m [H1 H2]].
  apply (chain_from_app _ _ _ m); [exact H1 | ].
  cbn [chain_from l0 l1] in *. destruct H2 as [Hm H2]. repeat split; assumption.
Qed.

Lemma cross_sum_insert (ls1 ls2 : list (seg2 R)) (a b v : pt R) :
  cross_sum (ls1 ++ L2 a v :: L2 v b :: ls2) = cross_sum (ls1 ++ L2 a b :: ls2) + crossv a v b.
Proof. rewrite !cross_sum_app. cbn [cross_sum]. pose proof (cross_insert a v b). lra. Qed.

(* inserting a vertex adds the signed area of the triangle (a, v, b) *)
Theorem signed_area_insert (ls1 ls2 : list (seg2 R)) (a b v : pt R) :
  signed_area_lines ROps (ls1 ++ L2 a v :: L2 v b :: ls2) =
  signed_area_lines ROps (ls1 ++ L2 a b :: ls2) + crossv a v b / 2.
Proof. rewrite !signed_area_lines_sum, cross_sum_insert. field. Qed.

Lemma triangle_area_crossv (a b c : pt R) : signed_area_lines ROps [L2 a b; L2 b c; L2 c a] = crossv a b c / 2.
Proof. rewrite signed_area_lines_sum. unfold crossv, cross_sum, cross. cbn [l0 l1]. field. Qed.

Theorem ear_ccw_closed_positive (ls : list (seg2 R)) :
  ear_ccw ls -> closed_chain ls /\ 0 < signed_area_lines ROps ls.
Proof.
  induction 1 as [a b c Hpos | ls1 ls2 a b v _ [IHc IHp] Hv].
  - split; [cbn; repeat split | rewrite triangle_area_crossv; lra].
  - split; [exact (closed_chain_insert _ _ _ _ _ IHc) | rewrite signed_area_insert; lra].
Qed.
Theorem ear_cw_closed_negative (ls : list (seg2 R)) :
  ear_cw ls -> closed_chain ls /\ signed_area_lines ROps ls < 0.
Proof.
  induction 1 as [a b c Hneg | ls1 ls2 a b v _ [IHc IHp] Hv].
  - split; [cbn; repeat split | rewrite triangle_area_crossv; lra].
  - split; [exact (closed_chain_insert _ _ _ _ _ IHc) | rewrite signed_area_insert; lra].
Qed.

(* ================================================================================================== *)
(* 5. direction                                                                                        *)
(* ================================================================================================== *)

Lemma direction_pos (ls : list (seg2 R)) : 0 < signed_area_lines ROps ls -> direction_lines ROps ls = 1.
Proof. intro H. apply direction_sign. lra. Qed.
Lemma direction_neg (ls : list (seg2 R)) : signed_area_lines ROps ls < 0 -> direction_lines ROps ls = -1.
Proof. intro H. apply direction_sign. exact H. Qed.

Theorem star_ccw_direction (c : pt R) (ls : list (seg2 R)) :
  closed_chain ls -> star_ccw c ls -> direction_lines ROps ls = 1.
Proof. intros Hc H. apply direction_pos. exact (star_ccw_positive c ls Hc H). Qed.
Theorem star_cw_direction (c : pt R) (ls : list (seg2 R)) :
  closed_chain ls -> star_cw c ls -> direction_lines ROps ls = -1.
Proof. intros Hc H. apply direction_neg. exact (star_cw_negative c ls Hc H). Qed.
Theorem fan_ccw_direction (v0 : pt R) (vs : list (pt R)) :
  fan_ccw v0 vs -> direction_lines ROps (edges_of (v0 :: vs)) = 1.
Proof. intro H. apply direction_pos. exact (fan_ccw_positive v0 vs H). Qed.
Theorem fan_cw_direction (v0 : pt R) (vs : list (pt R)) :
  fan_cw v0 vs -> direction_lines ROps (edges_of (v0 :: vs)) = -1.
Proof. intro H. apply direction_neg. exact (fan_cw_negative v0 vs H). Qed.
Theorem convex_ccw_direction (poly : list (pt R)) :
  convex_ccw poly -> direction_lines ROps (edges_of poly) = 1.
Proof. intro H. apply direction_pos. exact (convex_ccw_positive poly H). Qed.
Theorem convex_cw_direction (poly : list (pt R)) :
  convex_cw poly -> direction_lines ROps (edges_of poly) = -1.
Proof. intro H. apply direction_neg. exact (convex_cw_negative poly H). Qed.
Theorem ear_ccw_direction (ls : list (seg2 R)) : ear_ccw ls -> direction_lines ROps ls = 1.
Proof. intro H. apply direction_pos. exact (proj2 (ear_ccw_closed_positive ls H)). Qed.
Theorem ear_cw_direction (ls : list (seg2 R)) : ear_cw ls -> direction_lines ROps ls = -1.
Proof. intro H. apply direction_neg. exact (proj2 (ear_cw_closed_negative ls H)). Qed.

(* area = |signed area| is the signed area itself for counter-clockwise contours *)
Corollary star_ccw_area (c : pt R) (ls : list (seg2 R)) :
  closed_chain ls -> star_ccw c ls -> area_lines ROps ls = signed_area_lines ROps ls.
Proof. intros Hc H. rewrite area_abs. apply Rabs_pos_eq. pose proof (star_ccw_positive c ls Hc H). lra. Qed.

(* ================================================================================================== *)
(* 6. non-vacuity                                                                                      *)
(* ================================================================================================== *)

Ltac split_Forall :=
  repeat match goal with
  | |- Forall _ _ => first [apply Forall_nil | apply Forall_cons]
  end.
Ltac solve_In := cbn [In]; repeat (first [left; reflexivity | right]).
Ltac split_In :=
  repeat match goal with
  | H : In _ (_ :: _) |- _ => cbn [In] in H
  | H : _ \/ _ |- _ => destruct H as [H | H]
  | H : False |- _ => destruct H
  end.

(* the triangle of Proofs/C10.v: (0,0) -> (4,0) -> (0,3) *)
Definition tri_pts : list (pt R) := [P 0 0; P 4 0; P 0 3].
Example tri_edges : edges_of tri_pts = triangle.
Proof. reflexivity. Qed.
Example tri_fan_ccw : fan_ccw (P 0 0) [P 4 0; P 0 3].
Proof.
  split.
  - split_Forall; unfold pair_about, crossv; cbn [fst snd px py]; lra.
  - left. unfold pair_about, crossv; cbn [fst snd px py]; lra.
Qed.
Example tri_star_strict : star_ccw_strict (P 1 1) (edges_of tri_pts).
Proof. split; [discriminate | ]. split_Forall; unfold edge_about, crossv; cbn [l0 l1 px py]; lra. Qed.
Example tri_convex_ccw : convex_ccw tri_pts.
Proof.
  split.
  - intros l v Hl Hv. cbn [tri_pts edges_of path_edges] in Hl. unfold tri_pts in Hv. split_In; subst;
      unfold crossv; cbn [l0 l1 px py]; lra.
  - exists (L2 (P 0 0) (P 4 0)), (P 0 3). split; [solve_In | split; [unfold tri_pts; solve_In | ]].
    unfold crossv; cbn [l0 l1 px py]; lra.
Qed.
Example tri_ear_ccw : ear_ccw (edges_of tri_pts).
Proof. apply ear_triangle. unfold crossv; cbn [px py]; lra. Qed.
Example tri_positive : 0 < signed_area_lines ROps triangle /\ direction_lines ROps triangle = 1.
Proof.
  rewrite <- tri_edges. split; [exact (convex_ccw_positive _ tri_convex_ccw) | exact (convex_ccw_direction _ tri_convex_ccw)].
Qed.

(* the counter-clockwise unit square (0,0) -> (1,0) -> (1,1) -> (0,1) *)
Definition sq_pts : list (pt R) := [P 0 0; P 1 0; P 1 1; P 0 1].
Example sq_fan_ccw : fan_ccw (P 0 0) [P 1 0; P 1 1; P 0 1].
Proof.
  split.
  - split_Forall; unfold pair_about, crossv; cbn [fst snd px py]; lra.
  - left. unfold pair_about, crossv; cbn [fst snd px py]; lra.
Qed.
Example sq_star_strict : star_ccw_strict (P (1/2) (1/2)) (edges_of sq_pts).
Proof. split; [discriminate | ]. split_Forall; unfold edge_about, crossv; cbn [l0 l1 px py]; lra. Qed.
Example sq_convex_ccw : convex_ccw sq_pts.
Proof.
  split.
  - intros l v Hl Hv. cbn [sq_pts edges_of path_edges] in Hl. unfold sq_pts in Hv. split_In; subst;
      unfold crossv; cbn [l0 l1 px py]; lra.
  - exists (L2 (P 0 0) (P 1 0)), (P 1 1). split; [solve_In | split; [unfold sq_pts; solve_In | ]].
    unfold crossv; cbn [l0 l1 px py]; lra.
Qed.
(* the square as a triangle plus an ear: (0,0),(1,0),(0,1) with (1,1) inserted on the edge (1,0) -> (0,1) *)
Example sq_ear_ccw : ear_ccw (edges_of sq_pts).
Proof.
  apply (ear_insert [L2 (P 0 0) (P 1 0)] [L2 (P 0 1) (P 0 0)] (P 1 0) (P 0 1) (P 1 1)).
  - apply ear_triangle. unfold crossv; cbn [px py]; lra.
  - unfold crossv; cbn [px py]; lra.
Qed.
Example sq_area : signed_area_lines ROps (edges_of sq_pts) = 1 /\ direction_lines ROps (edges_of sq_pts) = 1.
Proof. split; [rcbv; field | exact (convex_ccw_direction _ sq_convex_ccw)]. Qed.
(* a non-convex (L-shaped) counter-clockwise hexagon is star-shaped about (1/2,1/2) *)
Definition ell_pts : list (pt R) := [P 0 0; P 2 0; P 2 1; P 1 1; P 1 2; P 0 2].
Example ell_star_strict : star_ccw_strict (P (1/2) (1/2)) (edges_of ell_pts).
Proof. split; [discriminate | ]. split_Forall; unfold edge_about, crossv; cbn [l0 l1 px py]; lra. Qed.
Example ell_not_convex : ~ convex_ccw ell_pts.
Proof.
  intros [Hall _]. specialize (Hall (L2 (P 2 1) (P 1 1)) (P 0 2)).
  unfold crossv in Hall; cbn [l0 l1 px py] in Hall.
  assert (H : 0 <= (1 - 2) * (2 - 1) - (1 - 1) * (0 - 2)) by (apply Hall; [cbn [ell_pts edges_of path_edges] | unfold ell_pts]; solve_In).
  lra.
Qed.
Example ell_positive : signed_area_lines ROps (edges_of ell_pts) = 3.
Proof. rcbv. field. Qed.

(* ---- the library's Rectangle(w, h, origin) with w, h > 0: tl -> tr -> br -> bl is CLOCKWISE ---- *)
Definition rectangle_pts (w h ox oy : R) : list (pt R) :=
  [P (ox - w / 2) (oy + h / 2); P (ox + w / 2) (oy + h / 2); P (ox + w / 2) (oy - h / 2); P (ox - w / 2) (oy - h / 2)].

Lemma Rectangle_lines_edges (w h ox oy : R) : Rectangle_lines ROps w h (P ox oy) = edges_of (rectangle_pts w h ox oy).
Proof. rewrite Rectangle_lines_chain. reflexivity. Qed.

(* strictly star-shaped clockwise about its origin *)
Theorem Rectangle_star_cw (w h : R) (o : pt R) : 0 < w -> 0 < h -> star_cw_strict o (Rectangle_lines ROps w h o).
Proof.
  intros Hw Hh. destruct o as [ox oy]. rewrite Rectangle_lines_edges.
  assert (Hwh : 0 < w * h) by (apply Rmult_lt_0_compat; assumption).
  split; [discriminate | ].
  split_Forall; unfold edge_about, crossv; cbn [l0 l1 px py]; nra.
Qed.

(* convex clockwise *)
Theorem Rectangle_convex_cw (w h ox oy : R) : 0 < w -> 0 < h -> convex_cw (rectangle_pts w h ox oy).
Proof.
  intros Hw Hh. assert (Hwh : 0 < w * h) by (apply Rmult_lt_0_compat; assumption).
  split.
  - intros l v Hl Hv. cbn [rectangle_pts edges_of path_edges] in Hl. unfold rectangle_pts in Hv. split_In; subst;
      unfold crossv; cbn [l0 l1 px py]; nra.
  - exists (L2 (P (ox - w / 2) (oy + h / 2)) (P (ox + w / 2) (oy + h / 2))), (P (ox + w / 2) (oy - h / 2)).
    split; [cbn [rectangle_pts edges_of path_edges]; solve_In | split; [unfold rectangle_pts; solve_In | ]].
    unfold crossv; cbn [l0 l1 px py]; nra.
Qed.

(* so the sign of the existing closed form - (w * h) is an instance of the general clockwise theorem *)
Corollary Rectangle_negative (w h : R) (o : pt R) :
  0 < w -> 0 < h ->
  signed_area_lines ROps (Rectangle_lines ROps w h o) < 0 /\ direction_lines ROps (Rectangle_lines ROps w h o) = -1.
Proof.
  intros Hw Hh. pose proof (star_cw_strict_weak _ _ (Rectangle_star_cw w h o Hw Hh)) as Hs.
  assert (Hc : closed_chain (Rectangle_lines ROps w h o)).
  { destruct o as [ox oy]. rewrite Rectangle_lines_chain. apply rectangle_closed. }
  split; [exact (star_cw_negative o _ Hc Hs) | exact (star_cw_direction o _ Hc Hs)].
Qed.

(* reversing the Rectangle gives a counter-clockwise contour with area + w * h *)
Corollary Rectangle_reversed_positive (w h : R) (o : pt R) :
  0 < w -> 0 < h ->
  signed_area_lines ROps (reverse_lines ROps (Rectangle_lines ROps w h o)) = w * h /\
  direction_lines ROps (reverse_lines ROps (Rectangle_lines ROps w h o)) = 1.
Proof.
  intros Hw Hh. assert (Hwh : 0 < w * h) by (apply Rmult_lt_0_compat; assumption).
  assert (E : signed_area_lines ROps (reverse_lines ROps (Rectangle_lines ROps w h o)) = w * h).
  { rewrite signed_area_reverse_neg, Rectangle_lines_signed_area. ring. }
  split; [exact E | apply direction_pos; rewrite E; exact Hwh].
Qed.
