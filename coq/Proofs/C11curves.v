(* C11, curved segments: the even-odd parity argument lifted from closed polygons (Proofs/C11.v) to closed paths of mixed
   segments (lines, quadratics, cubics).  Nothing here changes an existing file.

   Part 1:  root parity of a real polynomial (ANY degree, coefficients as a list) on (0,1): with simple roots and non-zero
            end values, the number of roots in (0,1) is odd iff the end values have opposite signs [poly_root_parity]
            (deflation by a root + IVT on the root-free quotient); specialisations by coefficients to degree <= 1, 2, 3;
            finiteness of the root set [poly_roots_finite] (classical).
   Part 2:  segments: end points, point, y-derivative (through the generated derivative()), the coefficient list of
            y(t) - level; per segment the number of transversal crossings is odd iff the level separates the end
            ordinates [segment_crossing_parity]; on a closed chain of mixed segments the total number of crossings of a
            level through no node is even [closed_mixed_balance].
   Part 3:  left/right parity for a query point off the path [left_right_parity].
   Part 3': the signed forms: rising minus falling zeros of a polynomial [poly_signed_count], per segment
            [segment_signed_crossings], closed chain [closed_mixed_signed_balance], left/right [left_right_signed].
   Part 4:  the glue through the two dicts of windingNumberOfPoint, for the real carrier: keys and values of the dicts,
            what one segment contributes to a horizontal ray ([seg_hits], from C11's edge_ray_crossing and
            cubic/quad_ray_hits_partial), C05's non-degeneracy conditions in the ray's frame reduced to conditions on the
            curve and the level ([seg_gp_of_level]), the bundled hypothesis [mixed_query] (the analogue of
            [polygon_query]) and the theorems [mixed_winding_number] (= |signed crossings left of the point| = the same
            on the right), [mixed_winding_parity], [mixed_even_odd] (pointIsInside = odd(crossings left of the point),
            both rays agree), [mixed_dict_counts]; polygons are a special case [polygon_mixed_query].
   Part 5:  non-vacuity: a "D" (line + cubic + quadratic) at two levels for Parts 2-3; a closed path line + quadratic +
            cubic satisfying every hypothesis of [mixed_query], with its computed bounding box, found inside with
            winding number 1 (the same values CPython returns for beziers.py).

   NOT covered: tangential contacts (every crossing must be transversal; C05's root finders miss double roots anyway);
   levels through a node (refuted for polygons already, finding D11); crossings within the first 2e-7 of a segment's
   parameter range or closer than 2e-7 ray lengths to the query point; two crossings at the same point (dict keys
   collide); crossing abscissae outside the computed box ([mq_inbox]: automatic for lines, for curves the computed box
   encloses the curve only up to C02's sliver term); floating point. *)
From Coq Require Import PrimFloat.
From Coq Require Import ZArith List Bool Reals Lra Lia Psatz Permutation Classical.
From BZ Require Import Base.Ops Proofs.Tactics Gen.Point Gen.Utils Gen.Affine Gen.BBox Gen.Line Gen.Quad Gen.Cubic.
From BZ Require Import Hand.Bounds Hand.Shoelace Hand.Winding Proofs.C02 Proofs.C05 Proofs.C18 Proofs.C11.
Import ListNotations.
Open Scope R_scope.

(* ================================================================================================ *)
(** * 1. Root parity of a real polynomial on (0,1)                                                   *)
(* ================================================================================================ *)

(* a polynomial by its coefficients, constant term first; its formal derivative *)
Fixpoint peval (l : list R) (t : R) : R := match l with [] => 0 | a :: l' => a + t * peval l' t end.
Fixpoint pderiv (l : list R) (t : R) : R := match l with [] => 0 | a :: l' => peval l' t + t * pderiv l' t end.

(* the formal derivative is the derivative *)
Lemma peval_derivable (l : list R) (t : R) : derivable_pt_lim (peval l) t (pderiv l t).
Proof.
  induction l as [|a l IH].
  - cbn [pderiv]. change (peval []) with (fct_cte 0). apply derivable_pt_lim_const.
  - cbn [pderiv]. change (peval (a :: l)) with (fct_cte a + id * peval l)%F.
    replace (peval l t + t * pderiv l t) with (0 + (1 * peval l t + id t * pderiv l t)) by (unfold id; ring).
    apply derivable_pt_lim_plus; [apply derivable_pt_lim_const|].
    apply derivable_pt_lim_mult; [apply derivable_pt_lim_id | exact IH].
Qed.

Lemma peval_continuous (l : list R) : continuity (peval l).
Proof.
  intros x. apply derivable_continuous_pt. exists (pderiv l x). apply peval_derivable.
Qed.

(* a continuous function without a zero on [0,1] has end values of the same sign *)
Lemma no_root_same_sign (f : R -> R) :
  continuity f -> f 0 <> 0 -> f 1 <> 0 -> (forall t, 0 < t < 1 -> f t <> 0) -> 0 < f 0 * f 1.
Proof.
  intros C N0 N1 N.
  destruct (Rlt_dec (f 0) 0) as [L0|L0]; destruct (Rlt_dec (f 1) 0) as [L1|L1]; try nra.
  - exfalso. destruct (IVT f 0 1 C ltac:(lra) L0 ltac:(lra)) as [z [[Z0 Z1] Ez]].
    destruct (Req_dec z 0) as [->|Nz0]; [contradiction|]. destruct (Req_dec z 1) as [->|Nz1]; [contradiction|].
    apply (N z); [lra | exact Ez].
  - exfalso. assert (C' : continuity (- f)%F) by (apply continuity_opp; exact C).
    destruct (IVT (- f)%F 0 1 C' ltac:(lra)) as [z [[Z0 Z1] Ez]]; try (unfold opp_fct; lra).
    unfold opp_fct in Ez. assert (Ez' : f z = 0) by lra.
    destruct (Req_dec z 0) as [->|Nz0]; [contradiction|]. destruct (Req_dec z 1) as [->|Nz1]; [contradiction|].
    apply (N z); [lra | exact Ez'].
Qed.

(* synthetic division by (t - r): p(t) = p(r) + (t - r) * q(t); the top coefficient of q is a padding zero *)
Fixpoint deflate (l : list R) (r : R) : list R :=
  match l with [] => [] | a :: l' => peval l' r :: deflate l' r end.

Lemma deflate_eval (l : list R) (r t : R) : peval l t = peval l r + (t - r) * peval (deflate l r) t.
Proof.
  induction l as [|a l IH]; cbn [peval deflate]; [ring|].
  rewrite IH at 1. ring.
Qed.

Lemma deflate_deriv (l : list R) (r t : R) :
  pderiv l t = peval (deflate l r) t + (t - r) * pderiv (deflate l r) t.
Proof.
  induction l as [|a l IH]; cbn [peval pderiv deflate]; [ring|].
  rewrite IH, (deflate_eval l r t) at 1. ring.
Qed.

(** 1a. The general theorem: every degree.  [roots] lists the zeros of p in (0,1) without repetition, each is simple
    (transversal), and p does not vanish at 0 and 1: the number of zeros is odd iff p(0) and p(1) have opposite signs. *)
Theorem poly_root_parity (l : list R) (roots : list R) :
  NoDup roots ->
  (forall r, In r roots <-> 0 < r < 1 /\ peval l r = 0) ->
  (forall r, In r roots -> pderiv l r <> 0) ->
  peval l 0 <> 0 -> peval l 1 <> 0 ->
  (Nat.odd (length roots) = true <-> peval l 0 * peval l 1 < 0).
Proof.
  revert l. induction roots as [|r1 rs IH]; intros l ND HR HS N0 N1.
  - cbn [length Nat.odd]. assert (H : 0 < peval l 0 * peval l 1).
    { apply no_root_same_sign; [apply peval_continuous | exact N0 | exact N1 |].
      intros t Ht E. apply (proj2 (HR t)). split; assumption. }
    split; [discriminate | lra].
  - destruct (proj1 (HR r1) (or_introl eq_refl)) as [I1 E1].
    set (q := deflate l r1).
    assert (Ep : forall t, peval l t = (t - r1) * peval q t).
    { intros t. rewrite (deflate_eval l r1 t), E1. unfold q. ring. }
    assert (Ed : forall t, pderiv l t = peval q t + (t - r1) * pderiv q t) by (intros t; apply deflate_deriv).
    assert (Q1 : peval q r1 <> 0).
    { pose proof (HS r1 (or_introl eq_refl)) as H. rewrite Ed in H. intros E. apply H. rewrite E. ring. }
    inversion ND as [|? ? Nin ND']; subst.
    assert (IHq : Nat.odd (length rs) = true <-> peval q 0 * peval q 1 < 0).
    { apply IH.
      - exact ND'.
      - intros r. split.
        + intros Hr. assert (Nr : r <> r1) by (intros ->; contradiction).
          destruct (proj1 (HR r) (or_intror Hr)) as [I E]. split; [exact I|].
          rewrite Ep in E. apply Rmult_integral in E. destruct E as [E|E]; [lra | exact E].
        + intros [I E]. assert (Hin : In r (r1 :: rs)). { apply HR. split; [exact I|]. rewrite Ep, E. ring. }
          destruct Hin as [<-|Hin]; [contradiction | exact Hin].
      - intros r Hr E. assert (Nr : r <> r1) by (intros ->; contradiction).
        apply (HS r (or_intror Hr)). rewrite Ed, E.
        destruct (proj1 (HR r) (or_intror Hr)) as [_ E0]. rewrite Ep in E0.
        apply Rmult_integral in E0. destruct E0 as [E0|E0]; [lra | rewrite E0; ring].
      - intros E. apply N0. rewrite Ep, E. ring.
      - intros E. apply N1. rewrite Ep, E. ring. }
    cbn [length]. rewrite Nat.odd_succ, <- Nat.negb_odd.
    rewrite !Ep. rewrite Ep in N0, N1.
    assert (Q0' : peval q 0 <> 0) by (intros E; apply N0; rewrite E; ring).
    assert (Q1' : peval q 1 <> 0) by (intros E; apply N1; rewrite E; ring).
    destruct (Nat.odd (length rs)); cbn [negb]; split; intros H; try discriminate.
    + exfalso. assert (peval q 0 * peval q 1 < 0) by (apply IHq; reflexivity). nra.
    + assert (~ peval q 0 * peval q 1 < 0) by (intros K; apply IHq in K; discriminate).
      assert (peval q 0 * peval q 1 <> 0) by (apply Rmult_integral_contrapositive; split; assumption). nra.
    + reflexivity.
Qed.

(* the same for a function and a derivative given extensionally *)
Theorem poly_root_parity_ext (p p' : R -> R) (l : list R) (roots : list R) :
  (forall t, p t = peval l t) -> (forall t, p' t = pderiv l t) ->
  NoDup roots ->
  (forall r, In r roots <-> 0 < r < 1 /\ p r = 0) ->
  (forall r, In r roots -> p' r <> 0) ->
  p 0 <> 0 -> p 1 <> 0 ->
  (Nat.odd (length roots) = true <-> p 0 * p 1 < 0).
Proof.
  intros E E' ND HR HS N0 N1. rewrite !E. rewrite E in N0, N1. apply poly_root_parity; try assumption.
  - intros r. rewrite <- E. apply HR.
  - intros r Hr. rewrite <- E'. apply HS. exact Hr.
Qed.

(** 1b. Degree <= 1, 2, 3 by coefficients. *)
Theorem linear_root_parity (b c : R) (roots : list R) :
  let p := fun t => b * t + c in
  let p' := fun _ : R => b in
  NoDup roots -> (forall r, In r roots <-> 0 < r < 1 /\ p r = 0) -> (forall r, In r roots -> p' r <> 0) ->
  p 0 <> 0 -> p 1 <> 0 -> (Nat.odd (length roots) = true <-> p 0 * p 1 < 0).
Proof.
  intros p p'. apply (poly_root_parity_ext p p' [c; b]); intros t; unfold p, p'; cbn [peval pderiv]; ring.
Qed.

Theorem quadratic_root_parity (a b c : R) (roots : list R) :
  let p := fun t => a * t * t + b * t + c in
  let p' := fun t => 2 * a * t + b in
  NoDup roots -> (forall r, In r roots <-> 0 < r < 1 /\ p r = 0) -> (forall r, In r roots -> p' r <> 0) ->
  p 0 <> 0 -> p 1 <> 0 -> (Nat.odd (length roots) = true <-> p 0 * p 1 < 0).
Proof.
  intros p p'. apply (poly_root_parity_ext p p' [c; b; a]); intros t; unfold p, p'; cbn [peval pderiv]; ring.
Qed.

Theorem cubic_root_parity (a b c d : R) (roots : list R) :
  let p := fun t => a * t * t * t + b * t * t + c * t + d in
  let p' := fun t => 3 * a * t * t + 2 * b * t + c in
  NoDup roots -> (forall r, In r roots <-> 0 < r < 1 /\ p r = 0) -> (forall r, In r roots -> p' r <> 0) ->
  p 0 <> 0 -> p 1 <> 0 -> (Nat.odd (length roots) = true <-> p 0 * p 1 < 0).
Proof.
  intros p p'. apply (poly_root_parity_ext p p' [d; c; b; a]); intros t; unfold p, p'; cbn [peval pderiv]; ring.
Qed.

(** 1c. Finiteness: a polynomial that is not identically zero has finitely many zeros in (0,1); so the list of roots
    asked for by the parity theorems always exists (classical logic decides whether a further zero exists). *)
Fixpoint deflate2 (l : list R) (r : R) : list R :=
  match l with
  | [] => []
  | a :: l' => match l' with [] => [] | _ :: _ => peval l' r :: deflate2 l' r end
  end.

Lemma deflate2_eval (l : list R) (r t : R) : peval (deflate2 l r) t = peval (deflate l r) t.
Proof.
  induction l as [|a l IH]; [reflexivity|]. destruct l as [|b l']; [cbn; ring|].
  set (l1 := b :: l') in *. change (deflate2 (a :: l1) r) with (peval l1 r :: deflate2 l1 r).
  cbn [deflate peval]. rewrite IH. reflexivity.
Qed.
Lemma deflate2_length (l : list R) (r : R) : length (deflate2 l r) = pred (length l).
Proof.
  induction l as [|a l IH]; [reflexivity|]. destruct l as [|b l']; [reflexivity|].
  set (l1 := b :: l') in *. change (deflate2 (a :: l1) r) with (peval l1 r :: deflate2 l1 r).
  cbn [length]. rewrite IH. unfold l1. reflexivity.
Qed.

Theorem poly_roots_finite (l : list R) :
  (exists t, peval l t <> 0) ->
  exists roots, NoDup roots /\ forall r, In r roots <-> 0 < r < 1 /\ peval l r = 0.
Proof.
  remember (length l) as n eqn:En. assert (Hn : (length l <= n)%nat) by lia. clear En. revert l Hn.
  induction n as [|n IH]; intros l Hl [t0 Ht0].
  - destruct l; [exfalso; apply Ht0; reflexivity | cbn in Hl; lia].
  - destruct (classic (exists r, 0 < r < 1 /\ peval l r = 0)) as [[r [Ir Er]]|No].
    + set (q := deflate2 l r).
      assert (Ep : forall t, peval l t = (t - r) * peval q t).
      { intros t. unfold q. rewrite deflate2_eval, (deflate_eval l r t), Er. ring. }
      assert (Lq : (length q <= n)%nat) by (unfold q; rewrite deflate2_length; lia).
      assert (Nq : exists t, peval q t <> 0) by (exists t0; intros E; apply Ht0; rewrite Ep, E; ring).
      destruct (IH q Lq Nq) as [rq [NDq Mq]].
      assert (M : forall z, peval l z = 0 <-> z = r \/ peval q z = 0).
      { intros z. rewrite Ep. split.
        - intros E. apply Rmult_integral in E. destruct E; [left; lra | right; assumption].
        - intros [->|E]; [ring | rewrite E; ring]. }
      destruct (in_dec Req_EM_T r rq) as [Hin|Hnin].
      * exists rq. split; [exact NDq|]. intros z. rewrite Mq, M. split; [intros [I E]; split; [exact I | right; exact E]|].
        intros [I [->|E]]; [apply Mq; exact Hin | split; assumption].
      * exists (r :: rq). split; [constructor; assumption|]. intros z. cbn [In]. rewrite Mq, M. split.
        -- intros [<-|[I E]]; [split; [exact Ir | left; reflexivity] | split; [exact I | right; exact E]].
        -- intros [I [->|E]]; [left; reflexivity | right; split; assumption].
    + exists []. split; [constructor|]. intros r. split; [intros [] | intros H; apply No; exists r; exact H].
Qed.

(* ================================================================================================ *)
(** * 2. Level crossings of a closed chain of mixed segments                                         *)
(* ================================================================================================ *)

Definition seg_start (s : segment R) : pt R :=
  match s with SLine e => l0 e | SQuad q => q0 q | SCubic c => c0 c end.
Definition seg_end (s : segment R) : pt R :=
  match s with SLine e => l1 e | SQuad q => q2 q | SCubic c => c3 c end.
(* the point of the segment at parameter t: the generated pointAtTime of its class *)
Definition seg_point (s : segment R) (t : R) : pt R :=
  match s with
  | SLine e => Line_pointAtTime ROps e t
  | SQuad q => Quad_pointAtTime ROps q t
  | SCubic c => Cubic_pointAtTime ROps c t
  end.
(* the y-component of the derivative at parameter t, through the generated derivative() of the class *)
Definition seg_dy (s : segment R) (t : R) : R :=
  match s with
  | SLine e => py (l1 e) - py (l0 e)
  | SQuad q => py (Line_pointAtTime ROps (Quad_derivative ROps q) t)
  | SCubic c => py (Quad_pointAtTime ROps (Cubic_derivative ROps c) t)
  end.
(* coefficients (constant term first) of the polynomial  y-coordinate(t) - y *)
Definition seg_coeffs (s : segment R) (y : R) : list R :=
  match s with
  | SLine e => [py (l0 e) - y; py (l1 e) - py (l0 e)]
  | SQuad q => [quad_c q - y; quad_b q; quad_a q]
  | SCubic c => [cubic_C c - y; cubic_B c; cubic_A c; cubic_D c]
  end.

Lemma seg_y_poly (s : segment R) (y t : R) : py (seg_point s t) - y = peval (seg_coeffs s y) t.
Proof.
  destruct s as [e|q|c]; cbn [seg_point seg_coeffs peval].
  - destruct_pts. rcbv. ring.
  - rewrite quad_y_poly. ring.
  - rewrite cubic_y_poly. ring.
Qed.
Lemma seg_dy_poly (s : segment R) (y t : R) : seg_dy s t = pderiv (seg_coeffs s y) t.
Proof.
  destruct s as [e|q|c]; cbn [seg_dy seg_coeffs peval pderiv].
  - ring.
  - unfold quad_a, quad_b. destruct_pts. rcbv. ring.
  - unfold cubic_A, cubic_B, cubic_D. destruct_pts. rcbv. ring.
Qed.
Lemma seg_point_0 (s : segment R) : seg_point s 0 = seg_start s.
Proof. destruct s; destruct_pts; rcbv; apply pt_eq; ring. Qed.
Lemma seg_point_1 (s : segment R) : seg_point s 1 = seg_end s.
Proof. destruct s; destruct_pts; rcbv; apply pt_eq; ring. Qed.

(* [seg_dy] is the derivative of the y-coordinate along the segment *)
Lemma seg_dy_is_derivative (s : segment R) (t : R) :
  derivable_pt_lim (fun u => py (seg_point s u)) t (seg_dy s t).
Proof.
  intros eps He. destruct (peval_derivable (seg_coeffs s 0) t eps He) as [delta D]. exists delta. intros h Nh Hh.
  specialize (D h Nh Hh). rewrite <- !seg_y_poly, <- (seg_dy_poly s 0) in D. cbv beta.
  replace (py (seg_point s (t + h)) - py (seg_point s t)) with (py (seg_point s (t + h)) - 0 - (py (seg_point s t) - 0)) by ring.
  exact D.
Qed.

(** The crossings of the level y by one segment, as a list of parameters: the list has no repetition, contains exactly
    the parameters strictly between 0 and 1 at which the segment is at height y, and every crossing is transversal
    (the tangent is not horizontal there). *)
Definition level_roots (y : R) (s : segment R) (rs : list R) : Prop :=
  NoDup rs /\
  (forall r, In r rs <-> 0 < r < 1 /\ py (seg_point s r) = y) /\
  (forall r, In r rs -> seg_dy s r <> 0).

(** 2a. Per segment: the number of crossings is odd iff the level separates the two end ordinates. *)
Theorem segment_crossing_parity (y : R) (s : segment R) (rs : list R) :
  level_roots y s rs -> py (seg_start s) <> y -> py (seg_end s) <> y ->
  (Nat.odd (length rs) = true <-> (py (seg_start s) - y) * (py (seg_end s) - y) < 0).
Proof.
  intros (ND & HR & HS) N0 N1. rewrite <- seg_point_0, <- seg_point_1. rewrite <- seg_point_0 in N0. rewrite <- seg_point_1 in N1.
  apply (poly_root_parity_ext (fun t => py (seg_point s t) - y) (seg_dy s) (seg_coeffs s y)).
  - intros t. apply seg_y_poly.
  - intros t. apply seg_dy_poly.
  - exact ND.
  - intros r. rewrite HR. split; intros [I E]; (split; [exact I | lra]).
  - exact HS.
  - lra.
  - lra.
Qed.

(* the side of the level a node lies on *)
Definition above (y : R) (v : pt R) : bool := ltb ROps y (py v).

Lemma separated_xor (y : R) (a b : pt R) : py a <> y -> py b <> y ->
  ((py a - y) * (py b - y) < 0 <-> xorb (above y a) (above y b) = true).
Proof.
  intros Na Nb. unfold above. cbn [ltb ROps].
  destruct (Rlt_dec y (py a)), (Rlt_dec y (py b)); cbn [xorb];
    (split; intros H; [first [reflexivity | exfalso; nra] | first [discriminate H | nra]]).
Qed.

Corollary segment_crossing_parity_b (y : R) (s : segment R) (rs : list R) :
  level_roots y s rs -> py (seg_start s) <> y -> py (seg_end s) <> y ->
  Nat.odd (length rs) = xorb (above y (seg_start s)) (above y (seg_end s)).
Proof.
  intros H N0 N1. pose proof (segment_crossing_parity y s rs H N0 N1) as P.
  pose proof (separated_xor y _ _ N0 N1) as Q.
  destruct (Nat.odd (length rs)), (xorb (above y (seg_start s)) (above y (seg_end s))); try reflexivity.
  - pose proof (proj1 Q (proj1 P eq_refl)) as K. discriminate K.
  - pose proof (proj2 P (proj2 Q eq_refl)) as K. discriminate K.
Qed.

(* for a segment: if the level avoids one node, the list of its crossings exists *)
Corollary segment_crossings_finite (y : R) (s : segment R) :
  py (seg_start s) <> y ->
  exists rs, NoDup rs /\ forall r, In r rs <-> 0 < r < 1 /\ py (seg_point s r) = y.
Proof.
  intros N. destruct (poly_roots_finite (seg_coeffs s y)) as [rs [ND M]].
  - exists 0. rewrite <- seg_y_poly, seg_point_0. lra.
  - exists rs. split; [exact ND|]. intros r. rewrite M, <- seg_y_poly. split; intros [I E]; (split; [exact I | lra]).
Qed.

(* a chain of mixed segments from p to q; a closed chain *)
Fixpoint mchain_from (p : pt R) (l : list (segment R)) (q : pt R) : Prop :=
  match l with
  | [] => p = q
  | s :: r => seg_start s = p /\ mchain_from (seg_end s) r q
  end.
Definition mclosed_chain (l : list (segment R)) : Prop :=
  match l with
  | [] => True
  | s :: r => mchain_from (seg_end s) r (seg_start s)
  end.

(* on polygons this is [closed_chain] *)
Lemma mchain_from_lines (ls : list (seg2 R)) p q : mchain_from p (map SLine ls) q <-> chain_from p ls q.
Proof. revert p. induction ls as [|e ls IH]; intros p; cbn; [tauto|]. rewrite IH. tauto. Qed.
Lemma mclosed_chain_lines (ls : list (seg2 R)) : mclosed_chain (map SLine ls) <-> closed_chain ls.
Proof. destruct ls as [|e ls]; cbn; [tauto|]. apply mchain_from_lines. Qed.

(** A path with its level crossings: every segment paired with the list of its crossing parameters. *)
Definition xpath : Type := list (segment R * list R).
Fixpoint nsum (l : list nat) : nat := match l with [] => 0%nat | n :: r => (n + nsum r)%nat end.
Definition total_crossings (srs : xpath) : nat := nsum (map (fun sr => length (snd sr)) srs).
(* the number of crossings (s, r) selected by f *)
Definition count_if (f : segment R -> R -> bool) (srs : xpath) : nat :=
  nsum (map (fun sr => length (filter (f (fst sr)) (snd sr))) srs).

(* the level avoids the two nodes of the segment and the list is its list of transversal crossings *)
Definition level_ok (y : R) (sr : segment R * list R) : Prop :=
  level_roots y (fst sr) (snd sr) /\ py (seg_start (fst sr)) <> y /\ py (seg_end (fst sr)) <> y.

Lemma chain_crossing_parity (y : R) (srs : xpath) : forall p q,
  mchain_from p (map fst srs) q -> (forall sr, In sr srs -> level_ok y sr) ->
  Nat.odd (total_crossings srs) = xorb (above y p) (above y q).
Proof.
  induction srs as [|[s rs] srs IH]; intros p q C OK.
  - cbn in C. subst. cbn. rewrite xorb_nilpotent. reflexivity.
  - cbn [map fst mchain_from] in C. destruct C as [E C]. unfold total_crossings. cbn [map nsum snd].
    fold (total_crossings srs). rewrite Nat.odd_add.
    destruct (OK (s, rs) (or_introl eq_refl)) as (LR & N0 & N1). cbn [fst snd] in *.
    rewrite (segment_crossing_parity_b y s rs LR N0 N1), (IH (seg_end s) q C (fun sr H => OK sr (or_intror H))), E.
    destruct (above y p), (above y (seg_end s)), (above y q); reflexivity.
Qed.

(** 2b. The balance: on a closed chain of mixed segments, the total number of transversal crossings of a level that
    passes through no node is even. *)
Theorem closed_mixed_balance (y : R) (srs : xpath) :
  mclosed_chain (map fst srs) -> (forall sr, In sr srs -> level_ok y sr) ->
  Nat.even (total_crossings srs) = true.
Proof.
  intros C OK. rewrite <- Nat.negb_odd. destruct srs as [|[s rs] srs]; [reflexivity|].
  assert (H : Nat.odd (total_crossings ((s, rs) :: srs)) = xorb (above y (seg_start s)) (above y (seg_start s))).
  { apply chain_crossing_parity; [|exact OK]. cbn [map fst mchain_from]. split; [reflexivity | exact C]. }
  rewrite H, xorb_nilpotent. reflexivity.
Qed.

(* the number of segments separated by the level is even, too *)
Definition separatedb (y : R) (s : segment R) : bool := xorb (above y (seg_start s)) (above y (seg_end s)).
Theorem closed_mixed_separated_even (y : R) (segs : list (segment R)) :
  mclosed_chain segs -> Nat.even (length (filter (separatedb y) segs)) = true.
Proof.
  assert (G : forall l p q, mchain_from p l q -> Nat.odd (length (filter (separatedb y) l)) = xorb (above y p) (above y q)).
  { induction l as [|s l IH]; intros p q C.
    - cbn in C. subst. cbn. rewrite xorb_nilpotent. reflexivity.
    - cbn [mchain_from] in C. destruct C as [E C]. specialize (IH _ _ C). cbn [filter]. unfold separatedb at 1. rewrite E.
      destruct (above y p) eqn:A, (above y (seg_end s)) eqn:B; cbn [xorb length]; rewrite ?Nat.odd_succ, <- ?Nat.negb_odd, IH;
        destruct (above y q); reflexivity. }
  intros C. rewrite <- Nat.negb_odd. destruct segs as [|s l]; [reflexivity|].
  rewrite (G (s :: l) (seg_start s) (seg_start s)); [rewrite xorb_nilpotent; reflexivity|].
  cbn [mchain_from]. split; [reflexivity | exact C].
Qed.

(* ================================================================================================ *)
(** * 3. Left / right parity                                                                         *)
(* ================================================================================================ *)

Definition left_c (x : R) (s : segment R) (r : R) : bool := ltb ROps (px (seg_point s r)) x.
Definition right_c (x : R) (s : segment R) (r : R) : bool := ltb ROps x (px (seg_point s r)).

(* the query point is not on the path *)
Definition off_path (segs : list (segment R)) (p : pt R) : Prop :=
  forall s, In s segs -> forall t, 0 <= t <= 1 -> seg_point s t <> p.

Lemma filter_split_length {A} (f g : A -> bool) (l : list A) :
  (forall a, In a l -> xorb (f a) (g a) = true) -> (length (filter f l) + length (filter g l) = length l)%nat.
Proof.
  induction l as [|a l IH]; intros H; [reflexivity|]. cbn [filter].
  pose proof (H a (or_introl eq_refl)) as Ha. specialize (IH (fun b Hb => H b (or_intror Hb))).
  destruct (f a), (g a); try discriminate; cbn [length]; lia.
Qed.

Lemma count_split (f g : segment R -> R -> bool) (srs : xpath) :
  (forall sr, In sr srs -> forall r, In r (snd sr) -> xorb (f (fst sr) r) (g (fst sr) r) = true) ->
  (count_if f srs + count_if g srs = total_crossings srs)%nat.
Proof.
  induction srs as [|sr srs IH]; intros H; [reflexivity|].
  unfold count_if, total_crossings in *. cbn [map nsum].
  pose proof (filter_split_length (f (fst sr)) (g (fst sr)) (snd sr) (H sr (or_introl eq_refl))) as E.
  specialize (IH (fun sr' H' => H sr' (or_intror H'))). lia.
Qed.

(* the form used by Part 4: no crossing of the level has abscissa x *)
Lemma left_right_parity_x (x y : R) (srs : xpath) :
  mclosed_chain (map fst srs) -> (forall sr, In sr srs -> level_ok y sr) ->
  (forall sr, In sr srs -> forall r, In r (snd sr) -> px (seg_point (fst sr) r) <> x) ->
  (count_if (left_c x) srs + count_if (right_c x) srs = total_crossings srs)%nat /\
  Nat.odd (count_if (left_c x) srs) = Nat.odd (count_if (right_c x) srs).
Proof.
  intros C OK Off.
  assert (S : (count_if (left_c x) srs + count_if (right_c x) srs = total_crossings srs)%nat).
  { apply count_split. intros sr Hsr r Hr. pose proof (Off sr Hsr r Hr) as N.
    unfold left_c, right_c. cbn [ltb ROps].
    destruct (Rlt_dec (px (seg_point (fst sr) r)) x), (Rlt_dec x (px (seg_point (fst sr) r))); try reflexivity; exfalso; lra. }
  split; [exact S|].
  pose proof (closed_mixed_balance y srs C OK) as Ev. rewrite <- S, Nat.even_add, <- !Nat.negb_odd in Ev.
  destruct (Nat.odd (count_if (left_c x) srs)), (Nat.odd (count_if (right_c x) srs)); try reflexivity; discriminate.
Qed.

(** 3a. With the hypotheses of 2b and the query point (x, y) off the path: every crossing of the level is strictly left
    or strictly right of x, and the numbers of crossings on the two sides have the same parity. *)
Theorem left_right_parity (x y : R) (srs : xpath) :
  mclosed_chain (map fst srs) -> (forall sr, In sr srs -> level_ok y sr) ->
  off_path (map fst srs) (P x y) ->
  (count_if (left_c x) srs + count_if (right_c x) srs = total_crossings srs)%nat /\
  Nat.odd (count_if (left_c x) srs) = Nat.odd (count_if (right_c x) srs).
Proof.
  intros C OK Off. apply (left_right_parity_x x y srs C OK).
  intros sr Hsr r Hr Ex. destruct (OK sr Hsr) as ((_ & HR & _) & _ & _).
  destruct (proj1 (HR r) Hr) as [I E].
  apply (Off (fst sr) (in_map fst _ _ Hsr) r ltac:(lra)).
  destruct (seg_point (fst sr) r) as [a b]. cbn [px py] in *. subst. reflexivity.
Qed.

(* ================================================================================================ *)
(** * 3'. The signed form: up-crossings minus down-crossings                                          *)
(* ================================================================================================ *)

(* the sign of a non-zero real, as the integer +1 / -1 *)
Definition sgz (v : R) : Z := if Rlt_dec 0 v then 1%Z else (-1)%Z.

Lemma sgz_same (a b : R) : 0 < a * b -> sgz a = sgz b.
Proof. intros H. unfold sgz. destruct (Rlt_dec 0 a), (Rlt_dec 0 b); try reflexivity; exfalso; nra. Qed.
Lemma sgz_pos_mult (k a : R) : 0 < k -> sgz (k * a) = sgz a.
Proof. intros H. unfold sgz. destruct (Rlt_dec 0 (k * a)), (Rlt_dec 0 a); try reflexivity; exfalso; nra. Qed.
Lemma sgz_neg_mult (k a : R) : k < 0 -> a <> 0 -> sgz (k * a) = (- sgz a)%Z.
Proof. intros H N. unfold sgz. destruct (Rlt_dec 0 (k * a)), (Rlt_dec 0 a); try reflexivity; exfalso; nra. Qed.

Lemma no_root_same_sign_on (f : R -> R) (a b : R) :
  continuity f -> a < b -> f a <> 0 -> f b <> 0 -> (forall t, a < t < b -> f t <> 0) -> 0 < f a * f b.
Proof.
  intros C Hab N0 N1 N.
  destruct (Rlt_dec (f a) 0) as [L0|L0]; destruct (Rlt_dec (f b) 0) as [L1|L1]; try nra.
  - exfalso. destruct (IVT f a b C Hab L0 ltac:(lra)) as [z [[Z0 Z1] Ez]].
    destruct (Req_dec z a) as [->|Nz0]; [contradiction|]. destruct (Req_dec z b) as [->|Nz1]; [contradiction|].
    apply (N z); [lra | exact Ez].
  - exfalso. assert (C' : continuity (- f)%F) by (apply continuity_opp; exact C).
    destruct (IVT (- f)%F a b C' Hab) as [z [[Z0 Z1] Ez]]; try (unfold opp_fct; lra).
    unfold opp_fct in Ez. assert (Ez' : f z = 0) by lra.
    destruct (Req_dec z a) as [->|Nz0]; [contradiction|]. destruct (Req_dec z b) as [->|Nz1]; [contradiction|].
    apply (N z); [lra | exact Ez'].
Qed.

Lemma list_max_split (l : list R) : l <> [] -> NoDup l ->
  exists m rest, Permutation l (m :: rest) /\ forall r, In r rest -> r < m.
Proof.
  induction l as [|a l IH]; intros Hne ND; [contradiction Hne; reflexivity|].
  inversion ND as [|? ? Nin ND']; subst. destruct l as [|b l].
  - exists a, []. split; [apply Permutation_refl | intros r []].
  - destruct (IH ltac:(discriminate) ND') as (m & rest & Pm & Hm).
    assert (Inm : In m (b :: l)) by (apply (Permutation_in _ (Permutation_sym Pm)); left; reflexivity).
    destruct (Rlt_dec a m) as [L|L].
    + exists m, (a :: rest). split.
      * apply perm_trans with (a :: m :: rest); [apply perm_skip; exact Pm | apply perm_swap].
      * intros r [<-|Hr]; [exact L | apply Hm; exact Hr].
    + assert (Nam : a <> m) by (intros ->; contradiction).
      exists a, (m :: rest). split; [apply perm_skip; exact Pm|].
      intros r [<-|Hr]; [lra | specialize (Hm r Hr); lra].
Qed.

Lemma zsum_perm (l1 l2 : list Z) : Permutation l1 l2 -> zsum l1 = zsum l2.
Proof. induction 1; cbn [zsum]; lia. Qed.
Lemma zsum_map_opp {A} (f g : A -> Z) (l : list A) :
  (forall a, In a l -> f a = (- g a)%Z) -> zsum (map f l) = (- zsum (map g l))%Z.
Proof.
  induction l as [|a l IH]; intros H; [reflexivity|]. cbn [map zsum].
  rewrite (H a (or_introl eq_refl)), (IH (fun b Hb => H b (or_intror Hb))). lia.
Qed.

(** The signed count of the simple zeros of a polynomial on (0,1): the zeros where p rises minus the zeros where p
    falls is half the difference of the signs of p(1) and p(0). *)
Theorem poly_signed_count (l : list R) (roots : list R) :
  NoDup roots ->
  (forall r, In r roots <-> 0 < r < 1 /\ peval l r = 0) ->
  (forall r, In r roots -> pderiv l r <> 0) ->
  peval l 0 <> 0 -> peval l 1 <> 0 ->
  (2 * zsum (map (fun r => sgz (pderiv l r)) roots) = sgz (peval l 1) - sgz (peval l 0))%Z.
Proof.
  remember (length roots) as n eqn:En. revert l roots En.
  induction n as [|n IH]; intros l roots En ND HR HS N0 N1.
  - symmetry in En. apply length_zero_iff_nil in En. subst roots. cbn [map zsum].
    assert (H : 0 < peval l 0 * peval l 1).
    { apply no_root_same_sign; [apply peval_continuous | exact N0 | exact N1 |].
      intros t Ht E. apply (proj2 (HR t)). split; assumption. }
    rewrite (sgz_same _ _ H). lia.
  - assert (Hne : roots <> []) by (intros ->; discriminate En).
    destruct (list_max_split roots Hne ND) as (m & rest & Pm & Hm).
    rewrite (zsum_perm _ _ (Permutation_map _ Pm)).
    assert (ND2 : NoDup (m :: rest)) by (apply (Permutation_NoDup Pm); exact ND).
    assert (HR2 : forall r, In r (m :: rest) <-> 0 < r < 1 /\ peval l r = 0).
    { intros r. rewrite <- HR. split; apply Permutation_in; [apply Permutation_sym|]; exact Pm. }
    assert (HS2 : forall r, In r (m :: rest) -> pderiv l r <> 0).
    { intros r Hr. apply HS. apply (Permutation_in _ (Permutation_sym Pm)). exact Hr. }
    assert (Ln : n = length rest).
    { apply Permutation_length in Pm. cbn [length] in Pm. lia. }
    clear HR HS ND Pm Hne En roots.
    destruct (proj1 (HR2 m) (or_introl eq_refl)) as [I1 E1].
    set (q := deflate l m).
    assert (Ep : forall t, peval l t = (t - m) * peval q t).
    { intros t. rewrite (deflate_eval l m t), E1. unfold q. ring. }
    assert (Ed : forall t, pderiv l t = peval q t + (t - m) * pderiv q t) by (intros t; apply deflate_deriv).
    assert (Qm : peval q m <> 0).
    { pose proof (HS2 m (or_introl eq_refl)) as H. rewrite Ed in H. intros E. apply H. rewrite E. ring. }
    destruct (proj1 (NoDup_cons_iff m rest) ND2) as [Nin ND'].
    assert (HRq : forall r, In r rest <-> 0 < r < 1 /\ peval q r = 0).
    { intros r. split.
      - intros Hr. assert (Nr : r <> m) by (intros ->; contradiction).
        destruct (proj1 (HR2 r) (or_intror Hr)) as [I E]. split; [exact I|].
        rewrite Ep in E. apply Rmult_integral in E. destruct E as [E|E]; [lra | exact E].
      - intros [I E]. assert (Hin : In r (m :: rest)). { apply HR2. split; [exact I|]. rewrite Ep, E. ring. }
        destruct Hin as [<-|Hin]; [contradiction | exact Hin]. }
    assert (Dq : forall r, In r rest -> pderiv l r = (r - m) * pderiv q r).
    { intros r Hr. destruct (proj1 (HRq r) Hr) as [_ E]. rewrite Ed, E. ring. }
    assert (HSq : forall r, In r rest -> pderiv q r <> 0).
    { intros r Hr E. apply (HS2 r (or_intror Hr)). rewrite (Dq r Hr), E. ring. }
    assert (Q0 : peval q 0 <> 0) by (intros E; apply N0; rewrite Ep, E; ring).
    assert (Q1 : peval q 1 <> 0) by (intros E; apply N1; rewrite Ep, E; ring).
    pose proof (IH q rest Ln ND' HRq HSq Q0 Q1) as IHq.
    cbn [map zsum].
    assert (Srest : zsum (map (fun r => sgz (pderiv l r)) rest) = (- zsum (map (fun r => sgz (pderiv q r)) rest))%Z).
    { apply zsum_map_opp. intros r Hr. rewrite (Dq r Hr). apply sgz_neg_mult; [specialize (Hm r Hr); lra | apply HSq; exact Hr]. }
    assert (Sm : sgz (pderiv l m) = sgz (peval q 1)).
    { rewrite Ed. replace (peval q m + (m - m) * pderiv q m) with (peval q m) by ring.
      apply sgz_same. apply no_root_same_sign_on; [apply peval_continuous | lra | exact Qm | exact Q1 |].
      intros t Ht E. assert (Hin : In t rest) by (apply HRq; split; [lra | exact E]). specialize (Hm t Hin). lra. }
    assert (S1 : sgz (peval l 1) = sgz (peval q 1)) by (rewrite Ep; apply sgz_pos_mult; lra).
    assert (S0 : sgz (peval l 0) = (- sgz (peval q 0))%Z) by (rewrite Ep; apply sgz_neg_mult; [lra | exact Q0]).
    rewrite Srest, Sm, S1, S0. lia.
Qed.

(* per segment: the signed number of crossings is half the change of side of the end points *)
Definition seg_signed (s : segment R) (rs : list R) : Z := zsum (map (fun r => sgz (seg_dy s r)) rs).

Theorem segment_signed_crossings (y : R) (s : segment R) (rs : list R) :
  level_roots y s rs -> py (seg_start s) <> y -> py (seg_end s) <> y ->
  (2 * seg_signed s rs = sgz (py (seg_end s) - y) - sgz (py (seg_start s) - y))%Z.
Proof.
  intros (ND & HR & HS) N0 N1. rewrite <- seg_point_0, <- seg_point_1. rewrite <- seg_point_0 in N0. rewrite <- seg_point_1 in N1.
  rewrite !(seg_y_poly s y). unfold seg_signed.
  rewrite (map_ext _ (fun r => sgz (pderiv (seg_coeffs s y) r)) (fun r => f_equal sgz (seg_dy_poly s y r))).
  apply poly_signed_count.
  - exact ND.
  - intros r. rewrite HR, <- seg_y_poly. split; intros [I E]; (split; [exact I | lra]).
  - intros r Hr. rewrite <- seg_dy_poly. apply HS. exact Hr.
  - rewrite <- seg_y_poly. lra.
  - rewrite <- seg_y_poly. lra.
Qed.

(* the signed number of crossings (s, r) selected by f; of all crossings *)
Definition signed_if (f : segment R -> R -> bool) (srs : xpath) : Z :=
  zsum (map (fun sr => seg_signed (fst sr) (filter (f (fst sr)) (snd sr))) srs).
Definition signed_total (srs : xpath) : Z := zsum (map (fun sr => seg_signed (fst sr) (snd sr)) srs).

Lemma chain_signed (y : R) (srs : xpath) : forall p q,
  mchain_from p (map fst srs) q -> (forall sr, In sr srs -> level_ok y sr) ->
  (2 * signed_total srs = sgz (py q - y) - sgz (py p - y))%Z.
Proof.
  induction srs as [|[s rs] srs IH]; intros p q C OK.
  - cbn in C. subst. cbn. lia.
  - cbn [map fst mchain_from] in C. destruct C as [E C]. unfold signed_total. cbn [map zsum fst snd].
    fold (signed_total srs).
    destruct (OK (s, rs) (or_introl eq_refl)) as (LR & N0 & N1). cbn [fst snd] in *.
    pose proof (segment_signed_crossings y s rs LR N0 N1) as H1.
    pose proof (IH (seg_end s) q C (fun sr H => OK sr (or_intror H))) as H2. rewrite E in H1. lia.
Qed.

(** The signed balance: on a closed chain of mixed segments the up-crossings and the down-crossings of a level that
    passes through no node cancel. *)
Theorem closed_mixed_signed_balance (y : R) (srs : xpath) :
  mclosed_chain (map fst srs) -> (forall sr, In sr srs -> level_ok y sr) -> signed_total srs = 0%Z.
Proof.
  intros C OK. destruct srs as [|[s rs] srs]; [reflexivity|].
  assert (H : (2 * signed_total ((s, rs) :: srs) = sgz (py (seg_start s) - y) - sgz (py (seg_start s) - y))%Z).
  { apply chain_signed; [|exact OK]. cbn [map fst mchain_from]. split; [reflexivity | exact C]. }
  lia.
Qed.

Lemma seg_signed_split (f g : R -> bool) (s : segment R) (rs : list R) :
  (forall r, In r rs -> xorb (f r) (g r) = true) ->
  (seg_signed s (filter f rs) + seg_signed s (filter g rs) = seg_signed s rs)%Z.
Proof.
  unfold seg_signed. induction rs as [|r rs IH]; intros H; [reflexivity|]. cbn [filter].
  pose proof (H r (or_introl eq_refl)) as Hr. specialize (IH (fun b Hb => H b (or_intror Hb))).
  destruct (f r), (g r); try discriminate; cbn [map zsum]; lia.
Qed.

(** Signed left / right: the signed crossings left of a query point off the path and those right of it cancel, so
    the two rays see the same absolute signed count. *)
Theorem left_right_signed (x y : R) (srs : xpath) :
  mclosed_chain (map fst srs) -> (forall sr, In sr srs -> level_ok y sr) ->
  (forall sr, In sr srs -> forall r, In r (snd sr) -> px (seg_point (fst sr) r) <> x) ->
  (signed_if (left_c x) srs + signed_if (right_c x) srs = 0)%Z /\
  Z.abs (signed_if (left_c x) srs) = Z.abs (signed_if (right_c x) srs).
Proof.
  intros C OK Off.
  assert (S : (signed_if (left_c x) srs + signed_if (right_c x) srs = signed_total srs)%Z).
  { clear C OK. unfold signed_if, signed_total. induction srs as [|sr srs IH]; [reflexivity|]. cbn [map zsum].
    rewrite <- (seg_signed_split (left_c x (fst sr)) (right_c x (fst sr)) (fst sr) (snd sr)).
    - specialize (IH (fun sr' H' => Off sr' (or_intror H'))). lia.
    - intros r Hr. pose proof (Off sr (or_introl eq_refl) r Hr) as N. unfold left_c, right_c. cbn [ltb ROps].
      destruct (Rlt_dec (px (seg_point (fst sr) r)) x), (Rlt_dec x (px (seg_point (fst sr) r))); try reflexivity; exfalso; lra. }
  rewrite (closed_mixed_signed_balance y srs C OK) in S. split; [exact S | lia].
Qed.

(* ================================================================================================ *)
(** * 4. windingNumberOfPoint and pointIsInside for closed paths of mixed segments                   *)
(* ================================================================================================ *)

(** 4a. The dicts over the reals: a key collides with a stored key iff the two points are equal, so the keys of a dict
    are the distinct points inserted. *)
Lemma pt_R_eq_dec (a b : pt R) : {a = b} + {a <> b}.
Proof.
  destruct a as [a1 a2], b as [b1 b2]. destruct (Req_EM_T a1 b1) as [E1|N1]; [destruct (Req_EM_T a2 b2) as [E2|N2]|].
  - left. subst. reflexivity.
  - right. intros E. injection E. intros. contradiction.
  - right. intros E. injection E. intros. contradiction.
Qed.

Lemma dict_set_keys_R (d : list (pt R * hit)) (k : pt R) (v : hit) :
  NoDup (map fst d) ->
  NoDup (map fst (dict_set ROps d k v)) /\
  (forall k', In k' (map fst (dict_set ROps d k v)) <-> k' = k \/ In k' (map fst d)).
Proof.
  induction d as [|[k0 v0] d IH]; intros ND.
  - cbn. split; [constructor; [intros [] | constructor] | intros k'; split; [intros [H|[]]; left; congruence | intros [H|[]]; left; congruence]].
  - cbn [dict_set]. destruct (pt_R_eq_dec k0 k) as [->|N].
    + rewrite key_eq_R_refl. cbn [map fst]. split; [exact ND|]. intros k'. cbn [In]. split; [intros [H|H]; [left; congruence | right; right; exact H] | intros [H|[H|H]]; [left; congruence | left; exact H | right; exact H]].
    + rewrite (key_eq_R_neq _ _ N). cbn [map fst] in *. inversion ND as [|? ? Nin ND']; subst.
      destruct (IH ND') as [ND2 M]. split.
      * constructor; [|exact ND2]. intros Hin. apply M in Hin. destruct Hin as [E|Hin]; [apply N; exact E | contradiction].
      * intros k'. cbn [In]. rewrite M. tauto.
Qed.

Lemma collect_seg_keys_R (ray : seg2 R) (s : segment R) (l : list ixn) : forall d : list (pt R * hit),
  NoDup (map fst d) ->
  let d' := fold_left (fun d i => dict_set ROps d (ix_point i) (s, i)) l d in
  NoDup (map fst d') /\
  (forall k, In k (map fst d') <-> In k (map fst d) \/ exists i, In i l /\ ix_point i = k).
Proof.
  induction l as [|i l IH]; intros d ND; cbn [fold_left].
  - split; [exact ND|]. intros k. split; [intros H; left; exact H | intros [H|[i [[] _]]]; exact H].
  - destruct (dict_set_keys_R d (ix_point i) (s, i) ND) as [ND1 M1].
    destruct (IH _ ND1) as [ND2 M2]. split; [exact ND2|].
    intros k. rewrite M2, M1. split.
    + intros [[E|H]|[j [Hj Ej]]]; [right; exists i; split; [left; reflexivity | symmetry; exact E] | left; exact H |
                                    right; exists j; split; [right; exact Hj | exact Ej]].
    + intros [H|[j [[<-|Hj] Ej]]]; [left; right; exact H | left; left; symmetry; exact Ej | right; exists j; split; assumption].
Qed.

Lemma collect_keys_R (ray : seg2 R) (segs : list (segment R)) : forall d : list (pt R * hit),
  NoDup (map fst d) ->
  let d' := fold_left (collect_seg ROps ray) segs d in
  NoDup (map fst d') /\
  (forall k, In k (map fst d') <->
     In k (map fst d) \/ exists s i, In s segs /\ In i (seg_ray_intersections ROps s ray) /\ ix_point i = k).
Proof.
  induction segs as [|s segs IH]; intros d ND; cbn [fold_left].
  - split; [exact ND|]. intros k. split; [intros H; left; exact H | intros [H|(s & i & [] & _)]; exact H].
  - unfold collect_seg at 2 3.
    destruct (collect_seg_keys_R ray s (seg_ray_intersections ROps s ray) d ND) as [ND1 M1].
    destruct (IH _ ND1) as [ND2 M2]. split; [exact ND2|].
    intros k. rewrite M2, M1. split.
    + intros [[H|[i [Hi Ei]]]|(s' & i & Hs' & Hi & Ei)];
        [left; exact H | right; exists s, i; repeat split; [left; reflexivity | exact Hi | exact Ei] |
         right; exists s', i; repeat split; [right; exact Hs' | exact Hi | exact Ei]].
    + intros [H|(s' & i & [<-|Hs'] & Hi & Ei)];
        [left; left; exact H | left; right; exists i; split; assumption | right; exists s', i; repeat split; assumption].
Qed.

(* the number of dict entries is the number of distinct intersection points *)
Theorem collect_length_R (ray : seg2 R) (segs : list (segment R)) (pts : list (pt R)) :
  NoDup pts ->
  (forall k, In k pts <-> exists s i, In s segs /\ In i (seg_ray_intersections ROps s ray) /\ ix_point i = k) ->
  length (collect ROps segs ray) = length pts.
Proof.
  intros ND M. unfold collect.
  destruct (collect_keys_R ray segs [] ltac:(constructor)) as [ND' M']. cbv zeta in ND', M'.
  rewrite <- (map_length fst). apply Permutation_length. apply NoDup_Permutation; [exact ND' | exact ND|].
  intros k. rewrite M', M. cbn [map In]. tauto.
Qed.

(** 4b. The values stored in the dicts: every entry holds an intersection of one of the path's segments with the ray,
    under the key of its point. *)
Lemma dict_set_In_R (d : list (pt R * hit)) (k0 : pt R) (v0 : hit) (k : pt R) (v : hit) :
  In (k, v) (dict_set ROps d k0 v0) -> In (k, v) d \/ (k = k0 /\ v = v0).
Proof.
  induction d as [|[k1 v1] d IH]; cbn [dict_set].
  - intros [E|[]]. injection E as <- <-. right. split; reflexivity.
  - destruct (pt_R_eq_dec k1 k0) as [->|N].
    + rewrite key_eq_R_refl. intros [E|H]; [injection E as <- <-; right; split; reflexivity | left; right; exact H].
    + rewrite (key_eq_R_neq _ _ N). intros [E|H]; [left; left; exact E|].
      destruct (IH H) as [H'|H']; [left; right; exact H' | right; exact H'].
Qed.

Definition dict_ok (segs : list (segment R)) (ray : seg2 R) (d : list (pt R * hit)) : Prop :=
  forall k v, In (k, v) d ->
    In (fst v) segs /\ In (snd v) (seg_ray_intersections ROps (fst v) ray) /\ ix_point (snd v) = k.

Lemma collect_seg_ok (segs : list (segment R)) (ray : seg2 R) (s : segment R) : In s segs ->
  forall (l : list ixn) (d : list (pt R * hit)),
  (forall i, In i l -> In i (seg_ray_intersections ROps s ray)) -> dict_ok segs ray d ->
  dict_ok segs ray (fold_left (fun d i => dict_set ROps d (ix_point i) (s, i)) l d).
Proof.
  intros Hs. induction l as [|i l IH]; intros d Hl OK; cbn [fold_left]; [exact OK|].
  apply IH; [intros j Hj; apply Hl; right; exact Hj|].
  intros k v Hin. apply dict_set_In_R in Hin. destruct Hin as [H|[-> ->]]; [apply OK; exact H|].
  cbn [fst snd]. split; [exact Hs | split; [apply Hl; left; reflexivity | reflexivity]].
Qed.

Lemma collect_ok_acc (segs0 : list (segment R)) (ray : seg2 R) : forall (segs : list (segment R)) (d : list (pt R * hit)),
  incl segs segs0 -> dict_ok segs0 ray d -> dict_ok segs0 ray (fold_left (collect_seg ROps ray) segs d).
Proof.
  induction segs as [|s segs IH]; intros d Hi OK; cbn [fold_left]; [exact OK|].
  apply IH; [intros z Hz; apply Hi; right; exact Hz|]. unfold collect_seg.
  apply collect_seg_ok; [apply Hi; left; reflexivity | intros i Hi'; exact Hi' | exact OK].
Qed.

Lemma collect_ok (segs : list (segment R)) (ray : seg2 R) : dict_ok segs ray (collect ROps segs ray).
Proof. unfold collect. apply collect_ok_acc; [apply incl_refl | intros k v []]. Qed.

Lemma collect_keys_perm (ray : seg2 R) (segs : list (segment R)) (pts : list (pt R)) :
  NoDup pts ->
  (forall k, In k pts <-> exists s i, In s segs /\ In i (seg_ray_intersections ROps s ray) /\ ix_point i = k) ->
  Permutation (map fst (collect ROps segs ray)) pts.
Proof.
  intros ND M. unfold collect.
  destruct (collect_keys_R ray segs [] ltac:(constructor)) as [ND' M']. cbv zeta in ND', M'.
  apply NoDup_Permutation; [exact ND' | exact ND|].
  intros k. rewrite M', M. cbn [map In]. tauto.
Qed.

(** 4c. What one segment contributes to the dict of a horizontal ray. *)

(* the crossing abscissa xc keeps clear of the 2e-7 windows at the two ends of the ray *)
Definition wclear (x0 x xc : R) : Prop :=
  (rt x0 x xc < 0 \/ my_eps <= rt x0 x xc) /\ (rt x0 x xc < 1 \/ 1 + my_eps < rt x0 x xc).

(* per-class general position for the ray from (x0, y) to (x, y): [edge_gp] for a line, C05's non-degeneracy of the root
   finder in the ray's frame for a quadratic / cubic *)
Definition seg_gp (x0 x y : R) (s : segment R) : Prop :=
  match s with
  | SLine e => edge_gp e y
  | SQuad q =>
      let c' := Quad_transformed ROps q (Line_alignmentTransformation ROps (hray x0 x y)) in
      (1 / 1000000000 * Rabs (quad_b c') < Rabs (quad_a c') /\ 0 < quad_b c' * quad_b c' - 4 * quad_a c' * quad_c c')
      \/ (quad_a c' = 0 /\ quad_b c' <> 0)
  | SCubic c =>
      let c' := Cubic_transformed ROps c (Line_alignmentTransformation ROps (hray x0 x y)) in
      cubic_thr c' < Rabs (cubic_D c')
  end.

Lemma line_point_formula (e : seg2 R) (t : R) :
  Line_pointAtTime ROps e t = P (px (l0 e) * (1 - t) + px (l1 e) * t) (py (l0 e) * (1 - t) + py (l1 e) * t).
Proof. destruct_pts. rcbv. reflexivity. Qed.

Lemma line_at_et (e : seg2 R) (y : R) : py (l1 e) <> py (l0 e) -> Line_pointAtTime ROps e (et e y) = P (cross_x e y) y.
Proof. intros N. rewrite line_point_formula. unfold cross_x, et. apply pt_eq; field; lra. Qed.

Lemma line_level_param (e : seg2 R) (y r : R) :
  0 < r < 1 -> py (l0 e) <> y -> py (Line_pointAtTime ROps e r) = y -> straddles e y /\ r = et e y.
Proof.
  intros I N E. rewrite line_point_formula in E. cbn [py] in E. unfold straddles, et.
  set (a := py (l0 e)) in *. set (b := py (l1 e)) in *.
  assert (Nab : b - a <> 0). { intros H. apply N. replace b with a in E by lra. lra. }
  split.
  - destruct (Rlt_dec a b); [left | right]; split; nra.
  - apply (Rmult_eq_reg_r (b - a)); [|exact Nab]. unfold Rdiv. rewrite Rmult_assoc, Rinv_l by exact Nab. nra.
Qed.

(** 4d. The Intersection a crossing produces, and the sign the code attaches to it. *)
Definition hit_of (x0 x : R) (s : segment R) (r : R) : ixn := (r, seg_point s r, rt x0 x (px (seg_point s r))).

Section SegHits.
Variables (x0 x y : R).
Hypothesis Hray : isclose ROps x0 x = false.

Lemma seg_hits (s : segment R) (rs : list R) (i : ixn) :
  level_ok y (s, rs) -> seg_gp x0 x y s ->
  (forall r, In r rs -> my_eps <= r /\ wclear x0 x (px (seg_point s r))) ->
  (In i (seg_ray_intersections ROps s (hray x0 x y)) <->
   (exists r, In r rs /\ on_rayb x0 x (px (seg_point s r)) = true /\ i = hit_of x0 x s r)).
Proof.
  intros ((ND & HR & HS) & N0 & N1) G Hw. cbn [fst snd] in *. pose proof my_eps_pos as He.
  destruct s as [e|q|c]; cbn [seg_gp seg_point seg_start seg_end] in *.
  - assert (W : window_clear x0 x y e).
    { intros S. assert (Nd : py (l1 e) <> py (l0 e)) by (destruct S; lra).
      pose proof (et_straddles e y G S) as T.
      assert (Hin : In (et e y) rs). { apply HR. split; [lra|]. rewrite (line_at_et e y Nd). reflexivity. }
      destruct (Hw _ Hin) as [_ Wc]. rewrite (line_at_et e y Nd) in Wc. exact Wc. }
    rewrite (edge_ray_crossing e x0 x y G Hray W). split.
    + intros Hi. destruct (hitb x0 x y e) eqn:Hb; [|destruct Hi]. destruct Hi as [<-|[]].
      unfold hitb in Hb. apply andb_true_iff in Hb. destruct Hb as [S On]. apply straddlesb_true in S.
      assert (Nd : py (l1 e) <> py (l0 e)) by (destruct S; lra).
      pose proof (et_straddles e y G S) as T.
      exists (et e y). unfold hit_of. cbn [seg_point]. rewrite (line_at_et e y Nd). cbn [px]. split; [|split; [exact On | reflexivity]].
      apply HR. split; [lra|]. rewrite (line_at_et e y Nd). reflexivity.
    + intros [r (Hr & On & ->)]. destruct (proj1 (HR r) Hr) as [I E].
      destruct (line_level_param e y r I N0 E) as [S Er].
      assert (Nd : py (l1 e) <> py (l0 e)) by (destruct S; lra).
      unfold hit_of. cbn [seg_point]. rewrite Er in On |- *. rewrite (line_at_et e y Nd) in On |- *. cbn [px] in On |- *.
      unfold hitb. rewrite (proj2 (straddlesb_true e y) S), On. cbn [andb]. left. reflexivity.
  - split.
    + intros Hi. apply (quad_ray_hits_partial q x0 x y i Hray G) in Hi.
      destruct Hi as [t (I & E & Wt & ->)].
      assert (Nt : t <> 1). { intros ->. change (Quad_pointAtTime ROps q 1) with (seg_point (SQuad q) 1) in E. rewrite seg_point_1 in E. exact (N1 E). }
      assert (Hin : In t rs) by (apply HR; split; [lra | exact E]).
      exists t. split; [exact Hin | split; [|reflexivity]].
      destruct (Hw t Hin) as [_ [_ W2]]. unfold on_rayb. apply andb_true_iff. split; [apply Rleb_true | apply Rltb_true]; lra.
    + intros [r (Hr & On & ->)]. destruct (proj1 (HR r) Hr) as [I E]. destruct (Hw r Hr) as [Er [W1 _]].
      unfold on_rayb in On. apply andb_true_iff in On. destruct On as [O1 O2]. apply Rleb_true in O1. apply Rltb_true in O2.
      apply (quad_ray_hits_partial q x0 x y _ Hray G). exists r. repeat split; try reflexivity; try lra; try exact E.
  - split.
    + intros Hi. apply (cubic_ray_hits_partial c x0 x y i Hray G) in Hi.
      destruct Hi as [t (I & E & Wt & ->)].
      assert (Nt : t <> 1). { intros ->. change (Cubic_pointAtTime ROps c 1) with (seg_point (SCubic c) 1) in E. rewrite seg_point_1 in E. exact (N1 E). }
      assert (Hin : In t rs) by (apply HR; split; [lra | exact E]).
      exists t. split; [exact Hin | split; [|reflexivity]].
      destruct (Hw t Hin) as [_ [_ W2]]. unfold on_rayb. apply andb_true_iff. split; [apply Rleb_true | apply Rltb_true]; lra.
    + intros [r (Hr & On & ->)]. destruct (proj1 (HR r) Hr) as [I E]. destruct (Hw r Hr) as [Er [W1 _]].
      unfold on_rayb in On. apply andb_true_iff in On. destruct On as [O1 O2]. apply Rleb_true in O1. apply Rltb_true in O2.
      apply (cubic_ray_hits_partial c x0 x y _ Hray G). exists r. repeat split; try reflexivity; try lra; try exact E.
Qed.

End SegHits.

(* the sign int(copysign(1, .)) of the y-component of a normalised vector is the sign of the y-component *)
Lemma sign_of_unit (v : pt R) : py v <> 0 -> sign_of ROps (py (Point_toUnitVector ROps v)) = sgz (py v).
Proof.
  destruct v as [a b]. cbn [py]. intros Nb.
  assert (H : a * a + b * b <> 0). { pose proof (sq_nonneg a). assert (0 < b * b) by (apply sq_pos; exact Nb). lra. }
  rewrite (toUnitVector_spec a b H). cbn [py].
  assert (Hm : 0 < sqrt (a * a + b * b)).
  { apply sqrt_lt_R0. pose proof (sq_nonneg a). assert (0 < b * b) by (apply sq_pos; exact Nb). lra. }
  assert (Hinv : 0 < / sqrt (a * a + b * b)) by (apply Rinv_0_lt_compat; exact Hm).
  unfold sign_of, sgz. cbn [copysign_ ROps ofZ ltb]. rewrite Rabs_R1.
  destruct (Rle_dec 0 (b / sqrt (a * a + b * b))) as [L|L].
  - assert (0 <= b). { unfold Rdiv in L. nra. }
    repeat match goal with |- context[Rlt_dec ?u ?v] => destruct (Rlt_dec u v) end; try reflexivity; lra.
  - assert (b < 0). { unfold Rdiv in L. apply Rnot_le_lt in L. nra. }
    repeat match goal with |- context[Rlt_dec ?u ?v] => destruct (Rlt_dec u v) end; try reflexivity; lra.
Qed.

Lemma hit_sign_seg (s : segment R) (i : ixn) :
  seg_dy s (ix_t1 i) <> 0 -> hit_sign ROps (s, i) = sgz (seg_dy s (ix_t1 i)).
Proof.
  intros N. destruct s as [e|q|c]; cbn [seg_dy] in *.
  - rewrite hit_sign_line by lra. unfold dir, sgz. cbn [ltb ROps].
    destruct (Rlt_dec (py (l1 e)) (py (l0 e))), (Rlt_dec 0 (py (l1 e) - py (l0 e))); try reflexivity; lra.
  - unfold hit_sign. cbn [fst snd seg_tangentAtTime]. unfold Quad_tangentAtTime. apply sign_of_unit. exact N.
  - unfold hit_sign. cbn [fst snd seg_tangentAtTime]. unfold Cubic_tangentAtTime. apply sign_of_unit. exact N.
Qed.

(** 4e. In the frame of a horizontal ray the curve is translated by -(x0, y) and, when the ray points leftwards, turned
    by a half turn: C05's non-degeneracy conditions there are conditions on the curve and the level alone. *)
Lemma hray_angle (x0 x y : R) : x0 <> x ->
  sin (align_angle (hray x0 x y)) = 0 /\ (cos (align_angle (hray x0 x y)) = 1 \/ cos (align_angle (hray x0 x y)) = -1).
Proof.
  intros N. unfold align_angle, hray. cbn [l0 l1 px py].
  set (dx := x - x0). replace (y - y) with 0 by ring.
  assert (Hm : sqrt (dx * dx + 0 * 0) <> 0).
  { intros E. apply sqrt_eq_0 in E; [|nra]. assert (dx * dx = 0) by lra. apply Rmult_integral in H. unfold dx in *. destruct H; lra. }
  destruct (R_atan2_cos_sin dx 0 Hm) as [Hc Hs]. set (th := R_atan2 0 dx) in *. set (m := sqrt (dx * dx + 0 * 0)) in *.
  assert (S0 : sin th = 0). { apply Rmult_integral in Hs. destruct Hs; [contradiction | assumption]. }
  split; [exact S0|]. pose proof (sin2_cos2 th) as SC. unfold Rsqr in SC. rewrite S0 in SC.
  assert (F : (cos th - 1) * (cos th + 1) = 0) by lra. apply Rmult_integral in F. destruct F; [left | right]; lra.
Qed.

Lemma aligned_py_hray (x0 x y : R) (p : pt R) :
  py (Point_transform ROps (Point_clone ROps p) (Line_alignmentTransformation ROps (hray x0 x y))) =
  - sin (align_angle (hray x0 x y)) * (px p - x0) + cos (align_angle (hray x0 x y)) * (py p - y).
Proof.
  destruct p as [a b]. unfold Point_transform, Point_clone. cbv zeta. cbn [px py].
  pose proof (aligned_point (hray x0 x y) (P a b)) as E. cbv zeta in E. rewrite E. reflexivity.
Qed.

Lemma Rabs_sign_mult (k a : R) : k = 1 \/ k = -1 -> Rabs (k * a) = Rabs a.
Proof. intros [->| ->]; [rewrite Rmult_1_l; reflexivity|]. replace (-1 * a) with (- a) by ring. apply Rabs_Ropp. Qed.

(* general position of a segment with respect to the level y, in the code's own tolerances *)
Definition seg_gp_level (y : R) (s : segment R) : Prop :=
  match s with
  | SLine e => edge_gp e y
  | SQuad q =>
      (1 / 1000000000 * Rabs (quad_b q) < Rabs (quad_a q) /\ 0 < quad_b q * quad_b q - 4 * quad_a q * (quad_c q - y))
      \/ (quad_a q = 0 /\ quad_b q <> 0)
  | SCubic c =>
      1 / 1000000000 * max2 ROps (max2 ROps (Rabs (cubic_A c)) (Rabs (cubic_B c))) (Rabs (cubic_C c - y)) < Rabs (cubic_D c)
  end.

Lemma seg_gp_of_level (x0 x y : R) (s : segment R) : x0 <> x -> seg_gp_level y s -> seg_gp x0 x y s.
Proof.
  intros N G. destruct (hray_angle x0 x y N) as [S0 K]. destruct s as [e|q|c]; cbn [seg_gp seg_gp_level] in *.
  - exact G.
  - cbv zeta. set (q' := Quad_transformed ROps q (Line_alignmentTransformation ROps (hray x0 x y))).
    set (k := cos (align_angle (hray x0 x y))) in *.
    assert (Ea : quad_a q' = k * quad_a q /\ quad_b q' = k * quad_b q /\ quad_c q' = k * (quad_c q - y)).
    { unfold quad_a, quad_b, quad_c, q', Quad_transformed. cbv zeta. cbn [q0 q1 q2].
      rewrite !aligned_py_hray. fold k. rewrite S0. repeat split; ring. }
    destruct Ea as (Ea & Eb & Ec). rewrite Ea, Eb, Ec, !(Rabs_sign_mult k _ K).
    assert (K2 : k * k = 1) by (destruct K as [-> | ->]; ring).
    destruct G as [[G1 G2]|[G1 G2]]; [left | right].
    + split; [exact G1|]. replace (k * quad_b q * (k * quad_b q) - 4 * (k * quad_a q) * (k * (quad_c q - y)))
        with (k * k * (quad_b q * quad_b q - 4 * quad_a q * (quad_c q - y))) by ring. rewrite K2. lra.
    + split; [rewrite G1; ring|]. intros E. apply Rmult_integral in E. destruct E as [E|E]; [destruct K; lra | contradiction].
  - cbv zeta. set (c' := Cubic_transformed ROps c (Line_alignmentTransformation ROps (hray x0 x y))).
    set (k := cos (align_angle (hray x0 x y))) in *.
    assert (Ea : cubic_A c' = k * cubic_A c /\ cubic_B c' = k * cubic_B c /\ cubic_C c' = k * (cubic_C c - y) /\ cubic_D c' = k * cubic_D c).
    { unfold cubic_A, cubic_B, cubic_C, cubic_D, c', Cubic_transformed. cbv zeta. cbn [c0 c1 c2 c3].
      rewrite !aligned_py_hray. fold k. rewrite S0. repeat split; ring. }
    destruct Ea as (Ea & Eb & Ec & Ed). unfold cubic_thr. rewrite Ea, Eb, Ec, Ed, !(Rabs_sign_mult k _ K). exact G.
Qed.

(** 4f. The windows of the two rays of the model, from the size and clearance hypotheses. *)
Lemma window_L (xL x xc reach : R) :
  xL <> x -> xL + 10 <= xc -> Rabs (x - xL) <= reach -> my_eps * reach <= 10 -> my_eps * reach < Rabs (xc - x) ->
  wclear xL x xc.
Proof.
  intros N C1 R1 Hsize Off. pose proof my_eps_pos as Hm. pose proof (Rabs_pos (x - xL)) as R0. unfold wclear, rt.
  destruct (Rlt_dec xL x) as [L|L].
  - rewrite Rabs_pos_eq in R1 by lra.
    destruct (div_cmp (xc - xL) (x - xL) ltac:(lra) my_eps) as (A & _ & _).
    destruct (div_cmp (xc - xL) (x - xL) ltac:(lra) 1) as (_ & B & _).
    destruct (div_cmp (xc - xL) (x - xL) ltac:(lra) (1 + my_eps)) as (_ & _ & C).
    split; [right; apply A; nra|].
    destruct (Rlt_dec xc x) as [Lx|Lx]; [left; apply B; lra|].
    right. apply C. rewrite Rabs_pos_eq in Off by lra. nra.
  - assert (Lx : x < xL) by lra.
    replace ((xc - xL) / (x - xL)) with (- ((xc - xL) / (xL - x))) by (field; lra).
    destruct (div_cmp (xc - xL) (xL - x) ltac:(lra) 0) as (_ & _ & C).
    assert (0 < (xc - xL) / (xL - x)) by (apply C; lra).
    split; left; lra.
Qed.

Lemma window_R (xR x xc reach : R) :
  xR <> x -> xc <= xR - 10 -> Rabs (xR - x) <= reach -> my_eps * reach <= 10 -> my_eps * reach < Rabs (xc - x) ->
  wclear xR x xc.
Proof.
  intros N C2 R2 Hsize Off. pose proof my_eps_pos as Hm. pose proof (Rabs_pos (xR - x)) as R0. unfold wclear, rt.
  destruct (Rlt_dec x xR) as [L|L].
  - rewrite Rabs_pos_eq in R2 by lra.
    replace ((xc - xR) / (x - xR)) with ((xR - xc) / (xR - x)) by (field; lra).
    destruct (div_cmp (xR - xc) (xR - x) ltac:(lra) my_eps) as (A & _ & _).
    destruct (div_cmp (xR - xc) (xR - x) ltac:(lra) 1) as (_ & B & _).
    destruct (div_cmp (xR - xc) (xR - x) ltac:(lra) (1 + my_eps)) as (_ & _ & C).
    split; [right; apply A; nra|].
    destruct (Rlt_dec x xc) as [Lx|Lx]; [left; apply B; lra|].
    right. apply C. rewrite Rabs_left1 in Off by lra. nra.
  - assert (Lx : xR < x) by lra.
    replace ((xc - xR) / (x - xR)) with (- ((xR - xc) / (x - xR))) by (field; lra).
    destruct (div_cmp (xR - xc) (x - xR) ltac:(lra) 0) as (_ & _ & C).
    assert (0 < (xR - xc) / (x - xR)) by (apply C; lra).
    split; left; lra.
Qed.

Lemma rays_any (segs : list (segment R)) b0 x y : path_box ROps segs = Some b0 ->
  rays ROps segs (P x y) = Some (hray (px (bl b0) - 10) x y, hray (px (tr b0) + 10) x y).
Proof.
  intros E. unfold rays. rewrite E. unfold hray, addMargin, BBox_left, BBox_right, Point___add__. cbn [bl tr px py].
  assert (E1 : add ROps (px (bl b0)) (ofZ ROps (- (10))) = px (bl b0) - 10) by (cbn; lra).
  assert (E2 : add ROps (px (tr b0)) (ofZ ROps 10) = px (tr b0) + 10) by (cbn; lra).
  rewrite E1, E2. reflexivity.
Qed.

(** 4g. The crossing points, all of them and those on one side. *)
Definition crossing_points (srs : xpath) : list (pt R) :=
  flat_map (fun sr => map (seg_point (fst sr)) (snd sr)) srs.
Definition side_points (f : segment R -> R -> bool) (srs : xpath) : list (pt R) :=
  flat_map (fun sr => map (seg_point (fst sr)) (filter (f (fst sr)) (snd sr))) srs.

Lemma side_points_length f srs : length (side_points f srs) = count_if f srs.
Proof.
  induction srs as [|sr srs IH]; [reflexivity|]. unfold side_points, count_if in *. cbn [flat_map map nsum].
  rewrite app_length, map_length, IH. reflexivity.
Qed.

Lemma side_points_In f srs k :
  In k (side_points f srs) <-> exists sr r, In sr srs /\ In r (snd sr) /\ f (fst sr) r = true /\ k = seg_point (fst sr) r.
Proof.
  unfold side_points. rewrite in_flat_map. split.
  - intros [sr [Hsr Hk]]. apply in_map_iff in Hk. destruct Hk as [r [<- Hr]]. apply filter_In in Hr. destruct Hr as [Hr Hf].
    exists sr, r. repeat split; assumption.
  - intros (sr & r & Hsr & Hr & Hf & ->). exists sr. split; [exact Hsr|]. apply in_map. apply filter_In. split; assumption.
Qed.

Lemma crossing_points_In srs k :
  In k (crossing_points srs) <-> exists sr r, In sr srs /\ In r (snd sr) /\ k = seg_point (fst sr) r.
Proof.
  unfold crossing_points. rewrite in_flat_map. split.
  - intros [sr [Hsr Hk]]. apply in_map_iff in Hk. destruct Hk as [r [<- Hr]]. exists sr, r. repeat split; assumption.
  - intros (sr & r & Hsr & Hr & ->). exists sr. split; [exact Hsr|]. apply in_map. exact Hr.
Qed.

Lemma NoDup_app_elim {A} (a b : list A) : NoDup (a ++ b) -> NoDup a /\ NoDup b /\ (forall z, In z a -> In z b -> False).
Proof.
  induction a as [|h a IH]; cbn [app]; intros H.
  - split; [constructor | split; [exact H | intros z []]].
  - inversion H as [|? ? Nin H']; subst. destruct (IH H') as (Na & Nb & D). split; [|split; [exact Nb|]].
    + constructor; [|exact Na]. intros Hin. apply Nin. apply in_or_app. left. exact Hin.
    + intros z [<-|Hz] Hb; [apply Nin; apply in_or_app; right; exact Hb | exact (D z Hz Hb)].
Qed.
Lemma NoDup_app_intro {A} (a b : list A) : NoDup a -> NoDup b -> (forall z, In z a -> In z b -> False) -> NoDup (a ++ b).
Proof.
  induction a as [|h a IH]; cbn [app]; intros Na Nb D; [exact Nb|].
  inversion Na as [|? ? Nin Na']; subst. constructor.
  - intros Hin. apply in_app_or in Hin. destruct Hin as [Hin|Hin]; [contradiction | exact (D h (or_introl eq_refl) Hin)].
  - apply IH; [exact Na' | exact Nb | intros z Hz; apply D; right; exact Hz].
Qed.
Lemma NoDup_map_filter {A B} (g : A -> B) (f : A -> bool) (l : list A) : NoDup (map g l) -> NoDup (map g (filter f l)).
Proof.
  induction l as [|a l IH]; cbn [map filter]; intros H; [constructor|]. inversion H as [|? ? Nin H']; subst.
  destruct (f a); [|apply IH; exact H']. cbn [map]. constructor; [|apply IH; exact H'].
  intros Hin. apply Nin. apply in_map_iff in Hin. destruct Hin as [b [Eb Hb]]. apply filter_In in Hb. destruct Hb as [Hb _].
  rewrite <- Eb. apply in_map. exact Hb.
Qed.

Lemma side_points_NoDup f srs : NoDup (crossing_points srs) -> NoDup (side_points f srs).
Proof.
  induction srs as [|sr srs IH]; intros H; [constructor|].
  unfold crossing_points in H. cbn [flat_map] in H. fold (crossing_points srs) in H.
  destruct (NoDup_app_elim _ _ H) as (Na & Nb & D).
  unfold side_points. cbn [flat_map]. fold (side_points f srs). apply NoDup_app_intro.
  - apply NoDup_map_filter. exact Na.
  - apply IH. exact Nb.
  - intros z Hz Hs. apply (D z).
    + apply in_map_iff in Hz. destruct Hz as [r [<- Hr]]. apply filter_In in Hr. apply in_map. tauto.
    + apply side_points_In in Hs. destruct Hs as (sr' & r & H1 & H2 & _ & ->). apply crossing_points_In. exists sr', r. repeat split; assumption.
Qed.

(** 4h. Crossings as (segment, parameter) pairs. *)
Definition pointof (p : segment R * R) : pt R := seg_point (fst p) (snd p).
Definition all_pairs (srs : xpath) : list (segment R * R) :=
  flat_map (fun sr => map (fun r => (fst sr, r)) (snd sr)) srs.
Definition side_pairs (f : segment R -> R -> bool) (srs : xpath) : list (segment R * R) :=
  flat_map (fun sr => map (fun r => (fst sr, r)) (filter (f (fst sr)) (snd sr))) srs.

Lemma crossing_points_pairs srs : crossing_points srs = map pointof (all_pairs srs).
Proof.
  unfold crossing_points, all_pairs. induction srs as [|sr srs IH]; [reflexivity|]. cbn [flat_map].
  rewrite map_app, map_map, IH. reflexivity.
Qed.
Lemma side_points_pairs f srs : side_points f srs = map pointof (side_pairs f srs).
Proof.
  unfold side_points, side_pairs. induction srs as [|sr srs IH]; [reflexivity|]. cbn [flat_map].
  rewrite map_app, map_map, IH. reflexivity.
Qed.
Lemma zsum_app (a b : list Z) : zsum (a ++ b) = (zsum a + zsum b)%Z.
Proof. induction a as [|z a IH]; cbn [app zsum]; [lia | rewrite IH; lia]. Qed.
Lemma signed_if_pairs f srs : signed_if f srs = zsum (map (fun p => sgz (seg_dy (fst p) (snd p))) (side_pairs f srs)).
Proof.
  unfold signed_if, side_pairs. induction srs as [|sr srs IH]; [reflexivity|]. cbn [flat_map map zsum].
  rewrite map_app, zsum_app, map_map, IH. reflexivity.
Qed.
Lemma all_pairs_In srs s r : In (s, r) (all_pairs srs) <-> exists sr, In sr srs /\ fst sr = s /\ In r (snd sr).
Proof.
  unfold all_pairs. rewrite in_flat_map. split.
  - intros [sr [Hsr H]]. apply in_map_iff in H. destruct H as [r' [E Hr]]. injection E as <- <-. exists sr. repeat split; assumption.
  - intros (sr & Hsr & <- & Hr). exists sr. split; [exact Hsr|]. apply in_map_iff. exists r. split; [reflexivity | exact Hr].
Qed.
Lemma side_pairs_In f srs s r :
  In (s, r) (side_pairs f srs) <-> exists sr, In sr srs /\ fst sr = s /\ In r (snd sr) /\ f s r = true.
Proof.
  unfold side_pairs. rewrite in_flat_map. split.
  - intros [sr [Hsr H]]. apply in_map_iff in H. destruct H as [r' [E Hr]]. injection E as <- <-.
    apply filter_In in Hr. destruct Hr as [Hr Hf]. exists sr. repeat split; assumption.
  - intros (sr & Hsr & <- & Hr & Hf). exists sr. split; [exact Hsr|]. apply in_map_iff. exists r. split; [reflexivity|].
    apply filter_In. split; assumption.
Qed.

Lemma NoDup_map_inj {A B} (g : A -> B) (l : list A) (a b : A) :
  NoDup (map g l) -> In a l -> In b l -> g a = g b -> a = b.
Proof.
  induction l as [|h l IH]; intros ND Ha Hb E; [destruct Ha|]. cbn [map] in ND.
  destruct (proj1 (NoDup_cons_iff _ _) ND) as [Nin ND'].
  destruct Ha as [<-|Ha], Hb as [<-|Hb].
  - reflexivity.
  - exfalso. apply Nin. rewrite E. apply in_map. exact Hb.
  - exfalso. apply Nin. rewrite <- E. apply in_map. exact Ha.
  - apply IH; assumption.
Qed.

Lemma aligned_maps {A B K} (f : A -> Z) (g : B -> Z) (ka : A -> K) (kb : B -> K) : forall (la : list A) (lb : list B),
  map ka la = map kb lb -> (forall a b, In a la -> In b lb -> ka a = kb b -> f a = g b) -> map f la = map g lb.
Proof.
  induction la as [|a la IH]; intros [|b lb] E H; try discriminate; [reflexivity|]. cbn [map] in *.
  injection E as E1 E2. f_equal; [apply H; [left; reflexivity | left; reflexivity | exact E1]|].
  apply IH; [exact E2|]. intros a' b' Ha Hb. apply H; right; assumption.
Qed.

(** 4i. One ray of the model against a path with its level crossings. *)
Section OneRay.
Variables (srs : xpath) (x0 x y : R) (f : segment R -> R -> bool).
Hypothesis Hray : isclose ROps x0 x = false.
Hypothesis Hlevel : forall sr, In sr srs -> level_ok y sr.
Hypothesis Hgp : forall sr, In sr srs -> seg_gp x0 x y (fst sr).
Hypothesis Hw : forall sr, In sr srs -> forall r, In r (snd sr) -> my_eps <= r /\ wclear x0 x (px (seg_point (fst sr) r)).
(* the crossings the ray sees are those selected by f *)
Hypothesis Hside : forall sr, In sr srs -> forall r, In r (snd sr) -> on_rayb x0 x (px (seg_point (fst sr) r)) = f (fst sr) r.
Hypothesis Hdistinct : NoDup (crossing_points srs).

Lemma ray_hits s rs i : In (s, rs) srs ->
  (In i (seg_ray_intersections ROps s (hray x0 x y)) <-> exists r, In r rs /\ f s r = true /\ i = hit_of x0 x s r).
Proof.
  intros Hsr. rewrite (seg_hits x0 x y Hray s rs i (Hlevel _ Hsr) (Hgp _ Hsr) (Hw _ Hsr)).
  split; intros [r (Hr & H & E)]; exists r; (split; [exact Hr | split; [|exact E]]);
    pose proof (Hside _ Hsr r Hr) as Hs; cbn [fst snd] in Hs.
  - rewrite <- Hs. exact H.
  - rewrite Hs. exact H.
Qed.

Lemma ray_keys k :
  In k (side_points f srs) <->
  exists s i, In s (map fst srs) /\ In i (seg_ray_intersections ROps s (hray x0 x y)) /\ ix_point i = k.
Proof.
  rewrite side_points_In. split.
  - intros ([s rs] & r & Hsr & Hr & Hf & ->). cbn [fst snd] in *. exists s, (hit_of x0 x s r).
    split; [apply (in_map fst _ _ Hsr) | split; [|reflexivity]].
    apply (ray_hits s rs _ Hsr). exists r. repeat split; assumption.
  - intros (s & i & Hs & Hi & Ei). apply in_map_iff in Hs. destruct Hs as [[s' rs] [Es Hsr]]. cbn [fst] in Es. subst s'.
    apply (ray_hits s rs i Hsr) in Hi. destruct Hi as [r (Hr & Hf & ->)].
    exists (s, rs), r. cbn [fst snd]. repeat split; try assumption. symmetry. exact Ei.
Qed.

Lemma ray_keys_perm : Permutation (map fst (collect ROps (map fst srs) (hray x0 x y))) (side_points f srs).
Proof. apply collect_keys_perm; [apply side_points_NoDup; exact Hdistinct | exact ray_keys]. Qed.

(* the number of entries of the dict is the number of crossings seen by the ray *)
Lemma ray_count : length (collect ROps (map fst srs) (hray x0 x y)) = count_if f srs.
Proof. rewrite <- side_points_length, <- (map_length fst). apply Permutation_length. exact ray_keys_perm. Qed.

(* and its winding sum is their signed number *)
Lemma ray_sum : winding_sum ROps (collect ROps (map fst srs) (hray x0 x y)) = signed_if f srs.
Proof.
  set (d := collect ROps (map fst srs) (hray x0 x y)).
  pose proof ray_keys_perm as Pm. fold d in Pm. rewrite side_points_pairs in Pm.
  apply Permutation_sym, Permutation_map_inv in Pm. destruct Pm as [d3 [Ek Pd]].
  rewrite winding_sum_as_signs, fold_left_add_zsum, Z.add_0_l.
  rewrite (zsum_perm _ _ (Permutation_map _ Pd)), signed_if_pairs. f_equal. symmetry.
  apply (aligned_maps _ _ pointof fst _ _ Ek).
  intros [s r] [k [s' i]] Ha Hb E. cbn [fst snd] in *.
  assert (Hb' : In (k, (s', i)) d) by (apply (Permutation_in _ (Permutation_sym Pd)); exact Hb).
  destruct (collect_ok (map fst srs) (hray x0 x y) k (s', i) Hb') as (Hs' & Hi & Ei). cbn [fst snd] in *.
  apply in_map_iff in Hs'. destruct Hs' as [[s'' rs'] [Es Hsr']]. cbn [fst] in Es. subst s''.
  apply (ray_hits s' rs' i Hsr') in Hi. destruct Hi as [r' (Hr' & Hf' & ->)].
  assert (P1 : In (s, r) (all_pairs srs)).
  { apply side_pairs_In in Ha. destruct Ha as (sr & Hsr & Efs & Hr & _). apply all_pairs_In. exists sr. repeat split; assumption. }
  assert (P2 : In (s', r') (all_pairs srs)) by (apply all_pairs_In; exists (s', rs'); repeat split; assumption).
  assert (Eq : (s, r) = (s', r')).
  { apply (NoDup_map_inj pointof (all_pairs srs)); [rewrite <- crossing_points_pairs; exact Hdistinct | exact P1 | exact P2|].
    unfold pointof at 2. cbn [fst snd]. rewrite E. symmetry. exact Ei. }
  injection Eq as <- <-.
  destruct (Hlevel _ Hsr') as ((_ & _ & HS) & _ & _). cbn [fst snd] in HS.
  rewrite hit_sign_seg; [reflexivity | exact (HS r Hr')].
Qed.

End OneRay.

(** 4j. Everything assumed about a closed mixed path with its level crossings [srs], its bounding box [b0] and a query
    point (x, y): the analogue of [polygon_query]. *)
Record mixed_query (srs : xpath) (b0 : bbox R) (x y : R) : Prop := mk_mixed_query {
  (* the path is a closed chain and b0 is what BezierPath.bounds() computes for it *)
  mq_box : path_box ROps (map fst srs) = Some b0;
  mq_closed : mclosed_chain (map fst srs);
  (* the level y passes through no node; each list is the list of the (transversal) crossings of its segment *)
  mq_level : forall sr, In sr srs -> level_ok y sr;
  (* general position of every segment with respect to the level, in the code's tolerances (see [seg_gp_level]) *)
  mq_gp : forall sr, In sr srs -> seg_gp_level y (fst sr);
  (* neither ray is degenerate for the code *)
  mq_rayL : isclose ROps (px (bl b0) - 10) x = false;
  mq_rayR : isclose ROps (px (tr b0) + 10) x = false;
  (* size: 2e-7 of the longer ray is at most the 10-unit margin *)
  mq_size : my_eps * ray_reach b0 x <= 10;
  (* no crossing within the first 2e-7 of its segment's parameter range *)
  mq_eps : forall sr, In sr srs -> forall r, In r (snd sr) -> my_eps <= r;
  (* every crossing lies between the left and the right side of the computed box (automatic for lines; for curves the
     computed box encloses the curve up to C02's sliver term) *)
  mq_inbox : forall sr, In sr srs -> forall r, In r (snd sr) -> px (bl b0) <= px (seg_point (fst sr) r) <= px (tr b0);
  (* the query point is not on the path, nor within 2e-7 ray lengths of a crossing of its level *)
  mq_off : forall sr, In sr srs -> forall r, In r (snd sr) -> my_eps * ray_reach b0 x < Rabs (px (seg_point (fst sr) r) - x);
  (* no two crossing points of the level coincide (the dicts are keyed by the crossing point) *)
  mq_distinct : NoDup (crossing_points srs) }.

Section Mixed.
Variables (srs : xpath) (b0 : bbox R) (x y : R).
Hypothesis Q : mixed_query srs b0 x y.
Let xL := px (bl b0) - 10.
Let xR := px (tr b0) + 10.

Lemma mq_reach : 0 <= ray_reach b0 x /\ Rabs (x - xL) <= ray_reach b0 x /\ Rabs (xR - x) <= ray_reach b0 x.
Proof.
  unfold ray_reach, xL, xR. pose proof (Rabs_pos (x - (px (bl b0) - 10))).
  pose proof (Rmax_l (Rabs (x - (px (bl b0) - 10))) (Rabs (px (tr b0) + 10 - x))).
  pose proof (Rmax_r (Rabs (x - (px (bl b0) - 10))) (Rabs (px (tr b0) + 10 - x))). lra.
Qed.

Lemma mq_not_x sr r : In sr srs -> In r (snd sr) -> px (seg_point (fst sr) r) <> x.
Proof.
  intros Hsr Hr E. pose proof (mq_off _ _ _ _ Q sr Hsr r Hr) as Off. destruct mq_reach as (R0 & _). pose proof my_eps_pos.
  rewrite E, Rminus_diag_eq, Rabs_R0 in Off by reflexivity. nra.
Qed.

Lemma mq_NL : xL <> x.
Proof. exact (isclose_false_neq _ _ (mq_rayL _ _ _ _ Q)). Qed.
Lemma mq_NR : xR <> x.
Proof. exact (isclose_false_neq _ _ (mq_rayR _ _ _ _ Q)). Qed.

Lemma mq_gpL sr : In sr srs -> seg_gp xL x y (fst sr).
Proof. intros H. apply seg_gp_of_level; [exact mq_NL | exact (mq_gp _ _ _ _ Q sr H)]. Qed.
Lemma mq_gpR sr : In sr srs -> seg_gp xR x y (fst sr).
Proof. intros H. apply seg_gp_of_level; [exact mq_NR | exact (mq_gp _ _ _ _ Q sr H)]. Qed.

Lemma mq_wL sr : In sr srs -> forall r, In r (snd sr) -> my_eps <= r /\ wclear xL x (px (seg_point (fst sr) r)).
Proof.
  intros Hsr r Hr. destruct mq_reach as (R0 & R1 & R2). split; [exact (mq_eps _ _ _ _ Q sr Hsr r Hr)|].
  destruct (mq_inbox _ _ _ _ Q sr Hsr r Hr) as [B1 B2].
  apply (window_L xL x _ (ray_reach b0 x)); [exact mq_NL | unfold xL; lra | exact R1 | exact (mq_size _ _ _ _ Q) | exact (mq_off _ _ _ _ Q sr Hsr r Hr)].
Qed.
Lemma mq_wR sr : In sr srs -> forall r, In r (snd sr) -> my_eps <= r /\ wclear xR x (px (seg_point (fst sr) r)).
Proof.
  intros Hsr r Hr. destruct mq_reach as (R0 & R1 & R2). split; [exact (mq_eps _ _ _ _ Q sr Hsr r Hr)|].
  destruct (mq_inbox _ _ _ _ Q sr Hsr r Hr) as [B1 B2].
  apply (window_R xR x _ (ray_reach b0 x)); [exact mq_NR | unfold xR; lra | exact R2 | exact (mq_size _ _ _ _ Q) | exact (mq_off _ _ _ _ Q sr Hsr r Hr)].
Qed.

(* which ray sees a crossing *)
Lemma mq_sideL sr : In sr srs -> forall r, In r (snd sr) -> on_rayb xL x (px (seg_point (fst sr) r)) = left_c x (fst sr) r.
Proof.
  intros Hsr r Hr. destruct (mq_inbox _ _ _ _ Q sr Hsr r Hr) as [B1 B2].
  unfold left_c. apply on_rayb_left; [unfold xL; lra | exact mq_NL].
Qed.
Lemma mq_sideR sr : In sr srs -> forall r, In r (snd sr) -> on_rayb xR x (px (seg_point (fst sr) r)) = right_c x (fst sr) r.
Proof.
  intros Hsr r Hr. destruct (mq_inbox _ _ _ _ Q sr Hsr r Hr) as [B1 B2].
  unfold right_c. apply on_rayb_right; [unfold xR; lra | exact mq_NR].
Qed.

(** The two rays agree on the parity (Part 3), and their signed counts cancel (Part 3'). *)
Lemma mixed_sides_parity : Nat.odd (count_if (left_c x) srs) = Nat.odd (count_if (right_c x) srs).
Proof.
  apply (left_right_parity_x x y srs (mq_closed _ _ _ _ Q) (mq_level _ _ _ _ Q)).
  intros sr Hsr r Hr. apply mq_not_x; assumption.
Qed.
Lemma mixed_sides_signed : Z.abs (signed_if (left_c x) srs) = Z.abs (signed_if (right_c x) srs).
Proof.
  apply (left_right_signed x y srs (mq_closed _ _ _ _ Q) (mq_level _ _ _ _ Q)).
  intros sr Hsr r Hr. apply mq_not_x; assumption.
Qed.

(** The number of entries of the left dict is the number of crossings left of x, and its winding sum is their signed
    number; likewise on the right. *)
Lemma mixed_count_L : length (collect ROps (map fst srs) (hray xL x y)) = count_if (left_c x) srs.
Proof. exact (ray_count srs xL x y (left_c x) (mq_rayL _ _ _ _ Q) (mq_level _ _ _ _ Q) mq_gpL mq_wL mq_sideL (mq_distinct _ _ _ _ Q)). Qed.
Lemma mixed_count_R : length (collect ROps (map fst srs) (hray xR x y)) = count_if (right_c x) srs.
Proof. exact (ray_count srs xR x y (right_c x) (mq_rayR _ _ _ _ Q) (mq_level _ _ _ _ Q) mq_gpR mq_wR mq_sideR (mq_distinct _ _ _ _ Q)). Qed.
Lemma mixed_sum_L : winding_sum ROps (collect ROps (map fst srs) (hray xL x y)) = signed_if (left_c x) srs.
Proof. exact (ray_sum srs xL x y (left_c x) (mq_rayL _ _ _ _ Q) (mq_level _ _ _ _ Q) mq_gpL mq_wL mq_sideL (mq_distinct _ _ _ _ Q)). Qed.
Lemma mixed_sum_R : winding_sum ROps (collect ROps (map fst srs) (hray xR x y)) = signed_if (right_c x) srs.
Proof. exact (ray_sum srs xR x y (right_c x) (mq_rayR _ _ _ _ Q) (mq_level _ _ _ _ Q) mq_gpR mq_wR mq_sideR (mq_distinct _ _ _ _ Q)). Qed.

(** 4k. The winding number of a closed mixed path: the absolute value of the signed number of crossings left of the
    query point (equivalently right of it). *)
Theorem mixed_winding_number_sec :
  windingNumberOfPoint ROps (map fst srs) (P x y) = Some (Z.abs (signed_if (left_c x) srs)) /\
  Z.abs (signed_if (left_c x) srs) = Z.abs (signed_if (right_c x) srs).
Proof.
  pose proof mixed_sides_signed as E. split; [|exact E].
  unfold windingNumberOfPoint. rewrite (rays_any (map fst srs) b0 x y (mq_box _ _ _ _ Q)). fold xL xR.
  rewrite mixed_sum_L, mixed_sum_R, <- E, Z.max_id. reflexivity.
Qed.

(* its parity is that of the number of crossings left of the query point *)
Theorem mixed_winding_parity_sec :
  exists w, windingNumberOfPoint ROps (map fst srs) (P x y) = Some w /\
            Z.odd w = Nat.odd (count_if (left_c x) srs) /\ (0 <= w)%Z.
Proof.
  pose proof (rays_any (map fst srs) b0 x y (mq_box _ _ _ _ Q)) as Hr. fold xL xR in Hr.
  destruct mixed_winding_number_sec as [Hw _]. eexists. split; [exact Hw|].
  destruct (windingNumber_parity_any R ROps _ _ _ _ _ Hr Hw) as (_ & H & Pos). cbv zeta in H.
  rewrite mixed_count_L, mixed_count_R in H. split; [apply H; exact mixed_sides_parity | exact Pos].
Qed.

(** 4l. Even-odd. *)
Theorem mixed_even_odd_sec :
  pointIsInside ROps (map fst srs) (P x y) = Some (Nat.odd (count_if (left_c x) srs)) /\
  Nat.odd (count_if (left_c x) srs) = Nat.odd (count_if (right_c x) srs).
Proof.
  destruct mixed_winding_parity_sec as (w & Hw & Pw & _). split; [|exact mixed_sides_parity].
  rewrite (pointIsInside_parity_any R ROps _ _ w Hw), Pw. reflexivity.
Qed.

End Mixed.

Theorem mixed_dict_counts srs b0 x y : mixed_query srs b0 x y ->
  length (collect ROps (map fst srs) (hray (px (bl b0) - 10) x y)) = count_if (left_c x) srs /\
  length (collect ROps (map fst srs) (hray (px (tr b0) + 10) x y)) = count_if (right_c x) srs.
Proof. intros Q. split; [exact (mixed_count_L srs b0 x y Q) | exact (mixed_count_R srs b0 x y Q)]. Qed.

Theorem mixed_winding_number srs b0 x y : mixed_query srs b0 x y ->
  windingNumberOfPoint ROps (map fst srs) (P x y) = Some (Z.abs (signed_if (left_c x) srs)) /\
  Z.abs (signed_if (left_c x) srs) = Z.abs (signed_if (right_c x) srs).
Proof. exact (mixed_winding_number_sec srs b0 x y). Qed.

Theorem mixed_winding_parity srs b0 x y : mixed_query srs b0 x y ->
  exists w, windingNumberOfPoint ROps (map fst srs) (P x y) = Some w /\
            Z.odd w = Nat.odd (count_if (left_c x) srs) /\ (0 <= w)%Z.
Proof. exact (mixed_winding_parity_sec srs b0 x y). Qed.

Theorem mixed_even_odd srs b0 x y : mixed_query srs b0 x y ->
  pointIsInside ROps (map fst srs) (P x y) = Some (Nat.odd (count_if (left_c x) srs)) /\
  Nat.odd (count_if (left_c x) srs) = Nat.odd (count_if (right_c x) srs).
Proof. exact (mixed_even_odd_sec srs b0 x y). Qed.

(** 4m. Polygons are a special case: a [polygon_query] is a [mixed_query] (each crossed edge carries its one crossing
    parameter), so Part 4 contains the polygon theorems of Proofs/C11.v. *)
Definition polygon_xpath (y : R) (ls : list (seg2 R)) : xpath :=
  map (fun e => (SLine e, if straddlesb e y then [et e y] else [])) ls.

Lemma polygon_xpath_segs y ls : map fst (polygon_xpath y ls) = map SLine ls.
Proof. unfold polygon_xpath. rewrite map_map. apply map_ext. intros e. reflexivity. Qed.

Lemma polygon_crossing_points y ls :
  crossing_points (polygon_xpath y ls) = map (fun e => P (cross_x e y) y) (filter (fun e => straddlesb e y) ls).
Proof.
  unfold crossing_points, polygon_xpath. induction ls as [|e ls IH]; [reflexivity|]. cbn [map flat_map fst snd filter].
  destruct (straddlesb e y) eqn:S; cbn [map app]; rewrite IH; [|reflexivity].
  apply straddlesb_true in S. assert (Nd : py (l1 e) <> py (l0 e)) by (destruct S; lra).
  cbn [seg_point]. rewrite (line_at_et e y Nd). reflexivity.
Qed.

Theorem polygon_mixed_query ls b0 x y : polygon_query ls b0 x y -> mixed_query (polygon_xpath y ls) b0 x y.
Proof.
  intros [Hbox Hclosed Hgp HrayL HrayR Hsize Hoff Hdistinct]. pose proof my_eps_pos as He.
  assert (Hin : forall sr, In sr (polygon_xpath y ls) ->
                exists e, In e ls /\ sr = (SLine e, if straddlesb e y then [et e y] else [])).
  { intros sr H. apply in_map_iff in H. destruct H as [e [<- H]]. exists e. split; [exact H | reflexivity]. }
  assert (Hcr : forall sr, In sr (polygon_xpath y ls) -> forall r, In r (snd sr) ->
                exists e, In e ls /\ fst sr = SLine e /\ straddles e y /\ r = et e y /\
                          seg_point (fst sr) r = P (cross_x e y) y).
  { intros sr H r Hr. destruct (Hin sr H) as [e [Ie ->]]. cbn [fst snd] in *.
    destruct (straddlesb e y) eqn:S; [|destruct Hr]. destruct Hr as [<-|[]]. apply straddlesb_true in S.
    exists e. repeat split; try assumption. cbn [seg_point]. apply line_at_et. destruct S; lra. }
  constructor.
  - rewrite polygon_xpath_segs. exact Hbox.
  - rewrite polygon_xpath_segs. apply mclosed_chain_lines. exact Hclosed.
  - intros sr H. destruct (Hin sr H) as [e [Ie ->]]. pose proof (Hgp e Ie) as G. destruct (gp_neq e y G) as [N0 N1].
    split; [|cbn [fst seg_start seg_end]; split; intros E; [apply N0 | apply N1]; symmetry; exact E]. cbn [fst snd].
    destruct (straddlesb e y) eqn:S.
    + apply straddlesb_true in S. assert (Nd : py (l1 e) <> py (l0 e)) by (destruct S; lra).
      pose proof (et_straddles e y G S) as T. split; [|split].
      * constructor; [intros [] | constructor].
      * intros r. cbn [In seg_point]. split.
        -- intros [<-|[]]. split; [lra|]. rewrite (line_at_et e y Nd). reflexivity.
        -- intros [I E]. left. symmetry. apply (line_level_param e y r I); [intros E'; apply N0; symmetry; exact E' | exact E].
      * intros r _. cbn [seg_dy]. lra.
    + apply straddlesb_false in S. split; [|split].
      * constructor.
      * intros r. cbn [In seg_point]. split; [intros [] | intros [I E]]. apply S.
        apply (line_level_param e y r I); [intros E'; apply N0; symmetry; exact E' | exact E].
      * intros r [].
  - intros sr H. destruct (Hin sr H) as [e [Ie ->]]. cbn [fst seg_gp_level]. exact (Hgp e Ie).
  - exact HrayL.
  - exact HrayR.
  - exact Hsize.
  - intros sr H r Hr. destruct (Hcr sr H r Hr) as (e & Ie & _ & S & -> & _).
    pose proof (et_straddles e y (Hgp e Ie) S). lra.
  - intros sr H r Hr. destruct (Hcr sr H r Hr) as (e & Ie & _ & S & _ & ->). cbn [px].
    pose proof (poly_cross_in ls x y b0 Hbox Hclosed Hgp Hoff Hdistinct e Ie S). lra.
  - intros sr H r Hr. destruct (Hcr sr H r Hr) as (e & Ie & _ & S & _ & ->). cbn [px]. exact (Hoff e Ie S).
  - rewrite polygon_crossing_points. revert Hdistinct. generalize (filter (fun e => straddlesb e y) ls). intros l.
    induction l as [|a l IH]; cbn [map]; intros H; [constructor|].
    destruct (proj1 (NoDup_cons_iff _ _) H) as [Nin ND]. constructor; [|apply IH; exact ND].
    intros Hi. apply Nin. apply in_map_iff in Hi. destruct Hi as [b [Eb Hb]]. injection Eb as Eb.
    apply in_map_iff. exists b. split; assumption.
Qed.

(* the triangle of Proofs/C11.v with the query (10, 5), as a mixed path *)
Example tri_mixed_query : mixed_query (polygon_xpath 5 tri) tri_box 10 5.
Proof. apply polygon_mixed_query. exact tri_query_inside. Qed.

(* ================================================================================================ *)
(** * 5. Non-vacuity: a "D" with a line, a cubic and a quadratic                                      *)
(* ================================================================================================ *)

(* stem (0,0)->(0,8); bowl: cubic (0,8) (6,8) (6,0) (3,0); foot: quadratic (3,0) (3/2,-2) (0,0) *)
Definition dD_line : seg2 R := L2 (P 0 0) (P 0 8).
Definition dD_cubic : seg4 R := C4 (P 0 8) (P 6 8) (P 6 0) (P 3 0).
Definition dD_quad : seg3 R := Q3 (P 3 0) (P (3 / 2) (-2)) (P 0 0).
Definition dD : list (segment R) := [SLine dD_line; SCubic dD_cubic; SQuad dD_quad].

Lemma dD_closed : mclosed_chain dD.
Proof. cbn. auto. Qed.

Lemma dD_line_y t : py (seg_point (SLine dD_line) t) = 8 * t.
Proof. rcbv. ring. Qed.
Lemma dD_cubic_y t : py (seg_point (SCubic dD_cubic) t) = 16 * t * t * t - 24 * t * t + 8.
Proof. cbn [seg_point]. rewrite cubic_y_poly. unfold cubic_A, cubic_B, cubic_C, cubic_D, dD_cubic. cbn [c0 c1 c2 c3 px py]. ring. Qed.
Lemma dD_quad_y t : py (seg_point (SQuad dD_quad) t) = 4 * t * t - 4 * t.
Proof. cbn [seg_point]. rewrite quad_y_poly. unfold quad_a, quad_b, quad_c, dD_quad. cbn [q0 q1 q2 px py]. ring. Qed.
Lemma dD_cubic_dy t : seg_dy (SCubic dD_cubic) t = 48 * t * t - 48 * t.
Proof. rewrite (seg_dy_poly _ 0). unfold seg_coeffs, cubic_A, cubic_B, cubic_C, cubic_D, dD_cubic. cbn [c0 c1 c2 c3 px py pderiv peval]. ring. Qed.
Lemma dD_quad_dy t : seg_dy (SQuad dD_quad) t = 8 * t - 4.
Proof. rewrite (seg_dy_poly _ 0). unfold seg_coeffs, quad_a, quad_b, quad_c, dD_quad. cbn [q0 q1 q2 px py pderiv peval]. ring. Qed.

Lemma NoDup_1 {A} (a : A) : NoDup [a].
Proof. constructor; [intros [] | constructor]. Qed.
Lemma NoDup_0 {A} : NoDup (@nil A).
Proof. constructor. Qed.

(* level 4: the stem and the bowl are crossed once each (both at t = 1/2), the foot is not reached *)
Definition dD_at_4 : xpath := [(SLine dD_line, [1 / 2]); (SCubic dD_cubic, [1 / 2]); (SQuad dD_quad, [])].

Lemma dD_at_4_ok : forall sr, In sr dD_at_4 -> level_ok 4 sr.
Proof.
  intros sr [<-|[<-|[<-|[]]]]; (split; [split; [|split]|]); cbn [fst snd].
  - apply NoDup_1.
  - intros r. rewrite dD_line_y. cbn [In]. split; [intros [<-|[]]; lra | intros [I E]; left; lra].
  - intros r _. cbn [seg_dy dD_line l0 l1 py]. lra.
  - cbn [seg_start seg_end dD_line l0 l1 py]. lra.
  - apply NoDup_1.
  - intros r. rewrite dD_cubic_y. cbn [In]. split; [intros [<-|[]]; lra|]. intros [I E]. left.
    assert (F : (2 * r - 1) * (2 * r * r - 2 * r - 1) = 0) by lra.
    apply Rmult_integral in F. destruct F as [F|F]; [lra | nra].
  - intros r [<-|[]]. rewrite dD_cubic_dy. lra.
  - cbn [seg_start seg_end dD_cubic c0 c3 py]. lra.
  - apply NoDup_0.
  - intros r. rewrite dD_quad_y. cbn [In]. split; [intros [] | intros [I E]; nra].
  - intros r [].
  - cbn [seg_start seg_end dD_quad q0 q2 py]. lra.
Qed.

Example dD_at_4_balance :
  mclosed_chain (map fst dD_at_4) /\ (forall sr, In sr dD_at_4 -> level_ok 4 sr) /\
  total_crossings dD_at_4 = 2%nat /\ Nat.even (total_crossings dD_at_4) = true.
Proof.
  split; [exact dD_closed | split; [exact dD_at_4_ok | split; [reflexivity|]]].
  apply (closed_mixed_balance 4); [exact dD_closed | exact dD_at_4_ok].
Qed.

(* level -3/4: the foot is crossed twice (t = 1/4 and t = 3/4), the stem and the bowl not at all *)
Definition dD_at_m : xpath := [(SLine dD_line, []); (SCubic dD_cubic, []); (SQuad dD_quad, [1 / 4; 3 / 4])].

Lemma dD_at_m_ok : forall sr, In sr dD_at_m -> level_ok (- 3 / 4) sr.
Proof.
  intros sr [<-|[<-|[<-|[]]]]; (split; [split; [|split]|]); cbn [fst snd].
  - apply NoDup_0.
  - intros r. rewrite dD_line_y. cbn [In]. split; [intros [] | intros [I E]; lra].
  - intros r [].
  - cbn [seg_start seg_end dD_line l0 l1 py]. lra.
  - apply NoDup_0.
  - intros r. rewrite dD_cubic_y. cbn [In]. split; [intros [] | intros [I E]].
    assert (0 <= (1 - r) * (1 - r) * (1 + 2 * r)) by (apply Rmult_le_pos; [apply Rle_0_sqr | lra]). nra.
  - intros r [].
  - cbn [seg_start seg_end dD_cubic c0 c3 py]. lra.
  - constructor; [intros [H|[]]; lra | apply NoDup_1].
  - intros r. rewrite dD_quad_y. cbn [In]. split; [intros [<-|[<-|[]]]; lra|]. intros [I E].
    assert (F : (4 * r - 1) * (4 * r - 3) = 0) by lra.
    apply Rmult_integral in F. destruct F as [F|F]; [left | right; left]; lra.
  - intros r [<-|[<-|[]]]; rewrite dD_quad_dy; lra.
  - cbn [seg_start seg_end dD_quad q0 q2 py]. lra.
Qed.

Example dD_at_m_balance :
  mclosed_chain (map fst dD_at_m) /\ (forall sr, In sr dD_at_m -> level_ok (- 3 / 4) sr) /\
  total_crossings dD_at_m = 2%nat /\ Nat.even (total_crossings dD_at_m) = true.
Proof.
  split; [exact dD_closed | split; [exact dD_at_m_ok | split; [reflexivity|]]].
  apply (closed_mixed_balance (- 3 / 4)); [exact dD_closed | exact dD_at_m_ok].
Qed.

(* Part 3 on the D: the query point (1, 4) is off the path; one crossing on either side *)
Lemma dD_off_1_4 : off_path dD (P 1 4).
Proof.
  intros s [<-|[<-|[<-|[]]]] t I E.
  - cbn [seg_point] in E. rewrite line_point_formula in E. unfold dD_line in E. cbn [l0 l1 px py] in E. injection E as Ex Ey. lra.
  - assert (Ey : py (seg_point (SCubic dD_cubic) t) = 4) by (rewrite E; reflexivity).
    assert (Ex : px (seg_point (SCubic dD_cubic) t) = 1) by (rewrite E; reflexivity).
    rewrite dD_cubic_y in Ey.
    assert (Xf : px (seg_point (SCubic dD_cubic) t) = 18 * t * (1 - t) + 3 * t * t * t) by (unfold dD_cubic; rcbv; ring).
    rewrite Xf in Ex.
    assert (F : (2 * t - 1) * (2 * t * t - 2 * t - 1) = 0) by lra.
    apply Rmult_integral in F. destruct F as [F|F]; [|nra].
    assert (t = 1 / 2) by lra. subst t. lra.
  - assert (Ey : py (seg_point (SQuad dD_quad) t) = 4) by (rewrite E; reflexivity).
    rewrite dD_quad_y in Ey. nra.
Qed.

Example dD_at_4_sides :
  count_if (left_c 1) dD_at_4 = 1%nat /\ count_if (right_c 1) dD_at_4 = 1%nat /\
  Nat.odd (count_if (left_c 1) dD_at_4) = Nat.odd (count_if (right_c 1) dD_at_4).
Proof.
  assert (Pl : px (seg_point (SLine dD_line) (1 / 2)) = 0) by (rcbv; lra).
  assert (Pc : px (seg_point (SCubic dD_cubic) (1 / 2)) = 39 / 8) by (unfold dD_cubic; rcbv; lra).
  split; [|split].
  - unfold count_if, dD_at_4. cbn [map fst snd filter nsum]. unfold left_c. rewrite Pl, Pc.
    rewrite (proj2 (Rltb_true 0 1)) by lra. rewrite (proj2 (Rltb_false (39 / 8) 1)) by lra. reflexivity.
  - unfold count_if, dD_at_4. cbn [map fst snd filter nsum]. unfold right_c. rewrite Pl, Pc.
    rewrite (proj2 (Rltb_false 1 0)) by lra. rewrite (proj2 (Rltb_true 1 (39 / 8))) by lra. reflexivity.
  - apply (left_right_parity 1 4 dD_at_4 dD_closed dD_at_4_ok dD_off_1_4).
Qed.

(* ---- a closed path with a line, a quadratic and a cubic that satisfies every hypothesis of [mixed_query] ---- *)
(* line (0,-2)->(0,0); quadratic (0,0) (-2,4) (0,8); cubic (0,8) (6,5) (6,3) (0,-2) *)
Definition ll : seg2 R := L2 (P 0 (-2)) (P 0 0).
Definition lq : seg3 R := Q3 (P 0 0) (P (-2) 4) (P 0 8).
Definition lc : seg4 R := C4 (P 0 8) (P 6 5) (P 6 3) (P 0 (-2)).

Lemma quadraticRoots_linear_eq (a b c : R) :
  a = 0 -> b <> 0 -> 0 <= - c / b <= 1 -> utils_quadraticRoots ROps a b c = [- c / b].
Proof.
  intros -> Nb I. pose proof (Rabs_pos b) as Hb. rcbv. rewrite Rabs_R0. rdec; try lra; try reflexivity.
Qed.

Lemma lq_extremes : Quad_findExtremes ROps lq = [1 / 2].
Proof. unfold lq. rdecide_all. f_equal. field. Qed.

Lemma lc_extremes : Cubic_findExtremes_False ROps lc = [1 / 2].
Proof.
  unfold Cubic_findExtremes_False, Cubic__findDRoots. cbv zeta.
  unfold Cubic_derivative, lc, Point___mul__, Point___sub__. cbn [c0 c1 c2 c3 q0 q1 q2 px py].
  change (ofZ ROps 3) with 3. change (ofZ ROps 2) with 2. cbn [add sub mul ROps].
  rewrite (quadraticRoots_linear_eq ((6 - 0) * 3 - 2 * ((6 - 6) * 3) + (0 - 6) * 3)) by (try lra; replace (- ((6 - 0) * 3) / (2 * ((6 - 6) * 3 - (6 - 0) * 3))) with (1 / 2) by field; lra).
  rewrite (quadraticRoots_nonpositive_disc ((5 - 8) * 3 - 2 * ((3 - 5) * 3) + (-2 - 3) * 3)) by (try lra; rconc).
  replace (- ((6 - 0) * 3) / (2 * ((6 - 6) * 3 - (6 - 0) * 3))) with (1 / 2) by field.
  cbn [app]. unfold sort_. cbn [fold_left insert_sorted filter].
  change (lit ROps 1 100 _) with (1 / 100). change (lit ROps 99 100 _) with (99 / 100).
  rewrite (proj2 (Rleb_true (1 / 100) (1 / 2))), (proj2 (Rleb_true (1 / 2) (99 / 100))) by lra. reflexivity.
Qed.

Lemma lq_pt t : Quad_pointAtTime ROps lq t = P (-4 * t * (1 - t)) (8 * t).
Proof. unfold lq. rcbv. apply pt_eq; ring. Qed.
Lemma lc_pt t : Cubic_pointAtTime ROps lc t = P (18 * t * (1 - t)) (- 4 * t * t * t + 3 * t * t - 9 * t + 8).
Proof. unfold lc. rcbv. apply pt_eq; ring. Qed.

Lemma lq_bounds : Quad_bounds ROps lq = Some (BB (P (-1) 0) (P 0 8)).
Proof.
  unfold Quad_bounds, with_ends, bounds_of. rewrite lq_extremes. cbn [app map fold_left].
  change (ofZ ROps 0) with 0. change (ofZ ROps 1) with 1. rewrite !lq_pt.
  rewrite extend_pt_none. repeat (rewrite extend_pt_val; cbn [bl tr px py]). minmax. f_equal. f_equal; apply pt_eq; lra.
Qed.
Lemma lc_bounds : Cubic_bounds ROps lc = Some (BB (P 0 (-2)) (P (9 / 2) 8)).
Proof.
  unfold Cubic_bounds, with_ends, bounds_of. rewrite lc_extremes. cbn [app map fold_left].
  change (ofZ ROps 0) with 0. change (ofZ ROps 1) with 1. rewrite !lc_pt.
  rewrite extend_pt_none. repeat (rewrite extend_pt_val; cbn [bl tr px py]). minmax. f_equal. f_equal; apply pt_eq; lra.
Qed.

Definition lens : list (segment R) := [SLine ll; SQuad lq; SCubic lc].
Definition lens_box : bbox R := BB (P (-1) (-2)) (P (9 / 2) 8).
Lemma lens_path_box : path_box ROps lens = Some lens_box.
Proof.
  unfold path_box, lens. cbn [map all_some segment_bounds]. rewrite lq_bounds, lc_bounds, line_bounds_val.
  unfold ll. cbn [l0 l1]. rewrite extend_pt_val. cbn [bl tr px py all_some].
  unfold path_bounds. cbn [fold_left]. unfold extend_box. cbn [bl tr].
  rewrite extend_pt_none. repeat (rewrite extend_pt_val; cbn [bl tr px py]). minmax. unfold lens_box. first [reflexivity | f_equal; f_equal; apply pt_eq; lra].
Qed.


Lemma lens_closed : mclosed_chain lens.
Proof. cbn. auto. Qed.

(* the level 15/4 and the query point (1, 15/4): the quadratic is crossed at t = 15/32 (abscissa -255/256), the cubic at
   t = 1/2 (abscissa 9/2), the line not at all *)
Definition lens_x : xpath := [(SLine ll, []); (SQuad lq, [15 / 32]); (SCubic lc, [1 / 2])].

Lemma lens_level_ok : forall sr, In sr lens_x -> level_ok (15 / 4) sr.
Proof.
  intros sr [<-|[<-|[<-|[]]]]; (split; [split; [|split]|]); cbn [fst snd seg_point].
  - constructor.
  - intros r. rewrite line_point_formula. unfold ll. cbn [l0 l1 px py In]. split; [intros [] | intros [I E]; lra].
  - intros r [].
  - cbn [seg_start seg_end ll l0 l1 py]. lra.
  - constructor; [intros [] | constructor].
  - intros r. rewrite lq_pt. cbn [py In]. split; [intros [<-|[]]; lra | intros [I E]; left; lra].
  - intros r _. rewrite (seg_dy_poly _ 0). unfold seg_coeffs, quad_a, quad_b, quad_c, lq. cbn [q0 q1 q2 px py pderiv peval]. lra.
  - cbn [seg_start seg_end lq q0 q2 py]. lra.
  - constructor; [intros [] | constructor].
  - intros r. rewrite lc_pt. cbn [py In]. split; [intros [<-|[]]; lra|]. intros [I E]. left.
    assert (F : (2 * r - 1) * (- 8 * r * r + 2 * r - 17) = 0) by lra.
    apply Rmult_integral in F. destruct F as [F|F]; [lra | nra].
  - intros r [<-|[]]. rewrite (seg_dy_poly _ 0). unfold seg_coeffs, cubic_A, cubic_B, cubic_C, cubic_D, lc. cbn [c0 c1 c2 c3 px py pderiv peval]. lra.
  - cbn [seg_start seg_end lc c0 c3 py]. lra.
Qed.

Lemma lens_reach : ray_reach lens_box 1 = 27 / 2.
Proof.
  unfold ray_reach, lens_box. cbn [bl tr px py]. replace (1 - (-1 - 10)) with 12 by lra. replace (9 / 2 + 10 - 1) with (27 / 2) by lra.
  rewrite Rmax_right; rconc.
Qed.

Example lens_query : mixed_query lens_x lens_box 1 (15 / 4).
Proof.
  pose proof my_eps_val as Ev.
  assert (Pq : seg_point (SQuad lq) (15 / 32) = P (- 255 / 256) (15 / 4)) by (cbn [seg_point]; rewrite lq_pt; apply pt_eq; field).
  assert (Pc : seg_point (SCubic lc) (1 / 2) = P (9 / 2) (15 / 4)) by (cbn [seg_point]; rewrite lc_pt; apply pt_eq; field).
  constructor.
  - exact lens_path_box.
  - exact lens_closed.
  - exact lens_level_ok.
  - intros sr [<-|[<-|[<-|[]]]]; cbn [fst seg_gp_level].
    + unfold ll. gp_concrete.
    + right. unfold quad_a, quad_b, lq. cbn [q0 q1 q2 px py]. split; lra.
    + unfold cubic_A, cubic_B, cubic_C, cubic_D, lc, max2. cbn [c0 c1 c2 c3 px py ltb ROps].
      repeat match goal with |- context[Rlt_dec ?a ?b] => destruct (Rlt_dec a b) end; rconc.
  - unfold lens_box. cbn [bl tr px py]. isclose_no.
  - unfold lens_box. cbn [bl tr px py]. isclose_no.
  - rewrite lens_reach, Ev. lra.
  - intros sr [<-|[<-|[<-|[]]]] r; cbn [snd]; [intros [] | intros [<-|[]] | intros [<-|[]]]; rewrite Ev; lra.
  - intros sr [<-|[<-|[<-|[]]]] r; cbn [fst snd]; [intros [] | intros [<-|[]] | intros [<-|[]]]; rewrite ?Pq, ?Pc; unfold lens_box; cbn [bl tr px py]; lra.
  - intros sr [<-|[<-|[<-|[]]]] r; cbn [fst snd]; [intros [] | intros [<-|[]] | intros [<-|[]]]; rewrite ?Pq, ?Pc, lens_reach, Ev; cbn [px]; rconc.
  - unfold crossing_points, lens_x. cbn [flat_map map fst snd app]. rewrite Pq, Pc.
    constructor; [intros [E|[]]; injection E; lra | constructor; [intros [] | constructor]].
Qed.

(* the theorem applied: the point is inside (one crossing on either side) *)
Example lens_inside : pointIsInside ROps lens (P 1 (15 / 4)) = Some true.
Proof.
  destruct (mixed_even_odd lens_x lens_box 1 (15 / 4) lens_query) as [E _].
  change (map fst lens_x) with lens in E. rewrite E. f_equal.
  assert (C : count_if (left_c 1) lens_x = 1%nat); [|rewrite C; reflexivity].
  assert (Pq : seg_point (SQuad lq) (15 / 32) = P (- 255 / 256) (15 / 4)) by (cbn [seg_point]; rewrite lq_pt; apply pt_eq; field).
  assert (Pc : seg_point (SCubic lc) (1 / 2) = P (9 / 2) (15 / 4)) by (cbn [seg_point]; rewrite lc_pt; apply pt_eq; field).
  unfold count_if, lens_x. cbn [map fst snd filter nsum]. unfold left_c. rewrite Pq, Pc. cbn [px].
  rewrite (proj2 (Rltb_true (- 255 / 256) 1)) by lra. rewrite (proj2 (Rltb_false (9 / 2) 1)) by lra. reflexivity.
Qed.

(* and its winding number is 1: the crossing left of the point is an up-crossing of the quadratic *)
Example lens_winding : windingNumberOfPoint ROps lens (P 1 (15 / 4)) = Some 1%Z.
Proof.
  destruct (mixed_winding_number lens_x lens_box 1 (15 / 4) lens_query) as [E _].
  change (map fst lens_x) with lens in E. rewrite E. f_equal.
  assert (Pq : seg_point (SQuad lq) (15 / 32) = P (- 255 / 256) (15 / 4)) by (cbn [seg_point]; rewrite lq_pt; apply pt_eq; field).
  assert (Pc : seg_point (SCubic lc) (1 / 2) = P (9 / 2) (15 / 4)) by (cbn [seg_point]; rewrite lc_pt; apply pt_eq; field).
  assert (Dq : seg_dy (SQuad lq) (15 / 32) = 8).
  { rewrite (seg_dy_poly _ 0). unfold seg_coeffs, quad_a, quad_b, quad_c, lq. cbn [q0 q1 q2 px py pderiv peval]. lra. }
  unfold signed_if, lens_x. cbn [map fst snd filter zsum]. unfold left_c. rewrite Pq, Pc. cbn [px].
  rewrite (proj2 (Rltb_true (- 255 / 256) 1)) by lra. rewrite (proj2 (Rltb_false (9 / 2) 1)) by lra.
  unfold seg_signed. cbn [map zsum]. rewrite Dq. unfold sgz. destruct (Rlt_dec 0 8); [reflexivity | lra].
Qed.
