(* C06: curve-curve and self intersections -- structure theorems over the reals for the model Hand/CurveCurve.v. *)
From Coq Require Import PrimFloat.
From Coq Require Import ZArith List Bool Reals Lra Lia Psatz.
From BZ Require Import Base.Ops Proofs.Tactics Gen.Point Gen.BBox Gen.Line Gen.Quad Gen.Cubic Hand.Bounds Hand.CurveCurve Proofs.C01 Proofs.C02.
Import ListNotations.
Open Scope R_scope.

(* ---------- the real instance of the small pieces of the model ---------- *)
Lemma half_R : half ROps = 1/2.
Proof. reflexivity. Qed.
Lemma precision_R : precision ROps = 1/1000.
Proof. reflexivity. Qed.
Lemma xmap_R v ts te : xmap ROps v ts te = ts + (te - ts) * v.
Proof. reflexivity. Qed.
Lemma mid_R lo hi : mid ROps lo hi = (lo + hi) / 2.
Proof. unfold mid. rewrite half_R. cbn. lra. Qed.

Notation ceval := (curve_point ROps).
Notation cbounds := (curve_bounds ROps).

Definition left_half (p : piece R) : piece R := fst (psplit ROps p).
Definition right_half (p : piece R) : piece R := snd (psplit ROps p).

Lemma left_half_range p : plo (left_half p) = plo p /\ phi (left_half p) = plo p + (phi p - plo p) / 2.
Proof. unfold left_half, psplit. cbn [fst plo phi]. rewrite xmap_R, half_R. split; lra. Qed.
Lemma right_half_range p : plo (right_half p) = plo p + (phi p - plo p) / 2 /\ phi (right_half p) = phi p.
Proof. unfold right_half, psplit. cbn [snd plo phi]. rewrite xmap_R, half_R. split; lra. Qed.

Lemma left_half_eval p u : ceval (pc (left_half p)) u = ceval (pc p) (u / 2).
Proof.
  unfold left_half, psplit. cbn [fst pc]. destruct (pc p) as [q | c]; cbn [curve_split_half fst curve_point]; rewrite half_R.
  - rewrite quad_split_left. f_equal. lra.
  - rewrite cubic_split_left. f_equal. lra.
Qed.
Lemma right_half_eval p u : ceval (pc (right_half p)) u = ceval (pc p) (1/2 + u / 2).
Proof.
  unfold right_half, psplit. cbn [snd pc]. destruct (pc p) as [q | c]; cbn [curve_split_half snd curve_point]; rewrite half_R.
  - rewrite quad_split_right. f_equal. lra.
  - rewrite cubic_split_right. f_equal. lra.
Qed.

(* [Desc k p0 p]: p is one of the 2^k pieces obtained from p0 by k halvings (what the recursion visits at depth k) *)
Inductive Desc : nat -> piece R -> piece R -> Prop :=
| Desc0 p : Desc 0 p p
| DescL k p0 p : Desc k (left_half p0) p -> Desc (S k) p0 p
| DescR k p0 p : Desc k (right_half p0) p -> Desc (S k) p0 p.

(* the piece IS the sub-curve of [orig] over its range: a polynomial identity in u *)
Definition repr (orig : curve R) (p : piece R) : Prop :=
  forall u, ceval (pc p) u = ceval orig (plo p + u * (phi p - plo p)).

Lemma repr_whole c : repr c (whole ROps c).
Proof. intro u. unfold whole. cbn [pc plo phi ofZ ROps]. f_equal. lra. Qed.

Lemma repr_left orig p : repr orig p -> repr orig (left_half p).
Proof.
  intros H u. rewrite left_half_eval, H. destruct (left_half_range p) as [-> ->]. f_equal. lra.
Qed.
Lemma repr_right orig p : repr orig p -> repr orig (right_half p).
Proof.
  intros H u. rewrite right_half_eval, H. destruct (right_half_range p) as [-> ->]. f_equal. lra.
Qed.

Theorem range_invariant orig p0 k p :
  Desc k p0 p -> plo p0 < phi p0 -> repr orig p0 ->
  repr orig p /\ phi p - plo p = (phi p0 - plo p0) / 2 ^ k /\ plo p0 <= plo p /\ plo p < phi p /\ phi p <= phi p0.
Proof.
  induction 1 as [p | k p0 p D IH | k p0 p D IH]; intros Hlt Hr.
  - repeat split; auto; simpl; lra.
  - destruct (left_half_range p0) as [E1 E2].
    destruct IH as (R & W & A & B & C); [rewrite E1, E2; lra | apply repr_left; exact Hr |].
    rewrite E1, E2 in *. repeat split; auto; try lra.
    rewrite W. simpl. assert (0 < 2 ^ k) by (apply pow_lt; lra). field. lra.
  - destruct (right_half_range p0) as [E1 E2].
    destruct IH as (R & W & A & B & C); [rewrite E1, E2; lra | apply repr_right; exact Hr |].
    rewrite E1, E2 in *. repeat split; auto; try lra.
    rewrite W. simpl. assert (0 < 2 ^ k) by (apply pow_lt; lra). field. lra.
Qed.

(* ---------- the duplicate filter (any carrier, any key) ---------- *)
Section Dedup.
Context {T K : Type} (key2 : T -> K) (keq : K -> K -> bool).
Notation dd := (dedup key2 keq).

Lemma dedup_incl seen l x : In x (dd seen l) -> In x l.
Proof.
  revert seen. induction l as [| y r IH]; intros seen H; simpl in *; auto.
  destruct (existsb (keq (key2 (fst y))) seen).
  - right. eapply IH; eauto.
  - destruct H as [-> | H]; [left; reflexivity | right; eapply IH; eauto].
Qed.

(* the output is a subsequence of the input (order kept) *)
Inductive subseq {A : Type} : list A -> list A -> Prop :=
| subseq_nil : subseq [] []
| subseq_keep x l m : subseq l m -> subseq (x :: l) (x :: m)
| subseq_drop x l m : subseq l m -> subseq l (x :: m).
Lemma dedup_subseq seen l : subseq (dd seen l) l.
Proof.
  revert seen. induction l as [| y r IH]; intros seen; simpl; [constructor |].
  destruct (existsb (keq (key2 (fst y))) seen); [apply subseq_drop | apply subseq_keep]; apply IH.
Qed.

(* every key present in [seen] or in the input is represented in [seen] or in the output *)
Lemma dedup_covers seen l x :
  In x l -> In x (dd seen l) \/ (exists k, In k seen /\ keq (key2 (fst x)) k = true)
            \/ (exists y, In y (dd seen l) /\ keq (key2 (fst x)) (key2 (fst y)) = true).
Proof.
  revert seen. induction l as [| y r IH]; intros seen H; simpl in *; [contradiction |].
  destruct H as [-> | H].
  - destruct (existsb (keq (key2 (fst x))) seen) eqn:E.
    + right; left. apply existsb_exists in E. exact E.
    + left. left. reflexivity.
  - destruct (existsb (keq (key2 (fst y))) seen) eqn:E.
    + apply IH; exact H.
    + destruct (IH (key2 (fst y) :: seen) H) as [A | [(k & [<- | Hk] & Ek) | (z & Hz & Ez)]].
      * left. right. exact A.
      * right; right. exists y. split; [left; reflexivity | exact Ek].
      * right; left. exists k. split; assumption.
      * right; right. exists z. split; [right; exact Hz | exact Ez].
Qed.

(* an element whose key differs from [seen] and from every EARLIER element is kept: the first report of each key survives *)
Lemma dedup_keeps_first seen l1 x l2 :
  (forall k, In k seen -> keq (key2 (fst x)) k = false) ->
  (forall y, In y l1 -> keq (key2 (fst x)) (key2 (fst y)) = false) ->
  In x (dd seen (l1 ++ x :: l2)).
Proof.
  revert seen. induction l1 as [| y r IH]; intros seen Hs Hl; simpl.
  - assert (E : existsb (keq (key2 (fst x))) seen = false).
    { destruct (existsb (keq (key2 (fst x))) seen) eqn:E; auto. apply existsb_exists in E. destruct E as (k & Hk & Ek).
      rewrite (Hs k Hk) in Ek. discriminate. }
    rewrite E. left. reflexivity.
  - destruct (existsb (keq (key2 (fst y))) seen).
    + apply IH; auto. intros z Hz. apply Hl. right. exact Hz.
    + right. apply IH.
      * intros k [<- | Hk]; [apply Hl; left; reflexivity | apply Hs; exact Hk].
      * intros z Hz. apply Hl. right. exact Hz.
Qed.


Lemma dedup_keys_new seen l x :
  In x (dd seen l) -> forall k, In k seen -> keq (key2 (fst x)) k = false.
Proof.
  revert seen. induction l as [| y r IH]; intros seen H k Hk; simpl in *; [contradiction |].
  destruct (existsb (keq (key2 (fst y))) seen) eqn:E.
  - eapply IH; eauto.
  - destruct H as [<- | H].
    + destruct (keq (key2 (fst y)) k) eqn:E2; auto.
      assert (existsb (keq (key2 (fst y))) seen = true) by (apply existsb_exists; exists k; auto). congruence.
    + eapply IH; eauto. right. exact Hk.
Qed.

(* in the output, an element's key differs from the key of every element kept before it *)
Lemma dedup_one_per_key_aux seen l pre x post :
  dd seen l = pre ++ x :: post -> forall y, In y pre -> keq (key2 (fst x)) (key2 (fst y)) = false.
Proof.
  revert seen pre. induction l as [| z r IH]; intros seen pre H y Hy; simpl in *.
  - destruct pre; discriminate.
  - destruct (existsb (keq (key2 (fst z))) seen) eqn:E.
    + eapply IH; eauto.
    + destruct pre as [| p pre']; [contradiction |]. simpl in H. injection H as Hz H; subst p.
      destruct Hy as [<- | Hy].
      * assert (Hx : In x (dd (key2 (fst z) :: seen) r)) by (rewrite H; apply in_or_app; right; left; reflexivity).
        apply (dedup_keys_new _ _ _ Hx). left. reflexivity.
      * eapply IH; eauto.
Qed.
End Dedup.

(* with a key equality that is constantly false nothing is ever dropped: [cc_raw] reports everything *)
Lemma dedup_raw {T} seen (l : list (T * T)) : dedup (fun _ : T => tt) (fun _ _ : unit => false) seen l = l.
Proof.
  revert seen. induction l as [| y r IH]; intros seen; simpl; auto.
  assert (E : existsb (fun _ : unit => false) seen = false) by (induction seen; simpl; auto).
  rewrite E, IH. reflexivity.
Qed.

Theorem dedup_one_per_key {T K : Type} (key2 : T -> K) (keq : K -> K -> bool) (l : list (T * T)) :
  (* order-preserving sub-list *)
  subseq (dedup key2 keq [] l) l /\
  (* kept elements have pairwise different keys *)
  (forall pre x post, dedup key2 keq [] l = pre ++ x :: post -> forall y, In y pre -> keq (key2 (fst x)) (key2 (fst y)) = false) /\
  (* the first element carrying a key is kept *)
  (forall l1 x l2, l = l1 ++ x :: l2 -> (forall y, In y l1 -> keq (key2 (fst x)) (key2 (fst y)) = false) -> In x (dedup key2 keq [] l)) /\
  (* whatever is dropped has the key of a kept element *)
  (forall x, In x l -> In x (dedup key2 keq [] l) \/ exists y, In y (dedup key2 keq [] l) /\ keq (key2 (fst x)) (key2 (fst y)) = true).
Proof.
  repeat split.
  - apply dedup_subseq.
  - intros. eapply dedup_one_per_key_aux; eauto.
  - intros l1 x l2 -> H. apply dedup_keeps_first; auto. intros k [].
  - intros x H. destruct (dedup_covers key2 keq [] l x H) as [A | [(k & [] & _) | B]]; auto.
Qed.

(* ---------- boxes over the reals ---------- *)
Lemma overlaps_true (b1 b2 : bbox R) :
  BBox_overlaps ROps b1 b2 = true <->
  px (bl b2) <= px (tr b1) /\ px (bl b1) <= px (tr b2) /\ py (bl b2) <= py (tr b1) /\ py (bl b1) <= py (tr b2).
Proof.
  unfold BBox_overlaps, BBox_right, BBox_left, BBox_top, BBox_bottom.
  destruct (ltb ROps (px (tr b1)) (px (bl b2))) eqn:E1; [apply Rltb_true in E1 | apply Rltb_false in E1];
  [split; [discriminate | lra] |].
  destruct (ltb ROps (px (tr b2)) (px (bl b1))) eqn:E2; [apply Rltb_true in E2 | apply Rltb_false in E2];
  [split; [discriminate | lra] |].
  destruct (ltb ROps (py (tr b1)) (py (bl b2))) eqn:E3; [apply Rltb_true in E3 | apply Rltb_false in E3];
  [split; [discriminate | lra] |].
  destruct (ltb ROps (py (tr b2)) (py (bl b1))) eqn:E4; [apply Rltb_true in E4 | apply Rltb_false in E4];
  [split; [discriminate | lra] |].
  split; auto.
Qed.

Lemma area_R (b : bbox R) : BBox_area ROps b = (px (tr b) - px (bl b)) * (py (tr b) - py (bl b)).
Proof. destruct_pts. reflexivity. Qed.

(* a point common to two boxes makes them overlap *)
Lemma common_point_overlaps (b1 b2 : bbox R) (X : pt R) :
  BBox_includes ROps b1 X = true -> BBox_includes ROps b2 X = true -> BBox_overlaps ROps b1 b2 = true.
Proof.
  intros H1 H2. apply in_box_includes in H1. apply in_box_includes in H2. unfold in_box in *.
  apply overlaps_true. lra.
Qed.

Lemma curve_bounds_some (c : curve R) : exists b, cbounds c = Some b /\ wf_box b.
Proof. destruct c as [q | c]; cbn [curve_bounds]; [apply quad_bounds_some | apply cubic_bounds_some]. Qed.

(* ---------- unfolding the recursion ---------- *)
Section Recursion.
Context {K : Type} (key2 : R -> K) (keq : K -> K -> bool).
Notation cc := (cc_t ROps key2 keq).

Definition small (b : bbox R) : Prop := BBox_area ROps b < 1/1000.

Definition child (f : nat) (a b : piece R) : result (list (R * R)) :=
  match cbounds (pc a), cbounds (pc b) with
  | Some ba, Some bb => if BBox_overlaps ROps ba bb then cc f a b else Ok []
  | _, _ => Err NoBounds
  end.

Lemma bind_ok {A B} (r : result A) (f : A -> result B) y : bind r f = Ok y -> exists x, r = Ok x /\ f x = Ok y.
Proof. destruct r; simpl; [eauto | discriminate]. Qed.

Lemma small_dec (b : bbox R) : ltb ROps (BBox_area ROps b) (precision ROps) = true <-> small b.
Proof. rewrite precision_R. apply Rltb_true. Qed.

Lemma cc_inv f this that l :
  cc (S f) this that = Ok l ->
  exists b1 b2, cbounds (pc this) = Some b1 /\ cbounds (pc that) = Some b2 /\
   ((BBox_overlaps ROps b1 b2 = false /\ l = []) \/
    (BBox_overlaps ROps b1 b2 = true /\ small b1 /\ small b2 /\
       l = [((plo this + phi this) / 2, (plo that + phi that) / 2)]) \/
    (BBox_overlaps ROps b1 b2 = true /\ ~ (small b1 /\ small b2) /\
       exists l1 l2 l3 l4,
         child f (left_half this) (left_half that) = Ok l1 /\ child f (left_half this) (right_half that) = Ok l2 /\
         child f (right_half this) (left_half that) = Ok l3 /\ child f (right_half this) (right_half that) = Ok l4 /\
         l = dedup key2 keq [] (l1 ++ l2 ++ l3 ++ l4))).
Proof.
  cbn [cc_t]. intros H.
  destruct (cbounds (pc this)) as [b1 |] eqn:B1; [| discriminate].
  destruct (cbounds (pc that)) as [b2 |] eqn:B2; [| discriminate].
  exists b1, b2. split; [reflexivity | split; [reflexivity |]].
  destruct (BBox_overlaps ROps b1 b2) eqn:OV; cbn [negb] in H.
  2:{ left. injection H as <-. auto. }
  right.
  destruct (ltb ROps (BBox_area ROps b1) (precision ROps) && ltb ROps (BBox_area ROps b2) (precision ROps)) eqn:SM.
  - left. apply andb_true_iff in SM. destruct SM as [S1 S2]. apply small_dec in S1. apply small_dec in S2.
    injection H as <-. repeat split; auto. f_equal. f_equal; lra.
  - right. split; [reflexivity |]. split.
    { intros [S1 S2]. apply small_dec in S1. apply small_dec in S2. rewrite S1, S2 in SM. discriminate. }
    destruct (range_ok ROps (fst (psplit ROps this)) && range_ok ROps (snd (psplit ROps this)) &&
              range_ok ROps (fst (psplit ROps that)) && range_ok ROps (snd (psplit ROps that))); [| discriminate].
    apply bind_ok in H. destruct H as (l1 & H1 & H).
    apply bind_ok in H. destruct H as (l2 & H2 & H).
    apply bind_ok in H. destruct H as (l3 & H3 & H).
    apply bind_ok in H. destruct H as (l4 & H4 & H).
    injection H as <-.
    exists l1, l2, l3, l4. unfold child, left_half, right_half. auto.
Qed.

Lemma child_inv f a b l :
  child f a b = Ok l ->
  exists ba bb, cbounds (pc a) = Some ba /\ cbounds (pc b) = Some bb /\
    ((BBox_overlaps ROps ba bb = false /\ l = []) \/ (BBox_overlaps ROps ba bb = true /\ cc f a b = Ok l)).
Proof.
  unfold child. intros H.
  destruct (cbounds (pc a)) as [ba |]; [| discriminate].
  destruct (cbounds (pc b)) as [bb |]; [| discriminate].
  exists ba, bb. split; [reflexivity | split; [reflexivity |]].
  destruct (BBox_overlaps ROps ba bb); [right; auto | left; injection H as <-; auto].
Qed.

(* every reported pair is the pair of range mid-points of two visited pieces (same depth) whose boxes overlap and are both small *)
Theorem reported_from_small_overlapping_boxes fuel this that l t1 t2 :
  cc fuel this that = Ok l -> In (t1, t2) l ->
  exists k p q b1 b2,
    Desc k this p /\ Desc k that q /\ cbounds (pc p) = Some b1 /\ cbounds (pc q) = Some b2 /\
    BBox_overlaps ROps b1 b2 = true /\ BBox_area ROps b1 < 1/1000 /\ BBox_area ROps b2 < 1/1000 /\
    t1 = (plo p + phi p) / 2 /\ t2 = (plo q + phi q) / 2.
Proof.
  revert this that l. induction fuel as [| f IH]; intros this that l H Hin; [discriminate |].
  apply cc_inv in H. destruct H as (b1 & b2 & B1 & B2 & [(OV & ->) | [(OV & S1 & S2 & ->) | (OV & NS & l1 & l2 & l3 & l4 & C1 & C2 & C3 & C4 & ->)]]).
  - contradiction.
  - destruct Hin as [E | []]. injection E as <- <-.
    exists 0%nat, this, that, b1, b2. repeat split; auto; constructor.
  - apply dedup_incl in Hin.
    assert (STEP : forall a b li, child f a b = Ok li -> In (t1, t2) li ->
              exists k p q b1 b2, Desc k a p /\ Desc k b q /\ cbounds (pc p) = Some b1 /\ cbounds (pc q) = Some b2 /\
                BBox_overlaps ROps b1 b2 = true /\ BBox_area ROps b1 < 1/1000 /\ BBox_area ROps b2 < 1/1000 /\
                t1 = (plo p + phi p) / 2 /\ t2 = (plo q + phi q) / 2).
    { intros a b li Hc Hi. apply child_inv in Hc. destruct Hc as (ba & bb & _ & _ & [(_ & ->) | (_ & Hc)]); [contradiction |].
      eapply IH; eauto. }
    repeat (apply in_app_or in Hin; destruct Hin as [Hin | Hin]).
    + destruct (STEP _ _ _ C1 Hin) as (k & p & q & c1 & c2 & D1 & D2 & R). exists (S k), p, q, c1, c2.
      split; [apply DescL; exact D1 | split; [apply DescL; exact D2 | exact R]].
    + destruct (STEP _ _ _ C2 Hin) as (k & p & q & c1 & c2 & D1 & D2 & R). exists (S k), p, q, c1, c2.
      split; [apply DescL; exact D1 | split; [apply DescR; exact D2 | exact R]].
    + destruct (STEP _ _ _ C3 Hin) as (k & p & q & c1 & c2 & D1 & D2 & R). exists (S k), p, q, c1, c2.
      split; [apply DescR; exact D1 | split; [apply DescL; exact D2 | exact R]].
    + destruct (STEP _ _ _ C4 Hin) as (k & p & q & c1 & c2 & D1 & D2 & R). exists (S k), p, q, c1, c2.
      split; [apply DescR; exact D1 | split; [apply DescR; exact D2 | exact R]].
Qed.
End Recursion.

(* ---------- enclosure of a piece by its reported box (from C02) ---------- *)
Definition curve_ext (s : pt R -> R) (c : curve R) : R :=
  match c with CQuad q => quad_ext s q | CCubic c => cubic_ext s c end.

Lemma curve_bounds_enclose c b :
  cbounds c = Some b -> forall t, 0 <= t <= 1 ->
  px (bl b) - sigma (curve_ext px c) <= px (ceval c t) <= px (tr b) + sigma (curve_ext px c) /\
  py (bl b) - sigma (curve_ext py c) <= py (ceval c t) <= py (tr b) + sigma (curve_ext py c).
Proof.
  destruct c as [q | c]; cbn [curve_bounds curve_ext curve_point]; intros E t Ht.
  - apply quad_bounds_enclose; assumption.
  - apply cubic_bounds_enclose_total; assumption.
Qed.

(* [encloses p]: the box Segment.bounds() reports for the piece contains every point of the piece *)
Definition encloses (p : piece R) : Prop :=
  forall b, cbounds (pc p) = Some b -> forall u, 0 <= u <= 1 -> BBox_includes ROps b (ceval (pc p) u) = true.

(* C02: true whenever no derivative zero of the piece lies in its own 1% end slivers (and, for cubics, the derivative's
   leading coefficients are zero or non-negligible) *)
Definition sliver_free (c : curve R) : Prop :=
  match c with
  | CQuad q => no_sliver_zero (fun u => px (Line_pointAtTime ROps (Quad_derivative ROps q) u)) /\
               no_sliver_zero (fun u => py (Line_pointAtTime ROps (Quad_derivative ROps q) u))
  | CCubic c => genuine c /\ no_sliver_zero (fun u => px (Quad_pointAtTime ROps (Cubic_derivative ROps c) u)) /\
                no_sliver_zero (fun u => py (Quad_pointAtTime ROps (Cubic_derivative ROps c) u))
  end.
Lemma sliver_free_encloses p : sliver_free (pc p) -> encloses p.
Proof.
  unfold encloses. destruct (pc p) as [q | c]; cbn [sliver_free curve_bounds curve_point]; intros H b E u Hu.
  - destruct H as [Hx Hy]. apply quad_bounds_enclose_exact; assumption.
  - destruct H as (G & Hx & Hy). apply cubic_bounds_enclose_exact; assumption.
Qed.

(* the midpoint of a piece's range is the piece's own parameter 1/2 *)
Lemma repr_mid orig p : repr orig p -> ceval orig ((plo p + phi p) / 2) = ceval (pc p) (1/2).
Proof. intros H. rewrite H. f_equal. lra. Qed.

Section Reports.
Context {K : Type} (key2 : R -> K) (keq : K -> K -> bool).
Notation cc := (cc_t ROps key2 keq).

(* the two parameter points of a report are no farther apart, coordinate by coordinate, than the sum of the widths
   (resp. heights) of the two final boxes, plus the 0.06% sliver slack of C02; both boxes have area < 1e-3 -- which
   bounds width*height, NOT the width or the height *)
Theorem report_distance_bound fuel o1 o2 this that l t1 t2 :
  plo this < phi this -> plo that < phi that -> repr o1 this -> repr o2 that ->
  cc fuel this that = Ok l -> In (t1, t2) l ->
  exists k p q b1 b2,
    Desc k this p /\ Desc k that q /\ cbounds (pc p) = Some b1 /\ cbounds (pc q) = Some b2 /\
    BBox_area ROps b1 < 1/1000 /\ BBox_area ROps b2 < 1/1000 /\
    t1 = (plo p + phi p) / 2 /\ t2 = (plo q + phi q) / 2 /\
    Rabs (px (ceval o1 t1) - px (ceval o2 t2)) <=
      (px (tr b1) - px (bl b1)) + (px (tr b2) - px (bl b2)) + sigma (curve_ext px (pc p)) + sigma (curve_ext px (pc q)) /\
    Rabs (py (ceval o1 t1) - py (ceval o2 t2)) <=
      (py (tr b1) - py (bl b1)) + (py (tr b2) - py (bl b2)) + sigma (curve_ext py (pc p)) + sigma (curve_ext py (pc q)).
Proof.
  intros L1 L2 R1 R2 H Hin.
  destruct (reported_from_small_overlapping_boxes key2 keq fuel this that l t1 t2 H Hin)
    as (k & p & q & b1 & b2 & D1 & D2 & B1 & B2 & OV & S1 & S2 & E1 & E2).
  exists k, p, q, b1, b2. repeat (split; [assumption |]).
  destruct (range_invariant o1 this k p D1 L1 R1) as (Rp & _).
  destruct (range_invariant o2 that k q D2 L2 R2) as (Rq & _).
  rewrite E1, E2, (repr_mid o1 p Rp), (repr_mid o2 q Rq).
  assert (Hh : 0 <= 1/2 <= 1) by lra.
  destruct (curve_bounds_enclose _ _ B1 (1/2) Hh) as [X1 Y1].
  destruct (curve_bounds_enclose _ _ B2 (1/2) Hh) as [X2 Y2].
  apply overlaps_true in OV. split; apply Rabs_le; lra.
Qed.

End Reports.

(* ---------- no crossing is pruned: stated for the reports BEFORE de-duplication ---------- *)
Notation raw := (cc_raw ROps).

Lemma param_in_piece p s : plo p < phi p -> plo p <= s <= phi p ->
  let u := (s - plo p) / (phi p - plo p) in 0 <= u <= 1 /\ plo p + u * (phi p - plo p) = s.
Proof.
  intros L Hs u. subst u. split.
  - split.
    + apply Rmult_le_pos; [lra | left; apply Rinv_0_lt_compat; lra].
    + apply Rmult_le_reg_r with (phi p - plo p); [lra |]. field_simplify; lra.
  - field. lra.
Qed.

Theorem no_miss_modulo_enclosure fuel o1 o2 this that l s t :
  plo this < phi this -> plo that < phi that -> repr o1 this -> repr o2 that ->
  (forall k p, Desc k this p -> encloses p) -> (forall k q, Desc k that q -> encloses q) ->
  plo this <= s <= phi this -> plo that <= t <= phi that ->
  ceval o1 s = ceval o2 t ->
  raw fuel this that = Ok l ->
  exists k p q,
    Desc k this p /\ Desc k that q /\ plo p <= s <= phi p /\ plo q <= t <= phi q /\
    In ((plo p + phi p) / 2, (plo q + phi q) / 2) l.
Proof.
  revert this that l. induction fuel as [| f IH]; intros this that l L1 L2 R1 R2 E1 E2 Hs Ht HX H; [discriminate |].
  (* the common point lies in both pieces, hence in both boxes *)
  assert (OVL : forall a b ba bb, plo a < phi a -> plo b < phi b -> repr o1 a -> repr o2 b -> encloses a -> encloses b ->
            plo a <= s <= phi a -> plo b <= t <= phi b -> cbounds (pc a) = Some ba -> cbounds (pc b) = Some bb ->
            BBox_overlaps ROps ba bb = true).
  { intros a b ba bb La Lb Ra Rb Ea Eb Sa Tb Ba Bb.
    destruct (param_in_piece a s La Sa) as [Ua Pa]. destruct (param_in_piece b t Lb Tb) as [Ub Pb].
    apply common_point_overlaps with (ceval o1 s).
    - rewrite <- Pa, <- Ra. apply Ea; assumption.
    - rewrite HX, <- Pb, <- Rb. apply Eb; assumption. }
  unfold cc_raw in H. apply cc_inv in H.
  destruct H as (b1 & b2 & B1 & B2 & [(OV & ->) | [(OV & S1 & S2 & ->) | (OV & NS & l1 & l2 & l3 & l4 & C1 & C2 & C3 & C4 & ->)]]).
  - rewrite (OVL this that b1 b2) in OV; auto; try discriminate; [apply (E1 0%nat) | apply (E2 0%nat)]; constructor.
  - exists 0%nat, this, that. split; [constructor | split; [constructor | split; [lra | split; [lra | left; reflexivity]]]].
  - rewrite dedup_raw.
    assert (STEP : forall a b li, child (fun _ : R => tt) (fun _ _ : unit => false) f a b = Ok li ->
              plo a < phi a -> plo b < phi b -> repr o1 a -> repr o2 b ->
              (forall k p, Desc k a p -> encloses p) -> (forall k q, Desc k b q -> encloses q) ->
              plo a <= s <= phi a -> plo b <= t <= phi b ->
              exists k p q, Desc k a p /\ Desc k b q /\ plo p <= s <= phi p /\ plo q <= t <= phi q /\
                            In ((plo p + phi p) / 2, (plo q + phi q) / 2) li).
    { intros a b li Hc La Lb Ra Rb Ea Eb Sa Tb.
      apply child_inv in Hc. destruct Hc as (ba & bb & Ba & Bb & [(OVc & _) | (_ & Hc)]).
      - rewrite (OVL a b ba bb) in OVc; auto; try discriminate; [apply (Ea 0%nat) | apply (Eb 0%nat)]; constructor.
      - apply (IH a b li); auto. }
    destruct (left_half_range this) as [A1 A2]. destruct (right_half_range this) as [A3 A4].
    destruct (left_half_range that) as [A5 A6]. destruct (right_half_range that) as [A7 A8].
    assert (EL1 : forall k p, Desc k (left_half this) p -> encloses p) by (intros k p D; apply (E1 (S k)); apply DescL; exact D).
    assert (ER1 : forall k p, Desc k (right_half this) p -> encloses p) by (intros k p D; apply (E1 (S k)); apply DescR; exact D).
    assert (EL2 : forall k p, Desc k (left_half that) p -> encloses p) by (intros k p D; apply (E2 (S k)); apply DescL; exact D).
    assert (ER2 : forall k p, Desc k (right_half that) p -> encloses p) by (intros k p D; apply (E2 (S k)); apply DescR; exact D).
    destruct (Rle_dec s (plo this + (phi this - plo this) / 2)) as [Sl | Sr];
    destruct (Rle_dec t (plo that + (phi that - plo that) / 2)) as [Tl | Tr].
    + destruct (STEP _ _ _ C1) as (k & p & q & D1 & D2 & I1 & I2 & IN);
        try (apply repr_left; assumption); auto; try (rewrite ?A1, ?A2, ?A5, ?A6; lra).
      exists (S k), p, q. repeat split; try tauto; [apply DescL; exact D1 | apply DescL; exact D2 |].
      apply in_or_app. left. exact IN.
    + destruct (STEP _ _ _ C2) as (k & p & q & D1 & D2 & I1 & I2 & IN);
        try (apply repr_left; assumption); try (apply repr_right; assumption); auto; try (rewrite ?A1, ?A2, ?A7, ?A8; lra).
      exists (S k), p, q. repeat split; try tauto; [apply DescL; exact D1 | apply DescR; exact D2 |].
      apply in_or_app. right. apply in_or_app. left. exact IN.
    + destruct (STEP _ _ _ C3) as (k & p & q & D1 & D2 & I1 & I2 & IN);
        try (apply repr_left; assumption); try (apply repr_right; assumption); auto; try (rewrite ?A3, ?A4, ?A5, ?A6; lra).
      exists (S k), p, q. repeat split; try tauto; [apply DescR; exact D1 | apply DescL; exact D2 |].
      apply in_or_app. right. apply in_or_app. right. apply in_or_app. left. exact IN.
    + destruct (STEP _ _ _ C4) as (k & p & q & D1 & D2 & I1 & I2 & IN);
        try (apply repr_right; assumption); auto; try (rewrite ?A3, ?A4, ?A7, ?A8; lra).
      exists (S k), p, q. repeat split; try tauto; [apply DescR; exact D1 | apply DescR; exact D2 |].
      apply in_or_app. right. apply in_or_app. right. apply in_or_app. right. exact IN.
Qed.

Section Shape.
Context {K : Type} (key2 : R -> K) (keq : K -> K -> bool).
Notation cc := (cc_t ROps key2 keq).

Corollary no_miss_within_half_range fuel o1 o2 this that l s t :
  plo this < phi this -> plo that < phi that -> repr o1 this -> repr o2 that ->
  (forall k p, Desc k this p -> encloses p) -> (forall k q, Desc k that q -> encloses q) ->
  plo this <= s <= phi this -> plo that <= t <= phi that ->
  ceval o1 s = ceval o2 t ->
  raw fuel this that = Ok l ->
  exists k t1 t2, In (t1, t2) l /\
    Rabs (t1 - s) <= (phi this - plo this) / 2 ^ S k /\ Rabs (t2 - t) <= (phi that - plo that) / 2 ^ S k.
Proof.
  intros L1 L2 R1 R2 E1 E2 Hs Ht HX H.
  destruct (no_miss_modulo_enclosure fuel o1 o2 this that l s t L1 L2 R1 R2 E1 E2 Hs Ht HX H)
    as (k & p & q & D1 & D2 & I1 & I2 & IN).
  exists k, ((plo p + phi p) / 2), ((plo q + phi q) / 2). split; [exact IN |].
  destruct (range_invariant o1 this k p D1 L1 R1) as (_ & W1 & _).
  destruct (range_invariant o2 that k q D2 L2 R2) as (_ & W2 & _).
  assert (P2 : 0 < 2 ^ k) by (apply pow_lt; lra).
  replace ((phi this - plo this) / 2 ^ S k) with ((phi p - plo p) / 2) by (rewrite W1; simpl; field; lra).
  replace ((phi that - plo that) / 2 ^ S k) with ((phi q - plo q) / 2) by (rewrite W2; simpl; field; lra).
  split; apply Rabs_le; lra.
Qed.

Lemma cc_S f this that :
  cc (S f) this that =
  match cbounds (pc this), cbounds (pc that) with
  | Some b1, Some b2 =>
      if negb (BBox_overlaps ROps b1 b2) then Ok []
      else if ltb ROps (BBox_area ROps b1) (precision ROps) && ltb ROps (BBox_area ROps b2) (precision ROps)
      then Ok [(mid ROps (plo this) (phi this), mid ROps (plo that) (phi that))]
      else if range_ok ROps (left_half this) && range_ok ROps (right_half this) &&
              range_ok ROps (left_half that) && range_ok ROps (right_half that) then
        bind (child key2 keq f (left_half this) (left_half that)) (fun l1 =>
        bind (child key2 keq f (left_half this) (right_half that)) (fun l2 =>
        bind (child key2 keq f (right_half this) (left_half that)) (fun l3 =>
        bind (child key2 keq f (right_half this) (right_half that)) (fun l4 =>
        Ok (dedup key2 keq [] (l1 ++ l2 ++ l3 ++ l4))))))
      else Err RangeAssert
  | _, _ => Err NoBounds
  end.
Proof. reflexivity. Qed.

Lemma halves_range_ok p : plo p < phi p ->
  range_ok ROps (left_half p) = true /\ range_ok ROps (right_half p) = true /\
  plo (left_half p) < phi (left_half p) /\ plo (right_half p) < phi (right_half p).
Proof.
  intros L. destruct (left_half_range p) as [A1 A2]. destruct (right_half_range p) as [A3 A4].
  unfold range_ok. rewrite !Rltb_true. rewrite A1, A2, A3, A4. lra.
Qed.

(* over the reals the only way the recursion can fail is by running out of fuel: the range asserts hold, boxes exist *)
Theorem cc_error_is_fuel fuel this that e :
  plo this < phi this -> plo that < phi that -> cc fuel this that = Err e -> e = OutOfFuel.
Proof.
  revert this that e. induction fuel as [| f IH]; intros this that e L1 L2 H; [simpl in H; congruence |].
  rewrite cc_S in H.
  destruct (curve_bounds_some (pc this)) as (b1 & B1 & _). destruct (curve_bounds_some (pc that)) as (b2 & B2 & _).
  rewrite B1, B2 in H.
  destruct (negb (BBox_overlaps ROps b1 b2)); [discriminate |].
  destruct (ltb ROps (BBox_area ROps b1) (precision ROps) && ltb ROps (BBox_area ROps b2) (precision ROps)); [discriminate |].
  destruct (halves_range_ok this L1) as (Q1 & Q2 & La & Lb). destruct (halves_range_ok that L2) as (Q3 & Q4 & Lc & Ld).
  rewrite Q1, Q2, Q3, Q4 in H. cbn [andb] in H.
  assert (CH : forall a b, plo a < phi a -> plo b < phi b -> forall e', child key2 keq f a b = Err e' -> e' = OutOfFuel).
  { intros a b La' Lb' e' Hc. unfold child in Hc.
    destruct (curve_bounds_some (pc a)) as (ba & Ea & _). destruct (curve_bounds_some (pc b)) as (bb & Eb & _).
    rewrite Ea, Eb in Hc. destruct (BBox_overlaps ROps ba bb); [exact (IH a b e' La' Lb' Hc) | discriminate]. }
  destruct (child key2 keq f (left_half this) (left_half that)) as [l1 | e1] eqn:C1; cbn [bind] in H;
    [| injection H as <-; eapply CH; [| | exact C1]; assumption].
  destruct (child key2 keq f (left_half this) (right_half that)) as [l2 | e2] eqn:C2; cbn [bind] in H;
    [| injection H as <-; eapply CH; [| | exact C2]; assumption].
  destruct (child key2 keq f (right_half this) (left_half that)) as [l3 | e3] eqn:C3; cbn [bind] in H;
    [| injection H as <-; eapply CH; [| | exact C3]; assumption].
  destruct (child key2 keq f (right_half this) (right_half that)) as [l4 | e4] eqn:C4; cbn [bind] in H;
    [discriminate | injection H as <-; eapply CH; [| | exact C4]; assumption].
Qed.
End Shape.

(* ---------- what the nested de-duplication can and cannot lose ---------- *)
Section Survive.
Context {K : Type} (key2 : R -> K) (keq : K -> K -> bool).
Hypothesis keq_refl : forall a, keq a a = true.
Hypothesis keq_trans : forall a b c, keq a b = true -> keq b c = true -> keq a c = true.
Notation cc := (cc_t ROps key2 keq).

(* [l] (de-duplicated run) against [lr] (raw run): nothing invented, and every raw report has a survivor with the same key *)
Definition survives (lr l : list (R * R)) : Prop :=
  (forall x, In x l -> In x lr) /\
  (forall x, In x lr -> exists y, In y l /\ keq (key2 (fst x)) (key2 (fst y)) = true).
Definition rel (r1 r2 : result (list (R * R))) : Prop :=
  match r1, r2 with
  | Ok lr, Ok l => survives lr l
  | Err e1, Err e2 => e1 = e2
  | _, _ => False
  end.

Lemma survives_dedup lr1 lr2 lr3 lr4 l1 l2 l3 l4 :
  survives lr1 l1 -> survives lr2 l2 -> survives lr3 l3 -> survives lr4 l4 ->
  survives (lr1 ++ lr2 ++ lr3 ++ lr4) (dedup key2 keq [] (l1 ++ l2 ++ l3 ++ l4)).
Proof.
  intros [I1 C1] [I2 C2] [I3 C3] [I4 C4]. split.
  - intros x Hx. apply dedup_incl in Hx. rewrite !in_app_iff in *. intuition.
  - intros x Hx.
    assert (exists y', In y' (l1 ++ l2 ++ l3 ++ l4) /\ keq (key2 (fst x)) (key2 (fst y')) = true) as (y' & Hy' & Ey').
    { rewrite !in_app_iff in Hx. destruct Hx as [Hx | [Hx | [Hx | Hx]]];
        [destruct (C1 x Hx) as (y & Hy & Ey) | destruct (C2 x Hx) as (y & Hy & Ey)
        | destruct (C3 x Hx) as (y & Hy & Ey) | destruct (C4 x Hx) as (y & Hy & Ey)];
        exists y; rewrite !in_app_iff; auto. }
    destruct (dedup_covers key2 keq [] _ y' Hy') as [A | [(k & [] & _) | (z & Hz & Ez)]].
    + exists y'. auto.
    + exists z. split; [exact Hz | eapply keq_trans; eauto].
Qed.

Lemma rel_bind4 a1 a2 b1 b2 c1 c2 d1 d2 :
  rel a1 a2 -> rel b1 b2 -> rel c1 c2 -> rel d1 d2 ->
  rel (bind a1 (fun l1 => bind b1 (fun l2 => bind c1 (fun l3 => bind d1 (fun l4 =>
         Ok (dedup (fun _ : R => tt) (fun _ _ : unit => false) [] (l1 ++ l2 ++ l3 ++ l4)))))))
      (bind a2 (fun l1 => bind b2 (fun l2 => bind c2 (fun l3 => bind d2 (fun l4 =>
         Ok (dedup key2 keq [] (l1 ++ l2 ++ l3 ++ l4))))))).
Proof.
  unfold rel. destruct a1, a2; cbn [bind]; try tauto. intros A.
  destruct b1, b2; cbn [bind]; try tauto. intros B.
  destruct c1, c2; cbn [bind]; try tauto. intros C.
  destruct d1, d2; cbn [bind]; try tauto. intros D.
  rewrite dedup_raw. apply survives_dedup; assumption.
Qed.

Lemma cc_rel fuel this that : rel (cc_raw ROps fuel this that) (cc fuel this that).
Proof.
  revert this that. induction fuel as [| f IH]; intros this that; [reflexivity |].
  unfold cc_raw. rewrite !cc_S.
  destruct (cbounds (pc this)) as [b1 |]; [| reflexivity]. destruct (cbounds (pc that)) as [b2 |]; [| reflexivity].
  destruct (negb (BBox_overlaps ROps b1 b2)); [split; [auto | intros x []] |].
  destruct (ltb ROps (BBox_area ROps b1) (precision ROps) && ltb ROps (BBox_area ROps b2) (precision ROps)).
  { split; [auto |]. intros x Hx. exists x. split; [exact Hx | apply keq_refl]. }
  destruct (range_ok ROps (left_half this) && range_ok ROps (right_half this) &&
            range_ok ROps (left_half that) && range_ok ROps (right_half that)); [| reflexivity].
  assert (CH : forall a b, rel (child (fun _ : R => tt) (fun _ _ : unit => false) f a b) (child key2 keq f a b)).
  { intros a b. unfold child. destruct (cbounds (pc a)); [| reflexivity]. destruct (cbounds (pc b)); [| reflexivity].
    destruct (BBox_overlaps ROps b0 b3); [apply IH | split; [auto | intros x []]]. }
  apply rel_bind4; apply CH.
Qed.

(* if the raw run succeeds so does the real one; its reports are raw reports; and each raw report is represented by a
   survivor whose t1 has the same 2-decimal key -- NOTHING is claimed about the survivor's t2 or about how far apart
   the two t1 are within the bucket *)
Theorem raw_report_survives_by_key fuel this that lr :
  cc_raw ROps fuel this that = Ok lr ->
  exists l, cc fuel this that = Ok l /\ (forall x, In x l -> In x lr) /\
    (forall x, In x lr -> exists y, In y l /\ keq (key2 (fst x)) (key2 (fst y)) = true).
Proof.
  intros H. pose proof (cc_rel fuel this that) as Rl. rewrite H in Rl. unfold rel in Rl.
  destruct (cc fuel this that) as [l | e]; [| contradiction]. exists l. destruct Rl. auto.
Qed.
End Survive.

(* ---------- CubicBezier.hasLoop: canonical-form discriminant and the double point ---------- *)
(* the quantities the code computes, over the reals *)
Definition LA1 (c : seg4 R) := px (c0 c) * (py (c3 c) - py (c2 c)) + py (c0 c) * (px (c2 c) - px (c3 c)) + px (c3 c) * py (c2 c) - py (c3 c) * px (c2 c).
Definition LA2 (c : seg4 R) := px (c1 c) * (py (c0 c) - py (c3 c)) + py (c1 c) * (px (c3 c) - px (c0 c)) + px (c0 c) * py (c3 c) - py (c0 c) * px (c3 c).
Definition LA3 (c : seg4 R) := px (c2 c) * (py (c1 c) - py (c0 c)) + py (c2 c) * (px (c0 c) - px (c1 c)) + px (c1 c) * py (c0 c) - py (c1 c) * px (c0 c).
Definition LD3 c := 3 * LA3 c.
Definition LD2 c := LD3 c - LA2 c.
Definition LD1 c := LD2 c - LA2 c + LA1 c.
Definition Ldist c := sqrt (LD1 c * LD1 c + LD2 c * LD2 c + LD3 c * LD3 c).
Definition Ls c := if Req_EM_T (Ldist c) 0 then 0 else 1 / Ldist c.
(* the normalised discriminant the code tests, and the scale-free one *)
Definition Ldisc c := 3 * (LD2 c * Ls c) * (LD2 c * Ls c) - 4 * (LD1 c * Ls c) * (LD3 c * Ls c).
Definition loop_disc c := 3 * LD2 c * LD2 c - 4 * LD1 c * LD3 c.

Lemma hasLoop_unfold c :
  Cubic_hasLoop ROps c =
  if Rle_dec 0 (Ldisc c) then None
  else Some ((LD2 c * Ls c + sqrt (- Ldisc c)) / (2 * (LD1 c * Ls c)), (LD2 c * Ls c - sqrt (- Ldisc c)) / (2 * (LD1 c * Ls c))).
Proof.
  unfold Cubic_hasLoop, Ldisc, Ls, Ldist, LD1, LD2, LD3, LA1, LA2, LA3, neqb. cbn [add sub mul dvd neg sqrt_ ofZ leb eqb ROps].
  destruct (Req_EM_T _ 0); cbn [negb];
  match goal with |- context [Rle_dec ?a ?b] => destruct (Rle_dec a b) end; reflexivity.
Qed.

(* the relation behind the canonical form: the power-basis coefficient vectors A, B, C of the cubic satisfy
   A*d3 + B*d2 + C*d1 = 0 in both coordinates (a polynomial identity in the eight control coordinates) *)
Lemma loop_key_x c : cfA px c * LD3 c + cfB px c * LD2 c + cfC px c * LD1 c = 0.
Proof. destruct c as [[x0 y0] [x1 y1] [x2 y2] [x3 y3]]. unfold cfA, cfB, cfC, LD1, LD2, LD3, LA1, LA2, LA3. cbn [px py c0 c1 c2 c3]. ring. Qed.
Lemma loop_key_y c : cfA py c * LD3 c + cfB py c * LD2 c + cfC py c * LD1 c = 0.
Proof. destruct c as [[x0 y0] [x1 y1] [x2 y2] [x3 y3]]. unfold cfA, cfB, cfC, LD1, LD2, LD3, LA1, LA2, LA3. cbn [px py c0 c1 c2 c3]. ring. Qed.

Lemma double_point_alg A B C D d1 d2 d3 f :
  d1 <> 0 -> f * f = 4 * d1 * d3 - 3 * d2 * d2 -> A * d3 + B * d2 + C * d1 = 0 ->
  cpoly A B C D ((d2 + f) / (2 * d1)) = cpoly A B C D ((d2 - f) / (2 * d1)).
Proof.
  intros Hd Hf Hk.
  assert (E : cpoly A B C D ((d2 + f) / (2 * d1)) - cpoly A B C D ((d2 - f) / (2 * d1)) =
              (f / d1) * ((A * (3 * d2 * d2 + f * f) + 4 * d1 * (B * d2 + C * d1)) / (4 * d1 * d1))).
  { unfold cpoly. field. exact Hd. }
  rewrite Hf in E.
  replace (A * (3 * d2 * d2 + (4 * d1 * d3 - 3 * d2 * d2)) + 4 * d1 * (B * d2 + C * d1))
    with (4 * d1 * (A * d3 + B * d2 + C * d1)) in E by ring.
  rewrite Hk in E. unfold Rdiv in E. rewrite !Rmult_0_r, Rmult_0_l, Rmult_0_r in E. lra.
Qed.

Theorem hasLoop_double_point c t1 t2 :
  Cubic_hasLoop ROps c = Some (t1, t2) ->
  t1 <> t2 /\ Cubic_pointAtTime ROps c t1 = Cubic_pointAtTime ROps c t2.
Proof.
  rewrite hasLoop_unfold. destruct (Rle_dec 0 (Ldisc c)) as [| Hneg]; [discriminate |]. intros H. injection H as <- <-.
  set (d1 := LD1 c * Ls c) in *. set (d2 := LD2 c * Ls c) in *. set (d3 := LD3 c * Ls c).
  assert (Hd : Ldisc c = 3 * d2 * d2 - 4 * d1 * d3) by reflexivity.
  assert (Hlt : Ldisc c < 0) by lra.
  set (f := sqrt (- Ldisc c)).
  assert (Hf : f * f = 4 * d1 * d3 - 3 * d2 * d2) by (unfold f; rewrite sqrt_sqrt; lra).
  assert (Hfpos : 0 < f) by (apply sqrt_lt_R0; lra).
  assert (Hd1 : d1 <> 0) by (intros E0; rewrite E0 in Hd; nra).
  split.
  - intros E. assert (E' : (d2 + f) / (2 * d1) - (d2 - f) / (2 * d1) = f / d1) by (field; exact Hd1).
    rewrite E in E'. assert (f / d1 = 0) by lra.
    apply Rmult_integral in H. destruct H as [H | H]; [lra |]. apply Rinv_neq_0_compat in Hd1. contradiction.
  - assert (Kx : cfA px c * d3 + cfB px c * d2 + cfC px c * d1 = 0).
    { unfold d1, d2, d3. replace (cfA px c * (LD3 c * Ls c) + cfB px c * (LD2 c * Ls c) + cfC px c * (LD1 c * Ls c))
        with (Ls c * (cfA px c * LD3 c + cfB px c * LD2 c + cfC px c * LD1 c)) by ring. rewrite loop_key_x. ring. }
    assert (Ky : cfA py c * d3 + cfB py c * d2 + cfC py c * d1 = 0).
    { unfold d1, d2, d3. replace (cfA py c * (LD3 c * Ls c) + cfB py c * (LD2 c * Ls c) + cfC py c * (LD1 c * Ls c))
        with (Ls c * (cfA py c * LD3 c + cfB py c * LD2 c + cfC py c * LD1 c)) by ring. rewrite loop_key_y. ring. }
    pose proof (double_point_alg _ _ _ (px (c0 c)) d1 d2 d3 f Hd1 Hf Kx) as Ex.
    pose proof (double_point_alg _ _ _ (py (c0 c)) d1 d2 d3 f Hd1 Hf Ky) as Ey.
    rewrite <- !cubic_px_poly in Ex. rewrite <- !cubic_py_poly in Ey.
    destruct (Cubic_pointAtTime ROps c ((d2 + f) / (2 * d1))) as [xa ya], (Cubic_pointAtTime ROps c ((d2 - f) / (2 * d1))) as [xb yb].
    cbn [px py] in Ex, Ey. subst. reflexivity.
Qed.

Lemma Ldisc_scaled c : Ldisc c = Ls c * Ls c * loop_disc c.
Proof. unfold Ldisc, loop_disc. ring. Qed.

(* hasLoop returns False exactly when the (scale-free) discriminant 3*d2^2 - 4*d1*d3 of the canonical form is >= 0 *)
Theorem hasLoop_false_iff_disc_nonneg c : Cubic_hasLoop ROps c = None <-> 0 <= loop_disc c.
Proof.
  rewrite hasLoop_unfold, Ldisc_scaled. unfold Ls.
  destruct (Req_EM_T (Ldist c) 0) as [E0 | N0].
  - (* all three d vanish *)
    unfold Ldist in E0.
    assert (Z : LD1 c * LD1 c + LD2 c * LD2 c + LD3 c * LD3 c = 0).
    { apply sqrt_eq_0; [nra | exact E0]. }
    assert (LD1 c = 0 /\ LD2 c = 0 /\ LD3 c = 0) as (Z1 & Z2 & Z3) by (repeat split; nra).
    unfold loop_disc. rewrite Z1, Z2, Z3.
    destruct (Rle_dec 0 (0 * 0 * (3 * 0 * 0 - 4 * 0 * 0))) as [| N]; [split; [lra | reflexivity] | exfalso; apply N; lra].
  - assert (P : 0 < Ldist c).
    { unfold Ldist in *. destruct (sqrt_pos (LD1 c * LD1 c + LD2 c * LD2 c + LD3 c * LD3 c)); [assumption | congruence]. }
    assert (P2 : 0 < 1 / Ldist c * (1 / Ldist c)).
    { apply Rmult_lt_0_compat; unfold Rdiv; rewrite Rmult_1_l; apply Rinv_0_lt_compat; exact P. }
    destruct (Rle_dec 0 (1 / Ldist c * (1 / Ldist c) * loop_disc c)) as [Y | N]; split; intros H; try reflexivity; try discriminate.
    + nra.
    + exfalso. apply N. nra.
Qed.

Corollary hasLoop_some_iff_disc_neg c : (exists t1 t2, Cubic_hasLoop ROps c = Some (t1, t2)) <-> loop_disc c < 0.
Proof.
  pose proof (hasLoop_false_iff_disc_nonneg c) as H.
  destruct (Cubic_hasLoop ROps c) as [[a b] |] eqn:E.
  - split; [intros _ | intros _; eauto]. destruct (Rlt_dec (loop_disc c) 0); [assumption |].
    assert (0 <= loop_disc c) by lra. apply H in H0. discriminate.
  - split; [intros (a & b & X); discriminate | intros L]. assert (0 <= loop_disc c) by (apply H; reflexivity). lra.
Qed.

(* non-vacuity: a cubic that loops, (0,0)(150,100)(-50,100)(100,0), and one that does not, (0,0)(100,100)(0,100)(100,0) *)
Example hasLoop_example_loop : loop_disc (C4 (P 0 0) (P 150 100) (P (-50) 100) (P 100 0)) < 0.
Proof. unfold loop_disc, LD1, LD2, LD3, LA1, LA2, LA3. cbn [px py c0 c1 c2 c3]. lra. Qed.
Example hasLoop_example_noloop : Cubic_hasLoop ROps (C4 (P 0 0) (P 100 100) (P 0 100) (P 100 0)) = None.
Proof. apply hasLoop_false_iff_disc_nonneg. unfold loop_disc, LD1, LD2, LD3, LA1, LA2, LA3. cbn [px py c0 c1 c2 c3]. lra. Qed.

(* ---------- Segment.intersections for two curved segments: swap by degree, map to Intersection, limited filter ---------- *)
Section Dispatch.
Context {K : Type} (key2 : R -> K) (keq : K -> K -> bool).
Notation cc := (cc_t ROps key2 keq).
Notation isect := (intersections ROps key2 keq).

Definition as_curve (s : segment R) : option (curve R) :=
  match s with SLine _ => None | SQuad q => Some (CQuad q) | SCubic c => Some (CCubic c) end.

Lemma within_range_true t : within_range ROps t = true <-> 2 / 10000000 <= t <= 1 + 2 / 10000000.
Proof.
  unfold within_range, my_epsilon. cbn [lit add ltb ROps].
  destruct (Rlt_dec t (1 / 5000000)); [split; [discriminate | lra] |].
  destruct (Rlt_dec (1 / 1 + 1 / 5000000) t); [split; [discriminate | lra] |].
  split; [lra | reflexivity].
Qed.

(* the receiver after "arrange by degree": a quadratic receiver and a cubic argument are exchanged, nothing else *)
Theorem intersections_curves_spec fuel self other c1 c2 limited :
  as_curve self = Some c1 -> as_curve other = Some c2 ->
  isect fuel self other limited =
  let '(a, b) := if swapped self other then (c2, c1) else (c1, c2) in
  bind (cc fuel (whole ROps a) (whole ROps b)) (fun lt =>
  let l := map (fun t => (fst t, ceval a (fst t), snd t)) lt in
  Ok (if limited then filter (fun i : R * pt R * R => within_range ROps (fst (fst i)) && within_range ROps (snd i)) l else l)).
Proof.
  destruct self as [? | q1 | k1], other as [? | q2 | k2]; cbn [as_curve]; intros E1 E2; try discriminate;
    injection E1 as <-; injection E2 as <-; unfold intersections, swapped, curve_curve_intersections, order; cbn [Nat.ltb Nat.leb];
    destruct (cc fuel _ _); reflexivity.
Qed.

Theorem swapped_iff (self other : segment R) : swapped self other = true <-> (order self < order other)%nat.
Proof. unfold swapped. apply Nat.ltb_lt. Qed.

(* every Intersection reported for two curves comes from a pair (t1, t2) of the recursion, carries the point of the
   (possibly exchanged) first curve at t1, and passed the window 2e-7 <= t <= 1 + 2e-7 on both parameters *)
Theorem intersections_curves_reports fuel self other c1 c2 l t1 pnt t2 :
  as_curve self = Some c1 -> as_curve other = Some c2 ->
  isect fuel self other true = Ok l -> In (t1, pnt, t2) l ->
  exists a b lt, (a, b) = (if swapped self other then (c2, c1) else (c1, c2)) /\
    cc fuel (whole ROps a) (whole ROps b) = Ok lt /\ In (t1, t2) lt /\ pnt = ceval a t1 /\
    2 / 10000000 <= t1 <= 1 + 2 / 10000000 /\ 2 / 10000000 <= t2 <= 1 + 2 / 10000000.
Proof.
  intros E1 E2 H Hin. rewrite (intersections_curves_spec fuel self other c1 c2 true E1 E2) in H.
  destruct (if swapped self other then (c2, c1) else (c1, c2)) as [a b] eqn:SW.
  apply bind_ok in H. destruct H as (lt & Hcc & H). injection H as <-.
  apply filter_In in Hin. destruct Hin as [Hin W]. apply andb_true_iff in W. destruct W as [W1 W2]. cbn [fst snd] in W1, W2.
  apply in_map_iff in Hin. destruct Hin as ([u v] & E & Hin). cbn [fst snd] in E. injection E as <- <- <-.
  exists a, b, lt. rewrite within_range_true in W1, W2. repeat split; auto; lra.
Qed.
End Dispatch.

(* ---------- BezierPath.getSelfIntersections ---------- *)
Section SelfIntersections.
Context {K : Type} (key2 : R -> K) (keq : K -> K -> bool).
Notation isect := (intersections ROps key2 keq).
Notation sx := (nat * nat * (R * pt R * R))%type.

(* what the pair (i1, i2) contributes: the intersections of segs[i1] with segs[i2] whose t1 lies strictly inside
   (0.01, 0.99), labelled with the indices of seg1/seg2 as exchanged by `intersections` *)
Definition pair_block (fuel : nat) (segs : list (segment R)) (i1 i2 : nat) : list sx :=
  match nth_error segs i1, nth_error segs i2 with
  | Some s1, Some s2 =>
      match isect fuel s1 s2 true with
      | Ok li => tag i1 i2 s1 s2 (filter (t1_interior ROps) li)
      | Err _ => []
      end
  | _, _ => []
  end.
Definition pairs_spec (fuel : nat) (segs : list (segment R)) : list sx :=
  flat_map (fun i1 => flat_map (pair_block fuel segs i1) (seq (S i1) (length segs - S i1))) (seq 0 (length segs)).

Lemma nth_error_mid {A} (pre : list A) x post : nth_error (pre ++ x :: post) (length pre) = Some x.
Proof. rewrite nth_error_app2 by lia. rewrite Nat.sub_diag. reflexivity. Qed.

Lemma inner_loop_spec fuel segs pre s1 : forall rest mid l,
  segs = pre ++ s1 :: mid ++ rest ->
  inner_loop ROps key2 keq fuel (length pre) s1 (length pre + S (length mid)) rest = Ok l ->
  l = flat_map (pair_block fuel segs (length pre)) (seq (length pre + S (length mid)) (length rest)) /\
  (forall s2, In s2 rest -> exists li, isect fuel s1 s2 true = Ok li).
Proof.
  induction rest as [| s2 r IH]; intros mid l Hs H.
  - simpl in H. injection H as <-. split; [reflexivity | intros ? []].
  - cbn [inner_loop] in H. apply bind_ok in H. destruct H as (li & Hi & H).
    apply bind_ok in H. destruct H as (l' & Hr & H). injection H as <-.
    assert (Hs' : segs = pre ++ s1 :: (mid ++ [s2]) ++ r) by (rewrite Hs, <- app_assoc; reflexivity).
    replace (S (length pre + S (length mid)))%nat with (length pre + S (length (mid ++ [s2])))%nat in Hr
      by (rewrite app_length; simpl; lia).
    destruct (IH (mid ++ [s2]) l' Hs' Hr) as [-> Hall].
    split.
    + cbn [length seq flat_map]. f_equal.
      * unfold pair_block. rewrite Hs at 1. rewrite nth_error_mid.
        replace (nth_error segs (length pre + S (length mid))) with (Some s2).
        { rewrite Hi. reflexivity. }
        rewrite Hs. rewrite nth_error_app2 by lia. replace (length pre + S (length mid) - length pre)%nat with (S (length mid)) by lia.
        cbn [nth_error]. rewrite nth_error_mid. reflexivity.
      * rewrite app_length. simpl. replace (length pre + S (length mid + 1))%nat with (S (length pre + S (length mid))) by lia. reflexivity.
    + intros s [<- | Hin]; [eauto | apply Hall; exact Hin].
Qed.

Lemma outer_loop_spec fuel segs : forall rest pre l,
  segs = pre ++ rest ->
  outer_loop ROps key2 keq fuel (length pre) rest = Ok l ->
  l = flat_map (fun i1 => flat_map (pair_block fuel segs i1) (seq (S i1) (length segs - S i1))) (seq (length pre) (length rest)) /\
  (forall i1 i2 s1 s2, (length pre <= i1 < i2)%nat -> nth_error segs i1 = Some s1 -> nth_error segs i2 = Some s2 ->
     exists li, isect fuel s1 s2 true = Ok li).
Proof.
  induction rest as [| s1 r IH]; intros pre l Hs H.
  - simpl in H. injection H as <-. split; [reflexivity |].
    intros i1 i2 s1 s2 Hi E1 E2. exfalso. assert (i2 < length segs)%nat by (apply nth_error_Some; congruence).
    rewrite Hs, app_length in H. simpl in H. lia.
  - cbn [outer_loop] in H. apply bind_ok in H. destruct H as (li & Hi & H).
    apply bind_ok in H. destruct H as (l' & Hr & H). injection H as <-.
    assert (Hs1 : segs = pre ++ s1 :: [] ++ r) by exact Hs.
    replace (S (length pre)) with (length pre + S (length (@nil (segment R))))%nat in Hi by (simpl; lia).
    destruct (inner_loop_spec fuel segs pre s1 r [] li Hs1 Hi) as [-> Hall1].
    assert (Hs2 : segs = (pre ++ [s1]) ++ r) by (rewrite <- app_assoc; exact Hs).
    replace (S (length pre)) with (length (pre ++ [s1])) in Hr by (rewrite app_length; simpl; lia).
    destruct (IH (pre ++ [s1]) l' Hs2 Hr) as [-> Hall2].
    split.
    + cbn [length seq flat_map]. f_equal.
      * f_equal. simpl. f_equal; [lia |]. rewrite Hs, app_length. simpl. lia.
      * rewrite app_length. simpl. replace (length pre + 1)%nat with (S (length pre)) by lia. reflexivity.
    + intros i1 i2 a b Hi12 E1 E2.
      destruct (Nat.eq_dec i1 (length pre)) as [-> | Hne].
      * rewrite Hs, nth_error_mid in E1. injection E1 as <-. apply Hall1.
        rewrite Hs in E2. rewrite nth_error_app2 in E2 by lia.
        destruct (i2 - length pre)%nat as [| j] eqn:Ej; [lia |]. cbn [nth_error] in E2. eapply nth_error_In; eauto.
      * apply (Hall2 i1 i2 a b); auto. rewrite app_length. simpl. lia.
Qed.

(* the result is the loop reports (in segment order) followed by the contributions of the pairs i1 < i2 in
   lexicographic order; every pair -- adjacent ones included -- is intersected, and no pair is skipped or repeated *)
Theorem selfintersections_pairs fuel segs l :
  self_intersections ROps key2 keq fuel segs = Ok l ->
  l = loop_reports ROps 0 segs ++ pairs_spec fuel segs /\
  (forall i1 i2 s1 s2, (i1 < i2)%nat -> nth_error segs i1 = Some s1 -> nth_error segs i2 = Some s2 ->
     exists li, isect fuel s1 s2 true = Ok li).
Proof.
  unfold self_intersections. intros H. apply bind_ok in H. destruct H as (lp & Hp & H). injection H as <-.
  destruct (outer_loop_spec fuel segs segs [] lp eq_refl Hp) as [-> Hall].
  split; [reflexivity |]. intros i1 i2 s1 s2 Hlt. apply Hall. simpl. lia.
Qed.

(* membership form: which reports a pair contributes *)
Theorem pair_block_in fuel segs i1 i2 a b i :
  In (a, b, i) (pair_block fuel segs i1 i2) <->
  exists s1 s2 li, nth_error segs i1 = Some s1 /\ nth_error segs i2 = Some s2 /\ isect fuel s1 s2 true = Ok li /\
    In i li /\ 1 / 100 < fst (fst i) < 1 - 1 / 100 /\
    (a, b) = if swapped s1 s2 then (i2, i1) else (i1, i2).
Proof.
  unfold pair_block. split.
  - destruct (nth_error segs i1) as [s1 |] eqn:N1; [| intros []]. destruct (nth_error segs i2) as [s2 |] eqn:N2; [| intros []].
    destruct (isect fuel s1 s2 true) as [li | e] eqn:EI; [| intros []].
    unfold tag. rewrite in_map_iff. intros (j & E & Hj). apply filter_In in Hj. destruct Hj as [Hj Tj].
    exists s1, s2, li. repeat split; auto.
    + destruct (swapped s1 s2); injection E as <- <- <-; exact Hj.
    + unfold t1_interior in Tj. apply andb_true_iff in Tj. destruct Tj as [T1 _]. apply Rltb_true in T1.
      destruct (swapped s1 s2); injection E as <- <- <-; cbn [lit ROps] in T1; lra.
    + unfold t1_interior in Tj. apply andb_true_iff in Tj. destruct Tj as [_ T2]. apply Rltb_true in T2.
      destruct (swapped s1 s2); injection E as <- <- <-; cbn [lit sub ofZ ROps] in T2; lra.
    + destruct (swapped s1 s2); injection E as <- <- <-; reflexivity.
  - intros (s1 & s2 & li & -> & -> & -> & Hi & [T1 T2] & E).
    unfold tag. apply in_map_iff. exists i. split.
    + destruct (swapped s1 s2); injection E as -> ->; reflexivity.
    + apply filter_In. split; [exact Hi |]. unfold t1_interior. apply andb_true_iff.
      split; apply Rltb_true; cbn [lit sub ofZ ROps]; lra.
Qed.

(* loop reports: exactly the cubics whose hasLoop pair lies strictly inside (0,1) on both parameters *)
Theorem loop_report_in i s a b t1 pnt t2 :
  In (a, b, (t1, pnt, t2)) (loop_report ROps i s) <->
  exists c, s = SCubic c /\ Cubic_hasLoop ROps c = Some (t1, t2) /\ 0 < t1 < 1 /\ 0 < t2 < 1 /\
            a = i /\ b = i /\ pnt = Cubic_pointAtTime ROps c t1.
Proof.
  unfold loop_report. destruct s as [? | ? | c].
  - split; [intros [] | intros (c & E & _); discriminate].
  - split; [intros [] | intros (c & E & _); discriminate].
  - destruct (Cubic_hasLoop ROps c) as [[u v] |] eqn:HL.
    + destruct (ltb ROps (ofZ ROps 0) u && ltb ROps u (ofZ ROps 1) && ltb ROps (ofZ ROps 0) v && ltb ROps v (ofZ ROps 1)) eqn:W.
      * rewrite !andb_true_iff, !Rltb_true in W. cbn [ofZ ROps] in W. split.
        -- intros [E | []]. injection E as <- <- <- <- <-. exists c. repeat split; auto; lra.
        -- intros (c' & E & HL' & A & B & -> & -> & ->). injection E as <-. rewrite HL in HL'. injection HL' as <- <-. left. reflexivity.
      * split; [intros [] |]. intros (c' & E & HL' & A & B & _). injection E as <-. rewrite HL in HL'. injection HL' as <- <-.
        assert (ltb ROps (ofZ ROps 0) u && ltb ROps u (ofZ ROps 1) && ltb ROps (ofZ ROps 0) v && ltb ROps v (ofZ ROps 1) = true).
        { rewrite !andb_true_iff, !Rltb_true. cbn [ofZ ROps]. lra. }
        congruence.
    + split; [intros [] |]. intros (c' & E & HL' & _). injection E as <-. congruence.
Qed.
End SelfIntersections.

(* ---------- non-vacuity: the hypotheses of the no-miss theorem are satisfiable ---------- *)
(* quadratics whose control values increase strictly in both coordinates: no derivative zero in [0,1], for them and for
   every piece the halving produces, so every visited piece is enclosed by its reported box *)
Definition incr_quad (q : seg3 R) : Prop :=
  px (q0 q) < px (q1 q) < px (q2 q) /\ py (q0 q) < py (q1 q) < py (q2 q).

Lemma incr_quad_sliver_free q : incr_quad q -> sliver_free (CQuad q).
Proof.
  destruct q as [[x0 y0] [x1 y1] [x2 y2]]. unfold incr_quad. cbn [px py q0 q1 q2]. intros [Hx Hy].
  cbn [sliver_free]. split; intros r Hr; rcbv; nra.
Qed.

Lemma incr_quad_halves q : incr_quad q ->
  incr_quad (fst (Quad_splitAtTime ROps q (1/2))) /\ incr_quad (snd (Quad_splitAtTime ROps q (1/2))).
Proof.
  destruct q as [[x0 y0] [x1 y1] [x2 y2]]. unfold incr_quad. cbn [px py q0 q1 q2]. intros [Hx Hy].
  rcbv. repeat split; lra.
Qed.

Lemma incr_quad_desc k p0 p :
  Desc k p0 p -> (exists q, pc p0 = CQuad q /\ incr_quad q) -> exists q', pc p = CQuad q' /\ incr_quad q'.
Proof.
  induction 1 as [p | k p0 p D IH | k p0 p D IH]; intros (q & E & I); [eauto | |]; apply IH;
    unfold left_half, right_half, psplit; cbn [fst snd pc]; rewrite E; cbn [curve_split_half fst snd]; rewrite half_R;
    destruct (incr_quad_halves q I); eauto.
Qed.

Lemma incr_quad_all_enclosed q k p : incr_quad q -> Desc k (whole ROps (CQuad q)) p -> encloses p.
Proof.
  intros I D. destruct (incr_quad_desc k _ p D) as (q' & E & I'); [exists q; auto |].
  apply sliver_free_encloses. rewrite E. apply incr_quad_sliver_free. exact I'.
Qed.

Definition ex_a : seg3 R := Q3 (P 0 0) (P (1/2) (1/2)) (P 1 2).        (* x = t, y = t + t^2 *)
Definition ex_b : seg3 R := Q3 (P 0 0) (P (1/2) (3/4)) (P 1 (3/2)).    (* x = t, y = 3t/2 *)

(* the two example curves cross at (1/2, 3/4); whatever the fuel, a successful raw run reports that crossing to within
   half the final parameter range on both curves *)
Example no_miss_example fuel l :
  cc_raw ROps fuel (whole ROps (CQuad ex_a)) (whole ROps (CQuad ex_b)) = Ok l ->
  exists k t1 t2, In (t1, t2) l /\ Rabs (t1 - 1/2) <= 1 / 2 ^ S k /\ Rabs (t2 - 1/2) <= 1 / 2 ^ S k.
Proof.
  intros H.
  assert (Ia : incr_quad ex_a) by (unfold incr_quad, ex_a; cbn [px py q0 q1 q2]; lra).
  assert (Ib : incr_quad ex_b) by (unfold incr_quad, ex_b; cbn [px py q0 q1 q2]; lra).
  destruct (no_miss_within_half_range fuel (CQuad ex_a) (CQuad ex_b) (whole ROps (CQuad ex_a)) (whole ROps (CQuad ex_b)) l (1/2) (1/2))
    as (k & t1 & t2 & IN & B1 & B2); auto.
  - cbn; lra.
  - cbn; lra.
  - apply repr_whole.
  - apply repr_whole.
  - intros ka pa Da. apply (incr_quad_all_enclosed ex_a ka pa Ia Da).
  - intros kb pb Db. apply (incr_quad_all_enclosed ex_b kb pb Ib Db).
  - cbn; lra.
  - cbn; lra.
  - rcbv. apply pt_eq; lra.
  - exists k, t1, t2. cbn [whole plo phi ofZ ROps] in B1, B2. replace (1 - 0) with 1 in B1, B2 by lra. auto.
Qed.

(* ---------- the quantitative clause is FALSE of the faithful model: thin boxes ---------- *)
(* Two straight, axis-parallel cubics: rf_a runs along y = 0 from (0,0) to (100,0) with x = 100 t; rf_b runs along x = 10
   from (10,-50) to (10,50).  They cross once, transversally (90 degrees), at (10,0) = rf_a(1/10) = rf_b(1/2).  Both
   bounding boxes have area 0 < 1e-3, so the recursion stops at depth 0 and reports the single pair (1/2, 1/2): the two
   parameter points are 40 units apart and the only reported point is 40 units from the crossing, while the curves'
   joint box is 100 x 100 (0.2% of its diagonal is 0.283).  Replayed on the real implementation by tools/props/C06.py. *)
Definition rf_a : seg4 R := C4 (P 0 0) (P (100/3) 0) (P (200/3) 0) (P 100 0).
Definition rf_b : seg4 R := C4 (P 10 (-50)) (P 10 (-20)) (P 10 20) (P 10 50).

Lemma rf_a_eval u : Cubic_pointAtTime ROps rf_a u = P (100 * u) 0.
Proof. rcbv. apply pt_eq; field. Qed.
Lemma rf_b_eval u : Cubic_pointAtTime ROps rf_b u = P 10 (-50 + 90 * u + 30 * u * u - 20 * u * u * u).
Proof. rcbv. apply pt_eq; ring. Qed.

Theorem quantitative_clause_refuted :
  (* a genuine, transversal, interior crossing *)
  Cubic_pointAtTime ROps rf_a (1/10) = Cubic_pointAtTime ROps rf_b (1/2) /\
  forall (K : Type) (key2 : R -> K) (keq : K -> K -> bool) (fuel : nat),
    cc_t ROps key2 keq (S fuel) (whole ROps (CCubic rf_a)) (whole ROps (CCubic rf_b)) = Ok [(1/2, 1/2)] /\
    px (Cubic_pointAtTime ROps rf_a (1/2)) - px (Cubic_pointAtTime ROps rf_b (1/2)) = 40 /\
    px (Cubic_pointAtTime ROps rf_a (1/2)) - px (Cubic_pointAtTime ROps rf_a (1/10)) = 40.
Proof.
  split; [rewrite rf_a_eval, rf_b_eval; apply pt_eq; lra |].
  intros K key2 keq fuel. split; [| rewrite !rf_a_eval, rf_b_eval; cbn [px]; lra].
  rewrite cc_S. cbn [whole pc plo phi curve_bounds].
  destruct (cubic_bounds_some rf_a) as (ba & Ea & _). destruct (cubic_bounds_some rf_b) as (bb & Eb & _).
  rewrite Ea, Eb.
  destruct (bounds_tight_cubic rf_a ba Ea) as (_ & (t1 & _ & _ & A1) & _ & (t2 & _ & _ & A2)).
  destruct (bounds_tight_cubic rf_b bb Eb) as ((t3 & _ & _ & B1) & _ & (t4 & _ & _ & B2) & _).
  rewrite rf_a_eval in A1, A2. rewrite rf_b_eval in B1, B2. cbn [px py] in A1, A2, B1, B2.
  destruct (ends_in (Cubic_findExtremes_False ROps rf_a)) as [I0 I1].
  destruct (cubic_samples_in_box rf_a ba Ea 0 I0) as [Xa0 _]. destruct (cubic_samples_in_box rf_a ba Ea 1 I1) as [Xa1 _].
  destruct (ends_in (Cubic_findExtremes_False ROps rf_b)) as [J0 J1].
  destruct (cubic_samples_in_box rf_b bb Eb 0 J0) as [_ Yb0]. destruct (cubic_samples_in_box rf_b bb Eb 1 J1) as [_ Yb1].
  rewrite rf_a_eval in Xa0, Xa1. rewrite rf_b_eval in Yb0, Yb1. cbn [px py] in Xa0, Xa1, Yb0, Yb1.
  assert (OV : BBox_overlaps ROps ba bb = true) by (apply overlaps_true; lra).
  rewrite OV. cbn [negb].
  assert (S1 : ltb ROps (BBox_area ROps ba) (precision ROps) = true).
  { apply small_dec. unfold small. rewrite area_R, A1, A2. lra. }
  assert (S2 : ltb ROps (BBox_area ROps bb) (precision ROps) = true).
  { apply small_dec. unfold small. rewrite area_R, B1, B2. lra. }
  rewrite S1, S2. cbn [andb]. rewrite !mid_R. cbn [ofZ ROps]. repeat f_equal; lra.
Qed.
