(* C11, a refutation witness in binary64: a ray level with a HORIZONTAL INFLECTION of a cubic (the curve crosses the ray at a point where
   its tangent is exactly horizontal).  BezierPath.windingNumberOfPoint takes the direction of a crossing from
   `math.copysign(1, tangent.y)`; there tangent.y is a zero, and the SIGN OF THAT ZERO is an accident of the rounding, not the direction in
   which the curve crosses.  Witness (all coordinates integers): the cubic (-3,228)(63,188)(127,228)(232,188) runs DOWNWARDS through the
   level y = 208 at t = 1/2, where y'(1/2) = 0 and y''(1/2) = 0; it is closed by the lines to (262,138), (262,310), (-43,310) and back.
   The query (282,208) lies outside the bounding box (x <= 262).  The left ray meets the cubic (computed tangent.y = +0.0: counted +1, the
   true direction is -1) and the vertical line x = 262, which runs upwards (+1); no other edge reaches the level 208.  The sum is 2, not 0.  The parity -- hence pointIsInside -- is still right.

   The float model needs libm only at arguments where the C standard fixes the value exactly; the table lists them and is part of the
   statement: atan2(0,x) = 0 (x > 0), cos 0 = 1, sin 0 = 0, pow(0, 1/3) = 0, atan2(y,0) = pi/2 (y > 0), and CPython's
   cos(pi/2) = 0x1.1a62633145c07p-54, sin(pi/2) = 1 for the binary64 pi/2. *)
From Coq Require Import PrimFloat.
From Coq Require Import ZArith List Bool.
Import ListNotations.
From BZ Require Import Base.Ops Gen.Point Gen.BBox Gen.Line Gen.Quad Gen.Cubic Hand.Bounds Hand.Winding.

Definition infl_tbl : list libm_entry :=
  [(3%nat, 0x0.0p+0%float, 0x1.4f00000000000p+8%float, 0x0.0p+0%float); (0%nat, 0x0.0p+0%float, 0x0.0p+0%float, 0x1.0000000000000p+0%float);
   (1%nat, 0x0.0p+0%float, 0x0.0p+0%float, 0x0.0p+0%float); (4%nat, 0x0.0p+0%float, 0x1.5555555555555p-2%float, 0x0.0p+0%float);
   (3%nat, 0x0.0p+0%float, 0x1.4000000000000p+3%float, 0x0.0p+0%float); (3%nat, 0x1.5800000000000p+7%float, 0x0.0p+0%float, 0x1.921fb54442d18p+0%float);
   (0%nat, 0x1.921fb54442d18p+0%float, 0x0.0p+0%float, 0x1.1a62633145c07p-54%float); (1%nat, 0x1.921fb54442d18p+0%float, 0x0.0p+0%float, 0x1.0000000000000p+0%float)].

Definition infl_path : list (segment float) :=
  [SCubic (C4 (P (-3)%float 228%float) (P 63%float 188%float) (P 127%float 228%float) (P 232%float 188%float));
   SLine (L2 (P 232%float 188%float) (P 262%float 138%float)); SLine (L2 (P 262%float 138%float) (P 262%float 310%float));
   SLine (L2 (P 262%float 310%float) (P (-43)%float 310%float)); SLine (L2 (P (-43)%float 310%float) (P (-3)%float 228%float))].
Definition infl_query : pt float := P 282%float 208%float.

Theorem horizontal_inflection_float_refuted :
  let O := FOpsT infl_tbl in
  (match path_box O infl_path with Some b => BBox_includes O b infl_query | None => true end) = false /\
  windingNumberOfPoint O infl_path infl_query = Some 2%Z /\
  pointIsInside O infl_path infl_query = Some false.
Proof. vm_compute. repeat split. Qed.
