(* C10: signed area is exact per segment (it is the integral of y dx along the segment) and consistent for closed
   polylines (shoelace sum = - sum of the per-edge areas; reversal, translation, rotation, scaling). *)
From Coq Require Import PrimFloat.
From Coq Require Import ZArith List Bool Reals Lra Lia Psatz.
From Coquelicot Require Import Coquelicot.
From BZ Require Import Base.Ops Proofs.Tactics Gen.Point Gen.Affine Gen.Line Gen.Quad Gen.Cubic.
From BZ Require Import Proofs.C01 Hand.Shoelace.
Import ListNotations.
Open Scope R_scope.

(* ================================================================================================== *)
(* Part 1: single segments                                                                            *)
(* ================================================================================================== *)

(* ---- the integral over [0,1] of (cubic polynomial) * (quadratic polynomial), in the monomial basis ---- *)
Definition prod32_int (A0 A1 A2 A3 B0 B1 B2 : R) : R :=
  A0 * B0 + (A0 * B1 + A1 * B0) / 2 + (A0 * B2 + A1 * B1 + A2 * B0) / 3
  + (A1 * B2 + A2 * B1 + A3 * B0) / 4 + (A2 * B2 + A3 * B1) / 5 + A3 * B2 / 6.

Lemma is_RInt_prod32 (A0 A1 A2 A3 B0 B1 B2 : R) :
  is_RInt (fun t => (A0 + A1 * t + A2 * (t * t) + A3 * (t * t * t)) * (B0 + B1 * t + B2 * (t * t))) 0 1
          (prod32_int A0 A1 A2 A3 B0 B1 B2).
Proof.
  pose (F := fun t : R =>
     A0 * B0 * t + (A0 * B1 + A1 * B0) / 2 * (t * t) + (A0 * B2 + A1 * B1 + A2 * B0) / 3 * (t * t * t)
     + (A1 * B2 + A2 * B1 + A3 * B0) / 4 * (t * t * t * t) + (A2 * B2 + A3 * B1) / 5 * (t * t * t * t * t)
     + A3 * B2 / 6 * (t * t * t * t * t * t)).
  replace (prod32_int A0 A1 A2 A3 B0 B1 B2) with (minus (F 1) (F 0))
    by (unfold F, prod32_int, minus, plus, opp; simpl; field).
  apply (is_RInt_derive F).
  - intros x _. unfold F. auto_derive; [exact I | field].
  - intros x _. apply continuity_pt_filterlim. reg.
Qed.

(* packaged: any integrand that is pointwise such a product, any value equal to the closed form *)
Lemma is_RInt_by_prod32 (f : R -> R) (v : R) (A0 A1 A2 A3 B0 B1 B2 : R) :
  (forall t, f t = (A0 + A1 * t + A2 * (t * t) + A3 * (t * t * t)) * (B0 + B1 * t + B2 * (t * t))) ->
  v = prod32_int A0 A1 A2 A3 B0 B1 B2 ->
  is_RInt f 0 1 v.
Proof.
  intros Hf ->. eapply is_RInt_ext; [ | apply (is_RInt_prod32 A0 A1 A2 A3 B0 B1 B2)].
  intros x _. symmetry. apply Hf.
Qed.

(* ---- a. the area of a segment is the integral of y dx along it ---- *)
Theorem area_is_integral_line (s : seg2 R) :
  is_RInt (fun t => py (Line_pointAtTime ROps s t) * (px (l1 s) - px (l0 s))) 0 1 (Line_area ROps s).
Proof.
  destruct s as [[x0 y0] [x1 y1]].
  apply (is_RInt_by_prod32 _ _ y0 (y1 - y0) 0 0 (x1 - x0) 0 0).
  - intro t. rcbv. ring.
  - rcbv. field.
Qed.

Theorem area_is_integral_quad (s : seg3 R) :
  is_RInt (fun t => py (Quad_pointAtTime ROps s t) * px (Line_pointAtTime ROps (Quad_derivative ROps s) t)) 0 1
          (Quad_area ROps s).
Proof.
  destruct s as [[x0 y0] [x1 y1] [x2 y2]].
  apply (is_RInt_by_prod32 _ _ y0 (2 * (y1 - y0)) (y0 - 2 * y1 + y2) 0
                               (2 * (x1 - x0)) (2 * (x0 - 2 * x1 + x2)) 0).
  - intro t. rcbv. ring.
  - rcbv. field.
Qed.

Theorem area_is_integral_cubic (s : seg4 R) :
  is_RInt (fun t => py (Cubic_pointAtTime ROps s t) * px (Quad_pointAtTime ROps (Cubic_derivative ROps s) t)) 0 1
          (Cubic_area ROps s).
Proof.
  destruct s as [[x0 y0] [x1 y1] [x2 y2] [x3 y3]].
  apply (is_RInt_by_prod32 _ _ y0 (3 * (y1 - y0)) (3 * (y0 - 2 * y1 + y2)) (y3 - 3 * y2 + 3 * y1 - y0)
                               (3 * (x1 - x0)) (6 * (x0 - 2 * x1 + x2)) (3 * (x3 - 3 * x2 + 3 * x1 - x0))).
  - intro t. rcbv. ring.
  - rcbv. field.
Qed.

(* the same with the analytic derivative of the x coordinate (independent of the *_derivative methods):
   area = integral over [0,1] of y(t) * x'(t) dt *)
Theorem area_is_integral_line_Derive (s : seg2 R) :
  is_RInt (fun t => py (Line_pointAtTime ROps s t) * Derive (fun u => px (Line_pointAtTime ROps s u)) t) 0 1
          (Line_area ROps s).
Proof.
  eapply is_RInt_ext; [ | apply area_is_integral_line].
  intros t _. cbv beta. f_equal. symmetry. apply is_derive_unique.
  destruct s as [[x0 y0] [x1 y1]].
  match goal with |- is_derive ?f ?t ?d => let f' := rnorm f in let d' := rnorm d in change (is_derive f' t d') end.
  auto_derive; [exact I | ring].
Qed.

Theorem area_is_integral_quad_Derive (s : seg3 R) :
  is_RInt (fun t => py (Quad_pointAtTime ROps s t) * Derive (fun u => px (Quad_pointAtTime ROps s u)) t) 0 1
          (Quad_area ROps s).
Proof.
  eapply is_RInt_ext; [ | apply area_is_integral_quad].
  intros t _. cbv beta. f_equal. symmetry. apply is_derive_unique. apply quad_derivative_x.
Qed.

Theorem area_is_integral_cubic_Derive (s : seg4 R) :
  is_RInt (fun t => py (Cubic_pointAtTime ROps s t) * Derive (fun u => px (Cubic_pointAtTime ROps s u)) t) 0 1
          (Cubic_area ROps s).
Proof.
  eapply is_RInt_ext; [ | apply area_is_integral_cubic].
  intros t _. cbv beta. f_equal. symmetry. apply is_derive_unique. apply cubic_derivative_x.
Qed.

(* ---- b. splitting at any real t is additive ---- *)
Theorem area_split_additive_line (s : seg2 R) t :
  Line_area ROps s = Line_area ROps (fst (Line_splitAtTime ROps s t)) + Line_area ROps (snd (Line_splitAtTime ROps s t)).
Proof. destruct_pts. rcbv. field. Qed.
Theorem area_split_additive_quad (s : seg3 R) t :
  Quad_area ROps s = Quad_area ROps (fst (Quad_splitAtTime ROps s t)) + Quad_area ROps (snd (Quad_splitAtTime ROps s t)).
Proof. destruct_pts. rcbv. field. Qed.
Theorem area_split_additive_cubic (s : seg4 R) t :
  Cubic_area ROps s = Cubic_area ROps (fst (Cubic_splitAtTime ROps s t)) + Cubic_area ROps (snd (Cubic_splitAtTime ROps s t)).
Proof. destruct_pts. rcbv. field. Qed.

(* ---- c. reversal negates ---- *)
Theorem area_reversed_neg_line (s : seg2 R) : Line_area ROps (Line_reversed ROps s) = - Line_area ROps s.
Proof. destruct_pts. rcbv. field. Qed.
Theorem area_reversed_neg_quad (s : seg3 R) : Quad_area ROps (Quad_reversed ROps s) = - Quad_area ROps s.
Proof. destruct_pts. rcbv. field. Qed.
Theorem area_reversed_neg_cubic (s : seg4 R) : Cubic_area ROps (Cubic_reversed ROps s) = - Cubic_area ROps s.
Proof. destruct_pts. rcbv. field. Qed.

(* ---- d. degree elevation keeps the area ---- *)
Theorem area_elevation_line_quad (a b : pt R) :
  Line_area ROps (L2 a b) = Quad_area ROps (Q3 a (P ((px a + px b) / 2) ((py a + py b) / 2)) b).
Proof. destruct_pts. rcbv. field. Qed.
Theorem area_elevation_quad_cubic (q : seg3 R) :
  Quad_area ROps q = Cubic_area ROps (Quad_toCubicBezier ROps q).
Proof. destruct_pts. rcbv. field. Qed.
Theorem area_elevation_equal :
  (forall a b : pt R, Line_area ROps (L2 a b) = Quad_area ROps (Q3 a (P ((px a + px b) / 2) ((py a + py b) / 2)) b)) /\
  (forall q : seg3 R, Quad_area ROps q = Cubic_area ROps (Quad_toCubicBezier ROps q)).
Proof. split; [exact area_elevation_line_quad | exact area_elevation_quad_cubic]. Qed.

(* ---- e. open segments: translation adds the boundary term  v.y * (end.x - start.x); scaling multiplies by k^2 ---- *)
Theorem area_translated_line (s : seg2 R) (v : pt R) :
  Line_area ROps (Line_translated ROps s v) = Line_area ROps s + py v * (px (l1 s) - px (l0 s)).
Proof. destruct_pts. rcbv. field. Qed.
Theorem area_translated_quad (s : seg3 R) (v : pt R) :
  Quad_area ROps (Quad_translated ROps s v) = Quad_area ROps s + py v * (px (q2 s) - px (q0 s)).
Proof. destruct_pts. rcbv. field. Qed.
Theorem area_translated_cubic (s : seg4 R) (v : pt R) :
  Cubic_area ROps (Cubic_translated ROps s v) = Cubic_area ROps s + py v * (px (c3 s) - px (c0 s)).
Proof. destruct_pts. rcbv. field. Qed.
Theorem area_scaled_line (s : seg2 R) k : Line_area ROps (Line_scaled ROps s k) = k * k * Line_area ROps s.
Proof. destruct_pts. rcbv. field. Qed.
Theorem area_scaled_quad (s : seg3 R) k : Quad_area ROps (Quad_scaled ROps s k) = k * k * Quad_area ROps s.
Proof. destruct_pts. rcbv. field. Qed.
Theorem area_scaled_cubic (s : seg4 R) k : Cubic_area ROps (Cubic_scaled ROps s k) = k * k * Cubic_area ROps s.
Proof. destruct_pts. rcbv. field. Qed.

(* ================================================================================================== *)
(* Part 2: closed polylines (Hand/Shoelace.v)                                                         *)
(* ================================================================================================== *)

(* the summand of the shoelace loop and its plain sum *)
Definition cross (l : seg2 R) : R := px (l0 l) * py (l1 l) - py (l0 l) * px (l1 l).
Fixpoint cross_sum (ls : list (seg2 R)) : R :=
  match ls with [] => 0 | l :: r => cross l + cross_sum r end.
Fixpoint sum_line_areas (ls : list (seg2 R)) : R :=
  match ls with [] => 0 | l :: r => Line_area ROps l + sum_line_areas r end.

Lemma shoelace_fold (ls : list (seg2 R)) (a : R) :
  fold_left (shoelace_step ROps) ls a = a + cross_sum ls.
Proof.
  revert a. induction ls as [| l r IH]; intro a; simpl.
  - ring.
  - rewrite IH. unfold shoelace_step, cross. simpl. ring.
Qed.

Lemma signed_area_lines_sum (ls : list (seg2 R)) : signed_area_lines ROps ls = cross_sum ls / 2.
Proof. unfold signed_area_lines. rewrite shoelace_fold. simpl. field. Qed.

Lemma cross_sum_app (a b : list (seg2 R)) : cross_sum (a ++ b) = cross_sum a + cross_sum b.
Proof. induction a as [| l r IH]; simpl; [ring | rewrite IH; ring]. Qed.

Lemma cross_line_area (l : seg2 R) :
  cross l = - 2 * Line_area ROps l + (px (l1 l) * py (l1 l) - px (l0 l) * py (l0 l)).
Proof. destruct_pts. rcbv. field. Qed.

(* ---- f. shoelace sum versus the per-edge areas ---- *)
Lemma chain_cross_sum (ls : list (seg2 R)) (p q : pt R) :
  chain_from p ls q ->
  cross_sum ls = - 2 * sum_line_areas ls + (px q * py q - px p * py p).
Proof.
  revert p. induction ls as [| l r IH]; intros p Hc; cbn [chain_from closed_chain cross_sum sum_line_areas map rev] in *.
  - subst q. ring.
  - destruct Hc as [Hp Hr]. rewrite (IH _ Hr), cross_line_area. subst p. ring.
Qed.

Theorem shoelace_is_minus_line_areas (ls : list (seg2 R)) :
  closed_chain ls -> signed_area_lines ROps ls = - sum_line_areas ls.
Proof.
  intro Hc. rewrite signed_area_lines_sum. destruct ls as [| l r]; cbn [chain_from closed_chain cross_sum sum_line_areas map rev] in *.
  - field.
  - rewrite (chain_cross_sum _ _ _ Hc), cross_line_area. field.
Qed.

(* open polylines: the difference is the boundary term *)
Theorem shoelace_open_chain (ls : list (seg2 R)) (p q : pt R) :
  chain_from p ls q ->
  signed_area_lines ROps ls = - sum_line_areas ls + (px q * py q - px p * py p) / 2.
Proof. intro Hc. rewrite signed_area_lines_sum, (chain_cross_sum _ _ _ Hc). field. Qed.

(* ---- g. reversal negates (all lists) and keeps closed chains closed ---- *)
Lemma cross_reversed (l : seg2 R) : cross (Line_reversed ROps l) = - cross l.
Proof. destruct_pts. rcbv. ring. Qed.

Lemma cross_sum_reverse (ls : list (seg2 R)) : cross_sum (reverse_lines ROps ls) = - cross_sum ls.
Proof.
  unfold reverse_lines. induction ls as [| l r IH]; simpl.
  - ring.
  - rewrite map_app, cross_sum_app, IH. simpl. rewrite cross_reversed. ring.
Qed.

Theorem signed_area_reverse_neg (ls : list (seg2 R)) :
  signed_area_lines ROps (reverse_lines ROps ls) = - signed_area_lines ROps ls.
Proof. rewrite !signed_area_lines_sum, cross_sum_reverse. field. Qed.

Lemma chain_from_app (a b : list (seg2 R)) (p m q : pt R) :
  chain_from p a m -> chain_from m b q -> chain_from p (a ++ b) q.
Proof.
  revert p. induction a as [| l r IH]; intros p Ha Hb; cbn [chain_from closed_chain cross_sum sum_line_areas map rev] in *.
  - subst m. exact Hb.
  - destruct Ha as [Hp Hr]. split; [exact Hp | exact (IH _ Hr Hb)].
Qed.

Lemma chain_from_reverse (ls : list (seg2 R)) (p q : pt R) :
  chain_from p ls q -> chain_from q (reverse_lines ROps ls) p.
Proof.
  unfold reverse_lines. revert p. induction ls as [| l r IH]; intros p Hc; cbn [chain_from closed_chain cross_sum sum_line_areas map rev] in *.
  - symmetry. exact Hc.
  - destruct Hc as [Hp Hr]. rewrite map_app. apply (chain_from_app _ _ _ (l1 l)).
    + exact (IH _ Hr).
    + simpl. split; [reflexivity | exact Hp].
Qed.

Lemma closed_chain_from (ls : list (seg2 R)) : closed_chain ls <-> (ls = [] \/ exists p, chain_from p ls p).
Proof.
  destruct ls as [| l r]; simpl.
  - split; auto.
  - split.
    + intro Hc. right. exists (l0 l). split; [reflexivity | exact Hc].
    + intros [Hn | [p [Hp Hc]]]; [discriminate | subst p; exact Hc].
Qed.

Theorem closed_chain_reverse (ls : list (seg2 R)) : closed_chain ls -> closed_chain (reverse_lines ROps ls).
Proof.
  intro Hc. apply closed_chain_from in Hc. apply closed_chain_from. destruct Hc as [-> | [p Hp]].
  - left. reflexivity.
  - right. exists p. apply chain_from_reverse. exact Hp.
Qed.

(* ---- h. translation (closed chains), rotation and scaling (all lists) ---- *)
Lemma chain_from_map (f : pt R -> pt R) (g : seg2 R -> seg2 R) :
  (forall l, l0 (g l) = f (l0 l)) -> (forall l, l1 (g l) = f (l1 l)) ->
  forall ls p q, chain_from p ls q -> chain_from (f p) (map g ls) (f q).
Proof.
  intros H0 H1. induction ls as [| l r IH]; intros p q Hc; cbn [chain_from closed_chain cross_sum sum_line_areas map rev] in *.
  - subst q. reflexivity.
  - destruct Hc as [Hp Hr]. split; [rewrite H0, Hp; reflexivity | rewrite H1; exact (IH _ _ Hr)].
Qed.

Lemma closed_chain_map (f : pt R -> pt R) (g : seg2 R -> seg2 R) :
  (forall l, l0 (g l) = f (l0 l)) -> (forall l, l1 (g l) = f (l1 l)) ->
  forall ls, closed_chain ls -> closed_chain (map g ls).
Proof.
  intros H0 H1 [| l r]; simpl; [auto | ].
  intro Hc. rewrite H0, H1. exact (chain_from_map f g H0 H1 _ _ _ Hc).
Qed.

Lemma cross_translated (l : seg2 R) (v : pt R) :
  cross (Line_translated ROps l v) =
  cross l + (py v * (px (l0 l) - px (l1 l)) + px v * (py (l1 l) - py (l0 l))).
Proof. destruct_pts. rcbv. ring. Qed.

Lemma chain_cross_sum_translated (v : pt R) (ls : list (seg2 R)) (p q : pt R) :
  chain_from p ls q ->
  cross_sum (map (fun l => Line_translated ROps l v) ls) =
  cross_sum ls + (py v * (px p - px q) + px v * (py q - py p)).
Proof.
  revert p. induction ls as [| l r IH]; intros p Hc; cbn [chain_from closed_chain cross_sum sum_line_areas map rev] in *.
  - subst q. ring.
  - destruct Hc as [Hp Hr]. rewrite (IH _ Hr), cross_translated. subst p. ring.
Qed.

Theorem signed_area_translate_inv (v : pt R) (ls : list (seg2 R)) :
  closed_chain ls ->
  signed_area_lines ROps (map (fun l => Line_translated ROps l v) ls) = signed_area_lines ROps ls.
Proof.
  intro Hc. rewrite !signed_area_lines_sum. destruct ls as [| l r]; cbn [chain_from closed_chain cross_sum sum_line_areas map rev] in *.
  - reflexivity.
  - rewrite (chain_cross_sum_translated v _ _ _ Hc), cross_translated. field.
Qed.

Theorem closed_chain_translate (v : pt R) (ls : list (seg2 R)) :
  closed_chain ls -> closed_chain (map (fun l => Line_translated ROps l v) ls).
Proof. apply (closed_chain_map (fun p => Point___add__ ROps p v)); intro l; reflexivity. Qed.

(* counter-clockwise rotation about the origin by the library's rotation matrix *)
Definition rotate_line (a : R) (l : seg2 R) : seg2 R :=
  L2 (Point_transformed ROps (l0 l) (Affine_rotation ROps a)) (Point_transformed ROps (l1 l) (Affine_rotation ROps a)).

Lemma rotation_is_ccw (a : R) (p : pt R) :
  Point_transformed ROps p (Affine_rotation ROps a) = P (cos a * px p - sin a * py p) (sin a * px p + cos a * py p).
Proof. destruct_pts. rcbv. rewrite cos_neg, sin_neg. apply pt_eq; ring. Qed.

(* Segment.transformed with the rotation matrix is the same thing *)
Lemma Line_transformed_rotation (a : R) (l : seg2 R) :
  Line_transformed ROps l (Affine_rotation ROps a) = rotate_line a l.
Proof. destruct_pts. reflexivity. Qed.

Lemma cross_rotated (a : R) (l : seg2 R) : cross (rotate_line a l) = cross l.
Proof.
  unfold rotate_line, cross. cbn [l0 l1]. rewrite !rotation_is_ccw. cbn [px py].
  destruct l as [[x0 y0] [x1 y1]]. cbn [l0 l1 px py].
  pose proof (sin2_cos2 a) as H. unfold Rsqr in H.
  transitivity ((sin a * sin a + cos a * cos a) * (x0 * y1 - y0 * x1)); [ring | rewrite H; ring].
Qed.

Lemma cross_sum_map_scale (g : seg2 R -> seg2 R) (c : R) :
  (forall l, cross (g l) = c * cross l) -> forall ls, cross_sum (map g ls) = c * cross_sum ls.
Proof. intros Hg. induction ls as [| l r IH]; simpl; [ring | rewrite IH, Hg; ring]. Qed.

Theorem signed_area_rotate_inv (a : R) (ls : list (seg2 R)) :
  signed_area_lines ROps (map (rotate_line a) ls) = signed_area_lines ROps ls.
Proof.
  rewrite !signed_area_lines_sum, (cross_sum_map_scale (rotate_line a) 1).
  - field.
  - intro l. rewrite cross_rotated. ring.
Qed.

Corollary signed_area_rotate_inv_transformed (a : R) (ls : list (seg2 R)) :
  signed_area_lines ROps (map (fun l => Line_transformed ROps l (Affine_rotation ROps a)) ls) = signed_area_lines ROps ls.
Proof.
  rewrite (map_ext _ (rotate_line a) (Line_transformed_rotation a) ls). apply signed_area_rotate_inv.
Qed.

Theorem closed_chain_rotate (a : R) (ls : list (seg2 R)) : closed_chain ls -> closed_chain (map (rotate_line a) ls).
Proof. apply (closed_chain_map (fun p => Point_transformed ROps p (Affine_rotation ROps a))); intro l; reflexivity. Qed.

Lemma cross_scaled (k : R) (l : seg2 R) : cross (Line_scaled ROps l k) = k * k * cross l.
Proof. destruct_pts. rcbv. ring. Qed.

Theorem signed_area_scale_sq (k : R) (ls : list (seg2 R)) :
  signed_area_lines ROps (map (fun l => Line_scaled ROps l k) ls) = k * k * signed_area_lines ROps ls.
Proof.
  rewrite !signed_area_lines_sum, (cross_sum_map_scale (fun l => Line_scaled ROps l k) (k * k)).
  - field.
  - intro l. apply cross_scaled.
Qed.

Theorem closed_chain_scale (k : R) (ls : list (seg2 R)) :
  closed_chain ls -> closed_chain (map (fun l => Line_scaled ROps l k) ls).
Proof. apply (closed_chain_map (fun p => Point___mul__ ROps p k)); intro l; reflexivity. Qed.

(* ---- i. area and direction ---- *)
Theorem area_abs (ls : list (seg2 R)) : area_lines ROps ls = Rabs (signed_area_lines ROps ls).
Proof. reflexivity. Qed.
Theorem area_nonneg (ls : list (seg2 R)) : 0 <= area_lines ROps ls.
Proof. rewrite area_abs. apply Rabs_pos. Qed.
Theorem area_reverse_inv (ls : list (seg2 R)) : area_lines ROps (reverse_lines ROps ls) = area_lines ROps ls.
Proof. rewrite !area_abs, signed_area_reverse_neg. apply Rabs_Ropp. Qed.
Theorem direction_sign (ls : list (seg2 R)) :
  (0 <= signed_area_lines ROps ls -> direction_lines ROps ls = 1) /\
  (signed_area_lines ROps ls < 0 -> direction_lines ROps ls = -1).
Proof.
  unfold direction_lines. cbn [copysign_ ROps ofZ]. rewrite Rabs_R1.
  destruct (Rle_dec 0 (signed_area_lines ROps ls)) as [Hle | Hn]; split; intro H; try reflexivity; lra.
Qed.
Theorem signed_area_is_direction_times_area (ls : list (seg2 R)) :
  signed_area_lines ROps ls = direction_lines ROps ls * area_lines ROps ls.
Proof.
  rewrite area_abs. destruct (direction_sign ls) as [Hp Hn].
  destruct (Rle_dec 0 (signed_area_lines ROps ls)) as [Hle | Hlt].
  - rewrite (Hp Hle), Rabs_pos_eq by exact Hle. ring.
  - assert (Hlt' : signed_area_lines ROps ls < 0) by lra.
    rewrite (Hn Hlt'), Rabs_left by exact Hlt'. ring.
Qed.

(* ---- j. the library's Rectangle(w, h, origin): tl -> tr -> br -> bl -> tl is clockwise, signed area -w*h ---- *)
Definition rectangle_chain (w h ox oy : R) : list (seg2 R) :=
  let tl := P (ox - w / 2) (oy + h / 2) in let tr := P (ox + w / 2) (oy + h / 2) in
  let br := P (ox + w / 2) (oy - h / 2) in let bl := P (ox - w / 2) (oy - h / 2) in
  [L2 tl tr; L2 tr br; L2 br bl; L2 bl tl].

Lemma Rectangle_lines_chain (w h ox oy : R) : Rectangle_lines ROps w h (P ox oy) = rectangle_chain w h ox oy.
Proof.
  unfold Rectangle_lines, rectangle_chain. rcbv.
  repeat (f_equal; try (apply pt_eq; field)).
Qed.

Theorem rectangle_closed (w h ox oy : R) : closed_chain (rectangle_chain w h ox oy).
Proof. simpl. repeat split. Qed.

Theorem rectangle_signed_area (w h ox oy : R) : signed_area_lines ROps (rectangle_chain w h ox oy) = - (w * h).
Proof. rcbv. field. Qed.

Corollary Rectangle_lines_signed_area (w h : R) (o : pt R) : signed_area_lines ROps (Rectangle_lines ROps w h o) = - (w * h).
Proof. destruct o as [ox oy]. rewrite Rectangle_lines_chain. apply rectangle_signed_area. Qed.

Corollary rectangle_area_direction (w h ox oy : R) : 0 < w -> 0 < h ->
  area_lines ROps (rectangle_chain w h ox oy) = w * h /\ direction_lines ROps (rectangle_chain w h ox oy) = -1.
Proof.
  intros Hw Hh. assert (Hwh : 0 < w * h) by (apply Rmult_lt_0_compat; assumption). split.
  - rewrite area_abs, rectangle_signed_area, Rabs_Ropp. apply Rabs_pos_eq. lra.
  - apply direction_sign. rewrite rectangle_signed_area. lra.
Qed.

(* ---- non-vacuity: a concrete closed counter-clockwise triangle (0,0) -> (4,0) -> (0,3) ---- *)
Definition triangle : list (seg2 R) := [L2 (P 0 0) (P 4 0); L2 (P 4 0) (P 0 3); L2 (P 0 3) (P 0 0)].
Example triangle_closed : closed_chain triangle.
Proof. simpl. repeat split. Qed.
Example triangle_signed_area : signed_area_lines ROps triangle = 6.
Proof. rcbv. field. Qed.
Example triangle_line_areas : sum_line_areas triangle = -6.
Proof. rcbv. field. Qed.
Example triangle_reversed_signed_area : signed_area_lines ROps (reverse_lines ROps triangle) = -6.
Proof. rewrite signed_area_reverse_neg, triangle_signed_area. reflexivity. Qed.
Example triangle_direction : direction_lines ROps triangle = 1 /\ area_lines ROps triangle = 6.
Proof.
  split.
  - apply direction_sign. rewrite triangle_signed_area. lra.
  - rewrite area_abs, triangle_signed_area. apply Rabs_pos_eq. lra.
Qed.
(* the same model text runs on binary64 *)
Example triangle_signed_area_float :
  signed_area_lines FOps [L2 (P 0 0) (P 4 0); L2 (P 4 0) (P 0 3); L2 (P 0 3) (P 0 0)]%float = 6%float.
Proof. vm_compute. reflexivity. Qed.
(* an open polyline is not covered by f: its shoelace value differs from minus the edge areas *)
Example open_chain_differs :
  signed_area_lines ROps [L2 (P 1 1) (P 2 2)] <> - sum_line_areas [L2 (P 1 1) (P 2 2)].
Proof. rcbv. lra. Qed.
(* Rectangle(10, 4, Point(3, 5)) on binary64: Python prints signed_area -40.0, direction -1.0 *)
Example rectangle_float :
  let r := Rectangle_lines FOps 10%float 4%float (P 3 5)%float in
  (signed_area_lines FOps r, direction_lines FOps r) = ((-40)%float, (-1)%float).
Proof. vm_compute. reflexivity. Qed.
