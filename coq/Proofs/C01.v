(* C01: evaluation and subdivision reproduce the Bezier polynomial (identities over the reals). *)
From Coq Require Import PrimFloat.
From Coq Require Import ZArith List Bool Reals Lra Lia.
From Coquelicot Require Import Coquelicot.
From BZ Require Import Base.Ops Proofs.Tactics Gen.Point Gen.Line Gen.Quad Gen.Cubic.
Import ListNotations.
Open Scope R_scope.

(* ---- independent specification: the Bernstein form  sum_i C(n,i) (1-t)^(n-i) t^i P_i ---- *)
Fixpoint binomial (n k : nat) : nat :=
  match n, k with
  | _, O => 1
  | O, S _ => 0
  | S n', S k' => binomial n' k' + binomial n' k
  end.
Fixpoint bern_sum (n : nat) (i : nat) (cs : list R) (t : R) : R :=
  match cs with
  | [] => 0
  | c :: r => INR (binomial n i) * (1 - t) ^ (n - i) * t ^ i * c + bern_sum n (S i) r t
  end.
Definition bern (ps : list (pt R)) (t : R) : pt R :=
  P (bern_sum (length ps - 1) 0 (map px ps) t) (bern_sum (length ps - 1) 0 (map py ps) t).

Lemma line_eval_bern (s : seg2 R) t : Line_pointAtTime ROps s t = bern [l0 s; l1 s] t.
Proof. destruct_pts. rcbv. apply pt_eq; ring. Qed.
Lemma quad_eval_bern (s : seg3 R) t : Quad_pointAtTime ROps s t = bern [q0 s; q1 s; q2 s] t.
Proof. destruct_pts. rcbv. apply pt_eq; ring. Qed.
Lemma cubic_eval_bern (s : seg4 R) t : Cubic_pointAtTime ROps s t = bern [c0 s; c1 s; c2 s; c3 s] t.
Proof. destruct_pts. rcbv. apply pt_eq; ring. Qed.

Lemma line_eval_0 (s : seg2 R) : Line_pointAtTime ROps s 0 = l0 s.
Proof. destruct_pts. rcbv. apply pt_eq; ring. Qed.
Lemma line_eval_1 (s : seg2 R) : Line_pointAtTime ROps s 1 = l1 s.
Proof. destruct_pts. rcbv. apply pt_eq; ring. Qed.
Lemma quad_eval_0 (s : seg3 R) : Quad_pointAtTime ROps s 0 = q0 s.
Proof. destruct_pts. rcbv. apply pt_eq; ring. Qed.
Lemma quad_eval_1 (s : seg3 R) : Quad_pointAtTime ROps s 1 = q2 s.
Proof. destruct_pts. rcbv. apply pt_eq; ring. Qed.
Lemma cubic_eval_0 (s : seg4 R) : Cubic_pointAtTime ROps s 0 = c0 s.
Proof. destruct_pts. rcbv. apply pt_eq; ring. Qed.
Lemma cubic_eval_1 (s : seg4 R) : Cubic_pointAtTime ROps s 1 = c3 s.
Proof. destruct_pts. rcbv. apply pt_eq; ring. Qed.

Ltac rcbv_derive :=
  match goal with |- is_derive ?f ?t ?d => let f' := rnorm f in let d' := rnorm d in change (is_derive f' t d') end.

(* ---- the derivative segment evaluates to the exact parametric derivative ---- *)
Lemma cubic_derivative_x (s : seg4 R) t :
  is_derive (fun u => px (Cubic_pointAtTime ROps s u)) t (px (Quad_pointAtTime ROps (Cubic_derivative ROps s) t)).
Proof. destruct_pts. rcbv_derive. auto_derive; [exact I | ring]. Qed.
Lemma cubic_derivative_y (s : seg4 R) t :
  is_derive (fun u => py (Cubic_pointAtTime ROps s u)) t (py (Quad_pointAtTime ROps (Cubic_derivative ROps s) t)).
Proof. destruct_pts. rcbv_derive. auto_derive; [exact I | ring]. Qed.
Lemma quad_derivative_x (s : seg3 R) t :
  is_derive (fun u => px (Quad_pointAtTime ROps s u)) t (px (Line_pointAtTime ROps (Quad_derivative ROps s) t)).
Proof. destruct_pts. rcbv_derive. auto_derive; [exact I | ring]. Qed.
Lemma quad_derivative_y (s : seg3 R) t :
  is_derive (fun u => py (Quad_pointAtTime ROps s u)) t (py (Line_pointAtTime ROps (Quad_derivative ROps s) t)).
Proof. destruct_pts. rcbv_derive. auto_derive; [exact I | ring]. Qed.

(* ---- splitting: the pieces meet at the point at t, keep the outer ends, and retrace the original ---- *)
Lemma line_split_meet (s : seg2 R) t :
  let '(a, b) := Line_splitAtTime ROps s t in
  l1 a = Line_pointAtTime ROps s t /\ l0 b = Line_pointAtTime ROps s t /\ l0 a = l0 s /\ l1 b = l1 s.
Proof. destruct_pts. rcbv. repeat split. Qed.
Lemma quad_split_meet (s : seg3 R) t :
  let '(a, b) := Quad_splitAtTime ROps s t in
  q2 a = Quad_pointAtTime ROps s t /\ q0 b = Quad_pointAtTime ROps s t /\ q0 a = q0 s /\ q2 b = q2 s.
Proof. destruct_pts. rcbv. repeat split; apply pt_eq; ring. Qed.
Lemma cubic_split_meet (s : seg4 R) t :
  let '(a, b) := Cubic_splitAtTime ROps s t in
  c3 a = Cubic_pointAtTime ROps s t /\ c0 b = Cubic_pointAtTime ROps s t /\ c0 a = c0 s /\ c3 b = c3 s.
Proof. destruct_pts. rcbv. repeat split; apply pt_eq; ring. Qed.

Lemma line_split_left (s : seg2 R) t u :
  Line_pointAtTime ROps (fst (Line_splitAtTime ROps s t)) u = Line_pointAtTime ROps s (u * t).
Proof. destruct_pts. rcbv. apply pt_eq; ring. Qed.
Lemma line_split_right (s : seg2 R) t u :
  Line_pointAtTime ROps (snd (Line_splitAtTime ROps s t)) u = Line_pointAtTime ROps s (t + u * (1 - t)).
Proof. destruct_pts. rcbv. apply pt_eq; ring. Qed.
Lemma quad_split_left (s : seg3 R) t u :
  Quad_pointAtTime ROps (fst (Quad_splitAtTime ROps s t)) u = Quad_pointAtTime ROps s (u * t).
Proof. destruct_pts. rcbv. apply pt_eq; ring. Qed.
Lemma quad_split_right (s : seg3 R) t u :
  Quad_pointAtTime ROps (snd (Quad_splitAtTime ROps s t)) u = Quad_pointAtTime ROps s (t + u * (1 - t)).
Proof. destruct_pts. rcbv. apply pt_eq; ring. Qed.
Lemma cubic_split_left (s : seg4 R) t u :
  Cubic_pointAtTime ROps (fst (Cubic_splitAtTime ROps s t)) u = Cubic_pointAtTime ROps s (u * t).
Proof. destruct_pts. rcbv. apply pt_eq; ring. Qed.
Lemma cubic_split_right (s : seg4 R) t u :
  Cubic_pointAtTime ROps (snd (Cubic_splitAtTime ROps s t)) u = Cubic_pointAtTime ROps s (t + u * (1 - t)).
Proof. destruct_pts. rcbv. apply pt_eq; ring. Qed.

Lemma lerp_spec (a b : pt R) t : Point_lerp ROps a b t = P ((1 - t) * px a + t * px b) ((1 - t) * py a + t * py b).
Proof. destruct_pts. rcbv. apply pt_eq; ring. Qed.

(* non-vacuity / sanity on the suite's quadratic (150,40)(80,30)(105,150): the split at 1/5 *)
Example quad_split_example :
  q1 (fst (Quad_splitAtTime ROps (Q3 (P 150 40) (P 80 30) (P 105 150)) (1/5))) = P 136 38.
Proof. rcbv. apply pt_eq; field. Qed.
