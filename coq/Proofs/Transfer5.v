(* Theorems about the path-level drivers REGENERATED in translator round 5 (Gen/PathOps.v), obtained by transporting theorems of the hand
   models through Proofs/Bridge5.v.  The subject of every statement is a function whose text is regenerated from the source.

   C20  BezierPath.distanceToPath, over the reals, default sample count, fuel >= 32, non-empty second path: a returned tuple
        (d, t1, t2, s1, s2) has s1 in the first path and s2 in the second, parameters in [0,1], and d is the distance between a point of
        s1 and a point of s2; hence d lies between any lower and upper bound of the point distances over all pairs of segments.  With an
        empty second path the regenerated function raises CPython's UnboundLocalError (or runs out of fuel first). *)
From Coq Require Import ZArith List Bool Reals Lra.
Import ListNotations.
From BZ Require Import Base.Ops Gen.Point Gen.BBox Gen.Line Gen.Quad Gen.Cubic Gen.Sample Gen.Split Gen.CurveCurve Gen.MinDist Gen.PathOps.
From BZ Require Import Hand.Bounds Hand.CurveCurve Hand.MinDist Proofs.C20 Proofs.Bridge2 Proofs.Bridge4 Proofs.Bridge5 Proofs.Transfer4.
Open Scope R_scope.

(* ---------------------------------------------------------------- C20: distanceToPath *)
Theorem gen_distanceToPath_belongs (fuel : nat) (segs1 segs2 : list (segment R)) d t1 t2 s1 s2 :
  (32 <= fuel)%nat -> segs2 <> [] ->
  Path_distanceToPath ROps fuel segs1 segs2 (ofZ ROps 10) = Some (Returns (d, t1, t2, s1, s2)) ->
  In s1 segs1 /\ In s2 segs2 /\ 0 <= t1 <= 1 /\ 0 <= t2 <= 1 /\ exists u' v', 0 <= u' <= 1 /\ 0 <= v' <= 1 /\ d = seg_dist s1 s2 u' v'.
Proof.
  intros Hf Hne Hg.
  destruct (distanceToPath_bridge_R fuel segs1 segs2 Hf sample_times_10_R) as [Hrel _].
  specialize (Hrel Hne). cbv zeta in Hrel. rewrite Hg in Hrel. cbn [dp_rel] in Hrel.
  exact (distanceToPath_segments_belong fuel segs1 segs2 d t1 t2 s1 s2 Hrel).
Qed.

Theorem gen_distanceToPath_bounds (fuel : nat) (segs1 segs2 : list (segment R)) d t1 t2 s1 s2 lo hi :
  (32 <= fuel)%nat -> segs2 <> [] ->
  (forall a b, In a segs1 -> In b segs2 -> forall u v, 0 <= u <= 1 -> 0 <= v <= 1 -> lo <= seg_dist a b u v <= hi) ->
  Path_distanceToPath ROps fuel segs1 segs2 (ofZ ROps 10) = Some (Returns (d, t1, t2, s1, s2)) -> 0 <= d /\ lo <= d <= hi.
Proof.
  intros Hf Hne Hb Hg.
  destruct (distanceToPath_bridge_R fuel segs1 segs2 Hf sample_times_10_R) as [Hrel _].
  specialize (Hrel Hne). cbv zeta in Hrel. rewrite Hg in Hrel. cbn [dp_rel] in Hrel.
  exact (path_dist_bounds fuel segs1 segs2 d t1 t2 s1 s2 lo hi Hb Hrel).
Qed.

(* an empty second path: CPython's UnboundLocalError (closestPair never assigned), or the fuel runs out first *)
Theorem gen_distanceToPath_empty (fuel : nat) (segs1 : list (segment R)) :
  (32 <= fuel)%nat ->
  let g := Path_distanceToPath ROps fuel segs1 [] (ofZ ROps 10) in g = None \/ g = Some (Raises PyUnboundLocalError).
Proof.
  intros Hf. destruct (distanceToPath_bridge_R fuel segs1 [] Hf sample_times_10_R) as [_ He].
  destruct (He eq_refl) as [_ Hg]. exact Hg.
Qed.
