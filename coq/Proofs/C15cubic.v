(* C15, the cubic lookup: theorems about the REGENERATED  Cubic_tOfPoint  (Gen/Lookup.v, translated by tools/py2v.py from
   CubicBezier.tOfPoint of cubicbezier.py) at the real instance.  No hand model of the lookup is involved; the only hand definitions
   used are the sampler Hand.Sample.regularSampleTValue, to which Proofs/Bridge2.v equates the regenerated Cubic_regularSampleTValue
   (Cubic_regularSampleTValue_gen), and the facts proved about it in Proofs/C16.v / Proofs/C16space.v.

       precision = 1/50; bestDist = float("inf"); bestT = -1
       for t in self.regularSampleTValue(50): dist = |B(t) - p|; if dist < bestDist: bestDist = dist; bestT = t
       while precision > 1e-5:
           precision /= 2; lower = max(bestT - precision, 0); upper = min(bestT + precision, 1)
           if |B(lower) - p| < bestDist: bestT, bestDist = lower, ..;  if |B(upper) - p| < bestDist: bestT, bestDist = upper, ..
       return bestT

   (B1)  Cubic_tOfPoint_range_best -- for EVERY cubic c, point p and fuel: if the call returns t (not out of fuel, no exception) then
             0 <= t <= 1,   the sampler returned some ts, every element of ts lies in [0,1], and
             |B(t) - p| <= |B(s) - p| for every regular sample parameter s in ts        (the search only ever improves).
         The case Cubic_length c = 0 (no samples, the scan leaves bestT = -1) is included: a cubic whose 24-node Gauss-Legendre length is 0
         is a single point (cubic_length_0_const), so the first refinement step moves bestT to 0 and nothing moves it out of [0,1] again.
   (B1') Cubic_tOfPoint_returns -- the call does return once the fuel exceeds the length and 50: non-vacuity of (B1).
   (B2)  Cubic_tOfPoint_on_curve -- for a gently parametrised cubic (0 < m <= |B'(u)| <= M <= 2 m on [0,1]) and a query point ON the curve,
         p = B(t0) with 0 <= t0 <= 1:
             |B(t) - B(t0)| <= (len / 50 + 2.001 + 4e-4 L) / 2        (len = Cubic_length c, L = the exact arc length of c)
         -- HALF the bound on the arc between consecutive regular samples (Proofs/C16space.v), because t0 lies between two consecutive samples
         and the nearer one is at most half that arc away, chord <= arc (C10flat.cubic_chord_le_arclen), and the result is at least as
         close as every sample.  Cubic_tOfPoint_on_curve_2pc: hence within 2% of L once L >= 103 (and within 2% of len, too). *)
From Coq Require Import Reals Lra Lia List Bool Psatz Sorted QArith Qreals.
From Coquelicot Require Import Coquelicot.
Import ListNotations.
From BZ Require Import Base.Ops Proofs.Tactics Gen.Point Gen.Line Gen.Quad Gen.Cubic Gen.Sample Gen.Lookup Hand.Sample
                       Proofs.C04 Proofs.C10flat Proofs.C16 Proofs.C04acc Proofs.C16space Proofs.Bridge2.
Open Scope R_scope.

(* ================================================================================================== *)
(* 0. The generated definition at the real instance                                                   *)
(* ================================================================================================== *)
Definition cdist (c : seg4 R) (p : pt R) (t : R) : R := Point_distanceFrom ROps (Cubic_pointAtTime ROps c t) p.

(* `e < bestDist` on R: None (+infinity) is above everything *)
Lemma ltb_xinf_R_None x : ltb_xinf ROps x None = true.
Proof. unfold ltb_xinf. cbn. destruct (Req_EM_T x x); [reflexivity|contradiction]. Qed.
Lemma ltb_xinf_R_Some x b : ltb_xinf ROps x (Some b) = if Rlt_dec x b then true else false.
Proof. reflexivity. Qed.

(* one pass of the refinement loop: the new (bestT, bestDist) for the halved precision q *)
Definition lo_of (bt q : R) : R := if Rlt_dec (bt - q) 0 then 0 else bt - q.
Definition hi_of (bt q : R) : R := if Rlt_dec 1 (bt + q) then 1 else bt + q.
Definition refine1 (c : seg4 R) (p : pt R) (q : R) (st : R * option R) : R * option R :=
  let lower := lo_of (fst st) q in let upper := hi_of (fst st) q in
  let st1 := if ltb_xinf ROps (cdist c p lower) (snd st) then (lower, Some (cdist c p lower)) else st in
  if ltb_xinf ROps (cdist c p upper) (snd st1) then (upper, Some (cdist c p upper)) else st1.

Lemma loop1_unfold fuel c p prec bt bd :
  Cubic_tOfPoint_loop1 ROps (S fuel) p c prec bt bd =
  if Rlt_dec (1 / 100000) prec
  then Cubic_tOfPoint_loop1 ROps fuel p c (prec / 2) (fst (refine1 c p (prec / 2) (bt, bd))) (snd (refine1 c p (prec / 2) (bt, bd)))
  else Some (prec, bt, bd).
Proof.
  cbn [Cubic_tOfPoint_loop1]. change (ltb ROps (lit ROps 1 100000 _) prec) with (if Rlt_dec (1 / 100000) prec then true else false).
  destruct (Rlt_dec (1 / 100000) prec) as [H|H]; [|reflexivity].
  unfold refine1, lo_of, hi_of, cdist. cbn [fst snd].
  change (dvd ROps prec (ofZ ROps 2)) with (prec / 2). change (ofZ ROps 0) with 0. change (ofZ ROps 1) with 1.
  change (sub ROps bt (prec / 2)) with (bt - prec / 2). change (add ROps bt (prec / 2)) with (bt + prec / 2).
  change (ltb ROps (bt - prec / 2) 0) with (if Rlt_dec (bt - prec / 2) 0 then true else false).
  change (ltb ROps 1 (bt + prec / 2)) with (if Rlt_dec 1 (bt + prec / 2) then true else false).
  destruct (Rlt_dec (bt - prec / 2) 0); destruct (Rlt_dec 1 (bt + prec / 2));
    match goal with |- context [ltb_xinf ROps ?x bd] => destruct (ltb_xinf ROps x bd) end; cbn [fst snd];
    match goal with |- context [ltb_xinf ROps ?x ?y] => destruct (ltb_xinf ROps x y) end; reflexivity.
Qed.

Lemma fold_left_ext2 {A B : Type} (f g : A -> B -> A) : (forall a b, f a b = g a b) -> forall l a, fold_left g l a = fold_left f l a.
Proof. intros H l. induction l as [|b l IH]; intro a; cbn [fold_left]; [reflexivity|]. rewrite H. apply IH. Qed.

(* the scan over the samples *)
Definition scan1 (c : seg4 R) (p : pt R) (st : option R * R) (t : R) : option R * R :=
  if ltb_xinf ROps (cdist c p t) (fst st) then (Some (cdist c p t), t) else st.

Lemma tOfPoint_unfold fuel c p :
  Cubic_tOfPoint ROps fuel c p =
  match Cubic_regularSampleTValue ROps fuel c 50 with
  | None => None
  | Some (Raises e) => Some (Raises e)
  | Some (Returns ts) =>
      let st := fold_left (scan1 c p) ts (None, -1) in
      match Cubic_tOfPoint_loop1 ROps fuel p c (1 / 50) (snd st) (fst st) with
      | None => None
      | Some (_, t, _) => Some (Returns t)
      end
  end.
Proof.
  unfold Cubic_tOfPoint. change (ofZ ROps 50) with 50.
  destruct (Cubic_regularSampleTValue ROps fuel c 50) as [[ts|e]|]; [|reflexivity|reflexivity].
  change (dvd ROps (lit ROps 1 1 _) (lit ROps 50 1 _)) with (1 / 1 / (50 / 1)). replace (1 / 1 / (50 / 1)) with (1 / 50) by field.
  change (ofZ ROps (-1)) with (-1).
  match goal with |- context [fold_left ?f ts (None, -1)] => replace (fold_left f ts (None, -1)) with (fold_left (scan1 c p) ts (None, -1)) end.
  - cbv zeta. destruct (fold_left (scan1 c p) ts (None, -1)) as [bd bt]. cbn [fst snd].
    destruct (Cubic_tOfPoint_loop1 ROps fuel p c (1 / 50) bt bd) as [[[a b] d]|]; reflexivity.
  - apply fold_left_ext2. intros [bd bt] t. unfold scan1, cdist. cbn [fst snd]. destruct (ltb_xinf ROps _ bd); reflexivity.
Qed.

(* ================================================================================================== *)
(* 1. The scan and the refinement loop keep "at least as close as every sample, and inside [0,1]"      *)
(* ================================================================================================== *)
Section Search.
Variable c : seg4 R.
Variable p : pt R.
Let d := cdist c p.

(* after the scan over [ts]: nothing seen yet, or the best so far is one of the samples and at least as close as all of them *)
Definition scan_ok (ts : list R) (st : option R * R) : Prop :=
  match fst st with
  | None => ts = [] /\ snd st = -1
  | Some x => x = d (snd st) /\ In (snd st) ts /\ List.Forall (fun s => d (snd st) <= d s) ts
  end.

Lemma scan_spec : forall ts pre st, scan_ok pre st -> scan_ok (pre ++ ts) (fold_left (scan1 c p) ts st).
Proof.
  induction ts as [|t ts IH]; intros pre st H; cbn [fold_left].
  - rewrite app_nil_r. exact H.
  - replace (pre ++ t :: ts) with ((pre ++ [t]) ++ ts) by (rewrite <- app_assoc; reflexivity). apply IH.
    destruct st as [[x|] bt]; unfold scan_ok, scan1 in *; cbn [fst snd] in *; fold d.
    + destruct H as (-> & Hin & Hall). rewrite ltb_xinf_R_Some. destruct (Rlt_dec (d t) (d bt)) as [Hlt|Hge]; cbn [fst snd].
      * split; [reflexivity|]. split; [apply in_or_app; right; left; reflexivity|]. apply Forall_app. split.
        -- eapply Forall_impl; [|exact Hall]. intros s Hs; cbv beta in Hs |- *; lra.
        -- constructor; [lra|constructor].
      * split; [reflexivity|]. split; [apply in_or_app; left; exact Hin|]. apply Forall_app. split; [exact Hall|].
        constructor; [lra|constructor].
    + destruct H as (-> & _). rewrite ltb_xinf_R_None. cbn [fst snd app]. split; [reflexivity|]. split; [left; reflexivity|].
      constructor; [lra|constructor].
Qed.

(* the state of the refinement loop *)
Definition inv (ts : list R) (bt : R) (bd : option R) : Prop :=
  0 <= bt <= 1 /\ bd = Some (d bt) /\ List.Forall (fun s => d bt <= d s) ts.

Lemma lo_of_range bt q : 0 <= q -> 0 <= bt <= 1 -> 0 <= lo_of bt q <= 1.
Proof. intros Hq Hb. unfold lo_of. destruct (Rlt_dec (bt - q) 0); lra. Qed.
Lemma hi_of_range bt q : 0 <= q -> 0 <= bt <= 1 -> 0 <= hi_of bt q <= 1.
Proof. intros Hq Hb. unfold hi_of. destruct (Rlt_dec 1 (bt + q)); lra. Qed.

Lemma improve_inv ts bt bd x : 0 <= x <= 1 -> inv ts bt bd ->
  let st := if ltb_xinf ROps (d x) bd then (x, Some (d x)) else (bt, bd) in inv ts (fst st) (snd st).
Proof.
  intros Hx (Hb & -> & Hall). cbv zeta. rewrite ltb_xinf_R_Some. destruct (Rlt_dec (d x) (d bt)) as [Hlt|Hge]; cbn [fst snd].
  - split; [exact Hx|]. split; [reflexivity|]. eapply Forall_impl; [|exact Hall]. intros s Hs; cbv beta in Hs |- *; lra.
  - split; [exact Hb|]. split; [reflexivity | exact Hall].
Qed.

Lemma refine1_inv ts q bt bd : 0 <= q -> inv ts bt bd ->
  inv ts (fst (refine1 c p q (bt, bd))) (snd (refine1 c p q (bt, bd))).
Proof.
  intros Hq H. unfold refine1. cbn [fst snd]. fold d.
  pose proof (improve_inv ts bt bd (lo_of bt q) (lo_of_range bt q Hq (proj1 H)) H) as H1. cbv zeta in H1.
  set (st1 := if ltb_xinf ROps (d (lo_of bt q)) bd then (lo_of bt q, Some (d (lo_of bt q))) else (bt, bd)) in *.
  destruct st1 as [bt1 bd1]. cbn [fst snd] in *.
  exact (improve_inv ts bt1 bd1 (hi_of bt q) (hi_of_range bt q Hq (proj1 H)) H1).
Qed.

Lemma loop1_inv ts : forall fuel prec bt bd pr t x, 0 <= prec -> inv ts bt bd ->
  Cubic_tOfPoint_loop1 ROps fuel p c prec bt bd = Some (pr, t, x) -> inv ts t x.
Proof.
  induction fuel as [|fuel IH]; intros prec bt bd pr t x Hp H E; [discriminate|].
  rewrite loop1_unfold in E. destruct (Rlt_dec (1 / 100000) prec).
  - eapply IH; [| |exact E]; [lra|]. apply refine1_inv; [lra | exact H].
  - inversion E; subst. exact H.
Qed.

(* a curve that is a single point: the first pass from the initial state (bestT = -1, bestDist = +infinity) lands on 0 *)
Lemma first_pass_const q : (forall t, d t = d 0) -> 0 < q < 1 -> refine1 c p q (-1, None) = (0, Some (d 0)).
Proof.
  intros Hc Hq. unfold refine1, lo_of, hi_of. cbn [fst snd]. fold d.
  destruct (Rlt_dec (-1 - q) 0); [|lra]. rewrite ltb_xinf_R_None. cbn [snd].
  rewrite ltb_xinf_R_Some. rewrite (Hc (if Rlt_dec 1 (-1 + q) then 1 else -1 + q)).
  destruct (Rlt_dec (d 0) (d 0)); [lra | reflexivity].
Qed.
End Search.

(* ================================================================================================== *)
(* 2. A cubic whose (24-node Gauss-Legendre) length is 0 is a single point                            *)
(* ================================================================================================== *)
Lemma pair_term_nonneg (f : R -> R) q : (forall t, 0 <= f t) -> half_ok q -> 0 <= pair_term f q.
Proof.
  intros Hf [Hc _]. unfold pair_term. pose proof (Hf (node (- fst q))). pose proof (Hf (node (fst q))). nra.
Qed.
Lemma sum_pair_nonneg (f : R -> R) l : (forall t, 0 <= f t) -> List.Forall half_ok l -> 0 <= sumR (map (pair_term f) l).
Proof.
  intros Hf Hl. induction Hl as [|q l Hq Hl IH]; cbn [map sumR fold_right]; [lra|].
  unfold sumR in IH. pose proof (pair_term_nonneg f q Hf Hq). lra.
Qed.
Lemma glh_zero_nodes (f : R -> R) : (forall t, 0 <= f t) -> forall l, List.Forall half_ok l -> glh l f = 0 ->
  List.Forall (fun q => f (node (- fst q)) = 0 /\ f (node (fst q)) = 0) l.
Proof.
  intros Hf l Hl. unfold glh. induction Hl as [|q l Hq Hl IH]; cbn [map sumR fold_right]; intro H; [constructor|].
  pose proof (sum_pair_nonneg f l Hf Hl) as Hs. unfold sumR in Hs, IH. pose proof (pair_term_nonneg f q Hf Hq) as Hp.
  constructor; [|apply IH; lra].
  assert (Hz : pair_term f q = 0) by lra. unfold pair_term in Hz. destruct Hq as [Hc _].
  pose proof (Hf (node (- fst q))). pose proof (Hf (node (fst q))). split; nra.
Qed.

(* a quadratic that vanishes at three distinct points is zero *)
Lemma quadratic_three_roots a b k t1 t2 t3 : t1 <> t2 -> t1 <> t3 -> t2 <> t3 ->
  a * (t1 * t1) + b * t1 + k = 0 -> a * (t2 * t2) + b * t2 + k = 0 -> a * (t3 * t3) + b * t3 + k = 0 -> a = 0 /\ b = 0 /\ k = 0.
Proof.
  intros H12 H13 H23 E1 E2 E3.
  assert (F12 : (t1 - t2) * (a * (t1 + t2) + b) = 0) by (ring_simplify; lra).
  assert (F13 : (t1 - t3) * (a * (t1 + t3) + b) = 0) by (ring_simplify; lra).
  apply Rmult_integral in F12. apply Rmult_integral in F13.
  destruct F12 as [F12|F12]; [lra|]. destruct F13 as [F13|F13]; [lra|].
  assert (Fa : (t2 - t3) * a = 0) by (ring_simplify; lra). apply Rmult_integral in Fa. destruct Fa as [Fa|Fa]; [lra|].
  subst a. split; [reflexivity|]. assert (b = 0) by lra. subst b. split; [reflexivity|]. lra.
Qed.

Lemma norm2_zero x y : norm2 x y = 0 -> x = 0 /\ y = 0.
Proof.
  unfold norm2. intro H. assert (Hs : x * x + y * y = 0).
  { apply sqrt_eq_0; [nra | exact H]. }
  split; nra.
Qed.

(* the first two entries of the half table have different abscissae *)
Lemma gl_half_two : exists q1 q2 rest, gl_half = q1 :: q2 :: rest /\ fst q1 < fst q2.
Proof.
  rewrite gl_half_Q2R. unfold gl_half_Q. cbn [map]. eexists _, _, _. split; [reflexivity|].
  unfold Q2R2. cbn [fst]. apply Qlt_Rlt. vm_compute. reflexivity.
Qed.

Theorem cubic_length_0_const (c : seg4 R) : Cubic_length ROps c = 0 -> forall t, Cubic_pointAtTime ROps c t = c0 c.
Proof.
  intros H0 t. rewrite cubic_length_speed, gl_length_glh in H0.
  assert (Hg : glh gl_half (cubic_speed c) = 0) by lra.
  pose proof (glh_zero_nodes (cubic_speed c) (fun u => norm2_nonneg _ _) gl_half gl_half_ok Hg) as Hn.
  destruct gl_half_two as (q1 & q2 & rest & Eq & Hlt). rewrite Eq in Hn.
  pose proof gl_half_ok as Hok. rewrite Eq in Hok. inversion Hok as [|? ? Hq1 Hok']; subst. inversion Hok' as [|? ? Hq2 _]; subst.
  inversion Hn as [|? ? [Ha Hb] Hn']; subst. inversion Hn' as [|? ? [_ Hc] _]; subst.
  destruct Hq1 as [_ Hq1]. destruct Hq2 as [_ Hq2].
  apply norm2_zero in Ha, Hb, Hc.
  set (t1 := node (- fst q1)) in *. set (t2 := node (fst q1)) in *. set (t3 := node (fst q2)) in *.
  assert (D12 : t1 <> t2) by (unfold t1, t2, node; lra).
  assert (D13 : t1 <> t3) by (unfold t1, t3, node; lra).
  assert (D23 : t2 <> t3) by (unfold t2, t3, node; lra).
  clearbody t1 t2 t3. clear Hn Hn' Hok Hok' Eq Hg H0.
  destruct c as [[x0 y0] [x1 y1] [x2 y2] [x3 y3]].
  destruct Ha as [Hax Hay], Hb as [Hbx Hby], Hc as [Hcx Hcy].
  unfold cubic_dx in Hax, Hbx, Hcx. unfold cubic_dy in Hay, Hby, Hcy. rcbv_in Hax. rcbv_in Hbx. rcbv_in Hcx. rcbv_in Hay. rcbv_in Hby. rcbv_in Hcy.
  destruct (quadratic_three_roots (3 * (x1 - x0) - 2 * (3 * (x2 - x1)) + 3 * (x3 - x2)) (2 * (3 * (x2 - x1)) - 2 * (3 * (x1 - x0))) (3 * (x1 - x0))
              t1 t2 t3 D12 D13 D23) as (A1 & A2 & A3); [ring_simplify; ring_simplify in Hax; lra | ring_simplify; ring_simplify in Hbx; lra
              | ring_simplify; ring_simplify in Hcx; lra |].
  destruct (quadratic_three_roots (3 * (y1 - y0) - 2 * (3 * (y2 - y1)) + 3 * (y3 - y2)) (2 * (3 * (y2 - y1)) - 2 * (3 * (y1 - y0))) (3 * (y1 - y0))
              t1 t2 t3 D12 D13 D23) as (B1 & B2 & B3); [ring_simplify; ring_simplify in Hay; lra | ring_simplify; ring_simplify in Hby; lra
              | ring_simplify; ring_simplify in Hcy; lra |].
  assert (x1 = x0) by lra. assert (x2 = x0) by lra. assert (x3 = x0) by lra.
  assert (y1 = y0) by lra. assert (y2 = y0) by lra. assert (y3 = y0) by lra. subst.
  rcbv. apply pt_eq; ring.
Qed.

(* ================================================================================================== *)
(* 3. (B1) the result lies in [0,1] and is at least as close to p as every regular sample             *)
(* ================================================================================================== *)
(* the regenerated sampler, through the bridge: on a cubic of non-zero length its result is the hand sampler's *)
Lemma sampler_hand fuel (c : seg4 R) ts : Cubic_length ROps c <> 0 ->
  Cubic_regularSampleTValue ROps fuel c 50 = Some (Returns ts) ->
  0 < Cubic_length ROps c /\
  regularSampleTValue ROps (fun t => Ok (Cubic_lengthAtTime ROps c t)) (Cubic_length ROps c) fuel fuel 50 = Ok ts.
Proof.
  intros Hne H. split.
  - pose proof (seg_length_nonneg (SCubic c)) as Hn. cbn [seg_length] in Hn. destruct Hn as [Hn|Hn]; [exact Hn | exfalso; apply Hne; symmetry; exact Hn].
  - assert (H50 : eqb ROps 50 (zero ROps) = false) by (apply Reqb_false; change (zero ROps) with 0; lra).
    rewrite <- (Cubic_regularSampleTValue_gen ROps lit_ok_R fuel c 50 H50), H. reflexivity.
Qed.
Lemma sampler_zero fuel (c : seg4 R) ts : Cubic_length ROps c = 0 ->
  Cubic_regularSampleTValue ROps fuel c 50 = Some (Returns ts) -> ts = [].
Proof.
  intros H0 H. unfold Cubic_regularSampleTValue in H. cbv zeta in H. rewrite H0 in H.
  change (eqb ROps 0 (ofZ ROps 0)) with (if Req_EM_T 0 0 then true else false) in H.
  destruct (Req_EM_T 0 0); [|contradiction]. inversion H. reflexivity.
Qed.

Theorem Cubic_tOfPoint_range_best (fuel : nat) (c : seg4 R) (p : pt R) (t : R) :
  Cubic_tOfPoint ROps fuel c p = Some (Returns t) ->
  0 <= t <= 1 /\
  exists ts, Cubic_regularSampleTValue ROps fuel c 50 = Some (Returns ts) /\
             List.Forall (fun s => 0 <= s <= 1) ts /\
             List.Forall (fun s => Point_distanceFrom ROps (Cubic_pointAtTime ROps c t) p
                                   <= Point_distanceFrom ROps (Cubic_pointAtTime ROps c s) p) ts.
Proof.
  intro H. rewrite tOfPoint_unfold in H.
  destruct (Cubic_regularSampleTValue ROps fuel c 50) as [[ts|e]|] eqn:Es; [|discriminate|discriminate].
  cbv zeta in H.
  destruct (Cubic_tOfPoint_loop1 ROps fuel p c (1 / 50) (snd (fold_left (scan1 c p) ts (None, -1))) (fst (fold_left (scan1 c p) ts (None, -1))))
    as [[[pr t'] x]|] eqn:El; [|discriminate]. inversion H; subst t'. clear H.
  assert (Hinv : inv c p ts t x /\ List.Forall (fun s => 0 <= s <= 1) ts).
  { destruct (Req_EM_T (Cubic_length ROps c) 0) as [H0|Hne].
    - (* no samples: the curve is a single point *)
      pose proof (sampler_zero fuel c ts H0 Es). subst ts. cbn [fold_left fst snd] in El.
      split; [|constructor].
      destruct fuel as [|fuel]; [discriminate|]. rewrite loop1_unfold in El.
      destruct (Rlt_dec (1 / 100000) (1 / 50)) as [_|Hn]; [|lra].
      assert (Hc : forall u, cdist c p u = cdist c p 0).
      { intro u. unfold cdist. rewrite !(cubic_length_0_const c H0). reflexivity. }
      rewrite (first_pass_const c p (1 / 50 / 2) Hc) in El by lra. cbn [fst snd] in El.
      eapply (loop1_inv c p []); [| |exact El]; [lra|]. split; [lra|]. split; [reflexivity|constructor].
    - destruct (sampler_hand fuel c ts Hne Es) as [Hpos Hh].
      destruct (regular_in_range_ordered _ _ _ _ _ _ Hpos Hh) as [Hr _].
      pose proof (regular_last_is_1 _ _ _ _ _ _ Hpos Hh) as Hl.
      split; [|exact Hr].
      pose proof (scan_spec c p ts [] (None, -1) (conj eq_refl eq_refl)) as Hs. cbn [app] in Hs.
      destruct (fold_left (scan1 c p) ts (None, -1)) as [bd bt]. cbn [fst snd] in El.
      unfold scan_ok in Hs. cbn [fst snd] in Hs. destruct bd as [x0|].
      + destruct Hs as (-> & Hin & Hall).
        eapply (loop1_inv c p ts); [| |exact El]; [lra|]. split; [|split; [reflexivity|exact Hall]].
        rewrite Forall_forall in Hr. exact (Hr bt Hin).
      + destruct Hs as [-> _]. discriminate. }
  destruct Hinv as [(Ht & _ & Hall) Hr]. split; [exact Ht|]. exists ts. split; [reflexivity|]. split; [exact Hr | exact Hall].
Qed.

(* ================================================================================================== *)
(* 3'. (B1') the call does return: fuel above the length and above 50 is enough                        *)
(* ================================================================================================== *)
(* the refinement loop halves the precision until it is <= 1e-5: from 1/50 that takes 11 passes *)
Lemma loop1_returns (c : seg4 R) (p : pt R) : forall k fuel prec bt bd, prec <= 1 / 100000 * 2 ^ k -> (k < fuel)%nat ->
  exists r, Cubic_tOfPoint_loop1 ROps fuel p c prec bt bd = Some r.
Proof.
  induction k as [|k IH]; intros fuel prec bt bd Hp Hf; (destruct fuel as [|fuel]; [lia|]); rewrite loop1_unfold.
  - destruct (Rlt_dec (1 / 100000) prec); [cbn [pow] in Hp; lra | eexists; reflexivity].
  - destruct (Rlt_dec (1 / 100000) prec); [|eexists; reflexivity]. apply IH; [|lia]. cbn [pow] in Hp. lra.
Qed.

Theorem Cubic_tOfPoint_returns (f : nat) (c : seg4 R) (p : pt R) :
  Cubic_length ROps c < INR f -> (50 <= f)%nat -> exists t, Cubic_tOfPoint ROps (S f) c p = Some (Returns t).
Proof.
  intros Hlen Hf. rewrite tOfPoint_unfold.
  assert (Hs : exists ts, Cubic_regularSampleTValue ROps (S f) c 50 = Some (Returns ts)).
  { destruct (Req_EM_T (Cubic_length ROps c) 0) as [H0|Hne].
    - exists []. unfold Cubic_regularSampleTValue. cbv zeta. rewrite H0.
      change (eqb ROps 0 (ofZ ROps 0)) with (if Req_EM_T 0 0 then true else false). destruct (Req_EM_T 0 0); [reflexivity|contradiction].
    - assert (Hpos : 0 < Cubic_length ROps c).
      { pose proof (seg_length_nonneg (SCubic c)) as Hn. cbn [seg_length] in Hn.
        destruct Hn as [Hn|Hn]; [exact Hn | exfalso; apply Hne; symmetry; exact Hn]. }
      assert (H50 : 50 <= INR f) by (apply le_INR in Hf; cbn -[INR] in Hf; replace 50 with (INR 50) by (cbn; lra); exact Hf).
      destruct (regular_no_raise (fun t => Ok (Cubic_lengthAtTime ROps c t)) (Cubic_length ROps c) f f 50 Hpos ltac:(lra) Hlen H50)
        as (l & Hl & _).
      + intros t _. eexists; reflexivity.
      + intros v Hv. rewrite cubic_lengthAt_0 in Hv. inversion Hv. lra.
      + exists l. assert (E50 : eqb ROps 50 (zero ROps) = false) by (apply Reqb_false; change (zero ROps) with 0; lra).
        pose proof (Cubic_regularSampleTValue_gen ROps lit_ok_R (S f) c 50 E50) as Hb. rewrite Hl in Hb.
        destruct (Cubic_regularSampleTValue ROps (S f) c 50) as [[ts|e]|]; cbn in Hb; [inversion Hb; reflexivity|discriminate|discriminate]. }
  destruct Hs as [ts ->]. cbv zeta.
  destruct (loop1_returns c p 11 (S f) (1 / 50) (snd (fold_left (scan1 c p) ts (None, -1))) (fst (fold_left (scan1 c p) ts (None, -1))))
    as [[[pr t] x] ->]; [cbn [pow]; lra | lia |]. exists t. reflexivity.
Qed.

(* ================================================================================================== *)
(* 4. (B2) a query point ON a gently parametrised cubic                                               *)
(* ================================================================================================== *)
Lemma dist_sym (a b : pt R) : Point_distanceFrom ROps a b = Point_distanceFrom ROps b a.
Proof. rewrite !distanceFrom_norm2. unfold norm2. f_equal. ring. Qed.

(* chord <= arc, as a distance between two points of the curve *)
Lemma cubic_dist_le_arclen (c : seg4 R) a b : a <= b ->
  Point_distanceFrom ROps (Cubic_pointAtTime ROps c a) (Cubic_pointAtTime ROps c b) <= cubic_arclen c a b.
Proof. intro H. exact (cubic_chord_le_arclen c a b H). Qed.

(* a parameter inside a fine partition is within HALF the bound, in arc length hence in distance, of one of the partition points *)
Lemma fine_partition_near (c : seg4 R) (D : R) : 0 <= D -> forall ts a b t0,
  fine_partition (cubic_arclen c) D a ts b -> a <= t0 <= b ->
  exists s, In s (a :: ts) /\ Point_distanceFrom ROps (Cubic_pointAtTime ROps c s) (Cubic_pointAtTime ROps c t0) <= D / 2.
Proof.
  intros HD. induction ts as [|t1 r IH]; intros a b t0 H Ht; cbn [fine_partition] in H.
  - subst b. assert (t0 = a) by lra. subst t0. exists a. split; [left; reflexivity|].
    pose proof (cubic_dist_le_arclen c a a ltac:(lra)) as Hc. rewrite cubic_arclen_point in Hc. lra.
  - destruct H as (Ha1 & Hd & Hr). destruct (Rle_lt_dec t0 t1) as [Hle|Hgt].
    + pose proof (cubic_arclen_Chasles c a t0 t1) as Hch.
      pose proof (cubic_arclen_nonneg c a t0 ltac:(lra)) as N1. pose proof (cubic_arclen_nonneg c t0 t1 Hle) as N2.
      destruct (Rle_lt_dec (cubic_arclen c a t0) (D / 2)) as [Hn|Hf].
      * exists a. split; [left; reflexivity|]. pose proof (cubic_dist_le_arclen c a t0 ltac:(lra)). lra.
      * exists t1. split; [right; left; reflexivity|]. rewrite dist_sym. pose proof (cubic_dist_le_arclen c t0 t1 Hle). lra.
    + destruct (IH t1 b t0 Hr ltac:(lra)) as (s & Hin & Hs). exists s. split; [right; exact Hin | exact Hs].
Qed.

Section GentleLookup.
Variable c : seg4 R.
Variables m M : R.
Hypothesis Hm : 0 < m.
Hypothesis Hsp : forall u, 0 <= u <= 1 -> m <= cubic_speed c u <= M.
Hypothesis HM : M <= 2 * m.

(* the regular samples of the REGENERATED sampler, any fuel: a fine partition of [0,1] in exact arc length (C16space.cubic_regular_spacing_const,
   restated for the generated definition through the bridge) *)
Lemma gen_regular_spacing fuel samples ts : 0 < samples ->
  Cubic_regularSampleTValue ROps fuel c samples = Some (Returns ts) ->
  fine_partition_01 (cubic_arclen c) (Cubic_length ROps c / samples + 2001 / 1000 + 4 / 10 ^ 4 * cubic_arclen c 0 1) ts.
Proof.
  intros Hn Hg. pose proof (gentle_len_pos c m M Hm Hsp HM) as Hp. pose proof (gentle_L_ge_m c m M Hsp) as HL.
  assert (Hh : regularSampleTValue ROps (fun t => Ok (Cubic_lengthAtTime ROps c t)) (Cubic_length ROps c) fuel fuel samples = Ok ts).
  { assert (E : eqb ROps samples (zero ROps) = false) by (apply Reqb_false; change (zero ROps) with 0; lra).
    rewrite <- (Cubic_regularSampleTValue_gen ROps lit_ok_R fuel c samples E), Hg. reflexivity. }
  assert (He : 0 <= 2 / 10 ^ 4 * cubic_arclen c 0 1) by (rewrite pow10_4; lra).
  pose proof (cubic_length_accuracy_2 c m M Hm Hsp HM) as H1.
  destruct (regular_fine_partition (fun t => Ok (Cubic_lengthAtTime ROps c t)) (Cubic_length ROps c) (fun t => cubic_arclen c 0 t)
              (2 / 10 ^ 4 * cubic_arclen c 0 1) M samples Hp Hn He (gentle_M_nonneg c m M Hm Hsp) (gentle_acc c m M Hm Hsp HM) H1
              (gentle_lip c m M Hsp) _ _ ts Hh) as (t0 & r & -> & F).
  assert (H0 : hd_error (t0 :: r) = Some 0).
  { apply (regular_first_is_0 (fun t => Ok (Cubic_lengthAtTime ROps c t)) (Cubic_length ROps c) fuel fuel samples (t0 :: r) Hp); [|exact Hh].
    intros v Hv. rewrite cubic_lengthAt_0 in Hv. inversion Hv. lra. }
  inversion H0; subst t0. cbn [fine_partition_01]. split; [reflexivity|].
  pose proof (gentle_table_step c m M Hm Hsp HM) as Hstep.
  refine (fine_partition_weaken _ _ _ _ (cubic_arclen_diff c) _ _ _ _ F). rewrite pow10_4 in *. lra.
Qed.

Theorem Cubic_tOfPoint_on_curve (fuel : nat) (t0 t : R) : 0 <= t0 <= 1 ->
  Cubic_tOfPoint ROps fuel c (Cubic_pointAtTime ROps c t0) = Some (Returns t) ->
  0 <= t <= 1 /\
  Point_distanceFrom ROps (Cubic_pointAtTime ROps c t) (Cubic_pointAtTime ROps c t0)
    <= (Cubic_length ROps c / 50 + 2001 / 1000 + 4 / 10 ^ 4 * cubic_arclen c 0 1) / 2.
Proof.
  intros Ht0 H. destruct (Cubic_tOfPoint_range_best fuel c _ t H) as (Ht & ts & Hs & _ & Hbest). split; [exact Ht|].
  pose proof (gen_regular_spacing fuel 50 ts ltac:(lra) Hs) as F.
  destruct ts as [|a r]; [destruct F|]. destruct F as [-> F].
  pose proof (gentle_len_pos c m M Hm Hsp HM) as Hp. pose proof (gentle_L_ge_m c m M Hsp) as HL.
  assert (HD : 0 <= Cubic_length ROps c / 50 + 2001 / 1000 + 4 / 10 ^ 4 * cubic_arclen c 0 1).
  { rewrite pow10_4. assert (0 <= Cubic_length ROps c / 50) by (apply Rle_mult_inv_pos; lra). lra. }
  destruct (fine_partition_near c _ HD r 0 1 t0 F Ht0) as (s & Hin & Hsd).
  rewrite Forall_forall in Hbest. specialize (Hbest s Hin). lra.
Qed.

(* ... hence within 2% of the length once the curve is at least 103 long (0.010202 L + 1.0005 <= 0.019996 L from L = 102.2 on) *)
Corollary Cubic_tOfPoint_on_curve_2pc (fuel : nat) (t0 t : R) : 0 <= t0 <= 1 -> 103 <= cubic_arclen c 0 1 ->
  Cubic_tOfPoint ROps fuel c (Cubic_pointAtTime ROps c t0) = Some (Returns t) ->
  Point_distanceFrom ROps (Cubic_pointAtTime ROps c t) (Cubic_pointAtTime ROps c t0) <= 2 / 100 * cubic_arclen c 0 1 /\
  Point_distanceFrom ROps (Cubic_pointAtTime ROps c t) (Cubic_pointAtTime ROps c t0) <= 2 / 100 * Cubic_length ROps c.
Proof.
  intros Ht0 HL H. destruct (Cubic_tOfPoint_on_curve fuel t0 t Ht0 H) as [_ Hd].
  pose proof (gentle_len_bounds c m M Hm Hsp HM) as [Hlo Hhi]. rewrite pow10_4 in Hd. split; lra.
Qed.
(* the same with the threshold on the computed (Gauss-Legendre) length *)
Corollary Cubic_tOfPoint_on_curve_2pc_len (fuel : nat) (t0 t : R) : 0 <= t0 <= 1 -> 103 <= Cubic_length ROps c ->
  Cubic_tOfPoint ROps fuel c (Cubic_pointAtTime ROps c t0) = Some (Returns t) ->
  Point_distanceFrom ROps (Cubic_pointAtTime ROps c t) (Cubic_pointAtTime ROps c t0) <= 2 / 100 * Cubic_length ROps c.
Proof.
  intros Ht0 HL H. destruct (Cubic_tOfPoint_on_curve fuel t0 t Ht0 H) as [_ Hd].
  pose proof (gentle_len_bounds c m M Hm Hsp HM) as [Hlo Hhi]. rewrite pow10_4 in Hd. lra.
Qed.
End GentleLookup.

(* Non-vacuity: the arch (0,0) (0,100) (100,100) (100,0) is gentle (150 <= speed <= 300), 200 long; with fuel 302 the lookup of every point of the
   curve returns a parameter whose point is within 2% of the length (4 units) of the query point *)
Example arch100_lookup (t0 : R) : 0 <= t0 <= 1 ->
  exists t, Cubic_tOfPoint ROps 302 (C10flat.arch 100) (Cubic_pointAtTime ROps (C10flat.arch 100) t0) = Some (Returns t) /\ 0 <= t <= 1 /\
            Point_distanceFrom ROps (Cubic_pointAtTime ROps (C10flat.arch 100) t) (Cubic_pointAtTime ROps (C10flat.arch 100) t0) <= 4.
Proof.
  intro Ht0. set (c := C10flat.arch 100).
  assert (G : forall u, 0 <= u <= 1 -> 150 <= cubic_speed c u <= 300).
  { intros u Hu. destruct (arch_gentle 100 ltac:(lra) u Hu). unfold c. lra. }
  assert (EL : cubic_arclen c 0 1 = 200) by (unfold c; rewrite arch_arclen by lra; lra).
  pose proof (gentle_len_bounds c 150 300 ltac:(lra) G ltac:(lra)) as [Hlo Hhi]. rewrite EL in Hlo, Hhi.
  assert (I301 : INR 301 = 301) by (rewrite INR_IZR_INZ; reflexivity).
  destruct (Cubic_tOfPoint_returns 301 c (Cubic_pointAtTime ROps c t0)) as [t Hr]; [rewrite I301; lra | lia |].
  exists t. split; [exact Hr|].
  destruct (Cubic_tOfPoint_on_curve c 150 300 ltac:(lra) G ltac:(lra) 302 t0 t Ht0 Hr) as [Ht _]. split; [exact Ht|].
  destruct (Cubic_tOfPoint_on_curve_2pc c 150 300 ltac:(lra) G ltac:(lra) 302 t0 t Ht0 ltac:(lra) Hr) as [Hd _]. rewrite EL in Hd. lra.
Qed.
