(* C10flat: the flattening error of BezierPath.signed_area over the reals.
   signed_area replaces every curve by chords between points ON the curve (parameters 0 = t_0 <= ... <= t_n = 1) and
   applies the shoelace formula.  Here:
   (1) for any C1 plane curve (x, y), the signed area between the arc over [a,b] and its chord,
         integral_a^b y x' dt - Line_area(chord),  is at most  (arc length of the piece)^2 / 4  in absolute value;
   (2) for a sorted partition whose pieces all have arc length <= d the total defect is <= d/4 * (arc length);
   (3) for a closed chain of lines / quadratics / cubics flattened that way, the shoelace value of the chords differs
       from the exact Green area  - sum X_area  by at most  d/4 * (total arc length)  (<= 10 * length when d <= 40).
   "arc length" is the exact one, RInt of the speed sqrt(x'^2 + y'^2). *)
From Coq Require Import ZArith List Bool Reals Lra Lia Psatz.
From Coquelicot Require Import Coquelicot.
From BZ Require Import Base.Ops Proofs.Tactics Gen.Point Gen.Line Gen.Quad Gen.Cubic Hand.Shoelace.
From BZ Require Import Proofs.C01 Proofs.C04 Proofs.C10.
Import ListNotations.
Open Scope R_scope.

(* ================================================================================================== *)
(* Part 0: small facts                                                                                *)
(* ================================================================================================== *)
Lemma continuous_norm2 (f g : R -> R) (t : R) :
  continuous f t -> continuous g t -> continuous (fun u => norm2 (f u) (g u)) t.
Proof.
  intros Hf Hg. unfold norm2.
  apply (continuous_comp (fun u => f u * f u + g u * g u) sqrt).
  - apply (continuous_plus (fun u => f u * f u) (fun u => g u * g u)).
    + apply (continuous_mult f f); assumption.
    + apply (continuous_mult g g); assumption.
  - apply continuity_pt_filterlim. apply continuity_pt_sqrt. nra.
Qed.

Lemma norm2_swap_neg a b : norm2 b (- a) = norm2 a b.
Proof. apply norm2_eq. ring. Qed.

(* from N * N <= N * S with N, S >= 0 to N <= S *)
Lemma sq_le_cancel N S : 0 <= N -> 0 <= S -> N * N <= N * S -> N <= S.
Proof.
  intros HN HS H. destruct (Rle_lt_or_eq_dec 0 N HN) as [Hpos | <-]; [ | exact HS].
  apply (Rmult_le_reg_l N); assumption.
Qed.

Lemma is_derive_eq (f : R -> R) (t d d' : R) : is_derive f t d -> d = d' -> is_derive f t d'.
Proof. intros H <-. exact H. Qed.
Lemma is_derive_shift (f : R -> R) (t d c : R) : is_derive f t d -> is_derive (fun s => f s - c) t d.
Proof.
  intro H. apply is_derive_eq with (minus d zero).
  - apply (@is_derive_minus R_AbsRing R_NormedModule f (fun _ => c) t d zero H). apply is_derive_const.
  - unfold minus, plus, opp, zero; simpl. ring.
Qed.
Lemma is_derive_mult_R (f g : R -> R) (t df dg : R) :
  is_derive f t df -> is_derive g t dg -> is_derive (fun s => f s * g s) t (df * g t + f t * dg).
Proof.
  intros Hf Hg. apply (is_derive_mult f g t df dg); try assumption. intros n m. apply Rmult_comm.
Qed.
Lemma is_derive_lin2 (f g : R -> R) (u v t df dg : R) :
  is_derive f t df -> is_derive g t dg -> is_derive (fun s => u * f s + v * g s) t (u * df + v * dg).
Proof.
  intros Hf Hg.
  apply (@is_derive_plus R_AbsRing R_NormedModule (fun s => u * f s) (fun s => v * g s)); apply is_derive_scal; assumption.
Qed.

Lemma sum_line_areas_app (a b : list (seg2 R)) : sum_line_areas (a ++ b) = sum_line_areas a + sum_line_areas b.
Proof. induction a as [| l r IH]; simpl; [ring | rewrite IH; ring]. Qed.

(* ================================================================================================== *)
(* Partitions and their chords, for any point function g and any "length of the piece [a,b]" function  *)
(* ================================================================================================== *)
(* the chords through the points at t0, then at the parameters of ts *)
Fixpoint chords_from (g : R -> pt R) (t0 : R) (ts : list R) : list (seg2 R) :=
  match ts with
  | [] => []
  | t1 :: r => L2 (g t0) (g t1) :: chords_from g t1 r
  end.
(* t0 <= t1 <= ... <= last = tn, and every piece [t_i, t_i+1] has length at most d *)
Fixpoint fine_partition (len : R -> R -> R) (d : R) (t0 : R) (ts : list R) (tn : R) : Prop :=
  match ts with
  | [] => t0 = tn
  | t1 :: r => t0 <= t1 /\ len t0 t1 <= d /\ fine_partition len d t1 r tn
  end.

Lemma fine_partition_le len d t0 ts tn : fine_partition len d t0 ts tn -> t0 <= tn.
Proof.
  revert t0. induction ts as [| t1 r IH]; intros t0 H; cbn [fine_partition] in H.
  - subst. lra.
  - destruct H as [H01 [_ Hr]]. specialize (IH _ Hr). lra.
Qed.

Lemma chords_from_chain g len d t0 ts tn :
  fine_partition len d t0 ts tn -> chain_from (g t0) (chords_from g t0 ts) (g tn).
Proof.
  revert t0. induction ts as [| t1 r IH]; intros t0 H; cbn [fine_partition chords_from chain_from] in *.
  - subst. reflexivity.
  - destruct H as [_ [_ Hr]]. split; [reflexivity | exact (IH _ Hr)].
Qed.

(* ================================================================================================== *)
(* Part 1: any C1 plane curve                                                                         *)
(* ================================================================================================== *)
Section Curve.
Variables x y x' y' : R -> R.
Hypothesis Dx : forall t, is_derive x t (x' t).
Hypothesis Dy : forall t, is_derive y t (y' t).
Hypothesis Cx' : forall t, continuous x' t.
Hypothesis Cy' : forall t, continuous y' t.

Definition speed (t : R) : R := norm2 (x' t) (y' t).
Definition arclen (a b : R) : R := RInt speed a b.
Definition ydx (t : R) : R := y t * x' t.
Definition gpt (t : R) : pt R := P (x t) (y t).
Definition chord (a b : R) : seg2 R := L2 (gpt a) (gpt b).
(* the signed area between the arc over [a,b] and its chord *)
Definition arc_chord_area (a b : R) : R := RInt ydx a b - Line_area ROps (chord a b).

Lemma Cx t : continuous x t.
Proof. apply (@ex_derive_continuous R_AbsRing R_NormedModule x t). exists (x' t). apply Dx. Qed.
Lemma Cy t : continuous y t.
Proof. apply (@ex_derive_continuous R_AbsRing R_NormedModule y t). exists (y' t). apply Dy. Qed.

Lemma speed_cont t : continuous speed t.
Proof. apply continuous_norm2; [apply Cx' | apply Cy']. Qed.
Lemma speed_nonneg t : 0 <= speed t.
Proof. apply norm2_nonneg. Qed.

Lemma arclen_is a b : is_RInt speed a b (arclen a b).
Proof. apply (@RInt_correct R_CompleteNormedModule speed a b). apply (@ex_RInt_continuous R_CompleteNormedModule). intros z _. apply speed_cont. Qed.
Lemma arclen_nonneg a b : a <= b -> 0 <= arclen a b.
Proof.
  intro Hab. apply (is_RInt_ge_0 speed a b _ Hab (arclen_is a b)). intros t _. apply speed_nonneg.
Qed.
Lemma arclen_Chasles a b c : arclen a b + arclen b c = arclen a c.
Proof.
  symmetry. apply is_RInt_unique. apply (is_RInt_Chasles speed a b c); apply arclen_is.
Qed.
Lemma arclen_point a : arclen a a = 0.
Proof. apply is_RInt_unique. apply (is_RInt_point speed a). Qed.
Lemma arclen_derive a t : is_derive (arclen a) t (speed t).
Proof.
  apply (is_derive_RInt speed (arclen a) a t).
  - apply filter_forall. intro b. apply arclen_is.
  - apply speed_cont.
Qed.

Lemma ydx_cont t : continuous ydx t.
Proof. apply (continuous_mult y x'); [apply Cy | apply Cx']. Qed.
Lemma ydx_is a b : is_RInt ydx a b (RInt ydx a b).
Proof. apply (@RInt_correct R_CompleteNormedModule ydx a b). apply (@ex_RInt_continuous R_CompleteNormedModule). intros z _. apply ydx_cont. Qed.

(* projection on any direction (u, v): the displacement is at most |(u,v)| * arc length *)
Lemma proj_le_arclen (u v a t : R) : a <= t ->
  u * (x t - x a) + v * (y t - y a) <= norm2 u v * arclen a t.
Proof.
  intro Hat.
  assert (H1 : is_RInt (fun s => u * x' s + v * y' s) a t (u * (x t - x a) + v * (y t - y a))).
  { replace (u * (x t - x a) + v * (y t - y a)) with (minus (u * x t + v * y t) (u * x a + v * y a))
      by (unfold minus, plus, opp; simpl; ring).
    apply (is_RInt_derive (fun s => u * x s + v * y s) (fun s => u * x' s + v * y' s)).
    - intros s _. apply is_derive_lin2; [apply Dx | apply Dy].
    - intros s _. apply (continuous_plus (fun s => u * x' s) (fun s => v * y' s)).
      + apply (continuous_scal_r u x'). apply Cx'.
      + apply (continuous_scal_r v y'). apply Cy'. }
  assert (H2 : is_RInt (fun s => norm2 u v * speed s) a t (norm2 u v * arclen a t)).
  { apply (is_RInt_scal speed a t (norm2 u v)). apply arclen_is. }
  apply (is_RInt_le _ _ a t _ _ Hat H1 H2).
  intros s _. unfold speed. apply cauchy.
Qed.

(* chord <= arc *)
Lemma chord_le_arclen (a t : R) : a <= t -> norm2 (x t - x a) (y t - y a) <= arclen a t.
Proof.
  intro Hat. apply sq_le_cancel; [apply norm2_nonneg | apply arclen_nonneg; exact Hat | ].
  rewrite norm2_sqr. apply proj_le_arclen. exact Hat.
Qed.

(* the arc-chord area is half the integral of the cross product (gamma - gamma(a)) x gamma' *)
Lemma arc_chord_area_is a b :
  is_RInt (fun t => / 2 * ((y t - y a) * x' t - (x t - x a) * y' t)) a b (arc_chord_area a b).
Proof.
  pose (H := fun t => y a * x t + / 2 * ((x t - x a) * (y t - y a))).
  pose (dH := fun t => y a * x' t + / 2 * (x' t * (y t - y a) + (x t - x a) * y' t)).
  assert (HH : is_RInt dH a b (Line_area ROps (chord a b))).
  { replace (Line_area ROps (chord a b)) with (minus (H b) (H a))
      by (unfold H, chord, gpt, minus, plus, opp; rcbv; field).
    apply (is_RInt_derive H dH).
    - intros t _. unfold H, dH.
      apply (is_derive_lin2 x (fun t => (x t - x a) * (y t - y a)) (y a) (/ 2)); [apply Dx | ].
      apply (is_derive_mult_R (fun t => x t - x a) (fun t => y t - y a)).
      + apply (is_derive_shift x t (x' t) (x a)). apply Dx.
      + apply (is_derive_shift y t (y' t) (y a)). apply Dy.
    - intros t _. unfold dH.
      apply (continuous_plus (fun t => y a * x' t) (fun t => / 2 * (x' t * (y t - y a) + (x t - x a) * y' t))).
      + apply (continuous_scal_r (y a) x'). apply Cx'.
      + apply (continuous_scal_r (/ 2) (fun t => x' t * (y t - y a) + (x t - x a) * y' t)).
        apply (continuous_plus (fun t => x' t * (y t - y a)) (fun t => (x t - x a) * y' t)).
        * apply (continuous_mult x' (fun t => y t - y a)); [apply Cx' | ].
          apply (continuous_minus y (fun _ => y a)); [apply Cy | apply continuous_const].
        * apply (continuous_mult (fun t => x t - x a) y'); [ | apply Cy'].
          apply (continuous_minus x (fun _ => x a)); [apply Cx | apply continuous_const]. }
  unfold arc_chord_area.
  eapply is_RInt_ext; [ | apply (is_RInt_minus ydx dH a b _ _ (ydx_is a b) HH)].
  intros t _. unfold ydx, dH, minus, plus, opp; simpl. field.
Qed.

(* integral of sigma * sigma' with sigma(t) = arc length from a to t *)
Lemma arclen_speed_is a b :
  is_RInt (fun t => / 2 * (arclen a t * speed t)) a b (arclen a b * arclen a b / 4).
Proof.
  pose (F := fun t => / 4 * (arclen a t * arclen a t)).
  replace (arclen a b * arclen a b / 4) with (minus (F b) (F a))
    by (unfold F, minus, plus, opp; simpl; rewrite arclen_point; field).
  apply (is_RInt_derive F).
  - intros t _. unfold F.
    apply is_derive_eq with (/ 4 * (speed t * arclen a t + arclen a t * speed t)); [ | field].
    apply is_derive_scal. apply (is_derive_mult_R (arclen a) (arclen a)); apply arclen_derive.
  - intros t _. apply (continuous_scal_r (/ 2) (fun t => arclen a t * speed t)).
    apply (continuous_mult (arclen a) speed); [ | apply speed_cont].
    apply (@ex_derive_continuous R_AbsRing R_NormedModule (arclen a) t). exists (speed t). apply arclen_derive.
Qed.

(* (1) the arc-chord area bound *)
Theorem arc_chord_area_bound a b : a <= b ->
  Rabs (arc_chord_area a b) <= arclen a b * arclen a b / 4.
Proof.
  intro Hab.
  assert (Hpt : forall t, a < t < b ->
    Rabs (/ 2 * ((y t - y a) * x' t - (x t - x a) * y' t)) <= / 2 * (arclen a t * speed t)).
  { intros t [Hat _].
    rewrite Rabs_mult, (Rabs_pos_eq (/ 2)) by lra.
    apply Rmult_le_compat_l; [lra | ].
    replace ((y t - y a) * x' t - (x t - x a) * y' t) with ((y t - y a) * x' t + - (x t - x a) * y' t) by ring.
    eapply Rle_trans; [apply cauchy_abs | ].
    rewrite norm2_swap_neg. fold (speed t).
    apply Rmult_le_compat_r; [apply speed_nonneg | apply chord_le_arclen; lra]. }
  apply Rabs_le. split.
  - apply Ropp_le_cancel. rewrite Ropp_involutive.
    apply (is_RInt_le _ _ a b _ _ Hab (is_RInt_opp _ _ _ _ (arc_chord_area_is a b)) (arclen_speed_is a b)).
    intros t Ht. specialize (Hpt t Ht). apply abs_le_inv in Hpt. unfold opp; simpl. lra.
  - apply (is_RInt_le _ _ a b _ _ Hab (arc_chord_area_is a b) (arclen_speed_is a b)).
    intros t Ht. specialize (Hpt t Ht). apply abs_le_inv in Hpt. lra.
Qed.

(* ---- (2) partitions ---- *)
Theorem flatten_error d a ts b : fine_partition arclen d a ts b ->
  Rabs (RInt ydx a b - sum_line_areas (chords_from gpt a ts)) <= d / 4 * arclen a b.
Proof.
  revert a. induction ts as [| t1 r IH]; intros a H; cbn [fine_partition chords_from sum_line_areas] in *.
  - subst b. rewrite arclen_point. replace (RInt ydx a a) with 0 by (symmetry; apply (RInt_point a ydx)).
    rewrite Rminus_0_r, Rabs_R0. lra.
  - destruct H as [Ha1 [Hd Hr]].
    assert (H1b := fine_partition_le _ _ _ _ _ Hr).
    specialize (IH _ Hr).
    assert (Hsplit : RInt ydx a b = RInt ydx a t1 + RInt ydx t1 b).
    { apply is_RInt_unique. apply (is_RInt_Chasles ydx a t1 b); apply ydx_is. }
    assert (Hp := arc_chord_area_bound a t1 Ha1). unfold arc_chord_area in Hp. fold (chord a t1).
    assert (H0 := arclen_nonneg a t1 Ha1).
    assert (Hsq : arclen a t1 * arclen a t1 / 4 <= d / 4 * arclen a t1) by nra.
    rewrite <- (arclen_Chasles a t1 b), Hsplit.
    replace (RInt ydx a t1 + RInt ydx t1 b - (Line_area ROps (chord a t1) + sum_line_areas (chords_from gpt t1 r)))
      with ((RInt ydx a t1 - Line_area ROps (chord a t1)) + (RInt ydx t1 b - sum_line_areas (chords_from gpt t1 r))) by ring.
    eapply Rle_trans; [apply Rabs_triang | ]. lra.
Qed.
End Curve.

(* ================================================================================================== *)
(* Part 2: cubic and quadratic Bezier segments                                                        *)
(* ================================================================================================== *)
Lemma quad_px_cont (q : seg3 R) t : continuous (fun u => px (Quad_pointAtTime ROps q u)) t.
Proof.
  apply (@ex_derive_continuous R_AbsRing R_NormedModule). eexists. apply quad_derivative_x.
Qed.
Lemma quad_py_cont (q : seg3 R) t : continuous (fun u => py (Quad_pointAtTime ROps q u)) t.
Proof.
  apply (@ex_derive_continuous R_AbsRing R_NormedModule). eexists. apply quad_derivative_y.
Qed.
Lemma line_px_cont (l : seg2 R) t : continuous (fun u => px (Line_pointAtTime ROps l u)) t.
Proof.
  apply (@ex_derive_continuous R_AbsRing R_NormedModule). destruct l as [[x0 y0] [x1 y1]].
  match goal with |- ex_derive ?f ?t => let f' := rnorm f in change (ex_derive f' t) end.
  auto_derive. exact I.
Qed.
Lemma line_py_cont (l : seg2 R) t : continuous (fun u => py (Line_pointAtTime ROps l u)) t.
Proof.
  apply (@ex_derive_continuous R_AbsRing R_NormedModule). destruct l as [[x0 y0] [x1 y1]].
  match goal with |- ex_derive ?f ?t => let f' := rnorm f in change (ex_derive f' t) end.
  auto_derive. exact I.
Qed.

Lemma cubic_dx_cont (s : seg4 R) t : continuous (cubic_dx s) t.
Proof. apply quad_px_cont. Qed.
Lemma cubic_dy_cont (s : seg4 R) t : continuous (cubic_dy s) t.
Proof. apply quad_py_cont. Qed.
Lemma quad_dx_cont (s : seg3 R) t : continuous (quad_dx s) t.
Proof. apply line_px_cont. Qed.
Lemma quad_dy_cont (s : seg3 R) t : continuous (quad_dy s) t.
Proof. apply line_py_cont. Qed.

(* exact arc length of the piece [a,b]: the integral of the speed |B'(t)| *)
Definition cubic_arclen (s : seg4 R) (a b : R) : R := RInt (cubic_speed s) a b.
Definition quad_arclen (s : seg3 R) (a b : R) : R := RInt (quad_speed s) a b.
(* the integrand y(t) * x'(t) of the Green area *)
Definition cubic_ydx (s : seg4 R) (t : R) : R := py (Cubic_pointAtTime ROps s t) * cubic_dx s t.
Definition quad_ydx (s : seg3 R) (t : R) : R := py (Quad_pointAtTime ROps s t) * quad_dx s t.
(* the chord between the points at a and b *)
Definition cubic_chord (s : seg4 R) (a b : R) : seg2 R := L2 (Cubic_pointAtTime ROps s a) (Cubic_pointAtTime ROps s b).
Definition quad_chord2 (s : seg3 R) (a b : R) : seg2 R := L2 (Quad_pointAtTime ROps s a) (Quad_pointAtTime ROps s b).

Lemma cubic_arclen_nonneg s a b : a <= b -> 0 <= cubic_arclen s a b.
Proof.
  exact (arclen_nonneg (cubic_dx s) (cubic_dy s) (cubic_dx_cont s) (cubic_dy_cont s) a b).
Qed.
Lemma quad_arclen_nonneg s a b : a <= b -> 0 <= quad_arclen s a b.
Proof.
  exact (arclen_nonneg (quad_dx s) (quad_dy s) (quad_dx_cont s) (quad_dy_cont s) a b).
Qed.
Lemma cubic_arclen_Chasles s a b c : cubic_arclen s a b + cubic_arclen s b c = cubic_arclen s a c.
Proof.
  exact (arclen_Chasles (cubic_dx s) (cubic_dy s) (cubic_dx_cont s) (cubic_dy_cont s) a b c).
Qed.
Lemma quad_arclen_Chasles s a b c : quad_arclen s a b + quad_arclen s b c = quad_arclen s a c.
Proof.
  exact (arclen_Chasles (quad_dx s) (quad_dy s) (quad_dx_cont s) (quad_dy_cont s) a b c).
Qed.

(* chord <= arc, for the pieces of a segment *)
Theorem cubic_chord_le_arclen (s : seg4 R) (a b : R) : a <= b ->
  Line_length ROps (cubic_chord s a b) <= cubic_arclen s a b.
Proof.
  intro Hab. unfold Line_length. rewrite distanceFrom_norm2.
  exact (chord_le_arclen (fun t => px (Cubic_pointAtTime ROps s t)) (fun t => py (Cubic_pointAtTime ROps s t))
           (cubic_dx s) (cubic_dy s) (cubic_derivative_x s) (cubic_derivative_y s)
           (cubic_dx_cont s) (cubic_dy_cont s) a b Hab).
Qed.
Theorem quad_chord_le_arclen (s : seg3 R) (a b : R) : a <= b ->
  Line_length ROps (quad_chord2 s a b) <= quad_arclen s a b.
Proof.
  intro Hab. unfold Line_length. rewrite distanceFrom_norm2.
  exact (chord_le_arclen (fun t => px (Quad_pointAtTime ROps s t)) (fun t => py (Quad_pointAtTime ROps s t))
           (quad_dx s) (quad_dy s) (quad_derivative_x s) (quad_derivative_y s)
           (quad_dx_cont s) (quad_dy_cont s) a b Hab).
Qed.

(* (1) arc-chord area bound, constant 1/4 *)
Theorem cubic_arc_chord_area_bound (s : seg4 R) (a b : R) : a <= b ->
  Rabs (RInt (fun t => py (Cubic_pointAtTime ROps s t) * cubic_dx s t) a b - Line_area ROps (cubic_chord s a b))
  <= cubic_arclen s a b * cubic_arclen s a b / 4.
Proof.
  exact (arc_chord_area_bound (fun t => px (Cubic_pointAtTime ROps s t)) (fun t => py (Cubic_pointAtTime ROps s t))
           (cubic_dx s) (cubic_dy s) (cubic_derivative_x s) (cubic_derivative_y s)
           (cubic_dx_cont s) (cubic_dy_cont s) a b).
Qed.
Theorem quad_arc_chord_area_bound (s : seg3 R) (a b : R) : a <= b ->
  Rabs (RInt (fun t => py (Quad_pointAtTime ROps s t) * quad_dx s t) a b - Line_area ROps (quad_chord2 s a b))
  <= quad_arclen s a b * quad_arclen s a b / 4.
Proof.
  exact (arc_chord_area_bound (fun t => px (Quad_pointAtTime ROps s t)) (fun t => py (Quad_pointAtTime ROps s t))
           (quad_dx s) (quad_dy s) (quad_derivative_x s) (quad_derivative_y s)
           (quad_dx_cont s) (quad_dy_cont s) a b).
Qed.

(* (2) partitions of [a,b], then of [0,1] with the closed-form area *)
Theorem cubic_flatten_error_ab (s : seg4 R) (d a : R) (ts : list R) (b : R) :
  fine_partition (cubic_arclen s) d a ts b ->
  Rabs (RInt (cubic_ydx s) a b - sum_line_areas (chords_from (Cubic_pointAtTime ROps s) a ts))
  <= d / 4 * cubic_arclen s a b.
Proof.
  exact (flatten_error (fun t => px (Cubic_pointAtTime ROps s t)) (fun t => py (Cubic_pointAtTime ROps s t))
           (cubic_dx s) (cubic_dy s) (cubic_derivative_x s) (cubic_derivative_y s)
           (cubic_dx_cont s) (cubic_dy_cont s) d a ts b).
Qed.
Theorem quad_flatten_error_ab (s : seg3 R) (d a : R) (ts : list R) (b : R) :
  fine_partition (quad_arclen s) d a ts b ->
  Rabs (RInt (quad_ydx s) a b - sum_line_areas (chords_from (Quad_pointAtTime ROps s) a ts))
  <= d / 4 * quad_arclen s a b.
Proof.
  exact (flatten_error (fun t => px (Quad_pointAtTime ROps s t)) (fun t => py (Quad_pointAtTime ROps s t))
           (quad_dx s) (quad_dy s) (quad_derivative_x s) (quad_derivative_y s)
           (quad_dx_cont s) (quad_dy_cont s) d a ts b).
Qed.

Lemma cubic_ydx_area (s : seg4 R) : RInt (cubic_ydx s) 0 1 = Cubic_area ROps s.
Proof. apply is_RInt_unique. exact (area_is_integral_cubic s). Qed.
Lemma quad_ydx_area (s : seg3 R) : RInt (quad_ydx s) 0 1 = Quad_area ROps s.
Proof. apply is_RInt_unique. exact (area_is_integral_quad s). Qed.

Theorem cubic_flatten_error (s : seg4 R) (d : R) (ts : list R) :
  fine_partition (cubic_arclen s) d 0 ts 1 ->
  Rabs (Cubic_area ROps s - sum_line_areas (chords_from (Cubic_pointAtTime ROps s) 0 ts))
  <= d / 4 * cubic_arclen s 0 1.
Proof. intro H. rewrite <- cubic_ydx_area. apply cubic_flatten_error_ab. exact H. Qed.
Theorem quad_flatten_error (s : seg3 R) (d : R) (ts : list R) :
  fine_partition (quad_arclen s) d 0 ts 1 ->
  Rabs (Quad_area ROps s - sum_line_areas (chords_from (Quad_pointAtTime ROps s) 0 ts))
  <= d / 4 * quad_arclen s 0 1.
Proof. intro H. rewrite <- quad_ydx_area. apply quad_flatten_error_ab. exact H. Qed.

(* the same with the whole parameter list [t_0; t_1; ...; t_n] (t_0 = 0, sorted, t_n = 1) *)
Definition fine_partition_01 (len : R -> R -> R) (d : R) (l : list R) : Prop :=
  match l with [] => False | t0 :: ts => t0 = 0 /\ fine_partition len d 0 ts 1 end.
Definition chords_of (g : R -> pt R) (l : list R) : list (seg2 R) :=
  match l with [] => [] | t0 :: ts => chords_from g t0 ts end.
Corollary cubic_flatten_error_list (s : seg4 R) (d : R) (l : list R) :
  fine_partition_01 (cubic_arclen s) d l ->
  Rabs (Cubic_area ROps s - sum_line_areas (chords_of (Cubic_pointAtTime ROps s) l)) <= d / 4 * cubic_arclen s 0 1.
Proof.
  destruct l as [| t0 ts]; cbn [fine_partition_01 chords_of]; [intros [] | ].
  intros [-> H]. apply cubic_flatten_error. exact H.
Qed.
Corollary quad_flatten_error_list (s : seg3 R) (d : R) (l : list R) :
  fine_partition_01 (quad_arclen s) d l ->
  Rabs (Quad_area ROps s - sum_line_areas (chords_of (Quad_pointAtTime ROps s) l)) <= d / 4 * quad_arclen s 0 1.
Proof.
  destruct l as [| t0 ts]; cbn [fine_partition_01 chords_of]; [intros [] | ].
  intros [-> H]. apply quad_flatten_error. exact H.
Qed.


(* ================================================================================================== *)
(* Part 3: closed chains of lines, quadratics and cubics, each flattened by a partition               *)
(* ================================================================================================== *)
Definition seg_pt (s : segment R) : R -> pt R :=
  match s with
  | SLine l => Line_pointAtTime ROps l
  | SQuad q => Quad_pointAtTime ROps q
  | SCubic c => Cubic_pointAtTime ROps c
  end.
Definition seg_start (s : segment R) : pt R :=
  match s with SLine l => l0 l | SQuad q => q0 q | SCubic c => c0 c end.
Definition seg_end (s : segment R) : pt R :=
  match s with SLine l => l1 l | SQuad q => q2 q | SCubic c => c3 c end.
Definition seg_area (s : segment R) : R :=
  match s with SLine l => Line_area ROps l | SQuad q => Quad_area ROps q | SCubic c => Cubic_area ROps c end.
(* exact arc length of the piece [a,b] of a segment; a line has constant speed *)
Definition seg_arclen (s : segment R) (a b : R) : R :=
  match s with
  | SLine l => (b - a) * Line_length ROps l
  | SQuad q => quad_arclen q a b
  | SCubic c => cubic_arclen c a b
  end.
Definition seg_length (s : segment R) : R := seg_arclen s 0 1.

Lemma seg_pt_0 (s : segment R) : seg_pt s 0 = seg_start s.
Proof. destruct s as [l | q | c]; destruct_pts; rcbv; apply pt_eq; ring. Qed.
Lemma seg_pt_1 (s : segment R) : seg_pt s 1 = seg_end s.
Proof. destruct s as [l | q | c]; destruct_pts; rcbv; apply pt_eq; ring. Qed.

Lemma line_length_nonneg (l : seg2 R) : 0 <= Line_length ROps l.
Proof. unfold Line_length. rewrite distanceFrom_norm2. apply norm2_nonneg. Qed.
Lemma seg_length_nonneg (s : segment R) : 0 <= seg_length s.
Proof.
  destruct s as [l | q | c]; unfold seg_length, seg_arclen.
  - assert (H := line_length_nonneg l). lra.
  - apply quad_arclen_nonneg. lra.
  - apply cubic_arclen_nonneg. lra.
Qed.
(* the length of a line seen as a curve is the integral of its (constant) speed, like the other two *)
Lemma line_arclen_is_integral (l : seg2 R) (a b : R) :
  is_RInt (fun _ => Line_length ROps l) a b (seg_arclen (SLine l) a b).
Proof. apply (is_RInt_const a b (Line_length ROps l)). Qed.

(* one flattened segment: a line is kept as it is (Line.flatten returns [self]); a curve is cut at a sorted
   partition 0 = t_0 <= ... <= t_n = 1 (the list holds t_1 .. t_n) whose pieces have arc length <= d *)
Definition flat_ok (d : R) (f : segment R * list R) : Prop :=
  match fst f with
  | SLine _ => snd f = [1]
  | s => fine_partition (seg_arclen s) d 0 (snd f) 1
  end.
Definition seg_chords (f : segment R * list R) : list (seg2 R) := chords_from (seg_pt (fst f)) 0 (snd f).

Lemma seg_chords_chain d f : flat_ok d f -> chain_from (seg_start (fst f)) (seg_chords f) (seg_end (fst f)).
Proof.
  destruct f as [s ts]. unfold flat_ok, seg_chords. cbn [fst snd]. intro H.
  rewrite <- seg_pt_0, <- seg_pt_1.
  destruct s as [l | q | c].
  - subst ts. cbn [chords_from chain_from]. split; reflexivity.
  - exact (chords_from_chain _ _ _ _ _ _ H).
  - exact (chords_from_chain _ _ _ _ _ _ H).
Qed.

Theorem seg_flatten_error d f : 0 <= d -> flat_ok d f ->
  Rabs (seg_area (fst f) - sum_line_areas (seg_chords f)) <= d / 4 * seg_length (fst f).
Proof.
  intros Hd H. destruct f as [s ts]. unfold flat_ok, seg_chords in *. cbn [fst snd] in *.
  destruct s as [l | q | c].
  - subst ts. cbn [chords_from sum_line_areas seg_area seg_pt].
    replace (Line_area ROps l - _) with 0 by (destruct_pts; rcbv; field).
    rewrite Rabs_R0. assert (H := seg_length_nonneg (SLine l)). nra.
  - exact (quad_flatten_error q d ts H).
  - exact (cubic_flatten_error c d ts H).
Qed.

(* a whole path: the segments with their partitions *)
Definition flat_chords (fl : list (segment R * list R)) : list (seg2 R) := flat_map seg_chords fl.
Fixpoint sum_seg_areas (ss : list (segment R)) : R :=
  match ss with [] => 0 | s :: r => seg_area s + sum_seg_areas r end.
Fixpoint total_length (ss : list (segment R)) : R :=
  match ss with [] => 0 | s :: r => seg_length s + total_length r end.
(* consecutive segments meet; the last one ends where the first starts *)
Fixpoint seg_chain_from (p : pt R) (ss : list (segment R)) (q : pt R) : Prop :=
  match ss with
  | [] => p = q
  | s :: r => seg_start s = p /\ seg_chain_from (seg_end s) r q
  end.
Definition closed_seg_chain (ss : list (segment R)) : Prop :=
  match ss with
  | [] => True
  | s :: r => seg_chain_from (seg_end s) r (seg_start s)
  end.

Lemma total_length_nonneg ss : 0 <= total_length ss.
Proof.
  induction ss as [| s r IH]; simpl; [lra | ]. assert (H := seg_length_nonneg s). lra.
Qed.

Lemma flat_chords_chain d fl p q :
  List.Forall (flat_ok d) fl -> seg_chain_from p (map fst fl) q -> chain_from p (flat_chords fl) q.
Proof.
  intro Hall. revert p. induction Hall as [| f r Hf Hr IH]; intros p Hc; cbn [map seg_chain_from flat_chords flat_map] in *.
  - exact Hc.
  - destruct Hc as [Hp Hc]. subst p.
    apply (chain_from_app _ _ _ (seg_end (fst f))).
    + exact (seg_chords_chain d f Hf).
    + exact (IH _ Hc).
Qed.

Theorem flat_chords_closed d fl :
  List.Forall (flat_ok d) fl -> closed_seg_chain (map fst fl) -> closed_chain (flat_chords fl).
Proof.
  intros Hall Hc. apply closed_chain_from. destruct fl as [| f r].
  - left. reflexivity.
  - right. exists (seg_start (fst f)). apply (flat_chords_chain d); [exact Hall | ].
    cbn [map seg_chain_from closed_seg_chain] in *. split; [reflexivity | exact Hc].
Qed.

(* sum over the segments (no closure needed) *)
Theorem flat_chords_area_error d fl : 0 <= d -> List.Forall (flat_ok d) fl ->
  Rabs (sum_seg_areas (map fst fl) - sum_line_areas (flat_chords fl)) <= d / 4 * total_length (map fst fl).
Proof.
  intros Hd Hall. induction Hall as [| f r Hf Hr IH]; cbn [map sum_seg_areas total_length flat_chords flat_map].
  - rewrite Rminus_0_r, Rabs_R0. lra.
  - fold (flat_chords r). rewrite sum_line_areas_app.
    assert (H1 := seg_flatten_error d f Hd Hf).
    replace (seg_area (fst f) + sum_seg_areas (map fst r) - (sum_line_areas (seg_chords f) + sum_line_areas (flat_chords r)))
      with ((seg_area (fst f) - sum_line_areas (seg_chords f)) + (sum_seg_areas (map fst r) - sum_line_areas (flat_chords r)))
      by ring.
    eapply Rle_trans; [apply Rabs_triang | ]. lra.
Qed.

(* (3) the shoelace value of the flattened closed path against the exact Green area - sum X_area *)
Theorem flattened_signed_area_error d fl :
  0 <= d -> List.Forall (flat_ok d) fl -> closed_seg_chain (map fst fl) ->
  Rabs (signed_area_lines ROps (flat_chords fl) - (- sum_seg_areas (map fst fl)))
  <= d / 4 * total_length (map fst fl).
Proof.
  intros Hd Hall Hc.
  rewrite (shoelace_is_minus_line_areas _ (flat_chords_closed d fl Hall Hc)).
  replace (- sum_line_areas (flat_chords fl) - - sum_seg_areas (map fst fl))
    with (sum_seg_areas (map fst fl) - sum_line_areas (flat_chords fl)) by ring.
  exact (flat_chords_area_error d fl Hd Hall).
Qed.

(* the clause of C10: with pieces of arc length at most d <= 40 the error is at most 10 * length
   (regularSample aims at pieces of 8 units, so there is a factor 5 of room) *)
Corollary flattened_signed_area_within_10_length d fl :
  0 <= d <= 40 -> List.Forall (flat_ok d) fl -> closed_seg_chain (map fst fl) ->
  Rabs (signed_area_lines ROps (flat_chords fl) - (- sum_seg_areas (map fst fl)))
  <= 10 * total_length (map fst fl).
Proof.
  intros [Hd0 Hd] Hall Hc.
  assert (H := flattened_signed_area_error d fl Hd0 Hall Hc).
  assert (HL := total_length_nonneg (map fst fl)). nra.
Qed.

(* ================================================================================================== *)
(* Part 4: non-vacuity.  The arch (0,0) (0,k) (k,k) (k,0) has speed 3k(1 - 2t + 2t^2), total arc length 2k,     *)
(* and each half [0,1/2], [1/2,1] has arc length exactly k.                                           *)
(* ================================================================================================== *)
Definition arch (k : R) : seg4 R := C4 (P 0 0) (P 0 k) (P k k) (P k 0).

Lemma arch_speed k t : 0 <= k -> cubic_speed (arch k) t = 3 * k * (1 - 2 * t + 2 * (t * t)).
Proof.
  intro Hk. unfold cubic_speed, norm2.
  replace (cubic_dx (arch k) t * cubic_dx (arch k) t + cubic_dy (arch k) t * cubic_dy (arch k) t)
    with ((3 * k * (1 - 2 * t + 2 * (t * t))) * (3 * k * (1 - 2 * t + 2 * (t * t))))
    by (unfold cubic_dx, cubic_dy, arch; rcbv; ring).
  apply sqrt_square. assert (H : 0 <= 1 - 2 * t + 2 * (t * t)) by nra. nra.
Qed.

Lemma arch_arclen k a b : 0 <= k ->
  cubic_arclen (arch k) a b =
  3 * k * ((b - b * b + 2 / 3 * (b * b * b)) - (a - a * a + 2 / 3 * (a * a * a))).
Proof.
  intro Hk. unfold cubic_arclen. apply is_RInt_unique.
  apply (is_RInt_ext (fun t => 3 * k * (1 - 2 * t + 2 * (t * t)))).
  { intros t _. symmetry. apply arch_speed. exact Hk. }
  pose (F := fun t : R => 3 * k * (t - t * t + 2 / 3 * (t * t * t))).
  replace (3 * k * ((b - b * b + 2 / 3 * (b * b * b)) - (a - a * a + 2 / 3 * (a * a * a))))
    with (minus (F b) (F a)) by (unfold F, minus, plus, opp; simpl; ring).
  apply (is_RInt_derive F).
  - intros t _. unfold F. auto_derive; [exact I | field].
  - intros t _. apply continuity_pt_filterlim. reg.
Qed.

(* the arch of the task statement: (0,0) (0,100) (100,100) (100,0), cut at t = 1/2, d = 100 *)
Example arch100_partition : fine_partition (cubic_arclen (arch 100)) 100 0 [1 / 2; 1] 1.
Proof.
  cbn [fine_partition]. rewrite !arch_arclen by lra. repeat split; lra.
Qed.
Example arch100_partition_list : fine_partition_01 (cubic_arclen (arch 100)) 100 [0; 1 / 2; 1].
Proof. split; [reflexivity | exact arch100_partition]. Qed.
Example arch100_length : cubic_arclen (arch 100) 0 1 = 200.
Proof. rewrite arch_arclen by lra. field. Qed.
(* theorem (2) on it: the bound is 100/4 * 200 = 5000; the actual defect is 6000 - 3750 = 2250 *)
Example arch100_flatten_error :
  Rabs (Cubic_area ROps (arch 100) - sum_line_areas (chords_from (Cubic_pointAtTime ROps (arch 100)) 0 [1 / 2; 1]))
  <= 5000.
Proof.
  assert (H := cubic_flatten_error (arch 100) 100 [1 / 2; 1] arch100_partition).
  rewrite arch100_length in H. lra.
Qed.
Example arch100_actual_defect :
  Cubic_area ROps (arch 100) - sum_line_areas (chords_from (Cubic_pointAtTime ROps (arch 100)) 0 [1 / 2; 1]) = 2250.
Proof. unfold arch. rcbv. field. Qed.
(* theorem (1) on its first half: |defect| <= 100^2 / 4 *)
Example arch100_first_half :
  Rabs (RInt (fun t => py (Cubic_pointAtTime ROps (arch 100) t) * cubic_dx (arch 100) t) 0 (1 / 2)
        - Line_area ROps (cubic_chord (arch 100) 0 (1 / 2))) <= 2500.
Proof.
  assert (H := cubic_arc_chord_area_bound (arch 100) 0 (1 / 2)).
  rewrite arch_arclen in H by lra. lra.
Qed.

(* a closed path: the arch of size k closed by the straight line back from (k,0) to (0,0) *)
Definition dshape (k : R) : list (segment R * list R) :=
  [(SCubic (arch k), [1 / 2; 1]); (SLine (L2 (P k 0) (P 0 0)), [1])].
Lemma dshape_ok k : 0 <= k -> List.Forall (flat_ok k) (dshape k).
Proof.
  intro Hk. unfold dshape. apply Forall_cons; [ | apply Forall_cons; [ | apply Forall_nil]].
  - unfold flat_ok. cbn [fst snd seg_arclen fine_partition]. rewrite !arch_arclen by exact Hk. repeat split; lra.
  - reflexivity.
Qed.
Lemma dshape_closed k : closed_seg_chain (map fst (dshape k)).
Proof. simpl. repeat split. Qed.
Example dshape100_error :
  Rabs (signed_area_lines ROps (flat_chords (dshape 100)) - (- sum_seg_areas (map fst (dshape 100))))
  <= 100 / 4 * total_length (map fst (dshape 100)).
Proof. apply flattened_signed_area_error; [lra | apply dshape_ok; lra | apply dshape_closed]. Qed.
(* with pieces of arc length 10 <= 40 the corollary applies *)
Example dshape10_within_10_length :
  Rabs (signed_area_lines ROps (flat_chords (dshape 10)) - (- sum_seg_areas (map fst (dshape 10))))
  <= 10 * total_length (map fst (dshape 10)).
Proof.
  apply (flattened_signed_area_within_10_length 10); [lra | apply dshape_ok; lra | apply dshape_closed].
Qed.
(* the values: exact Green area -60 (clockwise), flattened -37.5, total length 20 + 10 *)
Example dshape10_values :
  - sum_seg_areas (map fst (dshape 10)) = -60 /\ signed_area_lines ROps (flat_chords (dshape 10)) = -75 / 2.
Proof. split; unfold dshape, arch; rcbv; field. Qed.

Print Assumptions arc_chord_area_bound.
Print Assumptions cubic_arc_chord_area_bound.
Print Assumptions quad_arc_chord_area_bound.
Print Assumptions cubic_flatten_error.
Print Assumptions quad_flatten_error.
Print Assumptions flattened_signed_area_error.
Print Assumptions flattened_signed_area_within_10_length.
