(* C14: the soundness theorem of the curve fitter restated about the fitter REGENERATED from utils/curvefitter.py (Gen/Fit.v, translator round 6),
   by transport through Proofs/Bridge6.v.  Over the reals, for data with two distinct points, error + 1e-9 > 0, cornerTolerance > 0 and a budget of at least
   the number of points: whenever the recursion does not run out of its depth budget, the regenerated CurveFit_fitCurve RETURNS a list of cubics -- it raises
   nothing and does not return None -- and that list is a non-empty connected chain from exactly the first to exactly the last data point, of at most `budget`
   cubics, with every data point within sqrt(error + 1e-9) of one of the cubics at a parameter in [0,1]. *)
From Coq Require Import ZArith List Bool Reals Lra.
Import ListNotations.
From BZ Require Import Base.Ops Gen.Point Gen.Cubic Gen.Sample Gen.Fit Hand.Shoelace Hand.Fit Proofs.C14 Proofs.Bridge6.
Open Scope R_scope.

Theorem gen_fitCurve_sound_R (error cT : R) (fuel depth : nat) (data : list (pt R)) (B : Z) (a b : pt R) :
  0 < radicand error -> 0 < cT -> In a data -> In b data -> a <> b -> (Z.of_nat (length data) <= B)%Z ->
  (10 <= fuel)%nat -> (length data <= fuel)%nat ->
  fst (fitCurve ROps depth data error cT B) <> RRaise OutOfFuel ->
  exists (l : list (seg4 R)) (first : pt R) (rest : list (pt R)),
    CurveFit_fitCurve ROps fuel depth data error cT B = Some (Returns (Some l)) /\
    data = first :: rest /\ l <> [] /\ chain_from first l (last data first) /\ (Z.of_nat (length l) <= B)%Z /\
    (forall p : pt R, In p data -> exists (c : seg4 R) (u : R), In c l /\ 0 <= u <= 1 /\
       Point_distanceFrom ROps (Cubic_pointAtTime ROps c u) p <= tol_of error).
Proof.
  intros He Hc Ha Hb Hab HB Hf Hl Hne.
  destruct (fitCurve ROps depth data error cT B) as [x lg] eqn:E.
  destruct (fitCurve_sound_R error cT depth data B x lg a b He Hc Ha Hb Hab HB E) as [Hx | (l & first & rest & Hx & Hd & Hn & Hch & Hlen & Hpts & _)].
  - exfalso. apply Hne. cbn [fst]. exact Hx.
  - exists l, first, rest. split; [| repeat split; assumption].
    pose proof (fitCurve_gen_R fuel depth data error cT B Hf Hl) as G. rewrite E in G. cbn [fst] in G, Hne.
    specialize (G Hne). rewrite Hx in G.
    destruct (CurveFit_fitCurve ROps fuel depth data error cT B) as [[[l' |] | e] |]; cbn [pyres_of] in G; try discriminate.
    + injection G as ->. reflexivity.
    + destruct (exn_of e); discriminate.
Qed.
