(* Tactics shared by the proof files: unfold generated definitions down to real arithmetic. *)
From Coq Require Import PrimFloat.
From Coq Require Import ZArith List Bool Reals Lra Lia.
From BZ Require Import Base.Ops.
Import ListNotations.

(* full normalisation of a model term at the real instance, stopping at the real-number primitives *)
Ltac rcbv := cbv -[Rplus Rminus Rmult Rdiv Ropp Rinv IZR Rabs sqrt cos sin acos Rpower PI
                   Rlt_dec Rle_dec Req_EM_T R_atan2 R_trunc Int_part Rlt Rle Rgt Rge].
Ltac rcbv_in H := cbv -[Rplus Rminus Rmult Rdiv Ropp Rinv IZR Rabs sqrt cos sin acos Rpower PI
                   Rlt_dec Rle_dec Req_EM_T R_atan2 R_trunc Int_part Rlt Rle Rgt Rge] in H.

(* the same, but only inside the function and the derivative of an [is_derive] goal *)
Ltac rnorm x := eval cbv -[Rplus Rminus Rmult Rdiv Ropp Rinv IZR Rabs sqrt cos sin acos Rpower PI
                   Rlt_dec Rle_dec Req_EM_T R_atan2 R_trunc Int_part Rlt Rle Rgt Rge] in x.

Ltac destruct_pts :=
  repeat match goal with
  | s : seg4 R |- _ => destruct s as [[? ?] [? ?] [? ?] [? ?]]
  | s : seg3 R |- _ => destruct s as [[? ?] [? ?] [? ?]]
  | s : seg2 R |- _ => destruct s as [[? ?] [? ?]]
  | p : pt R |- _ => destruct p as [? ?]
  | m : mat3 R |- _ => destruct m
  | b : bbox R |- _ => destruct b as [[? ?] [? ?]]
  end.

Lemma pt_eq {T} (a b c d : T) : a = c -> b = d -> P a b = P c d.
Proof. intros -> ->; reflexivity. Qed.

(* boolean comparisons of the real instance *)
Lemma Rltb_true x y : ltb ROps x y = true <-> (x < y)%R.
Proof. cbn. destruct (Rlt_dec x y); split; intros; try discriminate; auto; contradiction. Qed.
Lemma Rltb_false x y : ltb ROps x y = false <-> (y <= x)%R.
Proof. cbn. destruct (Rlt_dec x y); split; intros; try discriminate; auto; lra. Qed.
Lemma Rleb_true x y : leb ROps x y = true <-> (x <= y)%R.
Proof. cbn. destruct (Rle_dec x y); split; intros; try discriminate; auto; contradiction. Qed.
Lemma Rleb_false x y : leb ROps x y = false <-> (y < x)%R.
Proof. cbn. destruct (Rle_dec x y); split; intros; try discriminate; auto; lra. Qed.
Lemma Reqb_true x y : eqb ROps x y = true <-> x = y.
Proof. cbn. destruct (Req_EM_T x y); split; intros; try discriminate; auto; contradiction. Qed.
Lemma Reqb_false x y : eqb ROps x y = false <-> x <> y.
Proof. cbn. destruct (Req_EM_T x y); split; intros; try discriminate; auto; contradiction. Qed.
