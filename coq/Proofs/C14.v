(* C14: curve fitting (beziers/utils/curvefitter.py).
   Part 1: the recursion skeleton [fitC] of Hand/Fit.v for an ARBITRARY numeric core (fit1, ctan), any carrier.
   Part 2: fitCurve's adjacent-duplicate filter.
   Part 3: the transcribed numeric core (layer 2) at the real instance discharges the hypotheses of Part 1. *)
From Coq Require Import PrimFloat.
From Coq Require Import ZArith List Bool Reals Lra Lia Psatz.
From BZ Require Import Base.Ops Proofs.Tactics Gen.Point Gen.Line Gen.Quad Gen.Cubic Hand.Fit.
Import ListNotations.
Open Scope R_scope.

(* ================================================================================================ *)
(* list facts                                                                                        *)
(* ================================================================================================ *)
Lemma split_at {A} (l : list A) (k : nat) : (k < length l)%nat ->
  exists a p b, l = a ++ p :: b /\ firstn (S k) l = a ++ [p] /\ skipn k l = p :: b /\ length a = k.
Proof.
  revert k; induction l as [|x l IH]; intros k Hk; simpl in Hk; [lia|].
  destruct k as [|k].
  - exists [], x, l. repeat split; reflexivity.
  - destruct (IH k ltac:(lia)) as (a & p & b & E1 & E2 & E3 & E4).
    exists (x :: a), p, b. repeat split.
    + simpl; f_equal; exact E1.
    + change (firstn (S (S k)) (x :: l)) with (x :: firstn (S k) l). rewrite E2; reflexivity.
    + simpl; exact E3.
    + simpl; f_equal; exact E4.
Qed.

Lemma norm_idx_in_range n k : (0 <= k <= n)%Z -> norm_idx n k = k.
Proof. intros H; unfold norm_idx. destruct (Z.ltb_spec k 0); lia. Qed.

Definition is_raise {A} (x : pyres A) : bool := match x with RRaise _ => true | _ => false end.

(* ================================================================================================ *)
(* Part 1: the skeleton                                                                              *)
(* ================================================================================================ *)
Section Skel.
Context {T : Type} (O : Ops T).
Variable fit1 : list (pt T) -> option (pt T) -> option (pt T) -> fitres T.
Variable ctan : list (pt T) -> Z -> option (pt T).
Notation fitC := (fitC O fit1 ctan).
Notation res := (pyres (seg4 T) * list (event T))%type.

(* the `if isCorner:` block when it does not re-enter: the split point after adjustment *)
Definition adjusted (c : bool) (sp n : Z) (t1 t2 : option (pt T)) : option Z :=
  if c then
    if (sp =? 0)%Z then match t1 with None => Some (sp + 1)%Z | Some _ => None end
    else if (sp =? n - 1)%Z then match t2 with None => Some (sp - 1)%Z | Some _ => None end
    else Some sp
  else Some sp.
Definition rec_tangents (c : bool) (points : list (pt T)) (sp n : Z) : option (option (pt T * pt T)) :=
  if c then if negb ((0 <? sp)%Z && (sp <? n - 1)%Z) then None else Some (Some (zeroP O, zeroP O))
  else match ctan points sp with None => Some None | Some t => Some (Some (Point___mul__ O t (ofZ O (-1)), t)) end.
Definition seg_remaining (L : pyres (seg4 T)) (B : Z) : Z :=
  match L with RList (x :: l) => (B - Z.of_nat (length (x :: l)))%Z | _ => (B - 1)%Z end.
(* the lengths for which _fitCurve reaches the numeric core *)
Definition fit_len (points : list (pt T)) : bool :=
  match points with [] => false | [_; _] => false | _ => true end.

(* one call of _fitCurve, the recursive calls being made through [rec] *)
Inductive step (rec : list (pt T) -> option (pt T) -> option (pt T) -> Z -> res)
          (points : list (pt T)) (t1 t2 : option (pt T)) (B : Z) : res -> Prop :=
| st_none : points = [] -> step rec points t1 t2 B (RNone, [Ev (length points) t1 t2 B DNone])
| st_line a b : points = [a; b] -> step rec points t1 t2 B (RList [fitLine O a b t1 t2], [Ev (length points) t1 t2 B DLine])
| st_raise e : fit_len points = true -> fit1 points t1 t2 = FitRaise e ->
    step rec points t1 t2 B (RRaise e, [Ev (length points) t1 t2 B (DRaise e)])
| st_degenerate : fit_len points = true -> fit1 points t1 t2 = FitDegenerate ->
    step rec points t1 t2 B (RList [], [Ev (length points) t1 t2 B DDegenerate])
| st_accept bez r sp : fit_len points = true -> fit1 points t1 t2 = FitOk bez r sp -> leb O (abs_ O r) (f1 O) = true ->
    step rec points t1 t2 B (RList [bez], [Ev (length points) t1 t2 B (DAccept r sp)])
| st_reenter1 bez r sp t x lg : fit_len points = true -> fit1 points t1 t2 = FitOk bez r sp -> leb O (abs_ O r) (f1 O) = false ->
    ltb O r (ofZ O 0) = true -> sp = 0%Z -> t1 = Some t -> rec points (Some (zeroP O)) t2 B = (x, lg) ->
    step rec points t1 t2 B (x, Ev (length points) t1 t2 B (DReenter1 r sp) :: lg)
| st_reenter2 bez r sp t x lg : fit_len points = true -> fit1 points t1 t2 = FitOk bez r sp -> leb O (abs_ O r) (f1 O) = false ->
    ltb O r (ofZ O 0) = true -> sp <> 0%Z -> sp = (Z.of_nat (length points) - 1)%Z -> t2 = Some t ->
    rec points t1 (Some (zeroP O)) B = (x, lg) ->
    step rec points t1 t2 B (x, Ev (length points) t1 t2 B (DReenter2 r sp) :: lg)
| st_nobudget bez r sp sp' : fit_len points = true -> fit1 points t1 t2 = FitOk bez r sp -> leb O (abs_ O r) (f1 O) = false ->
    adjusted (ltb O r (ofZ O 0)) sp (Z.of_nat (length points)) t1 t2 = Some sp' -> (1 <? B)%Z = false ->
    step rec points t1 t2 B (RList [], [Ev (length points) t1 t2 B (DNoBudget r sp')])
| st_badcorner bez r sp sp' : fit_len points = true -> fit1 points t1 t2 = FitOk bez r sp -> leb O (abs_ O r) (f1 O) = false ->
    adjusted (ltb O r (ofZ O 0)) sp (Z.of_nat (length points)) t1 t2 = Some sp' -> (1 <? B)%Z = true ->
    rec_tangents (ltb O r (ofZ O 0)) points sp' (Z.of_nat (length points)) = None ->
    step rec points t1 t2 B (RList [], [Ev (length points) t1 t2 B (DBadCorner r sp')])
| st_ctan bez r sp sp' : fit_len points = true -> fit1 points t1 t2 = FitOk bez r sp -> leb O (abs_ O r) (f1 O) = false ->
    adjusted (ltb O r (ofZ O 0)) sp (Z.of_nat (length points)) t1 t2 = Some sp' -> (1 <? B)%Z = true ->
    rec_tangents (ltb O r (ofZ O 0)) points sp' (Z.of_nat (length points)) = Some None ->
    step rec points t1 t2 B (RRaise IndexError, [Ev (length points) t1 t2 B (DRaise IndexError)])
| st_lraise bez r sp sp' rt1 rt2 e lgL : fit_len points = true -> fit1 points t1 t2 = FitOk bez r sp -> leb O (abs_ O r) (f1 O) = false ->
    adjusted (ltb O r (ofZ O 0)) sp (Z.of_nat (length points)) t1 t2 = Some sp' -> (1 <? B)%Z = true ->
    rec_tangents (ltb O r (ofZ O 0)) points sp' (Z.of_nat (length points)) = Some (Some (rt1, rt2)) ->
    rec (slice_to points (sp' + 1)) t1 (Some rt2) (B - 1)%Z = (RRaise e, lgL) ->
    step rec points t1 t2 B (RRaise e, Ev (length points) t1 t2 B (DSplit (ltb O r (ofZ O 0)) r sp') :: lgL)
| st_split bez r sp sp' rt1 rt2 L lgL R lgR : fit_len points = true -> fit1 points t1 t2 = FitOk bez r sp -> leb O (abs_ O r) (f1 O) = false ->
    adjusted (ltb O r (ofZ O 0)) sp (Z.of_nat (length points)) t1 t2 = Some sp' -> (1 <? B)%Z = true ->
    rec_tangents (ltb O r (ofZ O 0)) points sp' (Z.of_nat (length points)) = Some (Some (rt1, rt2)) ->
    rec (slice_to points (sp' + 1)) t1 (Some rt2) (B - 1)%Z = (L, lgL) -> is_raise L = false ->
    rec (slice_from points sp') (Some rt1) t2 (seg_remaining L B) = (R, lgR) ->
    step rec points t1 t2 B (py_concat L R, Ev (length points) t1 t2 B (DSplit (ltb O r (ofZ O 0)) r sp') :: lgL ++ lgR).

Lemma fitC_step f points t1 t2 B x : fitC (S f) points t1 t2 B = x -> step (fitC f) points t1 t2 B x.
Proof.
  intros <-.
  assert (Hcore : forall (Hlen : fit_len points = true),
    step (fitC f) points t1 t2 B
      (match fit1 points t1 t2 with
       | FitRaise e => (RRaise e, [Ev (length points) t1 t2 B (DRaise e)])
       | FitDegenerate => (RList [], [Ev (length points) t1 t2 B DDegenerate])
       | FitOk bez r sp =>
         if leb O (abs_ O r) (f1 O) then (RList [bez], [Ev (length points) t1 t2 B (DAccept r sp)]) else
         let isCorner := ltb O r (ofZ O 0) in
         let n := Z.of_nat (length points) in
         let adj : Z + res :=
           if isCorner then
             if (sp =? 0)%Z then
               match t1 with
               | None => inl (sp + 1)%Z
               | Some _ => inr (let '(x, lg) := fitC f points (Some (zeroP O)) t2 B in (x, Ev (length points) t1 t2 B (DReenter1 r sp) :: lg))
               end
             else if (sp =? n - 1)%Z then
               match t2 with
               | None => inl (sp - 1)%Z
               | Some _ => inr (let '(x, lg) := fitC f points t1 (Some (zeroP O)) B in (x, Ev (length points) t1 t2 B (DReenter2 r sp) :: lg))
               end
             else inl sp
           else inl sp in
         match adj with
         | inr x => x
         | inl sp =>
           if (1 <? B)%Z then
             let tangents : option (option (pt T * pt T)) :=
               if isCorner then
                 if negb ((0 <? sp)%Z && (sp <? n - 1)%Z) then None else Some (Some (zeroP O, zeroP O))
               else match ctan points sp with
                    | None => Some None
                    | Some t => Some (Some (Point___mul__ O t (ofZ O (-1)), t))
                    end in
             match tangents with
             | None => (RList [], [Ev (length points) t1 t2 B (DBadCorner r sp)])
             | Some None => (RRaise IndexError, [Ev (length points) t1 t2 B (DRaise IndexError)])
             | Some (Some (recTHat1, recTHat2)) =>
               let lPoints := slice_to points (sp + 1) in
               let rPoints := slice_from points sp in
               let '(L, lgL) := fitC f lPoints t1 (Some recTHat2) (B - 1) in
               match L with
               | RRaise e => (RRaise e, Ev (length points) t1 t2 B (DSplit isCorner r sp) :: lgL)
               | _ =>
                 let segmentsRemaining :=
                   match L with
                   | RList (x :: l) => (B - Z.of_nat (length (x :: l)))%Z
                   | _ => (B - 1)%Z
                   end in
                 let '(R, lgR) := fitC f rPoints (Some recTHat1) t2 segmentsRemaining in
                 (py_concat L R, Ev (length points) t1 t2 B (DSplit isCorner r sp) :: lgL ++ lgR)
               end
             end
           else (RList [], [Ev (length points) t1 t2 B (DNoBudget r sp)])
         end
       end)).
  { intros Hlen.
    destruct (fit1 points t1 t2) as [e| |bez r sp] eqn:Hfit.
    - apply st_raise; assumption.
    - apply st_degenerate; assumption.
    - destruct (leb O (abs_ O r) (f1 O)) eqn:Hacc; [eapply st_accept; eassumption|].
      cbv zeta.
      assert (Hpost : forall sp', adjusted (ltb O r (ofZ O 0)) sp (Z.of_nat (length points)) t1 t2 = Some sp' ->
        step (fitC f) points t1 t2 B
          (if (1 <? B)%Z then
             match rec_tangents (ltb O r (ofZ O 0)) points sp' (Z.of_nat (length points)) with
             | None => (RList [], [Ev (length points) t1 t2 B (DBadCorner r sp')])
             | Some None => (RRaise IndexError, [Ev (length points) t1 t2 B (DRaise IndexError)])
             | Some (Some (recTHat1, recTHat2)) =>
               let '(L, lgL) := fitC f (slice_to points (sp' + 1)) t1 (Some recTHat2) (B - 1) in
               match L with
               | RRaise e => (RRaise e, Ev (length points) t1 t2 B (DSplit (ltb O r (ofZ O 0)) r sp') :: lgL)
               | _ =>
                 let '(R, lgR) := fitC f (slice_from points sp') (Some recTHat1) t2 (seg_remaining L B) in
                 (py_concat L R, Ev (length points) t1 t2 B (DSplit (ltb O r (ofZ O 0)) r sp') :: lgL ++ lgR)
               end
             end
           else (RList [], [Ev (length points) t1 t2 B (DNoBudget r sp')]))).
      { intros sp' Hadj.
        destruct (1 <? B)%Z eqn:HB; [|eapply st_nobudget; eassumption].
        destruct (rec_tangents (ltb O r (ofZ O 0)) points sp' (Z.of_nat (length points))) as [[[rt1 rt2]|]|] eqn:Htan.
        - destruct (fitC f (slice_to points (sp' + 1)) t1 (Some rt2) (B - 1)) as [L lgL] eqn:HL.
          destruct L as [|l|e].
          + destruct (fitC f (slice_from points sp') (Some rt1) t2 (seg_remaining RNone B)) as [R lgR] eqn:HR.
            eapply st_split; try eassumption; reflexivity.
          + destruct (fitC f (slice_from points sp') (Some rt1) t2 (seg_remaining (RList l) B)) as [R lgR] eqn:HR.
            eapply st_split; try eassumption; reflexivity.
          + eapply st_lraise; eassumption.
        - eapply st_ctan; eassumption.
        - eapply st_badcorner; eassumption. }
      unfold adjusted, rec_tangents, seg_remaining in Hpost.
      destruct (ltb O r (ofZ O 0)) eqn:Hc.
      + destruct (sp =? 0)%Z eqn:H0.
        * apply Z.eqb_eq in H0.
          destruct t1 as [t|].
          -- destruct (fitC f points (Some (zeroP O)) t2 B) as [x lg] eqn:Hre.
             eapply st_reenter1; try eassumption; reflexivity.
          -- apply Hpost; reflexivity.
        * apply Z.eqb_neq in H0.
          destruct (sp =? Z.of_nat (length points) - 1)%Z eqn:Hn.
          -- apply Z.eqb_eq in Hn.
             destruct t2 as [t|].
             ++ destruct (fitC f points t1 (Some (zeroP O)) B) as [x lg] eqn:Hre.
                eapply st_reenter2; try eassumption; reflexivity.
             ++ apply Hpost; reflexivity.
          -- apply Hpost; reflexivity.
      + apply Hpost; reflexivity. }
  destruct points as [|a [|b [|c rest]]].
  - apply st_none; reflexivity.
  - apply (Hcore eq_refl).
  - eapply st_line; reflexivity.
  - apply (Hcore eq_refl).
Qed.

(* ---------- the number of segments never exceeds the budget (no hypothesis on the numeric core) ---------- *)
Lemma py_concat_list (L R : pyres (seg4 T)) l : py_concat L R = RList l -> exists ll rl, L = RList ll /\ R = RList rl /\ l = ll ++ rl.
Proof. destruct L as [|ll|e], R as [|rl|e']; simpl; intros H; try discriminate. injection H as <-. eauto. Qed.

Theorem count_le_budget : forall fuel points t1 t2 B l lg,
  (1 <= B)%Z -> fitC fuel points t1 t2 B = (RList l, lg) -> (Z.of_nat (length l) <= B)%Z.
Proof.
  induction fuel as [|f IH]; intros points t1 t2 B l lg HB H; [simpl in H; discriminate|].
  apply fitC_step in H. inversion H; subst; clear H; simpl; try lia.
  - eapply IH; eassumption.
  - eapply IH; eassumption.
  - match goal with H : py_concat _ _ = RList _ |- _ => apply py_concat_list in H; destruct H as (ll & rl & -> & -> & ->) end.
    match goal with H : (1 <? B)%Z = true |- _ => apply Z.ltb_lt in H end.
    match goal with H : fitC f (slice_to _ _) _ _ _ = _ |- _ => apply IH in H; [|lia] end.
    match goal with H : fitC f (slice_from _ _) _ _ _ = _ |- _ => apply IH in H end.
    + rewrite app_length, Nat2Z.inj_add. unfold seg_remaining in *. destruct ll; simpl length in *; lia.
    + unfold seg_remaining. destruct ll; simpl length in *; lia.
Qed.

(* ---------- what a non-empty result is made of ---------- *)
Definition empty_return (d : decision T) : bool :=
  match d with DDegenerate | DBadCorner _ _ | DNoBudget _ _ => true | _ => false end.
(* no call in the log took one of the three `return []` exits *)
Definition no_empty (lg : list (event T)) : Prop := forall e, In e lg -> empty_return (ev_dec e) = false.

(* a cubic returned for the sub-sequence [pts]: the two-point base case, or a fit that passed abs(ratio) <= 1.0 *)
Inductive accepted : list (pt T) -> seg4 T -> Prop :=
| acc_line a b t1 t2 : accepted [a; b] (fitLine O a b t1 t2)
| acc_fit pts t1 t2 bez r sp : fit_len pts = true -> fit1 pts t1 t2 = FitOk bez r sp -> leb O (abs_ O r) (f1 O) = true -> accepted pts bez.
(* [covers pts l]: the cubics l are accepted fits of consecutive runs of pts, neighbouring runs sharing their end point *)
Inductive covers : list (pt T) -> list (seg4 T) -> Prop :=
| cov_one pts c : accepted pts c -> covers pts [c]
| cov_app l p r cl cr : covers (l ++ [p]) cl -> covers (p :: r) cr -> covers (l ++ p :: r) (cl ++ cr).

(* hypotheses on the numeric core (discharged for the transcribed core over R in Part 3) *)
Definition split_in_range : Prop := forall pts t1 t2 bez r sp, fit_len pts = true -> fit1 pts t1 t2 = FitOk bez r sp ->
  leb O (abs_ O r) (f1 O) = false -> ltb O r (ofZ O 0) = false -> (0 <= sp < Z.of_nat (length pts))%Z.
Definition split_interior : Prop := forall pts t1 t2 bez r sp, fit_len pts = true -> fit1 pts t1 t2 = FitOk bez r sp ->
  leb O (abs_ O r) (f1 O) = false -> ltb O r (ofZ O 0) = false -> (1 <= sp <= Z.of_nat (length pts) - 2)%Z.
Definition corner_in_range : Prop := forall pts t1 t2 bez r sp, fit_len pts = true -> fit1 pts t1 t2 = FitOk bez r sp ->
  leb O (abs_ O r) (f1 O) = false -> ltb O r (ofZ O 0) = true -> (0 <= sp <= Z.of_nat (length pts) - 2)%Z.
Definition no_degenerate : Prop := forall pts t1 t2, fit1 pts t1 t2 <> FitDegenerate.
Definition ends_ok : Prop := forall pts t1 t2 bez r sp a m, pts = a :: m -> fit1 pts t1 t2 = FitOk bez r sp ->
  c0 bez = a /\ c3 bez = last pts a.

Lemma split_interior_in_range : split_interior -> split_in_range.
Proof. intros H pts t1 t2 bez r sp Hl Hf Ha Hc. specialize (H pts t1 t2 bez r sp Hl Hf Ha Hc). lia. Qed.

Lemma fit_len_ge pts : fit_len pts = true -> (2 <= length pts)%nat -> (3 <= length pts)%nat.
Proof. destruct pts as [|a [|b [|c r]]]; simpl; intros; try discriminate; lia. Qed.

(* the split point that reaches the recursive calls *)
Lemma split_point_range pts t1 t2 bez r sp sp' rt :
  split_in_range -> fit_len pts = true -> fit1 pts t1 t2 = FitOk bez r sp -> leb O (abs_ O r) (f1 O) = false ->
  adjusted (ltb O r (ofZ O 0)) sp (Z.of_nat (length pts)) t1 t2 = Some sp' ->
  rec_tangents (ltb O r (ofZ O 0)) pts sp' (Z.of_nat (length pts)) = Some rt ->
  (0 <= sp' < Z.of_nat (length pts))%Z.
Proof.
  intros Hr Hl Hf Ha Hadj Htan. unfold adjusted, rec_tangents in *.
  destruct (ltb O r (ofZ O 0)) eqn:Hc.
  - destruct (negb ((0 <? sp')%Z && (sp' <? Z.of_nat (length pts) - 1)%Z)) eqn:Hin; [discriminate|].
    apply negb_false_iff, andb_true_iff in Hin. destruct Hin as [H1 H2]. apply Z.ltb_lt in H1, H2. lia.
  - injection Hadj as <-. eapply Hr; eassumption.
Qed.
Lemma split_point_interior pts t1 t2 bez r sp sp' rt :
  split_interior -> fit_len pts = true -> fit1 pts t1 t2 = FitOk bez r sp -> leb O (abs_ O r) (f1 O) = false ->
  adjusted (ltb O r (ofZ O 0)) sp (Z.of_nat (length pts)) t1 t2 = Some sp' ->
  rec_tangents (ltb O r (ofZ O 0)) pts sp' (Z.of_nat (length pts)) = Some rt ->
  (1 <= sp' <= Z.of_nat (length pts) - 2)%Z.
Proof.
  intros Hr Hl Hf Ha Hadj Htan. unfold adjusted, rec_tangents in *.
  destruct (ltb O r (ofZ O 0)) eqn:Hc.
  - destruct (negb ((0 <? sp')%Z && (sp' <? Z.of_nat (length pts) - 1)%Z)) eqn:Hin; [discriminate|].
    apply negb_false_iff, andb_true_iff in Hin. destruct Hin as [H1 H2]. apply Z.ltb_lt in H1, H2. lia.
  - injection Hadj as <-. eapply Hr; eassumption.
Qed.

Lemma slices_split (pts : list (pt T)) (k : Z) : (0 <= k < Z.of_nat (length pts))%Z ->
  exists a p b, pts = a ++ p :: b /\ slice_to pts (k + 1) = a ++ [p] /\ slice_from pts k = p :: b /\ length a = Z.to_nat k.
Proof.
  intros Hk. destruct (split_at pts (Z.to_nat k) ltac:(lia)) as (a & p & b & E1 & E2 & E3 & E4).
  exists a, p, b. unfold slice_to, slice_from. rewrite !norm_idx_in_range by lia.
  replace (Z.to_nat (k + 1)) with (S (Z.to_nat k)) by lia. auto.
Qed.

Lemma no_empty_cons e lg : no_empty (e :: lg) -> empty_return (ev_dec e) = false /\ no_empty lg.
Proof. intros H; split; [apply H; left; reflexivity|intros e' He'; apply H; right; exact He']. Qed.
Lemma no_empty_app l1 l2 : no_empty (l1 ++ l2) -> no_empty l1 /\ no_empty l2.
Proof. intros H; split; intros e He; apply H, in_or_app; auto. Qed.

Theorem result_covers : split_in_range -> forall fuel points t1 t2 B l lg,
  fitC fuel points t1 t2 B = (RList l, lg) -> no_empty lg -> covers points l.
Proof.
  intros Hr. induction fuel as [|f IH]; intros points t1 t2 B l lg H Hne; [simpl in H; discriminate|].
  apply fitC_step in H. inversion H; subst; clear H.
  - apply cov_one, acc_line.
  - apply no_empty_cons in Hne. destruct Hne as [Hne _]; discriminate.
  - apply cov_one. eapply acc_fit; eassumption.
  - apply no_empty_cons in Hne. destruct Hne as [_ Hne]. eapply IH; eassumption.
  - apply no_empty_cons in Hne. destruct Hne as [_ Hne]. eapply IH; eassumption.
  - apply no_empty_cons in Hne. destruct Hne as [Hne _]; discriminate.
  - apply no_empty_cons in Hne. destruct Hne as [Hne _]; discriminate.
  - match goal with H : py_concat _ _ = RList _ |- _ => apply py_concat_list in H; destruct H as (ll & rl & -> & -> & ->) end.
    apply no_empty_cons in Hne. destruct Hne as [_ Hne]. apply no_empty_app in Hne. destruct Hne as [HneL HneR].
    match goal with Hadj : adjusted _ _ _ _ _ = Some ?s, Htan : rec_tangents _ _ _ _ = Some _ |- _ =>
      pose proof (split_point_range _ _ _ _ _ _ _ _ Hr ltac:(eassumption) ltac:(eassumption) ltac:(eassumption) Hadj Htan) as Hsp end.
    destruct (slices_split _ _ Hsp) as (a & p & b & E1 & E2 & E3 & E4).
    rewrite E1. apply cov_app.
    + rewrite <- E2. eapply IH; eassumption.
    + rewrite <- E3. eapply IH; eassumption.
Qed.

(* ---------- chains ---------- *)
(* the cubics l form a connected chain from a to b: each starts exactly where its predecessor ended *)
Fixpoint chain_from (a : pt T) (l : list (seg4 T)) (b : pt T) : Prop :=
  match l with [] => a = b | c :: r => c0 c = a /\ chain_from (c3 c) r b end.
Lemma chain_from_app a l1 m l2 b : chain_from a l1 m -> chain_from m l2 b -> chain_from a (l1 ++ l2) b.
Proof. revert a; induction l1 as [|c l1 IH]; simpl; intros a H1 H2; [subst; exact H2|]. destruct H1; split; auto. Qed.
Lemma chain_from_first a c l b : chain_from a (c :: l) b -> c0 c = a.
Proof. simpl; tauto. Qed.
Lemma chain_from_last a l b d : l <> [] -> chain_from a l b -> c3 (last l d) = b.
Proof.
  revert a; induction l as [|c l IH]; intros a Hne H; [congruence|].
  destruct l as [|c' l]; simpl in *; [tauto|]. destruct H as [_ H]. apply (IH (c3 c)); [discriminate|exact H].
Qed.
Lemma chain_from_consecutive a l1 c c' l2 b : chain_from a (l1 ++ c :: c' :: l2) b -> c3 c = c0 c'.
Proof. revert a; induction l1 as [|x l1 IH]; simpl; intros a H; [symmetry; tauto|]. destruct H as [_ H]; eapply IH; exact H. Qed.

Lemma last_cons_indep {A} (p : A) r d d' : last (p :: r) d = last (p :: r) d'.
Proof. revert p; induction r as [|y r IH]; intros p; [reflexivity|]. change (last (y :: r) d = last (y :: r) d'). apply IH. Qed.
Lemma last_app_cons {A} (l : list A) p r d d' : last (l ++ p :: r) d = last (p :: r) d'.
Proof.
  induction l as [|x l IH]; [apply last_cons_indep|].
  change ((x :: l) ++ p :: r) with (x :: (l ++ p :: r)).
  destruct (l ++ p :: r) as [|y t] eqn:E; [destruct l; discriminate|].
  change (last (y :: t) d = last (p :: r) d'). exact IH.
Qed.

Lemma accepted_ends : ends_ok -> forall pts c, accepted pts c -> forall a m, pts = a :: m -> c0 c = a /\ c3 c = last pts a.
Proof.
  intros He pts c H; inversion H; subst; intros a' m E.
  - injection E as <- <-. split; reflexivity.
  - eapply He; eassumption.
Qed.

Lemma covers_chain : ends_ok -> forall pts l, covers pts l -> forall a m, pts = a :: m -> chain_from a l (last pts a) /\ l <> [].
Proof.
  intros He pts l H; induction H as [pts c Hacc|l p r cl cr H1 IH1 H2 IH2]; intros a m E.
  - destruct (accepted_ends He _ _ Hacc _ _ E) as [E0 E3]. simpl. split; [auto|discriminate].
  - destruct (IH2 p r eq_refl) as [C2 N2].
    destruct l as [|x l]; simpl in E.
    + injection E as <- <-. destruct (IH1 p [] eq_refl) as [C1 N1]. simpl in C1.
      split; [|destruct cl; [congruence|discriminate]].
      eapply chain_from_app; [exact C1|]. simpl app. exact C2.
    + injection E as <- <-. destruct (IH1 x (l ++ [p]) eq_refl) as [C1 N1].
      split; [|destruct cl; [congruence|discriminate]].
      eapply chain_from_app; [exact C1|].
      change (x :: l ++ [p]) with ((x :: l) ++ [p]). rewrite (last_app_cons (x :: l) p [] x p). simpl last at 1.
      change (x :: l ++ p :: r) with ((x :: l) ++ p :: r). rewrite (last_app_cons (x :: l) p r x p). exact C2.
Qed.

(* the chain starts exactly at the first point, ends exactly at the last, and is connected -- whenever no call
   returned [] *)
Theorem chain_if_no_empty : split_in_range -> ends_ok -> forall fuel a m t1 t2 B l lg,
  fitC fuel (a :: m) t1 t2 B = (RList l, lg) -> no_empty lg -> chain_from a l (last (a :: m) a) /\ l <> [].
Proof. intros Hr He fuel a m t1 t2 B l lg H Hne. eapply covers_chain; eauto. eapply result_covers; eauto. Qed.

Theorem ends_interpolated : split_in_range -> ends_ok -> forall fuel a m t1 t2 B l lg d,
  fitC fuel (a :: m) t1 t2 B = (RList l, lg) -> no_empty lg ->
  l <> [] /\ c0 (hd d l) = a /\ c3 (last l d) = last (a :: m) a.
Proof.
  intros Hr He fuel a m t1 t2 B l lg d H Hne. destruct (chain_if_no_empty Hr He _ _ _ _ _ _ _ _ H Hne) as [C N].
  split; [exact N|]. split.
  - destruct l; [congruence|]. simpl. eapply chain_from_first; exact C.
  - eapply chain_from_last; eassumption.
Qed.

Theorem chain_connected_if_no_empty : split_in_range -> ends_ok -> forall fuel a m t1 t2 B l lg l1 c c' l2,
  fitC fuel (a :: m) t1 t2 B = (RList l, lg) -> no_empty lg -> l = l1 ++ c :: c' :: l2 -> c3 c = c0 c'.
Proof.
  intros Hr He fuel a m t1 t2 B l lg l1 c c' l2 H Hne ->. destruct (chain_if_no_empty Hr He _ _ _ _ _ _ _ _ H Hne) as [C _].
  eapply chain_from_consecutive; exact C.
Qed.

(* every input point lies in a run whose cubic was accepted; every cubic is the accepted fit of a contiguous run *)
Lemma covers_points pts l : covers pts l -> forall p, In p pts -> exists sub c, In c l /\ accepted sub c /\ In p sub.
Proof.
  induction 1 as [pts c Hacc|l p r cl cr H1 IH1 H2 IH2]; intros q Hq.
  - exists pts, c. simpl; auto.
  - apply in_app_or in Hq. destruct Hq as [Hq|Hq].
    + destruct (IH1 q ltac:(apply in_or_app; auto)) as (sub & c & Hc & Ha & Hs). exists sub, c. split; [apply in_or_app; auto|auto].
    + destruct (IH2 q Hq) as (sub & c & Hc & Ha & Hs). exists sub, c. split; [apply in_or_app; auto|auto].
Qed.
Lemma covers_pieces pts l : covers pts l -> forall c, In c l -> exists sub pre post, accepted sub c /\ pts = pre ++ sub ++ post.
Proof.
  induction 1 as [pts c Hacc|l p r cl cr H1 IH1 H2 IH2]; intros c' Hc.
  - destruct Hc as [<-|[]]. exists pts, [], []. rewrite app_nil_r. auto.
  - apply in_app_or in Hc. destruct Hc as [Hc|Hc].
    + destruct (IH1 c' Hc) as (sub & pre & post & Ha & E). exists sub, pre, (post ++ r). split; [exact Ha|].
      change (l ++ p :: r) with (l ++ [p] ++ r). rewrite app_assoc, E, <- !app_assoc. reflexivity.
    + destruct (IH2 c' Hc) as (sub & pre & post & Ha & E). exists sub, (l ++ pre), post. split; [exact Ha|].
      rewrite E, <- app_assoc. reflexivity.
Qed.

Theorem accepted_pieces : split_in_range -> forall fuel points t1 t2 B l lg,
  fitC fuel points t1 t2 B = (RList l, lg) -> no_empty lg ->
  (forall c, In c l -> exists sub pre post, accepted sub c /\ points = pre ++ sub ++ post) /\
  (forall p, In p points -> exists sub c, In c l /\ accepted sub c /\ In p sub).
Proof.
  intros Hr fuel points t1 t2 B l lg H Hne. pose proof (result_covers Hr _ _ _ _ _ _ _ H Hne) as C.
  split; [apply covers_pieces; exact C|apply covers_points; exact C].
Qed.

(* ---------- budget ---------- *)
Lemma slices_lengths (pts : list (pt T)) (k : Z) : (0 <= k < Z.of_nat (length pts))%Z ->
  length (slice_to pts (k + 1)) = S (Z.to_nat k) /\ length (slice_from pts k) = (length pts - Z.to_nat k)%nat.
Proof.
  intros Hk. destruct (slices_split _ _ Hk) as (a & p & b & E1 & E2 & E3 & E4).
  rewrite E2, E3. assert (length pts = (length a + S (length b))%nat) by (rewrite E1, app_length; reflexivity).
  rewrite app_length. simpl. lia.
Qed.

(* a call on k >= 2 points returns at most k - 1 cubics *)
Theorem count_le_points : split_interior -> forall fuel points t1 t2 B l lg,
  (2 <= length points)%nat -> fitC fuel points t1 t2 B = (RList l, lg) -> (length l <= length points - 1)%nat.
Proof.
  intros Hr. induction fuel as [|f IH]; intros points t1 t2 B l lg Hn H; [simpl in H; discriminate|].
  apply fitC_step in H. inversion H; subst; clear H; simpl; try lia.
  - eapply IH; eassumption.
  - eapply IH; eassumption.
  - match goal with H : py_concat _ _ = RList _ |- _ => apply py_concat_list in H; destruct H as (ll & rl & -> & -> & ->) end.
    match goal with Hadj : adjusted _ _ _ _ _ = Some ?s, Htan : rec_tangents _ _ _ _ = Some _ |- _ =>
      pose proof (split_point_interior _ _ _ _ _ _ _ _ Hr ltac:(eassumption) ltac:(eassumption) ltac:(eassumption) Hadj Htan) as Hsp end.
    destruct (slices_lengths points sp' ltac:(lia)) as [LL LR].
    match goal with H : fitC f (slice_to _ _) _ _ _ = _ |- _ => apply IH in H; [|lia] end.
    match goal with H : fitC f (slice_from _ _) _ _ _ = _ |- _ => apply IH in H; [|lia] end.
    rewrite app_length. lia.
Qed.

(* with a budget of at least (number of points - 1) the final `else: return []` is never reached *)
Theorem budget_suffices : split_interior -> forall fuel points t1 t2 B x lg,
  (2 <= length points)%nat -> (Z.of_nat (length points) - 1 <= B)%Z -> fitC fuel points t1 t2 B = (x, lg) ->
  forall e, In e lg -> forall r sp, ev_dec e <> DNoBudget r sp.
Proof.
  intros Hr. induction fuel as [|f IH]; intros points t1 t2 B x lg Hn HB H; [simpl in H; injection H as <- <-; intros ev0 []|].
  apply fitC_step in H. inversion H; subst; clear H; intros ev0 He r0 sp0.
  1-5: destruct He as [<-|[]]; simpl; discriminate.
  - destruct He as [<-|He]; [simpl; discriminate|]. eapply IH; eassumption.
  - destruct He as [<-|He]; [simpl; discriminate|]. eapply IH; eassumption.
  - match goal with H : fit_len _ = true |- _ => pose proof (fit_len_ge _ H Hn) end.
    match goal with H : (1 <? B)%Z = false |- _ => apply Z.ltb_ge in H end. lia.
  - destruct He as [<-|[]]; simpl; discriminate.
  - destruct He as [<-|[]]; simpl; discriminate.
  - destruct He as [<-|He]; [simpl; discriminate|].
    match goal with Hadj : adjusted _ _ _ _ _ = Some ?s, Htan : rec_tangents _ _ _ _ = Some _ |- _ =>
      pose proof (split_point_interior _ _ _ _ _ _ _ _ Hr ltac:(eassumption) ltac:(eassumption) ltac:(eassumption) Hadj Htan) as Hsp end.
    destruct (slices_lengths points sp' ltac:(lia)) as [LL LR].
    eapply (IH (slice_to points (sp' + 1))); cycle 2; [eassumption|eassumption|lia|lia].
  - destruct He as [<-|He]; [simpl; discriminate|].
    match goal with Hadj : adjusted _ _ _ _ _ = Some ?s, Htan : rec_tangents _ _ _ _ = Some _ |- _ =>
      pose proof (split_point_interior _ _ _ _ _ _ _ _ Hr ltac:(eassumption) ltac:(eassumption) ltac:(eassumption) Hadj Htan) as Hsp end.
    destruct (slices_lengths points sp' ltac:(lia)) as [LL LR].
    apply in_app_or in He. destruct He as [He|He].
    + eapply (IH (slice_to points (sp' + 1))); cycle 2; [eassumption|eassumption|lia|lia].
    + eapply (IH (slice_from points sp')); cycle 2; [eassumption|eassumption|lia|].
      unfold seg_remaining. destruct L as [|[|c ll]|e']; try lia.
      match goal with H : fitC f (slice_to _ _) _ _ _ = _ |- _ => apply (count_le_points Hr) in H; [|lia] end.
      simpl length in *. lia.
Qed.

(* ---------- the three `return []` exits ---------- *)
Lemma corner_adjusted_interior pts t1 t2 bez r sp sp' :
  corner_in_range -> fit_len pts = true -> (2 <= length pts)%nat -> fit1 pts t1 t2 = FitOk bez r sp ->
  leb O (abs_ O r) (f1 O) = false -> ltb O r (ofZ O 0) = true ->
  adjusted true sp (Z.of_nat (length pts)) t1 t2 = Some sp' -> (1 <= sp' <= Z.of_nat (length pts) - 2)%Z.
Proof.
  intros Hc Hl Hn Hf Ha Hlt Hadj. pose proof (Hc _ _ _ _ _ _ Hl Hf Ha Hlt) as Hsp. pose proof (fit_len_ge _ Hl Hn) as H3.
  unfold adjusted in Hadj.
  destruct (sp =? 0)%Z eqn:E0.
  - apply Z.eqb_eq in E0. destruct t1; [discriminate|]. injection Hadj as <-. lia.
  - apply Z.eqb_neq in E0. destruct (sp =? Z.of_nat (length pts) - 1)%Z eqn:E1.
    + apply Z.eqb_eq in E1. lia.
    + injection Hadj as <-. lia.
Qed.

(* with an interior split point from the numeric core, a corner index in 0..len-2, no "degenerate" verdict and a
   budget of at least len - 1, no call takes any of the three `return []` exits *)
Theorem no_empty_return : split_interior -> corner_in_range -> no_degenerate -> forall fuel points t1 t2 B x lg,
  (2 <= length points)%nat -> (Z.of_nat (length points) - 1 <= B)%Z -> fitC fuel points t1 t2 B = (x, lg) -> no_empty lg.
Proof.
  intros Hr Hc Hd. induction fuel as [|f IH]; intros points t1 t2 B x lg Hn HB H; [simpl in H; injection H as <- <-; intros ev0 []|].
  pose proof H as H'. apply fitC_step in H. inversion H; subst; clear H; intros ev0 He.
  - destruct He as [<-|[]]; reflexivity.
  - destruct He as [<-|[]]; reflexivity.
  - destruct He as [<-|[]]; reflexivity.
  - exfalso. eapply Hd; eassumption.
  - destruct He as [<-|[]]; reflexivity.
  - destruct He as [<-|He]; [reflexivity|]. eapply IH; eassumption.
  - destruct He as [<-|He]; [reflexivity|]. eapply IH; eassumption.
  - exfalso. eapply (budget_suffices Hr _ _ _ _ _ _ _ Hn HB H'); [left; reflexivity|reflexivity].
  - exfalso.
    match goal with Htan : rec_tangents ?c _ _ _ = None |- _ => unfold rec_tangents in Htan; destruct c eqn:Hlt end.
    + match goal with Hadj : adjusted true _ _ _ _ = Some _ |- _ =>
        pose proof (corner_adjusted_interior _ _ _ _ _ _ _ Hc ltac:(eassumption) Hn ltac:(eassumption) ltac:(eassumption) Hlt Hadj) as Hsp end.
      match goal with Htan : (if negb (?a && ?b) then _ else _) = None |- _ =>
        assert (a = true) by (apply Z.ltb_lt; lia); assert (b = true) by (apply Z.ltb_lt; lia) end.
      match goal with Ha : _ = true, Hb : _ = true, Htan : (if negb (_ && _) then _ else _) = None |- _ => rewrite Ha, Hb in Htan; simpl in Htan; discriminate end.
    + match goal with Htan : match ctan ?a ?b with _ => _ end = None |- _ => destruct (ctan a b); discriminate end.
  - destruct He as [<-|[]]; reflexivity.
  - destruct He as [<-|He]; [reflexivity|].
    match goal with Hadj : adjusted _ _ _ _ _ = Some ?s, Htan : rec_tangents _ _ _ _ = Some _ |- _ =>
      pose proof (split_point_interior _ _ _ _ _ _ _ _ Hr ltac:(eassumption) ltac:(eassumption) ltac:(eassumption) Hadj Htan) as Hsp end.
    destruct (slices_lengths points sp' ltac:(lia)) as [LL LR].
    eapply (IH (slice_to points (sp' + 1))); cycle 2; [eassumption|eassumption|lia|lia].
  - destruct He as [<-|He]; [reflexivity|].
    match goal with Hadj : adjusted _ _ _ _ _ = Some ?s, Htan : rec_tangents _ _ _ _ = Some _ |- _ =>
      pose proof (split_point_interior _ _ _ _ _ _ _ _ Hr ltac:(eassumption) ltac:(eassumption) ltac:(eassumption) Hadj Htan) as Hsp end.
    destruct (slices_lengths points sp' ltac:(lia)) as [LL LR].
    apply in_app_or in He. destruct He as [He|He].
    + eapply (IH (slice_to points (sp' + 1))); cycle 2; [eassumption|eassumption|lia|lia].
    + eapply (IH (slice_from points sp')); cycle 2; [eassumption|eassumption|lia|].
      unfold seg_remaining. destruct L as [|[|c ll]|e']; try lia.
      match goal with H : fitC f (slice_to _ _) _ _ _ = _ |- _ => apply (count_le_points Hr) in H; [|lia] end.
      simpl length in *. lia.
Qed.

(* ---------- the re-entry ---------- *)
(* a corner reported at index 0 while tangent1 is already Point(0.0, 0.0) re-enters with identical arguments: the model runs
   out of any amount of fuel (Python: RecursionError) *)
Theorem reentry_diverges : forall points t2 B bez r, fit_len points = true ->
  fit1 points (Some (zeroP O)) t2 = FitOk bez r 0%Z -> leb O (abs_ O r) (f1 O) = false -> ltb O r (ofZ O 0) = true ->
  forall fuel, fst (fitC fuel points (Some (zeroP O)) t2 B) = RRaise OutOfFuel.
Proof.
  intros points t2 B bez r Hl Hf Ha Hc. induction fuel as [|f IH]; [reflexivity|].
  destruct (fitC (S f) points (Some (zeroP O)) t2 B) as [x lg] eqn:E.
  apply fitC_step in E. inversion E; subst; clear E; try congruence;
    try (match goal with H : fit_len _ = true |- _ => simpl in H; discriminate end).
  1: match goal with H : fitC f _ _ _ _ = (x, _) |- _ => rewrite H in IH; exact IH end.
  all: match goal with H : fit1 _ _ _ = FitOk _ _ _ |- _ => rewrite Hf in H; injection H as <- <- <- end.
  all: match goal with H : adjusted _ _ _ _ _ = Some _ |- _ => rewrite Hc in H; simpl in H; discriminate end.
Qed.

(* ---------- totality: under the hypotheses on the numeric core the only abnormal outcome is the re-entry ---------- *)
Variable Inv : list (pt T) -> Prop.     (* a property of the data preserved by splitting (Part 3: neighbouring points differ) *)
Definition inv_slices : Prop := forall pts k, Inv pts -> (1 <= k <= Z.of_nat (length pts) - 2)%Z ->
  Inv (slice_to pts (k + 1)) /\ Inv (slice_from pts k).
Definition no_raise_inv : Prop := forall pts t1 t2 e, Inv pts -> fit_len pts = true -> (2 <= length pts)%nat -> fit1 pts t1 t2 <> FitRaise e.
Definition ctan_ok : Prop := forall pts k, (1 <= k <= Z.of_nat (length pts) - 2)%Z -> ctan pts k <> None.

Theorem total_or_diverges : split_interior -> corner_in_range -> inv_slices -> no_raise_inv -> ctan_ok ->
  forall fuel points t1 t2 B x lg, Inv points -> (2 <= length points)%nat ->
  fitC fuel points t1 t2 B = (x, lg) -> x = RRaise OutOfFuel \/ exists l, x = RList l.
Proof.
  intros Hr Hc Hi Hnr Hct. induction fuel as [|f IH]; intros points t1 t2 B x lg HI Hn H; [simpl in H; injection H as <- <-; auto|].
  apply fitC_step in H. inversion H; subst; clear H; eauto.
  - simpl in Hn; lia.
  - exfalso. eapply Hnr; eassumption.
  - exfalso.
    match goal with Htan : rec_tangents ?c _ _ _ = Some None |- _ => unfold rec_tangents in Htan; destruct c eqn:Hlt end.
    + match goal with Htan : (if ?b then _ else _) = Some None |- _ => destruct b; discriminate end.
    + match goal with Hadj : adjusted false _ _ _ _ = Some _ |- _ => simpl in Hadj; injection Hadj as <- end.
      match goal with Hf : fit1 _ _ _ = FitOk _ _ _ |- _ => pose proof (Hr _ _ _ _ _ _ ltac:(eassumption) Hf ltac:(eassumption) Hlt) as Hsp end.
      match goal with Htan : match ctan ?a ?b with _ => _ end = Some None |- _ => destruct (ctan a b) eqn:E; [discriminate|] end.
      eapply Hct; eassumption.
  - match goal with Hadj : adjusted _ _ _ _ _ = Some ?s, Htan : rec_tangents _ _ _ _ = Some _ |- _ =>
      pose proof (split_point_interior _ _ _ _ _ _ _ _ Hr ltac:(eassumption) ltac:(eassumption) ltac:(eassumption) Hadj Htan) as Hsp end.
    destruct (slices_lengths points sp' ltac:(lia)) as [LL LR]. destruct (Hi _ _ HI Hsp) as [IL IR].
    match goal with H : fitC f (slice_to _ _) _ _ _ = _ |- _ => apply IH in H; [|assumption|lia] end.
    match goal with H : RRaise _ = RRaise OutOfFuel \/ _ |- _ => destruct H as [H|[l H]]; [auto|discriminate] end.
  - match goal with Hadj : adjusted _ _ _ _ _ = Some ?s, Htan : rec_tangents _ _ _ _ = Some _ |- _ =>
      pose proof (split_point_interior _ _ _ _ _ _ _ _ Hr ltac:(eassumption) ltac:(eassumption) ltac:(eassumption) Hadj Htan) as Hsp end.
    destruct (slices_lengths points sp' ltac:(lia)) as [LL LR]. destruct (Hi _ _ HI Hsp) as [IL IR].
    match goal with H : fitC f (slice_to _ _) _ _ _ = _ |- _ => apply IH in H; [|assumption|lia] end.
    match goal with H : fitC f (slice_from _ _) _ _ _ = _ |- _ => apply IH in H; [|assumption|lia] end.
    match goal with H : L = RRaise OutOfFuel \/ _ |- _ => destruct H as [->|[ll ->]]; [discriminate|] end.
    match goal with H : _ = RRaise OutOfFuel \/ _ |- _ => destruct H as [->|[rl ->]]; [left; reflexivity|right; simpl; eauto] end.
Qed.

(* conversely the model only runs out of fuel through that re-entry: if the numeric core never reports a corner at index 0 when
   tangent1 is already Point(0.0, 0.0), fuel 2 * len suffices *)
Definition no_stuck_reentry : Prop := forall pts t2 bez r, fit_len pts = true -> fit1 pts (Some (zeroP O)) t2 = FitOk bez r 0%Z ->
  leb O (abs_ O r) (f1 O) = false -> ltb O r (ofZ O 0) = true -> False.
Definition no_fuel_raise : Prop := forall pts t1 t2, fit1 pts t1 t2 <> FitRaise OutOfFuel.

Lemma py_concat_fuel (L R : pyres (seg4 T)) : py_concat L R = RRaise OutOfFuel -> L = RRaise OutOfFuel \/ R = RRaise OutOfFuel.
Proof. destruct L as [|ll|e], R as [|rl|e']; simpl; intros H; try discriminate; auto. Qed.

Lemma fuel_step : split_interior -> corner_in_range -> no_stuck_reentry -> no_fuel_raise -> forall n f,
  (forall pts t1 t2 B, (2 <= length pts <= n)%nat -> fst (fitC f pts t1 t2 B) <> RRaise OutOfFuel) ->
  forall points t1 t2 B, (2 <= length points <= S n)%nat ->
  (t1 = Some (zeroP O) \/ fst (fitC f points (Some (zeroP O)) t2 B) <> RRaise OutOfFuel) ->
  fst (fitC (S f) points t1 t2 B) <> RRaise OutOfFuel.
Proof.
  intros Hr Hc Hs Hnf n f Hok points t1 t2 B Hn Hre.
  destruct (fitC (S f) points t1 t2 B) as [x lg] eqn:E.
  apply fitC_step in E. inversion E; subst; clear E; simpl; try discriminate.
  - intros [= ->]. eapply Hnf; eassumption.
  - destruct Hre as [Hre|Hre].
    + injection Hre as ->. exfalso. eapply Hs; eassumption.
    + match goal with H : fitC f _ _ _ _ = (x, _) |- _ => rewrite H in Hre; exact Hre end.
  - exfalso.
    match goal with Hf : fit1 _ _ _ = FitOk _ _ _ |- _ => pose proof (Hc _ _ _ _ _ _ ltac:(eassumption) Hf ltac:(eassumption) ltac:(eassumption)) end. lia.
  - match goal with Hadj : adjusted _ _ _ _ _ = Some ?s, Htan : rec_tangents _ _ _ _ = Some _ |- _ =>
      pose proof (split_point_interior _ _ _ _ _ _ _ _ Hr ltac:(eassumption) ltac:(eassumption) ltac:(eassumption) Hadj Htan) as Hsp end.
    destruct (slices_lengths points sp' ltac:(lia)) as [LL LR].
    match goal with H : fitC f (slice_to ?p ?k) ?a ?b ?c = _ |- _ => pose proof (Hok (slice_to p k) a b c ltac:(lia)) as Hl; rewrite H in Hl; exact Hl end.
  - match goal with Hadj : adjusted _ _ _ _ _ = Some ?s, Htan : rec_tangents _ _ _ _ = Some _ |- _ =>
      pose proof (split_point_interior _ _ _ _ _ _ _ _ Hr ltac:(eassumption) ltac:(eassumption) ltac:(eassumption) Hadj Htan) as Hsp end.
    destruct (slices_lengths points sp' ltac:(lia)) as [LL LR].
    intros Hcat. apply py_concat_fuel in Hcat. destruct Hcat as [->| ->].
    + match goal with H : fitC f (slice_to ?p ?k) ?a ?b ?c = _ |- _ => pose proof (Hok (slice_to p k) a b c ltac:(lia)) as Hl; rewrite H in Hl; apply Hl; reflexivity end.
    + match goal with H : fitC f (slice_from ?p ?k) ?a ?b ?c = _ |- _ => pose proof (Hok (slice_from p k) a b c ltac:(lia)) as Hl; rewrite H in Hl; apply Hl; reflexivity end.
Qed.

Theorem fuel_suffices : split_interior -> corner_in_range -> no_stuck_reentry -> no_fuel_raise ->
  forall n points t1 t2 B fuel, (2 <= length points <= n)%nat -> (2 * n <= fuel)%nat ->
  fst (fitC fuel points t1 t2 B) <> RRaise OutOfFuel.
Proof.
  intros Hr Hc Hs Hnf. induction n as [|n IH]; intros points t1 t2 B fuel Hn Hf; [lia|].
  destruct fuel as [|[|f]]; try lia.
  assert (Hok : forall g, (2 * n <= g)%nat -> forall pts t1 t2 B, (2 <= length pts <= n)%nat -> fst (fitC g pts t1 t2 B) <> RRaise OutOfFuel).
  { intros g Hg pts u1 u2 B' Hp. apply IH; assumption. }
  apply (fuel_step Hr Hc Hs Hnf n (S f) (Hok (S f) ltac:(lia))); [assumption|].
  right. apply (fuel_step Hr Hc Hs Hnf n f (Hok f ltac:(lia))); [assumption|]. left; reflexivity.
Qed.
End Skel.

(* ================================================================================================ *)
(* Part 2: fitCurve's adjacent-duplicate filter (real instance: float `!=` is exact inequality)      *)
(* ================================================================================================ *)
Lemma pt_eq_dec (a b : pt R) : {a = b} + {a <> b}.
Proof.
  destruct a as [ax ay], b as [bx by_]. destruct (Req_EM_T ax bx) as [->|Hx]; [destruct (Req_EM_T ay by_) as [->|Hy]|].
  - left; reflexivity.
  - right; intros [=]; contradiction.
  - right; intros [=]; contradiction.
Qed.
Lemma pt_differs_true (x y : pt R) : pt_differs ROps x y = true <-> x <> y.
Proof.
  destruct x as [ax ay], y as [bx by_]. unfold pt_differs, neqb. simpl px; simpl py.
  rewrite orb_true_iff, !negb_true_iff, !Reqb_false. split.
  - intros [H|H] [=]; contradiction.
  - intros H. destruct (Req_EM_T ax bx) as [->|Hx]; [right; intros ->; apply H; reflexivity|left; exact Hx].
Qed.
Lemma pt_differs_false (x y : pt R) : pt_differs ROps x y = false <-> x = y.
Proof.
  split; intros H.
  - destruct (pt_eq_dec x y) as [E|N]; [exact E|]. apply pt_differs_true in N. congruence.
  - destruct (pt_differs ROps x y) eqn:E; [|reflexivity]. apply pt_differs_true in E. contradiction.
Qed.

(* the specification: the first point is kept, and the i-th point (i >= 1) is kept iff it differs from the (i-1)-th INPUT point *)
Definition differs_b (pq : pt R * pt R) : bool := if pt_eq_dec (fst pq) (snd pq) then false else true.
Definition kept_spec (l : list (pt R)) : list (pt R) :=
  match l with [] => [] | x :: r => x :: map snd (filter differs_b (combine (x :: r) r)) end.

Lemma dedup_from_spec (x : pt R) r : dedup_from ROps x r = map snd (filter differs_b (combine (x :: r) r)).
Proof.
  revert x; induction r as [|y r IH]; intros x; [reflexivity|].
  change (combine (x :: y :: r) (y :: r)) with ((x, y) :: combine (y :: r) r).
  simpl dedup_from. simpl filter. unfold differs_b at 1. simpl fst; simpl snd.
  destruct (pt_eq_dec x y) as [->|N].
  - replace (pt_differs ROps y y) with false by (symmetry; apply pt_differs_false; reflexivity). apply IH.
  - replace (pt_differs ROps y x) with true by (symmetry; apply pt_differs_true; congruence). simpl. f_equal. apply IH.
Qed.

(* fitCurve removes exactly the points equal to their predecessor *)
Theorem dedup_consecutive_only (l : list (pt R)) : dedup ROps l = kept_spec l.
Proof. destruct l as [|x r]; [reflexivity|]. simpl. f_equal. apply dedup_from_spec. Qed.

Lemma dedup_from_last (x : pt R) r : last (x :: dedup_from ROps x r) x = last (x :: r) x.
Proof.
  revert x; induction r as [|y r IH]; intros x; [reflexivity|].
  simpl dedup_from. destruct (pt_differs ROps y x) eqn:E.
  - change (last (y :: dedup_from ROps y r) x = last (y :: r) x).
    rewrite (last_cons_indep y (dedup_from ROps y r) x y), (last_cons_indep y r x y). apply IH.
  - apply pt_differs_false in E. subst y. rewrite IH. reflexivity.
Qed.
(* the first and the last input point always survive (in particular a last point equal to the first one) *)
Theorem dedup_first_last (x : pt R) r : exists r', dedup ROps (x :: r) = x :: r' /\ last (dedup ROps (x :: r)) x = last (x :: r) x.
Proof. exists (dedup_from ROps x r). split; [reflexivity|apply dedup_from_last]. Qed.

(* neighbouring points differ *)
Fixpoint adjdist (l : list (pt R)) : Prop :=
  match l with x :: r => match r with y :: _ => x <> y | [] => True end /\ adjdist r | [] => True end.
Lemma dedup_from_adjdist (x : pt R) r : adjdist (x :: dedup_from ROps x r).
Proof.
  revert x; induction r as [|y r IH]; intros x; [simpl; auto|].
  simpl dedup_from. destruct (pt_differs ROps y x) eqn:E; [|apply IH].
  apply pt_differs_true in E. split; [congruence|apply IH].
Qed.
Theorem dedup_adjdist (l : list (pt R)) : adjdist (dedup ROps l).
Proof. destruct l as [|x r]; [exact I|apply dedup_from_adjdist]. Qed.

(* a sequence with two distinct points keeps at least two points: fitCurve does not take its `return` (None) exit *)
Lemma dedup_from_nonempty (x : pt R) r : (exists y, In y r /\ y <> x) -> dedup_from ROps x r <> [].
Proof.
  induction r as [|z r IH]; intros (y & Hy & N); [destruct Hy|].
  simpl. destruct (pt_differs ROps z x) eqn:E; [discriminate|].
  apply pt_differs_false in E. subst z. apply IH. exists y. destruct Hy as [<-|Hy]; [contradiction|auto].
Qed.
Theorem dedup_two_distinct (l : list (pt R)) a b : In a l -> In b l -> a <> b -> (2 <= length (dedup ROps l))%nat.
Proof.
  intros Ha Hb N. destruct l as [|x r]; [destruct Ha|].
  assert (H : dedup_from ROps x r <> []).
  { apply dedup_from_nonempty. destruct (pt_eq_dec a x) as [->|Nx].
    - exists b. destruct Hb as [<-|Hb]; [contradiction|]. split; [exact Hb|congruence].
    - exists a. destruct Ha as [<-|Ha]; [contradiction|]. auto. }
  simpl. destruct (dedup_from ROps x r); [contradiction|simpl; lia].
Qed.
Example dedup_closing_stroke :
  dedup ROps [P 0 0; P 0 0; P 1 0; P 1 1; P 1 1; P 0 0] = [P 0 0; P 1 0; P 1 1; P 0 0].
Proof.
  rewrite dedup_consecutive_only. unfold kept_spec. simpl combine.
  assert (Hs : forall a : pt R, differs_b (a, a) = false) by (intros a; unfold differs_b; simpl; destruct (pt_eq_dec a a); congruence).
  assert (Hd : forall a b : pt R, a <> b -> differs_b (a, b) = true) by (intros a b N; unfold differs_b; simpl; destruct (pt_eq_dec a b); congruence).
  cbn [filter]. rewrite !Hs. rewrite !Hd by (intros [=]; lra). reflexivity.
Qed.

(* ================================================================================================ *)
(* Part 3: the transcribed numeric core                                                              *)
(* ================================================================================================ *)
Section NumGeneric.
Context {T : Type} (O : Ops T).

(* estimateLengths builds CubicBezier(data[0], .., .., data[-1]) *)
Lemma estimateLengths_ends data d0 dl u tH1 tH2 :
  c0 (estimateLengths O data d0 dl u tH1 tH2) = d0 /\ c3 (estimateLengths O data d0 dl u tH1 tH2) = dl.
Proof.
  unfold estimateLengths.
  destruct (fold_left (el_step O d0 dl tH1 tH2) (combine u data) (f0 O, f0 O, f0 O, f0 O, f0 O)) as [[[[C00 C01] C11] X0] X1].
  repeat match goal with |- context [if ?b then _ else _] => destruct b end; split; reflexivity.
Qed.
Lemma generateBezier_ends data d0 dl u t1 t2 tolsq bez :
  generateBezier O data d0 dl u t1 t2 tolsq = Some bez -> c0 bez = d0 /\ c3 bez = dl.
Proof.
  unfold generateBezier. intros H.
  destruct (match t1 with Some t => Some t | None => leftTangent O data tolsq end) as [e1|]; [|discriminate].
  destruct (match t2 with Some t => Some t | None => rightTangent O data tolsq end) as [e2|]; [|discriminate].
  destruct t1; injection H as <-; apply estimateLengths_ends.
Qed.
Lemma fit_iter_ends k points d0 dl u t1 t2 error tol cT bz rr ss bez r sp :
  c0 bz = d0 /\ c3 bz = dl ->
  fit_iter O k points d0 dl u t1 t2 error tol cT (bz, rr, ss) = FitOk bez r sp -> c0 bez = d0 /\ c3 bez = dl.
Proof.
  revert bz rr ss; induction k as [|k IH]; intros bz rr ss Hb H; simpl in H.
  - injection H as <- _ _. exact Hb.
  - destruct (generateBezier O points d0 dl u t1 t2 error) as [b'|] eqn:G; [|discriminate].
    destruct (computeMaxError O b' points u tol cT) as [[r' sp']|]; [|discriminate].
    apply generateBezier_ends in G.
    destruct (leb O (abs_ O r') (f1 O)); [injection H as <- _ _; exact G|eapply IH; eassumption].
Qed.
(* every fit the numeric core reports starts at the first and ends at the last point of its input *)
Theorem ends_ok_num error cT : ends_ok (fit1_num O error cT).
Proof.
  intros pts t1 t2 bez r sp a m -> H. unfold fit1_num in H.
  destruct (chordLengthParameterize O (a :: m)) as [u|]; [|discriminate].
  destruct (eqb O (last u (f0 O)) (f0 O)); [discriminate|].
  destruct (generateBezier O (a :: m) a (last (a :: m) a) u t1 t2 error) as [b|] eqn:G; [|discriminate].
  destruct (reparameterize O b (a :: m) u) as [u'|]; [|discriminate].
  destruct (ltb O (add O error _) (ofZ O 0)); [discriminate|].
  destruct (computeMaxError O b (a :: m) u' _ cT) as [[r' sp']|]; [|discriminate].
  apply generateBezier_ends in G.
  destruct (leb O (abs_ O r') (f1 O)); [injection H as <- _ _; exact G|].
  destruct (leb O (f0 O) r' && leb O r' (f3 O)); [eapply fit_iter_ends; eassumption|injection H as <- _ _; exact G].
Qed.
(* fitLine(data, ..) = CubicBezier(data[0], .., .., data[-1]) *)
Lemma fitLine_ends a b t1 t2 : c0 (fitLine O a b t1 t2) = a /\ c3 (fitLine O a b t1 t2) = b.
Proof. split; reflexivity. Qed.

(* centerTangent raises IndexError only for an index outside 1 .. len-2 (more precisely: only if center+1 >= len) *)
Lemma py_nth_in_range {A} (l : list A) k : (0 <= k < Z.of_nat (length l))%Z -> py_nth l k <> None.
Proof.
  intros H. unfold py_nth. destruct (Z.ltb_spec k 0); [lia|].
  destruct (Z.ltb_spec k 0); [lia|]. destruct (Z.leb_spec (Z.of_nat (length l)) k); [lia|]. simpl.
  apply nth_error_Some. lia.
Qed.
Theorem ctan_ok_num : ctan_ok (centerTangent O).
Proof.
  intros pts k Hk. unfold centerTangent.
  destruct (py_nth pts (k + 1)) as [dn|] eqn:E1; [|exfalso; revert E1; apply py_nth_in_range; lia].
  destruct (py_nth pts (k - 1)) as [dp|] eqn:E2; [|exfalso; revert E2; apply py_nth_in_range; lia].
  destruct (py_nth pts k) as [dc|] eqn:E3; [|exfalso; revert E3; apply py_nth_in_range; lia].
  destruct (Point___eq__ O dn dp); discriminate.
Qed.
End NumGeneric.

Section NumR.
Notation sqd := (Point_squareDistanceFrom ROps).
Notation dist := (Point_distanceFrom ROps).
Notation cubic := (Cubic_pointAtTime ROps).

Lemma sqd_nonneg a b : 0 <= sqd a b.
Proof.
  destruct a as [ax ay], b as [bx by_]. unfold Point_squareDistanceFrom; simpl.
  pose proof (Rle_0_sqr (ax - bx)); pose proof (Rle_0_sqr (ay - by_)); unfold Rsqr in *; lra.
Qed.
Lemma sqd_zero a b : sqd a b = 0 <-> a = b.
Proof.
  destruct a as [ax ay], b as [bx by_]. unfold Point_squareDistanceFrom; simpl. split.
  - intros H. pose proof (Rle_0_sqr (ax - bx)) as H1; pose proof (Rle_0_sqr (ay - by_)) as H2; unfold Rsqr in *.
    assert (E1 : (ax - bx) * (ax - bx) = 0) by lra. assert (E2 : (ay - by_) * (ay - by_) = 0) by lra.
    apply Rmult_integral in E1, E2. f_equal; lra.
  - intros [= -> ->]. ring.
Qed.
Lemma dist_nonneg a b : 0 <= dist a b.
Proof. change (dist a b) with (sqrt (sqd a b)). apply sqrt_pos. Qed.
Lemma dist_pos a b : a <> b -> 0 < dist a b.
Proof.
  intros N. change (dist a b) with (sqrt (sqd a b)). apply sqrt_lt_R0.
  pose proof (sqd_nonneg a b). destruct (Req_dec (sqd a b) 0) as [E|E]; [apply sqd_zero in E; contradiction|lra].
Qed.
Lemma dist_self a : dist a a = 0.
Proof. change (dist a a) with (sqrt (sqd a a)). replace (sqd a a) with 0 by (symmetry; apply sqd_zero; reflexivity). apply sqrt_0. Qed.
Lemma cubic_at_0 bez : cubic bez 0 = c0 bez.
Proof. destruct bez as [[a b] [c d] [e f] [g h]]. unfold Cubic_pointAtTime; simpl. apply pt_eq; ring. Qed.
Lemma cubic_at_1 bez : cubic bez 1 = c3 bez.
Proof. destruct bez as [[a b] [c d] [e f] [g h]]. unfold Cubic_pointAtTime; simpl. apply pt_eq; ring. Qed.

(* ---------- chordLengthParameterize ---------- *)
Lemma cumdist_length prev v l : length (cumdist ROps prev v l) = length l.
Proof. revert prev v; induction l as [|p r IH]; intros; simpl; [reflexivity|f_equal; apply IH]. Qed.
Lemma cumdist_last_gt l : forall prev v d, l <> [] -> adjdist (prev :: l) -> v < last (cumdist ROps prev v l) d.
Proof.
  induction l as [|p r IH]; intros prev v d Hne Hadj; [congruence|].
  destruct Hadj as [Hpp Hadj]. pose proof (dist_pos p prev ltac:(congruence)) as Hd.
  simpl cumdist. destruct r as [|q r].
  - simpl. unfold dist in Hd; simpl in Hd. lra.
  - change (last (?a :: cumdist ROps p ?w (q :: r)) d) with (last (cumdist ROps p w (q :: r)) d).
    eapply Rlt_trans; [|apply IH; [discriminate|exact Hadj]]. simpl; unfold dist in Hd; simpl in Hd; lra.
Qed.
Lemma last_map {A B} (f : A -> B) l d : last (map f l) (f d) = f (last l d).
Proof. induction l as [|x l IH]; [reflexivity|]. destruct l; [reflexivity|]. exact IH. Qed.

Lemma chord_some pts u : chordLengthParameterize ROps pts = Some u ->
  length u = length pts /\ last u 0 = 1 /\ exists r, u = 0 :: r.
Proof.
  unfold chordLengthParameterize.
  remember (match pts with [] => [] | p0 :: rest => cumdist ROps p0 (ofZ ROps 0) rest end) as cs eqn:Hcs.
  remember (last cs (ofZ ROps 0)) as v eqn:Hv.
  destruct (eqb ROps v (ofZ ROps 0)) eqn:E; [discriminate|]. apply Reqb_false in E. intros [= <-].
  assert (Hne : cs <> []) by (intros ->; apply E; rewrite Hv; reflexivity).
  split; [|split].
  - simpl length. rewrite map_length. destruct pts; [exfalso; apply Hne; rewrite Hcs; reflexivity|]. rewrite Hcs. simpl. f_equal. apply cumdist_length.
  - destruct cs as [|c cs']; [congruence|].
    set (f := fun n : R => dvd ROps n v).
    change (last (f c :: map f cs') 0 = 1).
    rewrite (last_cons_indep (f c) (map f cs') 0 (f 0)).
    change (f c :: map f cs') with (map f (c :: cs')). rewrite last_map.
    change (last (c :: cs') 0) with (last (c :: cs') (ofZ ROps 0)). rewrite <- Hv. unfold f; simpl. field. exact E.
  - eexists. f_equal. field. exact E.
Qed.
Lemma chord_ok pts : adjdist pts -> (2 <= length pts)%nat -> chordLengthParameterize ROps pts <> None.
Proof.
  intros Hadj Hn. unfold chordLengthParameterize. destruct pts as [|p0 [|p1 rest]]; simpl in Hn; try lia.
  pose proof (cumdist_last_gt (p1 :: rest) p0 (ofZ ROps 0) (ofZ ROps 0) ltac:(discriminate) Hadj) as H.
  destruct (eqb ROps _ _) eqn:E; [|discriminate]. apply Reqb_true in E. rewrite E in H. simpl in H. lra.
Qed.
Lemma fit_iter_not_degenerate k points d0 dl u t1 t2 error tol cT cur :
  fit_iter ROps k points d0 dl u t1 t2 error tol cT cur <> FitDegenerate.
Proof.
  revert cur; induction k as [|k IH]; intros [[bz rr] ss]; cbn [fit_iter]; [discriminate|].
  destruct (generateBezier ROps points d0 dl u t1 t2 error) as [b'|]; [|discriminate].
  destruct (computeMaxError ROps b' points u tol cT) as [[r' sp']|]; [|discriminate].
  destruct (leb ROps (abs_ ROps r') (f1 ROps)); [discriminate|apply IH].
Qed.
(* the `u[-1] == 0.0: return []` exit is dead: u[-1] = v / v *)
Theorem no_degenerate_num error cT : no_degenerate (fit1_num ROps error cT).
Proof.
  intros pts t1 t2 H. unfold fit1_num in H.
  destruct (chordLengthParameterize ROps pts) as [u|] eqn:E; [|discriminate].
  destruct (chord_some _ _ E) as (_ & Hl & _).
  destruct (eqb ROps (last u (f0 ROps)) (f0 ROps)) eqn:E0.
  - apply Reqb_true in E0. unfold f0 in E0; simpl in E0. replace (0 / 1) with 0 in E0 by field. rewrite Hl in E0. lra.
  - destruct pts as [|d0 rest]; [discriminate|].
    destruct (generateBezier ROps (d0 :: rest) d0 (last (d0 :: rest) d0) u t1 t2 error) as [b|]; [|discriminate].
    destruct (reparameterize ROps b (d0 :: rest) u) as [u'|]; [|discriminate].
    destruct (ltb ROps (add ROps error _) (ofZ ROps 0)); [discriminate|].
    destruct (computeMaxError ROps b (d0 :: rest) u' _ cT) as [[r' sp']|]; [|discriminate].
    destruct (leb ROps (abs_ ROps r') (f1 ROps)); [discriminate|].
    destruct (leb ROps (f0 ROps) r' && leb ROps r' (f3 ROps)); [|discriminate].
    revert H. apply fit_iter_not_degenerate.
Qed.
(* ---------- newtonRaphsonFind at the last data point ---------- *)
Lemma nr_loop_stop f bez p u d2 prop iu : dist p (cubic bez iu) <= d2 -> nr_loop ROps (S f) bez p u d2 prop iu = Some iu.
Proof.
  intros H. cbn [nr_loop]. replace (ltb ROps d2 (dist p (cubic bez iu))) with false; [reflexivity|].
  symmetry. apply Rltb_false. exact H.
Qed.
Lemma psub_self (a : pt R) : Point___sub__ ROps a a = P 0 0.
Proof. destruct a as [x y]. unfold Point___sub__; simpl. apply pt_eq; ring. Qed.
Lemma dot_zero_l (q : pt R) : Point_dot ROps (P 0 0) q = 0.
Proof. destruct q as [x y]. unfold Point_dot; simpl. ring. Qed.

Lemma newton_at_end bez : newtonRaphsonFind ROps bez (c3 bez) 1 = Some 1.
Proof.
  unfold newtonRaphsonFind. cbv zeta. rewrite !cubic_at_1, psub_self, !dot_zero_l, dist_self.
  set (q1 := Quad_pointAtTime ROps (Cubic_derivative ROps bez) 1).
  match goal with |- nr_loop _ _ _ _ _ _ _ ?iu = _ => assert (Hiu : iu = 1) end.
  { assert (H0 : ltb ROps (f0 ROps) 0 = false) by (apply Rltb_false; unfold f0; simpl; lra).
    assert (H0' : ltb ROps 0 (f0 ROps) = false) by (apply Rltb_false; unfold f0; simpl; lra).
    rewrite H0, H0'.
    assert (HX : (if ltb ROps (f0 ROps) (add ROps (Point_dot ROps q1 q1) 0) then sub ROps 1 (dvd ROps 0 (add ROps (Point_dot ROps q1 q1) 0)) else 1) = 1).
    { destruct (ltb ROps (f0 ROps) (add ROps (Point_dot ROps q1 q1) 0)); [|reflexivity]. simpl. unfold Rdiv. ring. }
    rewrite HX.
    replace (ltb ROps 1 (ofZ ROps 0)) with false by (symmetry; apply Rltb_false; simpl; lra).
    replace (ltb ROps (ofZ ROps 1) 1) with false by (symmetry; apply Rltb_false; simpl; lra). reflexivity. }
  rewrite Hiu. apply nr_loop_stop. rewrite cubic_at_1, dist_self. lra.
Qed.

(* ---------- reparameterize ---------- *)
Lemma reparam_length bez : forall pts us us', reparameterize ROps bez pts us = Some us' -> length pts = length us -> length us' = length us.
Proof.
  induction pts as [|p pts IH]; intros us us' H Hl; destruct us as [|u us]; simpl in *; try discriminate; try congruence.
  - injection H as <-; reflexivity.
  - destruct (newtonRaphsonFind ROps bez p u) as [u1|]; [|discriminate].
    destruct (reparameterize ROps bez pts us) as [r|] eqn:E; [|discriminate]. injection H as <-. simpl. f_equal. eapply IH; [exact E|lia].
Qed.
Lemma reparam_last bez : forall pts us us' dp du, reparameterize ROps bez pts us = Some us' -> length pts = length us -> pts <> [] ->
  newtonRaphsonFind ROps bez (last pts dp) (last us du) = Some (last us' du).
Proof.
  induction pts as [|p pts IH]; intros us us' dp du H Hl Hne; [congruence|].
  destruct us as [|u us]; [simpl in Hl; lia|]. cbn [reparameterize] in H.
  destruct (newtonRaphsonFind ROps bez p u) as [u1|] eqn:N; [|discriminate].
  destruct (reparameterize ROps bez pts us) as [r|] eqn:E; [|discriminate]. injection H as <-.
  destruct pts as [|p' pts].
  - destruct us; [|simpl in Hl; lia]. simpl in E. injection E as <-. simpl. exact N.
  - destruct us as [|u' us]; [simpl in Hl; lia|].
    pose proof (reparam_length _ _ _ _ E ltac:(simpl in *; lia)) as Hlr. destruct r as [|r0 r]; [simpl in Hlr; lia|].
    change (last (p :: p' :: pts) dp) with (last (p' :: pts) dp). change (last (u :: u' :: us) du) with (last (u' :: us) du).
    change (last (u1 :: r0 :: r) du) with (last (r0 :: r) du).
    apply IH; [exact E|simpl in *; lia|discriminate].
Qed.

(* ---------- all parameters stay in [0, 1] ---------- *)
Definition unit_range (l : list R) : Prop := forall x, In x l -> 0 <= x <= 1.

Lemma last_indep {A} (l : list A) d d' : l <> [] -> last l d = last l d'.
Proof. destruct l as [|x l]; [congruence|]. intros _. apply last_cons_indep. Qed.

Lemma cumdist_bounds : forall l prev v x, In x (cumdist ROps prev v l) -> v <= x <= last (cumdist ROps prev v l) v.
Proof.
  induction l as [|p r IH]; intros prev v x Hx; [destruct Hx|].
  cbn [cumdist] in Hx |- *. set (v' := add ROps v (dist p prev)) in *.
  assert (Hv : v <= v') by (pose proof (dist_nonneg p prev); unfold v'; change (v <= v + dist p prev); lra).
  assert (Hl : v' <= last (v' :: cumdist ROps p v' r) v).
  { destruct r as [|q r]; [simpl; lra|].
    change (last (v' :: cumdist ROps p v' (q :: r)) v) with (last (cumdist ROps p v' (q :: r)) v).
    rewrite (last_indep _ v v') by (cbn [cumdist]; discriminate).
    pose proof (IH p v' (add ROps v' (dist q p)) ltac:(cbn [cumdist]; left; reflexivity)). lra. }
  destruct Hx as [<-|Hx]; [lra|].
  destruct r as [|q r]; [destruct Hx|].
  change (last (v' :: cumdist ROps p v' (q :: r)) v) with (last (cumdist ROps p v' (q :: r)) v).
  rewrite (last_indep _ v v') by (cbn [cumdist]; discriminate). pose proof (IH p v' x Hx). lra.
Qed.

Lemma chord_range pts u : chordLengthParameterize ROps pts = Some u -> unit_range u.
Proof.
  unfold chordLengthParameterize.
  remember (match pts with [] => [] | p0 :: rest => cumdist ROps p0 (ofZ ROps 0) rest end) as cs eqn:Hcs.
  remember (last cs (ofZ ROps 0)) as v eqn:Hv.
  destruct (eqb ROps v (ofZ ROps 0)) eqn:E; [discriminate|]. apply Reqb_false in E. simpl in E. intros [= <-].
  assert (Hb : forall x, In x cs -> 0 <= x <= v).
  { intros x Hx. destruct pts as [|p0 rest]; [rewrite Hcs in Hx; destruct Hx|]. rewrite Hcs in Hx. rewrite Hv, Hcs. apply cumdist_bounds. exact Hx. }
  assert (Hvpos : 0 < v).
  { destruct cs as [|c cs']; [simpl in Hv; lra|]. pose proof (Hb c ltac:(left; reflexivity)). lra. }
  intros x Hx. simpl in Hx. destruct Hx as [<-|Hx].
  - unfold Rdiv. rewrite Rmult_0_l, Rmult_0_l. lra.
  - apply in_map_iff in Hx. destruct Hx as (c & <- & Hc). destruct (Hb c Hc) as [H1 H2].
    split; [apply Rmult_le_pos; [lra|left; apply Rinv_0_lt_compat; lra]|].
    apply (Rmult_le_reg_r v); [lra|]. unfold Rdiv. rewrite Rmult_assoc, Rinv_l by lra. lra.
Qed.

Lemma nr_loop_range bez p u d2 : 0 <= u <= 1 -> forall fuel prop iu r, 0 <= prop -> 0 <= iu <= 1 ->
  nr_loop ROps fuel bez p u d2 prop iu = Some r -> 0 <= r <= 1.
Proof.
  intros Hu. induction fuel as [|f IH]; intros prop iu r Hp Hiu H; [discriminate|].
  cbn [nr_loop] in H. destruct (ltb ROps d2 _); [|injection H as <-; exact Hiu].
  destruct (ltb ROps (f1 ROps) (add ROps prop (lit ROps 1 8 0x1p-3%float))) eqn:E; [injection H as <-; exact Hu|].
  apply Rltb_false in E. unfold f1 in E; simpl in E.
  eapply IH; [| |exact H]; simpl; [lra|].
  assert (Hq : 0 <= prop + 1 / 8 <= 1) by lra. set (q := prop + 1 / 8) in *.
  pose proof (Rmult_le_pos (1 - q) iu ltac:(lra) ltac:(lra)). pose proof (Rmult_le_pos q u ltac:(lra) ltac:(lra)).
  pose proof (Rmult_le_compat_l (1 - q) iu 1 ltac:(lra) ltac:(lra)). pose proof (Rmult_le_compat_l q u 1 ltac:(lra) ltac:(lra)). lra.
Qed.
Lemma clamp01 x : 0 <= (if ltb ROps (ofZ ROps 1) (if ltb ROps x (ofZ ROps 0) then ofZ ROps 0 else x) then ofZ ROps 1
                        else (if ltb ROps x (ofZ ROps 0) then ofZ ROps 0 else x)) <= 1.
Proof.
  destruct (ltb ROps x (ofZ ROps 0)) eqn:E0.
  - destruct (ltb ROps (ofZ ROps 1) (ofZ ROps 0)); simpl; lra.
  - apply Rltb_false in E0. simpl in E0. destruct (ltb ROps (ofZ ROps 1) x) eqn:E1; [simpl; lra|]. apply Rltb_false in E1. simpl in E1. lra.
Qed.
Lemma newton_range bez p u r : 0 <= u <= 1 -> newtonRaphsonFind ROps bez p u = Some r -> 0 <= r <= 1.
Proof.
  intros Hu. unfold newtonRaphsonFind. cbv zeta. apply nr_loop_range; [exact Hu|simpl; lra|]. apply clamp01.
Qed.
Lemma reparam_range bez : forall pts us us', unit_range us -> reparameterize ROps bez pts us = Some us' -> unit_range us'.
Proof.
  induction pts as [|p pts IH]; intros us us' Hr H.
  - destruct us; simpl in H; injection H as <-; exact Hr.
  - destruct us as [|u us]; [discriminate|]. cbn [reparameterize] in H.
    destruct (newtonRaphsonFind ROps bez p u) as [u1|] eqn:N; [|discriminate].
    destruct (reparameterize ROps bez pts us) as [r|] eqn:E; [|discriminate]. injection H as <-.
    intros x [<-|Hx].
    + eapply newton_range; [|exact N]. apply Hr; left; reflexivity.
    + eapply (IH us r); [|exact E|exact Hx]. intros y Hy; apply Hr; right; exact Hy.
Qed.

(* ---------- computeMaxError ---------- *)
Lemma cme_loop_spec bez cT : forall pts ps i pprev st st',
  0 <= cs_maxSq st -> cme_loop ROps bez cT i pts ps pprev st = Some st' ->
  cs_maxSq st <= cs_maxSq st' /\ cs_maxHook st <= cs_maxHook st' /\
  (forall k p u, nth_error pts k = Some p -> nth_error ps k = Some u -> sqd (cubic bez u) p <= cs_maxSq st') /\
  ((cs_split st' = cs_split st /\ cs_maxSq st' = cs_maxSq st) \/
   (exists k p u, cs_split st' = (i + k)%nat /\ nth_error pts k = Some p /\ nth_error ps k = Some u /\
                  sqd (cubic bez u) p = cs_maxSq st' /\ cs_maxSq st < cs_maxSq st')) /\
  ((cs_snap st' = cs_snap st /\ cs_maxHook st' = cs_maxHook st) \/
   (exists k, cs_snap st' = (i + k)%nat /\ (k < length pts)%nat /\ cs_maxHook st < cs_maxHook st')).
Proof.
  induction pts as [|p pts IH]; intros ps i pprev st st' H0 H.
  { simpl in H. injection H as <-. repeat split; try lra; auto. intros k p u Hk; destruct k; discriminate. }
  destruct ps as [|u ps].
  { simpl in H. injection H as <-. repeat split; try lra; auto. intros k p' u Hk Hu; destruct k; discriminate. }
  cbn [cme_loop] in H.
  set (cur := cubic bez u) in *. set (dSq := sqd cur p) in *.
  destruct (computeHook ROps (cs_prev st) cur (dvd ROps (add ROps u pprev) (f2 ROps)) bez cT) as [hook|]; [|destruct (ltb ROps (cs_maxSq st) dSq); discriminate].
  destruct (ltb ROps (cs_maxSq st) dSq) eqn:E1; destruct (ltb ROps (cs_maxHook st) hook) eqn:E2;
    [apply Rltb_true in E1|apply Rltb_true in E1|apply Rltb_false in E1|apply Rltb_false in E1];
    [apply Rltb_true in E2|apply Rltb_false in E2|apply Rltb_true in E2|apply Rltb_false in E2];
    (apply IH in H; [|simpl; lra]); simpl in H; destruct H as (M1 & M2 & M3 & M4 & M5);
    (split; [lra|]); (split; [lra|]); (split; [|split]).
  all: try (intros k p' u' Hk Hu; destruct k as [|k]; [simpl in Hk, Hu; injection Hk as <-; injection Hu as <-; fold cur; fold dSq; lra|eapply M3; eassumption]).
  all: try (destruct M4 as [[M4a M4b]|(k & p' & u' & Ka & Kb & Kc & Kd & Ke)];
            [try (left; split; [exact M4a|lra]); try (right; exists 0%nat, p, u; rewrite M4a, Nat.add_0_r; repeat split; try reflexivity; fold cur; fold dSq; lra)
            |right; exists (S k), p', u'; rewrite Ka; repeat split; auto; try lia; lra]).
  all: try (destruct M5 as [[M5a M5b]|(k & Ka & Kb & Kc)];
            [try (left; split; [exact M5a|lra]); try (right; exists 0%nat; rewrite M5a, Nat.add_0_r; repeat split; simpl; try lia; lra)
            |right; exists (S k); rewrite Ka; repeat split; simpl; try lia; lra]).
Qed.

Lemma sqrt_le_sq x t : 0 <= x -> 0 <= t -> sqrt x <= t -> x <= t * t.
Proof. intros Hx Ht H. rewrite <- (sqrt_sqrt x Hx). pose proof (sqrt_pos x). nra. Qed.

Lemma cme_spec bez p0 pts u0 ps tol cT r sp :
  computeMaxError ROps bez (p0 :: pts) (u0 :: ps) tol cT = Some (r, sp) -> 0 <= tol ->
  0 < tol /\
  (leb ROps (abs_ ROps r) (f1 ROps) = true ->
     forall k p u, nth_error pts k = Some p -> nth_error ps k = Some u -> sqd (cubic bez u) p <= tol * tol) /\
  (leb ROps (abs_ ROps r) (f1 ROps) = false -> ltb ROps r (ofZ ROps 0) = false ->
     exists k p u, sp = (1 + Z.of_nat k)%Z /\ nth_error pts k = Some p /\ nth_error ps k = Some u /\ 0 < sqd (cubic bez u) p) /\
  (ltb ROps r (ofZ ROps 0) = true -> exists k, sp = Z.of_nat k /\ (k < length pts)%nat).
Proof.
  unfold computeMaxError. intros H Htol.
  destruct (cme_loop ROps bez cT 1 pts ps u0 (CS (f0 ROps) (f0 ROps) 0 0 (c0 bez))) as [st|] eqn:L; [|discriminate].
  assert (Z0 : f0 ROps = 0) by (unfold f0; simpl; field). rewrite Z0 in L.
  apply cme_loop_spec in L; [|simpl; lra]. cbn [cs_maxSq cs_maxHook cs_split cs_snap] in L. destruct L as (M1 & M2 & M3 & M4 & M5).
  destruct (eqb ROps tol (ofZ ROps 0)) eqn:Et; [discriminate|]. apply Reqb_false in Et. simpl in Et.
  assert (Hpos : 0 < tol) by lra. split; [exact Hpos|].
  set (mS := cs_maxSq st) in *. set (mH := cs_maxHook st) in *.
  assert (HdR : 0 <= sqrt mS / tol) by (apply Rmult_le_pos; [apply sqrt_pos|left; apply Rinv_0_lt_compat; exact Hpos]).
  assert (Hbound : sqrt mS / tol <= 1 -> forall k p u, nth_error pts k = Some p -> nth_error ps k = Some u -> sqd (cubic bez u) p <= tol * tol).
  { intros Hle k p u Hk Hu. eapply Rle_trans; [eapply M3; eassumption|]. apply sqrt_le_sq; [lra|lra|].
    apply (Rmult_le_compat_r tol) in Hle; [|lra]. unfold Rdiv in Hle. rewrite Rmult_assoc, Rinv_l in Hle by lra. lra. }
  destruct (leb ROps mH (dvd ROps (sqrt_ ROps mS) tol)) eqn:Eb; injection H as <- <-.
  - apply Rleb_true in Eb. simpl in Eb. split; [|split].
    + intros Ha. apply Rleb_true in Ha. simpl in Ha. unfold f1 in Ha; simpl in Ha. rewrite Rabs_pos_eq in Ha by exact HdR. apply Hbound. lra.
    + intros Ha _. apply Rleb_false in Ha. simpl in Ha. unfold f1 in Ha; simpl in Ha. rewrite Rabs_pos_eq in Ha by exact HdR.
      destruct M4 as [[_ M4b]|(k & p & u & Ka & Kb & Kc & Kd & Ke)].
      * exfalso. fold mS in M4b. rewrite M4b, sqrt_0 in Ha. unfold Rdiv in Ha. lra.
      * exists k, p, u. rewrite Ka. repeat split; auto; [lia|]. rewrite Kd. fold mS. lra.
    + intros Hlt. apply Rltb_true in Hlt. simpl in Hlt. lra.
  - apply Rleb_false in Eb. simpl in Eb. split; [|split].
    + intros Ha. apply Rleb_true in Ha. simpl in Ha. unfold f1 in Ha; simpl in Ha. rewrite Rabs_Ropp, Rabs_pos_eq in Ha by lra. apply Hbound. lra.
    + intros _ Hlt. apply Rltb_false in Hlt. simpl in Hlt. lra.
    + intros _. destruct M5 as [[_ M5b]|(k & Ka & Kb & Kc)].
      * exfalso. fold mH in M5b. lra.
      * exists k. rewrite Ka. split; [lia|exact Kb].
Qed.

(* ---------- what a FitOk verdict of the numeric core means ---------- *)
(* `error + 1e-9` and tolerance = math.sqrt(error + 1e-9) *)
Definition radicand (error : R) : R := add ROps error (lit ROps 1 1000000000 0x1.12e0be826d695p-30%float).
Definition tol_of (error : R) : R := sqrt_ ROps (radicand error).
Lemma radicand_eq error : radicand error = error + 1 / 1000000000.
Proof. reflexivity. Qed.

Lemma fit_iter_inv k pts d0 dl u t1 t2 error tol cT : forall bz rr ss bez r sp,
  (c0 bz = d0 /\ c3 bz = dl /\ computeMaxError ROps bz pts u tol cT = Some (rr, ss)) ->
  fit_iter ROps k pts d0 dl u t1 t2 error tol cT (bz, rr, ss) = FitOk bez r sp ->
  c0 bez = d0 /\ c3 bez = dl /\ computeMaxError ROps bez pts u tol cT = Some (r, sp).
Proof.
  induction k as [|k IH]; intros bz rr ss bez r sp Hb H; cbn [fit_iter] in H.
  - injection H as <- <- <-. exact Hb.
  - destruct (generateBezier ROps pts d0 dl u t1 t2 error) as [b'|] eqn:G; [|discriminate].
    destruct (computeMaxError ROps b' pts u tol cT) as [[r' sp']|] eqn:C; [|discriminate].
    apply generateBezier_ends in G. destruct G as [G0 G3].
    destruct (leb ROps (abs_ ROps r') (f1 ROps)); [injection H as <- <- <-; auto|eapply IH; [|exact H]; auto].
Qed.

Lemma fit1_num_inv error cT pts t1 t2 bez r sp : fit1_num ROps error cT pts t1 t2 = FitOk bez r sp ->
  exists d0 rest u, pts = d0 :: rest /\ length u = length pts /\ last u 0 = 1 /\ c0 bez = d0 /\ c3 bez = last pts d0 /\
    0 <= tol_of error /\ computeMaxError ROps bez pts u (tol_of error) cT = Some (r, sp) /\ unit_range u.
Proof.
  unfold fit1_num. intros H.
  destruct (chordLengthParameterize ROps pts) as [u|] eqn:E; [|discriminate].
  destruct (chord_some _ _ E) as (Hlen & Hl & _). pose proof (chord_range _ _ E) as Hur0.
  destruct (eqb ROps (last u (f0 ROps)) (f0 ROps)); [discriminate|].
  destruct pts as [|d0 rest]; [discriminate|].
  destruct (generateBezier ROps (d0 :: rest) d0 (last (d0 :: rest) d0) u t1 t2 error) as [b|] eqn:G; [|discriminate].
  apply generateBezier_ends in G. destruct G as [G0 G3].
  destruct (reparameterize ROps b (d0 :: rest) u) as [u'|] eqn:Rp; [|discriminate].
  pose proof (reparam_length _ _ _ _ Rp ltac:(congruence)) as Hlen'. pose proof (reparam_range _ _ _ _ Hur0 Rp) as Hur.
  pose proof (reparam_last _ _ _ _ d0 0 Rp ltac:(congruence) ltac:(discriminate)) as Hlast.
  rewrite Hl, <- G3, newton_at_end in Hlast. injection Hlast as Hlast.
  destruct (ltb ROps (add ROps error _) (ofZ ROps 0)) eqn:Es; [discriminate|].
  change (sqrt_ ROps (add ROps error (lit ROps 1 1000000000 0x1.12e0be826d695p-30%float))) with (tol_of error) in H.
  assert (Htol : 0 <= tol_of error) by (unfold tol_of; simpl; apply sqrt_pos).
  destruct (computeMaxError ROps b (d0 :: rest) u' (tol_of error) cT) as [[r' sp']|] eqn:C; [|discriminate].
  assert (Hb : c0 b = d0 /\ c3 b = last (d0 :: rest) d0 /\ computeMaxError ROps b (d0 :: rest) u' (tol_of error) cT = Some (r', sp')) by auto.
  exists d0, rest, u'. split; [reflexivity|]. split; [congruence|]. split; [symmetry; exact Hlast|].
  destruct (leb ROps (abs_ ROps r') (f1 ROps)).
  - injection H as <- <- <-. tauto.
  - destruct (leb ROps (f0 ROps) r' && leb ROps r' (f3 ROps)).
    + apply (fit_iter_inv _ _ _ _ _ _ _ _ _ _ _ _ _ _ _ _ Hb) in H. tauto.
    + injection H as <- <- <-. tauto.
Qed.

Lemma nth_error_last {A} (l : list A) k x d : nth_error l k = Some x -> k = (length l - 1)%nat -> x = last l d.
Proof.
  revert k; induction l as [|y l IH]; intros k H E; [destruct k; discriminate|].
  destruct l as [|z l].
  - simpl in E. subst k. simpl in H. injection H as <-. reflexivity.
  - destruct k as [|k]; [simpl in E; lia|]. simpl in H. change (last (y :: z :: l) d) with (last (z :: l) d).
    eapply IH; [exact H|simpl in *; lia].
Qed.

Theorem split_interior_num error cT : split_interior ROps (fit1_num ROps error cT).
Proof.
  intros pts t1 t2 bez r sp _ H Ha Hc.
  destruct (fit1_num_inv _ _ _ _ _ _ _ _ H) as (d0 & rest & u & -> & Hlen & Hl & G0 & G3 & Htol & C & Hur).
  destruct u as [|u0 us]; [simpl in Hlen; lia|].
  destruct (cme_spec _ _ _ _ _ _ _ _ _ C Htol) as (_ & _ & S & _).
  destruct (S Ha Hc) as (k & p & uu & -> & Kp & Ku & Kpos).
  assert (Hk : (k < length rest)%nat) by (apply nth_error_Some; congruence).
  assert (k <> (length rest - 1)%nat).
  { intros Ek. pose proof (nth_error_last _ _ _ d0 Kp Ek) as Ep.
    assert (Eu : uu = last us 0) by (eapply nth_error_last; [exact Ku|simpl in Hlen; lia]).
    assert (Hus : last (u0 :: us) 0 = last us 0) by (destruct us; [destruct k; discriminate|reflexivity]).
    assert (Hps : last (d0 :: rest) d0 = last rest d0) by (destruct rest; [simpl in Hk; lia|reflexivity]).
    rewrite Hus in Hl. rewrite Hps in G3. rewrite Eu, Hl, cubic_at_1, G3, Ep in Kpos.
    replace (sqd (last rest d0) (last rest d0)) with 0 in Kpos by (symmetry; apply sqd_zero; reflexivity). lra. }
  simpl length. lia.
Qed.

Theorem corner_in_range_num error cT : corner_in_range ROps (fit1_num ROps error cT).
Proof.
  intros pts t1 t2 bez r sp _ H Ha Hc.
  destruct (fit1_num_inv _ _ _ _ _ _ _ _ H) as (d0 & rest & u & -> & Hlen & Hl & G0 & G3 & Htol & C & Hur).
  destruct u as [|u0 us]; [simpl in Hlen; lia|].
  destruct (cme_spec _ _ _ _ _ _ _ _ _ C Htol) as (_ & _ & _ & S).
  destruct (S Hc) as (k & -> & Hk). simpl length. lia.
Qed.

(* an accepted fit passes within tolerance = sqrt(error + 1e-9) of every data point of its run (whether the accepted ratio
   is the distance ratio or the negated hook ratio: in the latter case distRatio < maxHookRatio <= 1) *)
Theorem accepted_within_tolerance_num error cT pts t1 t2 bez r sp :
  fit1_num ROps error cT pts t1 t2 = FitOk bez r sp -> leb ROps (abs_ ROps r) (f1 ROps) = true ->
  forall p, In p pts -> exists u, 0 <= u <= 1 /\ dist (cubic bez u) p <= tol_of error.
Proof.
  intros H Ha p Hp.
  destruct (fit1_num_inv _ _ _ _ _ _ _ _ H) as (d0 & rest & u & -> & Hlen & Hl & G0 & G3 & Htol & C & Hur).
  destruct u as [|u0 us]; [simpl in Hlen; lia|].
  destruct (cme_spec _ _ _ _ _ _ _ _ _ C Htol) as (Hpos & S & _ & _).
  destruct Hp as [<-|Hp].
  - exists 0. split; [lra|]. rewrite cubic_at_0, G0, dist_self. exact Htol.
  - apply In_nth_error in Hp. destruct Hp as [k Hk].
    assert (Hk' : (k < length us)%nat) by (assert (k < length rest)%nat by (apply nth_error_Some; congruence); simpl in Hlen; lia).
    destruct (nth_error us k) as [uu|] eqn:Eu; [|apply nth_error_None in Eu; lia].
    exists uu. split; [apply Hur; right; eapply nth_error_In; exact Eu|]. change (dist (cubic bez uu) p) with (sqrt (sqd (cubic bez uu) p)).
    rewrite <- (sqrt_square (tol_of error)) by exact Htol. apply sqrt_le_1_alt. eapply S; eassumption.
Qed.

(* ---------- the numeric core raises nothing on >= 3 points whose neighbours differ ---------- *)
Lemma leftTangent_loop_some d0 d1 tol l : l <> [] -> leftTangent_loop ROps d0 d1 tol l <> None.
Proof.
  induction l as [|p r IH]; intros Hne; [congruence|]. cbn [leftTangent_loop].
  destruct (ltb ROps tol _); [discriminate|]. destruct r as [|q r]; [destruct (eqb ROps _ _); discriminate|apply IH; discriminate].
Qed.
Lemma rightTangent_loop_some dl dm tol l : l <> [] -> rightTangent_loop ROps dl dm tol l <> None.
Proof.
  induction l as [|p r IH]; intros Hne; [congruence|]. cbn [rightTangent_loop].
  destruct (ltb ROps tol _); [discriminate|]. destruct r as [|q r]; [destruct (eqb ROps _ _); discriminate|apply IH; discriminate].
Qed.
Lemma generateBezier_some data d0 dl u t1 t2 tolsq : (3 <= length data)%nat -> generateBezier ROps data d0 dl u t1 t2 tolsq <> None.
Proof.
  intros Hn. unfold generateBezier.
  assert (HL : leftTangent ROps data tolsq <> None).
  { unfold leftTangent. destruct data as [|a [|b r]]; simpl in Hn; try lia. apply leftTangent_loop_some; discriminate. }
  assert (HR : rightTangent ROps data tolsq <> None).
  { unfold rightTangent. assert (Hr : length (rev data) = length data) by apply rev_length.
    destruct (rev data) as [|a [|b [|c r]]]; simpl in Hr; try lia. apply rightTangent_loop_some. simpl. destruct r; discriminate. }
  destruct t1 as [a|]; destruct t2 as [b|]; try discriminate.
  - destruct (rightTangent ROps data tolsq); [discriminate|congruence].
  - destruct (leftTangent ROps data tolsq); [discriminate|congruence].
  - destruct (leftTangent ROps data tolsq); [|congruence]. destruct (rightTangent ROps data tolsq); [discriminate|congruence].
Qed.

Lemma nr_loop_some bez p u d2 : forall fuel prop iu, 1 < prop + INR fuel * / 8 -> prop <= 1 -> nr_loop ROps fuel bez p u d2 prop iu <> None.
Proof.
  induction fuel as [|f IH]; intros prop iu H1 H2; [simpl in H1; lra|].
  cbn [nr_loop]. destruct (ltb ROps d2 _); [|discriminate].
  destruct (ltb ROps (f1 ROps) (add ROps prop (lit ROps 1 8 0x1p-3%float))) eqn:E; [discriminate|].
  apply Rltb_false in E. unfold f1 in E; simpl in E. apply IH; simpl; [|lra]. rewrite S_INR in H1. lra.
Qed.
Lemma newton_some bez p u : newtonRaphsonFind ROps bez p u <> None.
Proof. unfold newtonRaphsonFind. cbv zeta. apply nr_loop_some; simpl; lra. Qed.
Lemma reparam_some bez : forall pts us, (length pts <= length us)%nat -> reparameterize ROps bez pts us <> None.
Proof.
  induction pts as [|p pts IH]; intros us Hl; [destruct us; discriminate|].
  destruct us as [|u us]; [simpl in Hl; lia|]. cbn [reparameterize].
  destruct (newtonRaphsonFind ROps bez p u) eqn:N; [|exfalso; revert N; apply newton_some].
  destruct (reparameterize ROps bez pts us) eqn:E; [discriminate|]. exfalso; revert E; apply IH. simpl in Hl; lia.
Qed.

Lemma computeHook_some a b par bez cT : 0 < cT -> computeHook ROps a b par bez cT <> None.
Proof.
  intros Hc. unfold computeHook. destruct (ltb ROps _ cT); [discriminate|].
  destruct (eqb ROps (add ROps (dist a b) cT) (ofZ ROps 0)) eqn:E; [|discriminate].
  apply Reqb_true in E. simpl in E. pose proof (dist_nonneg a b). unfold dist in *; simpl in *. lra.
Qed.
Lemma cme_loop_some bez cT : 0 < cT -> forall pts ps i pprev st, cme_loop ROps bez cT i pts ps pprev st <> None.
Proof.
  intros Hc. induction pts as [|p pts IH]; intros ps i pprev st; [discriminate|].
  destruct ps as [|u ps]; [discriminate|]. cbn [cme_loop].
  destruct (computeHook ROps (cs_prev st) (cubic bez u) (dvd ROps (add ROps u pprev) (f2 ROps)) bez cT) eqn:E; [|exfalso; revert E; apply computeHook_some; exact Hc].
  destruct (ltb ROps (cs_maxSq st) _); destruct (ltb ROps (cs_maxHook st) _); apply IH.
Qed.
Lemma computeMaxError_some bez pts ps tol cT : 0 < cT -> 0 < tol -> pts <> [] -> ps <> [] -> computeMaxError ROps bez pts ps tol cT <> None.
Proof.
  intros Hc Ht Hp Hs. unfold computeMaxError. destruct pts as [|p0 pts]; [congruence|]. destruct ps as [|u0 ps]; [congruence|].
  destruct (cme_loop ROps bez cT 1 pts ps u0 _) eqn:E; [|exfalso; revert E; apply cme_loop_some; exact Hc].
  destruct (eqb ROps tol (ofZ ROps 0)) eqn:Et; [apply Reqb_true in Et; simpl in Et; lra|].
  destruct (leb ROps _ _); discriminate.
Qed.

Lemma fit_iter_no_raise k pts d0 dl u t1 t2 error tol cT : (3 <= length pts)%nat -> u <> [] -> 0 < cT -> 0 < tol ->
  forall cur e, fit_iter ROps k pts d0 dl u t1 t2 error tol cT cur <> FitRaise e.
Proof.
  intros Hn Hu Hc Ht. induction k as [|k IH]; intros [[bz rr] ss] e; cbn [fit_iter]; [discriminate|].
  destruct (generateBezier ROps pts d0 dl u t1 t2 error) as [b'|] eqn:G; [|exfalso; revert G; apply generateBezier_some; exact Hn].
  destruct (computeMaxError ROps b' pts u tol cT) as [[r' sp']|] eqn:C;
    [|exfalso; revert C; apply computeMaxError_some; auto; destruct pts; [simpl in Hn; lia|discriminate]].
  destruct (leb ROps (abs_ ROps r') (f1 ROps)); [discriminate|apply IH].
Qed.

Theorem no_raise_num error cT : 0 < radicand error -> 0 < cT ->
  forall pts t1 t2 e, adjdist pts -> (3 <= length pts)%nat -> fit1_num ROps error cT pts t1 t2 <> FitRaise e.
Proof.
  intros Hs Hc pts t1 t2 e Hadj Hn. unfold radicand in Hs. unfold fit1_num.
  destruct (chordLengthParameterize ROps pts) as [u|] eqn:E; [|exfalso; revert E; apply chord_ok; [exact Hadj|lia]].
  destruct (chord_some _ _ E) as (Hlen & _ & _).
  destruct (eqb ROps (last u (f0 ROps)) (f0 ROps)); [discriminate|].
  destruct pts as [|d0 rest]; [simpl in Hn; lia|].
  destruct (generateBezier ROps (d0 :: rest) d0 (last (d0 :: rest) d0) u t1 t2 error) as [b|] eqn:G; [|exfalso; revert G; apply generateBezier_some; exact Hn].
  destruct (reparameterize ROps b (d0 :: rest) u) as [u'|] eqn:Rp; [|exfalso; revert Rp; apply reparam_some; lia].
  pose proof (reparam_length _ _ _ _ Rp ltac:(congruence)) as Hlen'.
  destruct (ltb ROps (add ROps error _) (ofZ ROps 0)) eqn:Es; [apply Rltb_true in Es; simpl in Es, Hs; lra|].
  assert (Ht : 0 < sqrt_ ROps (add ROps error (lit ROps 1 1000000000 0x1.12e0be826d695p-30%float))) by (simpl; apply sqrt_lt_R0; exact Hs).
  assert (Hu' : u' <> []) by (destruct u'; [simpl in Hlen', Hlen; lia|discriminate]).
  destruct (computeMaxError ROps b (d0 :: rest) u' _ cT) as [[r' sp']|] eqn:C; [|exfalso; revert C; apply computeMaxError_some; auto; discriminate].
  destruct (leb ROps (abs_ ROps r') (f1 ROps)); [discriminate|].
  destruct (leb ROps (f0 ROps) r' && leb ROps r' (f3 ROps)); [|discriminate].
  apply fit_iter_no_raise; auto.
Qed.

Theorem no_fuel_raise_num error cT : no_fuel_raise (fit1_num ROps error cT).
Proof.
  intros pts t1 t2 H. unfold fit1_num in H.
  destruct (chordLengthParameterize ROps pts) as [u|] eqn:E; [|discriminate].
  destruct (chord_some _ _ E) as (Hlen & _ & _).
  destruct (eqb ROps (last u (f0 ROps)) (f0 ROps)); [discriminate|].
  destruct pts as [|d0 rest]; [discriminate|].
  destruct (generateBezier ROps (d0 :: rest) d0 (last (d0 :: rest) d0) u t1 t2 error) as [b|] eqn:G; [|discriminate].
  destruct (reparameterize ROps b (d0 :: rest) u) as [u'|] eqn:Rp; [|exfalso; revert Rp; apply reparam_some; lia].
  destruct (ltb ROps (add ROps error _) (ofZ ROps 0)); [discriminate|].
  destruct (computeMaxError ROps b (d0 :: rest) u' _ cT) as [[r' sp']|]; [|discriminate].
  destruct (leb ROps (abs_ ROps r') (f1 ROps)); [discriminate|].
  destruct (leb ROps (f0 ROps) r' && leb ROps r' (f3 ROps)); [|discriminate].
  revert H. generalize (b, r', sp'). generalize 4%nat. induction n as [|k IH]; intros [[bz rr] ss]; cbn [fit_iter]; [discriminate|].
  destruct (generateBezier ROps (d0 :: rest) d0 (last (d0 :: rest) d0) u' t1 t2 error) as [b'|]; [|discriminate].
  destruct (computeMaxError ROps b' (d0 :: rest) u' _ cT) as [[r'' sp'']|]; [|discriminate].
  destruct (leb ROps (abs_ ROps r'') (f1 ROps)); [discriminate|apply IH].
Qed.

(* ---------- the data invariant: neighbouring points differ ---------- *)
Lemma adjdist_tail x l : adjdist (x :: l) -> adjdist l.
Proof. simpl; tauto. Qed.
Lemma adjdist_firstn : forall k l, adjdist l -> adjdist (firstn k l).
Proof.
  induction k as [|k IH]; intros l H; [exact I|]. destruct l as [|x l]; [exact I|].
  simpl firstn. destruct H as [H1 H2]. split; [|apply IH; exact H2].
  destruct k; [simpl; exact I|]. destruct l as [|y l]; [exact I|exact H1].
Qed.
Lemma adjdist_skipn : forall k l, adjdist l -> adjdist (skipn k l).
Proof. induction k as [|k IH]; intros l H; [exact H|]. destruct l as [|x l]; [exact I|]. apply IH. eapply adjdist_tail; exact H. Qed.
Lemma inv_slices_adjdist : inv_slices adjdist.
Proof. intros pts k H Hk. unfold slice_to, slice_from. split; [apply adjdist_firstn|apply adjdist_skipn]; exact H. Qed.

Lemma dedup_from_In (x : pt R) r p : In p (x :: r) <-> In p (x :: dedup_from ROps x r).
Proof.
  revert x; induction r as [|y r IH]; intros x; [reflexivity|].
  simpl dedup_from. destruct (pt_differs ROps y x) eqn:E.
  - specialize (IH y). simpl in *. tauto.
  - apply pt_differs_false in E. subst y. specialize (IH x). simpl in *. tauto.
Qed.
Lemma dedup_In (l : list (pt R)) p : In p l <-> In p (dedup ROps l).
Proof. destruct l as [|x r]; [reflexivity|apply dedup_from_In]. Qed.
Lemma dedup_from_length (x : pt R) r : (length (dedup_from ROps x r) <= length r)%nat.
Proof. revert x; induction r as [|y r IH]; intros x; [simpl; lia|]. simpl. destruct (pt_differs ROps y x); simpl; [specialize (IH y)|specialize (IH x)]; lia. Qed.
Lemma dedup_length (l : list (pt R)) : (length (dedup ROps l) <= length l)%nat.
Proof. destruct l as [|x r]; [simpl; lia|]. simpl. pose proof (dedup_from_length x r). lia. Qed.

(* ---------- the assembled statement over the reals ---------- *)
Lemma accepted_num_within error cT sub c :
  accepted ROps (fit1_num ROps error cT) sub c -> 0 <= tol_of error -> forall p, In p sub -> exists u, 0 <= u <= 1 /\ dist (cubic c u) p <= tol_of error.
Proof.
  intros H Htol p Hp. inversion H; subst.
  - destruct Hp as [<-|[<-|[]]].
    + exists 0. split; [lra|]. rewrite cubic_at_0. simpl c0. rewrite dist_self. exact Htol.
    + exists 1. split; [lra|]. rewrite cubic_at_1. simpl c3. rewrite dist_self. exact Htol.
  - eapply accepted_within_tolerance_num; eassumption.
Qed.

Theorem fitCurve_sound_R error cT fuel data B x lg a b :
  0 < radicand error -> 0 < cT ->
  In a data -> In b data -> a <> b -> (Z.of_nat (length data) <= B)%Z ->
  fitCurve ROps fuel data error cT B = (x, lg) ->
  x = RRaise OutOfFuel \/
  exists l first rest, x = RList l /\ data = first :: rest /\ l <> [] /\
    chain_from first l (last data first) /\
    (Z.of_nat (length l) <= B)%Z /\
    (forall p, In p data -> exists c u, In c l /\ 0 <= u <= 1 /\ dist (cubic c u) p <= tol_of error) /\
    no_empty lg.
Proof.
  intros Hs Hc Ha Hb Hab HB H. unfold fitCurve, fitCurve_skel in H.
  pose proof (dedup_two_distinct data a b Ha Hb Hab) as H2.
  destruct (Nat.ltb_spec (length (dedup ROps data)) 2) as [Hlt|_]; [lia|].
  pose proof (dedup_length data) as Hdl.
  set (fit1 := fit1_num ROps error cT) in *. set (ct := centerTangent ROps) in *.
  pose proof (split_interior_num error cT) as Hr. pose proof (corner_in_range_num error cT) as Hcr.
  assert (Hnr : no_raise_inv fit1 adjdist).
  { intros pts t1 t2 e HI Hl Hn. apply no_raise_num; auto. apply fit_len_ge; assumption. }
  destruct (total_or_diverges ROps fit1 ct adjdist Hr Hcr inv_slices_adjdist Hnr (ctan_ok_num ROps) _ _ _ _ _ _ _ (dedup_adjdist data) H2 H) as [->|[l ->]]; [left; reflexivity|right].
  assert (HB' : (Z.of_nat (length (dedup ROps data)) - 1 <= B)%Z) by lia.
  pose proof (no_empty_return ROps fit1 ct Hr Hcr (no_degenerate_num error cT) _ _ _ _ _ _ _ H2 HB' H) as Hne.
  pose proof (result_covers ROps fit1 ct (split_interior_in_range ROps fit1 Hr) _ _ _ _ _ _ _ H Hne) as Hcov.
  destruct data as [|first rest]; [destruct Ha|].
  destruct (dedup_first_last first rest) as (r' & Ed & El).
  destruct (covers_chain ROps fit1 (ends_ok_num ROps error cT) _ _ Hcov first r' Ed) as [Hch Hnn].
  exists l, first, rest. split; [reflexivity|]. split; [reflexivity|]. split; [exact Hnn|]. split; [rewrite <- El; exact Hch|].
  split; [eapply (count_le_budget ROps fit1 ct); [|exact H]; lia|]. split; [|exact Hne].
  intros p Hp. apply dedup_In in Hp. destruct (covers_points ROps fit1 _ _ Hcov p Hp) as (sub & c & Hc1 & Hc2 & Hc3).
  destruct (accepted_num_within error cT sub c Hc2 ltac:(unfold tol_of; simpl; apply sqrt_pos) p Hc3) as (u & Hu1 & Hu2).
  exists c, u. auto.
Qed.

(* the model runs out of fuel only through the stuck re-entry: if the numeric core never reports a corner at index 0 while
   tangent1 is already Point(0.0, 0.0), fuel 2 * len(data) is enough *)
Theorem fitCurve_terminates_R error cT fuel data B :
  no_stuck_reentry ROps (fit1_num ROps error cT) -> (2 * length data <= fuel)%nat ->
  fst (fitCurve ROps fuel data error cT B) <> RRaise OutOfFuel.
Proof.
  intros Hs Hf. unfold fitCurve, fitCurve_skel.
  destruct (Nat.ltb_spec (length (dedup ROps data)) 2) as [Hlt|Hge]; [discriminate|].
  pose proof (dedup_length data).
  apply (fuel_suffices ROps _ _ (split_interior_num error cT) (corner_in_range_num error cT) Hs (no_fuel_raise_num error cT) (length data)); lia.
Qed.

(* ---------- the hypotheses are satisfiable ---------- *)
Example fit_two_points_R :
  fitCurve ROps 3 [P 0 0; P 3 0] 1 1 2 = (RList [C4 (P 0 0) (P 1 0) (P 2 0) (P 3 0)], [Ev 2 None None 2 DLine]).
Proof.
  unfold fitCurve, fitCurve_skel. cbn [dedup dedup_from].
  replace (pt_differs ROps (P 3 0) (P 0 0)) with true by (symmetry; apply pt_differs_true; intros [=]; lra).
  cbn [length Nat.ltb Nat.leb fitC]. f_equal. f_equal. f_equal. unfold fitLine. simpl.
  unfold Point___truediv__, Point___add__, Point___mul__; simpl. f_equal; apply pt_eq; field.
Qed.
Example fit_two_points_sound : exists l, fitCurve ROps 3 [P 0 0; P 3 0] 1 1 2 = (RList l, [Ev 2 None None 2 DLine]) /\ chain_from (P 0 0) l (P 3 0).
Proof. eexists. split; [apply fit_two_points_R|]. simpl. auto. Qed.
End NumR.

(* a stuck re-entry with an (artificial) numeric core that always reports a corner at index 0 *)
Example reentry_example :
  fst (fitC ROps (fun _ _ _ => FitOk (C4 (P 0 0) (P 0 0) (P 0 0) (P 0 0)) (-2) 0%Z) (fun _ _ => None) 1000
            [P 0 0; P 1 0; P 2 0] (Some (zeroP ROps)) None 5) = RRaise OutOfFuel.
Proof.
  apply (reentry_diverges ROps _ _ _ _ _ (C4 (P 0 0) (P 0 0) (P 0 0) (P 0 0)) (-2)); try reflexivity.
  - apply Rleb_false. simpl. unfold f1; simpl. rewrite Rabs_left by lra. lra.
  - apply Rltb_true. simpl. lra.
Qed.

(* the executable (binary64) instance on a concrete input: a non-corner split, an accepted fit and a two-point base case;
   the expected value is what CPython returned for the same input (this is one case of the correspondence check) *)
Example fit_float_example :
  (res_feq (fitCurve (FOpsT []) 24%nat [(P 0x0.0p+0%float 0x0.0p+0%float); (P 0x1.4000000000000p+3%float 0x1.4000000000000p+3%float); (P 0x1.4000000000000p+4%float 0x0.0p+0%float); (P 0x1.e000000000000p+4%float 0x1.4000000000000p+3%float)] 0x1.47ae147ae147bp-7%float 0x1.0000000000000p+0%float (4)%Z) (RList [(C4 (P 0x0.0p+0%float 0x0.0p+0%float) (P 0x1.aaaaaaaaaaaadp+4%float 0x1.aaaaaaaaaaaacp+4%float) (P (PrimFloat.opp 0x1.aaaaaaaaaaab4p+2%float) 0x0.0p+0%float) (P 0x1.4000000000000p+4%float 0x0.0p+0%float)); (C4 (P 0x1.4000000000000p+4%float 0x0.0p+0%float) (P 0x1.8b6cbaaafd720p+4%float 0x0.0p+0%float) (P 0x1.aaaaaaaaaaaabp+4%float 0x1.aaaaaaaaaaaabp+2%float) (P 0x1.e000000000000p+4%float 0x1.4000000000000p+3%float))], [(Ev 4%nat None None (4)%Z (DSplit false 0x1.014454f66a19bp+5%float (2)%Z)); (Ev 3%nat None (Some (P (PrimFloat.opp 0x1.0000000000000p+0%float) 0x0.0p+0%float)) (3)%Z (DAccept (PrimFloat.opp 0x1.1c510923962dep-1%float) (0)%Z)); (Ev 2%nat (Some (P 0x1.0000000000000p+0%float (PrimFloat.opp 0x0.0p+0%float))) None (3)%Z DLine)])) = true.
Proof. vm_compute. reflexivity. Qed.

(* ================================================================================================ *)
(* Documentation of the repaired defect D12 (budget half): the arithmetic before 46cfad4               *)
(* ================================================================================================ *)
(* [fitC_old] is [fitC] with the single line
       if lbeziers: segmentsRemaining = segmentsRemaining - len(lbeziers)       (i.e. maxSegments - 1 - len(lbeziers))
   in place of `maxSegments - len(lbeziers)`.  It is NOT a model of the present code. *)
Section OldBudget.
Context {T : Type} (O : Ops T).
Variable fit1 : list (pt T) -> option (pt T) -> option (pt T) -> fitres T.
Variable ctan : list (pt T) -> Z -> option (pt T).
Fixpoint fitC_old (fuel : nat) (points : list (pt T)) (t1 t2 : option (pt T)) (maxSegments : Z) {struct fuel}
  : pyres (seg4 T) * list (event T) :=
  match fuel with
  | 0%nat => (RRaise OutOfFuel, [])
  | S fuel' =>
    let ev d := Ev (length points) t1 t2 maxSegments d in
    match points with
    | [] => (RNone, [ev DNone])
    | [a; b] => (RList [fitLine O a b t1 t2], [ev DLine])
    | _ =>
      match fit1 points t1 t2 with
      | FitRaise e => (RRaise e, [ev (DRaise e)])
      | FitDegenerate => (RList [], [ev DDegenerate])
      | FitOk bez r sp =>
        if leb O (abs_ O r) (f1 O) then (RList [bez], [ev (DAccept r sp)]) else
        let isCorner := ltb O r (ofZ O 0) in
        let n := Z.of_nat (length points) in
        match adjusted isCorner sp n t1 t2 with
        | None =>
          if (sp =? 0)%Z then let '(x, lg) := fitC_old fuel' points (Some (zeroP O)) t2 maxSegments in (x, ev (DReenter1 r sp) :: lg)
          else let '(x, lg) := fitC_old fuel' points t1 (Some (zeroP O)) maxSegments in (x, ev (DReenter2 r sp) :: lg)
        | Some sp =>
          if (1 <? maxSegments)%Z then
            match rec_tangents O ctan isCorner points sp n with
            | None => (RList [], [ev (DBadCorner r sp)])
            | Some None => (RRaise IndexError, [ev (DRaise IndexError)])
            | Some (Some (recTHat1, recTHat2)) =>
              let '(L, lgL) := fitC_old fuel' (slice_to points (sp + 1)) t1 (Some recTHat2) (maxSegments - 1) in
              match L with
              | RRaise e => (RRaise e, ev (DSplit isCorner r sp) :: lgL)
              | _ =>
                let segmentsRemaining :=
                  match L with
                  | RList (x :: l) => (maxSegments - 1 - Z.of_nat (length (x :: l)))%Z      (* the old arithmetic *)
                  | _ => (maxSegments - 1)%Z
                  end in
                let '(R, lgR) := fitC_old fuel' (slice_from points sp) (Some recTHat1) t2 segmentsRemaining in
                (py_concat L R, ev (DSplit isCorner r sp) :: lgL ++ lgR)
              end
            end
          else (RList [], [ev (DNoBudget r sp)])
        end
      end
    end
  end.
End OldBudget.

Definition has_nobudget {T} (lg : list (event T)) : bool :=
  existsb (fun e => match ev_dec e with DNoBudget _ _ => true | _ => false end) lg.
(* a computable integer carrier, used only to run the skeleton on an artificial core (only ltb/leb/abs_/ofZ/lit matter) *)
Definition ZOps : Ops Z := {|
  add := Z.add; sub := Z.sub; mul := Z.mul; dvd := Z.div; neg := Z.opp; abs_ := Z.abs; sqrt_ := Z.sqrt;
  ofZ := fun z => z; lit := fun n d _ => (n / d)%Z;
  ltb := Z.ltb; leb := Z.leb; eqb := Z.eqb; isinf_ := fun _ => false;
  cos_ := fun x => x; sin_ := fun x => x; acos_ := fun x => x; atan2_ := fun y _ => y; pow_ := fun x _ => x;
  trunc_ := fun x => x; floor_ := fun x => x; copysign_ := fun x _ => x; pi_ := 3%Z |}.
(* an artificial numeric core that never accepts more than two points and always splits (not a corner) at index 1 *)
Definition split1_core : list (pt Z) -> option (pt Z) -> option (pt Z) -> fitres Z :=
  fun pts _ _ => (FitOk (C4 (P 0 0) (P 0 0) (P 0 0) (P 0 0)) 2 1)%Z.
Definition six_points : list (pt Z) := [P 0 0; P 1 0; P 2 0; P 3 0; P 4 0; P 5 0]%Z.

(* with the old arithmetic a budget equal to the number of points runs out: six points, budget six, three cubics and a hole *)
Theorem budget_refuted_old :
  exists l lg, fitC_old ZOps split1_core (fun _ _ => Some (P 1 0)%Z) 20 six_points None None 6 = (RList l, lg) /\
               has_nobudget lg = true /\ length l = 3%nat.
Proof. eexists. eexists. split; [vm_compute; reflexivity|]. split; reflexivity. Qed.
(* the same run with the present arithmetic: five cubics, no exit for lack of budget *)
Example budget_present_arithmetic :
  exists l lg, fitC ZOps split1_core (fun _ _ => Some (P 1 0)%Z) 20 six_points None None 6 = (RList l, lg) /\
               has_nobudget lg = false /\ length l = 5%nat.
Proof. eexists. eexists. split; [vm_compute; reflexivity|]. split; reflexivity. Qed.
