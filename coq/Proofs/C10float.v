(* C10, floating-point clause: the binary64 instance of the generated area kernels Line.area, QuadraticBezier.area,
   CubicBezier.area is within a few units of roundoff u = 2^-53, times M^2, of the real-number instance applied to the
   real values of the same control points -- and the real instance IS the integral of y dx along the segment
   (Proofs/C10.v, area_is_integral_*; restated here as the [..._integral] theorems).  Proved with Flocq through
   Base/FloatErr.v and Proofs/FloatProd.v.

   Hypotheses: every control coordinate c is a finite float with |FR c| <= M, and M <= Acap = 2^500 (so that M*M, and
   the numerators before the division, at most 64 M*M, do not overflow).
   Conclusions ([val_close x r e] := x finite /\ |FR x - r| <= e), eta = 2^-1075:
       Line.area               9 u M^2 + 5 eta M + 2 eta      [line_area_float_close]
       QuadraticBezier.area   20 u M^2 + 7 eta                [quad_area_float_close]
       CubicBezier.area       28 u M^2 + 7 eta                [cubic_area_float_close]
   and reversal negates the float area up to twice these bounds [*_area_reversed_float]: both float areas are finite and
   |FR (area (reversed s)) + FR (area s)| <= 2 E.  (area_reversed_neg_* of Proofs/C10.v is the real statement used.)

   How the quadratic dependence on M is handled (no linearisation, no cap in the bound):
     - Quad/Cubic: the area is a linear combination, with integer weights, of products x_i * y_j of two control
       coordinates, divided by 6.0 / 20.0.  Each product of two leaves is proved once at the lemma level to be within
       u*N + eta of the real product, with magnitude N, for any N >= M*M (FloatProd.approx_leaf_prod); these products
       are then the LEAVES of the reflective linear-form procedure run with the magnitude parameter N = M*M, and the
       final division by the literal is one more lemma (FloatProd.fbound_div).
     - Line: the area is (0.5 * (x1 - x0)) * (y0 + y1).  The two factors are analysed by the linear procedure in the
       parameter M and the last product with the exact quadratic form q2 M^2 + q1 M + q0 (FloatProd.fbound_mulq).
       The 5 eta M term is real: 0.5 * (x1 - x0) can underflow (absolute error eta) and is then multiplied by y0 + y1.
   The generated definitions are only unfolded by the name-agnostic [fcbv]; the products are found by scanning the
   resulting term ([prod_leaves]), and the analysis follows the structure of whatever expression comes out. *)
From Coq Require Import ZArith Reals Lra Lia List QArith Qreals.
From Flocq Require Import Core.
From Coq Require Import Floats.
From BZ Require Import Base.Ops Base.FloatErr Gen.Point Gen.Line Gen.Quad Gen.Cubic Proofs.C01float Proofs.FloatProd.
From BZ Require Proofs.C10.
From Coquelicot Require Coquelicot.
Open Scope R_scope.

Definition val_close (x : float) (r e : R) : Prop := ffinite x /\ Rabs (FR x - r) <= e.
Lemma val_close_weaken x r e e' : val_close x r e -> e <= e' -> val_close x r e'.
Proof. intros (A & B) H. split; [exact A | lra]. Qed.

(* the magnitude cap: M * M <= 2^1000 = Mcap *)
Definition Acap : R := bpow radix2 500.
Definition capA : Q := inject_Z (2 ^ 500).
Lemma Q2R_capA : Q2R capA = Acap.
Proof. unfold capA. rewrite Q2R_inject_Z. reflexivity. Qed.
Lemma Acap_sq M : 0 <= M -> M <= Acap -> M * M <= Mcap.
Proof.
  intros H0 H. replace Mcap with (Acap * Acap).
  - apply Rmult_le_compat; assumption.
  - unfold Acap, Mcap. rewrite <- bpow_plus. reflexivity.
Qed.

(* the literal 0.5 of Line.area, as a leaf *)
Lemma approx_half M : approx 0x1p-1%float (1 / 2) (leval M (lconst 0)) (leval M (lconst (1 # 2))).
Proof.
  rewrite 2!leval_lconst, Q2R_0. unfold Q2R; cbn [Qnum Qden].
  split; [|split].
  - ffinite_compute.
  - FR_compute 0x1p-1%float.
    match goal with |- Rabs ?e <= _ => replace e with 0 by lra end. rewrite Rabs_R0. lra.
  - rewrite Rabs_pos_eq; lra.
Qed.

Lemma sq_cap M N x : Rabs (FR x) <= M -> M * M <= N -> N <= Mcap -> 0 <= N <= Q2R capQ /\ N <= fmax.
Proof.
  intros H1 H2 H3. assert (0 <= M) by (eapply Rle_trans; [apply Rabs_pos | exact H1]).
  assert (0 <= M * M) by (apply Rmult_le_pos; assumption).
  rewrite Q2R_capQ. repeat split; try lra.
  eapply Rle_trans; [exact H3|]. unfold Mcap, fmax. apply bpow_le. lia.
Qed.

(* ---- Line.area ---- *)
Theorem line_area_float_close M (s : seg2 float) :
  M <= Acap -> seg2_ok M s ->
  val_close (Line_area FOps s) (Line_area ROps (seg2R s)) (9 * u * (M * M) + 5 * eta * M + 2 * eta).
Proof.
  intros Hc Hs. destruct s as [[x0 y0] [x1 y1]].
  destruct Hs as ((Fx0 & Fy0 & Mx0 & My0) & (Fx1 & Fy1 & Mx1 & My1)). cbn [px py l0 l1] in *.
  assert (HMq : 0 <= M <= Q2R capA).
  { rewrite Q2R_capA. split; [eapply Rle_trans; [apply Rabs_pos | exact Mx0] | exact Hc]. }
  pose proof (approx_half M). leaf_hyps M.
  unfold val_close. fcbv. rewrite <- (qeval_u_eta M 9 5 2). fbound_mulq capA M HMq.
Qed.

(* ---- QuadraticBezier.area, CubicBezier.area: in the parameter N >= M * M ---- *)
Lemma quad_area_core M N (s : seg3 float) :
  seg3_ok M s -> M * M <= N -> N <= Mcap ->
  val_close (Quad_area FOps s) (Quad_area ROps (seg3R s)) (20 * u * N + 7 * eta).
Proof.
  intros Hs HN Hc. destruct s as [[x0 y0] [x1 y1] [x2 y2]].
  destruct Hs as ((Fx0 & Fy0 & Mx0 & My0) & (Fx1 & Fy1 & Mx1 & My1) & (Fx2 & Fy2 & Mx2 & My2)).
  cbn [px py q0 q1 q2] in *.
  destruct (sq_cap M N x0 Mx0 HN Hc) as (HNq & Hf).
  unfold val_close. fcbv. prod_leaves M M N HN Hf.
  rewrite <- (leval_u_eta N 20 7). fbound_div capQ N HNq.
Qed.
Lemma cubic_area_core M N (s : seg4 float) :
  seg4_ok M s -> M * M <= N -> N <= Mcap ->
  val_close (Cubic_area FOps s) (Cubic_area ROps (seg4R s)) (28 * u * N + 7 * eta).
Proof.
  intros Hs HN Hc. destruct s as [[x0 y0] [x1 y1] [x2 y2] [x3 y3]].
  destruct Hs as ((Fx0 & Fy0 & Mx0 & My0) & (Fx1 & Fy1 & Mx1 & My1) & (Fx2 & Fy2 & Mx2 & My2) & (Fx3 & Fy3 & Mx3 & My3)).
  cbn [px py c0 c1 c2 c3] in *.
  destruct (sq_cap M N x0 Mx0 HN Hc) as (HNq & Hf).
  unfold val_close. fcbv. prod_leaves M M N HN Hf.
  rewrite <- (leval_u_eta N 28 7). fbound_div capQ N HNq.
Qed.

Theorem quad_area_float_close M (s : seg3 float) :
  M <= Acap -> seg3_ok M s ->
  val_close (Quad_area FOps s) (Quad_area ROps (seg3R s)) (20 * u * (M * M) + 7 * eta).
Proof.
  intros Hc Hs. apply (quad_area_core M (M * M) s Hs (Rle_refl _)).
  apply Acap_sq; [exact (pt_ok_nonneg M _ (proj1 Hs)) | exact Hc].
Qed.
Theorem cubic_area_float_close M (s : seg4 float) :
  M <= Acap -> seg4_ok M s ->
  val_close (Cubic_area FOps s) (Cubic_area ROps (seg4R s)) (28 * u * (M * M) + 7 * eta).
Proof.
  intros Hc Hs. apply (cubic_area_core M (M * M) s Hs (Rle_refl _)).
  apply Acap_sq; [exact (pt_ok_nonneg M _ (proj1 Hs)) | exact Hc].
Qed.

(* ---- the float area against the integral of y dx (Proofs/C10.v: the real area IS that integral) ---- *)
Notation RIntR f := (@Coquelicot.RInt.RInt Coquelicot.Hierarchy.R_CompleteNormedModule f 0 1).
Theorem line_area_float_integral M (s : seg2 float) :
  M <= Acap -> seg2_ok M s ->
  val_close (Line_area FOps s)
    (RIntR (fun t => py (Line_pointAtTime ROps (seg2R s) t) * (px (l1 (seg2R s)) - px (l0 (seg2R s)))))
    (9 * u * (M * M) + 5 * eta * M + 2 * eta).
Proof.
  intros Hc Hs. rewrite (@Coquelicot.RInt.is_RInt_unique Coquelicot.Hierarchy.R_CompleteNormedModule _ _ _ _ (C10.area_is_integral_line (seg2R s))).
  now apply line_area_float_close.
Qed.
Theorem quad_area_float_integral M (s : seg3 float) :
  M <= Acap -> seg3_ok M s ->
  val_close (Quad_area FOps s)
    (RIntR (fun t => py (Quad_pointAtTime ROps (seg3R s) t) * px (Line_pointAtTime ROps (Quad_derivative ROps (seg3R s)) t)))
    (20 * u * (M * M) + 7 * eta).
Proof.
  intros Hc Hs. rewrite (@Coquelicot.RInt.is_RInt_unique Coquelicot.Hierarchy.R_CompleteNormedModule _ _ _ _ (C10.area_is_integral_quad (seg3R s))).
  now apply quad_area_float_close.
Qed.
Theorem cubic_area_float_integral M (s : seg4 float) :
  M <= Acap -> seg4_ok M s ->
  val_close (Cubic_area FOps s)
    (RIntR (fun t => py (Cubic_pointAtTime ROps (seg4R s) t) * px (Quad_pointAtTime ROps (Cubic_derivative ROps (seg4R s)) t)))
    (28 * u * (M * M) + 7 * eta).
Proof.
  intros Hc Hs. rewrite (@Coquelicot.RInt.is_RInt_unique Coquelicot.Hierarchy.R_CompleteNormedModule _ _ _ _ (C10.area_is_integral_cubic (seg4R s))).
  now apply cubic_area_float_close.
Qed.

(* ---- reversal negates the float area, up to twice the bound ---- *)
Definition neg_close (x y : float) (e : R) : Prop := ffinite x /\ ffinite y /\ Rabs (FR x + FR y) <= e.
Lemma neg_close_intro x y r e : val_close x (- r) e -> val_close y r e -> neg_close x y (2 * e).
Proof.
  intros (Fx & Hx) (Fy & Hy). repeat split; auto.
  replace (FR x + FR y) with ((FR x - - r) + (FR y - r)) by ring.
  eapply Rle_trans; [apply Rabs_triang|]. lra.
Qed.
Lemma seg2_ok_reversed M s : seg2_ok M s -> seg2_ok M (Line_reversed FOps s).
Proof. intros (A & B). split; assumption. Qed.
Lemma seg3_ok_reversed M s : seg3_ok M s -> seg3_ok M (Quad_reversed FOps s).
Proof. intros (A & B & C). repeat split; first [apply A | apply B | apply C]. Qed.
Lemma seg4_ok_reversed M s : seg4_ok M s -> seg4_ok M (Cubic_reversed FOps s).
Proof. intros (A & B & C & D). repeat split; first [apply A | apply B | apply C | apply D]. Qed.
Lemma seg2R_reversed s : seg2R (Line_reversed FOps s) = Line_reversed ROps (seg2R s).
Proof. reflexivity. Qed.
Lemma seg3R_reversed s : seg3R (Quad_reversed FOps s) = Quad_reversed ROps (seg3R s).
Proof. reflexivity. Qed.
Lemma seg4R_reversed s : seg4R (Cubic_reversed FOps s) = Cubic_reversed ROps (seg4R s).
Proof. reflexivity. Qed.

Theorem line_area_reversed_float M (s : seg2 float) :
  M <= Acap -> seg2_ok M s ->
  neg_close (Line_area FOps (Line_reversed FOps s)) (Line_area FOps s) (2 * (9 * u * (M * M) + 5 * eta * M + 2 * eta)).
Proof.
  intros Hc Hs. apply neg_close_intro with (r := Line_area ROps (seg2R s)).
  - rewrite <- C10.area_reversed_neg_line, <- seg2R_reversed.
    apply line_area_float_close; [exact Hc | now apply seg2_ok_reversed].
  - now apply line_area_float_close.
Qed.
Theorem quad_area_reversed_float M (s : seg3 float) :
  M <= Acap -> seg3_ok M s ->
  neg_close (Quad_area FOps (Quad_reversed FOps s)) (Quad_area FOps s) (2 * (20 * u * (M * M) + 7 * eta)).
Proof.
  intros Hc Hs. apply neg_close_intro with (r := Quad_area ROps (seg3R s)).
  - rewrite <- C10.area_reversed_neg_quad, <- seg3R_reversed.
    apply quad_area_float_close; [exact Hc | now apply seg3_ok_reversed].
  - now apply quad_area_float_close.
Qed.
Theorem cubic_area_reversed_float M (s : seg4 float) :
  M <= Acap -> seg4_ok M s ->
  neg_close (Cubic_area FOps (Cubic_reversed FOps s)) (Cubic_area FOps s) (2 * (28 * u * (M * M) + 7 * eta)).
Proof.
  intros Hc Hs. apply neg_close_intro with (r := Cubic_area ROps (seg4R s)).
  - rewrite <- C10.area_reversed_neg_cubic, <- seg4R_reversed.
    apply cubic_area_float_close; [exact Hc | now apply seg4_ok_reversed].
  - now apply cubic_area_float_close.
Qed.

(* ---- a round form: relative 1e-14 of M^2, plus an absolute underflow allowance ---- *)
Lemma tol_area M k1 k2 : (k1 <= 90)%Z -> (k2 <= 32)%Z ->
  IZR k1 * u * (M * M) + IZR k2 * eta <= 1e-14 * (M * M) + bpow radix2 (-1070).
Proof.
  intros H1 H2. apply IZR_le in H1, H2.
  assert (HM : 0 <= M * M) by (replace (M * M) with (Rsqr M) by reflexivity; apply Rle_0_sqr).
  assert (Hu : 90 * u <= 1e-14) by (fp_consts; lra).
  assert (He : 32 * eta = bpow radix2 (-1070)).
  { unfold eta. change (-1070)%Z with (5 + -1075)%Z. rewrite bpow_plus. change (bpow radix2 5) with 32. ring. }
  apply Rplus_le_compat.
  - apply Rmult_le_compat_r; [exact HM|]. eapply Rle_trans; [|exact Hu].
    apply Rmult_le_compat_r; [apply Rlt_le, u_pos | exact H1].
  - rewrite <- He. apply Rmult_le_compat_r; [apply Rlt_le, eta_pos | exact H2].
Qed.
Theorem quad_area_float_1e14 M (s : seg3 float) :
  M <= Acap -> seg3_ok M s ->
  val_close (Quad_area FOps s) (Quad_area ROps (seg3R s)) (1e-14 * (M * M) + bpow radix2 (-1070)).
Proof.
  intros Hc Hs. eapply val_close_weaken; [apply (quad_area_float_close M); assumption|].
  apply (tol_area M 20 7); lia.
Qed.
Theorem cubic_area_float_1e14 M (s : seg4 float) :
  M <= Acap -> seg4_ok M s ->
  val_close (Cubic_area FOps s) (Cubic_area ROps (seg4R s)) (1e-14 * (M * M) + bpow radix2 (-1070)).
Proof.
  intros Hc Hs. eapply val_close_weaken; [apply (cubic_area_float_close M); assumption|].
  apply (tol_area M 28 7); lia.
Qed.

(* ---- non-vacuity: the suite's quadratic (150,40)(80,30)(105,150), a line and a cubic, M = 150 / 200 ---- *)
Definition ex_line : seg2 float := (L2 (P 150 40) (P 105 150))%float.
Definition ex_cubic : seg4 float := (C4 (P 120 160) (P 35 200) (P 220 260) (P 220 40))%float.
Lemma ex_line_ok : seg2_ok 150 ex_line.
Proof. unfold seg2_ok, pt_ok, ex_line; cbn [px py l0 l1]. repeat split; first [lit_finite | lit_le]. Qed.
Lemma ex_cubic_ok : seg4_ok 260 ex_cubic.
Proof. unfold seg4_ok, pt_ok, ex_cubic; cbn [px py c0 c1 c2 c3]. repeat split; first [lit_finite | lit_le]. Qed.
Lemma ex_A150 : 150 <= Acap.
Proof. unfold Acap. bpow_lit. lra. Qed.
Lemma ex_A260 : 260 <= Acap.
Proof. unfold Acap. bpow_lit. lra. Qed.
(* small integers are exact: the real image of the example segments *)
Lemma FR_small (z : Z) (x : float) : x = ZtoF z -> (Z.abs z < 2 ^ 53)%Z -> FR x = IZR z.
Proof. intros -> H. now apply approx_ZtoF_exact. Qed.
Ltac FR_ints :=
  repeat match goal with
  | |- context [FR ?c] =>
    let z := eval vm_compute in (match Prim2SF c with S754_finite s m e => Z.shiftl (if s then Z.neg m else Z.pos m) e | _ => 0%Z end) in
    rewrite (FR_small z c) by (vm_compute; reflexivity)
  end.
Lemma ex_quad_area_real : Quad_area ROps (seg3R ex_quad) = - 4675 / 3.
Proof. unfold ex_quad. fcbv. FR_ints. field. Qed.
Lemma ex_line_area_real : Line_area ROps (seg2R ex_line) = - 4275.
Proof. unfold ex_line. fcbv. FR_ints. field. Qed.
Lemma ex_cubic_area_real : Cubic_area ROps (seg4R ex_cubic) = 17545.
Proof. unfold ex_cubic. fcbv. FR_ints. field. Qed.

Example line_area_example :
  val_close (Line_area FOps ex_line) (- 4275) (9 * u * (150 * 150) + 5 * eta * 150 + 2 * eta).
Proof. rewrite <- ex_line_area_real. exact (line_area_float_close 150 ex_line ex_A150 ex_line_ok). Qed.
Example quad_area_example :
  val_close (Quad_area FOps ex_quad) (- 4675 / 3) (1e-14 * (150 * 150) + bpow radix2 (-1070)).
Proof. rewrite <- ex_quad_area_real. exact (quad_area_float_1e14 150 ex_quad ex_A150 ex_quad_ok). Qed.
Example cubic_area_example :
  val_close (Cubic_area FOps ex_cubic) 17545 (28 * u * (260 * 260) + 7 * eta).
Proof. rewrite <- ex_cubic_area_real. exact (cubic_area_float_close 260 ex_cubic ex_A260 ex_cubic_ok). Qed.
Example quad_area_reversed_example :
  neg_close (Quad_area FOps (Quad_reversed FOps ex_quad)) (Quad_area FOps ex_quad) (2 * (20 * u * (150 * 150) + 7 * eta)).
Proof. exact (quad_area_reversed_float 150 ex_quad ex_A150 ex_quad_ok). Qed.
