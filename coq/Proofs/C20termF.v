(* C20termF -- the recursion of MinimumCurveDistanceFinder.minDist (Hand/MinDist.v) ends within the fuel, for the
   BINARY64 instance FOps (what actually runs), under explicit finiteness hypotheses on the values of S and D.

   Same plan as Proofs/C20term.v (reals):
   part 1 (any carrier): the pair minIJ selected by the "Property 1" loop does not depend on alpha, hence not on the
          recursion level (no property of the comparisons is used);
   part 2 (floats): when every D(r,k) is a finite double, ltb decides < on the real values (Base/FloatCmp.v), so the
          selected pair is not (0,0) at a level with isOutside = false and FR alpha <= FR D(0,0);
   part 3 (floats): the interval ends stay finite doubles with 0 <= FR lo <= FR hi <= 1.  The split point
          newu = umin + (umax - umin) * (i / (2n)) is computed with four roundings; all quantities are in [0,2], so
          |FR newu - (lo + W * i/(2n))| <= 5u + 4eta (u = 2^-53) with W = FR umax - FR umin, and a level that recurses has
          W > 1/1001 (the stop test |umax - umin| <= 0.001 is evaluated on the rounded difference).  Hence
          0 <= FR newu - FR lo <= 0.84 W, and >= 0.16 W when i >= 1: each of the four sub-rectangles has both (real)
          widths <= the parent's and area <= 0.84 of the parent's; area stays > 1001^-2: at most 80 nested levels
          ((25/21)^80 > 1001^2).  Fuel 81 always suffices;
   part 4: concrete segments, under the hypotheses "the generated D table is finite" and "S is finite on [0,1]^2";
          the float version of seg_D00 holds for the REAL VALUES (FR (S 0 0) = FR (D 0 0)) when the table is finite:
          at u = v = 0 every Bernstein weight is an exact 1.0 or 0.0 and 0 * d = +-0 for finite d (bitwise the two can
          differ in the sign of zero only; with a non-finite entry S(0,0) is NaN);
   part 5: both finiteness hypotheses follow, for all nine kind pairs, from "every control coordinate is a finite double
          of magnitude <= 2^400" (exponent tracking; rounding to nearest never crosses a power of two), which gives
          curveDistance_terminates_F_bounded without any finiteness hypothesis; and a concrete binary64 run.
   The fuel bound is F = 81 everywhere (a fortiori 100: minDist_terminates_F_100). *)
From Coq Require Import ZArith Reals Lra Lia List QArith Qreals Bool Psatz.
From Flocq Require Import Core.
From Coq Require Import Floats.
From BZ Require Import Base.Ops Base.FloatErr Gen.Point Gen.Line Gen.Quad Gen.Cubic Gen.CurveDist Hand.MinDist.
From BZ Require Import Proofs.C20 Proofs.C20term.
Import ListNotations.
Open Scope R_scope.

(* ---------------------------------------------------------------------------------------------------------- *)
(* part 1: the "Property 1" loop on ANY carrier: shape, and level independence of the selected pair              *)
(* ---------------------------------------------------------------------------------------------------------- *)
Section P1gen.
Context {T : Type} (O : Ops T).
Variable D : nat -> nat -> option T.

(* the update test `not minDRK or drk < minDRK` *)
Definition p1G_upd (md : option T) (drk : T) : bool :=
  negb (truthy O md) || (match md with Some mv => ltb O drk mv | None => false end).

Lemma p1G_step_Some alpha io md mij rk drk :
  D (fst rk) (snd rk) = Some drk ->
  p1_step O D alpha (Ok (io, md, mij)) rk =
  if p1G_upd md drk then Ok (if ltb O drk alpha then false else io, Some drk, Some rk)
  else Ok (if ltb O drk alpha then false else io, md, mij).
Proof. intros E. unfold p1_step, p1G_upd. rewrite E. reflexivity. Qed.

Lemma p1G_step_None alpha io md mij rk :
  D (fst rk) (snd rk) = None -> p1_step O D alpha (Ok (io, md, mij)) rk = IndexErr.
Proof. intros E. unfold p1_step. rewrite E. reflexivity. Qed.

Lemma p1G_fold_err alpha l (e : res (@p1_state T)) :
  (forall x, e <> Ok x) -> fold_left (p1_step O D alpha) l e = e.
Proof.
  intros He. induction l as [| rk l IH]; [reflexivity |]. cbn [fold_left].
  destruct e; try (exfalso; eapply He; reflexivity); exact IH.
Qed.

Lemma p1G_fold_IndexErr alpha l : fold_left (p1_step O D alpha) l IndexErr = IndexErr.
Proof. apply p1G_fold_err. intros x Hx. discriminate. Qed.

Lemma p1G_fold_shape alpha l : forall st, (exists x, st = Ok x) \/ st = IndexErr ->
  (exists x, fold_left (p1_step O D alpha) l st = Ok x) \/ fold_left (p1_step O D alpha) l st = IndexErr.
Proof.
  induction l as [| rk l IH]; intros st Hst; [exact Hst |].
  cbn [fold_left]. apply IH. destruct Hst as [[[[io md] mij] ->] | ->]; [| right; reflexivity].
  destruct (D (fst rk) (snd rk)) as [drk |] eqn:ED.
  - rewrite (p1G_step_Some _ _ _ _ _ _ ED). destruct (p1G_upd md drk); left; eexists; reflexivity.
  - rewrite (p1G_step_None _ _ _ _ _ ED). right; reflexivity.
Qed.

Lemma p1G_fold_minIJ alpha l : forall isOut md mij isOut' md' ij,
  fold_left (p1_step O D alpha) l (Ok (isOut, md, mij)) = Ok (isOut', md', Some ij) ->
  mij = Some ij \/ In ij l.
Proof.
  induction l as [| rk l IH]; intros isOut md mij isOut' md' ij H.
  - cbn [fold_left] in H. inversion H; subst; left; reflexivity.
  - cbn [fold_left] in H. destruct (D (fst rk) (snd rk)) as [drk |] eqn:ED.
    + rewrite (p1G_step_Some _ _ _ _ _ _ ED) in H. destruct (p1G_upd md drk).
      * apply IH in H. destruct H as [H | H]; [inversion H; subst; right; left; reflexivity | right; right; exact H].
      * apply IH in H. destruct H as [H | H]; [left; exact H | right; right; exact H].
    + rewrite (p1G_step_None _ _ _ _ _ ED), p1G_fold_IndexErr in H. discriminate.
Qed.

(* the part of the loop state that does not involve alpha *)
Definition p1G_sel (r : res (@p1_state T)) : res (option T * option (nat * nat)) :=
  match r with
  | Ok (_, md, mij) => Ok (md, mij)
  | OutOfFuel => OutOfFuel | IndexErr => IndexErr | NoneErr => NoneErr | EmptyErr => EmptyErr | UnboundErr => UnboundErr
  end.

Lemma p1G_step_sel_indep a1 a2 st1 st2 rk :
  p1G_sel st1 = p1G_sel st2 -> p1G_sel (p1_step O D a1 st1 rk) = p1G_sel (p1_step O D a2 st2 rk).
Proof.
  intros H.
  destruct st1 as [[[io1 md1] mij1] | | | | |]; destruct st2 as [[[io2 md2] mij2] | | | | |];
    cbn [p1G_sel] in H; try discriminate; try reflexivity.
  inversion H; subst.
  destruct (D (fst rk) (snd rk)) as [drk |] eqn:ED.
  - rewrite !(p1G_step_Some _ _ _ _ _ _ ED). destruct (p1G_upd md2 drk); reflexivity.
  - rewrite !(p1G_step_None _ _ _ _ _ ED). reflexivity.
Qed.

Lemma p1G_fold_sel_indep a1 a2 l : forall st1 st2,
  p1G_sel st1 = p1G_sel st2 ->
  p1G_sel (fold_left (p1_step O D a1) l st1) = p1G_sel (fold_left (p1_step O D a2) l st2).
Proof.
  induction l as [| rk l IH]; intros st1 st2 H; [exact H |].
  cbn [fold_left]. apply IH. apply p1G_step_sel_indep. exact H.
Qed.

(* PART 1 (any carrier, floats included; NaN entries allowed): minDRK and minIJ are level independent *)
Theorem minIJ_level_independent_gen n m alpha1 alpha2 io1 md mij :
  fold_left (p1_step O D alpha1) (index_pairs n m) (Ok (true, None, None)) = Ok (io1, md, mij) ->
  exists io2, fold_left (p1_step O D alpha2) (index_pairs n m) (Ok (true, None, None)) = Ok (io2, md, mij).
Proof.
  intros H.
  pose proof (p1G_fold_sel_indep alpha1 alpha2 (index_pairs n m) (Ok (true, None, None)) (Ok (true, None, None)) eq_refl) as E.
  rewrite H in E. cbn [p1G_sel] in E.
  destruct (fold_left (p1_step O D alpha2) (index_pairs n m) (Ok (true, None, None))) as [[[io2 md2] mij2] | | | | |];
    cbn [p1G_sel] in E; try discriminate.
  inversion E; subst. exists io2. reflexivity.
Qed.

(* an Ok run has read D(0,0) *)
Lemma p1G_fold_Ok_D00 n m alpha x : (1 <= n)%nat -> (1 <= m)%nat ->
  fold_left (p1_step O D alpha) (index_pairs n m) (Ok (true, None, None)) = Ok x -> exists d00, D 0%nat 0%nat = Some d00.
Proof.
  intros Hn Hm H. destruct (index_pairs_head n m Hn Hm) as (tl & E & _). rewrite E in H. cbn [fold_left] in H.
  destruct (D 0%nat 0%nat) as [d00 |] eqn:ED; [exists d00; reflexivity |].
  rewrite (p1G_step_None alpha true None None (0%nat, 0%nat) ED), p1G_fold_IndexErr in H. discriminate.
Qed.

(* the "Property 2" loop produces a state or an IndexErr, nothing else *)
Lemma p2G_fold_shape n l : forall st, (exists x, st = Ok x) \/ st = IndexErr ->
  (exists x, fold_left (p2_step O n D) l st = Ok x) \/ fold_left (p2_step O n D) l st = IndexErr.
Proof.
  induction l as [| ij l IH]; intros st Hst; [exact Hst |].
  cbn [fold_left]. apply IH. destruct Hst as [[[[[f01 f11] f02] f12] ->] | ->]; [| right; reflexivity].
  unfold p2_step.
  destruct (D (fst ij) (snd ij)); [| right; reflexivity]. destruct (D 0%nat (snd ij)); [| right; reflexivity].
  destruct (D (2 * n)%nat (snd ij)); [| right; reflexivity]. destruct (D (fst ij) 0%nat); [| right; reflexivity].
  destruct (D (fst ij) (2 * n)%nat); [| right; reflexivity]. left; eexists; reflexivity.
Qed.
End P1gen.

(* ---------------------------------------------------------------------------------------------------------- *)
(* part 2: floats with finite D entries: the selected pair is not (0,0)                                          *)
(* ---------------------------------------------------------------------------------------------------------- *)
Section P1F.
Variable D : nat -> nat -> option float.
Hypothesis HD : forall r k d, D r k = Some d -> ffinite d.

(* isOutside can only become false through an entry whose real value is below alpha's *)
Lemma p1F_fold_isOut alpha l : ffinite alpha -> forall io md mij md' mij',
  fold_left (p1_step FOps D alpha) l (Ok (io, md, mij)) = Ok (false, md', mij') ->
  io = false \/ exists rk d, In rk l /\ D (fst rk) (snd rk) = Some d /\ FR d < FR alpha.
Proof.
  intros Fa. induction l as [| rk l IH]; intros io md mij md' mij' H.
  - cbn [fold_left] in H. inversion H; subst. left; reflexivity.
  - cbn [fold_left] in H. destruct (D (fst rk) (snd rk)) as [drk |] eqn:ED.
    + rewrite (p1G_step_Some _ _ _ _ _ _ _ _ ED) in H.
      assert (Hio : (if ltb FOps drk alpha then false else io) = false ->
                    io = false \/ exists rk0 d, In rk0 (rk :: l) /\ D (fst rk0) (snd rk0) = Some d /\ FR d < FR alpha).
      { destruct (ltb FOps drk alpha) eqn:El; intros Hc; [| left; exact Hc].
        right. exists rk, drk. split; [left; reflexivity |]. split; [exact ED |].
        apply (Fltb_true drk alpha (HD _ _ _ ED) Fa). exact El. }
      destruct (p1G_upd FOps md drk); apply IH in H;
        (destruct H as [H | (rk0 & d & Hin & Hd & Hlt)];
         [apply Hio; exact H | right; exists rk0, d; split; [right; exact Hin | split; assumption]]).
    + rewrite (p1G_step_None _ _ _ _ _ _ _ ED), p1G_fold_IndexErr in H. discriminate.
Qed.

(* as long as (0,0) stays selected, no later entry was below D(0,0) *)
Lemma p1F_fold_keep00 alpha l : ~ In (0%nat, 0%nat) l -> forall io d00 io' md', ffinite d00 ->
  fold_left (p1_step FOps D alpha) l (Ok (io, Some d00, Some (0%nat, 0%nat))) = Ok (io', md', Some (0%nat, 0%nat)) ->
  forall rk d, In rk l -> D (fst rk) (snd rk) = Some d -> FR d00 <= FR d.
Proof.
  induction l as [| rk0 l IH]; intros Hnin io d00 io' md' F0 H rk d Hin Hd; [destruct Hin |].
  cbn [fold_left] in H. destruct (D (fst rk0) (snd rk0)) as [drk |] eqn:ED.
  - rewrite (p1G_step_Some _ _ _ _ _ _ _ _ ED) in H. destruct (p1G_upd FOps (Some d00) drk) eqn:U.
    + exfalso. apply p1G_fold_minIJ in H. destruct H as [H | H].
      * inversion H; subst. apply Hnin. left; reflexivity.
      * apply Hnin. right; exact H.
    + unfold p1G_upd in U. apply orb_false_elim in U. destruct U as [_ U].
      apply (Fltb_false drk d00 (HD _ _ _ ED) F0) in U.
      destruct Hin as [-> | Hin].
      * rewrite ED in Hd. inversion Hd; subst. exact U.
      * eapply IH; [intros Hc; apply Hnin; right; exact Hc | exact F0 | exact H | exact Hin | exact Hd].
  - rewrite (p1G_step_None _ _ _ _ _ _ _ ED), p1G_fold_IndexErr in H. discriminate.
Qed.

(* PART 2: when isOutside is false at a level whose alpha is <= D(0,0) (real values), the selected pair is not (0,0) *)
Theorem minIJ_not_origin_F n m alpha d00 md i j : (1 <= n)%nat -> (1 <= m)%nat -> ffinite alpha ->
  D 0%nat 0%nat = Some d00 -> FR alpha <= FR d00 ->
  fold_left (p1_step FOps D alpha) (index_pairs n m) (Ok (true, None, None)) = Ok (false, md, Some (i, j)) ->
  (i, j) <> (0%nat, 0%nat) /\ (i < 2 * n)%nat /\ (j < 2 * m)%nat.
Proof.
  intros Hn Hm Fa ED Ha H. pose proof (HD _ _ _ ED) as F0. split.
  - destruct (index_pairs_head n m Hn Hm) as (tl & E & Hnin). rewrite E in H. cbn [fold_left] in H.
    rewrite (p1G_step_Some FOps D alpha true None None (0%nat, 0%nat) d00 ED) in H.
    change (p1G_upd FOps None d00) with true in H. cbv iota in H.
    assert (El : ltb FOps d00 alpha = false) by (apply (Fltb_false d00 alpha F0 Fa); exact Ha).
    rewrite El in H.
    intros Hij. inversion Hij; subst.
    pose proof (p1F_fold_isOut _ _ Fa _ _ _ _ _ H) as [Hc | (rk & d & Hin & Hd & Hlt)]; [discriminate |].
    pose proof (p1F_fold_keep00 alpha tl Hnin _ _ _ _ F0 H rk d Hin Hd). lra.
  - apply p1G_fold_minIJ in H. destruct H as [H | H]; [discriminate |]. apply in_index_pairs in H. exact H.
Qed.
End P1F.

(* ---------------------------------------------------------------------------------------------------------- *)
(* part 3a: rounding facts on [0,2]                                                                              *)
(* ---------------------------------------------------------------------------------------------------------- *)
Lemma rnd_le x y : x <= y -> rnd x <= rnd y.
Proof. intros H. unfold rnd. apply round_le; auto with typeclass_instances. Qed.
Lemma rnd_0 : rnd 0 = 0.
Proof. unfold rnd. apply round_0; auto with typeclass_instances. Qed.
Lemma rnd_FR x : rnd (FR x) = FR x.
Proof. apply rnd_exact, FR_format. Qed.
Lemma rnd_1 : rnd 1 = 1.
Proof. rewrite <- FR_one. apply rnd_FR. Qed.
Lemma rnd_01 x : 0 <= x <= 1 -> 0 <= rnd x <= 1.
Proof. intros [H0 H1]. split; [rewrite <- rnd_0 | rewrite <- rnd_1]; apply rnd_le; assumption. Qed.
Lemma two_le_fmax : 2 <= fmax.
Proof. change 2 with (bpow radix2 1). unfold fmax. apply bpow_le. lia. Qed.
Lemma ueta_small : 5 * u + 4 * eta <= / 1001000.
Proof. fp_consts. lra. Qed.
(* absolute error of one rounding of a value in [-2,2] *)
Lemma rnd_err2 x : Rabs x <= 2 -> Rabs (rnd x - x) <= 2 * u + eta.
Proof.
  intros H. eapply Rle_trans; [apply rnd_error |]. pose proof u_pos.
  assert (u * Rabs x <= u * 2) by (apply Rmult_le_compat_l; lra). lra.
Qed.
Lemma rnd_err1 x : Rabs x <= 1 -> Rabs (rnd x - x) <= u + eta.
Proof.
  intros H. eapply Rle_trans; [apply rnd_error |]. pose proof u_pos.
  assert (u * Rabs x <= u * 1) by (apply Rmult_le_compat_l; lra). lra.
Qed.

(* the interval invariant: finite ends, 0 <= lo <= hi <= 1 (real values) *)
Definition iv_ok (lo hi : float) : Prop := ffinite lo /\ ffinite hi /\ 0 <= FR lo /\ FR lo <= FR hi /\ FR hi <= 1.

(* the computed width is the rounded real width *)
Lemma width_F lo hi : iv_ok lo hi ->
  ffinite (sub FOps hi lo) /\ FR (sub FOps hi lo) = rnd (FR hi - FR lo).
Proof.
  intros (Fl & Fh & H0 & Hle & H1). pose proof two_le_fmax.
  apply (Fsub_correct hi lo Fh Fl). rewrite Rabs_pos_eq by lra. lra.
Qed.

Lemma eps_F : ffinite (eps_default FOps) /\ 9999 / 10000000 <= FR (eps_default FOps).
Proof.
  change (eps_default FOps) with 0x1.0624dd2f1a9fcp-10%float. split; [ffinite_compute |].
  FR_compute 0x1.0624dd2f1a9fcp-10%float. lra.
Qed.

(* the stop test `abs(hi - lo) <= 0.001`, evaluated in floats: a level that goes on has real width > 1/1001 *)
Lemma stop_test_F lo hi : iv_ok lo hi ->
  leb FOps (abs_ FOps (sub FOps hi lo)) (eps_default FOps) = false -> / 1001 < FR hi - FR lo.
Proof.
  intros Hiv Hl. destruct (width_F lo hi Hiv) as (Fd & Vd). destruct Hiv as (Fl & Fh & H0 & Hle & H1).
  destruct eps_F as (Fe & Ve).
  change (PrimFloat.leb (PrimFloat.abs (sub FOps hi lo)) (eps_default FOps) = false) in Hl.
  apply (Fleb_false _ _ (proj2 (Fabs_finite _) Fd) Fe) in Hl. rewrite Fabs_correct, Vd in Hl.
  set (W := FR hi - FR lo) in *.
  assert (HW : 0 <= W <= 1) by (unfold W; lra).
  pose proof (rnd_01 W HW) as Hr. rewrite Rabs_pos_eq in Hl by lra.
  pose proof (rnd_err1 W ltac:(rewrite Rabs_pos_eq; lra)) as He. apply Rabs_le_inv in He.
  pose proof ueta_small. pose proof u_pos. pose proof eta_pos. lra.
Qed.

(* the split point: lo + (hi - lo) * (i / N) with four roundings *)
Definition splitF (lo hi : float) (i N : nat) : float :=
  add FOps lo (mul FOps (sub FOps hi lo) (dvd FOps (ofZ FOps (Z.of_nat i)) (ofZ FOps (Z.of_nat N)))).

Lemma frac_F (i N : nat) : (i < N)%nat -> (N <= 6)%nat ->
  let c := dvd FOps (ofZ FOps (Z.of_nat i)) (ofZ FOps (Z.of_nat N)) in
  let r := IZR (Z.of_nat i) / IZR (Z.of_nat N) in
  ffinite c /\ 0 <= FR c <= 1 /\ Rabs (FR c - r) <= u + eta.
Proof.
  intros Hi HN c r.
  assert (Hzi : (Z.abs (Z.of_nat i) < 2 ^ 53)%Z) by (change (2 ^ 53)%Z with 9007199254740992%Z; lia).
  assert (HzN : (Z.abs (Z.of_nat N) < 2 ^ 53)%Z) by (change (2 ^ 53)%Z with 9007199254740992%Z; lia).
  destruct (FR_ZtoF _ Hzi) as (Fi & Vi). destruct (FR_ZtoF _ HzN) as (FN & VN).
  destruct (frac_01 i N Hi) as [Hr0 Hr1]. fold r in Hr0, Hr1.
  assert (HN0 : IZR (Z.of_nat N) <> 0) by (apply not_0_IZR; lia).
  pose proof two_le_fmax.
  destruct (Fdiv_correct (ZtoF (Z.of_nat i)) (ZtoF (Z.of_nat N)) Fi FN) as (Fc & Vc).
  { rewrite VN. exact HN0. }
  { rewrite Vi, VN. fold r. rewrite Rabs_pos_eq; lra. }
  rewrite Vi, VN in Vc. fold r in Vc.
  change (ffinite c /\ 0 <= FR c <= 1 /\ Rabs (FR c - r) <= u + eta).
  change c with (PrimFloat.div (ZtoF (Z.of_nat i)) (ZtoF (Z.of_nat N))).
  split; [exact Fc |]. rewrite Vc. split; [apply rnd_01; lra |]. apply rnd_err1. rewrite Rabs_pos_eq; lra.
Qed.

(* THE SPLIT LEMMA: on an interval of real width W > 1/1001 the computed split point is a finite double inside the
   interval, at most 0.84 W above lo, and at least 0.16 W above lo when i >= 1 *)
Lemma split_F lo hi (i N : nat) : iv_ok lo hi -> / 1001 < FR hi - FR lo -> (i < N)%nat -> (N <= 6)%nat ->
  let nw := splitF lo hi i N in
  ffinite nw /\ FR lo <= FR nw <= FR hi /\
  FR nw - FR lo <= 21 / 25 * (FR hi - FR lo) /\ ((1 <= i)%nat -> 4 / 25 * (FR hi - FR lo) <= FR nw - FR lo).
Proof.
  intros Hiv HW Hi HN nw.
  destruct (width_F lo hi Hiv) as (Fd & Vd). destruct Hiv as (Fl & Fh & H0 & Hle & H1).
  destruct (frac_F i N Hi HN) as (Fc & Hc01 & Hce). cbv zeta in Fc, Hc01, Hce.
  destruct (frac_bounds i N Hi HN) as [Hr Hr1].
  set (c := dvd FOps (ofZ FOps (Z.of_nat i)) (ofZ FOps (Z.of_nat N))) in *.
  set (r := IZR (Z.of_nat i) / IZR (Z.of_nat N)) in *.
  set (d := sub FOps hi lo) in *.
  set (W := FR hi - FR lo) in *.
  assert (HW01 : 0 <= W <= 1) by (unfold W; lra).
  pose proof (rnd_01 W HW01) as Hd01. rewrite <- Vd in Hd01.
  pose proof (rnd_err1 W ltac:(rewrite Rabs_pos_eq; lra)) as Hde. rewrite <- Vd in Hde.
  pose proof two_le_fmax as Hfm.
  (* the product *)
  assert (Hdc : 0 <= FR d * FR c <= 1) by nra.
  destruct (Fmul_correct d c Fd Fc) as (Fp & Vp); [rewrite Rabs_pos_eq; lra |].
  pose proof (rnd_01 _ Hdc) as Hp01. rewrite <- Vp in Hp01.
  assert (Hpe : Rabs (rnd (FR d * FR c) - FR d * FR c) <= u + eta) by (apply rnd_err1; rewrite Rabs_pos_eq; lra).
  rewrite <- Vp in Hpe.
  set (p := (d * c)%float) in *.
  (* the sum *)
  assert (Hs : 0 <= FR lo + FR p <= 2) by lra.
  destruct (Fadd_correct lo p Fl Fp) as (Fn & Vn); [rewrite Rabs_pos_eq; lra |].
  pose proof (rnd_err2 (FR lo + FR p) ltac:(rewrite Rabs_pos_eq; lra)) as Hne. rewrite <- Vn in Hne.
  assert (Hlow : FR lo <= FR (lo + p)%float).
  { rewrite Vn. rewrite <- (rnd_FR lo) at 1. apply rnd_le. lra. }
  change nw with (lo + p)%float.
  set (nR := FR (lo + p)%float) in *.
  (* total absolute error of the split point *)
  assert (E1 : Rabs ((FR d - W) * FR c) <= u + eta).
  { rewrite Rabs_mult. rewrite (Rabs_pos_eq (FR c)) by lra.
    pose proof (Rabs_pos (FR d - W)). nra. }
  assert (E2 : Rabs (W * (FR c - r)) <= u + eta).
  { rewrite Rabs_mult. rewrite (Rabs_pos_eq W) by lra.
    pose proof (Rabs_pos (FR c - r)). nra. }
  assert (Etot : Rabs (nR - (FR lo + W * r)) <= 5 * u + 4 * eta).
  { replace (nR - (FR lo + W * r)) with
      ((nR - (FR lo + FR p)) + ((FR p - FR d * FR c) + ((FR d - W) * FR c + W * (FR c - r)))) by ring.
    eapply Rle_trans; [apply Rabs_triang |].
    eapply Rle_trans; [apply Rplus_le_compat_l, Rabs_triang |].
    eapply Rle_trans; [apply Rplus_le_compat_l, Rplus_le_compat_l, Rabs_triang |]. lra. }
  apply Rabs_le_inv in Etot. pose proof ueta_small as Hsm.
  assert (Hup : W * r <= W * (5 / 6)) by (apply Rmult_le_compat_l; lra).
  assert (H1001 : / 1001000 = / 1001 * / 1000) by lra.
  split; [exact Fn |].
  assert (B1 : nR - FR lo <= 21 / 25 * W) by lra.
  split; [split; [exact Hlow | unfold W in *; lra] |].
  split; [exact B1 |].
  intros Hi1. specialize (Hr1 Hi1).
  assert (Hdn : W * (1 / 6) <= W * r) by (apply Rmult_le_compat_l; lra).
  lra.
Qed.

(* min2 on finite doubles returns a finite double not above its first argument *)
Lemma min2_F a b : ffinite a -> ffinite b -> ffinite (min2 FOps a b) /\ FR (min2 FOps a b) <= FR a.
Proof.
  intros Fa Fb. unfold min2. destruct (ltb FOps b a) eqn:E.
  - split; [exact Fb |]. apply (Fltb_true b a Fb Fa) in E. lra.
  - split; [exact Fa | lra].
Qed.

(* area bookkeeping for the four sub-rectangles: a, b are the offsets of the split point in the two directions *)
Lemma subcells_F (Wu Wv a b : R) : 0 <= Wu -> 0 <= Wv -> 0 <= a <= 21 / 25 * Wu -> 0 <= b <= 21 / 25 * Wv ->
  (4 / 25 * Wu <= a \/ 4 / 25 * Wv <= b) ->
  a * b <= 21 / 25 * (Wu * Wv) /\ a * (Wv - b) <= 21 / 25 * (Wu * Wv) /\
  (Wu - a) * b <= 21 / 25 * (Wu * Wv) /\ (Wu - a) * (Wv - b) <= 21 / 25 * (Wu * Wv).
Proof.
  intros HWu HWv Ha Hb Hab.
  assert (P1 : a * b <= (21 / 25 * Wu) * Wv) by (apply Rmult_le_compat; lra).
  assert (P2 : a * (Wv - b) <= (21 / 25 * Wu) * Wv) by (apply Rmult_le_compat; lra).
  assert (P3 : (Wu - a) * b <= Wu * (21 / 25 * Wv)) by (apply Rmult_le_compat; lra).
  assert (P4 : (Wu - a) * (Wv - b) <= 21 / 25 * (Wu * Wv)).
  { destruct Hab as [Hab | Hab].
    - assert ((Wu - a) * (Wv - b) <= (21 / 25 * Wu) * Wv) by (apply Rmult_le_compat; lra). lra.
    - assert ((Wu - a) * (Wv - b) <= Wu * (21 / 25 * Wv)) by (apply Rmult_le_compat; lra). lra. }
  repeat split; lra.
Qed.

(* ---------------------------------------------------------------------------------------------------------- *)
(* part 3b: termination within the fuel, binary64                                                                *)
(* ---------------------------------------------------------------------------------------------------------- *)
Section TermF.
Variables (n m : nat) (Sf : float -> float -> option float) (Df : nat -> nat -> option float).
Hypothesis Hn : (1 <= n <= 3)%nat.
Hypothesis Hm : (1 <= m <= 3)%nat.
(* (H1) the values of D are finite doubles; the values of S at finite arguments of [0,1]^2 are finite doubles *)
Hypothesis HD : forall r k d, Df r k = Some d -> ffinite d.
Hypothesis HS : forall a b s, ffinite a -> ffinite b -> 0 <= FR a <= 1 -> 0 <= FR b <= 1 -> Sf a b = Some s -> ffinite s.

Lemma minDistF_S fuel st umin umax vmin vmax :
  minDist FOps n m Sf Df (Datatypes.S fuel) st umin umax vmin vmax =
  minDist_body FOps n m Sf Df (minDist FOps n m Sf Df fuel) st umin umax vmin vmax.
Proof. reflexivity. Qed.

(* a level whose result is OutOfFuel has passed every early return, and one of its four recursive calls ran out *)
Lemma body_inv_F rec st umin umax vmin vmax : iv_ok umin umax -> iv_ok vmin vmax ->
  fst (minDist_body FOps n m Sf Df rec st umin umax vmin vmax) = OutOfFuel ->
  exists s00 alpha md i j,
    Sf umin vmin = Some s00 /\ ffinite s00 /\ ffinite alpha /\ FR alpha <= FR s00 /\
    / 1001 < FR umax - FR umin /\ / 1001 < FR vmax - FR vmin /\
    fold_left (p1_step FOps Df alpha) (index_pairs n m) (Ok (true, None, None)) = Ok (false, md, Some (i, j)) /\
    let newu := splitF umin umax i (2 * n) in
    let newv := splitF vmin vmax j (2 * m) in
    exists st', fst (rec st' umin newu vmin newv) = OutOfFuel \/ fst (rec st' umin newu newv vmax) = OutOfFuel \/
                fst (rec st' newu umax vmin newv) = OutOfFuel \/ fst (rec st' newu umax newv vmax) = OutOfFuel.
Proof.
  intros Hu Hv H. unfold minDist_body in H.
  destruct (Sf umin vmin) as [s00 |] eqn:E00; [| cbn [fst] in H; discriminate].
  destruct (Sf umin vmax) as [s01 |] eqn:E01; [| cbn [fst] in H; discriminate].
  destruct (Sf umax vmin) as [s10 |] eqn:E10; [| cbn [fst] in H; discriminate].
  destruct (Sf umax vmax) as [s11 |] eqn:E11; [| cbn [fst] in H; discriminate].
  assert (F00 : ffinite s00 /\ ffinite s01 /\ ffinite s10 /\ ffinite s11).
  { destruct Hu as (Fa & Fb & ? & ? & ?). destruct Hv as (Fc & Fd & ? & ? & ?).
    repeat split; [eapply (HS umin vmin) | eapply (HS umin vmax) | eapply (HS umax vmin) | eapply (HS umax vmax)];
      try eassumption; lra. }
  destruct F00 as (F00 & F01 & F10 & F11).
  destruct (min2_F s00 s01 F00 F01) as (Fm1 & Lm1).
  destruct (min2_F _ s10 Fm1 F10) as (Fm2 & Lm2).
  destruct (min2_F _ s11 Fm2 F11) as (Fm3 & Lm3).
  set (alpha := min2 FOps (min2 FOps (min2 FOps s00 s01) s10) s11) in *.
  cbn [fst snd] in H.
  match type of H with context [if ?c then _ else _] => destruct c end; [cbn [fst] in H; discriminate |].
  destruct (leb FOps (abs_ FOps (sub FOps umax umin)) (eps_default FOps)) eqn:Eu; [cbn [orb fst] in H; discriminate |].
  destruct (leb FOps (abs_ FOps (sub FOps vmax vmin)) (eps_default FOps)) eqn:Ev; [cbn [orb fst] in H; discriminate |].
  cbn [orb] in H.
  pose proof (p1G_fold_shape FOps Df alpha (index_pairs n m) (Ok (true, None, None)) (or_introl (ex_intro _ _ eq_refl))) as Sh1.
  destruct (fold_left (p1_step FOps Df alpha) (index_pairs n m) (Ok (true, None, None))) as [[[isOut md] minIJ] | | | | |] eqn:E1;
    try (cbn [fst] in H; discriminate); try (exfalso; destruct Sh1 as [[? Hx] | Hx]; discriminate).
  destruct isOut; [cbn [fst] in H; discriminate |].
  pose proof (p2G_fold_shape FOps Df n (index_pairs n m) (Ok (true, true, true, true)) (or_introl (ex_intro _ _ eq_refl))) as Sh2.
  destruct (fold_left (p2_step FOps n Df) (index_pairs n m) (Ok (true, true, true, true))) as [[[[f01 f11] f02] f12] | | | | |] eqn:E2;
    try (cbn [fst] in H; discriminate); try (exfalso; destruct Sh2 as [[? Hx] | Hx]; discriminate).
  destruct (f01 && f02); [cbn [fst] in H; discriminate |]. destruct (f01 && f12); [cbn [fst] in H; discriminate |].
  destruct (f11 && f02); [cbn [fst] in H; discriminate |]. destruct (f11 && f12); [cbn [fst] in H; discriminate |].
  destruct minIJ as [[i j] |]; [| cbn [fst] in H; discriminate].
  exists s00, alpha, md, i, j.
  split; [reflexivity |]. split; [exact F00 |]. split; [exact Fm3 |]. split; [lra |].
  split; [exact (stop_test_F _ _ Hu Eu) |]. split; [exact (stop_test_F _ _ Hv Ev) |]. split; [exact E1 |].
  cbv zeta.
  change (add FOps umin (mul FOps (sub FOps umax umin) (dvd FOps (ofZ FOps (Z.of_nat i)) (ofZ FOps (Z.of_nat (2 * n))))))
    with (splitF umin umax i (2 * n)) in H.
  change (add FOps vmin (mul FOps (sub FOps vmax vmin) (dvd FOps (ofZ FOps (Z.of_nat j)) (ofZ FOps (Z.of_nat (2 * m))))))
    with (splitF vmin vmax j (2 * m)) in H.
  set (newu := splitF umin umax i (2 * n)) in *.
  set (newv := splitF vmin vmax j (2 * m)) in *.
  destruct (rec (Some alpha, Datatypes.S (snd st)) umin newu vmin newv) as [r1 st2] eqn:R1.
  destruct r1 as [x1 | | | | |]; try (cbn [fst] in H; discriminate).
  2:{ eexists. left. rewrite R1. reflexivity. }
  destruct (rec st2 umin newu newv vmax) as [r2 st3] eqn:R2.
  destruct r2 as [x2 | | | | |]; try (cbn [fst] in H; discriminate).
  2:{ eexists. right; left. rewrite R2. reflexivity. }
  destruct (rec st3 newu umax vmin newv) as [r3 st4] eqn:R3.
  destruct r3 as [x3 | | | | |]; try (cbn [fst] in H; discriminate).
  2:{ eexists. right; right; left. rewrite R3. reflexivity. }
  destruct (rec st4 newu umax newv vmax) as [r4 st5] eqn:R4.
  destruct r4 as [x4 | | | | |]; try (cbn [fst] in H; discriminate).
  eexists. right; right; right. rewrite R4. reflexivity.
Qed.

(* the level-independent selection *)
Definition selF : option (nat * nat) :=
  match fold_left (p1_step FOps Df 0%float) (index_pairs n m) (Ok (true, None, None)) with Ok (_, _, mij) => mij | _ => None end.

Lemma selF_spec alpha io md mij :
  fold_left (p1_step FOps Df alpha) (index_pairs n m) (Ok (true, None, None)) = Ok (io, md, mij) -> selF = mij.
Proof.
  intros H. destruct (minIJ_level_independent_gen FOps Df n m alpha 0%float io md mij H) as [io2 H2]. unfold selF. rewrite H2. reflexivity.
Qed.

(* THE BOUND.  If the selected pair is not (0,0), a call on a rectangle (finite ends in [0,1]) that runs out of fuel f+1
   has real area > 1001^-2 * (25/21)^f *)
Lemma oof_bound_F :
  (forall i j, selF = Some (i, j) -> (i, j) <> (0%nat, 0%nat)) ->
  forall f st umin umax vmin vmax, iv_ok umin umax -> iv_ok vmin vmax ->
    fst (minDist FOps n m Sf Df (Datatypes.S f) st umin umax vmin vmax) = OutOfFuel ->
    / 1002001 * (25 / 21) ^ f < (FR umax - FR umin) * (FR vmax - FR vmin).
Proof.
  intros Hsel. induction f as [| f IH]; intros st umin umax vmin vmax Hu Hv H; rewrite minDistF_S in H;
    apply (body_inv_F _ _ _ _ _ _ Hu Hv) in H;
    destruct H as (s00 & alpha & md & i & j & _ & _ & _ & _ & Hwu & Hwv & E1 & H); cbv zeta in H.
  - rewrite pow_O. nra.
  - destruct H as [st' H].
    pose proof (Hsel i j (selF_spec _ _ _ _ E1)) as Hne.
    apply p1G_fold_minIJ in E1. destruct E1 as [E1 | E1]; [discriminate |]. apply in_index_pairs in E1. destruct E1 as [Hi Hj].
    destruct (split_F umin umax i (2 * n) Hu Hwu Hi ltac:(lia)) as (Fnu & Bnu & Unu & Lnu).
    destruct (split_F vmin vmax j (2 * m) Hv Hwv Hj ltac:(lia)) as (Fnv & Bnv & Unv & Lnv).
    cbv zeta in Fnu, Bnu, Unu, Lnu, Fnv, Bnv, Unv, Lnv.
    set (newu := splitF umin umax i (2 * n)) in *.
    set (newv := splitF vmin vmax j (2 * m)) in *.
    assert (Hc : 4 / 25 * (FR umax - FR umin) <= FR newu - FR umin \/ 4 / 25 * (FR vmax - FR vmin) <= FR newv - FR vmin).
    { destruct i as [| i']; [| left; apply Lnu; lia]. destruct j as [| j']; [| right; apply Lnv; lia].
      exfalso. apply Hne. reflexivity. }
    destruct Hu as (Fu1 & Fu2 & Hu0 & Hule & Hu1). destruct Hv as (Fv1 & Fv2 & Hv0 & Hvle & Hv1).
    assert (Iu1 : iv_ok umin newu) by (repeat split; try assumption; lra).
    assert (Iu2 : iv_ok newu umax) by (repeat split; try assumption; lra).
    assert (Iv1 : iv_ok vmin newv) by (repeat split; try assumption; lra).
    assert (Iv2 : iv_ok newv vmax) by (repeat split; try assumption; lra).
    pose proof (subcells_F (FR umax - FR umin) (FR vmax - FR vmin) (FR newu - FR umin) (FR newv - FR vmin)
                  ltac:(lra) ltac:(lra) ltac:(lra) ltac:(lra) Hc) as (B1 & B2 & B3 & B4).
    replace (FR umax - FR umin - (FR newu - FR umin)) with (FR umax - FR newu) in B3, B4 by ring.
    replace (FR vmax - FR vmin - (FR newv - FR vmin)) with (FR vmax - FR newv) in B2, B4 by ring.
    change ((25 / 21) ^ Datatypes.S f) with (25 / 21 * (25 / 21) ^ f).
    destruct H as [H | [H | [H | H]]];
      [apply (IH _ _ _ _ _ Iu1 Iv1) in H | apply (IH _ _ _ _ _ Iu1 Iv2) in H
      | apply (IH _ _ _ _ _ Iu2 Iv1) in H | apply (IH _ _ _ _ _ Iu2 Iv2) in H]; lra.
Qed.

Lemma iv_ok_01 : iv_ok (ofZ FOps 0) (ofZ FOps 1).
Proof.
  change (ofZ FOps 0) with 0%float. change (ofZ FOps 1) with 1%float.
  unfold iv_ok. rewrite FR_zero, FR_one. split; [exact ffinite_zero |]. split; [exact ffinite_one |]. lra.
Qed.

(* THE ABSTRACT TERMINATION THEOREM, binary64: if the real value of D(0,0) is not below that of S(0,0), a run started on
   the unit square never runs out of fuel >= 81 (at most 80 nested levels: (25/21)^80 > 1001^2) *)
Theorem minDist_terminates_F_weak :
  (forall d s, Df 0%nat 0%nat = Some d -> Sf (ofZ FOps 0) (ofZ FOps 0) = Some s -> FR s <= FR d) ->
  forall fuel st, (81 <= fuel)%nat ->
    fst (minDist FOps n m Sf Df fuel st (ofZ FOps 0) (ofZ FOps 1) (ofZ FOps 0) (ofZ FOps 1)) <> OutOfFuel.
Proof.
  intros H00 fuel st Hf H. destruct fuel as [| f]; [lia |].
  pose proof H as H'. rewrite minDistF_S in H'. apply (body_inv_F _ _ _ _ _ _ iv_ok_01 iv_ok_01) in H'.
  destruct H' as (s00 & alpha & md & i & j & ES & Fs & Fa & Ha & _ & _ & E1 & _).
  destruct (p1G_fold_Ok_D00 FOps Df n m alpha _ ltac:(lia) ltac:(lia) E1) as [d00 ED].
  pose proof (H00 d00 s00 ED ES) as Hsd.
  destruct (minIJ_not_origin_F Df HD n m alpha d00 md i j ltac:(lia) ltac:(lia) Fa ED ltac:(lra) E1) as [Hne _].
  assert (Hsel : forall i' j', selF = Some (i', j') -> (i', j') <> (0%nat, 0%nat)).
  { intros i' j' Hs. rewrite (selF_spec _ _ _ _ E1) in Hs. inversion Hs; subst. exact Hne. }
  pose proof (oof_bound_F Hsel f st _ _ _ _ iv_ok_01 iv_ok_01 H) as B.
  change (ofZ FOps 0) with 0%float in B. change (ofZ FOps 1) with 1%float in B. rewrite FR_zero, FR_one in B.
  assert (Hp : (25 / 21) ^ 80 <= (25 / 21) ^ f) by (apply Rle_pow; [lra | lia]).
  assert (Hq : 1002001 < (25 / 21) ^ 80) by lra.
  lra.
Qed.

(* the same under (H2) "D(0,0) and S(0,0) are available and equal" *)
Theorem minDist_terminates_F :
  (exists d00, Df 0%nat 0%nat = Some d00 /\ Sf (ofZ FOps 0) (ofZ FOps 0) = Some d00) ->
  forall fuel st, (81 <= fuel)%nat ->
    fst (minDist FOps n m Sf Df fuel st (ofZ FOps 0) (ofZ FOps 1) (ofZ FOps 0) (ofZ FOps 1)) <> OutOfFuel.
Proof.
  intros (d00 & ED & ES) fuel st Hf. apply minDist_terminates_F_weak; [| lia].
  intros d s Hd Hs. rewrite ED in Hd. rewrite ES in Hs. inversion Hd; inversion Hs; subst. lra.
Qed.
End TermF.

(* the statement in its simplest form: (H1) for all arguments, (H2) D(0,0) = S(0,0) as doubles, F = 100 *)
Corollary minDist_terminates_F_100 (n m : nat) (Sf : float -> float -> option float) (Df : nat -> nat -> option float) :
  (1 <= n <= 3)%nat -> (1 <= m <= 3)%nat ->
  (forall r k d, Df r k = Some d -> ffinite d) -> (forall a b s, Sf a b = Some s -> ffinite s) ->
  (exists d00, Df 0%nat 0%nat = Some d00 /\ Sf (ofZ FOps 0) (ofZ FOps 0) = Some d00) ->
  forall fuel st, (100 <= fuel)%nat ->
    fst (minDist FOps n m Sf Df fuel st (ofZ FOps 0) (ofZ FOps 1) (ofZ FOps 0) (ofZ FOps 1)) <> OutOfFuel.
Proof.
  intros Hn Hm HD HS H00 fuel st Hf. apply minDist_terminates_F; try assumption; [| lia].
  intros a b s _ _ _ _ E. exact (HS a b s E).
Qed.

(* ---------------------------------------------------------------------------------------------------------- *)
(* part 4: concrete segments                                                                                     *)
(* ---------------------------------------------------------------------------------------------------------- *)

(* ---- 4a: the float version of seg_D00, for the real values ----
   S(0,0) is computed as  0 + D00*1*1 + D01*1*0 + ... : every Bernstein weight at 0 is an exact 1.0 or 0.0.  When every
   entry of the table is finite, each later summand is +-0 and the sum keeps the real value of D00.  (Bitwise the two
   can differ only in the sign of zero: D00 = -0.0 would give S(0,0) = +0.0.  With a non-finite entry S(0,0) is NaN.) *)
Definition val (x : float) (v : R) : Prop := ffinite x /\ FR x = v.
Lemma val_leaf x : ffinite x -> val x (FR x).
Proof. intros H. split; [exact H | reflexivity]. Qed.
Lemma FR_lt_1024 x : Rabs (rnd (FR x)) < bpow radix2 1024.
Proof. rewrite rnd_FR. apply FR_lt_emax. Qed.
Lemma val_mul1 x v : val x v -> val (x * 1)%float v.
Proof.
  intros (F & V). destruct (Fmul_correct_gen x 1%float F ffinite_one) as (F' & V').
  - rewrite FR_one, Rmult_1_r. apply FR_lt_1024.
  - split; [exact F' |]. rewrite V', FR_one, Rmult_1_r, rnd_FR. exact V.
Qed.
Lemma val_mul0 x v : val x v -> val (x * 0)%float 0.
Proof.
  intros (F & V). destruct (Fmul_correct_gen x 0%float F ffinite_zero) as (F' & V').
  - rewrite FR_zero, Rmult_0_r, rnd_0, Rabs_R0. apply bpow_gt_0.
  - split; [exact F' |]. rewrite V', FR_zero, Rmult_0_r, rnd_0. reflexivity.
Qed.
Lemma val_add0 a t v : val a v -> val t 0 -> val (a + t)%float v.
Proof.
  intros (Fa & Va) (Ft & Vt). destruct (Fadd_correct_gen a t Fa Ft) as (F' & V').
  - rewrite Vt, Rplus_0_r. apply FR_lt_1024.
  - split; [exact F' |]. rewrite V', Vt, Rplus_0_r, rnd_FR. exact Va.
Qed.
Lemma val_0add t v : val t v -> val (0 + t)%float v.
Proof.
  intros (Ft & Vt). destruct (Fadd_correct_gen 0%float t ffinite_zero Ft) as (F' & V').
  - rewrite FR_zero, Rplus_0_l. apply FR_lt_1024.
  - split; [exact F' |]. rewrite V', FR_zero, Rplus_0_l, rnd_FR. exact Vt.
Qed.

Ltac val_tac :=
  lazymatch goal with
  | |- val (PrimFloat.mul ?x 1%float) _ => apply val_mul1; val_tac
  | |- val (PrimFloat.mul ?x 0%float) _ => eapply val_mul0; val_tac
  | |- val (PrimFloat.add 0%float ?t) _ => apply val_0add; val_tac
  | |- val (PrimFloat.add ?a ?t) _ => apply val_add0; [val_tac | val_tac]
  | |- val ?x _ => apply val_leaf; assumption
  end.
(* finiteness of every entry of the table (at most 7 x 7), as hypotheses with normalised statements *)
Ltac pose_entry HD r k :=
  first [ let H := fresh "HF" in pose proof (HD r k _ eq_refl) as H; cbv -[ffinite FR] in H | idtac ].
Ltac pose_row HD r :=
  pose_entry HD r 0%nat; pose_entry HD r 1%nat; pose_entry HD r 2%nat; pose_entry HD r 3%nat;
  pose_entry HD r 4%nat; pose_entry HD r 5%nat; pose_entry HD r 6%nat.
Ltac pose_table HD :=
  pose_row HD 0%nat; pose_row HD 1%nat; pose_row HD 2%nat; pose_row HD 3%nat;
  pose_row HD 4%nat; pose_row HD 5%nat; pose_row HD 6%nat.

Lemma seg_D00_F s1 s2 :
  (forall r k d, Dtab (seg_Dtable FOps s1 s2) r k = Some d -> ffinite d) ->
  exists d00, Dtab (seg_Dtable FOps s1 s2) 0 0 = Some d00 /\
    ffinite (seg_S FOps s1 s2 (ofZ FOps 0) (ofZ FOps 0)) /\ FR (seg_S FOps s1 s2 (ofZ FOps 0) (ofZ FOps 0)) = FR d00.
Proof.
  intros HD.
  change (exists d00, Dtab (seg_Dtable FOps s1 s2) 0 0 = Some d00 /\ val (seg_S FOps s1 s2 (ofZ FOps 0) (ofZ FOps 0)) (FR d00)).
  destruct s1 as [a | a | a]; destruct s2 as [b | b | b];
    (pose_table HD; cbv -[ffinite FR val]; eexists; split; [reflexivity | val_tac]).
Qed.

(* ---- 4b: termination under explicit finiteness hypotheses on the generated table and on S ---- *)
Lemma seg_order_bounds_F (s : segment float) : (1 <= seg_order s <= 3)%nat.
Proof. destruct s; cbn [seg_order]; lia. Qed.

Section SegF.
Variables s1 s2 : segment float.
Hypothesis HDfin : forall r k d, Dtab (seg_Dtable FOps s1 s2) r k = Some d -> ffinite d.
Hypothesis HSfin : forall a b, ffinite a -> ffinite b -> 0 <= FR a <= 1 -> 0 <= FR b <= 1 -> ffinite (seg_S FOps s1 s2 a b).

Theorem seg_minDist_terminates_F fuel st : (81 <= fuel)%nat ->
  fst (minDist FOps (seg_order s1) (seg_order s2) (fun a b => Some (seg_S FOps s1 s2 a b)) (Dtab (seg_Dtable FOps s1 s2))
         fuel st (ofZ FOps 0) (ofZ FOps 1) (ofZ FOps 0) (ofZ FOps 1)) <> OutOfFuel.
Proof.
  intros Hf. apply minDist_terminates_F_weak; [apply seg_order_bounds_F | apply seg_order_bounds_F | exact HDfin | | | exact Hf].
  - intros a b s Fa Fb Ha Hb E. inversion E; subst. apply HSfin; assumption.
  - intros d s Hd Hs. destruct (seg_D00_F s1 s2 HDfin) as (d00 & E00 & _ & V00).
    rewrite E00 in Hd. cbv beta in Hs. injection Hd as <-. injection Hs as <-. right. exact V00.
Qed.

Theorem curveDistance_state_terminates_F fuel : (81 <= fuel)%nat ->
  fst (curveDistance_state FOps (seg_order s1) (seg_order s2) (fun a b => Some (seg_S FOps s1 s2 a b))
         (Dtab (seg_Dtable FOps s1 s2)) fuel) <> OutOfFuel.
Proof.
  intros Hf. unfold curveDistance_state.
  pose proof (seg_minDist_terminates_F fuel (None, 0%nat) Hf) as H.
  destruct (minDist FOps (seg_order s1) (seg_order s2) (fun a b => Some (seg_S FOps s1 s2 a b)) (Dtab (seg_Dtable FOps s1 s2))
              fuel (None, 0%nat) (ofZ FOps 0) (ofZ FOps 1) (ofZ FOps 0) (ofZ FOps 1)) as [r st].
  cbn [fst] in *. destruct r as [[[alpha a] b] | | | | |]; cbn [res_map]; try discriminate. exact H.
Qed.

(* PART 4, main statement: the binary64 curveDistance never runs out of fuel >= 81 *)
Theorem curveDistance_terminates_F fuel : (81 <= fuel)%nat -> curveDistance FOps fuel s1 s2 <> OutOfFuel.
Proof. intros Hf. unfold curveDistance, curveDistance_with. apply curveDistance_state_terminates_F. exact Hf. Qed.

(* with fuel >= 81 the binary64 run (result AND final state) is the run with fuel 81 *)
Theorem curveDistance_state_fuel_irrelevant_F fuel : (81 <= fuel)%nat ->
  curveDistance_state FOps (seg_order s1) (seg_order s2) (fun a b => Some (seg_S FOps s1 s2 a b)) (Dtab (seg_Dtable FOps s1 s2)) fuel =
  curveDistance_state FOps (seg_order s1) (seg_order s2) (fun a b => Some (seg_S FOps s1 s2 a b)) (Dtab (seg_Dtable FOps s1 s2)) 81.
Proof.
  intros Hf. unfold curveDistance_state.
  rewrite (minDist_fuel_irrelevant FOps _ _ _ _ 81 fuel _ _ _ _ _ Hf (seg_minDist_terminates_F 81 (None, 0%nat) (le_n 81))).
  reflexivity.
Qed.

Theorem curveDistance_fuel_irrelevant_F fuel : (81 <= fuel)%nat ->
  curveDistance FOps fuel s1 s2 = curveDistance FOps 81 s1 s2.
Proof.
  intros Hf. unfold curveDistance, curveDistance_with. rewrite (curveDistance_state_fuel_irrelevant_F fuel Hf). reflexivity.
Qed.
End SegF.

(* ---------------------------------------------------------------------------------------------------------- *)
(* part 5: the finiteness hypotheses from a magnitude bound on the control coordinates (all nine kind pairs)     *)
(* ---------------------------------------------------------------------------------------------------------- *)
(* Exponent tracking: [fle x e]: x is finite and |x| <= 2^e.  Rounding to nearest never crosses a power of two, so
   |a| <= 2^e1, |b| <= 2^e2 give |a (+/-) b| <= 2^(max e1 e2 + 1) and |a * b| <= 2^(e1 + e2) for the ROUNDED results,
   and division by a constant >= 1 does not increase the bound.  Nothing overflows while the exponents stay <= 1023. *)
Definition fle (x : float) (e : Z) : Prop := (0 <= e <= 1023)%Z /\ ffinite x /\ Rabs (FR x) <= bpow radix2 e.

Lemma rnd_bpow_le r e : (0 <= e)%Z -> Rabs r <= bpow radix2 e -> Rabs (rnd r) <= bpow radix2 e.
Proof.
  intros He H. unfold rnd. apply abs_round_le_generic; auto with typeclass_instances.
  apply generic_format_bpow. unfold b64_exp, FLT_exp. lia.
Qed.
Lemma bpow_lt_1024 e : (e <= 1023)%Z -> bpow radix2 e < bpow radix2 1024.
Proof. intros H. apply bpow_lt. lia. Qed.

Lemma fle_add x y e1 e2 : fle x e1 -> fle y e2 -> (Z.max e1 e2 + 1 <=? 1023)%Z = true -> fle (x + y)%float (Z.max e1 e2 + 1).
Proof.
  intros (R1 & F1 & B1) (R2 & F2 & B2) Hs. apply Z.leb_le in Hs.
  assert (HB : Rabs (FR x + FR y) <= bpow radix2 (Z.max e1 e2 + 1)).
  { eapply Rle_trans; [apply Rabs_triang |]. rewrite bpow_plus. change (bpow radix2 1) with 2.
    assert (bpow radix2 e1 <= bpow radix2 (Z.max e1 e2)) by (apply bpow_le; lia).
    assert (bpow radix2 e2 <= bpow radix2 (Z.max e1 e2)) by (apply bpow_le; lia). lra. }
  assert (HR := HB). apply rnd_bpow_le in HR; [| lia].
  destruct (Fadd_correct_gen x y F1 F2) as (F & V).
  - eapply Rle_lt_trans; [exact HR | apply bpow_lt_1024; lia].
  - split; [lia |]. split; [exact F | rewrite V; exact HR].
Qed.
Lemma fle_sub x y e1 e2 : fle x e1 -> fle y e2 -> (Z.max e1 e2 + 1 <=? 1023)%Z = true -> fle (x - y)%float (Z.max e1 e2 + 1).
Proof.
  intros (R1 & F1 & B1) (R2 & F2 & B2) Hs. apply Z.leb_le in Hs.
  assert (HB : Rabs (FR x - FR y) <= bpow radix2 (Z.max e1 e2 + 1)).
  { unfold Rminus. eapply Rle_trans; [apply Rabs_triang |]. rewrite Rabs_Ropp, bpow_plus. change (bpow radix2 1) with 2.
    assert (bpow radix2 e1 <= bpow radix2 (Z.max e1 e2)) by (apply bpow_le; lia).
    assert (bpow radix2 e2 <= bpow radix2 (Z.max e1 e2)) by (apply bpow_le; lia). lra. }
  assert (HR := HB). apply rnd_bpow_le in HR; [| lia].
  destruct (Fsub_correct_gen x y F1 F2) as (F & V).
  - eapply Rle_lt_trans; [exact HR | apply bpow_lt_1024; lia].
  - split; [lia |]. split; [exact F | rewrite V; exact HR].
Qed.
Lemma fle_mul x y e1 e2 : fle x e1 -> fle y e2 -> (e1 + e2 <=? 1023)%Z = true -> fle (x * y)%float (e1 + e2).
Proof.
  intros (R1 & F1 & B1) (R2 & F2 & B2) Hs. apply Z.leb_le in Hs.
  assert (HB : Rabs (FR x * FR y) <= bpow radix2 (e1 + e2)).
  { rewrite Rabs_mult, bpow_plus. apply Rmult_le_compat; auto using Rabs_pos. }
  assert (HR := HB). apply rnd_bpow_le in HR; [| lia].
  destruct (Fmul_correct_gen x y F1 F2) as (F & V).
  - eapply Rle_lt_trans; [exact HR | apply bpow_lt_1024; lia].
  - split; [lia |]. split; [exact F | rewrite V; exact HR].
Qed.
(* division by a constant >= 1 *)
Definition ge1 (k : float) : Prop := ffinite k /\ 1 <= FR k.
Lemma fle_div x k e : fle x e -> ge1 k -> fle (x / k)%float e.
Proof.
  intros (R1 & F1 & B1) (Fk & Hk).
  assert (HB : Rabs (FR x / FR k) <= bpow radix2 e).
  { unfold Rdiv. rewrite Rabs_mult. rewrite (Rabs_pos_eq (/ FR k)) by (left; apply Rinv_0_lt_compat; lra).
    assert (/ FR k <= 1) by (rewrite <- Rinv_1; apply Rinv_le_contravar; lra).
    pose proof (Rabs_pos (FR x)). assert (0 < / FR k) by (apply Rinv_0_lt_compat; lra). nra. }
  assert (HR := HB). apply rnd_bpow_le in HR; [| lia].
  destruct (Fdiv_correct_gen x k F1 Fk ltac:(lra)) as (F & V).
  - eapply Rle_lt_trans; [exact HR | apply bpow_lt_1024; lia].
  - split; [lia |]. split; [exact F | rewrite V; exact HR].
Qed.
Lemma fle_finite x e : fle x e -> ffinite x.
Proof. intros (_ & F & _). exact F. Qed.
(* literals *)
Lemma fle_small c : ffinite c -> 0 <= FR c <= 32 -> fle c 5.
Proof.
  intros F H. split; [lia |]. split; [exact F |]. rewrite Rabs_pos_eq by lra. change (bpow radix2 5) with 32. lra.
Qed.
Lemma fle_0 : fle 0%float 0.   Proof. split; [lia |]. split; [exact ffinite_zero |]. rewrite FR_zero, Rabs_R0. apply bpow_ge_0. Qed.
Lemma fle_1 : fle 1%float 0.   Proof. split; [lia |]. split; [exact ffinite_one |]. rewrite FR_one, Rabs_R1. apply Rle_refl. Qed.
Lemma fle_2 : fle 2%float 1.   Proof. split; [lia |]. split; [ffinite_compute |]. FR_compute 2%float. rewrite Rabs_pos_eq by lra. bpow_lit. lra. Qed.
Lemma fle_3 : fle 3%float 2.   Proof. split; [lia |]. split; [ffinite_compute |]. FR_compute 3%float. rewrite Rabs_pos_eq by lra. bpow_lit. lra. Qed.
Lemma fle_4 : fle 4%float 2.   Proof. split; [lia |]. split; [ffinite_compute |]. FR_compute 4%float. rewrite Rabs_pos_eq by lra. bpow_lit. lra. Qed.
Lemma fle_6 : fle 6%float 3.   Proof. split; [lia |]. split; [ffinite_compute |]. FR_compute 6%float. rewrite Rabs_pos_eq by lra. bpow_lit. lra. Qed.
Lemma fle_15 : fle 15%float 4. Proof. split; [lia |]. split; [ffinite_compute |]. FR_compute 15%float. rewrite Rabs_pos_eq by lra. bpow_lit. lra. Qed.
Lemma fle_20 : fle 20%float 5. Proof. split; [lia |]. split; [ffinite_compute |]. FR_compute 20%float. rewrite Rabs_pos_eq by lra. bpow_lit. lra. Qed.
Ltac ge1_tac k := split; [ffinite_compute | FR_compute k; lra].
Lemma ge1_1 : ge1 1%float.   Proof. ge1_tac 1%float. Qed.
Lemma ge1_2 : ge1 2%float.   Proof. ge1_tac 2%float. Qed.
Lemma ge1_3 : ge1 3%float.   Proof. ge1_tac 3%float. Qed.
Lemma ge1_4 : ge1 4%float.   Proof. ge1_tac 4%float. Qed.
Lemma ge1_6 : ge1 6%float.   Proof. ge1_tac 6%float. Qed.
Lemma ge1_10 : ge1 10%float. Proof. ge1_tac 10%float. Qed.
Lemma ge1_15 : ge1 15%float. Proof. ge1_tac 15%float. Qed.
Lemma ge1_20 : ge1 20%float. Proof. ge1_tac 20%float. Qed.

(* follows a term built from add/sub/mul, division by a literal, literals, and leaves with an [fle] hypothesis *)
Ltac fle_tac :=
  lazymatch goal with
  | |- fle ?x _ =>
    first
    [ match goal with H : fle x _ |- _ => exact H end
    | lazymatch x with
      | PrimFloat.add _ _ => eapply fle_add; [fle_tac | fle_tac | vm_compute; reflexivity]
      | PrimFloat.sub _ _ => eapply fle_sub; [fle_tac | fle_tac | vm_compute; reflexivity]
      | PrimFloat.mul _ _ => eapply fle_mul; [fle_tac | fle_tac | vm_compute; reflexivity]
      | PrimFloat.div _ ?k => eapply fle_div; [fle_tac | first [match goal with H : ge1 k |- _ => exact H end | ge1_tac k]]
      | ?c => first [apply fle_small; [ffinite_compute | FR_compute c; lra] | fail 1000 "fle_tac: leaf" c]
      end ]
  end.
Ltac fle_ctx :=
  pose proof fle_0; pose proof fle_1; pose proof fle_2; pose proof fle_3; pose proof fle_4; pose proof fle_6;
  pose proof fle_15; pose proof fle_20;
  pose proof ge1_1; pose proof ge1_2; pose proof ge1_3; pose proof ge1_4; pose proof ge1_6; pose proof ge1_10;
  pose proof ge1_15; pose proof ge1_20.

(* the hypothesis on the inputs: every control coordinate is a finite double of magnitude at most 2^400 *)
Definition coord_ok (c : float) : Prop := ffinite c /\ Rabs (FR c) <= bpow radix2 400.
Definition pt_ok400 (p : pt float) : Prop := coord_ok (px p) /\ coord_ok (py p).
Definition seg_ok400 (s : segment float) : Prop :=
  match s with
  | SLine a => pt_ok400 (l0 a) /\ pt_ok400 (l1 a)
  | SQuad a => pt_ok400 (q0 a) /\ pt_ok400 (q1 a) /\ pt_ok400 (q2 a)
  | SCubic a => pt_ok400 (c0 a) /\ pt_ok400 (c1 a) /\ pt_ok400 (c2 a) /\ pt_ok400 (c3 a)
  end.
Lemma coord_ok_fle c : coord_ok c -> fle c 400.
Proof. intros (F & B). split; [lia |]. split; assumption. Qed.
Lemma unit_fle t : ffinite t -> 0 <= FR t <= 1 -> fle t 0.
Proof. intros F H. split; [lia |]. split; [exact F |]. rewrite Rabs_pos_eq by lra. change (bpow radix2 0) with 1. lra. Qed.

Ltac destruct_fsegs :=
  repeat match goal with
  | s : seg4 float |- _ => destruct s as [[? ?] [? ?] [? ?] [? ?]]
  | s : seg3 float |- _ => destruct s as [[? ?] [? ?] [? ?]]
  | s : seg2 float |- _ => destruct s as [[? ?] [? ?]]
  end.
Ltac seg_ok_prep H1 H2 :=
  destruct_fsegs; unfold seg_ok400, pt_ok400 in H1, H2;
  cbn [Ops.px Ops.py Ops.l0 Ops.l1 Ops.q0 Ops.q1 Ops.q2 Ops.c0 Ops.c1 Ops.c2 Ops.c3] in H1, H2;
  repeat match goal with H : _ /\ _ |- _ => destruct H end;
  repeat match goal with H : coord_ok _ |- _ => apply coord_ok_fle in H end;
  fle_ctx.

(* S is finite on [0,1]^2 *)
Lemma seg_S_finite s1 s2 a b : seg_ok400 s1 -> seg_ok400 s2 -> ffinite a -> ffinite b -> 0 <= FR a <= 1 -> 0 <= FR b <= 1 ->
  ffinite (seg_S FOps s1 s2 a b).
Proof.
  intros H1 H2 Fa Fb Ha Hb. pose proof (unit_fle a Fa Ha) as Hu. pose proof (unit_fle b Fb Hb) as Hv. clear Fa Fb Ha Hb.
  destruct s1 as [x | x | x]; destruct s2 as [y | y | y]; seg_ok_prep H1 H2;
    (cbv -[ffinite]; eapply fle_finite; fle_tac).
Qed.

(* the generated table is finite *)
Lemma Dtab_Forall {T : Type} (Pr : T -> Prop) (tbl : list (list T)) :
  Forall (Forall Pr) tbl -> forall r k d, Dtab tbl r k = Some d -> Pr d.
Proof.
  intros H r k d E. unfold Dtab in E. destruct (nth_error tbl r) as [row |] eqn:Er; [| discriminate].
  apply nth_error_In in Er. apply nth_error_In in E.
  rewrite Forall_forall in H. specialize (H row Er). rewrite Forall_forall in H. exact (H d E).
Qed.
Lemma seg_Dtable_finite s1 s2 : seg_ok400 s1 -> seg_ok400 s2 -> Forall (Forall ffinite) (seg_Dtable FOps s1 s2).
Proof.
  intros H1 H2.
  destruct s1 as [x | x | x]; destruct s2 as [y | y | y]; seg_ok_prep H1 H2;
    (cbv -[ffinite]; repeat (apply Forall_cons || apply Forall_nil); eapply fle_finite; fle_tac).
Qed.

(* PART 5, main statement: for ALL pairs of segments whose control coordinates are finite doubles of magnitude at most
   2^400, the binary64 curveDistance never runs out of fuel >= 81 -- no finiteness hypothesis left *)
Theorem curveDistance_terminates_F_bounded fuel s1 s2 : seg_ok400 s1 -> seg_ok400 s2 -> (81 <= fuel)%nat ->
  curveDistance FOps fuel s1 s2 <> OutOfFuel.
Proof.
  intros H1 H2. apply curveDistance_terminates_F.
  - apply Dtab_Forall. apply seg_Dtable_finite; assumption.
  - intros a b Fa Fb Ha Hb. apply seg_S_finite; assumption.
Qed.
Theorem curveDistance_fuel_irrelevant_F_bounded fuel s1 s2 : seg_ok400 s1 -> seg_ok400 s2 -> (81 <= fuel)%nat ->
  curveDistance FOps fuel s1 s2 = curveDistance FOps 81 s1 s2.
Proof.
  intros H1 H2. apply curveDistance_fuel_irrelevant_F.
  - apply Dtab_Forall. apply seg_Dtable_finite; assumption.
  - intros a b Fa Fb Ha Hb. apply seg_S_finite; assumption.
Qed.

(* ---------- a concrete binary64 run ---------- *)
(* the two cubics of C20term.v: the run with fuel 81 returns a value ... *)
Example float_run_ok_81 : is_ok (curveDistance FOps 81 cubic_a cubic_b) = true.
Proof. vm_compute. reflexivity. Qed.

Ltac coord_ok_compute :=
  lazymatch goal with
  | |- coord_ok ?c => unfold coord_ok; split; [ffinite_compute | FR_compute c; rewrite Rabs_pos_eq by lra; bpow_lit; lra]
  end.
Ltac seg_ok_compute :=
  unfold seg_ok400, pt_ok400; cbn [c0 c1 c2 c3 q0 q1 q2 l0 l1 px py];
  repeat match goal with |- _ /\ _ => split end; coord_ok_compute.
Lemma cubic_a_ok : seg_ok400 cubic_a.
Proof. unfold cubic_a. seg_ok_compute. Qed.
Lemma cubic_b_ok : seg_ok400 cubic_b.
Proof. unfold cubic_b. seg_ok_compute. Qed.

(* ... and so does the run with ANY fuel >= 81, with the same result: by the theorem, not by computation *)
Theorem float_run_any_fuel fuel : (81 <= fuel)%nat ->
  curveDistance FOps fuel cubic_a cubic_b = curveDistance FOps 81 cubic_a cubic_b /\
  is_ok (curveDistance FOps fuel cubic_a cubic_b) = true.
Proof.
  intros Hf. pose proof (curveDistance_fuel_irrelevant_F_bounded fuel _ _ cubic_a_ok cubic_b_ok Hf) as E.
  split; [exact E |]. rewrite E. exact float_run_ok_81.
Qed.
