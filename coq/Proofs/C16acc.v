(* C16: lengthAtTime is accurate, hence monotone up to a stated tolerance, for gently parametrised curves.
   Cubic_lengthAtTime s t (regenerated: the computed length of the first piece of splitAtTime s t) is within 2e-4 of the exact arc length of s over
   [0,t] whenever the speed of s stays within a factor 2 on [0,1] -- the piece has the parent's speed scaled by t, so the accuracy theorem of
   Proofs/C04acc.v applies to it.  Consequently for t1 <= t2 the computed values satisfy
       lengthAt t2 - lengthAt t1 >= arclen(t1,t2) - 2e-4 * (arclen(0,t1) + arclen(0,t2)):
   the function is non-decreasing up to 4e-4 of the curve's length, and increases by at least the true arc length between the parameters minus that. *)
From Coq Require Import Reals Lra List.
Import ListNotations.
From Coquelicot Require Import Coquelicot.
From BZ Require Import Base.Ops Gen.Point Gen.Line Gen.Quad Gen.Cubic Proofs.Tactics Proofs.C04 Proofs.C10flat Proofs.C04poly Proofs.C04acc Proofs.C04add.
Open Scope R_scope.

Lemma Cubic_lengthAtTime_unfold (s : seg4 R) t : Cubic_lengthAtTime ROps s t = Cubic_length ROps (fst (Cubic_splitAtTime ROps s t)).
Proof. unfold Cubic_lengthAtTime. destruct (Cubic_splitAtTime ROps s t). reflexivity. Qed.
Lemma Quad_lengthAtTime_unfold (s : seg3 R) t : Quad_lengthAtTime ROps s t = Quad_length ROps (fst (Quad_splitAtTime ROps s t)).
Proof. unfold Quad_lengthAtTime. destruct (Quad_splitAtTime ROps s t). reflexivity. Qed.

Theorem cubic_lengthAtTime_accuracy (s : seg4 R) (m M t : R) :
  0 < m -> (forall u, 0 <= u <= 1 -> m <= cubic_speed s u <= M) -> M <= 2 * m -> 0 < t <= 1 ->
  Rabs (Cubic_lengthAtTime ROps s t - cubic_arclen s 0 t) <= 2 / 10 ^ 4 * cubic_arclen s 0 t.
Proof.
  intros Hm Hs HM Ht. rewrite Cubic_lengthAtTime_unfold. set (l := fst (Cubic_splitAtTime ROps s t)).
  assert (Hl : forall u, 0 <= u <= 1 -> t * m <= cubic_speed l u <= t * M).
  { intros u Hu. unfold l. rewrite (cubic_speed_left s t u) by lra.
    assert (0 <= u * t <= 1) by nra. destruct (Hs (u * t) H) as [H1 H2]. split; apply Rmult_le_compat_l; lra. }
  assert (A := cubic_length_accuracy_2 l (t * m) (t * M) ltac:(nra) Hl ltac:(nra)).
  unfold l in A. rewrite (cubic_arclen_left s t) in A by lra. exact A.
Qed.
Theorem quad_lengthAtTime_accuracy (s : seg3 R) (m M t : R) :
  0 < m -> (forall u, 0 <= u <= 1 -> m <= quad_speed s u <= M) -> M <= 2 * m -> 0 < t <= 1 ->
  Rabs (Quad_lengthAtTime ROps s t - quad_arclen s 0 t) <= 2 / 10 ^ 4 * quad_arclen s 0 t.
Proof.
  intros Hm Hs HM Ht. rewrite Quad_lengthAtTime_unfold. set (l := fst (Quad_splitAtTime ROps s t)).
  assert (Hl : forall u, 0 <= u <= 1 -> t * m <= quad_speed l u <= t * M).
  { intros u Hu. unfold l. rewrite (quad_speed_left s t u) by lra.
    assert (0 <= u * t <= 1) by nra. destruct (Hs (u * t) H) as [H1 H2]. split; apply Rmult_le_compat_l; lra. }
  assert (A := quad_length_accuracy_2 l (t * m) (t * M) ltac:(nra) Hl ltac:(nra)).
  unfold l in A. rewrite (quad_arclen_left s t) in A by lra. exact A.
Qed.

(* monotone up to the tolerance: the increase between two parameters is the true arc length between them, minus 4e-4 of the curve's length at most *)
Theorem cubic_lengthAtTime_increase (s : seg4 R) (m M t1 t2 : R) :
  0 < m -> (forall u, 0 <= u <= 1 -> m <= cubic_speed s u <= M) -> M <= 2 * m -> 0 < t1 <= t2 -> t2 <= 1 ->
  Cubic_lengthAtTime ROps s t2 - Cubic_lengthAtTime ROps s t1 >= cubic_arclen s t1 t2 - 4 / 10 ^ 4 * cubic_arclen s 0 1 /\
  cubic_arclen s t1 t2 >= m * (t2 - t1).
Proof.
  intros Hm Hs HM H1 H2.
  pose proof (cubic_lengthAtTime_accuracy s m M t1 Hm Hs HM ltac:(lra)) as A1.
  pose proof (cubic_lengthAtTime_accuracy s m M t2 Hm Hs HM ltac:(lra)) as A2.
  pose proof (cubic_arclen_Chasles s 0 t1 t2) as C1. pose proof (cubic_arclen_Chasles s 0 t2 1) as C2.
  pose proof (cubic_arclen_nonneg s 0 t1 ltac:(lra)) as N1. pose proof (cubic_arclen_nonneg s t1 t2 ltac:(lra)) as N2.
  pose proof (cubic_arclen_nonneg s t2 1 ltac:(lra)) as N3.
  apply Rabs_le_between in A1, A2.
  assert (E : 2 / 10 ^ 4 = 2 / 10000) by (simpl; lra). rewrite E in *. replace (4 / 10 ^ 4) with (4 / 10000) by (simpl; lra).
  split; [lra |].
  (* the arc length between the parameters is at least m (t2 - t1) *)
  unfold cubic_arclen. apply Rle_ge.
  replace (m * (t2 - t1)) with (RInt (fun _ : R => m) t1 t2) by (rewrite RInt_const; unfold scal; simpl; unfold mult; simpl; ring).
  apply RInt_le; [lra | apply ex_RInt_const | apply cubic_speed_ex_RInt |].
  intros u Hu. apply (Hs u). lra.
Qed.
