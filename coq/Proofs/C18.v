(* C18: tangent, normal and curvature agree with the exact derivatives (identities over the reals).
   Everything is stated about the GENERATED definitions at the real carrier [ROps]. *)
From Coq Require Import PrimFloat.
From Coq Require Import ZArith List Bool Reals Lra Lia Psatz.
From Coquelicot Require Import Coquelicot.
From BZ Require Import Base.Ops Proofs.Tactics Gen.Point Gen.Line Gen.Quad Gen.Cubic.
From BZ Require Import Proofs.C01 Proofs.C09.
Import ListNotations.
Open Scope R_scope.

(* ------------------------------------------------------------------------------------------------ *)
(* 0. helpers: unit vectors, the 3/2 power                                                            *)
(* ------------------------------------------------------------------------------------------------ *)

Lemma sumsq_pos x y : x * x + y * y <> 0 -> 0 < x * x + y * y.
Proof. intros H. assert (0 <= x * x + y * y) by nra. lra. Qed.

Lemma sqrt_sumsq_neq_0 x y : x * x + y * y <> 0 -> sqrt (x * x + y * y) <> 0.
Proof. intros H E. apply sqrt_eq_0 in E; [contradiction|nra]. Qed.

(* Point.toUnitVector divides by the magnitude when the vector is not the null vector ... *)
Lemma toUnitVector_spec x y : x * x + y * y <> 0 ->
  Point_toUnitVector ROps (P x y) = P (x / sqrt (x * x + y * y)) (y / sqrt (x * x + y * y)).
Proof.
  intros H. pose proof (sqrt_sumsq_neq_0 x y H) as Hm. rcbv.
  destruct (Req_EM_T (sqrt (x * x + y * y)) (0 / 1)) as [E|_]; [exfalso; apply Hm; lra|reflexivity].
Qed.

(* ... and leaves the null vector alone *)
Lemma toUnitVector_null : Point_toUnitVector ROps (P 0 0) = P 0 0.
Proof.
  rcbv. replace (0 * 0 + 0 * 0) with 0 by ring. rewrite sqrt_0.
  destruct (Req_EM_T 0 (0 / 1)) as [_|N]; [apply pt_eq; field|exfalso; apply N; field].
Qed.

(* the result really has length one *)
Lemma toUnitVector_unit x y : x * x + y * y <> 0 ->
  Point_squareMagnitude ROps (Point_toUnitVector ROps (P x y)) = 1.
Proof.
  intros H. rewrite toUnitVector_spec by exact H.
  pose proof (sqrt_sumsq_neq_0 x y H) as Hm. pose proof (sumsq_pos x y H) as Hp.
  assert (Hs : sqrt (x * x + y * y) * sqrt (x * x + y * y) = x * x + y * y) by (apply sqrt_sqrt; lra).
  rcbv. set (m := sqrt (x * x + y * y)) in *.
  transitivity ((x * x + y * y) / (m * m)); [field; exact Hm|]. rewrite Hs. field. lra.
Qed.

Lemma Rpower_three_halves s : 0 < s -> Rpower s (3 / 2) = s * sqrt s.
Proof.
  intros Hs. replace (3 / 2) with (1 + / 2) by field.
  rewrite Rpower_plus, Rpower_1, Rpower_sqrt by exact Hs. reflexivity.
Qed.

(* math.pow(s, 1.5) / s ** 1.5 at the real carrier *)
Lemma pow_three_halves s : 0 < s -> pow_ ROps s (lit ROps 3 2 0x1.8000000000000p+0%float) = s * sqrt s.
Proof.
  intros Hs. cbn [pow_ lit ROps].
  destruct (Req_EM_T s 0) as [E|_]; [lra|]. apply Rpower_three_halves. exact Hs.
Qed.

(* ------------------------------------------------------------------------------------------------ *)
(* 1. the tangent is the unit vector along the exact parametric derivative                            *)
(* ------------------------------------------------------------------------------------------------ *)

(* The derivative segments evaluate to the exact derivatives: [quad_derivative_x/y], [cubic_derivative_x/y]
   in Proofs/C01.v ([is_derive (fun u => px (X_pointAtTime ROps s u)) t (px (.._pointAtTime ROps (X_derivative ROps s) t))]). *)

Lemma tangent_is_unit_derivative_quad (q : seg3 R) t :
  let d := Line_pointAtTime ROps (Quad_derivative ROps q) t in
  let dx := px d in let dy := py d in
  dx * dx + dy * dy <> 0 ->
  Quad_tangentAtTime ROps q t = P (dx / sqrt (dx * dx + dy * dy)) (dy / sqrt (dx * dx + dy * dy)).
Proof.
  cbv zeta. unfold Quad_tangentAtTime.
  destruct (Line_pointAtTime ROps (Quad_derivative ROps q) t) as [dx dy]. cbn [px py].
  apply toUnitVector_spec.
Qed.

Lemma tangent_is_unit_derivative_cubic (c : seg4 R) t :
  let d := Quad_pointAtTime ROps (Cubic_derivative ROps c) t in
  let dx := px d in let dy := py d in
  dx * dx + dy * dy <> 0 ->
  Cubic_tangentAtTime ROps c t = P (dx / sqrt (dx * dx + dy * dy)) (dy / sqrt (dx * dx + dy * dy)).
Proof.
  cbv zeta. unfold Cubic_tangentAtTime.
  destruct (Quad_pointAtTime ROps (Cubic_derivative ROps c) t) as [dx dy]. cbn [px py].
  apply toUnitVector_spec.
Qed.

(* the same statements with the derivative spelled out as the Coquelicot derivative of the evaluation map *)
Lemma tangent_is_unit_Derive_quad (q : seg3 R) t :
  let dx := Derive (fun u => px (Quad_pointAtTime ROps q u)) t in
  let dy := Derive (fun u => py (Quad_pointAtTime ROps q u)) t in
  dx * dx + dy * dy <> 0 ->
  Quad_tangentAtTime ROps q t = P (dx / sqrt (dx * dx + dy * dy)) (dy / sqrt (dx * dx + dy * dy)).
Proof.
  cbv zeta.
  assert (Ex : Derive (fun u : R => px (Quad_pointAtTime ROps q u)) t =
               px (Line_pointAtTime ROps (Quad_derivative ROps q) t)) by apply is_derive_unique, quad_derivative_x.
  assert (Ey : Derive (fun u : R => py (Quad_pointAtTime ROps q u)) t =
               py (Line_pointAtTime ROps (Quad_derivative ROps q) t)) by apply is_derive_unique, quad_derivative_y.
  rewrite Ex, Ey. apply tangent_is_unit_derivative_quad.
Qed.

Lemma tangent_is_unit_Derive_cubic (c : seg4 R) t :
  let dx := Derive (fun u => px (Cubic_pointAtTime ROps c u)) t in
  let dy := Derive (fun u => py (Cubic_pointAtTime ROps c u)) t in
  dx * dx + dy * dy <> 0 ->
  Cubic_tangentAtTime ROps c t = P (dx / sqrt (dx * dx + dy * dy)) (dy / sqrt (dx * dx + dy * dy)).
Proof.
  cbv zeta.
  assert (Ex : Derive (fun u : R => px (Cubic_pointAtTime ROps c u)) t =
               px (Quad_pointAtTime ROps (Cubic_derivative ROps c) t)) by apply is_derive_unique, cubic_derivative_x.
  assert (Ey : Derive (fun u : R => py (Cubic_pointAtTime ROps c u)) t =
               py (Quad_pointAtTime ROps (Cubic_derivative ROps c) t)) by apply is_derive_unique, cubic_derivative_y.
  rewrite Ex, Ey. apply tangent_is_unit_derivative_cubic.
Qed.

(* the tangent has length one wherever the derivative does not vanish *)
Lemma tangent_unit_quad (q : seg3 R) t :
  Point_squareMagnitude ROps (Line_pointAtTime ROps (Quad_derivative ROps q) t) <> 0 ->
  Point_squareMagnitude ROps (Quad_tangentAtTime ROps q t) = 1.
Proof.
  unfold Quad_tangentAtTime. destruct (Line_pointAtTime ROps (Quad_derivative ROps q) t) as [dx dy].
  intros H. apply toUnitVector_unit. exact H.
Qed.
Lemma tangent_unit_cubic (c : seg4 R) t :
  Point_squareMagnitude ROps (Quad_pointAtTime ROps (Cubic_derivative ROps c) t) <> 0 ->
  Point_squareMagnitude ROps (Cubic_tangentAtTime ROps c t) = 1.
Proof.
  unfold Cubic_tangentAtTime. destruct (Quad_pointAtTime ROps (Cubic_derivative ROps c) t) as [dx dy].
  intros H. apply toUnitVector_unit. exact H.
Qed.

(* ------------------------------------------------------------------------------------------------ *)
(* 2. the tangent of a line is the unit chord (through atan2, fromAngle, toUnitVector)                *)
(* ------------------------------------------------------------------------------------------------ *)

(* the derivative of a line is its chord, at every parameter *)
Lemma line_derivative_x (l : seg2 R) t :
  is_derive (fun u => px (Line_pointAtTime ROps l u)) t (px (l1 l) - px (l0 l)).
Proof. destruct_pts. rcbv_derive. auto_derive; [exact I | ring]. Qed.
Lemma line_derivative_y (l : seg2 R) t :
  is_derive (fun u => py (Line_pointAtTime ROps l u)) t (py (l1 l) - py (l0 l)).
Proof. destruct_pts. rcbv_derive. auto_derive; [exact I | ring]. Qed.

Lemma line_tangent_angle (l : seg2 R) t :
  Line_tangentAtTime ROps l t =
  P (cos (R_atan2 (py (l1 l) - py (l0 l)) (px (l1 l) - px (l0 l))))
    (sin (R_atan2 (py (l1 l) - py (l0 l)) (px (l1 l) - px (l0 l)))).
Proof. unfold Line_tangentAtTime. rewrite point_fromAngle_spec. reflexivity. Qed.

Lemma line_tangent_is_unit_chord (l : seg2 R) t :
  let dx := px (l1 l) - px (l0 l) in let dy := py (l1 l) - py (l0 l) in
  let m := sqrt (dx * dx + dy * dy) in
  dx * dx + dy * dy <> 0 ->
  Line_tangentAtTime ROps l t = P (dx / m) (dy / m).
Proof.
  cbv zeta. intros H. rewrite line_tangent_angle.
  set (dx := px (l1 l) - px (l0 l)) in *. set (dy := py (l1 l) - py (l0 l)) in *.
  pose proof (sqrt_sumsq_neq_0 dx dy H) as Hm.
  destruct (atan2_cos_sin dx dy Hm) as [Hc Hs].
  set (m := sqrt (dx * dx + dy * dy)) in *.
  apply pt_eq.
  - rewrite <- Hc at 2. field. exact Hm.
  - rewrite <- Hs at 2. field. exact Hm.
Qed.

(* a degenerate line (both ends equal) gets the tangent (1, 0): atan2(0, 0) = 0 *)
Lemma line_tangent_degenerate (l : seg2 R) t :
  l1 l = l0 l -> Line_tangentAtTime ROps l t = P 1 0.
Proof.
  intros E. rewrite line_tangent_angle. rewrite E.
  replace (py (l0 l) - py (l0 l)) with 0 by ring. replace (px (l0 l) - px (l0 l)) with 0 by ring.
  unfold R_atan2. replace (0 * 0 + 0 * 0) with 0 by ring. rewrite sqrt_0.
  destruct (Req_EM_T 0 0) as [_|N]; [|contradiction]. rewrite cos_0, sin_0. reflexivity.
Qed.

(* ------------------------------------------------------------------------------------------------ *)
(* 3. the normal is the tangent rotated a quarter turn counter-clockwise, for lines and curves alike   *)
(* ------------------------------------------------------------------------------------------------ *)

Lemma normal_is_ccw_quarter_turn_line (l : seg2 R) t :
  Line_normalAtTime ROps l t = P (- py (Line_tangentAtTime ROps l t)) (px (Line_tangentAtTime ROps l t)).
Proof.
  unfold Line_normalAtTime. rewrite point_rotated_spec.
  cbn [px py pi_ dvd ofZ ROps]. rewrite cos_PI2, sin_PI2.
  apply pt_eq; ring.
Qed.

Lemma normal_is_ccw_quarter_turn_quad (q : seg3 R) t :
  Quad_normalAtTime ROps q t = P (- py (Quad_tangentAtTime ROps q t)) (px (Quad_tangentAtTime ROps q t)).
Proof. reflexivity. Qed.

Lemma normal_is_ccw_quarter_turn_cubic (c : seg4 R) t :
  Cubic_normalAtTime ROps c t = P (- py (Cubic_tangentAtTime ROps c t)) (px (Cubic_tangentAtTime ROps c t)).
Proof. reflexivity. Qed.

(* "rotated a quarter turn counter-clockwise" literally: the generated Point.rotated about the origin by PI/2 *)
Lemma quarter_turn_is_rotation (v : pt R) : Point_rotated ROps v (P 0 0) (PI / 2) = P (- py v) (px v).
Proof. rewrite point_rotated_spec. cbn [px py]. rewrite cos_PI2, sin_PI2. apply pt_eq; ring. Qed.

Lemma normal_is_rotated_tangent_quad (q : seg3 R) t :
  Quad_normalAtTime ROps q t = Point_rotated ROps (Quad_tangentAtTime ROps q t) (P 0 0) (PI / 2).
Proof. rewrite quarter_turn_is_rotation. reflexivity. Qed.
Lemma normal_is_rotated_tangent_cubic (c : seg4 R) t :
  Cubic_normalAtTime ROps c t = Point_rotated ROps (Cubic_tangentAtTime ROps c t) (P 0 0) (PI / 2).
Proof. rewrite quarter_turn_is_rotation. reflexivity. Qed.

(* the normal is orthogonal to the tangent and has the same length; the pair (tangent, normal) is positively oriented *)
Lemma normal_orthogonal_line (l : seg2 R) t :
  Point_dot ROps (Line_tangentAtTime ROps l t) (Line_normalAtTime ROps l t) = 0.
Proof. rewrite normal_is_ccw_quarter_turn_line. destruct (Line_tangentAtTime ROps l t) as [x y]. rcbv. ring. Qed.
Lemma normal_orthogonal_quad (q : seg3 R) t :
  Point_dot ROps (Quad_tangentAtTime ROps q t) (Quad_normalAtTime ROps q t) = 0.
Proof. rewrite normal_is_ccw_quarter_turn_quad. destruct (Quad_tangentAtTime ROps q t) as [x y]. rcbv. ring. Qed.
Lemma normal_orthogonal_cubic (c : seg4 R) t :
  Point_dot ROps (Cubic_tangentAtTime ROps c t) (Cubic_normalAtTime ROps c t) = 0.
Proof. rewrite normal_is_ccw_quarter_turn_cubic. destruct (Cubic_tangentAtTime ROps c t) as [x y]. rcbv. ring. Qed.

(* cross(tangent, normal) = |tangent|^2 >= 0 : counter-clockwise, not clockwise *)
Lemma normal_orientation (v : pt R) :
  px v * py (P (- py v) (px v)) - py v * px (P (- py v) (px v)) = Point_squareMagnitude ROps v.
Proof. destruct v as [x y]. rcbv. ring. Qed.

(* ------------------------------------------------------------------------------------------------ *)
(* 4. start and end angles are the directions of the first and last control-polygon legs              *)
(* ------------------------------------------------------------------------------------------------ *)

Lemma start_end_angle_legs_line (l : seg2 R) :
  Line_startAngle ROps l = R_atan2 (py (l1 l) - py (l0 l)) (px (l1 l) - px (l0 l)) /\
  Line_endAngle ROps l = R_atan2 (py (l1 l) - py (l0 l)) (px (l1 l) - px (l0 l)).
Proof. split; reflexivity. Qed.

Lemma start_end_angle_legs_quad (q : seg3 R) :
  Quad_startAngle ROps q = R_atan2 (py (q1 q) - py (q0 q)) (px (q1 q) - px (q0 q)) /\
  Quad_endAngle ROps q = R_atan2 (py (q2 q) - py (q1 q)) (px (q2 q) - px (q1 q)).
Proof. split; reflexivity. Qed.

Lemma start_end_angle_legs_cubic (c : seg4 R) :
  Cubic_startAngle ROps c = R_atan2 (py (c1 c) - py (c0 c)) (px (c1 c) - px (c0 c)) /\
  Cubic_endAngle ROps c = R_atan2 (py (c3 c) - py (c2 c)) (px (c3 c) - px (c2 c)).
Proof. split; reflexivity. Qed.

(* geometric reading: (cos, sin) of the direction angle of a non-null leg is the unit vector along the leg *)
Lemma leg_angle_direction (a b : pt R) :
  let dx := px b - px a in let dy := py b - py a in
  let th := R_atan2 dy dx in
  dx * dx + dy * dy <> 0 ->
  cos th = dx / sqrt (dx * dx + dy * dy) /\ sin th = dy / sqrt (dx * dx + dy * dy).
Proof.
  cbv zeta. set (dx := px b - px a). set (dy := py b - py a). intros H.
  pose proof (sqrt_sumsq_neq_0 dx dy H) as Hm.
  destruct (atan2_cos_sin dx dy Hm) as [Hc Hs].
  set (m := sqrt (dx * dx + dy * dy)) in *. split.
  - rewrite <- Hc at 2. field. exact Hm.
  - rewrite <- Hs at 2. field. exact Hm.
Qed.

(* the angle lies in (-PI, PI], like math.atan2 *)
Lemma R_atan2_range y x : - PI <= R_atan2 y x <= PI.
Proof.
  unfold R_atan2. pose proof PI_RGT_0 as Hpi.
  destruct (Req_EM_T (sqrt (x * x + y * y)) 0) as [_|_]; [lra|].
  pose proof (acos_bound (x / sqrt (x * x + y * y))) as Hb.
  destruct (Rle_dec 0 y); lra.
Qed.

Lemma start_angle_direction_line (l : seg2 R) :
  let dx := px (l1 l) - px (l0 l) in let dy := py (l1 l) - py (l0 l) in
  dx * dx + dy * dy <> 0 ->
  cos (Line_startAngle ROps l) = dx / sqrt (dx * dx + dy * dy) /\
  sin (Line_startAngle ROps l) = dy / sqrt (dx * dx + dy * dy).
Proof. cbv zeta. intros H. destruct (start_end_angle_legs_line l) as [-> _]. apply (leg_angle_direction (l0 l) (l1 l)), H. Qed.
Lemma end_angle_direction_line (l : seg2 R) :
  let dx := px (l1 l) - px (l0 l) in let dy := py (l1 l) - py (l0 l) in
  dx * dx + dy * dy <> 0 ->
  cos (Line_endAngle ROps l) = dx / sqrt (dx * dx + dy * dy) /\
  sin (Line_endAngle ROps l) = dy / sqrt (dx * dx + dy * dy).
Proof. cbv zeta. intros H. destruct (start_end_angle_legs_line l) as [_ ->]. apply (leg_angle_direction (l0 l) (l1 l)), H. Qed.

Lemma start_angle_direction_quad (q : seg3 R) :
  let dx := px (q1 q) - px (q0 q) in let dy := py (q1 q) - py (q0 q) in
  dx * dx + dy * dy <> 0 ->
  cos (Quad_startAngle ROps q) = dx / sqrt (dx * dx + dy * dy) /\
  sin (Quad_startAngle ROps q) = dy / sqrt (dx * dx + dy * dy).
Proof. cbv zeta. intros H. destruct (start_end_angle_legs_quad q) as [-> _]. apply (leg_angle_direction (q0 q) (q1 q)), H. Qed.
Lemma end_angle_direction_quad (q : seg3 R) :
  let dx := px (q2 q) - px (q1 q) in let dy := py (q2 q) - py (q1 q) in
  dx * dx + dy * dy <> 0 ->
  cos (Quad_endAngle ROps q) = dx / sqrt (dx * dx + dy * dy) /\
  sin (Quad_endAngle ROps q) = dy / sqrt (dx * dx + dy * dy).
Proof. cbv zeta. intros H. destruct (start_end_angle_legs_quad q) as [_ ->]. apply (leg_angle_direction (q1 q) (q2 q)), H. Qed.

Lemma start_angle_direction_cubic (c : seg4 R) :
  let dx := px (c1 c) - px (c0 c) in let dy := py (c1 c) - py (c0 c) in
  dx * dx + dy * dy <> 0 ->
  cos (Cubic_startAngle ROps c) = dx / sqrt (dx * dx + dy * dy) /\
  sin (Cubic_startAngle ROps c) = dy / sqrt (dx * dx + dy * dy).
Proof. cbv zeta. intros H. destruct (start_end_angle_legs_cubic c) as [-> _]. apply (leg_angle_direction (c0 c) (c1 c)), H. Qed.
Lemma end_angle_direction_cubic (c : seg4 R) :
  let dx := px (c3 c) - px (c2 c) in let dy := py (c3 c) - py (c2 c) in
  dx * dx + dy * dy <> 0 ->
  cos (Cubic_endAngle ROps c) = dx / sqrt (dx * dx + dy * dy) /\
  sin (Cubic_endAngle ROps c) = dy / sqrt (dx * dx + dy * dy).
Proof. cbv zeta. intros H. destruct (start_end_angle_legs_cubic c) as [_ ->]. apply (leg_angle_direction (c2 c) (c3 c)), H. Qed.

(* consistency with the tangent: for a non-degenerate first (last) leg the start (end) angle is the direction of the
   tangent at t = 0 (t = 1) *)
Lemma start_angle_is_tangent_direction_quad (q : seg3 R) :
  let dx := px (q1 q) - px (q0 q) in let dy := py (q1 q) - py (q0 q) in
  dx * dx + dy * dy <> 0 ->
  Quad_tangentAtTime ROps q 0 = P (cos (Quad_startAngle ROps q)) (sin (Quad_startAngle ROps q)).
Proof.
  cbv zeta. intros H. destruct (start_angle_direction_quad q H) as [-> ->].
  destruct q as [[x0 y0] [x1 y1] [x2 y2]]. cbn [px py q0 q1 q2] in *.
  set (dx := x1 - x0) in *. set (dy := y1 - y0) in *.
  pose proof (sqrt_sumsq_neq_0 dx dy H) as Hm. pose proof (sumsq_pos dx dy H) as Hp.
  unfold Quad_tangentAtTime.
  replace (Line_pointAtTime ROps (Quad_derivative ROps (Q3 (P x0 y0) (P x1 y1) (P x2 y2))) 0)
    with (P (2 * dx) (2 * dy)) by (subst dx dy; rcbv; apply pt_eq; ring).
  rewrite toUnitVector_spec by nra.
  replace (2 * dx * (2 * dx) + 2 * dy * (2 * dy)) with (2 * 2 * (dx * dx + dy * dy)) by ring.
  rewrite sqrt_mult by lra. rewrite sqrt_square by lra.
  apply pt_eq; field; exact Hm.
Qed.

Lemma end_angle_is_tangent_direction_quad (q : seg3 R) :
  let dx := px (q2 q) - px (q1 q) in let dy := py (q2 q) - py (q1 q) in
  dx * dx + dy * dy <> 0 ->
  Quad_tangentAtTime ROps q 1 = P (cos (Quad_endAngle ROps q)) (sin (Quad_endAngle ROps q)).
Proof.
  cbv zeta. intros H. destruct (end_angle_direction_quad q H) as [-> ->].
  destruct q as [[x0 y0] [x1 y1] [x2 y2]]. cbn [px py q0 q1 q2] in *.
  set (dx := x2 - x1) in *. set (dy := y2 - y1) in *.
  pose proof (sqrt_sumsq_neq_0 dx dy H) as Hm. pose proof (sumsq_pos dx dy H) as Hp.
  unfold Quad_tangentAtTime.
  replace (Line_pointAtTime ROps (Quad_derivative ROps (Q3 (P x0 y0) (P x1 y1) (P x2 y2))) 1)
    with (P (2 * dx) (2 * dy)) by (subst dx dy; rcbv; apply pt_eq; ring).
  rewrite toUnitVector_spec by nra.
  replace (2 * dx * (2 * dx) + 2 * dy * (2 * dy)) with (2 * 2 * (dx * dx + dy * dy)) by ring.
  rewrite sqrt_mult by lra. rewrite sqrt_square by lra.
  apply pt_eq; field; exact Hm.
Qed.

Lemma start_angle_is_tangent_direction_cubic (c : seg4 R) :
  let dx := px (c1 c) - px (c0 c) in let dy := py (c1 c) - py (c0 c) in
  dx * dx + dy * dy <> 0 ->
  Cubic_tangentAtTime ROps c 0 = P (cos (Cubic_startAngle ROps c)) (sin (Cubic_startAngle ROps c)).
Proof.
  cbv zeta. intros H. destruct (start_angle_direction_cubic c H) as [-> ->].
  destruct c as [[x0 y0] [x1 y1] [x2 y2] [x3 y3]]. cbn [px py c0 c1 c2 c3] in *.
  set (dx := x1 - x0) in *. set (dy := y1 - y0) in *.
  pose proof (sqrt_sumsq_neq_0 dx dy H) as Hm. pose proof (sumsq_pos dx dy H) as Hp.
  unfold Cubic_tangentAtTime.
  replace (Quad_pointAtTime ROps (Cubic_derivative ROps (C4 (P x0 y0) (P x1 y1) (P x2 y2) (P x3 y3))) 0)
    with (P (3 * dx) (3 * dy)) by (subst dx dy; rcbv; apply pt_eq; ring).
  rewrite toUnitVector_spec by nra.
  replace (3 * dx * (3 * dx) + 3 * dy * (3 * dy)) with (3 * 3 * (dx * dx + dy * dy)) by ring.
  rewrite sqrt_mult by lra. rewrite sqrt_square by lra.
  apply pt_eq; field; exact Hm.
Qed.

Lemma end_angle_is_tangent_direction_cubic (c : seg4 R) :
  let dx := px (c3 c) - px (c2 c) in let dy := py (c3 c) - py (c2 c) in
  dx * dx + dy * dy <> 0 ->
  Cubic_tangentAtTime ROps c 1 = P (cos (Cubic_endAngle ROps c)) (sin (Cubic_endAngle ROps c)).
Proof.
  cbv zeta. intros H. destruct (end_angle_direction_cubic c H) as [-> ->].
  destruct c as [[x0 y0] [x1 y1] [x2 y2] [x3 y3]]. cbn [px py c0 c1 c2 c3] in *.
  set (dx := x3 - x2) in *. set (dy := y3 - y2) in *.
  pose proof (sqrt_sumsq_neq_0 dx dy H) as Hm. pose proof (sumsq_pos dx dy H) as Hp.
  unfold Cubic_tangentAtTime.
  replace (Quad_pointAtTime ROps (Cubic_derivative ROps (C4 (P x0 y0) (P x1 y1) (P x2 y2) (P x3 y3))) 1)
    with (P (3 * dx) (3 * dy)) by (subst dx dy; rcbv; apply pt_eq; ring).
  rewrite toUnitVector_spec by nra.
  replace (3 * dx * (3 * dx) + 3 * dy * (3 * dy)) with (3 * 3 * (dx * dx + dy * dy)) by ring.
  rewrite sqrt_mult by lra. rewrite sqrt_square by lra.
  apply pt_eq; field; exact Hm.
Qed.

(* a line's tangent is (cos, sin) of its start angle, always *)
Lemma line_tangent_is_start_angle (l : seg2 R) t :
  Line_tangentAtTime ROps l t = P (cos (Line_startAngle ROps l)) (sin (Line_startAngle ROps l)).
Proof. rewrite line_tangent_angle. reflexivity. Qed.

(* ------------------------------------------------------------------------------------------------ *)
(* 5. curvature = (x' y'' - y' x'') / (x'^2 + y'^2)^(3/2) from the exact first and second derivatives   *)
(* ------------------------------------------------------------------------------------------------ *)

(* the second-derivative segment of a cubic evaluates to the exact derivative of its hodograph *)
Lemma cubic_second_derivative_x (c : seg4 R) t :
  is_derive (fun u => px (Quad_pointAtTime ROps (Cubic_derivative ROps c) u)) t
            (px (Line_pointAtTime ROps (Quad_derivative ROps (Cubic_derivative ROps c)) t)).
Proof. apply quad_derivative_x. Qed.
Lemma cubic_second_derivative_y (c : seg4 R) t :
  is_derive (fun u => py (Quad_pointAtTime ROps (Cubic_derivative ROps c) u)) t
            (py (Line_pointAtTime ROps (Quad_derivative ROps (Cubic_derivative ROps c)) t)).
Proof. apply quad_derivative_y. Qed.

(* the hodograph of a quadratic is a line, whose derivative is its (constant) chord *)
Lemma quad_second_derivative_x (q : seg3 R) t :
  is_derive (fun u => px (Line_pointAtTime ROps (Quad_derivative ROps q) u)) t
            (px (l1 (Quad_derivative ROps q)) - px (l0 (Quad_derivative ROps q))).
Proof. apply line_derivative_x. Qed.
Lemma quad_second_derivative_y (q : seg3 R) t :
  is_derive (fun u => py (Line_pointAtTime ROps (Quad_derivative ROps q) u)) t
            (py (l1 (Quad_derivative ROps q)) - py (l0 (Quad_derivative ROps q))).
Proof. apply line_derivative_y. Qed.

(* ... and that chord is 2 (P0 - 2 P1 + P2) *)
Lemma quad_second_derivative_value (q : seg3 R) :
  px (l1 (Quad_derivative ROps q)) - px (l0 (Quad_derivative ROps q)) = 2 * (px (q0 q) - 2 * px (q1 q) + px (q2 q)) /\
  py (l1 (Quad_derivative ROps q)) - py (l0 (Quad_derivative ROps q)) = 2 * (py (q0 q) - 2 * py (q1 q) + py (q2 q)).
Proof. destruct_pts. rcbv. split; ring. Qed.

Lemma cubic_curvature_formula (c : seg4 R) t :
  let d1 := Quad_pointAtTime ROps (Cubic_derivative ROps c) t in
  let d2 := Line_pointAtTime ROps (Quad_derivative ROps (Cubic_derivative ROps c)) t in
  let x' := px d1 in let y' := py d1 in let x'' := px d2 in let y'' := py d2 in
  let speed2 := x' * x' + y' * y' in
  0 < speed2 ->
  Cubic_curvatureAtTime ROps c t = (x' * y'' - y' * x'') / (speed2 * sqrt speed2).
Proof.
  cbv zeta. unfold Cubic_curvatureAtTime. cbv zeta.
  destruct (Quad_pointAtTime ROps (Cubic_derivative ROps c) t) as [x' y'].
  destruct (Line_pointAtTime ROps (Quad_derivative ROps (Cubic_derivative ROps c)) t) as [x'' y''].
  cbn [px py]. intros Hs.
  change (add ROps (powi ROps x' 2) (powi ROps y' 2)) with (x' * x' + y' * y').
  rewrite pow_three_halves by exact Hs. reflexivity.
Qed.

Lemma quad_curvature_formula (q : seg3 R) t :
  let d1 := Line_pointAtTime ROps (Quad_derivative ROps q) t in
  let x' := px d1 in let y' := py d1 in
  let x'' := 2 * (px (q0 q) - 2 * px (q1 q) + px (q2 q)) in
  let y'' := 2 * (py (q0 q) - 2 * py (q1 q) + py (q2 q)) in
  let speed2 := x' * x' + y' * y' in
  0 < speed2 ->
  Quad_curvatureAtTime ROps q t = (x' * y'' - y' * x'') / (speed2 * sqrt speed2).
Proof.
  cbv zeta. destruct (quad_second_derivative_value q) as [<- <-].
  unfold Quad_curvatureAtTime. cbv zeta.
  destruct (Line_pointAtTime ROps (Quad_derivative ROps q) t) as [x' y'].
  cbn [px py]. intros Hs.
  change (add ROps (powi ROps x' 2) (powi ROps y' 2)) with (x' * x' + y' * y').
  rewrite pow_three_halves by exact Hs.
  destruct (Quad_derivative ROps q) as [[ax ay] [bx by_]]. reflexivity.
Qed.

(* the same with the second derivative written as the derivative of the hodograph, l1 d - l0 d *)
Lemma quad_curvature_formula_hodograph (q : seg3 R) t :
  let d := Quad_derivative ROps q in
  let d1 := Line_pointAtTime ROps d t in
  let x' := px d1 in let y' := py d1 in
  let x'' := px (l1 d) - px (l0 d) in let y'' := py (l1 d) - py (l0 d) in
  let speed2 := x' * x' + y' * y' in
  0 < speed2 ->
  Quad_curvatureAtTime ROps q t = (x' * y'' - y' * x'') / (speed2 * sqrt speed2).
Proof.
  cbv zeta. destruct (quad_second_derivative_value q) as [-> ->]. apply quad_curvature_formula.
Qed.

Lemma Derive2_from (f f1 : R -> R) (f2 t : R) :
  (forall u, is_derive f u (f1 u)) -> is_derive f1 t f2 -> Derive_n f 2 t = f2.
Proof.
  intros H1 H2. change (Derive_n f 2 t) with (Derive (fun v => Derive f v) t).
  rewrite (Derive_ext (fun v => Derive f v) f1 t) by (intros u; apply is_derive_unique, H1).
  apply is_derive_unique, H2.
Qed.

(* the textbook shape with the Coquelicot derivatives of the evaluation map *)
Lemma cubic_curvature_Derive (c : seg4 R) t :
  let x := fun u => px (Cubic_pointAtTime ROps c u) in let y := fun u => py (Cubic_pointAtTime ROps c u) in
  let x' := Derive x t in let y' := Derive y t in
  let x'' := Derive_n x 2 t in let y'' := Derive_n y 2 t in
  let speed2 := x' * x' + y' * y' in
  0 < speed2 ->
  Cubic_curvatureAtTime ROps c t = (x' * y'' - y' * x'') / (speed2 * sqrt speed2).
Proof.
  cbv zeta.
  assert (Ex : Derive (fun u : R => px (Cubic_pointAtTime ROps c u)) t =
               px (Quad_pointAtTime ROps (Cubic_derivative ROps c) t)) by apply is_derive_unique, cubic_derivative_x.
  assert (Ey : Derive (fun u : R => py (Cubic_pointAtTime ROps c u)) t =
               py (Quad_pointAtTime ROps (Cubic_derivative ROps c) t)) by apply is_derive_unique, cubic_derivative_y.
  assert (Fx : Derive_n (fun u : R => px (Cubic_pointAtTime ROps c u)) 2 t =
               px (Line_pointAtTime ROps (Quad_derivative ROps (Cubic_derivative ROps c)) t)).
  { apply (Derive2_from _ (fun u => px (Quad_pointAtTime ROps (Cubic_derivative ROps c) u))).
    - intros u. apply cubic_derivative_x.
    - apply cubic_second_derivative_x. }
  assert (Fy : Derive_n (fun u : R => py (Cubic_pointAtTime ROps c u)) 2 t =
               py (Line_pointAtTime ROps (Quad_derivative ROps (Cubic_derivative ROps c)) t)).
  { apply (Derive2_from _ (fun u => py (Quad_pointAtTime ROps (Cubic_derivative ROps c) u))).
    - intros u. apply cubic_derivative_y.
    - apply cubic_second_derivative_y. }
  rewrite Ex, Ey, Fx, Fy. apply cubic_curvature_formula.
Qed.

Lemma quad_curvature_Derive (q : seg3 R) t :
  let x := fun u => px (Quad_pointAtTime ROps q u) in let y := fun u => py (Quad_pointAtTime ROps q u) in
  let x' := Derive x t in let y' := Derive y t in
  let x'' := Derive_n x 2 t in let y'' := Derive_n y 2 t in
  let speed2 := x' * x' + y' * y' in
  0 < speed2 ->
  Quad_curvatureAtTime ROps q t = (x' * y'' - y' * x'') / (speed2 * sqrt speed2).
Proof.
  cbv zeta.
  assert (Ex : Derive (fun u : R => px (Quad_pointAtTime ROps q u)) t =
               px (Line_pointAtTime ROps (Quad_derivative ROps q) t)) by apply is_derive_unique, quad_derivative_x.
  assert (Ey : Derive (fun u : R => py (Quad_pointAtTime ROps q u)) t =
               py (Line_pointAtTime ROps (Quad_derivative ROps q) t)) by apply is_derive_unique, quad_derivative_y.
  assert (Fx : Derive_n (fun u : R => px (Quad_pointAtTime ROps q u)) 2 t =
               px (l1 (Quad_derivative ROps q)) - px (l0 (Quad_derivative ROps q))).
  { apply (Derive2_from _ (fun u => px (Line_pointAtTime ROps (Quad_derivative ROps q) u))).
    - intros u. apply quad_derivative_x.
    - apply quad_second_derivative_x. }
  assert (Fy : Derive_n (fun u : R => py (Quad_pointAtTime ROps q u)) 2 t =
               py (l1 (Quad_derivative ROps q)) - py (l0 (Quad_derivative ROps q))).
  { apply (Derive2_from _ (fun u => py (Line_pointAtTime ROps (Quad_derivative ROps q) u))).
    - intros u. apply quad_derivative_y.
    - apply quad_second_derivative_y. }
  rewrite Ex, Ey, Fx, Fy. apply quad_curvature_formula_hodograph.
Qed.

(* ------------------------------------------------------------------------------------------------ *)
(* 6. a line's curvature is the negligible constant 2^-52                                             *)
(* ------------------------------------------------------------------------------------------------ *)

Lemma line_curvature_eps (l : seg2 R) t : Line_curvatureAtTime ROps l t = IZR 1 / IZR 4503599627370496.
Proof. reflexivity. Qed.

Lemma line_curvature_eps_pow (l : seg2 R) t : Line_curvatureAtTime ROps l t = / 2 ^ 52.
Proof.
  rewrite line_curvature_eps. replace (2 ^ 52) with (IZR 4503599627370496); [field|].
  rewrite pow_IZR. apply f_equal. reflexivity.
Qed.

Lemma line_curvature_negligible (l : seg2 R) t : 0 < Line_curvatureAtTime ROps l t < 1 / 1000000000000000.
Proof.
  rewrite line_curvature_eps. split.
  - apply Rdiv_lt_0_compat; lra.
  - apply Rmult_lt_reg_r with 4503599627370496; [lra|].
    unfold Rdiv. rewrite Rmult_assoc, Rinv_l by lra. lra.
Qed.

(* ------------------------------------------------------------------------------------------------ *)
(* examples: the statements are not vacuous                                                           *)
(* ------------------------------------------------------------------------------------------------ *)

(* the parabola (0,0) (1,1) (2,0): at the apex t = 1/2 the derivative is (2,0), the second derivative (0,-4),
   so the curvature is 2*(-4) / (4 * 2) = -1 (it bends clockwise) *)
Example quad_curvature_example : Quad_curvatureAtTime ROps (Q3 (P 0 0) (P 1 1) (P 2 0)) (1 / 2) = -1.
Proof.
  rewrite quad_curvature_formula; cbv zeta.
  - replace (Line_pointAtTime ROps (Quad_derivative ROps (Q3 (P 0 0) (P 1 1) (P 2 0))) (1 / 2)) with (P 2 0)
      by (rcbv; apply pt_eq; field).
    cbn [px py q0 q1 q2].
    replace (2 * 2 + 0 * 0) with (2 * 2) by ring. rewrite sqrt_square by lra. field.
  - replace (Line_pointAtTime ROps (Quad_derivative ROps (Q3 (P 0 0) (P 1 1) (P 2 0))) (1 / 2)) with (P 2 0)
      by (rcbv; apply pt_eq; field).
    cbn [px py]. lra.
Qed.

(* the cubic (0,0) (1,0) (1,1) (2,1) at t = 0: derivative (3,0), tangent (1,0), normal (0,1) *)
Example cubic_tangent_example : Cubic_tangentAtTime ROps (C4 (P 0 0) (P 1 0) (P 1 1) (P 2 1)) 0 = P 1 0.
Proof.
  assert (E : Quad_pointAtTime ROps (Cubic_derivative ROps (C4 (P 0 0) (P 1 0) (P 1 1) (P 2 1))) 0 = P 3 0)
    by (rcbv; apply pt_eq; ring).
  rewrite tangent_is_unit_derivative_cubic; rewrite E; cbn [px py].
  - replace (3 * 3 + 0 * 0) with (3 * 3) by ring. rewrite sqrt_square by lra. apply pt_eq; field.
  - lra.
Qed.

Example cubic_normal_example : Cubic_normalAtTime ROps (C4 (P 0 0) (P 1 0) (P 1 1) (P 2 1)) 0 = P 0 1.
Proof. rewrite normal_is_ccw_quarter_turn_cubic, cubic_tangent_example. cbn [px py]. apply pt_eq; ring. Qed.

(* the tangent of the same cubic at the inflection t = 1/2: derivative (3/2, 3/2) *)
Example cubic_tangent_example_mid :
  Cubic_tangentAtTime ROps (C4 (P 0 0) (P 1 0) (P 1 1) (P 2 1)) (1 / 2) = P (/ sqrt 2) (/ sqrt 2).
Proof.
  assert (E : Quad_pointAtTime ROps (Cubic_derivative ROps (C4 (P 0 0) (P 1 0) (P 1 1) (P 2 1))) (1 / 2) = P (3 / 2) (3 / 2))
    by (rcbv; apply pt_eq; field).
  assert (H2 : sqrt 2 <> 0) by (apply Rgt_not_eq, sqrt_lt_R0; lra).
  rewrite tangent_is_unit_derivative_cubic; rewrite E; cbn [px py]; [|lra].
  replace (3 / 2 * (3 / 2) + 3 / 2 * (3 / 2)) with ((3 / 2) * (3 / 2) * 2) by field.
  rewrite sqrt_mult by lra. rewrite sqrt_square by lra.
  apply pt_eq; field; exact H2.
Qed.

(* ... where the curvature vanishes (x' y'' - y' x'' = 0) *)
Example cubic_curvature_inflection :
  Cubic_curvatureAtTime ROps (C4 (P 0 0) (P 1 0) (P 1 1) (P 2 1)) (1 / 2) = 0.
Proof.
  assert (E1 : Quad_pointAtTime ROps (Cubic_derivative ROps (C4 (P 0 0) (P 1 0) (P 1 1) (P 2 1))) (1 / 2) = P (3 / 2) (3 / 2))
    by (rcbv; apply pt_eq; field).
  assert (E2 : Line_pointAtTime ROps (Quad_derivative ROps (Cubic_derivative ROps (C4 (P 0 0) (P 1 0) (P 1 1) (P 2 1)))) (1 / 2) = P 0 0)
    by (rcbv; apply pt_eq; field).
  rewrite cubic_curvature_formula; rewrite E1; try rewrite E2; cbn [px py]; [|lra].
  unfold Rdiv at 1. replace (3 / 2 * 0 - 3 / 2 * 0) with 0 by field. ring.
Qed.

(* a horizontal line: tangent (1,0), normal (0,1) -- the same counter-clockwise convention as for the curves *)
Example line_tangent_normal_example :
  Line_tangentAtTime ROps (L2 (P 0 0) (P 5 0)) (1 / 3) = P 1 0 /\
  Line_normalAtTime ROps (L2 (P 0 0) (P 5 0)) (1 / 3) = P 0 1.
Proof.
  assert (T : Line_tangentAtTime ROps (L2 (P 0 0) (P 5 0)) (1 / 3) = P 1 0).
  { rewrite line_tangent_is_unit_chord; cbn [px py l0 l1]; [|lra].
    replace ((5 - 0) * (5 - 0) + (0 - 0) * (0 - 0)) with (5 * 5) by ring. rewrite sqrt_square by lra.
    apply pt_eq; field. }
  split; [exact T|]. rewrite normal_is_ccw_quarter_turn_line, T. cbn [px py]. apply pt_eq; ring.
Qed.
