(* Hand-written model of the representation switches of beziers.py:
     beziers/path/representations/Segment.py   (SegmentRepresentation.toNodelist / appendSegment / fromNodelist)
     beziers/path/representations/Nodelist.py  (Node, NodelistRepresentation)
     beziers/path/__init__.py                  (BezierPath.asSegments / asNodelist / asSVGPath)
     __repr__ / fromRepr of Point, Line, QuadraticBezier, CubicBezier.
   Generic over the scalar carrier, executable (vm_compute) and total: every Python exception
   (IndexError on an empty list, ValueError("Unknown segment type"), a regex that does not match, float(str)
   failing) is the value [None].
   Node types: only "line", "curve" and "offcurve" are modelled (the three that toNodelist produces). *)
From Coq Require Import PrimFloat.
From Coq Require Import ZArith List Bool.
From Coq Require Import Ascii String.
Import ListNotations.
From BZ Require Import Base.Ops.

Inductive ntype := NLine | NCurve | NOff.
Definition node (T : Type) : Type := (pt T * ntype)%type.

Inductive prepr (T : Type) := SegRep (l : list (segment T)) | NodeRep (l : list (node T)).
Arguments SegRep {T}. Arguments NodeRep {T}.
(* a BezierPath, as far as this property is concerned: (activeRepresentation, closed) *)
Definition path (T : Type) : Type := (prepr T * bool)%type.

Definition obind {A B : Type} (f : A -> option B) (o : option A) : option B :=
  match o with Some a => f a | None => None end.

Definition is_off {T : Type} (n : node T) : bool := match snd n with NOff => true | _ => false end.

Section Nodelist.
Context {T : Type} (O : Ops T).

Definition seg_start (s : segment T) : pt T :=
  match s with SLine s => l0 s | SQuad s => q0 s | SCubic s => c0 s end.
Definition seg_end (s : segment T) : pt T :=
  match s with SLine s => l1 s | SQuad s => q2 s | SCubic s => c3 s end.
(* list(seg): the control points in order *)
Definition seg_points (s : segment T) : list (pt T) :=
  match s with
  | SLine (L2 a b) => [a; b]
  | SQuad (Q3 a b c) => [a; b; c]
  | SCubic (C4 a b c d) => [a; b; c; d]
  end.

(* ---------- SegmentRepresentation.toNodelist ---------- *)
(* the nodes appended for one segment by the loop body *)
Definition seg_nodes (s : segment T) : list (node T) :=
  match s with
  | SCubic (C4 _ b c d) => [(b, NOff); (c, NOff); (d, NCurve)]
  | SQuad (Q3 _ b c) => [(b, NOff); (c, NCurve)]
  | SLine (L2 _ b) => [(b, NLine)]
  end.
Definition toNodelist (segs : list (segment T)) : option (list (node T)) :=
  match segs with
  | [] => None                                  (* self.segments[0] : IndexError *)
  | s :: _ =>
      Some ((seg_start s, match s with SLine _ => NLine | _ => NCurve end) :: flat_map seg_nodes segs)
  end.

(* ---------- appendSegment ---------- *)
Definition mk_segment (seg : list (pt T)) : option (segment T) :=
  match seg with
  | [a; b] => Some (SLine (L2 a b))
  | [a; b; c] => Some (SQuad (Q3 a b c))
  | [a; b; c; d] => Some (SCubic (C4 a b c d))
  | _ => None                                   (* ValueError("Unknown segment type") *)
  end.

(* ---------- fromNodelist ---------- *)
(* loop state: (self.segments, seg) *)
Definition wstate : Type := (list (segment T) * list (pt T))%type.
(* one iteration of either `for n in ...` loop *)
Definition wstep (st : wstate) (n : node T) : option wstate :=
  let '(acc, seg) := st in
  match snd n with
  | NOff => Some (acc, (seg ++ [fst n])%list)
  | _ => match mk_segment (seg ++ [fst n])%list with
         | Some s => Some ((acc ++ [s])%list, [fst n])
         | None => None
         end
  end.
Fixpoint walk (st : wstate) (nl : list (node T)) : option wstate :=
  match nl with
  | [] => Some st
  | n :: r => match wstep st n with Some st' => walk st' r | None => None end
  end.

(* index of the first node whose type is not "offcurve" *)
Fixpoint find_oncurve (nl : list (node T)) : option nat :=
  match nl with
  | [] => None
  | n :: r => if is_off n then option_map S (find_oncurve r) else Some 0%nat
  end.
(* (nodelist[firstOncurve], nodelist[firstOncurve+1:], nodelist[:firstOncurve]);
   when there is no on-curve node firstOncurve stays -1, so the three are
   (nodelist[-1], nodelist[0:], nodelist[:-1]); nodelist[-1] of an empty list is an IndexError *)
Definition split_first (nl : list (node T)) : option (node T * list (node T) * list (node T)) :=
  match find_oncurve nl with
  | Some i => match nth_error nl i with
              | Some f => Some (f, skipn (S i) nl, firstn i nl)
              | None => None
              end
  | None => match rev nl with
            | [] => None
            | f :: _ => Some (f, nl, removelast nl)
            end
  end.

(* isclose(p.x, q.x) and isclose(p.y, q.y) *)
Definition pclose (p q : pt T) : bool := isclose O (px p) (px q) && isclose O (py p) (py q).

(* the `if self.path.closed:` block *)
Definition finish (closed : bool) (first : pt T) (st : wstate) : option (list (segment T)) :=
  let '(acc, seg) := st in
  if closed then
    if match seg with [p] => pclose p first | _ => false end
    then Some acc
    else match mk_segment (seg ++ [first])%list with
         | Some s => Some (acc ++ [s])%list
         | None => None
         end
  else Some acc.

Definition fromNodelist (closed : bool) (nl : list (node T)) : option (list (segment T)) :=
  match split_first nl with
  | None => None
  | Some (f, l1, l2) =>
      match walk ([], [fst f]) l1 with
      | None => None
      | Some st1 =>
          match walk st1 l2 with
          | None => None
          | Some st2 => finish closed (fst f) st2
          end
      end
  end.

(* ---------- BezierPath.asSegments / asNodelist: returns (the path after the call, the returned data) ---------- *)
Definition asSegments (p : path T) : option (path T * list (segment T)) :=
  match fst p with
  | SegRep segs => Some (p, segs)
  | NodeRep nl => match fromNodelist (snd p) nl with
                  | Some segs => Some ((SegRep segs, snd p), segs)
                  | None => None
                  end
  end.
Definition asNodelist (p : path T) : option (path T * list (node T)) :=
  match fst p with
  | NodeRep nl => Some (p, nl)
  | SegRep segs => match toNodelist segs with
                   | Some nl => Some ((NodeRep nl, snd p), nl)
                   | None => None
                   end
  end.

(* ---------- asSVGPath ---------- *)
Local Open Scope string_scope.
(* "xxLQC"[len(s)] *)
Definition svg_letter (s : segment T) : ascii :=
  match String.get (List.length (seg_points s)) "xxLQC" with Some c => c | None => "x"%char end.
(* op = operators[len(s)] + " "; for pt in s[1:]: op = op + "%f %f " % (pt.x, pt.y) *)
Definition svg_op (fmt6 : T -> string) (s : segment T) : string :=
  fold_left (fun op p => op ++ (fmt6 (px p) ++ " " ++ fmt6 (py p) ++ " ")) (tl (seg_points s))
            (String (svg_letter s) " ").
Definition svg_path (fmt6 : T -> string) (closed : bool) (segs : list (segment T)) : option string :=
  match segs with
  | [] => None                                  (* segs[0] : IndexError *)
  | s0 :: _ =>
      let parts0 := ["M " ++ fmt6 (px (seg_start s0)) ++ " " ++ fmt6 (py (seg_start s0))] in
      let parts1 := fold_left (fun parts s => (parts ++ [svg_op fmt6 s])%list) segs parts0 in
      let parts2 := if closed then (parts1 ++ ["Z"])%list else parts1 in
      Some (String.concat " " parts2)
  end.
Definition asSVGPath (fmt6 : T -> string) (p : path T) : option (path T * string) :=
  match asSegments p with
  | None => None
  | Some (p', segs) => match svg_path fmt6 (snd p') segs with Some s => Some (p', s) | None => None end
  end.
End Nodelist.

(* ---------- textual forms: __repr__ and fromRepr ---------- *)
Section Text.
Context {T : Type}.
Local Open Scope string_scope.
Variable fmt : T -> string.              (* "%s" % float, i.e. repr(float) *)
Variable parse : string -> option T.     (* float(str); ValueError = None *)

Definition repr_point (p : pt T) : string := "<" ++ fmt (px p) ++ "," ++ fmt (py p) ++ ">".
Definition repr_line (s : seg2 T) : string := "L<" ++ repr_point (l0 s) ++ "--" ++ repr_point (l1 s) ++ ">".
Definition repr_quad (s : seg3 T) : string :=
  "B<" ++ repr_point (q0 s) ++ "-" ++ repr_point (q1 s) ++ "-" ++ repr_point (q2 s) ++ ">".
Definition repr_cubic (s : seg4 T) : string :=
  "B<" ++ repr_point (c0 s) ++ "-" ++ repr_point (c1 s) ++ "-" ++ repr_point (c2 s) ++ "-" ++ repr_point (c3 s) ++ ">".

Definition newline : ascii := "010"%char.
Definition str_empty (s : string) : bool := match s with EmptyString => true | _ => false end.
(* `$` without re.MULTILINE: at the end of the string, or just before a newline that ends the string *)
Definition at_end (s : string) : bool :=
  match s with
  | EmptyString => true
  | String c EmptyString => Ascii.eqb c newline
  | _ => false
  end.
(* the text before and after the first occurrence of c *)
Fixpoint split_at (c : ascii) (s : string) : option (string * string) :=
  match s with
  | EmptyString => None
  | String d r => if Ascii.eqb d c then Some (EmptyString, r)
                  else match split_at c r with Some (a, b) => Some (String d a, b) | None => None end
  end.
(* strip a literal prefix *)
Fixpoint strip (p s : string) : option string :=
  match p with
  | EmptyString => Some s
  | String c p' => match s with
                   | String d s' => if Ascii.eqb c d then strip p' s' else None
                   | EmptyString => None
                   end
  end.

(* ^<([^,]+),([^>]+)>$ : both classes are greedy but cannot contain their own terminator, so group 1 is the
   text up to the first ',' and group 2 the text up to the first '>' after it; both non-empty *)
Definition parse_point (s : string) : option (pt T) :=
  match strip "<" s with
  | None => None
  | Some r =>
    match split_at "," r with
    | None => None
    | Some (g1, r1) =>
      if str_empty g1 then None else
      match split_at ">" r1 with
      | None => None
      | Some (g2, r2) =>
        if str_empty g2 then None else
        if at_end r2 then
          match parse g1, parse g2 with
          | Some x, Some y => Some (P x y)
          | _, _ => None
          end
        else None
      end
    end
  end.

(* `.*?>` followed by the rest of the regex [k] (backtracking): the shortest run of non-newline characters
   after which '>' and then [k] match.  Returns the run and the result of [k]. *)
Fixpoint lazy_gt {A : Type} (k : string -> option A) (s : string) : option (string * A) :=
  match s with
  | EmptyString => None
  | String c r =>
      match (if Ascii.eqb c ">" then k r else None) with
      | Some a => Some (EmptyString, a)
      | None => if Ascii.eqb c newline then None
                else match lazy_gt k r with Some (x, a) => Some (String c x, a) | None => None end
      end
  end.
(* `(<.*?>)` followed by [k]: returns the text of the group and the result of [k] *)
Definition group {A : Type} (k : string -> option A) (s : string) : option (string * A) :=
  match strip "<" s with
  | None => None
  | Some r => match lazy_gt k r with
              | Some (x, a) => Some ("<" ++ x ++ ">", a)
              | None => None
              end
  end.
(* a literal then [k] *)
Definition after {A : Type} (p : string) (k : string -> option A) (s : string) : option A :=
  match strip p s with Some r => k r | None => None end.
(* `>$` *)
Definition closing (s : string) : option unit :=
  after ">" (fun r => if at_end r then Some tt else None) s.

(* ^L<(<.*?>)--(<.*?>)>$ *)
Definition parse_line (s : string) : option (seg2 T) :=
  match after "L<" (group (after "--" (group closing))) s with
  | Some (g1, (g2, _)) =>
      match parse_point g1, parse_point g2 with
      | Some a, Some b => Some (L2 a b)
      | _, _ => None
      end
  | None => None
  end.
(* ^B<(<.*?>)-(<.*?>)-(<.*?>)>$ *)
Definition parse_quad (s : string) : option (seg3 T) :=
  match after "B<" (group (after "-" (group (after "-" (group closing))))) s with
  | Some (g1, (g2, (g3, _))) =>
      match parse_point g1, parse_point g2, parse_point g3 with
      | Some a, Some b, Some c => Some (Q3 a b c)
      | _, _, _ => None
      end
  | None => None
  end.
(* ^B<(<.*?>)-(<.*?>)-(<.*?>)-(<.*?>)>$ *)
Definition parse_cubic (s : string) : option (seg4 T) :=
  match after "B<" (group (after "-" (group (after "-" (group (after "-" (group closing))))))) s with
  | Some (g1, (g2, (g3, (g4, _)))) =>
      match parse_point g1, parse_point g2, parse_point g3, parse_point g4 with
      | Some a, Some b, Some c, Some d => Some (C4 a b c d)
      | _, _, _, _ => None
      end
  | None => None
  end.
End Text.
