(* Hand-written model of the GLUE around pyclipper in beziers/utils/booleanoperationsmixin.py
   (BooleanOperationsMixin.clip / union / intersection / difference), value level, generic over the scalar carrier.

     def clip(self, clip, cliptype, flat=False):
         cloned = self.clone(); clip = clip.clone()
         for s1 in self.asSegments(): for s2 in clip.asSegments(): for i in s1.intersections(s2): ... splitlist1/2
         cloned.splitAtPoints(splitlist1); clip.splitAtPoints(splitlist2)
         segs1unflattened = cloned.asSegments(); segs2unflattened = clip.asSegments()
         precision = 100.0; reconstructionLUT = {}
         def fillLUT(flats):
             for line in flats:
                 key  = ((line.start * precision).rounded(), (line.end * precision).rounded())
                 reconstructionLUT[key]  = line._orig or line
                 key2 = ((line.end * precision).rounded(), (line.start * precision).rounded())
                 reconstructionLUT[key2] = (line._orig or line).reversed()
         for s in segs1unflattened: flats = s.flatten(2); fillLUT(flats); segs1.extend(flats)
         for s in segs2unflattened: flats = s.flatten(2); fillLUT(flats); segs2.extend(flats)
         subj = [(s[0].x * precision, s[0].y * precision) for s in segs1]
         clip = [(s[0].x * precision, s[0].y * precision) for s in segs2]
         pc = pyclipper.Pyclipper(); pc.AddPath(clip, PT_CLIP, True); pc.AddPath(subj, PT_SUBJECT, True)
         paths = pc.Execute(cliptype, PFT_EVENODD, PFT_EVENODD)
         for p in paths:
             newpath = []
             for scaledstart, scaledend in pairwise(list(p) + [p[0]]):
                 key = (Point( *scaledstart ), Point( *scaledend ))
                 if key in reconstructionLUT and not flat:
                     orig = reconstructionLUT[key]
                     if len(newpath) == 0 or newpath[-1] != orig: newpath.append(orig)
                 else: newpath.append(Line(key[0] / precision, key[1] / precision))
             if len(newpath) > 1 and newpath[-1] == newpath[0]: newpath.pop()
             outpaths.append(BezierPath.fromSegments(newpath))
         return outpaths

   What is modelled and what is an oracle:
   * EXTERN pyclipper: the section variable [clipper : cliptype -> subject polygons -> clip polygons -> option polygons]
     ([None] = ClipperException "The path is invalid for clipping").  pyclipper converts the float coordinates it is
     given with int() (truncation towards zero; ValueError/OverflowError on nan/inf/out of C long range): the section
     variable [toZ : T -> option Z] with the two instances R_toZ / F_toZ below.
   * ORACLE the split lists (they come from Segment.intersections, modelled elsewhere: C05/C06) and Segment.flatten(2)
     of CURVED pieces (the sampler: C16/C17): the section variable [flatten2 : segment T -> option (list (seg2 T))]
     ([None] = no recorded value: the model then fails, it never agrees by accident).  Line.flatten is [self] and is modelled.
   * MODELLED here, step by step: clone (value copy), BezierPath.splitAtPoints (cluster by segment value, sorted(), the
     pop/remap walk with the t < 1e-8 skip, the in-place emptying of a cluster's list, ZeroDivisionError of mapx),
     the _orig back pointers (a curved piece's edges point to the piece; a Line flattens to itself with _orig None, so
     [line._orig or line] is the piece in both cases -- Segment has __len__ >= 2, so a segment is truthy),
     the LUT (Python dict: later inserts overwrite earlier ones with an equal key), scaling by 100.0 and truncation
     (Point.rounded = int()), the roles (AddPath(clip = ARGUMENT, PT_CLIP), AddPath(subj = RECEIVER, PT_SUBJECT)), the
     operation selectors, the reconstruction loop incl. the closing pair p[-1] -> p[0] (and IndexError of p[0] on an
     empty polygon), the [flat] switch, the consecutive-duplicate suppression (Segment.__ne__ = not __eq__: same order
     and every control point Point.__eq__, i.e. isclose at 1e-9 relative), the straight-edge fallback, the removal of a
     last segment that repeats the first (the closing pair may hit the LUT entry of the piece the polygon started on), and
     BezierPath.fromSegments (closed = True).
   * dict keys: a key is a pair of Points with integer-valued coordinates; Python finds an entry iff the hashes agree
     and Point.__eq__ holds.  For integer-valued coordinates below 1e9 in magnitude (the property's range is
     5000 units * 100) both together are exact equality of the coordinates (0.0 == -0.0 included), which is what
     [key_eqb] says.  The same for splitAtPoints' dict keyed by Segment (hash of the tuple of points): exact equality of
     all control points ("no hash collisions between unequal points" is in DESIGN's trusted base).
   * not modelled: non-finite coordinates (Python raises in Point.rounded(); the model raises EConvert from toZ). *)
From Coq Require Import PrimFloat.
From Coq Require Import ZArith List Bool Reals.
From Coq Require FloatOps SpecFloat.
Import ListNotations.
From BZ Require Import Base.Ops Gen.Point Gen.Line Gen.Quad Gen.Cubic.

Inductive cliptype := CT_INTERSECTION | CT_UNION | CT_DIFFERENCE | CT_XOR.      (* pyclipper 0 1 2 3 *)
Definition zpt := (Z * Z)%type.
Definition zpoly := list zpt.
(* Python exceptions are values *)
Inductive exc := EIndex | EClipper | EConvert | EZeroDiv | EOracle.
Inductive result (A : Type) := Ok (a : A) | Raise (e : exc).
Arguments Ok {A}. Arguments Raise {A}.
Definition rbind {A B} (r : result A) (f : A -> result B) : result B := match r with Ok a => f a | Raise e => Raise e end.

(* the variables of [clip] that hold paths, after the call: the frame statement of C12/C13 is about this store *)
Record store (T : Type) := mkStore { st_self : list (segment T); st_other : list (segment T);
                                      st_cloned : list (segment T); st_clipclone : list (segment T) }.
Arguments mkStore {T}. Arguments st_self {T}. Arguments st_other {T}. Arguments st_cloned {T}. Arguments st_clipclone {T}.

Section Clip.
Context {T : Type} (O : Ops T).
Variable toZ : T -> option Z.
Variable clipper : cliptype -> list zpoly -> list zpoly -> option (list zpoly).
Variable flatten2 : segment T -> option (list (seg2 T)).

(* ---------- segments as values ---------- *)
Definition seg_pts (s : segment T) : list (pt T) :=
  match s with SLine l => [l0 l; l1 l] | SQuad q => [q0 q; q1 q; q2 q] | SCubic c => [c0 c; c1 c; c2 c; c3 c] end.
Definition seg_start (s : segment T) : pt T := match s with SLine l => l0 l | SQuad q => q0 q | SCubic c => c0 c end.
Definition seg_end (s : segment T) : pt T := match s with SLine l => l1 l | SQuad q => q2 q | SCubic c => c3 c end.
(* Segment.reversed: klass of the reversed point list *)
Definition seg_reversed (s : segment T) : segment T :=
  match s with SLine l => SLine (Line_reversed O l) | SQuad q => SQuad (Quad_reversed O q) | SCubic c => SCubic (Cubic_reversed O c) end.
(* Segment.splitAtTime *)
Definition seg_split (s : segment T) (t : T) : segment T * segment T :=
  match s with
  | SLine l => let '(a, b) := Line_splitAtTime O l t in (SLine a, SLine b)
  | SQuad q => let '(a, b) := Quad_splitAtTime O q t in (SQuad a, SQuad b)
  | SCubic c => let '(a, b) := Cubic_splitAtTime O c t in (SCubic a, SCubic b)
  end.
(* Segment.__eq__: orders equal and every point Point.__eq__ (tolerance); __ne__ = not __eq__ *)
Fixpoint pts_eq (a b : list (pt T)) : bool :=
  match a, b with
  | [], [] => true
  | p :: r, q :: r' => Point___eq__ O p q && pts_eq r r'
  | _, _ => false
  end.
Definition seg_eq (a b : segment T) : bool :=
  match a, b with
  | SLine _, SLine _ | SQuad _, SQuad _ | SCubic _, SCubic _ => pts_eq (seg_pts a) (seg_pts b)
  | _, _ => false
  end.
Definition seg_ne (a b : segment T) : bool := negb (seg_eq a b).
(* dict-key equality (hash equal and ==): exact coordinate equality *)
Definition pt_keqb (p q : pt T) : bool := eqb O (px p) (px q) && eqb O (py p) (py q).
Fixpoint pts_keqb (a b : list (pt T)) : bool :=
  match a, b with
  | [], [] => true
  | p :: r, q :: r' => pt_keqb p q && pts_keqb r r'
  | _, _ => false
  end.
Definition seg_keqb (a b : segment T) : bool := pts_keqb (seg_pts a) (seg_pts b).   (* tuples of different length differ *)

(* ---------- BezierPath.splitAtPoints ---------- *)
Definition cluster := list (segment T * list T).
Fixpoint cluster_add (c : cluster) (s : segment T) (t : T) : cluster :=
  match c with
  | [] => [(s, [t])]
  | (k, l) :: r => if seg_keqb k s then (k, l ++ [t]) :: r else (k, l) :: cluster_add r s t
  end.
Fixpoint cluster_find (c : cluster) (s : segment T) : option (list T) :=
  match c with [] => None | (k, l) :: r => if seg_keqb k s then Some l else cluster_find r s end.
(* after the walk over a segment its list has been popped empty, in place *)
Fixpoint cluster_clear (c : cluster) (s : segment T) : cluster :=
  match c with [] => [] | (k, l) :: r => if seg_keqb k s then (k, []) :: r else (k, l) :: cluster_clear r s end.
Definition eps8 : T := lit O 1 100000000 0x1.5798ee2308c3ap-27%float.      (* 1e-8 *)
(* tList[i] = (tList[i] - t) / (1 - t) for every remaining i: ZeroDivisionError when 1 - t == 0.0 and something remains *)
Definition remap (rest : list T) (t : T) : result (list T) :=
  match rest with
  | [] => Ok []
  | _ => let d := sub O (ofZ O 1) t in
         if eqb O d (ofZ O 0) then Raise EZeroDiv else Ok (map (fun v => dvd O (sub O v t) d) rest)
  end.
(* while len(tList) > 0: t = tList.pop(0); if t < 1e-8: continue; seg1, seg2 = seg.splitAtTime(t); newsegs.append(seg1);
   seg = seg2; remap the rest.  Then newsegs.append(seg).  Fuel = len(tList): one pop per iteration. *)
Fixpoint split_walk (fuel : nat) (seg : segment T) (tl : list T) : result (list (segment T)) :=
  match tl with
  | [] => Ok [seg]
  | t :: rest =>
    match fuel with
    | 0%nat => Raise EOracle                     (* unreachable with fuel = length tl; see split_walk_fuel *)
    | S f =>
      if ltb O t eps8 then split_walk f seg rest
      else let '(s1, s2) := seg_split seg t in
           rbind (remap rest t) (fun rest' => rbind (split_walk f s2 rest') (fun l => Ok (s1 :: l)))
    end
  end.
Fixpoint split_segs (c : cluster) (segs : list (segment T)) : result (list (segment T)) :=
  match segs with
  | [] => Ok []
  | s :: r =>
    match cluster_find c s with
    | None => rbind (split_segs c r) (fun l => Ok (s :: l))
    | Some tl => rbind (split_walk (length tl) s tl) (fun ps => rbind (split_segs (cluster_clear c s) r) (fun l => Ok (ps ++ l)))
    end
  end.
Definition splitAtPoints (segs : list (segment T)) (splitlist : list (segment T * T)) : result (list (segment T)) :=
  let c := fold_left (fun c st => cluster_add c (fst st) (snd st)) splitlist [] in
  let c := map (fun kl => (fst kl, sort_ O (snd kl))) c in
  split_segs c segs.

(* ---------- flatten(2) with the back pointers, the LUT ---------- *)
Definition precision : T := lit O 100 1 0x1.9p+6%float.
(* the edges of s.flatten(2) *)
Definition flats_of (s : segment T) : option (list (seg2 T)) :=
  match s with SLine l => Some [l] | _ => flatten2 s end.
(* line._orig or line, for an edge e of piece s *)
Definition lut_value (s : segment T) (e : seg2 T) : segment T := match s with SLine _ => SLine e | _ => s end.
Definition key := (pt T * pt T)%type.
Definition scaled_rounded (p : pt T) : pt T := Point_rounded O (Point___mul__ O p precision).
Definition key_eqb (a b : key) : bool := pt_keqb (fst a) (fst b) && pt_keqb (snd a) (snd b).
Definition lut := list (key * segment T).          (* most recent insertion first: a later insert shadows an earlier one *)
Fixpoint lut_find (l : lut) (k : key) : option (segment T) :=
  match l with [] => None | (k', v) :: r => if key_eqb k' k then Some v else lut_find r k end.
Definition fill_edge (s : segment T) (l : lut) (e : seg2 T) : lut :=
  let v := lut_value s e in
  ((scaled_rounded (l1 e), scaled_rounded (l0 e)), seg_reversed v) :: ((scaled_rounded (l0 e), scaled_rounded (l1 e)), v) :: l.
Definition fillLUT (s : segment T) (flats : list (seg2 T)) (l : lut) : lut := fold_left (fill_edge s) flats l.
(* for s in segsNunflattened: flats = s.flatten(2); fillLUT(flats); segsN.extend(flats) *)
Fixpoint flatten_fill (pieces : list (segment T)) (l : lut) : result (list (seg2 T) * lut) :=
  match pieces with
  | [] => Ok ([], l)
  | s :: r =>
    match flats_of s with
    | None => Raise EOracle
    | Some fl => rbind (flatten_fill r (fillLUT s fl l)) (fun el => Ok (fl ++ fst el, snd el))
    end
  end.

(* ---------- what is handed to Clipper ---------- *)
(* (s[0].x * precision, s[0].y * precision), then pyclipper's int() *)
Definition to_clipper_pt (e : seg2 T) : option zpt :=
  match toZ (mul O (px (l0 e)) precision), toZ (mul O (py (l0 e)) precision) with
  | Some x, Some y => Some (x, y)
  | _, _ => None
  end.
Fixpoint to_clipper_poly (edges : list (seg2 T)) : option zpoly :=
  match edges with
  | [] => Some []
  | e :: r => match to_clipper_pt e, to_clipper_poly r with Some v, Some p => Some (v :: p) | _, _ => None end
  end.

(* ---------- reconstruction ---------- *)
Definition zkey (v : zpt) : pt T := P (ofZ O (fst v)) (ofZ O (snd v)).            (* Point( *scaledstart ) *)
(* pairwise(list(p) + [p[0]]) *)
Definition closed_pairs (p : zpoly) : list (zpt * zpt) :=
  match p with [] => [] | v0 :: r => combine p (r ++ [v0]) end.
Definition fallback_line (a b : zpt) : segment T :=
  SLine (L2 (Point___truediv__ O (zkey a) precision) (Point___truediv__ O (zkey b) precision)).
(* one iteration; [acc] is newpath in reverse (head = newpath[-1]) *)
Definition rebuild_step (flat : bool) (l : lut) (acc : list (segment T)) (ab : zpt * zpt) : list (segment T) :=
  match (if flat then None else lut_find l (zkey (fst ab), zkey (snd ab))) with
  | Some orig => match acc with
                 | [] => [orig]
                 | last :: _ => if seg_ne last orig then orig :: acc else acc
                 end
  | None => fallback_line (fst ab) (snd ab) :: acc
  end.
(* if len(newpath) > 1 and newpath[-1] == newpath[0]: newpath.pop()      (Segment.__eq__; commit d254ad7) *)
Definition pop_closing_duplicate (newpath : list (segment T)) : list (segment T) :=
  match newpath with
  | first :: _ :: _ => if seg_eq (last newpath first) first then removelast newpath else newpath
  | _ => newpath
  end.
Definition rebuild_poly (flat : bool) (l : lut) (p : zpoly) : result (list (segment T) * bool) :=
  match p with
  | [] => Raise EIndex                                     (* p[0] *)
  | _ => Ok (pop_closing_duplicate (rev (fold_left (rebuild_step flat l) (closed_pairs p) [])), true)   (* fromSegments: closed = True *)
  end.
Fixpoint rebuild (flat : bool) (l : lut) (ps : list zpoly) : result (list (list (segment T) * bool)) :=
  match ps with
  | [] => Ok []
  | p :: r => rbind (rebuild_poly flat l p) (fun x => rbind (rebuild flat l r) (fun xs => Ok (x :: xs)))
  end.

(* ---------- the whole of clip; also returns the final values of the four path variables ---------- *)
(* everything before the Clipper call: the store after the two splitAtPoints, and (subj, clip, LUT) *)
Definition prepare (self other : list (segment T)) (splitlist1 splitlist2 : list (segment T * T))
  : store T * result (zpoly * zpoly * lut) :=
  let cloned := self in let clipc := other in                           (* clone(): equal values, fresh objects *)
  match splitAtPoints cloned splitlist1 with
  | Raise e => (mkStore self other cloned clipc, Raise e)
  | Ok pieces1 =>
    match splitAtPoints clipc splitlist2 with
    | Raise e => (mkStore self other pieces1 clipc, Raise e)
    | Ok pieces2 =>
      (mkStore self other pieces1 pieces2,
       rbind (flatten_fill pieces1 []) (fun el1 =>
       rbind (flatten_fill pieces2 (snd el1)) (fun el2 =>
       match to_clipper_poly (fst el1), to_clipper_poly (fst el2) with
       | Some subj, Some clp => Ok (subj, clp, snd el2)
       | _, _ => Raise EConvert
       end)))
    end
  end.
Definition clip_run (self other : list (segment T)) (splitlist1 splitlist2 : list (segment T * T)) (ct : cliptype) (flat : bool)
  : store T * result (list (list (segment T) * bool)) :=
  let '(st, r) := prepare self other splitlist1 splitlist2 in
  (st, rbind r (fun scl =>
       let '(subj, clp, l) := scl in
       match clipper ct [subj] [clp] with                                (* SUBJECT = receiver, CLIP = argument *)
       | None => Raise EClipper
       | Some polys => rebuild flat l polys
       end)).
Definition clip (self other : list (segment T)) sl1 sl2 ct flat := snd (clip_run self other sl1 sl2 ct flat).
Definition union_ (self other : list (segment T)) sl1 sl2 flat := clip self other sl1 sl2 CT_UNION flat.
Definition intersection_ (self other : list (segment T)) sl1 sl2 flat := clip self other sl1 sl2 CT_INTERSECTION flat.
Definition difference_ (self other : list (segment T)) sl1 sl2 flat := clip self other sl1 sl2 CT_DIFFERENCE flat.
End Clip.

(* ---------- int() of a float, as pyclipper applies it ---------- *)
Definition two62 : Z := 4611686018427387904%Z.
Definition R_truncZ (x : R) : Z := if Rle_dec 0%R x then Int_part x else (- Int_part (- x)%R)%Z.
(* Clipper's coordinate range is +-(2^62 - 1); beyond it pyclipper raises *)
Definition R_toZ (x : R) : option Z := let z := R_truncZ x in if (Z.abs z <? two62)%Z then Some z else None.
Definition F_truncZ (x : float) : option Z :=
  match FloatOps.Prim2SF x with
  | SpecFloat.S754_zero _ => Some 0%Z
  | SpecFloat.S754_finite s m e =>
      let a := if (0 <=? e)%Z then (Zpos m * 2 ^ e)%Z else (Zpos m / 2 ^ (- e))%Z in
      Some (if s then (- a)%Z else a)
  | _ => None
  end.
Definition F_toZ (x : float) : option Z :=
  match F_truncZ x with Some z => if (Z.abs z <? two62)%Z then Some z else None | None => None end.

(* ---------- oracle tables for the executable (float) instance ---------- *)
Definition zpt_eqb (a b : zpt) : bool := (fst a =? fst b)%Z && (snd a =? snd b)%Z.
Definition clipper_entry := (cliptype * list zpoly * list zpoly * option (list zpoly))%type.
Definition ct_eqb (a b : cliptype) : bool :=
  match a, b with CT_INTERSECTION, CT_INTERSECTION | CT_UNION, CT_UNION | CT_DIFFERENCE, CT_DIFFERENCE | CT_XOR, CT_XOR => true | _, _ => false end.
(* recorded Execute calls; a call that was not recorded (the model handed over different polygons) yields a
   polygon list that cannot be mistaken for a real answer: the empty POLYGON makes the model raise EIndex *)
Fixpoint clipper_tbl (tbl : list clipper_entry) (ct : cliptype) (s c : list zpoly) : option (list zpoly) :=
  match tbl with
  | [] => Some [[]]
  | (ct', s', c', r) :: rest =>
      if ct_eqb ct ct' && list_eqb (list_eqb zpt_eqb) s s' && list_eqb (list_eqb zpt_eqb) c c' then r else clipper_tbl rest ct s c
  end.
Definition fpt_bits_eq (a b : pt float) : bool := fbits_eq (px a) (px b) && fbits_eq (py a) (py b).
Definition fseg_bits_eq (a b : segment float) : bool :=
  match a, b with
  | SLine x, SLine y => fpt_bits_eq (l0 x) (l0 y) && fpt_bits_eq (l1 x) (l1 y)
  | SQuad x, SQuad y => fpt_bits_eq (q0 x) (q0 y) && fpt_bits_eq (q1 x) (q1 y) && fpt_bits_eq (q2 x) (q2 y)
  | SCubic x, SCubic y => fpt_bits_eq (c0 x) (c0 y) && fpt_bits_eq (c1 x) (c1 y) && fpt_bits_eq (c2 x) (c2 y) && fpt_bits_eq (c3 x) (c3 y)
  | _, _ => false
  end.
Fixpoint flatten_tbl (tbl : list (segment float * list (seg2 float))) (s : segment float) : option (list (seg2 float)) :=
  match tbl with [] => None | (k, v) :: r => if fseg_bits_eq k s then Some v else flatten_tbl r s end.
