(* Hand-written model of point containment in beziers.py:

     path/__init__.py, BezierPath.windingNumberOfPoint(pt):
         bounds = self.bounds()
         bounds.addMargin(10)
         ray1 = Line(Point(bounds.left, pt.y), pt)
         ray2 = Line(Point(bounds.right, pt.y), pt)
         leftIntersections = {}; rightIntersections = {}
         leftWinding = 0; rightWinding = 0
         for s in self.asSegments():
             for i in s.intersections(ray1): leftIntersections[i.point] = i
             for i in s.intersections(ray2): rightIntersections[i.point] = i
         for i in leftIntersections.values():
             tangent = i.seg1.tangentAtTime(i.t1)
             leftWinding += int(math.copysign(1, tangent.y))
         for i in rightIntersections.values():
             tangent = i.seg1.tangentAtTime(i.t1)
             rightWinding += int(math.copysign(1, tangent.y))
         return max(abs(leftWinding), abs(rightWinding))
     BezierPath.pointIsInside(pt):  li = self.windingNumberOfPoint(pt); return li % 2 == 1

     boundingbox.py, BoundingBox.addMargin(size):
         self.bl = self.bl + Point(-size, -size); self.tr = self.tr + Point(size, size)

     utils/intersectionsmixin.py, IntersectionsMixin.intersections(self, other, limited=True):
         if len(other.points) > len(self.points): self, other = other, self      (never taken: `other` is the ray, a Line)
         curve (3 or 4 points) x line -> self._curve_line_intersections(other)
         line x line                  -> self._line_line_intersections(other)
         withinRange(t): not (t < my_epsilon) and not (t > 1.0 + my_epsilon),   my_epsilon = 2e-7
         return [i for i in inter if withinRange(i.t1) and withinRange(i.t2)]

   The path is represented by the list returned by asSegments().  An Intersection object is the triple
   (t1, point, t2) produced by the generated kernels (point = seg1.pointAtTime(t1)); since the operands are never
   swapped, seg1 is the path's own segment and t1 its parameter, t2 the parameter on the ray.

   The two dicts are keyed by Point VALUES.  CPython finds an existing key iff the stored hash equals the new
   hash and (identity or stored_key.__eq__(new_key)).  Point.__hash__ is hash(x) << 32 ^ hash(y); hash equality
   of two floats is value equality (0.0 and -0.0 hash alike, a NaN hashes by identity), and the model ASSUMES the
   combination of the two coordinate hashes is injective on the pairs that occur.  So two keys collide iff their
   coordinates are equal as floats AND Point.__eq__ (1e-9 relative tolerance; false on infinities, whose difference
   is NaN) holds: [key_eq].  Assignment to an existing key REPLACES the value and keeps the first key's position
   in iteration order: [dict_set].  The dict value carries the segment the intersection was found on (i.seg1).

   The two inner loops of the segment loop fill two independent dicts; the model runs them as two separate folds
   (no value flows between them).  Python ints are Z.  An empty path makes addMargin raise TypeError (the corners
   are still None): [None].  Float division by zero inside the generated kernels raises ZeroDivisionError in
   Python and yields inf/NaN here (never the case for the horizontal rays built by windingNumberOfPoint from
   finite input with a non-degenerate ray, see Props/C11.v).
   Generic over the scalar carrier: executed on floats, reasoned about over R. *)
From Coq Require Import PrimFloat.
From Coq Require Import ZArith List Bool.
Import ListNotations.
From BZ Require Import Base.Ops Gen.Point Gen.BBox Gen.Line Gen.Quad Gen.Cubic Hand.Bounds.

Section Winding.
Context {T : Type} (O : Ops T).

(* an Intersection: (t1, point, t2) *)
Definition ixn : Type := (T * pt T * T)%type.
Definition ix_t1 (i : ixn) : T := fst (fst i).
Definition ix_point (i : ixn) : pt T := snd (fst i).
Definition ix_t2 (i : ixn) : T := snd i.

(* my_epsilon = 2e-7 *)
Definition my_epsilon : T := lit O 1 5000000 0x1.ad7f29abcaf48p-23%float.
Definition withinRange (t : T) : bool :=
  if ltb O t my_epsilon then false
  else if ltb O (add O (lit O 1 1 0x1p+0%float) my_epsilon) t then false
  else true.

(* s.intersections(ray), limited=True, for a path segment s and a Line ray *)
Definition seg_ray_raw (s : segment T) (ray : seg2 T) : list ixn :=
  match s with
  | SLine l => Line__line_line_intersections O l ray
  | SQuad q => Quad__curve_line_intersections O q ray
  | SCubic c => Cubic__curve_line_intersections O c ray
  end.
Definition seg_ray_intersections (s : segment T) (ray : seg2 T) : list ixn :=
  filter (fun i => withinRange (ix_t1 i) && withinRange (ix_t2 i)) (seg_ray_raw s ray).

(* dict keyed by Point value; the value is (i.seg1, i) *)
Definition key_eq (stored k : pt T) : bool :=
  eqb O (px stored) (px k) && eqb O (py stored) (py k) && Point___eq__ O stored k.
Definition hit : Type := (segment T * ixn)%type.
Fixpoint dict_set (d : list (pt T * hit)) (k : pt T) (v : hit) : list (pt T * hit) :=
  match d with
  | [] => [(k, v)]
  | (k', v') :: r => if key_eq k' k then (k', v) :: r else (k', v') :: dict_set r k v
  end.

(* for s in segments: for i in s.intersections(ray): d[i.point] = i *)
Definition collect_seg (ray : seg2 T) (d : list (pt T * hit)) (s : segment T) : list (pt T * hit) :=
  fold_left (fun d i => dict_set d (ix_point i) (s, i)) (seg_ray_intersections s ray) d.
Definition collect (segs : list (segment T)) (ray : seg2 T) : list (pt T * hit) :=
  fold_left (collect_seg ray) segs [].

Definition seg_tangentAtTime (s : segment T) (t : T) : pt T :=
  match s with
  | SLine l => Line_tangentAtTime O l t
  | SQuad q => Quad_tangentAtTime O q t
  | SCubic c => Cubic_tangentAtTime O c t
  end.

(* int(math.copysign(1, y)) *)
Definition sign_of (y : T) : Z :=
  if ltb O (copysign_ O (ofZ O 1) y) (ofZ O 0) then (-1)%Z else 1%Z.
Definition hit_sign (h : hit) : Z := sign_of (py (seg_tangentAtTime (fst h) (ix_t1 (snd h)))).

(* for i in d.values(): winding += int(copysign(1, i.seg1.tangentAtTime(i.t1).y)) *)
Definition winding_sum (d : list (pt T * hit)) : Z :=
  fold_left (fun w kv => (w + hit_sign (snd kv))%Z) d 0%Z.

(* BezierPath.bounds() from the segments *)
Fixpoint all_some {A : Type} (l : list (option A)) : option (list A) :=
  match l with
  | [] => Some []
  | None :: _ => None
  | Some a :: r => match all_some r with Some r' => Some (a :: r') | None => None end
  end.
Definition path_box (segs : list (segment T)) : option (bbox T) :=
  match all_some (map (segment_bounds O) segs) with
  | Some boxes => path_bounds O boxes
  | None => None
  end.

(* BoundingBox.addMargin(size), size a Python int *)
Definition addMargin (b : bbox T) (size : Z) : bbox T :=
  BB (Point___add__ O (bl b) (P (ofZ O (- size)) (ofZ O (- size))))
     (Point___add__ O (tr b) (P (ofZ O size) (ofZ O size))).

Definition rays (segs : list (segment T)) (p : pt T) : option (seg2 T * seg2 T) :=
  match path_box segs with
  | None => None
  | Some b0 =>
      let b := addMargin b0 10 in
      Some (L2 (P (BBox_left O b) (py p)) p, L2 (P (BBox_right O b) (py p)) p)
  end.

Definition windingNumberOfPoint (segs : list (segment T)) (p : pt T) : option Z :=
  match rays segs p with
  | None => None
  | Some (ray1, ray2) =>
      let leftWinding := winding_sum (collect segs ray1) in
      let rightWinding := winding_sum (collect segs ray2) in
      Some (Z.max (Z.abs leftWinding) (Z.abs rightWinding))
  end.

Definition pointIsInside (segs : list (segment T)) (p : pt T) : option bool :=
  match windingNumberOfPoint segs p with
  | None => None
  | Some li => Some (Z.eqb (li mod 2) 1)
  end.

End Winding.
