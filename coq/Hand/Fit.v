(* Hand-written model of beziers/utils/curvefitter.py (class CurveFit), in two layers.

   LAYER 1 (Section Skeleton): the recursion skeleton of fitCurve / _fitCurve over an ABSTRACT numeric core

       fit1 : list (pt T) -> option (pt T) -> option (pt T) -> fitres T
       ctan : list (pt T) -> Z -> option (pt T)                       (centerTangent; None = IndexError)

   [fit1 points tangent1 tangent2] packages everything one call of _fitCurve computes between
   `u = self.chordLengthParameterize(points)` and the end of the `for _ in range(0, maxIterations + 1)` loop:
   it is either an exception, or "degenerate" (`u[-1] == 0.0`), or the FINAL (bez, maxErrorRatio, splitPoint).
   The skeleton then tests `abs(maxErrorRatio) <= 1.0` once: this is equivalent to the Python text, because a fit
   accepted inside the loop is returned with |ratio| <= 1, and a fit that leaves the loop unaccepted has failed that
   very test in the last iteration.  Everything else is transcribed branch by branch:

       if len(points) == 0: return                       -> RNone
       if len(points) == 2: return [fitLine(...)]
       ...                                                  (fit1)
       if abs(maxErrorRatio) <= 1.0: return [bez]
       isCorner = maxErrorRatio < 0
       if isCorner:
           if splitPoint == 0:
               if tangent1 is None: splitPoint = splitPoint + 1
               else: return self._fitCurve(points, Point(0.0, 0.0), tangent2, ...)        (re-entry, same budget)
           elif splitPoint == len(points) - 1:
               if tangent2 is None: splitPoint = splitPoint - 1
               else: return self._fitCurve(points, tangent1, Point(0.0, 0.0), ...)
       if 1 < maxSegments:
           segmentsRemaining = maxSegments - 1
           if isCorner:
               if not (0 < splitPoint and splitPoint < len(points) - 1): return []
               recTHat1 = recTHat2 = Point(0.0, 0.0)
           else:
               recTHat2 = self.centerTangent(points, splitPoint); recTHat1 = recTHat2 * -1
           lPoints = points[: splitPoint + 1]; rPoints = points[splitPoint:]
           lbeziers = self._fitCurve(lPoints, tangent1, recTHat2, ..., segmentsRemaining)
           if lbeziers: segmentsRemaining = maxSegments - len(lbeziers)
           rbeziers = self._fitCurve(rPoints, recTHat1, tangent2, ..., segmentsRemaining)
           return lbeziers + rbeziers                     (None + list / list + None raise TypeError)
       else: return []

   `tangent1 is None` is an identity test: a zero Point is "not None"; Point defines neither __bool__ nor __len__,
   so `if tHat1:` / `if not tHat1:` are None tests too.  Tangents are therefore [option (pt T)].
   Python values None / list / exception are the three constructors of [pyres]; unbounded recursion (Python:
   RecursionError) is the pseudo-exception OutOfFuel.  Every call appends one [event] (its arguments and what it
   decided) to a log, in Python's call order; the log is what the correspondence compares with the traced calls of
   the real _fitCurve, and what the theorems about "no branch returned []" speak about.
   Slices and indices follow Python (negative values count from the end, slices clamp).

   LAYER 2 (Section Numerics): the numeric core transcribed operation by operation (same association, same order
   of float operations): B0..B3, fitLine, chordLengthParameterize, leftTangent, rightTangent, centerTangent,
   estimateLengths, estimateBi, generateBezier, newtonRaphsonFind, reparameterize, computeHook, computeMaxError,
   and [fit1_num], the instance of fit1.  Python float division raises ZeroDivisionError on a zero divisor: every
   division whose divisor is not a non-zero literal or guarded by a test is modelled with that exception
   (chordLengthParameterize `n / v`, computeHook `dist / allowed`, computeMaxError `/ tolerance`);
   math.sqrt(error + 1e-9) raises ValueError below zero.
   Point.toUnitVector, distanceFrom, lerp, rotate, __eq__, CubicBezier.pointAtTime / derivative,
   QuadraticBezier.pointAtTime / derivative, Line.pointAtTime are the GENERATED definitions (Gen/*.v).

   fitCurve's adjacent-duplicate filter appends x when `x.x != deduped[-1].x or x.y != deduped[-1].y` (float !=:
   0.0 and -0.0 are equal, NaN is unequal to everything).  (Until c16e58b it compared hash(x) with hash(deduped[-1]),
   and CPython has hash(-1.0) = hash(-2.0): see the Props header.) *)
From Coq Require Import PrimFloat.
From Coq Require Import ZArith List Bool.
Import ListNotations.
From BZ Require Import Base.Ops Gen.Point Gen.Line Gen.Quad Gen.Cubic.

Inductive exn := ZeroDivisionError | IndexError | TypeError | ValueError | OutOfFuel.
Inductive pyres (A : Type) := RNone | RList (l : list A) | RRaise (e : exn).
Arguments RNone {A}. Arguments RList {A}. Arguments RRaise {A}.

Inductive fitres (T : Type) :=
| FitRaise (e : exn)
| FitDegenerate                                        (* u[-1] == 0.0 : return [] *)
| FitOk (bez : seg4 T) (ratio : T) (sp : Z).          (* final bez, maxErrorRatio, splitPoint *)
Arguments FitRaise {T}. Arguments FitDegenerate {T}. Arguments FitOk {T}.

(* what one call of _fitCurve decided *)
Inductive decision (T : Type) :=
| DNone                                   (* len(points) == 0 *)
| DLine                                   (* len(points) == 2 *)
| DRaise (e : exn)                        (* an exception raised in this frame (not in a callee) *)
| DDegenerate                             (* return [] because u[-1] == 0.0 *)
| DAccept (r : T) (sp : Z)                (* abs(ratio) <= 1.0 *)
| DReenter1 (r : T) (sp : Z)              (* corner at 0, tangent1 not None: re-entry with tangent1 = Point(0,0) *)
| DReenter2 (r : T) (sp : Z)              (* corner at len-1, tangent2 not None *)
| DBadCorner (r : T) (sp : Z)             (* return [] : corner split index not strictly inside *)
| DNoBudget (r : T) (sp : Z)              (* the final else: return [] *)
| DSplit (corner : bool) (r : T) (sp : Z) (* sp after the corner adjustment *).
Arguments DNone {T}. Arguments DLine {T}. Arguments DRaise {T}. Arguments DDegenerate {T}. Arguments DAccept {T}.
Arguments DReenter1 {T}. Arguments DReenter2 {T}. Arguments DBadCorner {T}. Arguments DNoBudget {T}. Arguments DSplit {T}.

Record event (T : Type) := Ev { ev_n : nat; ev_t1 : option (pt T); ev_t2 : option (pt T); ev_budget : Z; ev_dec : decision T }.
Arguments Ev {T}. Arguments ev_n {T}. Arguments ev_t1 {T}. Arguments ev_t2 {T}. Arguments ev_budget {T}. Arguments ev_dec {T}.

(* ---------- Python list indexing and slicing ---------- *)
Definition norm_idx (n k : Z) : Z := if (k <? 0)%Z then Z.max 0 (k + n) else Z.min k n.
Definition slice_to {A} (l : list A) (k : Z) : list A := firstn (Z.to_nat (norm_idx (Z.of_nat (length l)) k)) l.   (* l[:k] *)
Definition slice_from {A} (l : list A) (k : Z) : list A := skipn (Z.to_nat (norm_idx (Z.of_nat (length l)) k)) l.  (* l[k:] *)
Definition py_nth {A} (l : list A) (k : Z) : option A :=                                                            (* l[k]; None = IndexError *)
  let n := Z.of_nat (length l) in
  let k' := if (k <? 0)%Z then (k + n)%Z else k in
  if (k' <? 0)%Z || (n <=? k')%Z then None else nth_error l (Z.to_nat k').

Definition is_some {A} (o : option A) : bool := match o with Some _ => true | None => false end.

(* lbeziers + rbeziers *)
Definition py_concat {A} (L R : pyres A) : pyres A :=
  match L, R with
  | RRaise e, _ => RRaise e
  | _, RRaise e => RRaise e
  | RList l, RList r => RList (l ++ r)
  | _, _ => RRaise TypeError
  end.

(* ====================================================================================================== *)
Section Skeleton.
Context {T : Type} (O : Ops T).
Variable fit1 : list (pt T) -> option (pt T) -> option (pt T) -> fitres T.
Variable ctan : list (pt T) -> Z -> option (pt T).

Definition f0 : T := lit O 0 1 0x0p+0%float.
Definition f1 : T := lit O 1 1 0x1p+0%float.
Definition f2 : T := lit O 2 1 0x1p+1%float.
Definition f3 : T := lit O 3 1 0x1.8p+1%float.
Definition zeroP : pt T := P f0 f0.                      (* Point(0.0, 0.0) *)

(* CurveFit.fitLine(data, tHat1, tHat2) with p0 = data[0], p3 = data[-1] *)
Definition fitLine (p0 p3 : pt T) (tHat1 tHat2 : option (pt T)) : seg4 T :=
  let dist := dvd O (Point_distanceFrom O p0 p3) f3 in
  let p1 := match tHat1 with
            | Some t => Point___add__ O p0 (Point___mul__ O t dist)
            | None => Point___truediv__ O (Point___add__ O (Point___mul__ O p0 f2) p3) f3 end in
  let p2 := match tHat2 with
            | Some t => Point___add__ O p3 (Point___mul__ O t dist)
            | None => Point___truediv__ O (Point___add__ O (Point___mul__ O p3 f2) p0) f3 end in
  C4 p0 p1 p2 p3.

Definition res : Type := (pyres (seg4 T) * list (event T))%type.

Fixpoint fitC (fuel : nat) (points : list (pt T)) (t1 t2 : option (pt T)) (maxSegments : Z) {struct fuel} : res :=
  match fuel with
  | 0%nat => (RRaise OutOfFuel, [])
  | S fuel' =>
    let ev d := Ev (length points) t1 t2 maxSegments d in
    match points with
    | [] => (RNone, [ev DNone])
    | [a; b] => (RList [fitLine a b t1 t2], [ev DLine])
    | _ =>
      match fit1 points t1 t2 with
      | FitRaise e => (RRaise e, [ev (DRaise e)])
      | FitDegenerate => (RList [], [ev DDegenerate])
      | FitOk bez r sp =>
        if leb O (abs_ O r) f1 then (RList [bez], [ev (DAccept r sp)]) else
        let isCorner := ltb O r (ofZ O 0) in
        let n := Z.of_nat (length points) in
        (* the `if isCorner:` block: either a re-entry (inr) or the adjusted split point (inl) *)
        let adj : Z + res :=
          if isCorner then
            if (sp =? 0)%Z then
              match t1 with
              | None => inl (sp + 1)%Z
              | Some _ => inr (let '(x, lg) := fitC fuel' points (Some zeroP) t2 maxSegments in (x, ev (DReenter1 r sp) :: lg))
              end
            else if (sp =? n - 1)%Z then
              match t2 with
              | None => inl (sp - 1)%Z
              | Some _ => inr (let '(x, lg) := fitC fuel' points t1 (Some zeroP) maxSegments in (x, ev (DReenter2 r sp) :: lg))
              end
            else inl sp
          else inl sp in
        match adj with
        | inr x => x
        | inl sp =>
          if (1 <? maxSegments)%Z then
            let tangents : option (option (pt T * pt T)) :=       (* None: return []; Some None: IndexError *)
              if isCorner then
                if negb ((0 <? sp)%Z && (sp <? n - 1)%Z) then None else Some (Some (zeroP, zeroP))
              else match ctan points sp with
                   | None => Some None
                   | Some t => Some (Some (Point___mul__ O t (ofZ O (-1)), t))
                   end in
            match tangents with
            | None => (RList [], [ev (DBadCorner r sp)])
            | Some None => (RRaise IndexError, [ev (DRaise IndexError)])
            | Some (Some (recTHat1, recTHat2)) =>
              let lPoints := slice_to points (sp + 1) in
              let rPoints := slice_from points sp in
              let '(L, lgL) := fitC fuel' lPoints t1 (Some recTHat2) (maxSegments - 1) in
              match L with
              | RRaise e => (RRaise e, ev (DSplit isCorner r sp) :: lgL)
              | _ =>
                let segmentsRemaining :=
                  match L with
                  | RList (x :: l) => (maxSegments - Z.of_nat (length (x :: l)))%Z
                  | _ => (maxSegments - 1)%Z
                  end in
                let '(R, lgR) := fitC fuel' rPoints (Some recTHat1) t2 segmentsRemaining in
                (py_concat L R, ev (DSplit isCorner r sp) :: lgL ++ lgR)
              end
            end
          else (RList [], [ev (DNoBudget r sp)])
        end
      end
    end
  end.

(* ---- fitCurve's adjacent-duplicate filter ---- *)
(* `x.x != deduped[-1].x or x.y != deduped[-1].y` *)
Definition pt_differs (x prev : pt T) : bool := neqb O (px x) (px prev) || neqb O (py x) (py prev).
(* `for x in data: if len(deduped) == 0 or <differs>: deduped.append(x)`; prev = deduped[-1] *)
Fixpoint dedup_from (prev : pt T) (l : list (pt T)) : list (pt T) :=
  match l with
  | [] => []
  | x :: r => if pt_differs x prev then x :: dedup_from x r else dedup_from prev r
  end.
Definition dedup (l : list (pt T)) : list (pt T) :=
  match l with [] => [] | x :: r => x :: dedup_from x r end.

Definition fitCurve_skel (fuel : nat) (data : list (pt T)) (maxSegments : Z) : res :=
  let d := dedup data in
  if (length d <? 2)%nat then (RNone, []) else fitC fuel d None None maxSegments.
End Skeleton.

(* ====================================================================================================== *)
Section Numerics.
Context {T : Type} (O : Ops T).
Notation f0 := (f0 O). Notation f1 := (f1 O). Notation f2 := (f2 O). Notation f3 := (f3 O).

(* module functions B0..B3; `3 * u` is int * float *)
Definition B0 (u : T) : T := mul O (mul O (sub O f1 u) (sub O f1 u)) (sub O f1 u).
Definition B1 (u : T) : T := mul O (mul O (mul O (ofZ O 3) u) (sub O f1 u)) (sub O f1 u).
Definition B2 (u : T) : T := mul O (mul O (mul O (ofZ O 3) u) u) (sub O f1 u).
Definition B3 (u : T) : T := mul O (mul O u u) u.

(* chordLengthParameterize: u = [0.0]; v = 0; for i in 1..: v += points[i].distanceFrom(points[i-1]); u.append(v);
   return [n / v for n in u]   -- None = ZeroDivisionError (v == 0; u is never empty) *)
Fixpoint cumdist (prev : pt T) (v : T) (l : list (pt T)) : list T :=
  match l with
  | [] => []
  | p :: r => let v' := add O v (Point_distanceFrom O p prev) in v' :: cumdist p v' r
  end.
Definition chordLengthParameterize (points : list (pt T)) : option (list T) :=
  let cs := match points with [] => [] | p0 :: rest => cumdist p0 (ofZ O 0) rest end in
  let v := last cs (ofZ O 0) in
  if eqb O v (ofZ O 0) then None else Some (map (fun n => dvd O n v) (f0 :: cs)).

(* leftTangent(data, tolerance); l = data[i:], d1 = data[1]; None = IndexError (len(data) < 2) *)
Fixpoint leftTangent_loop (d0 d1 : pt T) (tol : T) (l : list (pt T)) : option (pt T) :=
  match l with
  | [] => None
  | p :: r =>
    let t := Point___sub__ O p d0 in
    let distSq := Point_dot O t t in
    if ltb O tol distSq then Some (Point_toUnitVector O t)
    else match r with
         | [] => if eqb O distSq (ofZ O 0) then Some (Point_toUnitVector O (Point___sub__ O d1 d0))   (* _leftTangent *)
                 else Some (Point_toUnitVector O t)
         | _ => leftTangent_loop d0 d1 tol r
         end
  end.
Definition leftTangent (data : list (pt T)) (tol : T) : option (pt T) :=
  match data with d0 :: d1 :: r => leftTangent_loop d0 d1 tol (d1 :: r) | _ => None end.

(* rightTangent(data, tolerance): i runs from len-2 down to 1 (the loop leaves when i reaches 0, data[0] is never
   examined); l = the points data[i], data[i-1], ..., data[1]; dl = data[-1], dm = data[-2].
   Modelled for len(data) >= 3 (the only lengths _fitCurve passes); None otherwise *)
Fixpoint rightTangent_loop (dl dm : pt T) (tol : T) (l : list (pt T)) : option (pt T) :=
  match l with
  | [] => None
  | p :: r =>
    let t := Point___sub__ O p dl in
    let distSq := Point_dot O t t in
    if ltb O tol distSq then Some (Point_toUnitVector O t)
    else match r with
         | [] => if eqb O distSq (ofZ O 0) then Some (Point_toUnitVector O (Point___sub__ O dl dm))   (* _rightTangent *)
                 else Some (Point_toUnitVector O t)
         | _ => rightTangent_loop dl dm tol r
         end
  end.
Definition rightTangent (data : list (pt T)) (tol : T) : option (pt T) :=
  match rev data with dl :: dm :: rr => rightTangent_loop dl dm tol (removelast (dm :: rr)) | _ => None end.

(* centerTangent(data, center); None = IndexError.  data[center + 1] == data[center - 1] is Point.__eq__ (isclose) *)
Definition centerTangent (data : list (pt T)) (center : Z) : option (pt T) :=
  match py_nth data (center + 1), py_nth data (center - 1), py_nth data center with
  | Some dn, Some dp, Some dc =>
    if Point___eq__ O dn dp then
      let ret := Point___sub__ O dc dp in
      let ret := Point_rotate O ret (P (ofZ O 0) (ofZ O 0)) (dvd O (pi_ O) f2) in
      Some (Point_toUnitVector O ret)
    else Some (Point_toUnitVector O (Point___sub__ O dp dn))
  | _, _, _ => None
  end.

(* estimateLengths(data, u, tHat1, tHat2), d0 = data[0], dl = data[-1] *)
Definition el_step (d0 dl tHat1 tHat2 : pt T) (st : T * T * T * T * T) (cd : T * pt T) : T * T * T * T * T :=
  let '(C00, C01, C11, X0, X1) := st in
  let '(coeff, datum) := cd in
  let b0 := B0 coeff in let b1 := B1 coeff in let b2 := B2 coeff in let b3 := B3 coeff in
  let a1 := Point___mul__ O tHat1 b1 in
  let a2 := Point___mul__ O tHat2 b2 in
  let C00 := add O C00 (Point_dot O a1 a1) in
  let C01 := add O C01 (Point_dot O a1 a2) in
  let C11 := add O C11 (Point_dot O a2 a2) in
  let s1 := Point___mul__ O d0 (add O b0 b1) in
  let shortfall := Point___sub__ O datum s1 in
  let shortfall := Point___sub__ O shortfall (Point___mul__ O dl (add O b2 b3)) in
  let X0 := add O X0 (Point_dot O a1 shortfall) in
  let X1 := add O X1 (Point_dot O a2 shortfall) in
  (C00, C01, C11, X0, X1).
Definition estimateLengths (data : list (pt T)) (d0 dl : pt T) (u : list T) (tHat1 tHat2 : pt T) : seg4 T :=
  let '(C00, C01, C11, X0, X1) := fold_left (el_step d0 dl tHat1 tHat2) (combine u data) (f0, f0, f0, f0, f0) in
  let C10 := C01 in
  let det_C0_C1 := sub O (mul O C00 C11) (mul O C10 C01) in
  let '(alpha_l, alpha_r) :=
    if neqb O det_C0_C1 f0 then
      let det_C0_X := sub O (mul O C00 X1) (mul O C01 X0) in
      let det_X_C1 := sub O (mul O X0 C11) (mul O X1 C01) in
      (dvd O det_X_C1 det_C0_C1, dvd O det_C0_X det_C0_C1)
    else
      let c0 := add O C00 C01 in
      if neqb O c0 (ofZ O 0) then (dvd O X0 c0, dvd O X0 c0) else (f0, f0) in
  let eps := lit O 1 1000000 0x1.0c6f7a0b5ed8dp-20%float in
  let '(alpha_l, alpha_r) :=
    if ltb O alpha_l eps || ltb O alpha_r eps then
      let a := dvd O (Point_distanceFrom O dl d0) f3 in (a, a)
    else (alpha_l, alpha_r) in
  C4 d0 (Point___add__ O (Point___mul__ O tHat1 alpha_l) d0) (Point___add__ O (Point___mul__ O tHat2 alpha_r) dl) dl.

(* estimateBi(bez, data, u): sets bez[1] *)
Definition eb_step (bez : seg4 T) (st : T * T * T) (cd : T * pt T) : T * T * T :=
  let '(nx, ny, den) := st in
  let '(coeff, datum) := cd in
  let b0 := B0 coeff in let b1 := B1 coeff in let b2 := B2 coeff in let b3 := B3 coeff in
  let nx := add O nx (mul O b1 (sub O (add O (add O (mul O b0 (px (c0 bez))) (mul O b2 (px (c2 bez)))) (mul O b3 (px (c3 bez)))) (px datum))) in
  let ny := add O ny (mul O b1 (sub O (add O (add O (mul O b0 (py (c0 bez))) (mul O b2 (py (c2 bez)))) (mul O b3 (py (c3 bez)))) (py datum))) in
  let den := sub O den (mul O b1 b1) in
  (nx, ny, den).
Definition estimateBi (bez : seg4 T) (data : list (pt T)) (u : list T) : seg4 T :=
  let '(nx, ny, den) := fold_left (eb_step bez) (combine u data) (ofZ O 0, ofZ O 0, f0) in
  let b1 := if neqb O den f0 then Point___truediv__ O (P nx ny) den
            else Point_lerp O (c0 bez) (c3 bez) (dvd O (ofZ O 1) f3) in
  C4 (c0 bez) b1 (c2 bez) (c3 bez).

(* generateBezier(data, u, tHat1, tHat2, tolerance_sq); None = IndexError inside a tangent estimator *)
Definition generateBezier (data : list (pt T)) (d0 dl : pt T) (u : list T) (tHat1 tHat2 : option (pt T)) (tolsq : T) : option (seg4 T) :=
  match (match tHat1 with Some t => Some t | None => leftTangent data tolsq end) with
  | None => None
  | Some est1 =>
    match (match tHat2 with Some t => Some t | None => rightTangent data tolsq end) with
    | None => None
    | Some est2 =>
      let bez := estimateLengths data d0 dl u est1 est2 in
      match tHat1 with
      | Some _ => Some bez
      | None =>
        let bez := estimateBi bez data u in
        let est1 := if ltb O (lit O 1 4503599627370496 0x1p-52%float) (Point_distanceFrom O (c1 bez) (c0 bez))
                    then Point_toUnitVector O (Point___sub__ O (c1 bez) (c0 bez)) else est1 in
        Some (estimateLengths data d0 dl u est1 est2)
      end
    end
  end.

(* newtonRaphsonFind(bez, point, u); the `while True` loop runs at most 8 times (proportion 0.25 .. 1.125) *)
Fixpoint nr_loop (fuel : nat) (bez : seg4 T) (point : pt T) (u dist2 proportion improvedU : T) : option T :=
  match fuel with
  | 0%nat => None
  | S fuel' =>
    let proportion := add O proportion (lit O 1 8 0x1p-3%float) in
    let newDistance2 := Point_distanceFrom O point (Cubic_pointAtTime O bez improvedU) in
    if ltb O dist2 newDistance2 then
      if ltb O f1 proportion then Some u
      else nr_loop fuel' bez point u dist2 proportion
             (add O (mul O (sub O (ofZ O 1) proportion) improvedU) (mul O proportion u))
    else Some improvedU
  end.
Definition newtonRaphsonFind (bez : seg4 T) (point : pt T) (u : T) : option T :=
  let q0 := Cubic_pointAtTime O bez u in
  let q1 := Quad_pointAtTime O (Cubic_derivative O bez) u in
  let q2 := Line_pointAtTime O (Quad_derivative O (Cubic_derivative O bez)) u in
  let diff := Point___sub__ O q0 point in
  let numerator := Point_dot O diff q1 in
  let denominator := add O (Point_dot O q1 q1) (Point_dot O diff q2) in
  let improvedU :=
    if ltb O f0 denominator then sub O u (dvd O numerator denominator)
    else if ltb O f0 numerator then sub O (mul O u (lit O 98 100 0x1.f5c28f5c28f5cp-1%float)) (lit O 1 100 0x1.47ae147ae147bp-7%float)
    else if ltb O numerator f0 then add O (lit O 31 1000 0x1.fbe76c8b43958p-6%float) (mul O u (lit O 98 100 0x1.f5c28f5c28f5cp-1%float))
    else u in
  let improvedU := if ltb O improvedU (ofZ O 0) then ofZ O 0 else improvedU in
  let improvedU := if ltb O (ofZ O 1) improvedU then ofZ O 1 else improvedU in
  let dist2 := Point_distanceFrom O q0 point in
  nr_loop 10 bez point u dist2 (lit O 1 8 0x1p-3%float) improvedU.

(* reparameterize(bez, points, params): params[i] = newtonRaphsonFind(bez, points[i], params[i]) *)
Fixpoint reparameterize (bez : seg4 T) (points : list (pt T)) (params : list T) : option (list T) :=
  match points, params with
  | p :: ps, u :: us =>
    match newtonRaphsonFind bez p u, reparameterize bez ps us with
    | Some u', Some r => Some (u' :: r)
    | _, _ => None
    end
  | [], us => Some us
  | _ :: _, [] => None
  end.

(* computeHook; None = ZeroDivisionError (`dist / allowed`); `return 0` is the int 0 *)
Definition computeHook (ffrom to : pt T) (parameter : T) (bez : seg4 T) (cornerTolerance : T) : option T :=
  let p := Cubic_pointAtTime O bez parameter in
  let dist := Point_distanceFrom O p (Point_lerp O ffrom to (lit O 1 2 0x1p-1%float)) in
  if ltb O dist cornerTolerance then Some (ofZ O 0)
  else let allowed := add O (Point_distanceFrom O ffrom to) cornerTolerance in
       if eqb O allowed (ofZ O 0) then None else Some (dvd O dist allowed).

(* computeMaxError: the loop `for i in range(1, len(points))` over (points[i], params[i], params[i-1]) *)
Record cme_state := CS { cs_maxSq : T; cs_maxHook : T; cs_split : nat; cs_snap : nat; cs_prev : pt T }.
Fixpoint cme_loop (bez : seg4 T) (cT : T) (i : nat) (pts : list (pt T)) (ps : list T) (pprev : T) (st : cme_state) : option cme_state :=
  match pts, ps with
  | p :: pts', u :: ps' =>
    let cur := Cubic_pointAtTime O bez u in
    let distSq := Point_squareDistanceFrom O cur p in
    let '(maxSq, split) := if ltb O (cs_maxSq st) distSq then (distSq, i) else (cs_maxSq st, cs_split st) in
    match computeHook (cs_prev st) cur (dvd O (add O u pprev) f2) bez cT with
    | None => None
    | Some hookRatio =>
      let '(maxHook, snap) := if ltb O (cs_maxHook st) hookRatio then (hookRatio, i) else (cs_maxHook st, cs_snap st) in
      cme_loop bez cT (S i) pts' ps' u (CS maxSq maxHook split snap cur)
    end
  | _, _ => Some st
  end.
Definition computeMaxError (bez : seg4 T) (points : list (pt T)) (params : list T) (tolerance cT : T) : option (T * Z) :=
  match points, params with
  | _ :: pts, u0 :: ps =>
    match cme_loop bez cT 1 pts ps u0 (CS f0 f0 0 0 (c0 bez)) with
    | None => None
    | Some st =>
      if eqb O tolerance (ofZ O 0) then None else
      let distRatio := dvd O (sqrt_ O (cs_maxSq st)) tolerance in
      if leb O (cs_maxHook st) distRatio then Some (distRatio, Z.of_nat (cs_split st))
      else Some (neg O (cs_maxHook st), (Z.of_nat (cs_snap st) - 1)%Z)
    end
  | _, _ => None      (* not reached from _fitCurve: points and params are non-empty *)
  end.

(* the body of _fitCurve from chordLengthParameterize to the end of the iteration loop *)
Fixpoint fit_iter (k : nat) (points : list (pt T)) (d0 dl : pt T) (u : list T) (t1 t2 : option (pt T)) (error tolerance cT : T)
         (cur : seg4 T * T * Z) : fitres T :=
  match k with
  | 0%nat => let '(bez, r, sp) := cur in FitOk bez r sp
  | S k' =>
    match generateBezier points d0 dl u t1 t2 error with
    | None => FitRaise IndexError
    | Some bez =>
      match computeMaxError bez points u tolerance cT with
      | None => FitRaise ZeroDivisionError
      | Some (r, sp) => if leb O (abs_ O r) f1 then FitOk bez r sp else fit_iter k' points d0 dl u t1 t2 error tolerance cT (bez, r, sp)
      end
    end
  end.

Definition fit1_num (error cT : T) (points : list (pt T)) (t1 t2 : option (pt T)) : fitres T :=
  match chordLengthParameterize points with
  | None => FitRaise ZeroDivisionError
  | Some u =>
    if eqb O (last u f0) f0 then FitDegenerate else
    match points with
    | [] => FitRaise IndexError
    | d0 :: _ =>
      let dl := last points d0 in
      match generateBezier points d0 dl u t1 t2 error with
      | None => FitRaise IndexError
      | Some bez =>
        match reparameterize bez points u with
        | None => FitRaise OutOfFuel      (* not reached: len(u) = len(points), and the Newton loop ends within 8 < 10 rounds *)
        | Some u =>
          let s := add O error (lit O 1 1000000000 0x1.12e0be826d695p-30%float) in
          if ltb O s (ofZ O 0) then FitRaise ValueError else
          let tolerance := sqrt_ O s in
          match computeMaxError bez points u tolerance cT with
          | None => FitRaise ZeroDivisionError
          | Some (r, sp) =>
            if leb O (abs_ O r) f1 then FitOk bez r sp
            else if leb O f0 r && leb O r f3 then fit_iter 4 points d0 dl u t1 t2 error tolerance cT (bez, r, sp)
            else FitOk bez r sp
          end
        end
      end
    end
  end.

Definition fitCurve (fuel : nat) (data : list (pt T)) (error cT : T) (maxSegments : Z) : @res T :=
  fitCurve_skel O (fit1_num error cT) centerTangent fuel data maxSegments.
(* CurveFit._fitCurve(points, tangent1, tangent2, error, cornerTolerance, maxSegments) called directly *)
Definition fitCurve_inner (fuel : nat) (points : list (pt T)) (t1 t2 : option (pt T)) (error cT : T) (maxSegments : Z) : @res T :=
  fitC O (fit1_num error cT) centerTangent fuel points t1 t2 maxSegments.
End Numerics.

(* ---------- comparison helpers for the correspondence files (float instance) ---------- *)
Definition opt_pt_feq (a b : option (pt float)) : bool :=
  match a, b with None, None => true | Some x, Some y => pt_feq x y | _, _ => false end.
Definition exn_eqb (a b : exn) : bool :=
  match a, b with
  | ZeroDivisionError, ZeroDivisionError | IndexError, IndexError | TypeError, TypeError
  | ValueError, ValueError | OutOfFuel, OutOfFuel => true
  | _, _ => false
  end.
Definition dec_feq (a b : decision float) : bool :=
  match a, b with
  | DNone, DNone | DLine, DLine | DDegenerate, DDegenerate => true
  | DRaise e, DRaise e' => exn_eqb e e'
  | DAccept r s, DAccept r' s' | DReenter1 r s, DReenter1 r' s' | DReenter2 r s, DReenter2 r' s'
  | DBadCorner r s, DBadCorner r' s' | DNoBudget r s, DNoBudget r' s' => feq r r' && Z.eqb s s'
  | DSplit c r s, DSplit c' r' s' => Bool.eqb c c' && feq r r' && Z.eqb s s'
  | _, _ => false
  end.
Definition event_feq (a b : event float) : bool :=
  Nat.eqb (ev_n a) (ev_n b) && opt_pt_feq (ev_t1 a) (ev_t1 b) && opt_pt_feq (ev_t2 a) (ev_t2 b) &&
  Z.eqb (ev_budget a) (ev_budget b) && dec_feq (ev_dec a) (ev_dec b).
Definition pyres_feq (a b : pyres (seg4 float)) : bool :=
  match a, b with
  | RNone, RNone => true
  | RList l, RList l' => list_eqb seg4_feq l l'
  | RRaise e, RRaise e' => exn_eqb e e'
  | _, _ => false
  end.
(* result and call log agree; for unbounded recursion only the fact is compared *)
Definition res_feq (a b : pyres (seg4 float) * list (event float)) : bool :=
  match fst b with
  | RRaise OutOfFuel => pyres_feq (fst a) (fst b)
  | _ => pyres_feq (fst a) (fst b) && list_eqb event_feq (snd a) (snd b)
  end.
