(* Hand-written model of the bounding-box loops of beziers.py:

     boundingbox.py, BoundingBox.extend(other):
         if isinstance(other, Point):
             if not (self.bl): self.bl = other.clone()
             if not (self.tr): self.tr = other.clone()
             if other.x < self.bl.x: self.bl.x = other.x
             if other.y < self.bl.y: self.bl.y = other.y
             if other.x > self.tr.x: self.tr.x = other.x
             if other.y > self.tr.y: self.tr.y = other.y
         elif isinstance(other, BoundingBox):
             self.extend(other.bl); self.extend(other.tr)
         else:
             self.extend(other.bounds())

     segment.py, Segment.bounds():
         bounds = BoundingBox()
         ex = self.findExtremes(); ex.append(0); ex.append(1)
         for t in ex: bounds.extend(self.pointAtTime(t))
         return bounds

     path/__init__.py, BezierPath.bounds():
         bbox = BoundingBox()
         for seg in self.asSegments(): bbox.extend(seg)
         return bbox

   A BoundingBox whose corners are still None is represented by [None]; a Point is always truthy (the class defines
   neither __bool__ nor __len__), so both corners are set together by the first extension and never unset.
   `other.x > self.tr.x` is modelled by `ltb (tr.x) (other.x)` (identical on floats, NaN included).
   The 0 and 1 appended to the extreme list are Python ints: `ofZ O 0`, `ofZ O 1`.
   Generic over the scalar carrier, so the same text is executed on floats and reasoned about over R. *)
From Coq Require Import PrimFloat.
From Coq Require Import ZArith List Bool.
Import ListNotations.
From BZ Require Import Base.Ops Gen.Point Gen.BBox Gen.Line Gen.Quad Gen.Cubic.

Section Bounds.
Context {T : Type} (O : Ops T).

(* BoundingBox.extend(point) *)
Definition extend_pt (b : option (bbox T)) (p : pt T) : option (bbox T) :=
  match b with
  | None => Some (BB p p)
  | Some b =>
      let blx := if ltb O (px p) (px (bl b)) then px p else px (bl b) in
      let bly := if ltb O (py p) (py (bl b)) then py p else py (bl b) in
      let trx := if ltb O (px (tr b)) (px p) then px p else px (tr b) in
      let try_ := if ltb O (py (tr b)) (py p) then py p else py (tr b) in
      Some (BB (P blx bly) (P trx try_))
  end.

(* the loop `for t in ex: bounds.extend(self.pointAtTime(t))` on the already evaluated points *)
Definition bounds_of (pts : list (pt T)) : option (bbox T) := fold_left extend_pt pts None.

(* ex = self.findExtremes(); ex.append(0); ex.append(1) *)
Definition with_ends (ex : list T) : list T := ex ++ [ofZ O 0; ofZ O 1].

Definition Line_bounds (s : seg2 T) : option (bbox T) :=
  bounds_of (map (Line_pointAtTime O s) (with_ends (Line_findExtremes O s))).
Definition Quad_bounds (s : seg3 T) : option (bbox T) :=
  bounds_of (map (Quad_pointAtTime O s) (with_ends (Quad_findExtremes O s))).
Definition Cubic_bounds (s : seg4 T) : option (bbox T) :=
  bounds_of (map (Cubic_pointAtTime O s) (with_ends (Cubic_findExtremes_False O s))).

Definition segment_bounds (s : segment T) : option (bbox T) :=
  match s with
  | SLine l => Line_bounds l
  | SQuad q => Quad_bounds q
  | SCubic c => Cubic_bounds c
  end.

(* BoundingBox.extend(box): extend by its bl, then by its tr *)
Definition extend_box (b : option (bbox T)) (o : bbox T) : option (bbox T) :=
  extend_pt (extend_pt b (bl o)) (tr o).

(* BezierPath.bounds() on the already computed boxes of the path's segments *)
Definition path_bounds (boxes : list (bbox T)) : option (bbox T) := fold_left extend_box boxes None.

End Bounds.
