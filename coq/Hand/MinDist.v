(* Hand-written model of beziers/utils/curvedistance.py: MinimumCurveDistanceFinder.minDist, curveDistance,
   of beziers/utils/samplemixin.py: SampleMixin.sample, and of beziers/path/__init__.py: BezierPath.distanceToPath.

   The arithmetic (S(u,v), the table of D(r,k)) is NOT written here: it is the generated Gen/CurveDist.v.  What is
   transcribed by hand is the control flow:

     def minDist(self, uinterval=(0, 1), vinterval=(0, 1), epsilon=0.001):
         n = len(self.bez1) - 1;  m = len(self.bez2) - 1
         self.iterations = self.iterations + 1
         umin, umax = uinterval;  vmin, vmax = vinterval
         umid = (umin + umax) / 2;  vmid = (vmin + vmax) / 2
         svalues = [[S(umin,vmin),umin,vmin], [S(umin,vmax),umin,vmax], [S(umax,vmin),umax,vmin], [S(umax,vmax),umax,vmax]]
         alpha = min(svalues, key=lambda x: x[0])[0]                 # first minimal element
         if self.bestAlpha and alpha > self.bestAlpha: return [alpha, umid, vmid]   # None and 0.0 are both "no best yet"
         self.bestAlpha = alpha
         if abs(umax - umin) <= epsilon or abs(vmax - vmin) <= epsilon: return [alpha, umid, vmid]
         isOutside = True; minDRK = None; minIJ = (None, None)
         for r in range(0, 2 * n):                                     # last index excluded
             for k in range(0, 2 * m):
                 drk = self.D(r, k)
                 if drk < alpha: isOutside = False
                 if not minDRK or drk < minDRK: minDRK = drk; minIJ = (r, k)        # 0.0 is "unset"
         if isOutside: return [alpha, umid, vmid]
         four flags, all True; for i in range(0, 2n): for j in range(0, 2m):
                 dij = D(i,j); if dij < D(0,j): f01 = False; if dij < D(2n,j): f11 = False
                               if dij < D(i,0): f02 = False; if dij < D(i,2n): f12 = False      # (sic: 2n, not 2m)
         if f01 and f02: return svalues[0] ... if f11 and f12: return svalues[3]
         newuMid = umin + (umax - umin) * (minIJ[0] / (2 * n));  newvMid = vmin + (vmax - vmin) * (minIJ[1] / (2 * m))
         r1 = minDist((umin,newuMid),(vmin,newvMid)); r2 = minDist((umin,newuMid),(newvMid,vmax))
         r3 = minDist((newuMid,umax),(vmin,newvMid)); r4 = minDist((newuMid,umax),(newvMid,vmax))
         return min([r1, r2, r3, r4], key=lambda x: x[0])              # first minimal element

   Modelling decisions:
   - the memo tables dCache/sCache are semantically transparent and omitted; S and D are parameters
     ([S u v : option T], [D r k : option T]; [None] = the value is not available: an index outside the generated D
     table, or a key missing from a recorded oracle table in the correspondence check) and [None] is an ERROR result;
   - the mutable attributes self.bestAlpha (None initially) and self.iterations are threaded through the recursive
     calls in program order as the state [(bestAlpha, iterations)];
   - Python's recursion is given explicit fuel = maximal recursion depth; running out is the result [OutOfFuel]
     (CPython: RecursionError), never a normal value;
   - curveDistance returns math.sqrt(max(dist, 0.0)): Python's max keeps `dist` unless 0.0 > dist (so NaN and -0.0 pass
     through, as in Base/Ops.v max2); the argument of math.sqrt is then never negative, so no ValueError outcome exists;
   - `minIJ[0] / (2*n)` with minIJ = (None, None) (only possible when a loop range is empty) is [NoneErr] (TypeError);
   - in distanceToPath: min([]) is [EmptyErr] (ValueError), `closestPair` unbound is [UnboundErr] (UnboundLocalError),
     the `while t <= 1.0` loop of sample has fuel, exhaustion = [OutOfFuel]. *)
From Coq Require Import PrimFloat.
From Coq Require Import ZArith List Bool.
Import ListNotations.
From BZ Require Import Base.Ops Gen.Point Gen.Line Gen.Quad Gen.Cubic Gen.CurveDist.

Inductive res (A : Type) : Type :=
| Ok (a : A) | OutOfFuel | IndexErr | NoneErr | EmptyErr | UnboundErr.
Arguments Ok {A}. Arguments OutOfFuel {A}. Arguments IndexErr {A}. Arguments NoneErr {A}.
Arguments EmptyErr {A}. Arguments UnboundErr {A}.

Definition res_map {A B : Type} (f : A -> res B) (r : res A) : res B :=
  match r with
  | Ok a => f a | OutOfFuel => OutOfFuel | IndexErr => IndexErr | NoneErr => NoneErr
  | EmptyErr => EmptyErr | UnboundErr => UnboundErr
  end.
Definition of_opt {A : Type} (o : option A) : res A := match o with Some a => Ok a | None => IndexErr end.

(* the generated table of D(r,k) read as a function; an index outside the table is an error, not a default *)
Definition Dtab {T : Type} (tbl : list (list T)) (r k : nat) : option T :=
  match nth_error tbl r with Some row => nth_error row k | None => None end.

Section MinDist.
Context {T : Type} (O : Ops T).

(* Python truthiness of an optional float: None and 0.0 (and -0.0) are false, everything else (NaN included) true *)
Definition truthy (x : option T) : bool :=
  match x with None => false | Some b => negb (eqb O b (ofZ O 0)) end.

(* min(lst, key=...) over two candidates keeps the first unless the second is strictly smaller *)
Definition pick3 (a b : T * T * T) : T * T * T :=
  if ltb O (fst (fst b)) (fst (fst a)) then b else a.

Definition eps_default : T := lit O 1 1000 0x1.0624dd2f1a9fcp-10%float.

(* range(0, 2n) x range(0, 2m) in row-major order *)
Definition index_pairs (n m : nat) : list (nat * nat) :=
  flat_map (fun r => map (fun k => (r, k)) (seq 0 (2 * m))) (seq 0 (2 * n)).

Section Finder.
Variables (n m : nat) (S : T -> T -> option T) (D : nat -> nat -> option T).

(* "Property 1" loop: (isOutside, minDRK, minIJ) *)
Definition p1_state := (bool * option T * option (nat * nat))%type.
Definition p1_step (alpha : T) (st : res p1_state) (rk : nat * nat) : res p1_state :=
  match st with
  | Ok (isOut, minD, minIJ) =>
    match D (fst rk) (snd rk) with
    | None => IndexErr
    | Some drk =>
      let isOut' := if ltb O drk alpha then false else isOut in
      if negb (truthy minD) || (match minD with Some mv => ltb O drk mv | None => false end)
      then Ok (isOut', Some drk, Some rk)
      else Ok (isOut', minD, minIJ)
    end
  | e => e
  end.

(* "Property 2" loop: (atBoundary0onBez1, atBoundary1onBez1, atBoundary0onBez2, atBoundary1onBez2) *)
Definition p2_state := (bool * bool * bool * bool)%type.
Definition p2_step (st : res p2_state) (ij : nat * nat) : res p2_state :=
  match st with
  | Ok (f01, f11, f02, f12) =>
    match D (fst ij) (snd ij), D 0 (snd ij), D (2 * n) (snd ij), D (fst ij) 0, D (fst ij) (2 * n) with
    | Some dij, Some d0j, Some dnj, Some di0, Some din =>
      Ok (if ltb O dij d0j then false else f01, if ltb O dij dnj then false else f11,
          if ltb O dij di0 then false else f02, if ltb O dij din then false else f12)
    | _, _, _, _, _ => IndexErr
    end
  | e => e
  end.

(* self.bestAlpha, self.iterations *)
Definition state := (option T * nat)%type.

Definition minDist_body (rec : state -> T -> T -> T -> T -> res (T * T * T) * state)
    (st : state) (umin umax vmin vmax : T) : res (T * T * T) * state :=
  let st0 : state := (fst st, Datatypes.S (snd st)) in
  let umid := dvd O (add O umin umax) (ofZ O 2) in
  let vmid := dvd O (add O vmin vmax) (ofZ O 2) in
  match S umin vmin, S umin vmax, S umax vmin, S umax vmax with
  | Some s00, Some s01, Some s10, Some s11 =>
    let alpha := min2 O (min2 O (min2 O s00 s01) s10) s11 in
    if truthy (fst st0) && (match fst st0 with Some b => ltb O b alpha | None => false end)
    then (Ok (alpha, umid, vmid), st0)
    else
      let st1 : state := (Some alpha, snd st0) in
      if leb O (abs_ O (sub O umax umin)) eps_default || leb O (abs_ O (sub O vmax vmin)) eps_default
      then (Ok (alpha, umid, vmid), st1)
      else
        match fold_left (p1_step alpha) (index_pairs n m) (Ok (true, None, None)) with
        | Ok (isOut, _, minIJ) =>
          if isOut then (Ok (alpha, umid, vmid), st1)
          else
            match fold_left p2_step (index_pairs n m) (Ok (true, true, true, true)) with
            | Ok (f01, f11, f02, f12) =>
              if f01 && f02 then (Ok (s00, umin, vmin), st1)
              else if f01 && f12 then (Ok (s01, umin, vmax), st1)
              else if f11 && f02 then (Ok (s10, umax, vmin), st1)
              else if f11 && f12 then (Ok (s11, umax, vmax), st1)
              else
                match minIJ with
                | None => (NoneErr, st1)
                | Some (i, j) =>
                  let newu := add O umin (mul O (sub O umax umin) (dvd O (ofZ O (Z.of_nat i)) (ofZ O (Z.of_nat (2 * n))))) in
                  let newv := add O vmin (mul O (sub O vmax vmin) (dvd O (ofZ O (Z.of_nat j)) (ofZ O (Z.of_nat (2 * m))))) in
                  let '(r1, st2) := rec st1 umin newu vmin newv in
                  match r1 with
                  | Ok x1 =>
                    let '(r2, st3) := rec st2 umin newu newv vmax in
                    match r2 with
                    | Ok x2 =>
                      let '(r3, st4) := rec st3 newu umax vmin newv in
                      match r3 with
                      | Ok x3 =>
                        let '(r4, st5) := rec st4 newu umax newv vmax in
                        match r4 with
                        | Ok x4 => (Ok (pick3 (pick3 (pick3 x1 x2) x3) x4), st5)
                        | e => (e, st5)
                        end
                      | e => (e, st4)
                      end
                    | e => (e, st3)
                    end
                  | e => (e, st2)
                  end
                end
            | OutOfFuel => (OutOfFuel, st1) | IndexErr => (IndexErr, st1) | NoneErr => (NoneErr, st1)
            | EmptyErr => (EmptyErr, st1) | UnboundErr => (UnboundErr, st1)
            end
        | OutOfFuel => (OutOfFuel, st1) | IndexErr => (IndexErr, st1) | NoneErr => (NoneErr, st1)
        | EmptyErr => (EmptyErr, st1) | UnboundErr => (UnboundErr, st1)
        end
  | _, _, _, _ => (IndexErr, st0)
  end.

Fixpoint minDist (fuel : nat) (st : state) (umin umax vmin vmax : T) {struct fuel} : res (T * T * T) * state :=
  match fuel with
  | 0%nat => (OutOfFuel, st)
  | Datatypes.S fuel' => minDist_body (minDist fuel') st umin umax vmin vmax
  end.

(* c = MinimumCurveDistanceFinder(bez1, bez2); dist, t1, t2 = c.minDist(); return math.sqrt(max(dist, 0.0)), t1, t2
   (the final state is returned as well: it is compared with the real object's attributes by the correspondence) *)
Definition curveDistance_state (fuel : nat) : res (T * T * T) * state :=
  let '(r, st) := minDist fuel (None, 0%nat) (ofZ O 0) (ofZ O 1) (ofZ O 0) (ofZ O 1) in
  (res_map (fun x : T * T * T => let '(alpha, t1, t2) := x in
                                 Ok (sqrt_ O (max2 O alpha (lit O 0 1 0%float)), t1, t2)) r, st).
Definition curveDistance_with (fuel : nat) : res (T * T * T) := fst (curveDistance_state fuel).
End Finder.

(* ---------- the finder of a concrete pair of segments: n = len(bez1) - 1, m = len(bez2) - 1 ---------- *)
Definition seg_order (s : segment T) : nat := match s with SLine _ => 1 | SQuad _ => 2 | SCubic _ => 3 end.
Definition seg_point (s : segment T) (t : T) : pt T :=
  match s with SLine l => Line_pointAtTime O l t | SQuad q => Quad_pointAtTime O q t | SCubic c => Cubic_pointAtTime O c t end.
Definition seg_S (s1 s2 : segment T) (u v : T) : T :=
  match s1, s2 with
  | SLine a, SLine b => curvedistance_S_2_2 O a b u v | SLine a, SQuad b => curvedistance_S_2_3 O a b u v
  | SLine a, SCubic b => curvedistance_S_2_4 O a b u v
  | SQuad a, SLine b => curvedistance_S_3_2 O a b u v | SQuad a, SQuad b => curvedistance_S_3_3 O a b u v
  | SQuad a, SCubic b => curvedistance_S_3_4 O a b u v
  | SCubic a, SLine b => curvedistance_S_4_2 O a b u v | SCubic a, SQuad b => curvedistance_S_4_3 O a b u v
  | SCubic a, SCubic b => curvedistance_S_4_4 O a b u v
  end.
Definition seg_Dtable (s1 s2 : segment T) : list (list T) :=
  match s1, s2 with
  | SLine a, SLine b => curvedistance_D_2_2 O a b | SLine a, SQuad b => curvedistance_D_2_3 O a b
  | SLine a, SCubic b => curvedistance_D_2_4 O a b
  | SQuad a, SLine b => curvedistance_D_3_2 O a b | SQuad a, SQuad b => curvedistance_D_3_3 O a b
  | SQuad a, SCubic b => curvedistance_D_3_4 O a b
  | SCubic a, SLine b => curvedistance_D_4_2 O a b | SCubic a, SQuad b => curvedistance_D_4_3 O a b
  | SCubic a, SCubic b => curvedistance_D_4_4 O a b
  end.

Definition curveDistance (fuel : nat) (s1 s2 : segment T) : res (T * T * T) :=
  curveDistance_with (seg_order s1) (seg_order s2) (fun u v => Some (seg_S s1 s2 u v)) (Dtab (seg_Dtable s1 s2)) fuel.

(* ---------- SampleMixin.sample(samples) on a segment ----------
     step = 1.0 / float(samples); t = 0.0; samples = []
     while t <= 1.0: samples.append(self.pointAtTime(t)); t += step
     if t != 1.0: samples.append(self.pointAtTime(1))                                        *)
Fixpoint sample_times (fuel : nat) (t step : T) : option (list T) :=
  match fuel with
  | 0%nat => None
  | Datatypes.S f =>
    if leb O t (ofZ O 1)
    then match sample_times f (add O t step) step with Some l => Some (t :: l) | None => None end
    else Some (if neqb O t (ofZ O 1) then [ofZ O 1] else [])
  end.
Definition sample (fuel : nat) (samples : Z) (s : segment T) : option (list (pt T)) :=
  match sample_times fuel (ofZ O 0) (dvd O (ofZ O 1) (ofZ O samples)) with
  | Some ts => Some (map (seg_point s) ts)
  | None => None
  end.

(* builtin min of a list of floats: first minimal element; min([]) raises *)
Definition list_min (l : list T) : res T :=
  match l with [] => EmptyErr | x :: r => Ok (fold_left (min2 O) r x) end.

(* ---------- BezierPath.distanceToPath(other, samples=10) on the two segment lists ----------
     minDistance = None
     for s1 in segs1:
         samples1 = s1.sample(samples)
         for s2 in segs2:
             samples2 = s2.sample(samples)
             d = min([p1.squareDistanceFrom(p2) for p1 in samples1 for p2 in samples2])
             if not minDistance or d < minDistance: minDistance = d; closestPair = (s1, s2)
     c = curveDistance(closestPair[0], closestPair[1])
     return (c[0], c[1], c[2], closestPair[0], closestPair[1])                              *)
Definition pair_state := (option T * option (segment T * segment T))%type.
Definition pair_step (sfuel : nat) (samples : Z) (s1 : segment T) (st : res pair_state) (s2 : segment T) : res pair_state :=
  match st with
  | Ok (minDistance, closest) =>
    match sample sfuel samples s1, sample sfuel samples s2 with
    | Some samples1, Some samples2 =>
      match list_min (flat_map (fun p1 => map (fun p2 => Point_squareDistanceFrom O p1 p2) samples2) samples1) with
      | Ok d =>
        if negb (truthy minDistance) || (match minDistance with Some md => ltb O d md | None => false end)
        then Ok (Some d, Some (s1, s2))
        else Ok (minDistance, closest)
      | OutOfFuel => OutOfFuel | IndexErr => IndexErr | NoneErr => NoneErr
      | EmptyErr => EmptyErr | UnboundErr => UnboundErr
      end
    | _, _ => OutOfFuel
    end
  | e => e
  end.
Definition closest_pair (sfuel : nat) (samples : Z) (segs1 segs2 : list (segment T)) : res pair_state :=
  fold_left (fun st s1 => fold_left (pair_step sfuel samples s1) segs2 st) segs1 (Ok (None, None)).

Definition distanceToPath_gen (cd : segment T -> segment T -> res (T * T * T)) (sfuel : nat) (samples : Z)
    (segs1 segs2 : list (segment T)) : res (T * T * T * segment T * segment T) :=
  res_map (fun st : pair_state =>
    match snd st with
    | None => UnboundErr
    | Some (s1, s2) => res_map (fun c : T * T * T => let '(d, t1, t2) := c in Ok (d, t1, t2, s1, s2)) (cd s1 s2)
    end) (closest_pair sfuel samples segs1 segs2).

Definition distanceToPath (fuel : nat) (segs1 segs2 : list (segment T)) : res (T * T * T * segment T * segment T) :=
  distanceToPath_gen (curveDistance fuel) 32 10 segs1 segs2.
End MinDist.
