(* Hand-written heap / object model of the path operations of beziers.py (property C07):
     beziers/path/__init__.py   BezierPath.{fromSegments, fromNodelist, asSegments, asNodelist, clone, round, splitAtPoints,
                                addExtremes, append, reverse, translate, rotate, scale, balance, flatten,
                                quadraticsToCubics, removeIrrelevantSegments, length}
     beziers/path/representations/Segment.py  SegmentRepresentation.__init__ (the `if segments:` re-wrap rule)
     beziers/segment.py         Segment.{clone, round, __eq__, __hash__, __setitem__}
     beziers/cubicbezier.py     CubicBezier.{balance, tunniPoint, flatten};  quadraticbezier.py QuadraticBezier.flatten;
     beziers/line.py            Line.flatten.
   What is an OBJECT here: Python list objects (the `segments` list of a SegmentRepresentation), Segment objects
   (kind + control points + the `_orig` attribute of a Line) and BezierPath objects (activeRepresentation, closed).
   Points are VALUES: none of the listed operations mutates a Point in place (Point.rotate / Point.transform are only
   applied to fresh clones inside Segment.rotated / transformed; __iadd__/__isub__ are only used by harmonize, which is
   not a listed operation), although Point objects are shared freely (split, reversed, toCubicBezier, `this[0] = prev[0]`).
   The search stage of tools/props/C07.py re-checks this claim on every step (no pre-existing Point changes coordinates).
   Node lists are values too (no listed operation mutates a node list in place).
   Numbers come from the generated kernels (Gen/*.v).  Python exceptions are the value [OErr]; the state returned with
   [OErr] is the state at the moment the exception is raised (only representation switches can have happened).
   Not modelled: NaN / infinite coordinates (int(nan), math.cos(inf) raise), non-finite arguments.
   Generic over the scalar carrier, executable by vm_compute. *)
From Coq Require Import PrimFloat.
From Coq Require Import ZArith List Bool Arith.
Import ListNotations.
From BZ Require Import Base.Ops Gen.Utils Gen.Point Gen.Line Gen.Quad Gen.Cubic Hand.Nodelist.

(* ---------- objects ---------- *)
Record segobj (T : Type) := SO { so_seg : segment T; so_orig : option nat }.   (* _orig: id of a segment object *)
Arguments SO {T}. Arguments so_seg {T}. Arguments so_orig {T}.
Inductive hrep (T : Type) := HSeg (lid : nat) | HNode (nl : list (node T)).
Arguments HSeg {T}. Arguments HNode {T}.
Record hpath (T : Type) := HP { hp_rep : hrep T; hp_closed : bool }.
Arguments HP {T}. Arguments hp_rep {T}. Arguments hp_closed {T}.
Record state (T : Type) := ST {
  st_lists : nat -> option (list nat);      (* list object id -> ids of the segment objects it holds *)
  st_segs  : nat -> option (segobj T);
  st_paths : nat -> option (hpath T);
  st_nl : nat; st_ns : nat; st_np : nat     (* allocation counters: every id >= counter is unused *)
}.
Arguments ST {T}. Arguments st_lists {T}. Arguments st_segs {T}. Arguments st_paths {T}.
Arguments st_nl {T}. Arguments st_ns {T}. Arguments st_np {T}.

Inductive out := ONone | ONew (pid : nat) | OErr.

Definition upd {A : Type} (m : nat -> option A) (k : nat) (v : A) : nat -> option A :=
  fun k' => if Nat.eqb k' k then Some v else m k'.

(* ---------- operations (the argument [nat] is always the id of the receiver path) ---------- *)
Inductive op (T : Type) :=
| OTranslate (p : nat) (v : pt T)
| ORotate (p : nat) (about : pt T) (angle : T)
| OScale (p : nat) (by_ : T)
| OReverse (p : nat)
| OAddExtremes (p : nat)
| OSplit (p : nat) (cuts : list (nat * T))          (* [(path.asSegments()[i], t) for (i, t) in cuts] *)
| OBalance (p : nat)
| ORound (p : nat)
| OQ2C (p : nat)
| ORemove (p : nat) (relLength absLength : T)
| OFlatten (p : nat) (degree : T) (samples : list (list (pt T)))   (* per segment position: the sampled points (oracle) *)
| OAppend (p q : nat)
| OClone (p : nat)
| OAsNodelist (p : nat)
| OAsSegments (p : nat)
| OFromSegments (p : nat)                            (* BezierPath.fromSegments(p.asSegments()) *)
| OFromNodelist (p : nat).                           (* BezierPath.fromNodelist(p.asNodelist(), closed=p.closed) *)
Arguments OTranslate {T}. Arguments ORotate {T}. Arguments OScale {T}. Arguments OReverse {T}. Arguments OAddExtremes {T}.
Arguments OSplit {T}. Arguments OBalance {T}. Arguments ORound {T}. Arguments OQ2C {T}. Arguments ORemove {T}.
Arguments OFlatten {T}. Arguments OAppend {T}. Arguments OClone {T}. Arguments OAsNodelist {T}. Arguments OAsSegments {T}.
Arguments OFromSegments {T}. Arguments OFromNodelist {T}.

Definition receiver {T} (o : op T) : nat :=
  match o with
  | OTranslate p _ | ORotate p _ _ | OScale p _ | OReverse p | OAddExtremes p | OSplit p _ | OBalance p | ORound p
  | OQ2C p | ORemove p _ _ | OFlatten p _ _ | OAppend p _ | OClone p | OAsNodelist p | OAsSegments p
  | OFromSegments p | OFromNodelist p => p
  end.

Section Heap.
Context {T : Type} (O : Ops T).
Notation state := (state T). Notation segobj := (segobj T). Notation hpath := (hpath T).

(* ---------- segment-level kernels (dispatch on the class) ---------- *)
Definition seg_translated (s : segment T) (v : pt T) : segment T :=
  match s with SLine l => SLine (Line_translated O l v) | SQuad q => SQuad (Quad_translated O q v)
             | SCubic c => SCubic (Cubic_translated O c v) end.
Definition seg_rotated (s : segment T) (about : pt T) (a : T) : segment T :=
  match s with SLine l => SLine (Line_rotated O l about a) | SQuad q => SQuad (Quad_rotated O q about a)
             | SCubic c => SCubic (Cubic_rotated O c about a) end.
Definition seg_scaled (s : segment T) (k : T) : segment T :=
  match s with SLine l => SLine (Line_scaled O l k) | SQuad q => SQuad (Quad_scaled O q k)
             | SCubic c => SCubic (Cubic_scaled O c k) end.
Definition seg_reversed (s : segment T) : segment T :=
  match s with SLine l => SLine (Line_reversed O l) | SQuad q => SQuad (Quad_reversed O q)
             | SCubic c => SCubic (Cubic_reversed O c) end.
Definition seg_split (s : segment T) (t : T) : segment T * segment T :=
  match s with
  | SLine l => let '(a, b) := Line_splitAtTime O l t in (SLine a, SLine b)
  | SQuad q => let '(a, b) := Quad_splitAtTime O q t in (SQuad a, SQuad b)
  | SCubic c => let '(a, b) := Cubic_splitAtTime O c t in (SCubic a, SCubic b)
  end.
Definition seg_extremes (s : segment T) : list T :=
  match s with SLine l => Line_findExtremes O l | SQuad q => Quad_findExtremes O q | SCubic c => Cubic_findExtremes_False O c end.
Definition seg_length (s : segment T) : T :=
  match s with SLine l => Line_length O l | SQuad q => Quad_length O q | SCubic c => Cubic_length O c end.
(* Segment.round: self.points = [p.rounded() for p in self.points] *)
Definition seg_rounded (s : segment T) : segment T :=
  match s with
  | SLine (L2 a b) => SLine (L2 (Point_rounded O a) (Point_rounded O b))
  | SQuad (Q3 a b c) => SQuad (Q3 (Point_rounded O a) (Point_rounded O b) (Point_rounded O c))
  | SCubic (C4 a b c d) => SCubic (C4 (Point_rounded O a) (Point_rounded O b) (Point_rounded O c) (Point_rounded O d))
  end.
(* Segment.clone: a new object of the same class built from p.clone() for each point *)
Definition seg_clone (s : segment T) : segment T :=
  match s with
  | SLine (L2 a b) => SLine (L2 (Point_clone O a) (Point_clone O b))
  | SQuad (Q3 a b c) => SQuad (Q3 (Point_clone O a) (Point_clone O b) (Point_clone O c))
  | SCubic (C4 a b c d) => SCubic (C4 (Point_clone O a) (Point_clone O b) (Point_clone O c) (Point_clone O d))
  end.
(* seg[0] = p *)
Definition seg_set_start (s : segment T) (p : pt T) : segment T :=
  match s with
  | SLine (L2 _ b) => SLine (L2 p b)
  | SQuad (Q3 _ b c) => SQuad (Q3 p b c)
  | SCubic (C4 _ b c d) => SCubic (C4 p b c d)
  end.
Definition is_line (s : segment T) : bool := match s with SLine _ => true | _ => false end.
(* s.toCubicBezier() if len(s) == 3 *)
Definition seg_q2c (s : segment T) : option (segment T) :=
  match s with SQuad q => Some (SCubic (Quad_toCubicBezier O q)) | _ => None end.

(* CubicBezier.tunniPoint *)
Definition tunni (c : seg4 T) : option (pt T) :=
  let h1 := L2 (c0 c) (c1 c) in
  let h2 := L2 (c2 c) (c3 c) in
  match Line__line_line_intersections O h1 h2 with
  | [] => None
  | (_, p, _) :: _ =>
      if ltb O (mul O (ofZ O 5) (Cubic_length O c)) (Point_distanceFrom O p (c0 c)) then None else Some p
  end.
(* CubicBezier.balance (the new value of the object) *)
Definition cubic_balanced (c : seg4 T) : seg4 T :=
  match tunni c with
  | None => c
  | Some p =>
      let fraction1 := if eqb O (Point_distanceFrom O (c0 c) p) (lit O 0 1 0x0p+0%float)
                       then lit O 43 100 0x1.b851eb851eb85p-2%float
                       else dvd O (Point_distanceFrom O (c0 c) (c1 c)) (Point_distanceFrom O (c0 c) p) in
      let fraction2 := if eqb O (Point_distanceFrom O (c3 c) p) (lit O 0 1 0x0p+0%float)
                       then lit O 73 100 0x1.75c28f5c28f5cp-1%float
                       else dvd O (Point_distanceFrom O (c3 c) (c2 c)) (Point_distanceFrom O (c3 c) p) in
      let avg := dvd O (add O fraction2 fraction1) (lit O 2 1 0x1p+1%float) in
      if ltb O (ofZ O 0) avg && ltb O avg (ofZ O 1)
      then C4 (c0 c) (Point_lerp O (c0 c) p avg) (Point_lerp O (c3 c) p avg) (c3 c)
      else c
  end.
Definition seg_balanced (s : segment T) : segment T :=
  match s with SCubic c => SCubic (cubic_balanced c) | _ => s end.

(* dict key equality of Segment: same class, and (hash + isclose-equality, i.e. effectively) the same coordinates *)
Definition pt_eqb (a b : pt T) : bool := eqb O (px a) (px b) && eqb O (py a) (py b).
Definition seg_keyeq (a b : segment T) : bool :=
  match a, b with
  | SLine (L2 a0 a1), SLine (L2 b0 b1) => pt_eqb a0 b0 && pt_eqb a1 b1
  | SQuad (Q3 a0 a1 a2), SQuad (Q3 b0 b1 b2) => pt_eqb a0 b0 && pt_eqb a1 b1 && pt_eqb a2 b2
  | SCubic (C4 a0 a1 a2 a3), SCubic (C4 b0 b1 b2 b3) => pt_eqb a0 b0 && pt_eqb a1 b1 && pt_eqb a2 b2 && pt_eqb a3 b3
  | _, _ => false
  end.

(* ================================================================================================ *)
(* Value level: what each operation does to the list of segment VALUES of its receiver             *)
(* ================================================================================================ *)

(* ---------- splitAtPoints ---------- *)
(* newsplitlist: dict keyed by segment value, in insertion order *)
Definition sdict : Type := list (segment T * list T).
Fixpoint dict_add (d : sdict) (k : segment T) (t : T) : sdict :=
  match d with
  | [] => [(k, [t])]
  | (k', ts) :: r => if seg_keyeq k' k then (k', ts ++ [t]) :: r else (k', ts) :: dict_add r k t
  end.
Definition dict_build (splitlist : list (segment T * T)) : sdict :=
  map (fun e => (fst e, sort_ O (snd e))) (fold_left (fun d e => dict_add d (fst e) (snd e)) splitlist []).
(* `if seg in newsplitlist: tList = newsplitlist[seg]` and the while loop pops the list empty: the entry is consumed *)
Fixpoint dict_take (d : sdict) (k : segment T) : option (list T * sdict) :=
  match d with
  | [] => None
  | (k', ts) :: r => if seg_keyeq k' k then Some (ts, (k', []) :: r)
                     else match dict_take r k with Some (x, r') => Some (x, (k', ts) :: r') | None => None end
  end.
Definition eps8 : T := lit O 1 100000000 0x1.5798ee2308c3ap-27%float.
(* the while loop over one tList; [f] is the composition of the mapx re-mappings applied so far to the remaining
   entries.  Result: the pieces appended inside the loop and the final remainder; None = ZeroDivisionError in mapx *)
Fixpoint cut (f : T -> T) (seg : segment T) (ts : list T) : option (list (segment T) * segment T) :=
  match ts with
  | [] => Some ([], seg)
  | t0 :: r =>
      let t := f t0 in
      if ltb O t eps8 then cut f seg r
      else let '(s1, s2) := seg_split seg t in
           match r with
           | [] => Some ([s1], s2)
           | _ => if eqb O (sub O (ofZ O 1) t) (ofZ O 0) then None
                  else match cut (fun v => dvd O (sub O (f v) t) (sub O (ofZ O 1) t)) s2 r with
                       | Some (ps, last) => Some (s1 :: ps, last)
                       | None => None
                       end
           end
  end.
(* one step of `for seg in segs:`: either the same object is kept ([inl]) or it is replaced by new pieces ([inr]) *)
Definition split_one (d : sdict) (v : segment T) : option ((unit + list (segment T)) * sdict) :=
  match dict_take d v with
  | None => Some (inl tt, d)
  | Some (ts, d') =>
      match cut (fun x => x) v ts with
      | None => None
      | Some ([], _) => Some (inl tt, d')
      | Some (ps, last) => Some (inr (ps ++ [last]), d')
      end
  end.
Fixpoint split_walk (d : sdict) (vals : list (segment T)) : option (list (unit + list (segment T))) :=
  match vals with
  | [] => Some []
  | v :: r => match split_one d v with
              | None => None
              | Some (x, d') => match split_walk d' r with Some xs => Some (x :: xs) | None => None end
              end
  end.
(* the new value list described by a walk result *)
Fixpoint plan_values (vals : list (segment T)) (plan : list (unit + list (segment T))) : list (segment T) :=
  match vals, plan with
  | v :: r, inl _ :: pr => v :: plan_values r pr
  | _ :: r, inr ps :: pr => ps ++ plan_values r pr
  | _, _ => []
  end.

(* ---------- removeIrrelevantSegments: the merge test for (prev, this) ---------- *)
Definition line_angle (s : segment T) : T :=
  match s with SLine l => Point_angle O (Line_tangentAtTime O l (ofZ O 0)) | _ => ofZ O 0 end.
Definition merge_test (small absl : T) (prev this : segment T) : bool :=
  (ltb O (seg_length this) small || ltb O (seg_length this) absl)
  || (is_line prev && is_line this && isclose O (line_angle prev) (line_angle this)).
(* BezierPath.length: length = 0; for s in segs: length += s.length *)
Definition path_length (vals : list (segment T)) : T := fold_left (fun acc s => add O acc (seg_length s)) vals (ofZ O 0).

(* ---------- flatten: the lines that replace one curve ---------- *)
Fixpoint polyline (ps : list (pt T)) : list (segment T) :=
  match ps with
  | a :: ((b :: _) as r) => SLine (L2 a b) :: polyline r
  | _ => []
  end.
(* None = ZeroDivisionError (degree = 0) / divergence (degree < 0) / oracle rejected (does not start and end at the
   curve's ends).  Lines are handled by the caller. *)
Definition curve_flat (s : segment T) (degree : T) (samples : list (pt T)) : option (list (segment T)) :=
  if ltb O (seg_length s) degree then Some [SLine (L2 (seg_start s) (seg_end s))]
  else if leb O degree (ofZ O 0) then None
  else match samples with
       | a :: _ :: _ => if pt_eqb a (seg_start s) && pt_eqb (last samples a) (seg_end s) then Some (polyline samples) else None
       | _ => None                                  (* both samplers always return at least two points *)
       end.

(* ================================================================================================ *)
(* Heap level                                                                                        *)
(* ================================================================================================ *)
Definition set_seg (st : state) (id : nat) (so : segobj) : state :=
  ST (st_lists st) (upd (st_segs st) id so) (st_paths st) (st_nl st) (st_ns st) (st_np st).
Definition set_list (st : state) (lid : nat) (ids : list nat) : state :=
  ST (upd (st_lists st) lid ids) (st_segs st) (st_paths st) (st_nl st) (st_ns st) (st_np st).
Definition set_path (st : state) (pid : nat) (hp : hpath) : state :=
  ST (st_lists st) (st_segs st) (upd (st_paths st) pid hp) (st_nl st) (st_ns st) (st_np st).
Definition alloc_seg (st : state) (so : segobj) : state * nat :=
  (ST (st_lists st) (upd (st_segs st) (st_ns st) so) (st_paths st) (st_nl st) (S (st_ns st)) (st_np st), st_ns st).
Fixpoint alloc_segs (st : state) (l : list segobj) : state * list nat :=
  match l with
  | [] => (st, [])
  | so :: r => let '(st1, id) := alloc_seg st so in let '(st2, ids) := alloc_segs st1 r in (st2, id :: ids)
  end.
Definition alloc_list (st : state) (ids : list nat) : state * nat :=
  (ST (upd (st_lists st) (st_nl st) ids) (st_segs st) (st_paths st) (S (st_nl st)) (st_ns st) (st_np st), st_nl st).
Definition alloc_path (st : state) (hp : hpath) : state * nat :=
  (ST (st_lists st) (st_segs st) (upd (st_paths st) (st_np st) hp) (st_nl st) (st_ns st) (S (st_np st)), st_np st).
Definition fresh (v : segment T) : segobj := SO v None.

Fixpoint get_objs (st : state) (ids : list nat) : option (list segobj) :=
  match ids with
  | [] => Some []
  | id :: r => match st_segs st id, get_objs st r with Some so, Some l => Some (so :: l) | _, _ => None end
  end.
Definition get_vals (st : state) (ids : list nat) : option (list (segment T)) := option_map (map so_seg) (get_objs st ids).

(* SegmentRepresentation(self, segs): `if segments: self.segments = segments`, otherwise a new empty list *)
Definition wrap (st : state) (pid : nat) (closed : bool) (lid : nat) (ids : list nat) : state :=
  match ids with
  | [] => let '(st1, l') := alloc_list st [] in set_path st1 pid (HP (HSeg l') closed)
  | _ => set_path st pid (HP (HSeg lid) closed)
  end.
(* a new list object holding new segment objects, installed as the receiver's representation *)
Definition install_fresh (st : state) (pid : nat) (closed : bool) (vals : list (segment T)) : state :=
  let '(st1, ids) := alloc_segs st (map fresh vals) in
  let '(st2, lid) := alloc_list st1 ids in
  set_path st2 pid (HP (HSeg lid) closed).

(* BezierPath.asSegments: (state after the possible representation switch, closed, list id, its content) *)
Definition as_segments (st : state) (pid : nat) : option (state * bool * nat * list nat) :=
  match st_paths st pid with
  | None => None
  | Some hp =>
      match hp_rep hp with
      | HSeg lid => match st_lists st lid with Some ids => Some (st, hp_closed hp, lid, ids) | None => None end
      | HNode nl =>
          match fromNodelist O (hp_closed hp) nl with
          | None => None
          | Some vals =>
              let '(st1, ids) := alloc_segs st (map fresh vals) in
              let '(st2, lid) := alloc_list st1 ids in
              Some (set_path st2 pid (HP (HSeg lid) (hp_closed hp)), hp_closed hp, lid, ids)
          end
      end
  end.

(* BezierPath.asNodelist: (state after the possible switch, closed, the node list); None = IndexError (empty path) *)
Definition as_nodelist (st : state) (pid : nat) : option (state * bool * list (node T)) :=
  match st_paths st pid with
  | None => None
  | Some hp =>
      match hp_rep hp with
      | HNode nl => Some (st, hp_closed hp, nl)
      | HSeg lid =>
          match st_lists st lid with
          | None => None
          | Some ids =>
              match get_vals st ids with
              | None => None
              | Some vals => match toNodelist vals with
                             | None => None
                             | Some nl => Some (set_path st pid (HP (HNode nl) (hp_closed hp)), hp_closed hp, nl)
                             end
              end
          end
      end
  end.

(* apply f to every object of the list in turn (for s in segs: s.mutate()) *)
Fixpoint mutate_all (f : segment T -> segment T) (st : state) (ids : list nat) : option state :=
  match ids with
  | [] => Some st
  | id :: r => match st_segs st id with
               | Some so => mutate_all f (set_seg st id (SO (f (so_seg so)) (so_orig so))) r
               | None => None
               end
  end.

(* quadraticsToCubics: the new content of the (same) list *)
Fixpoint q2c_walk (st : state) (ids : list nat) : option (state * list nat) :=
  match ids with
  | [] => Some (st, [])
  | id :: r =>
      match st_segs st id with
      | None => None
      | Some so =>
          match seg_q2c (so_seg so) with
          | Some c => let '(st1, id') := alloc_seg st (fresh c) in
                      match q2c_walk st1 r with Some (st2, ids') => Some (st2, id' :: ids') | None => None end
          | None => match q2c_walk st r with Some (st2, ids') => Some (st2, id :: ids') | None => None end
          end
      end
  end.

(* splitAtPoints: allocate the pieces of a walk result *)
Fixpoint realize_plan (st : state) (ids : list nat) (plan : list (unit + list (segment T))) : state * list nat :=
  match ids, plan with
  | id :: r, inl _ :: pr => let '(st1, ids') := realize_plan st r pr in (st1, id :: ids')
  | _ :: r, inr ps :: pr => let '(st1, nids) := alloc_segs st (map fresh ps) in
                            let '(st2, ids') := realize_plan st1 r pr in (st2, nids ++ ids')
  | _, _ => (st, [])
  end.
Definition do_split (st : state) (pid : nat) (closed : bool) (ids : list nat) (vals : list (segment T))
                    (splitlist : list (segment T * T)) : state * out :=
  match split_walk (dict_build splitlist) vals with
  | None => (st, OErr)
  | Some plan =>
      let '(st1, nids) := realize_plan st ids plan in
      let '(st2, lid) := alloc_list st1 nids in
      (set_path st2 pid (HP (HSeg lid) closed), ONone)
  end.
(* [(segs[i], t) for (i, t) in cuts]; None = IndexError *)
Fixpoint resolve_cuts (vals : list (segment T)) (cuts : list (nat * T)) : option (list (segment T * T)) :=
  match cuts with
  | [] => Some []
  | (i, t) :: r => match nth_error vals i, resolve_cuts vals r with
                   | Some v, Some l => Some ((v, t) :: l)
                   | _, _ => None
                   end
  end.

(* removeIrrelevantSegments: the loop `for i in range(1, len(segs))`; acc = newsegs reversed (never empty) *)
Fixpoint remove_loop (small absl : T) (st : state) (acc : list nat) (rest : list nat) : option (state * list nat) :=
  match rest with
  | [] => Some (st, rev acc)
  | this :: r =>
      match acc with
      | [] => None
      | prev :: acc' =>
          match st_segs st prev, st_segs st this with
          | Some po, Some to =>
              if merge_test small absl (so_seg po) (so_seg to)
              then remove_loop small absl
                     (set_seg st this (SO (seg_set_start (so_seg to) (seg_start (so_seg po))) (so_orig to)))
                     (this :: acc') r
              else remove_loop small absl st (this :: prev :: acc') r
          | _, _ => None
          end
      end
  end.

(* flatten: for s in segs: segs_out.extend(s.flatten(degree)) *)
Fixpoint flatten_walk (st : state) (degree : T) (ids : list nat) (samples : list (list (pt T))) : option (state * list nat) :=
  match ids with
  | [] => Some (st, [])
  | id :: r =>
      match st_segs st id with
      | None => None
      | Some so =>
          if is_line (so_seg so)
          then match flatten_walk st degree r (tl samples) with Some (st1, ids') => Some (st1, id :: ids') | None => None end
          else match curve_flat (so_seg so) degree (hd [] samples) with
               | None => None
               | Some ls =>
                   let '(st1, nids) := alloc_segs st (map (fun v => SO v (Some id)) ls) in
                   match flatten_walk st1 degree r (tl samples) with
                   | Some (st2, ids') => Some (st2, nids ++ ids')
                   | None => None
                   end
               end
      end
  end.

Definition step (st : state) (o : op T) : state * out :=
  match o with
  | OAsSegments p =>
      match as_segments st p with Some (st1, _, _, _) => (st1, ONone) | None => (st, OErr) end
  | OAsNodelist p =>
      match as_nodelist st p with Some (st1, _, _) => (st1, ONone) | None => (st, OErr) end
  | OTranslate p v =>
      match as_segments st p with
      | None => (st, OErr)
      | Some (st1, cl, _, ids) =>
          match get_vals st1 ids with
          | None => (st1, OErr)
          | Some vals => (install_fresh st1 p cl (map (fun s => seg_translated s v) vals), ONone)
          end
      end
  | ORotate p about a =>
      match as_segments st p with
      | None => (st, OErr)
      | Some (st1, cl, _, ids) =>
          match get_vals st1 ids with
          | None => (st1, OErr)
          | Some vals => (install_fresh st1 p cl (map (fun s => seg_rotated s about a) vals), ONone)
          end
      end
  | OScale p k =>
      match as_segments st p with
      | None => (st, OErr)
      | Some (st1, cl, _, ids) =>
          match get_vals st1 ids with
          | None => (st1, OErr)
          | Some vals => (install_fresh st1 p cl (map (fun s => seg_scaled s k) vals), ONone)
          end
      end
  | OReverse p =>
      match as_segments st p with
      | None => (st, OErr)
      | Some (st1, cl, _, ids) =>
          match get_vals st1 ids with
          | None => (st1, OErr)
          | Some vals => (install_fresh st1 p cl (rev (map seg_reversed vals)), ONone)
          end
      end
  | OClone p =>
      match as_segments st p with
      | None => (st, OErr)
      | Some (st1, cl, _, ids) =>
          match get_vals st1 ids with
          | None => (st1, OErr)
          | Some vals =>
              let '(st2, nids) := alloc_segs st1 (map fresh (map seg_clone vals)) in
              let '(st3, lid) := alloc_list st2 nids in
              let '(st4, np) := alloc_path st3 (HP (HSeg lid) cl) in
              (st4, ONew np)
          end
      end
  | ORound p =>
      match as_segments st p with
      | None => (st, OErr)
      | Some (st1, cl, lid, ids) =>
          match mutate_all seg_rounded st1 ids with
          | None => (st1, OErr)
          | Some st2 => (wrap st2 p cl lid ids, ONone)
          end
      end
  | OBalance p =>
      match as_segments st p with
      | None => (st, OErr)
      | Some (st1, cl, lid, ids) =>
          match mutate_all seg_balanced st1 ids with
          | None => (st1, OErr)
          | Some st2 => (wrap st2 p cl lid ids, ONone)
          end
      end
  | OQ2C p =>
      match as_segments st p with
      | None => (st, OErr)
      | Some (st1, cl, lid, ids) =>
          match q2c_walk st1 ids with
          | None => (st1, OErr)
          | Some (st2, ids') => (set_list st2 lid ids', ONone)
          end
      end
  | OSplit p cuts =>
      match as_segments st p with
      | None => (st, OErr)
      | Some (st1, cl, _, ids) =>
          match get_vals st1 ids with
          | None => (st1, OErr)
          | Some vals =>
              match resolve_cuts vals cuts with
              | None => (st1, OErr)
              | Some sl => do_split st1 p cl ids vals sl
              end
          end
      end
  | OAddExtremes p =>
      match as_segments st p with
      | None => (st, OErr)
      | Some (st1, cl, _, ids) =>
          match get_vals st1 ids with
          | None => (st1, OErr)
          | Some vals =>
              do_split st1 p cl ids vals (flat_map (fun v => map (fun t => (v, t)) (seg_extremes v)) vals)
          end
      end
  | ORemove p rel absl =>
      match as_segments st p with
      | None => (st, OErr)
      | Some (st1, cl, _, ids) =>
          match ids, get_vals st1 ids with
          | first :: rest, Some vals =>
              let small := mul O (path_length vals) rel in
              match remove_loop small absl st1 [first] rest with
              | None => (st1, OErr)
              | Some (st2, nids) =>
                  let '(st3, lid) := alloc_list st2 nids in
                  (set_path st3 p (HP (HSeg lid) cl), ONone)
              end
          | _, _ => (st1, OErr)                                             (* IndexError: segs[0] of an empty path *)
          end
      end
  | OFlatten p degree samples =>
      match as_segments st p with
      | None => (st, OErr)
      | Some (st1, cl, _, ids) =>
          match flatten_walk st1 degree ids samples with
          | None => (st1, OErr)
          | Some (st2, nids) =>
              let '(st3, lid) := alloc_list st2 nids in
              let '(st4, np) := alloc_path st3 (HP (HSeg lid) cl) in
              (st4, ONew np)
          end
      end
  | OFromSegments p =>
      match as_segments st p with
      | None => (st, OErr)
      | Some (st1, _, lid, ids) =>
          match ids with
          | [] => let '(st2, l') := alloc_list st1 [] in
                  let '(st3, np) := alloc_path st2 (HP (HSeg l') true) in (st3, ONew np)
          | _ => let '(st2, np) := alloc_path st1 (HP (HSeg lid) true) in (st2, ONew np)
          end
      end
  | OFromNodelist p =>
      match as_nodelist st p with
      | None => (st, OErr)
      | Some (st1, cl, nl) =>
          (* klass(); closed; NodelistRepresentation(self, nl); self.asSegments() *)
          match fromNodelist O cl nl with
          | None => (st1, OErr)
          | Some vals =>
              let '(st2, ids) := alloc_segs st1 (map fresh vals) in
              let '(st3, lid) := alloc_list st2 ids in
              let '(st4, np) := alloc_path st3 (HP (HSeg lid) cl) in
              (st4, ONew np)
          end
      end
  | OAppend p q =>
      match as_segments st p with
      | None => (st, OErr)
      | Some (st1, cl, lid1, ids1) =>
          match as_segments st1 q with
          | None => (st1, OErr)
          | Some (st2, _, lid2, ids2) =>
              match rev ids1, ids2 with
              | [], _ => (wrap st2 p cl lid2 ids2, ONone)                    (* len(segs1) < 1 *)
              | _, [] => (wrap st2 p cl lid1 ids1, ONone)                    (* len(segs2) < 1 *)
              | last1 :: _, first2 :: _ =>
                  match st_segs st2 last1, st_segs st2 first2, st_segs st2 (last ids2 first2), get_vals st2 ids2 with
                  | Some l1, Some f2, Some l2, Some vals2 =>
                      let e1 := seg_end (so_seg l1) in
                      let dist1 := Point_distanceFrom O e1 (seg_start (so_seg f2)) in
                      let dist2 := Point_distanceFrom O e1 (seg_end (so_seg l2)) in
                      if ltb O (mul O (ofZ O 2) dist1) dist2
                      then (* segs2 = list(reversed([x.reversed() for x in segs2])): new objects *)
                        let rvals := rev (map seg_reversed vals2) in
                        let '(st3, rids) := alloc_segs st2 (map fresh rvals) in
                        let s2 := match rvals with v :: _ => seg_start v | [] => e1 end in
                        if negb (Point___eq__ O e1 s2)
                        then let '(st4, j) := alloc_seg st3 (fresh (SLine (L2 e1 s2))) in
                             (set_path (set_list st4 lid1 (ids1 ++ [j] ++ rids)) p (HP (HSeg lid1) cl), ONone)
                        else (set_path (set_list st3 lid1 (ids1 ++ rids)) p (HP (HSeg lid1) cl), ONone)
                      else
                        let s2 := seg_start (so_seg f2) in
                        if negb (Point___eq__ O e1 s2)
                        then let '(st3, j) := alloc_seg st2 (fresh (SLine (L2 e1 s2))) in
                             let st4 := set_list st3 lid1 (ids1 ++ [j]) in
                             (* segs1.extend(segs2): segs2 is read AFTER the append (it may be the same list object) *)
                             match st_lists st4 lid2 with
                             | Some cur2 => (set_path (set_list st4 lid1 (ids1 ++ [j] ++ cur2)) p (HP (HSeg lid1) cl), ONone)
                             | None => (st4, OErr)
                             end
                        else (set_path (set_list st2 lid1 (ids1 ++ ids2)) p (HP (HSeg lid1) cl), ONone)
                  | _, _, _, _ => (st2, OErr)
                  end
              end
          end
      end
  end.

(* ---------- histories ---------- *)
Definition run (st : state) (ops : list (op T)) : state := fold_left (fun s o => fst (step s o)) ops st.

(* ---------- observation ---------- *)
(* the observable value of a path: what asSegments() would return, and the closed flag *)
Definition view (st : state) (pid : nat) : option (list (segment T) * bool) :=
  match st_paths st pid with
  | None => None
  | Some hp =>
      match hp_rep hp with
      | HSeg lid => match st_lists st lid with
                    | Some ids => match get_vals st ids with Some vals => Some (vals, hp_closed hp) | None => None end
                    | None => None
                    end
      | HNode nl => match fromNodelist O (hp_closed hp) nl with Some vals => Some (vals, hp_closed hp) | None => None end
      end
  end.
(* the raw object graph of a path, for the correspondence: (closed, inl (list id, [(seg id, object)]) | inr nodes) *)
Definition raw (st : state) (pid : nat) : option (bool * (nat * list (nat * segobj) + list (node T))) :=
  match st_paths st pid with
  | None => None
  | Some hp =>
      match hp_rep hp with
      | HSeg lid => match st_lists st lid with
                    | Some ids => match get_objs st ids with
                                  | Some objs => Some (hp_closed hp, inl (lid, combine ids objs))
                                  | None => None
                                  end
                    | None => None
                    end
      | HNode nl => Some (hp_closed hp, inr nl)
      end
  end.

(* the empty heap, and loading an initial path (all objects new) *)
Definition empty_state : state := ST (fun _ => None) (fun _ => None) (fun _ => None) 0 0 0.
Definition new_path (st : state) (vals : list (segment T)) (closed : bool) : state :=
  let '(st1, ids) := alloc_segs st (map fresh vals) in
  let '(st2, lid) := alloc_list st1 ids in
  fst (alloc_path st2 (HP (HSeg lid) closed)).
End Heap.
