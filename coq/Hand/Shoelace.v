(* Hand-written model of the polygon part of beziers/path/__init__.py:

     def signed_area(self):
         flat = self.flatten()
         area = 0
         for s in flat.asSegments():
             area = area + (s.start.x * s.end.y) - (s.start.y * s.end.x)
         area = area / 2.0
         return area
     def area(self):      return abs(self.signed_area)
     def direction(self): return math.copysign(1, self.signed_area)

   The flattened path is represented by the list of its straight edges (in path order).  Generic over the scalar
   carrier, so the same text is executed on floats and reasoned about over R.  Also the edge list of
   geometricshapes.Rectangle(width, height, origin). *)
From Coq Require Import PrimFloat.
From Coq Require Import ZArith List Bool.
Import ListNotations.
From BZ Require Import Base.Ops Gen.Point Gen.Line.

Section Shoelace.
Context {T : Type} (O : Ops T).

(* loop body: area = area + (s.start.x * s.end.y) - (s.start.y * s.end.x), i.e. (area + a) - b *)
Definition shoelace_step (area : T) (s : seg2 T) : T :=
  sub O (add O area (mul O (px (l0 s)) (py (l1 s)))) (mul O (py (l0 s)) (px (l1 s))).

Definition signed_area_lines (ls : list (seg2 T)) : T :=
  dvd O (fold_left shoelace_step ls (ofZ O 0)) (lit O 2 1 0x1p+1%float).

Definition area_lines (ls : list (seg2 T)) : T := abs_ O (signed_area_lines ls).
Definition direction_lines (ls : list (seg2 T)) : T := copysign_ O (ofZ O 1) (signed_area_lines ls).

(* reversing a polyline: edges in reverse order, each edge reversed (Segment.reversed) *)
Definition reverse_lines (ls : list (seg2 T)) : list (seg2 T) := map (Line_reversed O) (rev ls).

(* geometricshapes.Rectangle: tl = origin + west * width / 2.0 + north * height / 2.0, ... with
   west = Point(-1,0), east = Point(1,0), north = Point(0,1), south = Point(0,-1);
   edges [Line(tl,tr), Line(tr,br), Line(br,bl), Line(bl,tl)] *)
Definition compass (dx dy : Z) : pt T := P (ofZ O dx) (ofZ O dy).
Definition rect_corner (origin : pt T) (hdir vdir : pt T) (width height : T) : pt T :=
  let two := lit O 2 1 0x1p+1%float in
  Point___add__ O (Point___add__ O origin (Point___truediv__ O (Point___mul__ O hdir width) two))
                  (Point___truediv__ O (Point___mul__ O vdir height) two).
Definition Rectangle_lines (width height : T) (origin : pt T) : list (seg2 T) :=
  let west := compass (-1) 0 in let east := compass 1 0 in
  let north := compass 0 1 in let south := compass 0 (-1) in
  let tl := rect_corner origin west north width height in
  let tr := rect_corner origin east north width height in
  let bl := rect_corner origin west south width height in
  let br := rect_corner origin east south width height in
  [L2 tl tr; L2 tr br; L2 br bl; L2 bl tl].
End Shoelace.

(* a polyline that starts at [p] and ends at [q]: every edge starts exactly where the previous one ended *)
Fixpoint chain_from {T : Type} (p : pt T) (ls : list (seg2 T)) (q : pt T) : Prop :=
  match ls with
  | [] => p = q
  | l :: r => l0 l = p /\ chain_from (l1 l) r q
  end.

(* closed polyline: consecutive edges meet and the last edge ends where the first starts; [] is closed *)
Definition closed_chain {T : Type} (ls : list (seg2 T)) : Prop :=
  match ls with
  | [] => True
  | l :: r => chain_from (l1 l) r (l0 l)
  end.
