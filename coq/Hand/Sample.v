(* Hand-written model of the sampling loops, the path evaluation / arc-length lookup and the flatteners
   (properties C16 and C17).  Transcribed from

     utils/samplemixin.py   SampleMixin.sample, regularSample, regularSampleTValue
     path/__init__.py       BezierPath.length, pointAtTime, lengthAtTime, flatten
     cubicbezier.py         CubicBezier.flatten          quadraticbezier.py  QuadraticBezier.flatten
     line.py                Line.flatten

   Generic over the scalar carrier [Ops T]; executable on floats (bit-exact image of CPython) and reasoned about over R.
   Python exceptions are VALUES of the model ([Raise IndexError] ...); the two data-dependent while loops take explicit
   fuel and return [Raise OutOfFuel] when it runs out (never a normal value).  The loops are parameterised by the
   receiver's [pointAt : T -> res (pt T)], [lengthAt : T -> res T] and [len : T], so that the same text serves the three
   segment kinds (instantiated with the GENERATED X_pointAtTime / X_lengthAtTime / X_length) and whole paths
   (instantiated with path_pointAtTime / path_lengthAtTime / path_length below).

   Python ints that meet floats (t = 0, pointAtTime(1), len(segs), math.floor(t)) behave as the equal float (DESIGN 3).

       def sample(self, samples):
           step = 1.0 / float(samples)
           t = 0.0
           samples = []
           while t <= 1.0:
               samples.append(self.pointAtTime(t))
               t += step
           if t != 1.0:
               samples.append(self.pointAtTime(1))
           return samples

       def regularSample(self, samples):
           return [self.pointAtTime(t) for t in self.regularSampleTValue(samples)]

       def regularSampleTValue(self, samples):
           lut = []
           length = self.length
           if length == 0:
               return []
           step = 1.0 / length
           t = 0
           while t <= 1.0:
               lut.append((t, self.lengthAtTime(t)))
               t += step
           desiredLength = 0.0
           rSamples = []
           while desiredLength < length:
               while len(lut) > 0 and lut[0][1] < desiredLength:
                   lut.pop(0)
               if len(lut) == 0:
                   break
               rSamples.append(lut[0][0])
               desiredLength += length / samples
           if rSamples[-1] != 1.0:
               rSamples.append(1.0)
           return rSamples
*)
From Coq Require Import PrimFloat.
From Coq Require Import ZArith List Bool.
Import ListNotations.
From BZ Require Import Base.Ops Gen.Point Gen.Line Gen.Quad Gen.Cubic.

(* ---------- results with exceptions as values ---------- *)
Inductive exc := IndexError | ZeroDivisionError | ValueError | OverflowError | OutOfFuel.
Inductive res (A : Type) := Ok (a : A) | Raise (e : exc).
Arguments Ok {A}. Arguments Raise {A}.
Definition bind {A B : Type} (r : res A) (f : A -> res B) : res B :=
  match r with Ok a => f a | Raise e => Raise e end.
(* a list comprehension / for loop calling [f] in list order; the first exception wins *)
Fixpoint mapM {A B : Type} (f : A -> res B) (l : list A) : res (list B) :=
  match l with
  | [] => Ok []
  | a :: r => bind (f a) (fun b => bind (mapM f r) (fun bs => Ok (b :: bs)))
  end.
Fixpoint last_opt {A : Type} (l : list A) : option A :=        (* l[-1]; None = IndexError *)
  match l with [] => None | [a] => Some a | _ :: r => last_opt r end.
Definition exc_eqb (a b : exc) : bool :=
  match a, b with
  | IndexError, IndexError | ZeroDivisionError, ZeroDivisionError | ValueError, ValueError
  | OverflowError, OverflowError | OutOfFuel, OutOfFuel => true
  | _, _ => false
  end.
Definition res_eqb {A : Type} (e : A -> A -> bool) (x y : res A) : bool :=
  match x, y with Ok a, Ok b => e a b | Raise a, Raise b => exc_eqb a b | _, _ => false end.

(* ================================================================================================ *)
(* 1. The sampling loops, generic in the receiver                                                     *)
(* ================================================================================================ *)
Section Sampling.
Context {T : Type} (O : Ops T).
Variable pointAt : T -> res (pt T).       (* self.pointAtTime *)
Variable lengthAt : T -> res T.           (* self.lengthAtTime *)
Variable len : T.                         (* self.length *)

Definition zero : T := ofZ O 0.
Definition one : T := ofZ O 1.

(* ---- sample ---- *)
(* the parameters at which the loop of [sample] calls pointAtTime, the final pointAtTime(1) included *)
Fixpoint sample_ts (fuel : nat) (step t : T) : res (list T) :=
  match fuel with
  | Datatypes.O => Raise OutOfFuel
  | S f =>
      if leb O t one then bind (sample_ts f step (add O t step)) (fun r => Ok (t :: r))
      else if neqb O t one then Ok [one] else Ok []
  end.
(* the loop itself: pointAtTime(t) is called before t advances, so the first exception is Python's *)
Fixpoint sample_loop (fuel : nat) (step t : T) : res (list (pt T)) :=
  match fuel with
  | Datatypes.O => Raise OutOfFuel
  | S f =>
      if leb O t one then
        bind (pointAt t) (fun p => bind (sample_loop f step (add O t step)) (fun r => Ok (p :: r)))
      else if neqb O t one then bind (pointAt one) (fun p => Ok [p]) else Ok []
  end.
Definition sample (fuel : nat) (samples : T) : res (list (pt T)) :=
  if eqb O samples zero then Raise ZeroDivisionError          (* 1.0 / float(samples) *)
  else sample_loop fuel (dvd O one samples) zero.

(* ---- regularSampleTValue ---- *)
Fixpoint lut_loop (fuel : nat) (step t : T) : res (list (T * T)) :=
  match fuel with
  | Datatypes.O => Raise OutOfFuel
  | S f =>
      if leb O t one then
        bind (lengthAt t) (fun v => bind (lut_loop f step (add O t step)) (fun r => Ok ((t, v) :: r)))
      else Ok []
  end.
(* while len(lut) > 0 and lut[0][1] < desiredLength: lut.pop(0) *)
Fixpoint pop_while (lut : list (T * T)) (d : T) : list (T * T) :=
  match lut with
  | [] => []
  | (t, v) :: r => if ltb O v d then pop_while r d else lut
  end.
Fixpoint walk (fuel : nat) (samples : T) (lut : list (T * T)) (d : T) : res (list T) :=
  match fuel with
  | Datatypes.O => Raise OutOfFuel
  | S f =>
      if ltb O d len then
        match pop_while lut d with
        | [] => Ok []                                                     (* break *)
        | ((t, _) :: _) as lut' =>
            if eqb O samples zero then Raise ZeroDivisionError             (* length / samples *)
            else bind (walk f samples lut' (add O d (dvd O len samples))) (fun rs => Ok (t :: rs))
        end
      else Ok []
  end.
Definition regularSampleTValue (fuel1 fuel2 : nat) (samples : T) : res (list T) :=
  if eqb O len zero then Ok []
  else bind (lut_loop fuel1 (dvd O one len) zero) (fun lut =>
       bind (walk fuel2 samples lut zero) (fun rs =>
       match last_opt rs with
       | None => Raise IndexError                                          (* rSamples[-1] of an empty list *)
       | Some l => if neqb O l one then Ok (rs ++ [one]) else Ok rs
       end)).
Definition regularSample (fuel1 fuel2 : nat) (samples : T) : res (list (pt T)) :=
  bind (regularSampleTValue fuel1 fuel2 samples) (mapM pointAt).

(* fuel from the inputs: min(cap, ceil x) for x >= 0, counted by repeated subtraction of 1 (no T -> nat conversion
   exists in Ops).  [cap] is a nat bound passed by the caller. *)
Fixpoint fuel_of (cap : nat) (x : T) : nat :=
  match cap with
  | Datatypes.O => Datatypes.O
  | S c => if leb O x zero then Datatypes.O else S (fuel_of c (sub O x one))
  end.
Definition sample_auto (cap : nat) (samples : T) : res (list (pt T)) :=
  sample (fuel_of cap samples + 3) samples.
Definition regularSampleTValue_auto (cap : nat) (samples : T) : res (list T) :=
  regularSampleTValue (fuel_of cap len + 3) (fuel_of cap samples + 3) samples.
Definition regularSample_auto (cap : nat) (samples : T) : res (list (pt T)) :=
  regularSample (fuel_of cap len + 3) (fuel_of cap samples + 3) samples.

(* for i in range(1, len(samples)): Line(samples[i - 1], samples[i]) *)
Fixpoint join_pts (l : list (pt T)) : list (seg2 T) :=
  match l with
  | a :: (b :: _) as r => L2 a b :: join_pts r
  | _ => []
  end.
End Sampling.

(* ================================================================================================ *)
(* 2. Segments and paths as receivers                                                                 *)
(* ================================================================================================ *)
Section Receivers.
Context {T : Type} (O : Ops T).

Definition seg_pointAt (s : segment T) (t : T) : pt T :=
  match s with
  | SLine l => Line_pointAtTime O l t | SQuad q => Quad_pointAtTime O q t | SCubic c => Cubic_pointAtTime O c t
  end.
Definition seg_length (s : segment T) : T :=
  match s with SLine l => Line_length O l | SQuad q => Quad_length O q | SCubic c => Cubic_length O c end.
(* s1, s2 = seg.splitAtTime(u); s1.length   ==  Segment.lengthAtTime (generated) *)
Definition seg_lengthAt (s : segment T) (t : T) : T :=
  match s with
  | SLine l => Line_lengthAtTime O l t | SQuad q => Quad_lengthAtTime O q t | SCubic c => Cubic_lengthAtTime O c t
  end.
Definition seg_start (s : segment T) : pt T :=
  match s with SLine l => l0 l | SQuad q => q0 q | SCubic c => c0 c end.
Definition seg_end (s : segment T) : pt T :=
  match s with SLine l => l1 l | SQuad q => q2 q | SCubic c => c3 c end.

(* list access by an integer-valued scalar (there is no T -> nat in Ops): l[k], l[:k] for k >= 0 *)
Fixpoint nth_T {A : Type} (l : list A) (k : T) : option A :=
  match l with
  | [] => None
  | a :: r => if ltb O k (one O) then Some a else nth_T r (sub O k (one O))
  end.
Fixpoint take_T {A : Type} (l : list A) (k : T) : list A :=
  match l with
  | [] => []
  | a :: r => if ltb O k (one O) then [] else a :: take_T r (sub O k (one O))
  end.
Fixpoint drop_T {A : Type} (l : list A) (k : T) : list A :=
  match l with
  | [] => []
  | _ :: r => if ltb O k (one O) then l else drop_T r (sub O k (one O))
  end.
(* Python indexing and slicing with a possibly negative integer *)
Definition py_index {A : Type} (l : list A) (k : T) : option A :=
  if ltb O k (zero O) then nth_T (rev l) (sub O (neg O k) (one O)) else nth_T l k.
Definition py_slice_to {A : Type} (l : list A) (k : T) : list A :=
  if ltb O k (zero O) then rev (drop_T (rev l) (neg O k)) else take_T l k.
(* math.floor: ValueError on NaN, OverflowError on an infinity *)
Definition py_floor (x : T) : res T :=
  if negb (eqb O x x) then Raise ValueError
  else if isinf_ O x then Raise OverflowError
  else Ok (floor_ O x).

(*  def length(self):
        segs = self.asSegments(); length = 0
        for s in segs: length += s.length
        return length                                                                            *)
Definition sum_lengths (segs : list (segment T)) : T :=
  fold_left (fun acc s => add O acc (seg_length s)) segs (ofZ O 0).
Definition path_length (segs : list (segment T)) : T := sum_lengths segs.

(*  def pointAtTime(self, t):
        segs = self.asSegments()
        if t == 1.0: return segs[-1].pointAtTime(1)
        t *= len(segs)
        seg = segs[int(math.floor(t))]
        return seg.pointAtTime(t - math.floor(t))                                                *)
Definition path_pointAtTime (segs : list (segment T)) (t : T) : res (pt T) :=
  if eqb O t (one O) then
    match last_opt segs with None => Raise IndexError | Some s => Ok (seg_pointAt s (one O)) end
  else
    let t' := mul O t (ofZ O (Z.of_nat (length segs))) in
    bind (py_floor t') (fun k =>
    match py_index segs k with
    | None => Raise IndexError
    | Some s => Ok (seg_pointAt s (sub O t' k))
    end).

(*  def lengthAtTime(self, t):
        segs = self.asSegments()
        if t == 1.0: return self.length
        t *= len(segs)
        length = 0
        for s in segs[: int(math.floor(t))]: length += s.length
        seg = segs[int(math.floor(t))]
        s1, s2 = seg.splitAtTime(t - math.floor(t))
        length += s1.length
        return length                                                                            *)
Definition path_lengthAtTime (segs : list (segment T)) (t : T) : res T :=
  if eqb O t (one O) then Ok (path_length segs)
  else
    let t' := mul O t (ofZ O (Z.of_nat (length segs))) in
    bind (py_floor t') (fun k =>
    let acc := sum_lengths (py_slice_to segs k) in
    match py_index segs k with
    | None => Raise IndexError
    | Some s => Ok (add O acc (seg_lengthAt s (sub O t' k)))
    end).

(* the sampling methods of the four receivers *)
Definition seg_sample (cap : nat) (s : segment T) (samples : T) : res (list (pt T)) :=
  sample_auto O (fun t => Ok (seg_pointAt s t)) cap samples.
Definition seg_regularSampleTValue (cap : nat) (s : segment T) (samples : T) : res (list T) :=
  regularSampleTValue_auto O (fun t => Ok (seg_lengthAt s t)) (seg_length s) cap samples.
Definition seg_regularSample (cap : nat) (s : segment T) (samples : T) : res (list (pt T)) :=
  regularSample_auto O (fun t => Ok (seg_pointAt s t)) (fun t => Ok (seg_lengthAt s t)) (seg_length s) cap samples.
Definition path_sample (cap : nat) (segs : list (segment T)) (samples : T) : res (list (pt T)) :=
  sample_auto O (path_pointAtTime segs) cap samples.
Definition path_regularSampleTValue (cap : nat) (segs : list (segment T)) (samples : T) : res (list T) :=
  regularSampleTValue_auto O (path_lengthAtTime segs) (path_length segs) cap samples.
Definition path_regularSample (cap : nat) (segs : list (segment T)) (samples : T) : res (list (pt T)) :=
  regularSample_auto O (path_pointAtTime segs) (path_lengthAtTime segs) (path_length segs) cap samples.
End Receivers.

(* ================================================================================================ *)
(* 3. Flattening                                                                                      *)
(* ================================================================================================ *)
(*  CubicBezier.flatten(self, degree=8):                  QuadraticBezier.flatten(self, degree=8):
        ss = []                                               ss = []
        if self.length < degree:                              if self.length < degree:
            line = Line(self[0], self[3])                         line = Line(self[0], self[2])
            line._orig = self                                     line._orig = self
            return [line]                                         return [line]
        samples = self.regularSample(self.length / degree)    samples = self.sample(self.length / degree)
        for i in range(1, len(samples)):                      (same loop)
            line = Line(samples[i - 1], samples[i])
            line._orig = self
            ss.append(line)
        return ss
    Line.flatten(self, _degree=8):  return [self]
    BezierPath.flatten(self, degree=8):
        segs = []
        for s in self.asSegments(): segs.extend(s.flatten(degree))
        flat = BezierPath.fromSegments(segs); flat.closed = self.closed
        return flat

   An edge of the result is a Line together with its [_orig] attribute: [Some curve] when the line was cut from that
   curve, [None] for a line constructed by Line(...) and never tagged.  A segment of the receiver carries the [_orig]
   it has as a Python object (meaningful for lines only: a Line flattens to ITSELF, tag included). *)
Section Flatten.
Context {T : Type} (O : Ops T).
Definition edge : Type := (seg2 T * option (segment T))%type.
Definition tseg : Type := (segment T * option (segment T))%type.

Definition tag_all (c : segment T) (ls : list (seg2 T)) : list edge := map (fun l => (l, Some c)) ls.

Definition Cubic_flatten (cap : nat) (c : seg4 T) (degree : T) : res (list edge) :=
  let L := Cubic_length O c in
  if ltb O L degree then Ok [(L2 (c0 c) (c3 c), Some (SCubic c))]
  else if eqb O degree (zero O) then Raise ZeroDivisionError           (* self.length / degree *)
  else bind (seg_regularSample O cap (SCubic c) (dvd O L degree)) (fun pts => Ok (tag_all (SCubic c) (join_pts pts))).

Definition Quad_flatten (cap : nat) (q : seg3 T) (degree : T) : res (list edge) :=
  let L := Quad_length O q in
  if ltb O L degree then Ok [(L2 (q0 q) (q2 q), Some (SQuad q))]
  else if eqb O degree (zero O) then Raise ZeroDivisionError
  else bind (seg_sample O cap (SQuad q) (dvd O L degree)) (fun pts => Ok (tag_all (SQuad q) (join_pts pts))).

Definition Line_flatten (l : seg2 T) (orig : option (segment T)) (_degree : T) : res (list edge) := Ok [(l, orig)].

Definition seg_flatten (cap : nat) (s : tseg) (degree : T) : res (list edge) :=
  match fst s with
  | SLine l => Line_flatten l (snd s) degree
  | SQuad q => Quad_flatten cap q degree
  | SCubic c => Cubic_flatten cap c degree
  end.

Definition path_flatten (cap : nat) (segs : list tseg) (closed : bool) (degree : T) : res (list edge * bool) :=
  bind (mapM (fun s => seg_flatten cap s degree) segs) (fun ls => Ok (concat ls, closed)).
End Flatten.

(* ---------- comparison helpers for the correspondence files (float instance) ---------- *)
Definition segment_feq (a b : segment float) : bool :=
  match a, b with
  | SLine x, SLine y => seg2_feq x y | SQuad x, SQuad y => seg3_feq x y | SCubic x, SCubic y => seg4_feq x y
  | _, _ => false
  end.
Definition orig_feq (a b : option (segment float)) : bool :=
  match a, b with None, None => true | Some x, Some y => segment_feq x y | _, _ => false end.
Definition edge_feq (a b : seg2 float * option (segment float)) : bool :=
  seg2_feq (fst a) (fst b) && orig_feq (snd a) (snd b).
Definition flat_feq (a b : list (seg2 float * option (segment float)) * bool) : bool :=
  list_eqb edge_feq (fst a) (fst b) && Bool.eqb (snd a) (snd b).
