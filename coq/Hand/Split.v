(* Hand-written model of BezierPath.splitAtPoints and BezierPath.addExtremes (path/__init__.py):

     def splitAtPoints(self, splitlist):
         def mapx(v, ds): return (v - ds) / (1 - ds)
         segs = self.asSegments()
         newsegs = []
         newsplitlist = {}                              # cluster splitlist by seg
         for seg, t in splitlist:
             if seg not in newsplitlist: newsplitlist[seg] = []
             newsplitlist[seg].append(t)
         for k in newsplitlist: newsplitlist[k] = sorted(newsplitlist[k])
         for seg in segs:                               # now walk the path
             if seg in newsplitlist:
                 tList = newsplitlist[seg]
                 while len(tList) > 0:
                     t = tList.pop(0)
                     if t < 1e-8: continue
                     seg1, seg2 = seg.splitAtTime(t)
                     newsegs.append(seg1)
                     seg = seg2
                     for i in range(0, len(tList)): tList[i] = mapx(tList[i], t)
             newsegs.append(seg)
         self.activeRepresentation = SegmentRepresentation(self, newsegs)

     def addExtremes(self):
         segs = self.asSegments()
         splitlist = []
         for seg in segs:
             for t in seg.findExtremes(): splitlist.append((seg, t))
         self.splitAtPoints(splitlist)
         return self

   Value level: the model's input is the list `asSegments()` returns and the split list; its output is `newsegs`
   (the list the path's segment representation is replaced by).  `self.closed` is neither read nor written by either
   function, so it is not an input of the model.

   The dictionary.  `newsplitlist` is keyed by segment VALUE: CPython looks a key up by `hash` and then by identity or
   `==`.  Segment.__hash__ is the hash of the tuple of its points (Point.__hash__ = hash(x) << 32 ^ hash(y)) and
   Segment.__eq__ compares the orders and then the points with Point.__eq__ (relative tolerance 1e-9).  Two keys
   therefore match when their hashes agree AND the coordinates are close; hashes of floats agree when the floats are
   equal as numbers (hash(0.0) == hash(-0.0)).  The model's key equality [seg_keyeq] is: same kind and [eqb O] on every
   coordinate (numerical equality, so 0.0 and -0.0 are the same key, exactly as in Python).
   Caveats (outside the model):  (1) a hash collision between two numerically different but 1e-9-close coordinate
   tuples would make Python merge two keys the model keeps apart (needs a 64-bit collision of the tuple hash; never
   generated);  (2) NaN coordinates: [eqb O nan nan = false] while Python finds the same object by identity (and, since
   3.10, hash(nan) depends on the object): paths with NaN coordinates are excluded;  (3) int coordinates hash and compare
   like the equal floats, which is what the float carrier does anyway.
   The dictionary is an association list in first-insertion order (the order CPython iterates in; it is irrelevant for the
   result because the only iteration sorts each value list independently).

   The quirk the model keeps: the list stored under a key is CONSUMED (`pop(0)`) the first time a segment with that value
   is met in the walk, so a second segment with the same value finds `[]` and is appended unsplit.  [walk_path] threads the
   dictionary for that reason ([dict_take] returns the stored list and leaves `[]` behind).

   Errors.  `mapx` divides by `1 - ds`: Python raises ZeroDivisionError when that is 0.0 (ds == 1.0 and another parameter
   is still waiting in the list); the model returns [ZeroDiv] (nothing is assigned to the path in that case).  The while
   loop is data dependent only through the length of the list (one element is popped per round); it is modelled with
   explicit fuel = that length, [OutOfFuel] being a distinct error value that Proofs/C03.v shows is never returned.
   `sorted` is the stable insertion sort [sort_] of Base/Ops.v (observably what sorted() does on floats without NaN).
   The literal 1 in `1 - ds` is a Python int ([ofZ O 1]); 1e-8 is a float literal. *)
From Coq Require Import PrimFloat.
From Coq Require Import ZArith List Bool.
Import ListNotations.
From BZ Require Import Base.Ops Gen.Point Gen.Line Gen.Quad Gen.Cubic.

Inductive res (A : Type) := Ok (a : A) | ZeroDiv | OutOfFuel.
Arguments Ok {A}. Arguments ZeroDiv {A}. Arguments OutOfFuel {A}.
Definition res_map {A B : Type} (f : A -> B) (r : res A) : res B :=
  match r with Ok a => Ok (f a) | ZeroDiv => ZeroDiv | OutOfFuel => OutOfFuel end.

Section Split.
Context {T : Type} (O : Ops T).

(* mapx(v, ds) = (v - ds) / (1 - ds) *)
Definition mapx (v ds : T) : T := dvd O (sub O v ds) (sub O (ofZ O 1) ds).
(* for i in range(len(tList)): tList[i] = mapx(tList[i], t)  -- raises on the first element iff 1 - t == 0.0 *)
Definition remap (ds : T) (l : list T) : res (list T) :=
  match l with
  | [] => Ok []
  | _ => if eqb O (sub O (ofZ O 1) ds) (ofZ O 0) then ZeroDiv else Ok (map (fun v => mapx v ds) l)
  end.

(* seg.splitAtTime(t), by kind (generated kernels) *)
Definition seg_split (s : segment T) (t : T) : segment T * segment T :=
  match s with
  | SLine l => let '(a, b) := Line_splitAtTime O l t in (SLine a, SLine b)
  | SQuad q => let '(a, b) := Quad_splitAtTime O q t in (SQuad a, SQuad b)
  | SCubic c => let '(a, b) := Cubic_splitAtTime O c t in (SCubic a, SCubic b)
  end.

(* the inner while loop followed by `newsegs.append(seg)`: the pieces this segment contributes *)
Fixpoint split_walk_fuel (n : nat) (seg : segment T) (ts : list T) : res (list (segment T)) :=
  match ts with
  | [] => Ok [seg]
  | t :: rest =>
      match n with
      | 0%nat => OutOfFuel
      | S n' =>
          if ltb O t (lit O 1 100000000 0x1.5798ee2308c3ap-27%float) then split_walk_fuel n' seg rest
          else let '(s1, s2) := seg_split seg t in
               match remap t rest with
               | Ok rest' => res_map (cons s1) (split_walk_fuel n' s2 rest')
               | ZeroDiv => ZeroDiv
               | OutOfFuel => OutOfFuel
               end
      end
  end.
Definition split_walk (seg : segment T) (ts : list T) : res (list (segment T)) :=
  split_walk_fuel (length ts) seg ts.

(* ---- the dictionary keyed by segment value ---- *)
Definition pt_keyeq (a b : pt T) : bool := eqb O (px a) (px b) && eqb O (py a) (py b).
Definition seg_keyeq (a b : segment T) : bool :=
  match a, b with
  | SLine x, SLine y => pt_keyeq (l0 x) (l0 y) && pt_keyeq (l1 x) (l1 y)
  | SQuad x, SQuad y => pt_keyeq (q0 x) (q0 y) && pt_keyeq (q1 x) (q1 y) && pt_keyeq (q2 x) (q2 y)
  | SCubic x, SCubic y => pt_keyeq (c0 x) (c0 y) && pt_keyeq (c1 x) (c1 y) && pt_keyeq (c2 x) (c2 y) && pt_keyeq (c3 x) (c3 y)
  | _, _ => false
  end.

Definition dict := list (segment T * list T).

(* if seg not in d: d[seg] = [];  d[seg].append(t) *)
Fixpoint dict_append (d : dict) (k : segment T) (t : T) : dict :=
  match d with
  | [] => [(k, [t])]
  | (k', l) :: r => if seg_keyeq k' k then (k', l ++ [t]) :: r else (k', l) :: dict_append r k t
  end.
Definition group (splitlist : list (segment T * T)) : dict :=
  fold_left (fun d p => dict_append d (fst p) (snd p)) splitlist [].
(* for k in d: d[k] = sorted(d[k]) *)
Definition sort_values (d : dict) : dict := map (fun kv => (fst kv, sort_ O (snd kv))) d.

(* `if seg in d: tList = d[seg]` ... and the loop leaves that list empty *)
Fixpoint dict_take (d : dict) (k : segment T) : option (list T * dict) :=
  match d with
  | [] => None
  | (k', l) :: r =>
      if seg_keyeq k' k then Some (l, (k', []) :: r)
      else match dict_take r k with
           | None => None
           | Some (l', r') => Some (l', (k', l) :: r')
           end
  end.

(* for seg in segs: ... *)
Fixpoint walk_path (d : dict) (segs : list (segment T)) : res (list (segment T)) :=
  match segs with
  | [] => Ok []
  | s :: r =>
      match dict_take d s with
      | None => res_map (cons s) (walk_path d r)
      | Some (tl, d') =>
          match split_walk s tl with
          | Ok ps => res_map (app ps) (walk_path d' r)
          | ZeroDiv => ZeroDiv
          | OutOfFuel => OutOfFuel
          end
      end
  end.

Definition splitAtPoints (segs : list (segment T)) (splitlist : list (segment T * T)) : res (list (segment T)) :=
  walk_path (sort_values (group splitlist)) segs.

(* seg.findExtremes(), by kind (generated kernels) *)
Definition seg_extremes (s : segment T) : list T :=
  match s with
  | SLine l => Line_findExtremes O l
  | SQuad q => Quad_findExtremes O q
  | SCubic c => Cubic_findExtremes_False O c
  end.

Definition extremes_splitlist (segs : list (segment T)) : list (segment T * T) :=
  flat_map (fun s => map (fun t => (s, t)) (seg_extremes s)) segs.

Definition addExtremes (segs : list (segment T)) : res (list (segment T)) :=
  splitAtPoints segs (extremes_splitlist segs).

End Split.

(* bit-exact comparison of segment lists for the correspondence files *)
Definition segment_feq (a b : segment float) : bool :=
  match a, b with
  | SLine x, SLine y => seg2_feq x y
  | SQuad x, SQuad y => seg3_feq x y
  | SCubic x, SCubic y => seg4_feq x y
  | _, _ => false
  end.
Definition res_segs_feq (r : res (list (segment float))) (expected : option (list (segment float))) : bool :=
  match r, expected with
  | Ok l, Some e => list_eqb segment_feq l e
  | ZeroDiv, None => true
  | _, _ => false
  end.
